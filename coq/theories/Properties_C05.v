(* C05 — Kernels are symmetric, positive semi-definite and correctly differentiable.
   Only statements + `exact`; the proofs live in C05Proofs.v / C05Aux.v / C05Deriv.v / C05GaussReal.v / C05PointSetProofs.v /
   C05ExprProofs.v / C05BlocksProofs.v / C05TaskProofs.v / C05NormProofs.v / C05NormFloat.v, the executable model in C05Model.v /
   C05Expr.v / C05Blocks.v / C05Task.v / C05Norm.v.

   Setting.  The model is written once over an abstract carrier A; every theorem below holds for EVERY ordered
   field (record OrdField: field_theory with Leibniz equality + an order compatible with + and *, squares >= 0);
   `C05_ordered_field_instance` shows the canonical rationals Qc are one (so the premises are satisfiable), and
   the extracted model is run with exactly these Qc operations in the correspondence check.  sqrtA and expA are
   uninterpreted functions: a theorem that needs a law of them states it as a premise.
   Quantifiers: all kernel parameters, all input vectors/lists of any length, all batch sizes, all batch
   partitions (lists of lists), all coefficient matrices, all finite point sets for the quadratic forms.

   PROVED (unbounded):
     * symmetry k(x,z) = k(z,x) of linear, polynomial, monomial, Gaussian, ARD kernels and its preservation by
       scaling, weighted sums, products, normalisation, sub-ranges / model-based kernels (pull-back along any
       map), point-set kernels; the discrete kernel is symmetric iff its table is;
     * positive semi-definiteness (all quadratic forms sum_ij c_i c_j k(x_i,x_j) >= 0) of linear, polynomial
       (offset >= 0), monomial kernels and closure under positive scaling, non-negative weighted sums, products
       (algebraic Schur product via tensor features), normalisation, pull-backs (sub-range, model-based);
     * normalised kernels have diagonal 1 (premise: sqrtA is a square root of the non-zero diagonal value);
     * batch evaluation = matrix of single evaluations for the coded batch paths (inner-product matrix + offset
       + element-wise power, weighted sums of result matrices / weightsum, element-wise products, outer-product
       normaliser from 1-element batches, column sub-ranges) and the default scalar eval through 1-element batches;
     * featureDistanceSqr = k(x,x) - 2k(x,z) + k(z,z) (the 2-2k short cut only under the IS_NORMALIZED flag);
     * the block-wise assembled regularised Gram matrix depends only on the element list, hence not on the batch
       partition (instance: C03Model.repartition);
     * derivatives (C05Aux.v, forward-mode dual numbers over the same model code, see the comment there): the
       coded weighted input derivatives of linear, polynomial, monomial, Gaussian kernels and of scaled kernels,
       and the coded parameter derivatives (polynomial offset, Gaussian gamma), equal the tangent of the weighted
       sum of kernel values (MonomialKernel without side condition since its degree-1 repair in /repo;
       C05_monomial_degree1_old_gradient_refuted is the regression witness for the old code);
     * derivatives of the composed kernels (C05Deriv.v, same device, compositional specification DOK = value and
       tangent of the model code on dual numbers with parameters AND both inputs perturbed): ARDKernelUnconstrained
       (input gradient, per-dimension parameter gradient through gamma_i = exp(p_i)), polynomial offset / Gaussian gamma
       in plain and unconstrained (exp) encoding, ScaledKernel, NormalizedKernel (input and parameter gradients:
       quotient rule through sqrt; premises: sqrtA is a non-zero square root of the diagonal values, 1+1 <> 0, base kernel
       symmetric; g_norm / p_norm divide the coefficients by sqrt(kxx)*sqrt(kzz) as /repo does since commit 65eec74d, so
       C05_derivatives_normalized_without_multiplicativity no longer needs "sqrtA multiplicative on the diagonal values";
       C05_derivatives_normalized keeps that premise in its statement, unused), WeightedSumKernel (log-weight gradients w_i (k_i W - N)/W^2,
       pass-through of the sub-kernels' parameter gradients scaled by w_i/W, input gradient), SubrangeKernelWrapper
       (gradient written into columns [a,b), parameter pass-through), ModelKernel with a LinearModel (chain rule:
       kernel parameters | model parameter gradient with the inner kernel's input gradients at (f x, f z) and (f z, f x));
       C05_input_derivative_of_spec / C05_parameter_derivative_of_spec turn a specification of ANY kernel expression
       built from these into the statement about weightedInputDerivative / weightedParameterDerivative (wid / wpdv);
       the dual division / square root used for the lifting are characterised as THE dual solutions of r*q = p, r*r = p.
   NO CODED DERIVATIVE (nothing to prove): ProductKernel sets neither HAS_FIRST_PARAMETER_DERIVATIVE nor
       HAS_FIRST_INPUT_DERIVATIVE and overrides neither routine; ModelKernel has no input derivative.  tools/c05.py
       checks the flags on every case (a kernel expression has a model gradient iff the C++ reports one).
   PROVED OVER THE REAL NUMBERS (C05GaussReal.v; A := R of Coq's Reals, expA := exp; R is an OrdField:
       C05_real_ordered_field_instance.  Axioms, as printed below: ClassicalDedekindReals.sig_forall_dec,
       ClassicalDedekindReals.sig_not_dec, FunctionalExtensionality.functional_extensionality_dep - the ones behind
       Coq's real numbers and exp; nothing else):
     * C05_psd_gaussian: forall n, g >= 0, all finite weighted point lists in R^n: sum_ij c_i c_j exp(-g |x_i-x_j|^2) >= 0
       (the full statement that C05_psd_gaussian_partial left open; route: exp = limit of its Taylor sums, every
       Taylor sum of exp(2g<x,z>) is a non-negative combination of monomial kernels and has a finite feature map,
       quadratic forms are continuous in the kernel values, limits of non-negative reals are non-negative);
       C05_psd_exponentiated_inner_product discharges the premise of C05_psd_gaussian_partial (kept, any expA);
     * C05_psd_ard: the same for the ARD kernel with all gamma_i >= 0 (pull-back of the Gaussian kernel along
       x_i |-> sqrt(gamma_i) x_i; no condition on the length of the gamma vector);
     * C05_limit_features_*: the class LimRepOn of kernels that are point-wise limits of kernels with finite non-negative
       feature maps contains every kernel with a feature map, the Gaussian and the ARD kernel, is closed under ScaledKernel
       (factor >= 0), WeightedSumKernel (weights >= 0), ProductKernel, NormalizedKernel (ANY normaliser function),
       pull-backs (ModelKernel, MklKernel components), SubrangeKernel, PointSetKernel (non-empty sets), and every member
       is positive semi-definite (C05_limit_features_implies_psd);
     * C05_psd_expression: EVERY kernel expression of the grammar that the generator / harness / driver use (C05Expr.kexp:
       Linear, Polynomial, Monomial, GaussianRbf, ARD, Normalized, Scaled, WeightedSum, Product, Subrange, Model(LinearModel),
       nested to any depth) with admissible parameters (adm: offsets, gammas, factors, weights >= 0, sub-ranges inside the
       input dimension) denotes a positive semi-definite kernel; C05_psd_expression_point_set: PointSetKernel over any such
       expression.  den e is executed next to the C++ kernel on every case (field SE, batch path bden e: field BE).
     * C05_limit_closure_* / C05_psd_gaussian_task_kernel / C05_psd_multi_task_kernel(_expression) (C05TaskProofs.v, model
       C05Task.v): LimClos = closure of the feature-map kernels under point-wise sequential limits (inductive) is closed
       under sums, products (Schur), k |-> exp(c k) for c >= 0 and "Gaussian kernel in the feature space of k", contains every
       admissible kernel expression, and its members are positive semi-definite; GaussianTaskKernel's table (Gaussian of
       the distances between the kernel mean embeddings of the tasks' examples; tasks without example allowed) is a
       positive semi-definite DiscreteKernel on the task indices for every symmetric input kernel of the class and
       gamma >= 0; MultiTaskKernel (input kernel x task kernel) is positive semi-definite.  The table is the one
       computeMatrix() produces from a cleared matrix: before /repo's repair (fix: m_matrix.clear()) every
       setParameterVector() accumulated onto the previous table (entries > 1, not PSD) - monitored in every T case
       (check task-kernel-reinit: table unchanged, symmetric, unit diagonal, no negative eigenvalue after
       setParameterVector(parameterVector()) round trips).  Not covered: setGamma()/setWidth() do not recompute the table.
   PROVED (any ordered field, no axioms), added with the extension:
     * C05_features_discrete_factorised: a DiscreteKernel whose table is a Gram matrix a a^T has a feature map (PSD);
     * C05_expression_symmetric / C05_expression_batch: every kernel expression is symmetric and its batch path is the
       matrix of single evaluations (on the points where every NormalizedKernel inside has a non-zero normaliser);
       C05_features_expression: expressions without exponentials (non-zero weight sums) have a finite feature map, hence
       are positive semi-definite in every ordered field; C05_features_point_set: PointSetKernel keeps a feature map
       (feature of a set = mean of the features of its points);
     * C05_mixed_gram_is_matrix_of_single_evaluations / _partition_invariant: calculateMixedKernelMatrix is entry-wise
       k(x_i, z_j), independent of the batching of both datasets (model C05Blocks.gram_mixed, field MX);
     * C05_kernel_matrix_parameter_derivative / _partition_invariant: calculateKernelMatrixParameterDerivative (loop over the
       batch pairs j <= i, sub-matrices of the weights, factor 2 off the diagonal; model C05Blocks.kmpd, field KD) equals
       weightedParameterDerivative of the whole Gram matrix = sum_ij W_ij dk(x_i,x_j)/dp for symmetric weights and a
       symmetric coded gradient, hence does not depend on the batching.
   PROVED (any ordered field, no axioms), ORDER OF OPERATIONS OF NormalizedKernel (C05Norm.v: norm_single = v / sqrt a / sqrt b as in
       eval(x1,x2); norm_batch = v / (sqrt a * sqrt b) as in both batch overloads, matrices norm_rowdiv (state-less: per row
       row / (sqrtKxx * sqrtKyy)) and norm_outer (with state: kxy / outer_prod(sqrt kxx, sqrt kyy)); norm_doc = v / sqrt(a * b), the
       DOCUMENTED formula, which no value routine computes; v = k(x,z), a = k(x,x), b = k(z,z)):
     * C05_normalized_single_order_eq_batch_order, C05_normalized_stateless_batch_eq_state_batch,
       C05_normalized_single_matrix_eq_batch_matrix: the three coded orders agree (square roots non-zero);
     * C05_normalized_coded_orders_eq_documented / _single_matrix_eq_documented_matrix / _single_eval_is_documented_value: they equal
       k(x,z) / sqrt(k(x,x) k(z,z)) when k(x,x), k(z,z) > 0 (premises: sqrtA returns a non-negative root of a, b and a*b; the order is
       antisymmetric at 0 - OrdField does not demand it; then sqrt(a*b) = sqrt a * sqrt b is derived, not assumed);
     * C05_normalized_diagonal_one_coded_orders / _documented_order / _single_eval_diagonal_one: 1 on the diagonal in every order;
     * C05_normalized_eval_overloads_agree: state-less batch (base batch result, diagonal from SINGLE base evaluations), batch with
       state (diagonal from 1-element BATCH evaluations) = matrix of single evaluations; C05_normalized_coded_single_is_model /
       _coded_state_batch_is_model: these are the functions k_norm / b_norm of the older theorems;
     * C05_normalized_orders_real: the premises hold for Coq's reals with the real sqrt (real-number axioms).
   PROVED IN IEEE BINARY64 (C05NormFloat.v; Flocq 4.1 IEEE754.Bits b64_mult / b64_div / b64_sqrt, round to nearest even, evaluated by
       vm_compute, bit patterns compared; axioms as printed: the three real-number axioms above + Classical_Prop.classic, which Flocq's
       correctness proofs inside the operations use): C05_normalized_orders_binary64_overflow_witness (k(x,x) = 2^600: coded orders
       give 1.0, v / sqrt(a*b) gives 0), _underflow_witness (2^-600: 1.0 vs +infinity), _offdiagonal_witness (0.5 vs 0), hence
       C05_normalized_one_division_order_refuted_binary64: the documented order is NOT equivalent to the coded one on doubles (this is
       seeded change C05-5; the same defect was in /repo's derivative weights until 65eec74d).  NOT proved: a general binary64
       theorem "the coded orders do not overflow when the quotient is representable" (false without |k(x,z)| <= sqrt(k(x,x) k(z,z)):
       2^1000 / sqrt(2^-1000) overflows before the division by sqrt(2^1000)); rounding errors of any kernel.
   ONLY COMPARED / MONITORED (tools/c05.py): MAGNITUDE STREAM on every run (W cases: the generated kernel expressions, polynomial
       degrees up to 8, on integer inputs multiplied by 2^e such that k(x,x) reaches 2^+-500 .. 2^+-940 ~ 1e+-150 .. 1e+-280 while
       every correct intermediate stays a normal double): the property's clauses with RELATIVE tolerances (symmetry, batch = single,
       normalised diagonal, feature distance, Gram assembly / batching, eigenvalues of the rescaled Gram matrix), the exact
       metamorphic relations value(2^e x) = 2^(e deg) value(x) and weightedInputDerivative(2^e x) = 2^(e (deg-1)) ... (x) for
       homogeneous expressions (checks magnitude-scaling, derivative-scaling), the whole model in floating point at 1e-11 relative,
       and - the tie of C05Norm - norm_single_mat / norm_rowdiv / norm_outer run on the base-kernel numbers printed by the C++
       (N lines) must reproduce eval single / batch / batch-with-state BIT FOR BIT; the run also counts on how many lines norm_doc
       would differ (obligation: > 0).  Non-homogeneous expressions have no derivative monitor at extreme magnitudes (model
       comparison only).  Further: the correspondence of the C++ with this model (exact on
       integer/dyadic inputs, 1e-11 otherwise), including every g_ / p_ function above against the C++ derivative calls and
       the new model functions den / bden / gram_mixed / kmpd / gt_matrix / k_mtask (fields SE, BE, MX, KD, TK, MT);
       eigenvalues of the FLOATING-POINT Gram matrices (the theorems over R say nothing about rounding); derivatives of
       point-set kernels, MklKernel and of PolynomialKernel with the degree as parameter (finite differences only: the
       degree is a discrete parameter, PointSetKernel/MklKernel gradients are not modelled); sparse inputs;
       KernelMatrix::entry/row/matrix (compared with the single evaluations). *)
From Coq Require Import List Arith Bool.
From Coq Require Import QArith Qcanon.
From SharkV Require Import C03Model C05Model C05Proofs C05Aux C05Deriv.
Import ListNotations.

Theorem C05_ordered_field_instance : OrdField (Q2Qc 0) 1%Qc Qcplus Qcmult Qcminus Qcdiv Qcopp Qcinv Qcle.
Proof. exact Qc_ordfield. Qed.
Print Assumptions C05_ordered_field_instance.

Section Statements.
Variable A : Type.
Variables (zero one : A) (add mul sub div : A -> A -> A) (opp inv : A -> A) (le : A -> A -> Prop).
Variables (sqrtA expA : A -> A).
Hypothesis OF : OrdField zero one add mul sub div opp inv le.
Notation vec := (list A).
Notation dotA := (dot A zero add mul).
Notation PSD := (PSDOn A zero add mul le).
Notation GRep := (GramRepOn A zero add mul le).
Notation dim := (dimP A).

(* ---- symmetry ---- *)
Theorem C05_sym_linear : forall x z : vec, k_lin A zero add mul x z = k_lin A zero add mul z x.
Proof. exact (sym_lin A zero one add mul sub div opp inv le OF). Qed.
Theorem C05_sym_polynomial : forall d c (x z : vec), k_poly A zero one add mul d c x z = k_poly A zero one add mul d c z x.
Proof. exact (sym_poly A zero one add mul sub div opp inv le OF). Qed.
Theorem C05_sym_monomial : forall d (x z : vec), k_mono A zero one add mul d x z = k_mono A zero one add mul d z x.
Proof. exact (sym_mono A zero one add mul sub div opp inv le OF). Qed.
Theorem C05_sym_gaussian : forall g (x z : vec), k_gauss A zero add mul sub opp expA g x z = k_gauss A zero add mul sub opp expA g z x.
Proof. exact (sym_gauss A zero one add mul sub div opp inv le expA OF). Qed.
Theorem C05_sym_ard : forall gs (x z : vec), k_ard A zero add mul sub opp expA gs x z = k_ard A zero add mul sub opp expA gs z x.
Proof. exact (sym_ard A zero one add mul sub div opp inv le expA OF). Qed.
Theorem C05_sym_discrete : forall tbl : list (list A),
  (forall i j, nth j (nth i tbl []) zero = nth i (nth j tbl []) zero) -> forall i j, k_disc A zero tbl i j = k_disc A zero tbl j i.
Proof. exact (sym_disc A zero). Qed.
Theorem C05_sym_scaled : forall X f (k : X -> X -> A), Sym A X k -> Sym A X (k_scaled A mul X f k).
Proof. exact (sym_scaled A mul). Qed.
Theorem C05_sym_weighted_sum : forall X (wks : list (A * (X -> X -> A))),
  Forall (fun wk => Sym A X (snd wk)) wks -> Sym A X (k_wsum A zero add mul div X wks).
Proof. exact (sym_wsum A zero add mul div). Qed.
Theorem C05_sym_product : forall X (ks : list (X -> X -> A)), Forall (Sym A X) ks -> Sym A X (k_prod A one mul X ks).
Proof. exact (sym_prod A one mul). Qed.
Theorem C05_sym_normalized : forall X (k : X -> X -> A), Sym A X k -> Sym A X (k_norm A div sqrtA X k).
Proof. exact (sym_norm A zero one add mul sub div opp inv le sqrtA OF). Qed.
(* SubrangeKernel (f = coordinates [a,b)) and ModelKernel (f = the model) *)
Theorem C05_sym_pullback : forall X Y (f : X -> Y) (k : Y -> Y -> A), Sym A Y k -> Sym A X (k_pull A f k).
Proof. exact (sym_pull A). Qed.
Theorem C05_sym_point_set : forall k : vec -> vec -> A, Sym A vec k -> Sym A (list vec) (k_pset A zero one add mul div k).
Proof. exact (sym_pset A zero one add mul sub div opp inv le OF). Qed.

(* ---- positive semi-definiteness: every quadratic form over every finite weighted point list ---- *)
Theorem C05_psd_linear : forall n, PSD vec (dim n) dotA.
Proof. exact (psd_linear A zero one add mul sub div opp inv le OF). Qed.
Theorem C05_psd_polynomial : forall n d c, le zero c -> PSD vec (dim n) (k_poly A zero one add mul d c).
Proof. exact (psd_polynomial A zero one add mul sub div opp inv le OF). Qed.
Theorem C05_psd_monomial : forall n d, PSD vec (dim n) (k_mono A zero one add mul d).
Proof. exact (psd_monomial A zero one add mul sub div opp inv le OF). Qed.
(* closure: a kernel with a finite non-negative feature representation (GRep) is PSD, and GRep is closed under
   the combinators; linear/polynomial/monomial kernels have one *)
Theorem C05_feature_map_implies_psd : forall X (P : X -> Prop) k, GRep X P k -> PSD X P k.
Proof. exact (gramrep_psd A zero one add mul sub div opp inv le OF). Qed.
Theorem C05_features_linear : forall n, GRep vec (dim n) dotA.
Proof. exact (gramrep_lin A zero one add mul sub div opp inv le OF). Qed.
Theorem C05_features_polynomial : forall n d c, le zero c -> GRep vec (dim n) (k_poly A zero one add mul d c).
Proof. exact (gramrep_poly A zero one add mul sub div opp inv le OF). Qed.
Theorem C05_features_monomial : forall n d, GRep vec (dim n) (k_mono A zero one add mul d).
Proof. exact (gramrep_mono A zero one add mul sub div opp inv le OF). Qed.
Theorem C05_features_scaled : forall X (P : X -> Prop) a k, le zero a -> GRep X P k -> GRep X P (k_scaled A mul X a k).
Proof. exact (gramrep_scaled A zero one add mul sub div opp inv le OF). Qed.
Theorem C05_features_weighted_sum : forall X (P : X -> Prop) wks,
  Forall (fun wk => le zero (fst wk) /\ GRep X P (snd wk)) wks -> wsum_den A zero add X wks <> zero ->
  GRep X P (k_wsum A zero add mul div X wks).
Proof. exact (gramrep_wsum A zero one add mul sub div opp inv le OF). Qed.
Theorem C05_features_product : forall X (P : X -> Prop) ks, Forall (GRep X P) ks -> GRep X P (k_prod A one mul X ks).
Proof. exact (gramrep_prod A zero one add mul sub div opp inv le OF). Qed.
Theorem C05_features_normalized : forall X (P : X -> Prop) k, GRep X P k -> GRep X P (k_norm A div sqrtA X k).
Proof. exact (gramrep_norm A zero one add mul sub div opp inv le sqrtA OF). Qed.
Theorem C05_features_pullback : forall X Y (f : X -> Y) (P : Y -> Prop) k,
  GRep Y P k -> GRep X (fun x => P (f x)) (k_pull A f k).
Proof. exact (gramrep_pull A zero add mul le). Qed.
Theorem C05_features_subrange : forall N a b k,
  (a <= b)%nat -> (b <= N)%nat -> GRep vec (dim (b - a)%nat) k -> GRep vec (dim N) (k_sub A a b k).
Proof. exact (gramrep_sub A zero add mul le). Qed.
(* PARTIAL: see header *)
Theorem C05_psd_gaussian_partial : forall n g,
  (forall a b, expA (add a b) = mul (expA a) (expA b)) ->
  PSD vec (dim n) (fun x z => expA (mul (mul (two A one add) g) (dotA x z))) ->
  PSD vec (dim n) (k_gauss A zero add mul sub opp expA g).
Proof. exact (psd_gaussian_partial A zero one add mul sub div opp inv le expA OF). Qed.

(* ---- normalised diagonal, feature-space distance ---- *)
Theorem C05_normalized_diagonal_one : forall X (k : X -> X -> A) x,
  mul (sqrtA (k x x)) (sqrtA (k x x)) = k x x -> sqrtA (k x x) <> zero -> k_norm A div sqrtA X k x x = one.
Proof. exact (norm_diag_one A zero one add mul sub div opp inv le sqrtA OF). Qed.
Theorem C05_feature_distance_identity : forall X (normalized : bool) (k : X -> X -> A) x z,
  (normalized = true -> k x x = one /\ k z z = one) ->
  feat_dist A one add mul sub X normalized k x z = add (sub (k x x) (mul (two A one add) (k x z))) (k z z).
Proof. exact (feat_dist_identity A zero one add mul sub div opp inv le OF). Qed.
(* LinearKernel overrides featureDistanceSqr by distanceSqr *)
Theorem C05_feature_distance_linear : forall x z : vec, length x = length z ->
  distsq A zero add mul sub x z = add (sub (dotA x x) (mul (two A one add) (dotA x z))) (dotA z z).
Proof. exact (distsq_dot A zero one add mul sub div opp inv le OF). Qed.

(* ---- batch evaluation = matrix of single evaluations ---- *)
Notation BOK := (BatchOKOn A).
Theorem C05_batch_linear : forall P, BOK vec P dotA (b_lin A zero add mul).
Proof. exact (batch_lin A zero add mul). Qed.
Theorem C05_batch_polynomial : forall P d c, BOK vec P (k_poly A zero one add mul d c) (b_poly A zero one add mul d c).
Proof. exact (batch_poly A zero one add mul sub div opp inv le OF). Qed.
Theorem C05_batch_monomial : forall P d, BOK vec P (k_mono A zero one add mul d) (b_mono A zero one add mul d).
Proof. exact (batch_mono A zero one add mul sub div opp inv le OF). Qed.
Theorem C05_batch_gaussian : forall P g, BOK vec P (k_gauss A zero add mul sub opp expA g) (b_gauss A zero add mul sub opp expA g).
Proof. exact (batch_gauss A zero add mul sub opp expA). Qed.
Theorem C05_batch_ard : forall P gs, BOK vec P (k_ard A zero add mul sub opp expA gs) (b_ard A zero add mul sub opp expA gs).
Proof. exact (batch_ard A zero add mul sub opp expA). Qed.
Theorem C05_batch_scaled : forall X P f k bk, BOK X P k bk -> BOK X P (k_scaled A mul X f k) (b_scaled A mul X f bk).
Proof. exact (batch_scaled A zero one add mul sub div opp inv le OF). Qed.
Theorem C05_batch_weighted_sum : forall X P wks wbs,
  Forall2 (wpair_ok A X P) wks wbs -> BOK X P (k_wsum A zero add mul div X wks) (b_wsum A zero add mul div X wbs).
Proof. exact (batch_wsum A zero add mul div). Qed.
Theorem C05_batch_product : forall X P ks bs, Forall2 (BOK X P) ks bs -> BOK X P (k_prod A one mul X ks) (b_prod A one mul X bs).
Proof. exact (batch_prod A one mul). Qed.
Theorem C05_batch_normalized : forall X (P : X -> Prop) k bk,
  BOK X P k bk -> BOK X (fun x => P x /\ sqrtA (k x x) <> zero) (k_norm A div sqrtA X k) (b_norm A zero mul div sqrtA X bk).
Proof. exact (batch_norm A zero one add mul sub div opp inv le sqrtA expA OF). Qed.
Theorem C05_batch_pullback : forall X Y (f : X -> Y) (P : Y -> Prop) k bk,
  BOK Y P k bk -> BOK X (fun x => P (f x)) (k_pull A f k) (b_pull A f bk).
Proof. exact (batch_pull A). Qed.
(* mechanism "default scalar eval builds 1-element batches" *)
Theorem C05_scalar_eval_via_one_element_batches : forall X (P : X -> Prop) k bk x z,
  BOK X P k bk -> P x -> P z -> single_via_batch A zero X bk x z = k x z.
Proof. exact (single_via_batch_ok A zero). Qed.

(* ---- mechanism "blockwise Gram assembly": independent of the batch partition ---- *)
Theorem C05_gram_is_function_of_elements : forall X (P : X -> Prop) k bk r (d : list (list X)),
  BOK X P k bk -> Forall (Forall P) d ->
  gram_reg A add X bk r d = add_diag_from A add 0%nat r (gram A X k (elems d)).
Proof. exact (gram_reg_elems A add). Qed.
Theorem C05_gram_partition_invariant : forall X (P : X -> Prop) k bk r (d1 d2 : list (list X)),
  BOK X P k bk -> Forall (Forall P) d1 -> Forall (Forall P) d2 ->
  elems d1 = elems d2 -> gram_reg A add X bk r d1 = gram_reg A add X bk r d2.
Proof. exact (gram_partition_invariant A add). Qed.
Theorem C05_gram_repartition_invariant : forall X (P : X -> Prop) k bk r szs (d d' : list (list X)),
  BOK X P k bk -> Forall (Forall P) d -> repartition szs d = Some d' ->
  gram_reg A add X bk r d' = gram_reg A add X bk r d.
Proof. exact (gram_repartition_invariant A add). Qed.

(* ---- derivatives: tangent (dual-number component) of the weighted kernel sum = <coded gradient, direction> ---- *)
Variable isz : A -> bool.
Hypothesis isz_spec : forall a, isz a = true <-> a = zero.
Notation D := (A * A)%type.
Notation WS := (wsumD A zero add mul).   (* tangent of sum_ij c_ij k(x_i + eps dx_i, z_j) *)
Notation GR := (wid_dot A zero add mul). (* sum_i <coded gradient row i, dx_i> *)

Theorem C05_input_derivative_linear : forall n C X1 dX1 X2, shapes A n C X1 dX1 X2 ->
  WS (k_lin D (dzero A zero) (dadd A add) (dmul A add mul)) C X1 dX1 X2 = GR (wid A zero add mul n (g_lin A) C X1 X2) dX1.
Proof. exact (wid_lin_correct A zero one add mul sub div opp inv le OF). Qed.
Theorem C05_input_derivative_polynomial : forall n d c C X1 dX1 X2, shapes A n C X1 dX1 X2 ->
  WS (k_poly D (dzero A zero) (done A zero one) (dadd A add) (dmul A add mul) d (c, zero)) C X1 dX1 X2
  = GR (wid A zero add mul n (g_poly A zero one add mul div isz d c) C X1 X2) dX1.
Proof. exact (wid_poly_correct A zero one add mul sub div opp inv le OF isz isz_spec). Qed.
Theorem C05_input_derivative_monomial : forall n d C X1 dX1 X2, shapes A n C X1 dX1 X2 ->
  WS (k_mono D (dzero A zero) (done A zero one) (dadd A add) (dmul A add mul) d) C X1 dX1 X2
  = GR (wid A zero add mul n (g_mono A zero one add mul div isz d) C X1 X2) dX1.
Proof. exact (wid_mono_correct A zero one add mul sub div opp inv le OF isz isz_spec). Qed.
Theorem C05_input_derivative_gaussian : forall n g C X1 dX1 X2, shapes A n C X1 dX1 X2 ->
  WS (k_gauss D (dzero A zero) (dadd A add) (dmul A add mul) (dsub A sub) (dopp A opp) (dexp A mul expA) (g, zero)) C X1 dX1 X2
  = GR (wid A zero add mul n (g_gauss A zero one add mul sub opp expA g) C X1 X2) dX1.
Proof. exact (wid_gauss_correct A zero one add mul sub div opp inv le expA OF). Qed.
Theorem C05_input_derivative_scaled : forall n f (kD : list D -> list D -> D) g C X1 dX1 X2, shapes A n C X1 dX1 X2 ->
  (forall x dx z, length x = n -> length dx = n -> length z = n -> snd (kD (combine x dx) (cstv A zero z)) = dotA (g x z) dx /\ length (g x z) = n) ->
  WS (k_scaled D (dmul A add mul) (list D) (f, zero) kD) C X1 dX1 X2 = GR (wid A zero add mul n (g_scaled A mul f g) C X1 X2) dX1.
Proof. exact (wid_scaled_correct A zero one add mul sub div opp inv le OF). Qed.
(* parameter derivatives: tangent in direction "parameter + eps" *)
Theorem C05_parameter_derivative_polynomial_offset : forall n d c C X1 X2, shapes A n C X1 X1 X2 ->
  wsumP A zero add mul (k_poly D (dzero A zero) (done A zero one) (dadd A add) (dmul A add mul) d (c, one)) C X1 X2
  = wpd A zero add mul (p_poly A zero one add mul div isz d c) C X1 X2.
Proof. exact (wpd_poly_correct A zero one add mul sub div opp inv le OF isz isz_spec). Qed.
Theorem C05_parameter_derivative_gaussian_gamma : forall n g C X1 X2, shapes A n C X1 X1 X2 ->
  wsumP A zero add mul (k_gauss D (dzero A zero) (dadd A add) (dmul A add mul) (dsub A sub) (dopp A opp) (dexp A mul expA) (g, one)) C X1 X2
  = wpd A zero add mul (p_gauss A zero add mul sub opp expA g) C X1 X2.
Proof. exact (wpd_gauss_correct A zero one add mul sub div opp inv le expA OF). Qed.
(* WS / wsumP are the tangent components of the model's own weighted kernel sum (C05Model.wsumk) run on dual numbers *)
Theorem C05_weighted_sum_tangent_inputs : forall kD C X1 dX1 X2,
  snd (wsumk D (dzero A zero) (dadd A add) (dmul A add mul) kD (map (cstv A zero) C) (zipdual A X1 dX1) (map (cstv A zero) X2)) = WS kD C X1 dX1 X2.
Proof. exact (wsumD_is_tangent A zero one add mul sub div opp inv le OF). Qed.
Theorem C05_weighted_sum_tangent_parameter : forall kD C X1 X2,
  snd (wsumk D (dzero A zero) (dadd A add) (dmul A add mul) kD (map (cstv A zero) C) (map (cstv A zero) X1) (map (cstv A zero) X2)) = wsumP A zero add mul kD C X1 X2.
Proof. exact (wsumP_is_tangent A zero one add mul sub div opp inv le OF). Qed.
(* what the tangent means: for + and * the dual component is the coefficient of t, with explicit remainder *)
Theorem C05_dual_numbers_sound : forall t (p q : D),
  add (re A add mul t p) (re A add mul t q) = re A add mul t (dadd A add p q) /\
  mul (re A add mul t p) (re A add mul t q) = add (re A add mul t (dmul A add mul p q)) (mul (mul t t) (mul (snd p) (snd q))).
Proof. exact (dual_sound A zero one add mul sub div opp inv le OF). Qed.
(* regression for the repaired MonomialKernel defect: the old coded gradient for degree 1 at orthogonal points was
   0, the true one (and the repaired one) is z *)
Theorem C05_monomial_degree1_old_gradient_refuted :
  let x := [one; zero] in let z := [zero; one] in let dx := [zero; one] in
  snd (k_mono D (dzero A zero) (done A zero one) (dadd A add) (dmul A add mul) 1%nat (combine x dx) (cstv A zero z)) = one /\
  dotA (g_mono_old A zero one add mul div isz 1%nat x z) dx = zero /\
  dotA (g_mono A zero one add mul div isz 1%nat x z) dx = one.
Proof. exact (mono1_old_refuted A zero one add mul sub div opp inv le OF isz isz_spec). Qed.

(* ---- derivatives of the composed kernels (C05Deriv.v): compositional specification DOK ----
   DOK Dir Pt n m K k g p: for every parameter direction dth (length m), points x, z (length n, in Pt) and input
   directions dx, dz (length n, in Dir), the model code K run on dual numbers (parameters + eps dth, x + eps dx,
   z + eps dz) has value k x z and tangent <p x z, dth> + <g x z, dx> + <g z x, dz>, and g, p have lengths n, m.
   K_xxx is the model code of C05Model.v (k_ard, k_norm, k_wsum, k_sub, k_pull/linmap, ...) instantiated with dual
   numbers; exp, division and square root are lifted by dexp, ddiv, dsqrt. *)
Notation DOKA := (DOK A zero add mul).
Notation gsc := (g_scaled A mul).
Theorem C05_dual_division_is_the_dual_quotient : forall p q : D, fst q <> zero ->
  dmul A add mul (ddiv A mul sub div p q) q = p /\ forall r, dmul A add mul r q = p -> r = ddiv A mul sub div p q.
Proof. exact (ddiv_spec A zero one add mul sub div opp inv le OF). Qed.
Theorem C05_dual_sqrt_is_the_dual_root : forall p : D,
  mul (sqrtA (fst p)) (sqrtA (fst p)) = fst p -> sqrtA (fst p) <> zero -> two A one add <> zero ->
  dmul A add mul (dsqrt A one add mul div sqrtA p) (dsqrt A one add mul div sqrtA p) = p /\
  forall r, fst r = sqrtA (fst p) -> dmul A add mul r r = p -> r = dsqrt A one add mul div sqrtA p.
Proof. exact (dsqrt_spec A zero one add mul sub div opp inv le sqrtA OF). Qed.
(* leaves (both arguments and the parameters perturbed at once) *)
Theorem C05_derivatives_linear : forall Dir Pt n,
  DOKA Dir Pt n 0 (K_lin A zero add mul) (k_lin A zero add mul) (g_lin A) (p_none A).
Proof. exact (DOK_lin A zero one add mul sub div opp inv le OF). Qed.
(* e = one: offset is the parameter; e = c: unconstrained encoding, offset c = exp(parameter), dual offset dexp (log c, t) = (c, c t) *)
Theorem C05_derivatives_polynomial : forall Dir Pt n d c e,
  DOKA Dir Pt n 1 (K_poly A zero one add mul d c e) (k_poly A zero one add mul d c) (g_poly A zero one add mul div isz d c)
       (gsc e (p_one A (p_poly A zero one add mul div isz d c))).
Proof. exact (DOK_poly A zero one add mul sub div opp inv le OF isz isz_spec). Qed.
Theorem C05_derivatives_monomial : forall Dir Pt n d,
  DOKA Dir Pt n 0 (K_mono A zero one add mul d) (k_mono A zero one add mul d) (g_mono A zero one add mul div isz d) (p_none A).
Proof. exact (DOK_mono A zero one add mul sub div opp inv le OF isz isz_spec). Qed.
Theorem C05_derivatives_gaussian : forall Dir Pt n g e,
  DOKA Dir Pt n 1 (K_gauss A zero add mul sub opp expA g e) (k_gauss A zero add mul sub opp expA g)
       (g_gauss A zero one add mul sub opp expA g) (gsc e (p_one A (p_gauss A zero add mul sub opp expA g))).
Proof. exact (DOK_gauss A zero one add mul sub div opp inv le expA OF). Qed.
(* (a) ARDKernelUnconstrained: parameters ps = log gammas, gammas = exp ps, dual gammas dexp (ps_i, dth_i) *)
Theorem C05_derivatives_ard : forall Dir Pt n ps, length ps = n ->
  DOKA Dir Pt n n (K_ard A zero add mul sub opp expA ps) (k_ard A zero add mul sub opp expA (map expA ps))
       (g_ard A zero one add mul sub opp expA (map expA ps)) (p_ard A zero add mul sub opp expA (map expA ps)).
Proof. exact (DOK_ard A zero one add mul sub div opp inv le expA OF). Qed.
Theorem C05_input_derivative_ard : forall n ps C X1 dX1 X2, length ps = n -> shapes A n C X1 dX1 X2 ->
  WS (K_ard A zero add mul sub opp expA ps (repeat zero n)) C X1 dX1 X2
  = GR (wid A zero add mul n (g_ard A zero one add mul sub opp expA (map expA ps)) C X1 X2) dX1.
Proof. exact (wid_ard_correct A zero one add mul sub div opp inv le expA OF). Qed.
Theorem C05_parameter_derivative_ard : forall n ps C X1 X2 dth, length ps = n -> shapes A n C X1 X1 X2 -> length dth = n ->
  wsumP A zero add mul (K_ard A zero add mul sub opp expA ps dth) C X1 X2
  = dotA (wpdv A zero add mul n (p_ard A zero add mul sub opp expA (map expA ps)) C X1 X2) dth.
Proof. exact (wpdv_ard_correct A zero one add mul sub div opp inv le expA OF). Qed.
(* closure: ScaledKernel *)
Theorem C05_derivatives_scaled : forall Dir Pt n m f K k g p, DOKA Dir Pt n m K k g p ->
  DOKA Dir Pt n m (K_scaled A zero add mul f K) (k_scaled A mul vec f k) (gsc f g) (gsc f p).
Proof. exact (DOK_scaled A zero one add mul sub div opp inv le OF). Qed.
(* (b) NormalizedKernel: Pt' = points where sqrtA is a non-zero square root of k(x,x); sqrt(kxx*kzz) (derivative code)
   = sqrt(kxx)*sqrt(kzz) (evaluation code) *)
Theorem C05_derivatives_normalized : forall (Dir Pt Pt' : vec -> Prop) n m K k g p,
  DOKA Dir Pt n m K k g p -> (forall x z, k x z = k z x) -> two A one add <> zero ->
  (forall x, Pt' x -> Pt x /\ mul (sqrtA (k x x)) (sqrtA (k x x)) = k x x /\ sqrtA (k x x) <> zero) ->
  (forall x z, Pt' x -> Pt' z -> sqrtA (mul (k x x) (k z z)) = mul (sqrtA (k x x)) (sqrtA (k z z))) ->
  DOKA Dir Pt' n m (K_norm A one add mul sub div sqrtA K) (k_norm A div sqrtA vec k)
       (g_norm A one add mul div opp sqrtA k g) (p_norm A one add mul div opp sqrtA k p).
Proof. exact (DOK_norm A zero one add mul sub div opp inv le sqrtA OF). Qed.
(* (c) WeightedSumKernel: weights 1, exp(lws_i); parameters = log-weights of kernels 2..n, then the sub-kernels'
   parameters (each sub-kernel gets its slice of the direction); division by the weight sum *)
Theorem C05_derivatives_weighted_sum : forall (Dir Pt : vec -> Prop) n (lws : vec) (cs : list (comp A)),
  length cs = S (length lws) -> Forall (cOK A zero add mul Dir Pt n) cs ->
  lsum A zero add (one :: map expA lws) <> zero ->
  let L := combine (one :: map expA lws) cs in
  DOKA Dir Pt n (length lws + msum A cs) (K_wsum A zero one add mul sub div expA lws cs)
       (k_wsum A zero add mul div vec (map (fun t => (fst t, c_k A (snd t))) L))
       (g_wsum A zero add mul div n (map (fun t => (fst t, c_g A (snd t))) L))
       (p_wsum A zero add mul sub div (map (fun t => (fst t, (c_k A (snd t), c_p A (snd t)))) L)).
Proof. exact (DOK_wsum A zero one add mul sub div opp inv le expA OF). Qed.
(* (d) SubrangeKernelWrapper (SubrangeKernel = WeightedSumKernel of wrappers): columns [a,b) of n *)
Theorem C05_derivatives_subrange : forall (Dir Dir' Pt Pt' : vec -> Prop) n m a b K k g p, (a <= b)%nat -> (b <= n)%nat ->
  DOKA Dir' Pt' (b - a)%nat m K k g p ->
  (forall v, length v = n -> Dir v -> Dir' (subvec A a b v)) -> (forall x, length x = n -> Pt x -> Pt' (subvec A a b x)) ->
  DOKA Dir Pt n m (K_sub A a b K) (k_sub A a b k) (g_sub A zero n a b g) (p_sub A a b p).
Proof. exact (DOK_sub A zero one add mul sub div opp inv le OF). Qed.
(* (d) ModelKernel with a LinearModel x |-> W x + b (mo outputs): parameters = kernel parameters | W row-major | b; chain
   rule through the inner kernel's INPUT gradients at (f x, f z) and (f z, f x) and the model's parameter gradient.
   No coded input derivative: input directions are zero (DirZero), the g component is a placeholder. *)
Theorem C05_derivatives_model_kernel : forall (Pt' : vec -> Prop) n mo mk (W : list vec) (b : vec) K k g p,
  length W = mo -> Forall (fun r => length r = n) W -> length b = mo ->
  DOKA (DirAll A) Pt' mo mk K k g p ->
  DOKA (DirZero A zero) (fun x => Pt' (linmap A zero add mul W b x)) n (mk + (mo * n + mo))%nat (K_model A zero add mul n W b mk K)
       (k_pull A (linmap A zero add mul W b) k) (fun _ _ => repeat zero n) (p_model A zero add mul W b g p).
Proof. exact (DOK_model A zero one add mul sub div opp inv le OF). Qed.
(* from the specification to the batch routines weightedInputDerivative / weightedParameterDerivative *)
Theorem C05_input_derivative_of_spec : forall (Pt : vec -> Prop) n m K k g p C X1 dX1 X2,
  DOKA (DirAll A) Pt n m K k g p -> shapes A n C X1 dX1 X2 -> Forall Pt X1 -> Forall Pt X2 ->
  WS (K (repeat zero m)) C X1 dX1 X2 = GR (wid A zero add mul n g C X1 X2) dX1.
Proof. exact (wid_of_DOK A zero one add mul sub div opp inv le OF). Qed.
Theorem C05_parameter_derivative_of_spec : forall (Dir Pt : vec -> Prop) n m K k g p C X1 X2 dth,
  DOKA Dir Pt n m K k g p -> Dir (repeat zero n) -> shapes A n C X1 X1 X2 -> Forall Pt X1 -> Forall Pt X2 -> length dth = m ->
  wsumP A zero add mul (K dth) C X1 X2 = dotA (wpdv A zero add mul m p C X1 X2) dth.
Proof. exact (wpdv_of_DOK A zero one add mul sub div opp inv le OF). Qed.
Theorem C05_dual_run_computes_the_kernel : forall (Dir Pt : vec -> Prop) n m K k g p dth x z,
  DOKA Dir Pt n m K k g p -> Dir (repeat zero n) -> length dth = m -> length x = n -> length z = n -> Pt x -> Pt z ->
  fst (K dth (cstv A zero x) (cstv A zero z)) = k x z.
Proof. exact (value_of_DOK A zero add mul). Qed.
End Statements.

Print Assumptions C05_sym_linear.
Print Assumptions C05_sym_polynomial.
Print Assumptions C05_sym_monomial.
Print Assumptions C05_sym_gaussian.
Print Assumptions C05_sym_ard.
Print Assumptions C05_sym_discrete.
Print Assumptions C05_sym_scaled.
Print Assumptions C05_sym_weighted_sum.
Print Assumptions C05_sym_product.
Print Assumptions C05_sym_normalized.
Print Assumptions C05_sym_pullback.
Print Assumptions C05_sym_point_set.
Print Assumptions C05_psd_linear.
Print Assumptions C05_psd_polynomial.
Print Assumptions C05_psd_monomial.
Print Assumptions C05_feature_map_implies_psd.
Print Assumptions C05_features_linear.
Print Assumptions C05_features_polynomial.
Print Assumptions C05_features_monomial.
Print Assumptions C05_features_scaled.
Print Assumptions C05_features_weighted_sum.
Print Assumptions C05_features_product.
Print Assumptions C05_features_normalized.
Print Assumptions C05_features_pullback.
Print Assumptions C05_features_subrange.
Print Assumptions C05_psd_gaussian_partial.
Print Assumptions C05_normalized_diagonal_one.
Print Assumptions C05_feature_distance_identity.
Print Assumptions C05_feature_distance_linear.
Print Assumptions C05_batch_linear.
Print Assumptions C05_batch_polynomial.
Print Assumptions C05_batch_monomial.
Print Assumptions C05_batch_gaussian.
Print Assumptions C05_batch_ard.
Print Assumptions C05_batch_scaled.
Print Assumptions C05_batch_weighted_sum.
Print Assumptions C05_batch_product.
Print Assumptions C05_batch_normalized.
Print Assumptions C05_batch_pullback.
Print Assumptions C05_scalar_eval_via_one_element_batches.
Print Assumptions C05_gram_is_function_of_elements.
Print Assumptions C05_gram_partition_invariant.
Print Assumptions C05_gram_repartition_invariant.
Print Assumptions C05_input_derivative_linear.
Print Assumptions C05_input_derivative_polynomial.
Print Assumptions C05_input_derivative_monomial.
Print Assumptions C05_input_derivative_gaussian.
Print Assumptions C05_input_derivative_scaled.
Print Assumptions C05_parameter_derivative_polynomial_offset.
Print Assumptions C05_parameter_derivative_gaussian_gamma.
Print Assumptions C05_weighted_sum_tangent_inputs.
Print Assumptions C05_weighted_sum_tangent_parameter.
Print Assumptions C05_dual_numbers_sound.
Print Assumptions C05_monomial_degree1_old_gradient_refuted.
Print Assumptions C05_dual_division_is_the_dual_quotient.
Print Assumptions C05_dual_sqrt_is_the_dual_root.
Print Assumptions C05_derivatives_linear.
Print Assumptions C05_derivatives_polynomial.
Print Assumptions C05_derivatives_monomial.
Print Assumptions C05_derivatives_gaussian.
Print Assumptions C05_derivatives_ard.
Print Assumptions C05_input_derivative_ard.
Print Assumptions C05_parameter_derivative_ard.
Print Assumptions C05_derivatives_scaled.
Print Assumptions C05_derivatives_normalized.
Print Assumptions C05_derivatives_weighted_sum.
Print Assumptions C05_derivatives_subrange.
Print Assumptions C05_derivatives_model_kernel.
Print Assumptions C05_input_derivative_of_spec.
Print Assumptions C05_parameter_derivative_of_spec.
Print Assumptions C05_dual_run_computes_the_kernel.

(* the premises of the conditional statements are satisfiable (over the rationals) *)
Example C05_normalized_premises_satisfiable :
  let k := C05Model.dot Qc (Q2Qc 0) Qcplus Qcmult in let x := [Q2Qc 3; Q2Qc 4] in let sq := fun _ : Qc => Q2Qc 5 in
  (sq (k x x) * sq (k x x) = k x x)%Qc /\ sq (k x x) <> Q2Qc 0 /\ k_norm Qc Qcdiv sq (list Qc) k x x = 1%Qc.
Proof. exact norm_diag_one_example. Qed.
Example C05_gaussian_partial_premises_satisfiable :
  let e := fun _ : Qc => 1%Qc in
  (forall a b : Qc, e (a + b) = e a * e b)%Qc /\
  forall n g, PSDOn Qc (Q2Qc 0) Qcplus Qcmult Qcle (list Qc) (dimP Qc n)
                (fun x z => e (two Qc 1%Qc Qcplus * g * C05Model.dot Qc (Q2Qc 0) Qcplus Qcmult x z)%Qc).
Proof. exact psd_gaussian_partial_hyps_satisfiable. Qed.
Example C05_derivative_premises_satisfiable :
  (forall a : Qc, qc_isz a = true <-> a = Q2Qc 0) /\
  shapes Qc 2%nat [[1%Qc; Q2Qc 2]] [[1%Qc; Q2Qc 0]] [[Q2Qc 0; 1%Qc]] [[Q2Qc 0; 1%Qc]; [1%Qc; 1%Qc]].
Proof. exact deriv_hyps_example. Qed.
(* premises of the composed-kernel derivative theorems: two <> 0, symmetric base kernel, sqrt laws on a point set
   (NormalizedKernel); component specifications and non-zero weight sum (WeightedSumKernel); shapes of W, b and an inner
   specification for all directions (ModelKernel); range and direction conditions (SubrangeKernel) *)
Example C05_composed_derivative_premises_satisfiable :
  let k := C05Model.dot Qc (Q2Qc 0) Qcplus Qcmult in
  let Pt' := fun x : list Qc => x = [Q2Qc 3; Q2Qc 4] \/ x = [Q2Qc 0; Q2Qc 5] in
  two Qc 1%Qc Qcplus <> Q2Qc 0 /\
  (forall x z, k x z = k z x) /\
  (forall x, Pt' x -> True /\ (qc_sq25 (k x x) * qc_sq25 (k x x) = k x x)%Qc /\ qc_sq25 (k x x) <> Q2Qc 0) /\
  (forall x z, Pt' x -> Pt' z -> qc_sq25 (k x x * k z z)%Qc = (qc_sq25 (k x x) * qc_sq25 (k z z))%Qc) /\
  (let cs := [qc_lincomp; qc_lincomp] in
   length cs = S (length [Q2Qc 0]) /\
   Forall (cOK Qc (Q2Qc 0) Qcplus Qcmult (DirAll Qc) (fun _ => True) 2) cs /\
   lsum Qc (Q2Qc 0) Qcplus (1%Qc :: map (fun _ : Qc => 1%Qc) [Q2Qc 0]) <> Q2Qc 0) /\
  (let W := [[1%Qc; Q2Qc 2]] in
   length W = 1%nat /\ Forall (fun r => length r = 2%nat) W /\ length [Q2Qc 0] = 1%nat /\
   DOK Qc (Q2Qc 0) Qcplus Qcmult (DirAll Qc) (fun _ => True) 1 0 (K_lin Qc (Q2Qc 0) Qcplus Qcmult) (k_lin Qc (Q2Qc 0) Qcplus Qcmult) (g_lin Qc) (p_none Qc)) /\
  ((0 <= 1)%nat /\ (1 <= 2)%nat /\
   (forall v : list Qc, length v = 2%nat -> DirAll Qc v -> DirAll Qc (subvec Qc 0 1 v))).
Proof. exact composed_deriv_hyps_example. Qed.

(* ================================================================== the real numbers: A := R, expA := exp ==== *)
From Coq Require Import Reals.
From SharkV Require Import C05GaussReal C05Expr C05PointSetProofs C05ExprProofs C05Blocks C05BlocksProofs C05Task C05TaskProofs.

Theorem C05_real_ordered_field_instance : OrdField 0%R 1%R Rplus Rmult Rminus Rdiv Ropp Rinv Rle.
Proof. exact R_ordfield. Qed.
(* the premise that C05_psd_gaussian_partial left open, for every factor c >= 0 (there: c = 2 g) *)
Theorem C05_psd_exponentiated_inner_product : forall n c, (0 <= c)%R ->
  PSDOn R 0%R Rplus Rmult Rle (list R) (dimP R n) (fun x z => exp (c * dot R 0%R Rplus Rmult x z)).
Proof. exact psd_exp_dot. Qed.
Theorem C05_psd_gaussian : forall n g, (0 <= g)%R ->
  PSDOn R 0%R Rplus Rmult Rle (list R) (dimP R n) (k_gauss R 0%R Rplus Rmult Rminus Ropp exp g).
Proof. exact psd_gaussian. Qed.
(* the same statement with PSDOn / dimP unfolded: pts = [(c_1,x_1); ...; (c_m,x_m)], qform = sum_ij c_i c_j k(x_i,x_j) *)
Theorem C05_psd_gaussian_quadratic_forms : forall n g (pts : list (R * list R)), (0 <= g)%R ->
  Forall (fun p => length (snd p) = n) pts ->
  (0 <= qform R 0%R Rplus Rmult (list R) (k_gauss R 0%R Rplus Rmult Rminus Ropp exp g) pts)%R.
Proof. exact (fun n g pts Hg H => psd_gaussian n g Hg pts H). Qed.
Theorem C05_psd_ard : forall n gs, Forall (Rle 0%R) gs ->
  PSDOn R 0%R Rplus Rmult Rle (list R) (dimP R n) (k_ard R 0%R Rplus Rmult Rminus Ropp exp gs).
Proof. exact psd_ard. Qed.
Print Assumptions C05_real_ordered_field_instance.
Print Assumptions C05_psd_exponentiated_inner_product.
Print Assumptions C05_psd_gaussian.
Print Assumptions C05_psd_gaussian_quadratic_forms.
Print Assumptions C05_psd_ard.

(* ---- kernels that are point-wise limits of kernels with finite non-negative feature maps (LimRepOn): this class
   contains every kernel with a feature map, the Gaussian and the ARD kernel, is closed under all combinators of the
   model, and every member is positive semi-definite ---- *)
Notation RLim := LimRepOn.
Notation RPSDOn := (PSDOn R 0%R Rplus Rmult Rle).
Notation RGRepOn := (GramRepOn R 0%R Rplus Rmult Rle).
Theorem C05_limit_features_implies_psd : forall X (P : X -> Prop) k, RLim X P k -> RPSDOn X P k.
Proof. exact limrep_psd. Qed.
Theorem C05_limit_features_of_features : forall X (P : X -> Prop) k, RGRepOn X P k -> RLim X P k.
Proof. exact limrep_of_gramrep. Qed.
Theorem C05_limit_features_gaussian : forall n g, (0 <= g)%R -> RLim (list R) (dimP R n) (k_gauss R 0%R Rplus Rmult Rminus Ropp exp g).
Proof. exact limrep_gauss. Qed.
Theorem C05_limit_features_ard : forall n gs, Forall (Rle 0%R) gs -> RLim (list R) (dimP R n) (k_ard R 0%R Rplus Rmult Rminus Ropp exp gs).
Proof. exact limrep_ard. Qed.
Theorem C05_limit_features_scaled : forall X (P : X -> Prop) c k, (0 <= c)%R -> RLim X P k -> RLim X P (k_scaled R Rmult X c k).
Proof. exact limrep_scaled. Qed.
(* over R the weight sum may even be 0 (Rinv 0 = 0) *)
Theorem C05_limit_features_weighted_sum : forall X (P : X -> Prop) wks,
  Forall (fun wk => (0 <= fst wk)%R /\ RLim X P (snd wk)) wks -> RLim X P (k_wsum R 0%R Rplus Rmult Rdiv X wks).
Proof. exact limrep_wsum. Qed.
Theorem C05_limit_features_product : forall X (P : X -> Prop) ks, Forall (RLim X P) ks -> RLim X P (k_prod R 1%R Rmult X ks).
Proof. exact limrep_prod. Qed.
Theorem C05_limit_features_normalized : forall X (sq : R -> R) (P : X -> Prop) k, RLim X P k -> RLim X P (k_norm R Rdiv sq X k).
Proof. exact limrep_norm. Qed.
Theorem C05_limit_features_pullback : forall X Y (f : X -> Y) (P : Y -> Prop) k, RLim Y P k -> RLim X (fun x => P (f x)) (k_pull R f k).
Proof. exact limrep_pull. Qed.
Theorem C05_limit_features_subrange : forall N a b k,
  (a <= b)%nat -> (b <= N)%nat -> RLim (list R) (dimP R (b - a)%nat) k -> RLim (list R) (dimP R N) (k_sub R a b k).
Proof. exact limrep_sub. Qed.
(* PointSetKernel on non-empty sets of points of P *)
Theorem C05_limit_features_point_set : forall (P : list R -> Prop) k,
  RLim (list R) P k -> RLim (list (list R)) (RPSetDom P) (k_pset R 0%R 1%R Rplus Rmult Rdiv k).
Proof. exact limrep_pset. Qed.

(* ---- ALL kernel expressions (C05Expr.kexp: the grammar of the generator, the harness and the driver; den e is the
   function the driver executes next to the C++ kernel on every case, field SE): every expression with admissible
   parameters (adm: offsets, gammas, factors, weights >= 0, sub-ranges inside the input dimension) denotes a positive
   semi-definite kernel over the reals; sq (the normaliser of NormalizedKernel) may be ANY function ---- *)
Theorem C05_psd_expression : forall (sq : R -> R) e n, adm R 0%R Rle n e ->
  RPSDOn (list R) (dimP R n) (den R 0%R 1%R Rplus Rmult Rminus Rdiv Ropp sq exp e).
Proof. exact psd_expr. Qed.
Theorem C05_psd_expression_point_set : forall (sq : R -> R) e n, adm R 0%R Rle n e ->
  RPSDOn (list (list R)) (RPSetDom (dimP R n)) (k_pset R 0%R 1%R Rplus Rmult Rdiv (den R 0%R 1%R Rplus Rmult Rminus Rdiv Ropp sq exp e)).
Proof. exact psd_pset_expr. Qed.
Print Assumptions C05_limit_features_implies_psd.
Print Assumptions C05_limit_features_of_features.
Print Assumptions C05_limit_features_gaussian.
Print Assumptions C05_limit_features_ard.
Print Assumptions C05_limit_features_scaled.
Print Assumptions C05_limit_features_weighted_sum.
Print Assumptions C05_limit_features_product.
Print Assumptions C05_limit_features_normalized.
Print Assumptions C05_limit_features_pullback.
Print Assumptions C05_limit_features_subrange.
Print Assumptions C05_limit_features_point_set.
Print Assumptions C05_psd_expression.
Print Assumptions C05_psd_expression_point_set.

(* ---- kernel expressions over ANY ordered field (no axioms) ---- *)
Section ExpressionStatements.
Variable A : Type.
Variables (zero one : A) (add mul sub div : A -> A -> A) (opp inv : A -> A) (le : A -> A -> Prop).
Variables (sqrtA expA : A -> A).
Hypothesis OF : OrdField zero one add mul sub div opp inv le.
Notation denA := (den A zero one add mul sub div opp sqrtA expA).
Notation bdenA := (bden A zero one add mul sub div opp sqrtA expA).
Theorem C05_expression_symmetric : forall e x z, denA e x z = denA e z x.
Proof. exact (den_sym A zero one add mul sub div opp inv le sqrtA expA OF). Qed.
(* the batch path of every expression = matrix of single evaluations, on the points where every NormalizedKernel
   inside divides by a non-zero normaliser (edom) *)
Theorem C05_expression_batch : forall e,
  BatchOKOn A (list A) (edom A zero one add mul sub div opp sqrtA expA e) (denA e) (bdenA e).
Proof. exact (bden_ok A zero one add mul sub div opp inv le sqrtA expA OF). Qed.
(* expressions without exponentials whose weight sums are non-zero have a finite non-negative feature map *)
Theorem C05_features_expression : forall e n, adm A zero le n e -> algebraic A zero add e ->
  GramRepOn A zero add mul le (list A) (dimP A n) (denA e).
Proof. exact (gramrep_expr A zero one add mul sub div opp inv le sqrtA expA OF). Qed.
(* PointSetKernel: the feature of a set is the mean of the features of its points *)
Theorem C05_features_point_set : forall (P : list A -> Prop) k, GramRepOn A zero add mul le (list A) P k ->
  GramRepOn A zero add mul le (list (list A)) (PSetDom A zero one add (list A) P) (k_pset A zero one add mul div k).
Proof. exact (gramrep_pset A zero one add mul sub div opp inv le OF). Qed.
End ExpressionStatements.
Print Assumptions C05_expression_symmetric.
Print Assumptions C05_expression_batch.
Print Assumptions C05_features_expression.
Print Assumptions C05_features_point_set.

(* adm / algebraic / the point-set domain are satisfiable: a normalised weighted sum of a Gaussian kernel and a product of
   an ARD kernel, a polynomial kernel and a Gaussian kernel on a sub-range, inputs of dimension 2 *)
Example C05_expression_premises_satisfiable :
  adm R 0%R Rle 2 (ENorm R (EWsum R [1%R; 2%R] [ERbf R (/ 2)%R; EProd R [EArd R [1%R; 2%R]; EPoly R 2 1%R; ESub R 0 1 (ERbf R 1%R)]])) /\
  algebraic Qc (Q2Qc 0) Qcplus (EWsum Qc [1%Qc; 1%Qc] [ELin Qc; EScaled Qc 1%Qc (EMono Qc 2)]) /\
  RPSetDom (dimP R 2) [[1%R; 2%R]].
Proof. exact expr_hyps_example. Qed.

(* ---- the block-wise dataset routines of KernelHelpers.h (C05Blocks.v; any ordered field, no axioms) ---- *)
Section BlockStatements.
Variable A : Type.
Variables (zero one : A) (add mul sub div : A -> A -> A) (opp inv : A -> A) (le : A -> A -> Prop).
Hypothesis OF : OrdField zero one add mul sub div opp inv le.
(* calculateMixedKernelMatrix: entry (i,j) = k(x_i, z_j) over the element lists of the two datasets, whatever their batching *)
Theorem C05_mixed_gram_is_matrix_of_single_evaluations : forall X (P : X -> Prop) k bk (d1 d2 : list (list X)),
  BatchOKOn A X P k bk -> Forall (Forall P) d1 -> Forall (Forall P) d2 ->
  gram_mixed A X bk d1 d2 = mk A X k (elems d1) (elems d2).
Proof. exact (gram_mixed_ok A). Qed.
Theorem C05_mixed_gram_partition_invariant : forall X (P : X -> Prop) k bk (d1 d2 d1' d2' : list (list X)),
  BatchOKOn A X P k bk -> Forall (Forall P) d1 -> Forall (Forall P) d2 -> Forall (Forall P) d1' -> Forall (Forall P) d2' ->
  elems d1 = elems d1' -> elems d2 = elems d2' -> gram_mixed A X bk d1 d2 = gram_mixed A X bk d1' d2'.
Proof. exact (gram_mixed_partition_invariant A). Qed.
(* calculateKernelMatrixParameterDerivative (blocks j <= i, sub-matrices of the weights, factor 2 off the diagonal) =
   weightedParameterDerivative of the whole Gram matrix, sum_ij W_ij dk(x_i,x_j)/dp, for symmetric weights W (n x n,
   n = number of elements) and a coded per-pair gradient p with p(x,z) = p(z,x) of constant length m *)
Theorem C05_kernel_matrix_parameter_derivative : forall (p : list A -> list A -> list A) m (W : list (list A)) (d : list (list (list A))),
  (forall x z, length (p x z) = m) ->
  (forall i j, nth j (nth i W []) zero = nth i (nth j W []) zero) -> (forall x z, p x z = p z x) ->
  square A W (length (elems d)) ->
  kmpd A zero one add mul (list A) (wpdv A zero add mul m p) W m d = wpdv A zero add mul m p W (elems d) (elems d).
Proof. exact (kmpd_correct_vec A zero one add mul sub div opp inv le OF). Qed.
Theorem C05_kernel_matrix_parameter_derivative_partition_invariant :
  forall (p : list A -> list A -> list A) m (W : list (list A)) (d1 d2 : list (list (list A))),
  (forall x z, length (p x z) = m) ->
  (forall i j, nth j (nth i W []) zero = nth i (nth j W []) zero) -> (forall x z, p x z = p z x) ->
  square A W (length (elems d1)) -> elems d1 = elems d2 ->
  kmpd A zero one add mul (list A) (wpdv A zero add mul m p) W m d1 = kmpd A zero one add mul (list A) (wpdv A zero add mul m p) W m d2.
Proof. exact (kmpd_partition_invariant_vec A zero one add mul sub div opp inv le OF). Qed.
End BlockStatements.
Print Assumptions C05_mixed_gram_is_matrix_of_single_evaluations.
Print Assumptions C05_mixed_gram_partition_invariant.
Print Assumptions C05_kernel_matrix_parameter_derivative.
Print Assumptions C05_kernel_matrix_parameter_derivative_partition_invariant.
(* the premises are satisfiable: gamma-gradient of the Gaussian kernel, symmetric 2x2 weights, two batches of one point *)
Example C05_kernel_matrix_parameter_derivative_premises_satisfiable :
  let p := p_one Qc (p_gauss Qc (Q2Qc 0) Qcplus Qcmult Qcminus Qcopp (fun _ => 1%Qc) 1%Qc) in
  let W := [[1%Qc; Q2Qc 2]; [Q2Qc 2; Q2Qc 3]] in
  let d := [[[1%Qc]]; [[Q2Qc 2]]] in
  (forall x z, length (p x z) = 1%nat) /\
  (forall i j, nth j (nth i W []) (Q2Qc 0) = nth i (nth j W []) (Q2Qc 0)) /\ (forall x z, p x z = p z x) /\
  square Qc W (length (concat d)).
Proof. exact kmpd_hyps_example. Qed.

(* ---- GaussianTaskKernel / MultiTaskKernel (MultiTaskKernel.h; model C05Task.v, run next to the C++ in the T cases) ----
   LimClos P = closure of the kernels with finite non-negative feature maps under point-wise sequential limits; closed under
   sums, products and k |-> exp(c k), c >= 0; contains every admissible kernel expression; members are PSD. *)
Theorem C05_limit_closure_implies_psd : forall X (P : X -> Prop) k, LimClos P k -> RPSDOn X P k.
Proof. exact limclos_psd. Qed.
Theorem C05_limit_closure_of_limit_features : forall X (P : X -> Prop) k, RLim X P k -> LimClos P k.
Proof. exact limclos_of_limrep. Qed.
Theorem C05_limit_closure_expression : forall (sq : R -> R) e n, adm R 0%R Rle n e ->
  LimClos (dimP R n) (den R 0%R 1%R Rplus Rmult Rminus Rdiv Ropp sq exp e).
Proof. exact limclos_expr. Qed.
Theorem C05_limit_closure_sum : forall X (P : X -> Prop) k1 k2, LimClos P k1 -> LimClos P k2 -> LimClos P (fun x z => (k1 x z + k2 x z)%R).
Proof. exact limclos_add. Qed.
(* Schur product theorem for the class *)
Theorem C05_limit_closure_product : forall X (P : X -> Prop) k1 k2, LimClos P k1 -> LimClos P k2 -> LimClos P (fun x z => (k1 x z * k2 x z)%R).
Proof. exact limclos_mul. Qed.
Theorem C05_limit_closure_exponential : forall X (P : X -> Prop) c k, (0 <= c)%R -> LimClos P k -> LimClos P (fun x z => exp (c * k x z)).
Proof. exact limclos_exp. Qed.
(* the Gaussian kernel in the feature space of k *)
Theorem C05_limit_closure_gaussian_in_feature_space : forall X (P : X -> Prop) g k, (0 <= g)%R -> LimClos P k ->
  LimClos P (fun x z => exp (- g * (k x x + k z z - 2 * k x z))).
Proof. exact limclos_gauss_feature. Qed.
(* GaussianTaskKernel: the table computed from multi-task data (input, task) is a positive semi-definite DiscreteKernel on
   the task indices < nt, for every symmetric input kernel of the class, gamma >= 0, all data with inputs in P
   (tasks without example included) *)
Theorem C05_psd_gaussian_task_kernel : forall (k : list R -> list R -> R) (P : list R -> Prop),
  (forall x z, k x z = k z x) -> LimClos P k -> forall g, (0 <= g)%R ->
  forall data : list (list R * nat), Forall (fun e => P (fst e)) data -> forall nt,
  RPSDOn nat (fun t => (t < nt)%nat) (k_disc R 0%R (gt_matrix R 0%R 1%R Rplus Rmult Rminus Rdiv Ropp exp k g data nt)).
Proof. exact psd_gtask. Qed.
(* MultiTaskKernel = input kernel x task kernel *)
Theorem C05_psd_multi_task_kernel : forall (k : list R -> list R -> R) (P : list R -> Prop),
  (forall x z, k x z = k z x) -> LimClos P k -> forall g, (0 <= g)%R ->
  forall data : list (list R * nat), Forall (fun e => P (fst e)) data ->
  forall (kin : list R -> list R -> R) (Pin : list R -> Prop) nt, LimClos Pin kin ->
  RPSDOn (list R * nat) (fun e => Pin (fst e) /\ (snd e < nt)%nat)
         (k_mtask R 0%R 1%R Rmult kin (gt_matrix R 0%R 1%R Rplus Rmult Rminus Rdiv Ropp exp k g data nt)).
Proof. exact psd_mtask. Qed.
Theorem C05_psd_multi_task_kernel_expression : forall (sq : R -> R) e_t e_in n g (data : list (list R * nat)) nt,
  adm R 0%R Rle n e_t -> adm R 0%R Rle n e_in -> (0 <= g)%R -> Forall (fun e => dimP R n (fst e)) data ->
  RPSDOn (list R * nat) (fun e => dimP R n (fst e) /\ (snd e < nt)%nat)
         (k_mtask R 0%R 1%R Rmult (den R 0%R 1%R Rplus Rmult Rminus Rdiv Ropp sq exp e_in)
                  (gt_matrix R 0%R 1%R Rplus Rmult Rminus Rdiv Ropp exp (den R 0%R 1%R Rplus Rmult Rminus Rdiv Ropp sq exp e_t) g data nt)).
Proof. exact psd_mtask_expr. Qed.
Print Assumptions C05_limit_closure_implies_psd.
Print Assumptions C05_limit_closure_of_limit_features.
Print Assumptions C05_limit_closure_expression.
Print Assumptions C05_limit_closure_sum.
Print Assumptions C05_limit_closure_product.
Print Assumptions C05_limit_closure_exponential.
Print Assumptions C05_limit_closure_gaussian_in_feature_space.
Print Assumptions C05_psd_gaussian_task_kernel.
Print Assumptions C05_psd_multi_task_kernel.
Print Assumptions C05_psd_multi_task_kernel_expression.
Example C05_task_kernel_premises_satisfiable :
  let data := [([1%R; 2%R], 0%nat); ([0%R; 1%R], 2%nat); ([3%R; 1%R], 0%nat)] in
  adm R 0%R Rle 2 (ERbf R 1%R) /\ Forall (fun e : list R * nat => dimP R 2 (fst e)) data /\
  (forall x z : list R, k_gauss R 0%R Rplus Rmult Rminus Ropp exp 1%R x z = k_gauss R 0%R Rplus Rmult Rminus Ropp exp 1%R z x).
Proof. exact task_hyps_example. Qed.
(* DiscreteKernel (any ordered field, no axioms): a table that is the Gram matrix of the rows of a factor a has a feature map *)
Theorem C05_features_discrete_factorised : forall A (zero one : A) add mul sub div opp inv le,
  OrdField zero one add mul sub div opp inv le -> forall (a : list (list A)) r (tbl : list (list A)),
  (forall i j, k_disc A zero tbl i j = dot A zero add mul (nth i a []) (nth j a [])) ->
  GramRepOn A zero add mul le nat (fun i => length (nth i a []) = r) (k_disc A zero tbl).
Proof. exact gramrep_disc_factor. Qed.
Print Assumptions C05_features_discrete_factorised.

(* ======== NormalizedKernel: order of operations (C05Norm.v / C05NormProofs.v / C05NormFloat.v) ========
   v = k(x,z), a = k(x,x), b = k(z,z).  norm_single: v / sqrt a / sqrt b (eval(x1,x2)); norm_batch: v / (sqrt a * sqrt b) (both batch
   overloads; matrices norm_rowdiv, norm_outer); norm_doc: v / sqrt(a * b) (the documented formula, NOT what is computed).
   posA t := 0 <= t /\ t <> 0; IsRoot t := 0 <= sqrtA t /\ sqrtA t * sqrtA t = t; AntiSym0 := 0 <= x -> 0 <= -x -> x = 0. *)
From SharkV Require Import C05Norm C05NormProofs C05NormFloat.
From Flocq Require Import IEEE754.Bits.
Section NormStatements.
Variable A : Type.
Variables (zero one : A) (add mul sub div : A -> A -> A) (opp inv : A -> A) (le : A -> A -> Prop).
Variable sqrtA : A -> A.
Hypothesis OF : OrdField zero one add mul sub div opp inv le.
Notation posA := (posA A zero le).
Notation IsRoot := (IsRoot A zero mul le sqrtA).
Notation AntiSym0 := (AntiSym0 A zero opp le).

(* the single-pair order and the batch order agree (wherever the square roots are non-zero) *)
Theorem C05_normalized_single_order_eq_batch_order : forall v a b, sqrtA a <> zero -> sqrtA b <> zero ->
  norm_single A div sqrtA v a b = norm_batch A mul div sqrtA v a b.
Proof. exact (norm_single_eq_batch A zero one add mul sub div opp inv le sqrtA OF). Qed.
(* both equal the documented k(x,z) / sqrt(k(x,x) k(z,z)) when k(x,x), k(z,z) > 0 *)
Theorem C05_normalized_coded_orders_eq_documented : forall v a b, AntiSym0 -> posA a -> posA b -> IsRoot a -> IsRoot b -> IsRoot (mul a b) ->
  norm_single A div sqrtA v a b = norm_doc A mul div sqrtA v a b /\ norm_batch A mul div sqrtA v a b = norm_doc A mul div sqrtA v a b.
Proof. exact (norm_orders_eq_doc A zero one add mul sub div opp inv le sqrtA OF). Qed.
(* 1 on the diagonal, in every order *)
Theorem C05_normalized_diagonal_one_coded_orders : forall a, a <> zero -> IsRoot a ->
  norm_single A div sqrtA a a a = one /\ norm_batch A mul div sqrtA a a a = one.
Proof. exact (norm_diag_orders A zero one add mul sub div opp inv le sqrtA OF). Qed.
Theorem C05_normalized_diagonal_one_documented_order : forall a, AntiSym0 -> posA a -> IsRoot a -> IsRoot (mul a a) ->
  norm_doc A mul div sqrtA a a a = one.
Proof. exact (norm_diag_doc A zero one add mul sub div opp inv le sqrtA OF). Qed.
(* matrix level, on the same base-kernel numbers R, kx, kz (what tools/c05.py runs bit for bit against the C++: fields NS, NB, NBS) *)
Theorem C05_normalized_stateless_batch_eq_state_batch : forall (R : list (list A)) kx kz,
  norm_rowdiv A mul div sqrtA R kx kz = norm_outer A mul div sqrtA R kx kz.
Proof. exact (norm_rowdiv_eq_outer A mul div sqrtA). Qed.
Theorem C05_normalized_single_matrix_eq_batch_matrix : forall (R : list (list A)) kx kz,
  Forall (fun a => sqrtA a <> zero) kx -> Forall (fun b => sqrtA b <> zero) kz ->
  norm_single_mat A div sqrtA R kx kz = norm_rowdiv A mul div sqrtA R kx kz.
Proof. exact (norm_single_mat_eq_rowdiv A zero one add mul sub div opp inv le sqrtA OF). Qed.
Theorem C05_normalized_single_matrix_eq_documented_matrix : forall (R : list (list A)) kx kz, AntiSym0 ->
  Forall (fun a => posA a /\ IsRoot a) kx -> Forall (fun b => posA b /\ IsRoot b) kz ->
  (forall a b, In a kx -> In b kz -> IsRoot (mul a b)) ->
  norm_single_mat A div sqrtA R kx kz = norm_doc_mat A mul div sqrtA R kx kz.
Proof. exact (norm_single_mat_eq_doc A zero one add mul sub div opp inv le sqrtA OF). Qed.
(* kernel level: k_norm_coded / b_norm_state are the existing model functions k_norm / b_norm; the three eval overloads give the
   matrix of single evaluations; the single evaluation is the documented value and 1 on the diagonal *)
Theorem C05_normalized_coded_single_is_model : forall X (k : X -> X -> A), k_norm_coded A div sqrtA X k = k_norm A div sqrtA X k.
Proof. exact (k_norm_coded_is_k_norm A div sqrtA). Qed.
Theorem C05_normalized_coded_state_batch_is_model : forall X (bk : list X -> list X -> list (list A)) X1 X2,
  b_norm_state A zero mul div sqrtA X bk X1 X2 = b_norm A zero mul div sqrtA X bk X1 X2.
Proof. exact (b_norm_state_is_b_norm A zero mul div sqrtA). Qed.
Theorem C05_normalized_eval_overloads_agree : forall X (k : X -> X -> A) (P : X -> Prop) bk X1 X2,
  BatchOKOn A X P k bk ->
  Forall (fun x => P x /\ sqrtA (k x x) <> zero) X1 -> Forall (fun x => P x /\ sqrtA (k x x) <> zero) X2 ->
  b_norm_nostate A mul div sqrtA X k bk X1 X2 = mk A X (k_norm_coded A div sqrtA X k) X1 X2 /\
  b_norm_state A zero mul div sqrtA X bk X1 X2 = mk A X (k_norm_coded A div sqrtA X k) X1 X2.
Proof. exact (norm_overloads_agree A zero one add mul sub div opp inv le sqrtA OF). Qed.
Theorem C05_normalized_single_eval_is_documented_value : forall X (k : X -> X -> A) x z, AntiSym0 -> posA (k x x) -> posA (k z z) ->
  IsRoot (k x x) -> IsRoot (k z z) -> IsRoot (mul (k x x) (k z z)) ->
  k_norm_coded A div sqrtA X k x z = k_norm_doc A mul div sqrtA X k x z.
Proof. exact (norm_coded_is_documented A zero one add mul sub div opp inv le sqrtA OF). Qed.
Theorem C05_normalized_single_eval_diagonal_one : forall X (k : X -> X -> A) x, k x x <> zero -> IsRoot (k x x) ->
  k_norm_coded A div sqrtA X k x x = one.
Proof. exact (norm_coded_diag_one A zero one add mul sub div opp inv le sqrtA OF). Qed.
(* derivative weights in the repaired order c / (sqrt kxx * sqrt kzz) (/repo 65eec74d): C05_derivatives_normalized without the
   premise that sqrtA is multiplicative on the diagonal values *)
Theorem C05_derivatives_normalized_without_multiplicativity : forall (expA : A -> A) (Dir Pt Pt' : list A -> Prop) n m K k g p,
  DOK A zero add mul Dir Pt n m K k g p -> (forall x z, k x z = k z x) -> two A one add <> zero ->
  (forall x, Pt' x -> Pt x /\ mul (sqrtA (k x x)) (sqrtA (k x x)) = k x x /\ sqrtA (k x x) <> zero) ->
  DOK A zero add mul Dir Pt' n m (K_norm A one add mul sub div sqrtA K) (k_norm A div sqrtA (list A) k)
      (g_norm A one add mul div opp sqrtA k g) (p_norm A one add mul div opp sqrtA k p).
Proof. intros expA. exact (DOK_norm_strong A zero one add mul sub div opp inv le sqrtA OF). Qed.
End NormStatements.
Print Assumptions C05_normalized_single_order_eq_batch_order.
Print Assumptions C05_normalized_coded_orders_eq_documented.
Print Assumptions C05_normalized_diagonal_one_coded_orders.
Print Assumptions C05_normalized_diagonal_one_documented_order.
Print Assumptions C05_normalized_stateless_batch_eq_state_batch.
Print Assumptions C05_normalized_single_matrix_eq_batch_matrix.
Print Assumptions C05_normalized_single_matrix_eq_documented_matrix.
Print Assumptions C05_normalized_coded_single_is_model.
Print Assumptions C05_normalized_coded_state_batch_is_model.
Print Assumptions C05_normalized_eval_overloads_agree.
Print Assumptions C05_normalized_single_eval_is_documented_value.
Print Assumptions C05_normalized_single_eval_diagonal_one.
Print Assumptions C05_derivatives_normalized_without_multiplicativity.
(* the premises are satisfiable: Coq's reals with the real square root (standard real-number axioms) *)
Theorem C05_normalized_orders_real : forall v a b : R, (0 < a)%R -> (0 < b)%R ->
  norm_single R Rdiv sqrt v a b = (v / sqrt (a * b))%R /\ norm_batch R Rmult Rdiv sqrt v a b = (v / sqrt (a * b))%R /\
  norm_single R Rdiv sqrt a a a = 1%R /\ norm_batch R Rmult Rdiv sqrt a a a = 1%R.
Proof. exact norm_orders_real. Qed.
Print Assumptions C05_normalized_orders_real.
(* IEEE binary64 (Flocq b64_mult / b64_div / b64_sqrt, round to nearest even; values compared through their bit patterns): on
   k(x,x) = 2^600 resp. 2^-600 the coded orders return 1.0, the one-division order returns 0 resp. +infinity; hence the documented
   order is NOT an implementation of the coded ones on doubles (the seeded change C05-5).  Not proved: a general no-overflow theorem
   for the coded orders (false without |k(x,z)| <= sqrt(k(x,x) k(z,z)): 2^1000 / sqrt(2^-1000) overflows before / sqrt(2^1000)). *)
Theorem C05_normalized_orders_binary64_overflow_witness :
  let a := d_pow2 600 in
  d_bits (d_single a a a) = bits_one /\ d_bits (d_batch a a a) = bits_one /\ d_bits (d_doc a a a) = 0%Z.
Proof. exact norm_orders_overflow_witness. Qed.
Theorem C05_normalized_orders_binary64_underflow_witness :
  let a := d_pow2 (-600) in
  d_bits (d_single a a a) = bits_one /\ d_bits (d_batch a a a) = bits_one /\ d_bits (d_doc a a a) = bits_pinf.
Proof. exact norm_orders_underflow_witness. Qed.
Theorem C05_normalized_orders_binary64_offdiagonal_witness :
  let v := d_of_int 3 598 in let a := d_pow2 600 in let b := d_of_int 9 598 in
  d_bits (d_single v a b) = d_bits (d_of_int 1 (-1)) /\ d_bits (d_batch v a b) = d_bits (d_of_int 1 (-1)) /\ d_bits (d_doc v a b) = 0%Z.
Proof. exact norm_orders_offdiagonal_witness. Qed.
Theorem C05_normalized_one_division_order_refuted_binary64 :
  ~ (forall v a b : binary64, d_bits (d_doc v a b) = d_bits (d_single v a b)).
Proof. exact norm_doc_order_not_equivalent_binary64. Qed.
Print Assumptions C05_normalized_orders_binary64_overflow_witness.
Print Assumptions C05_normalized_orders_binary64_underflow_witness.
Print Assumptions C05_normalized_orders_binary64_offdiagonal_witness.
Print Assumptions C05_normalized_one_division_order_refuted_binary64.
