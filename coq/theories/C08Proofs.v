(* C08 — proofs over Q about the solver model (C08Model.v instantiated in C08Defs.v).
   Part 1: algebra of two-point updates on raw vectors.  Part 2: the SvmProblem step.
   Part 3: edge gradient, flips, shrink, unshrink.  Part 4: histories. *)
From Coq Require Import QArith Qminmax Lqa Arith Bool List Lia.
From SharkV Require Import C08Model C08Defs C08Aux.
Import ListNotations.
Open Scope Q_scope.

(* ------------------------------------------------------------------------------------------ *)
Section Raw.
Variable n : nat.
Variable Km : nat -> nat -> Q.
Hypothesis Ksy : forall a b, Km a b == Km b a.

Definition Kv (al : nat -> Q) (a : nat) : Q := sumn n (fun b => Km a b * al b).
Definition objf (ln al : nat -> Q) : Q :=
  sumn n (fun a => ln a * al a) - (1 # 2) * sumn n (fun a => al a * Kv al a).

Definition two_pt (al : nat -> Q) (i j : nat) (mi mj : Q) : nat -> Q :=
  fun a => al a + delta i a * mi + delta j a * mj.

Lemma Kv_ext al al' a : (forall b, (b < n)%nat -> al b == al' b) -> Kv al a == Kv al' a.
Proof. intros H. unfold Kv. apply sumn_ext. intros b Hb. rewrite (H b Hb). reflexivity. Qed.

Lemma Kv_two_pt al i j mi mj a : (i < n)%nat -> (j < n)%nat ->
  Kv (two_pt al i j mi mj) a == Kv al a + mi * Km a i + mj * Km a j.
Proof.
  intros Hi Hj. unfold Kv, two_pt.
  rewrite (sumn_ext n _ (fun b => Km a b * al b + delta i b * (Km a b * mi) + delta j b * (Km a b * mj)))
    by (intros; ring).
  rewrite !sumn_add.
  rewrite (sumn_delta n i (fun b => Km a b * mi)) by assumption.
  rewrite (sumn_delta n j (fun b => Km a b * mj)) by assumption. ring.
Qed.

Lemma sum_two_pt (f : nat -> Q) al i j mi mj : (i < n)%nat -> (j < n)%nat ->
  sumn n (fun a => f a * two_pt al i j mi mj a) == sumn n (fun a => f a * al a) + mi * f i + mj * f j.
Proof.
  intros Hi Hj. unfold two_pt.
  rewrite (sumn_ext n _ (fun a => f a * al a + delta i a * (f a * mi) + delta j a * (f a * mj)))
    by (intros; ring).
  rewrite !sumn_add.
  rewrite (sumn_delta n i (fun a => f a * mi)) by assumption.
  rewrite (sumn_delta n j (fun a => f a * mj)) by assumption. ring.
Qed.

(* objective change of a two-point move, in terms of the gradient components at i and j *)
Lemma objf_two_pt ln al i j mi mj : (i < n)%nat -> (j < n)%nat ->
  objf ln (two_pt al i j mi mj) - objf ln al ==
    mi * (ln i - Kv al i) + mj * (ln j - Kv al j)
    - (1 # 2) * (mi * mi * Km i i + 2 * mi * mj * Km i j + mj * mj * Km j j).
Proof.
  intros Hi Hj. unfold objf.
  rewrite (sum_two_pt ln al i j mi mj Hi Hj).
  set (al' := two_pt al i j mi mj).
  assert (E : sumn n (fun a => al' a * Kv al' a) ==
              sumn n (fun a => al a * Kv al a) + 2 * mi * Kv al i + 2 * mj * Kv al j
              + (mi * mi * Km i i + 2 * mi * mj * Km i j + mj * mj * Km j j)).
  { rewrite (sumn_ext n _ (fun a => (Kv al a + mi * Km a i + mj * Km a j) * al' a)).
    2:{ intros a Ha. unfold al'. rewrite Kv_two_pt by assumption. ring. }
    unfold al'. rewrite (sum_two_pt (fun a => Kv al a + mi * Km a i + mj * Km a j) al i j mi mj Hi Hj).
    rewrite (sumn_ext n _ (fun a => al a * Kv al a + mi * (Km i a * al a) + mj * (Km j a * al a))).
    2:{ intros a Ha. rewrite (Ksy a i), (Ksy a j). ring. }
    rewrite !sumn_add, !sumn_scal. fold (Kv al i). fold (Kv al j).
    rewrite (Ksy j i). ring. }
  rewrite E. ring.
Qed.

Lemma objf_ext ln al al' : (forall a, (a < n)%nat -> al a == al' a) -> objf ln al == objf ln al'.
Proof.
  intros H. unfold objf.
  rewrite (sumn_ext n (fun a => ln a * al a) (fun a => ln a * al' a)) by (intros a Ha; rewrite (H a Ha); reflexivity).
  rewrite (sumn_ext n (fun a => al a * Kv al a) (fun a => al' a * Kv al' a)).
  - reflexivity.
  - intros a Ha. rewrite (H a Ha), (Kv_ext al al' a H). reflexivity.
Qed.

(* invariance under a transposition of the positions *)
Lemma objf_sw (ln al : nat -> Q) (Kp : nat -> nat -> Q) i j : (i < n)%nat -> (j < n)%nat ->
  (forall a b, Kp a b == Km (sw i j a) (sw i j b)) ->
  sumn n (fun a => ln (sw i j a) * al (sw i j a))
   - (1 # 2) * sumn n (fun a => al (sw i j a) * sumn n (fun b => Kp a b * al (sw i j b)))
  == objf ln al.
Proof.
  intros Hi Hj HK. unfold objf, Kv.
  rewrite (sumn_sw n i j (fun a => ln a * al a) Hi Hj).
  rewrite (sumn_ext n (fun a => al (sw i j a) * sumn n (fun b => Kp a b * al (sw i j b)))
                      (fun a => (fun a' => al a' * sumn n (fun b => Km a' b * al b)) (sw i j a))).
  2:{ intros a Ha. cbv beta.
      rewrite (sumn_ext n (fun b => Kp a b * al (sw i j b)) (fun b => (fun b' => Km (sw i j a) b' * al b') (sw i j b)))
        by (intros b Hb; cbv beta; rewrite HK; reflexivity).
      rewrite (sumn_sw n i j (fun b' => Km (sw i j a) b' * al b') Hi Hj). reflexivity. }
  rewrite (sumn_sw n i j (fun a' => al a' * sumn n (fun b => Km a' b * al b)) Hi Hj). reflexivity.
Qed.

End Raw.

(* ------------------------------------------------------------------------------------------ *)
Ltac qsimpl := cbn [o_zero o_add o_sub o_mul o_div o_ltb o_eqb o_thr o_two o_half o_big o_ten qops] in *.
Ltac qcase x y := let E := fresh "E" in let H := fresh "H" in
  destruct (qltb_spec x y) as [[E H]|[E H]]; rewrite ?E in *.
Ltac splits := repeat match goal with |- _ /\ _ => split end.
Ltac eqcase x y := let E := fresh "E" in let H := fresh "H" in
  destruct (qeqb_spec x y) as [[E H]|[E H]]; rewrite ?E in *.

Section Svm.
Variable n : nat.
Variable K0 : nat -> nat -> Q.
Hypothesis Hsym : Ksym K0.

Lemma Kq_sym s a b : Kq K0 s a b == Kq K0 s b a.
Proof. unfold Kq, K. apply Hsym. Qed.

Lemma obj_objf s : obj n K0 s = objf n (Kq K0 s) (lin s) (alpha s).
Proof. reflexivity. Qed.

Lemma Kalpha_Kv s a : Kalpha n K0 s a = Kv n (Kq K0 s) (alpha s) a.
Proof. reflexivity. Qed.

Lemma bmax_hi s a : (a < n)%nat -> Inv_flags n s -> bmax s a == hi s a.
Proof.
  intros Ha F. destruct (F a Ha) as [F1 F2]. unfold bmax, deact. rewrite F1, F2.
  eqcase (alpha s a) (lo s a); eqcase (alpha s a) (hi s a); simpl; auto; reflexivity.
Qed.
Lemma bmin_lo s a : (a < n)%nat -> Inv_flags n s -> bmin s a == lo s a.
Proof.
  intros Ha F. destruct (F a Ha) as [F1 F2]. unfold bmin, deact. rewrite F1, F2.
  eqcase (alpha s a) (lo s a); eqcase (alpha s a) (hi s a); simpl; auto; reflexivity.
Qed.

Definition den0 (s : qst) (i j : nat) : Q := Kq K0 s i i + Kq K0 s j j - 2 * Kq K0 s i j.

Lemma smo_new_spec s i j ai aj t :
  (i < n)%nat -> (j < n)%nat -> Inv_box n s -> Inv_flags n s -> grad s j <= grad s i ->
  smo_new qops K0 s i j = (ai, aj, t) ->
  ai == alpha s i + t /\ aj == alpha s j - t /\ 0 <= t /\ ai <= hi s i /\ lo s j <= aj /\
  t * den0 s i j <= grad s i - grad s j.
Proof.
  intros Hi Hj B F G. unfold smo_new. qsimpl.
  pose proof (bmax_hi s i Hi F) as EU. pose proof (bmin_lo s j Hj F) as EL.
  destruct (B i Hi) as [Bi1 Bi2]. destruct (B j Hj) as [Bj1 Bj2].
  set (U := bmax s i) in *. set (L := bmin s j) in *.
  fold (Kq K0 s i j). unfold diag. fold (Kq K0 s i i). fold (Kq K0 s j j).
  fold (den0 s i j). set (d0 := den0 s i j).
  set (num := grad s i - grad s j).
  assert (Hnum : 0 <= num) by (unfold num; lra).
  set (den := maxA qops d0 qthr).
  assert (Hden : 0 < den /\ d0 <= den).
  { unfold den, maxA. qsimpl. pose proof qthr_pos. qcase d0 qthr; lra. }
  destruct Hden as [Hd1 Hd2].
  set (step := num / den).
  assert (Hst : step * den == num) by (unfold step; field; lra).
  assert (Hst0 : 0 <= step).
  { unfold step. apply Qle_shift_div_l; lra. }
  set (ri := U - alpha s i). set (rj := alpha s j - L).
  assert (Hri : 0 <= ri) by (unfold ri; lra). assert (Hrj : 0 <= rj) by (unfold rj; lra).
  unfold minA. qsimpl.
  assert (Hmono : forall x, 0 <= x -> x <= step -> x * d0 <= num).
  { intros x X0 X1. rewrite <- Hst. nra. }
  assert (Fin : forall x y z : Q, (x, y, z) = (ai, aj, t) -> x = ai /\ y = aj /\ z = t)
    by (intros x y z Q1; inversion Q1; auto).
  assert (Fin6 : forall x y z : Q, x == alpha s i + z -> y == alpha s j - z -> 0 <= z -> z <= step ->
            x <= hi s i -> lo s j <= y -> (x, y, z) = (ai, aj, t) ->
            ai == alpha s i + t /\ aj == alpha s j - t /\ 0 <= t /\ ai <= hi s i /\ lo s j <= aj /\
            t * d0 <= grad s i - grad s j).
  { intros x y z X1 X2 X3 X4 X5 X6 Q1. apply Fin in Q1. destruct Q1 as (<- & <- & <-).
    repeat (split; [assumption|]). fold num. apply Hmono; assumption. }
  unfold ri, rj in *.
  qcase (alpha s j - L) (U - alpha s i); [qcase step (alpha s j - L) | qcase step (U - alpha s i)]; simpl.
  - apply Fin6; lra.
  - apply Fin6; lra.
  - apply Fin6; lra.
  - qcase (U - alpha s i) (alpha s j - L); apply Fin6; lra.
Qed.


(* what one SvmProblem::updateSMO does to the state, both for the early-return and the update path *)
Lemma svm_update_char s i j :
  (i < n)%nat -> (j < n)%nat -> i <> j -> Inv_box n s -> Inv_flags n s -> grad s j <= grad s i ->
  let s' := svm_update qops K0 s i j in
  exists t, 0 <= t /\ t * den0 s i j <= grad s i - grad s j /\
    (forall a, alpha s' a == two_pt (alpha s) i j t (- t) a) /\
    (forall a, a <> i -> a <> j -> alpha s' a = alpha s a) /\
    (forall a, (a < active s)%nat -> grad s' a == grad s a - t * (Kq K0 s i a - Kq K0 s j a)) /\
    (forall a, ~ (a < active s)%nat -> grad s' a = grad s a) /\
    lin s' = lin s /\ lo s' = lo s /\ hi s' = hi s /\ perm s' = perm s /\ active s' = active s /\
    unshr s' = unshr s /\ gedge s' = gedge s /\
    Inv_flags n s' /\ alpha s' i <= hi s i /\ lo s j <= alpha s' j.
Proof.
  intros Hi Hj Hij B F G s'. unfold s', svm_update.
  destruct (smo_new qops K0 s i j) as [[ai aj] t] eqn:EN.
  destruct (smo_new_spec s i j ai aj t Hi Hj B F G EN) as (A1 & A2 & T0 & A3 & A4 & A5).
  exists t. split; [assumption|]. split; [assumption|]. qsimpl.
  assert (Hji : j <> i) by congruence.
  destruct (Qeq_bool ai (alpha s i) && Qeq_bool aj (alpha s j)) eqn:EB.
  - apply andb_prop in EB. destruct EB as [E1 E2]. apply qeqb_true in E1. apply qeqb_true in E2.
    assert (T : t == 0) by lra.
    splits; auto; try (destruct (B i Hi); destruct (B j Hj); lra).
    + intros a. unfold two_pt. rewrite T. lra.
    + intros a Ha. rewrite T. lra.
  - match goal with |- context [Inv_flags n ?X] => set (s2 := X) end.
    assert (IF : Inv_flags n s2).
    { intros a Ha. unfold s2, set_flags, with_alpha_grad.
      cbn [alpha grad gedge lin lo hi perm fl fu active unshr]. qsimpl. unfold updf.
      destruct (Nat.eqb_spec a j) as [->|Naj].
      - rewrite Nat.eqb_refl. auto.
      - destruct (Nat.eqb_spec a i) as [->|Nai].
        + destruct (Nat.eqb_spec i j); [congruence|]. rewrite Nat.eqb_refl. auto.
        + apply F; assumption. }
    splits; auto; unfold s2, set_flags, with_alpha_grad; cbn [alpha grad gedge lin lo hi perm fl fu active unshr].
    + intros a. unfold two_pt, updf, delta.
      destruct (Nat.eqb_spec a j) as [->|Naj].
      * destruct (Nat.eqb_spec j i); [congruence|]. lra.
      * destruct (Nat.eqb_spec a i) as [->|Nai]; lra.
    + intros a Nai Naj. unfold updf. destruct (Nat.eqb_spec a j); [congruence|].
      destruct (Nat.eqb_spec a i); [congruence|]. reflexivity.
    + intros a Ha. apply Nat.ltb_lt in Ha. rewrite Ha. unfold Kq. ring.
    + intros a Ha. destruct (Nat.ltb_spec a (active s)); [contradiction|reflexivity].
    + unfold updf. destruct (Nat.eqb_spec i j); [congruence|]. rewrite Nat.eqb_refl. assumption.
    + unfold updf. rewrite Nat.eqb_refl. assumption.
Qed.


(* ---- the SvmProblem step keeps the invariants and does not lose objective ---- *)
Theorem svm_update_preserves s i j :
  (i < active s)%nat -> (j < active s)%nat -> (active s <= n)%nat -> i <> j ->
  Inv_grad n K0 s -> Inv_box n s -> Inv_flags n s -> grad s j <= grad s i ->
  let s' := svm_update qops K0 s i j in
  Inv_grad n K0 s' /\ Inv_box n s' /\ Inv_flags n s' /\
  sumn n (alpha s') == sumn n (alpha s) /\
  obj n K0 s <= obj n K0 s' /\
  (forall a, a <> i -> a <> j -> alpha s' a = alpha s a) /\
  lin s' = lin s /\ lo s' = lo s /\ hi s' = hi s /\ perm s' = perm s /\ active s' = active s /\
  unshr s' = unshr s /\ gedge s' = gedge s /\ (forall a, ~ (a < active s)%nat -> grad s' a = grad s a).
Proof.
  intros Hi Hj Hact Hij IG B F G s'.
  assert (Hi' : (i < n)%nat) by lia. assert (Hj' : (j < n)%nat) by lia.
  destruct (svm_update_char s i j Hi' Hj' Hij B F G) as
    (t & T0 & T1 & Hal & Hoth & Hg & Hg' & El & Elo & Ehi & Ep & Ea & Eu & Ee & F' & Bi & Bj).
  fold s' in Hal, Hoth, Hg, Hg', El, Elo, Ehi, Ep, Ea, Eu, Ee, F', Bi, Bj.
  assert (EK : forall a b, Kq K0 s' a b = Kq K0 s a b) by (intros; unfold Kq, K; rewrite Ep; reflexivity).
  assert (EKv : forall a, Kalpha n K0 s' a == Kalpha n K0 s a + t * Kq K0 s i a - t * Kq K0 s j a).
  { intros a. unfold Kalpha at 1.
    rewrite (sumn_ext n (fun b => Kq K0 s' a b * alpha s' b) (fun b => Kq K0 s a b * two_pt (alpha s) i j t (- t) b)) by
      (intros b Hb; rewrite EK, Hal; reflexivity).
    fold (Kv n (Kq K0 s) (two_pt (alpha s) i j t (- t)) a).
    rewrite Kv_two_pt by assumption. rewrite Kalpha_Kv. rewrite (Kq_sym s a i), (Kq_sym s a j). ring. }
  splits; auto.
  - intros a Ha. rewrite Ea in Ha. rewrite (Hg a Ha), El, EKv, (IG a Ha). ring.
  - intros a Ha. rewrite Elo, Ehi. destruct (B a Ha) as [B1 B2].
    destruct (Nat.eq_dec a i) as [->|Ni]; [|destruct (Nat.eq_dec a j) as [->|Nj]].
    + split; [|assumption]. rewrite Hal. unfold two_pt, delta. rewrite Nat.eqb_refl.
      destruct (Nat.eqb_spec i j); [congruence|]. lra.
    + split; [assumption|]. rewrite Hal. unfold two_pt, delta. rewrite Nat.eqb_refl.
      destruct (Nat.eqb_spec j i); [congruence|]. lra.
    + rewrite (Hoth a Ni Nj). auto.
  - rewrite (sumn_ext n (alpha s') (fun a => 1 * two_pt (alpha s) i j t (- t) a)) by (intros; rewrite Hal; ring).
    rewrite (sum_two_pt n (fun _ => 1) (alpha s) i j t (- t) Hi' Hj').
    rewrite (sumn_ext n (fun a => 1 * alpha s a) (alpha s)) by (intros; ring). ring.
  - assert (EO : obj n K0 s' - obj n K0 s ==
                 t * (grad s i - grad s j) - (1 # 2) * t * t * den0 s i j).
    { rewrite !obj_objf. rewrite El.
      assert (E1 : objf n (Kq K0 s') (lin s) (alpha s') == objf n (Kq K0 s) (lin s) (two_pt (alpha s) i j t (- t))).
      { unfold objf, Kv.
        rewrite (sumn_ext n (fun a => lin s a * alpha s' a) (fun a => lin s a * two_pt (alpha s) i j t (- t) a))
          by (intros; rewrite Hal; reflexivity).
        rewrite (sumn_ext n (fun a => alpha s' a * sumn n (fun b => Kq K0 s' a b * alpha s' b))
                            (fun a => two_pt (alpha s) i j t (- t) a * sumn n (fun b => Kq K0 s a b * two_pt (alpha s) i j t (- t) b))).
        - reflexivity.
        - intros a Ha. rewrite Hal.
          rewrite (sumn_ext n (fun b => Kq K0 s' a b * alpha s' b) (fun b => Kq K0 s a b * two_pt (alpha s) i j t (- t) b))
            by (intros; rewrite EK, Hal; reflexivity).
          reflexivity. }
      rewrite E1.
      rewrite (objf_two_pt n (Kq K0 s) (Kq_sym s) (lin s) (alpha s) i j t (- t) Hi' Hj').
      rewrite <- !Kalpha_Kv. rewrite (IG i Hi), (IG j Hj). unfold den0. ring. }
    assert (0 <= t * (grad s i - grad s j) - (1 # 2) * t * t * den0 s i j) by nra.
    lra.
Qed.


(* ---- histories (solver without shrinking: m_shrink = false, all variables active) ---- *)
Definition wf_op (s : qst) (o : op Q) : Prop :=
  match o with
  | OSmo i j => (i < active s)%nat /\ (j < active s)%nat /\ i <> j /\ grad s j <= grad s i
  | _ => True
  end.
Fixpoint wf_run (kind shr : bool) (s : qst) (ops : list (op Q)) : Prop :=
  match ops with
  | [] => True
  | o :: r => wf_op s o /\ wf_run kind shr (stepQ n K0 kind shr s o) r
  end.

Definition Inv_noshrink (s : qst) : Prop :=
  active s = n /\ Inv_grad n K0 s /\ Inv_box n s /\ Inv_flags n s.

Lemma step_noshrink s o :
  Inv_noshrink s -> wf_op s o ->
  let s' := stepQ n K0 true false s o in
  Inv_noshrink s' /\ sumn n (alpha s') == sumn n (alpha s) /\ obj n K0 s <= obj n K0 s' /\
  lin s' = lin s /\ lo s' = lo s /\ hi s' = hi s /\ perm s' = perm s.
Proof.
  intros (Ha & IG & B & F) W. destruct o as [i j|e|]; cbn [stepQ step].
  - destruct W as (Wi & Wj & Wij & Wg).
    unfold smo_step. cbn [edge_update negb orb].
    assert (ES : (if (i =? j)%nat then svm_update qops K0 s i j else svm_update qops K0 s i j) = svm_update qops K0 s i j)
      by (destruct (i =? j)%nat; reflexivity).
    rewrite ES.
    destruct (svm_update_preserves s i j Wi Wj ltac:(lia) Wij IG B F Wg) as
      (IG' & B' & F' & S' & O' & _ & El & Elo & Ehi & Ep & Ea & _).
    splits; auto. unfold Inv_noshrink. splits; auto. congruence.
  - unfold shrink. cbn [negb]. splits; try reflexivity; try lra. unfold Inv_noshrink; auto.
  - unfold unshrink. rewrite Ha, Nat.eqb_refl. splits; try reflexivity; try lra. unfold Inv_noshrink; auto.
Qed.

Theorem run_noshrink ops : forall s,
  Inv_noshrink s -> wf_run true false s ops ->
  let s' := runQ n K0 true false s ops in
  Inv_noshrink s' /\ sumn n (alpha s') == sumn n (alpha s) /\ obj n K0 s <= obj n K0 s' /\
  lin s' = lin s /\ lo s' = lo s /\ hi s' = hi s /\ perm s' = perm s.
Proof.
  induction ops as [|o r IH]; intros s I W; cbn [runQ run fold_left].
  - splits; auto; try reflexivity; lra.
  - destruct W as [W1 W2].
    destruct (step_noshrink s o I W1) as (I1 & S1 & O1 & E1 & E2 & E3 & E4).
    destruct (IH _ I1 W2) as (I2 & S2 & O2 & F1 & F2 & F3 & F4).
    unfold runQ, stepQ, run in *. cbv zeta in *. splits; auto.
    + rewrite S2. exact S1.
    + eapply Qle_trans; [exact O1|exact O2].
    + rewrite F1; exact E1.
    + rewrite F2; exact E2.
    + rewrite F3; exact E3.
    + rewrite F4; exact E4.
Qed.

End Svm.

(* the hypotheses of the step / history theorems are satisfiable: two points, K = identity,
   cold start of a C-SVM with C = 1 (labels +1, -1), working set (0,1) *)
Definition ex_K0 (p q : nat) : Q := if (p =? q)%nat then 1 else 0.
Definition ex_s : qst :=
  mk (fun _ => 0) (fun a => if (a =? 0)%nat then 1 else - (1))
     (fun a => if (a =? 0)%nat then 1 else - (1)) (fun a => if (a =? 0)%nat then 1 else - (1))
     (fun a => if (a =? 0)%nat then 0 else - (1)) (fun a => if (a =? 0)%nat then 1 else 0)
     (fun a => a) (fun a => (a =? 0)%nat) (fun a => negb (a =? 0)%nat) 2 false.
Example ex_hyps_sat :
  Ksym ex_K0 /\ Inv_noshrink 2 ex_K0 ex_s /\ wf_run 2 ex_K0 true false ex_s [OSmo 0%nat 1%nat] /\
  obj 2 ex_K0 ex_s < obj 2 ex_K0 (runQ 2 ex_K0 true false ex_s [OSmo 0%nat 1%nat]).
Proof.
  split; [|split; [|split]].
  - intros p q. unfold ex_K0. rewrite (Nat.eqb_sym q p). reflexivity.
  - split; [reflexivity|]. split; [|split].
    + intros a Ha. destruct a as [|[|a]]; [vm_compute; reflexivity|vm_compute; reflexivity|simpl in Ha; lia].
    + intros a Ha. destruct a as [|[|a]]; [vm_compute; split; discriminate|vm_compute; split; discriminate|simpl in Ha; lia].
    + intros a Ha. destruct a as [|[|a]]; [vm_compute; auto|vm_compute; auto|simpl in Ha; lia].
  - cbn. repeat split; try lia. vm_compute. discriminate.
  - vm_compute. reflexivity.
Qed.
