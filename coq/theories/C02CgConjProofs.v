(* C02 — conjugate gradient, the classical induction: for a symmetric matrix, as long as no denominator vanishes, the residuals
   are mutually orthogonal and the search directions A-conjugate.  Stated on the recurrence (sequences R, P with step lengths
   al, be) and instantiated with the iterates of the model's loop. *)
From Coq Require Import List Arith Bool Lia Field.
From SharkV Require Import C02Model C02Proofs C02CgModel C02CgProofs C02CgSpdProofs.
Import ListNotations.

Section CgConj.
Variable A : Type.
Variable F : ops A.
Notation "0" := (fzero F) : F_scope.
Notation "1" := (fone F) : F_scope.
Infix "+" := (fadd F) : F_scope.
Infix "*" := (fmul F) : F_scope.
Infix "-" := (fsub F) : F_scope.
Infix "/" := (fdiv F) : F_scope.
Notation "- x" := (fopp F x) : F_scope.
Hypothesis Fth : field_theory (fzero F) (fone F) (fadd F) (fmul F) (fsub F) (fopp F) (fdiv F) (finv F) (@eq A).
Add Field FfieldCgC : Fth.
Local Open Scope F_scope.
Notation mat := (mat A).
Notation vec := (vec A).
Notation sumr := (sumr A F).
Notation sumr_ext := (sumr_ext A F).
Notation dot := (dot A F).
Notation mvp := (mvp A F).
Notation dot_ext := (dot_ext A F).
Notation dot_comm := (dot_comm A F Fth).
Notation dot_lin_l := (dot_lin_l A F Fth).

Lemma cancel_l : forall a x : A, a <> 0 -> a * x = 0 -> x = 0.
Proof. intros a x Ha H. assert (E : x = (a * x) / a) by (field; exact Ha). rewrite E, H. field. exact Ha. Qed.

Section Seq.
Variables (n : nat) (M : mat).
Hypothesis Msym : forall i j, (i < n)%nat -> (j < n)%nat -> M i j = M j i.
Definition dotA (u v : vec) : A := dot n u (mvp n M v).

Lemma dotA_sym : forall u v, dotA u v = dotA v u.
Proof.
  intros u v. unfold dotA, C02CgModel.dot, C02CgProofs.mvp.
  rewrite (sumr_ext 0 n _ (fun i => sumr 0 n (fun j => u i * M i j * v j))) by (intros i Hi; rewrite <- (sumr_mul_l A F Fth); apply sumr_ext; intros; ring).
  rewrite (sumr_swap A F Fth). apply sumr_ext. intros j Hj. rewrite <- (sumr_mul_l A F Fth). apply sumr_ext. intros i Hi.
  rewrite (Msym j i) by lia. ring.
Qed.
Lemma dotA_lin_l : forall u w v c, dotA (fun i => u i + c * w i) v = dotA u v + c * dotA w v.
Proof. intros. unfold dotA. apply dot_lin_l. Qed.
Lemma dotA_ext_l : forall u u' v, (forall i, (i < n)%nat -> u i = u' i) -> dotA u v = dotA u' v.
Proof. intros. unfold dotA. apply dot_ext; [assumption|reflexivity]. Qed.
Lemma dotA_ext_r : forall u v v', (forall i, (i < n)%nat -> v i = v' i) -> dotA u v = dotA u v'.
Proof. intros u v v' H. unfold dotA. apply dot_ext; [reflexivity|]. intros i Hi. apply (mvp_ext A F). exact H. Qed.

(* the recurrence *)
Variables (R P : nat -> vec) (al be : nat -> A).
Definition rr (k : nat) : A := dot n (R k) (R k).
Definition pAp (k : nat) : A := dotA (P k) (P k).
Hypothesis HP0 : forall i, (i < n)%nat -> P 0%nat i = R 0%nat i.
Hypothesis HR : forall k i, (i < n)%nat -> R (S k) i = R k i - al k * mvp n M (P k) i.
Hypothesis HPn : forall k i, (i < n)%nat -> P (S k) i = R (S k) i + be k * P k i.
Hypothesis Hal : forall k, al k = rr k / pAp k.
Hypothesis Hbe : forall k, be k = rr (S k) / rr k.

Lemma dot_R_succ : forall k w, dot n (R (S k)) w = dot n (R k) w - al k * dotA w (P k).
Proof.
  intros k w. rewrite (dot_ext n _ (fun i => R k i + (- al k) * mvp n M (P k) i) w w) by (intros; rewrite ?HR by assumption; ring).
  rewrite dot_lin_l. unfold dotA. rewrite (dot_comm n w). ring.
Qed.
Lemma dot_P_succ : forall k w, dot n (P (S k)) w = dot n (R (S k)) w + be k * dot n (P k) w.
Proof.
  intros k w. rewrite (dot_ext n _ (fun i => R (S k) i + be k * P k i) w w) by (intros; rewrite ?HPn by assumption; ring).
  apply dot_lin_l.
Qed.
Lemma dotA_P_succ : forall k w, dotA (P (S k)) w = dotA (R (S k)) w + be k * dotA (P k) w.
Proof.
  intros k w. rewrite (dotA_ext_l _ (fun i => R (S k) i + be k * P k i) w) by (intros; apply HPn; assumption). apply dotA_lin_l.
Qed.
Lemma dot_w_R_succ : forall j w, dot n w (R (S j)) = dot n w (P (S j)) - be j * dot n w (P j).
Proof. intros j w. rewrite (dot_comm n w (P (S j))), dot_P_succ. rewrite (dot_comm n w (R (S j))), (dot_comm n w (P j)). ring. Qed.

Definition conj_inv (k : nat) : Prop :=
  (forall i, (i < k)%nat -> dot n (R k) (R i) = 0) /\
  (forall i, (i < k)%nat -> dotA (P k) (P i) = 0) /\
  (forall i, (i < k)%nat -> dot n (R k) (P i) = 0) /\
  dot n (R k) (P k) = rr k.

Lemma conj_step : forall k, rr k <> 0 -> pAp k <> 0 -> (forall i, (i < k)%nat -> rr i <> 0 /\ pAp i <> 0) -> conj_inv k -> conj_inv (S k).
Proof.
  intros k Hr Hp Hprev (Ia & Ib & Ic & Id).
  assert (Halp : al k * pAp k = rr k) by (rewrite Hal; field; exact Hp).
  assert (Hc' : forall i, (i <= k)%nat -> dot n (R (S k)) (P i) = 0).
  { intros i Hi. rewrite dot_R_succ. destruct (Nat.eq_dec i k) as [->|N].
    - rewrite Id. fold (pAp k). rewrite Halp. ring.
    - rewrite Ic by lia. rewrite dotA_sym, Ib by lia. ring. }
  assert (Ha' : forall i, (i <= k)%nat -> dot n (R (S k)) (R i) = 0).
  { intros i Hi. destruct i as [|j].
    - rewrite (dot_ext n (R (S k)) (R (S k)) (R 0%nat) (P 0%nat)) by (intros; try reflexivity; symmetry; apply HP0; assumption). apply Hc'. lia.
    - rewrite dot_w_R_succ. rewrite !Hc' by lia. ring. }
  split; [intros; apply Ha'; lia|]. split; [|split; [intros; apply Hc'; lia|]].
  - intros i Hi. rewrite dotA_P_succ.
    assert (Key : al i * dotA (R (S k)) (P i) = dot n (R i) (R (S k)) - dot n (R (S i)) (R (S k))).
    { rewrite (dot_R_succ i (R (S k))). ring. }
    destruct (Nat.eq_dec i k) as [->|N].
    + rewrite (dot_comm n (R k)), Ha' in Key by lia. fold (rr (S k)) in Key.
      assert (Hbr : be k * rr k = rr (S k)) by (rewrite Hbe; field; exact Hr).
      assert (Hal0 : al k <> 0) by (intros Z; apply Hr; rewrite <- Halp, Z; ring).
      apply (cancel_l (al k)); [exact Hal0|].
      fold (pAp k).
      assert (E : al k * (dotA (R (S k)) (P k) + be k * pAp k) = al k * dotA (R (S k)) (P k) + be k * (al k * pAp k)) by ring.
      rewrite E, Key, Halp, Hbr. ring.
    + destruct (Hprev i ltac:(lia)) as [Hri Hpi].
      assert (Hali : al i * pAp i = rr i) by (rewrite Hal; field; exact Hpi).
      assert (Hal0 : al i <> 0) by (intros Z; apply Hri; rewrite <- Hali, Z; ring).
      rewrite (dot_comm n (R i)), (dot_comm n (R (S i))) in Key. rewrite !Ha' in Key by lia.
      assert (X0 : dotA (R (S k)) (P i) = 0) by (apply (cancel_l (al i)); [exact Hal0|rewrite Key; ring]).
      rewrite X0, Ib by lia. ring.
  - rewrite dot_comm, dot_P_succ. rewrite (dot_comm n (P k)), Hc' by lia. unfold rr. ring.
Qed.

(* mutual orthogonality of the residuals and conjugacy of the directions up to index K *)
Theorem cg_orthogonal : forall K, (forall k, (k < K)%nat -> rr k <> 0 /\ pAp k <> 0) ->
  forall k, (k <= K)%nat -> forall i, (i < k)%nat -> dot n (R k) (R i) = 0 /\ dotA (P k) (P i) = 0.
Proof.
  intros K Hnz.
  assert (H : forall k, (k <= K)%nat -> conj_inv k).
  { induction k; intros Hk.
    - split; [intros; lia|]. split; [intros; lia|]. split; [intros; lia|].
      unfold rr. apply dot_ext; [reflexivity|apply HP0].
    - destruct (Hnz k ltac:(lia)) as [H1 H2]. apply conj_step; [exact H1|exact H2|intros; apply Hnz; lia|apply IHk; lia]. }
  intros k Hk i Hi. destruct (H k Hk) as (Ia & Ib & _). split; [apply Ia|apply Ib]; exact Hi.
Qed.
End Seq.

(* ---------- more than n vectors of dimension n are linearly dependent; orthogonal non-isotropic vectors are independent ---------- *)
Hypothesis feqb_spec : forall x y, feqb F x y = true <-> x = y.

Definition lincomb (cs : list A) (l : list vec) (i : nat) : A :=
  fold_right (fun cv acc => fst cv * snd cv i + acc) 0 (combine cs l).
Lemma lincomb_cons : forall c cs v l i, lincomb (c :: cs) (v :: l) i = c * v i + lincomb cs l i.
Proof. reflexivity. Qed.
Lemma lincomb_app : forall cs1 cs2 l1 l2 i, length cs1 = length l1 ->
  lincomb (cs1 ++ cs2) (l1 ++ l2) i = lincomb cs1 l1 i + lincomb cs2 l2 i.
Proof.
  induction cs1; intros cs2 l1 l2 i H; destruct l1; cbn [length] in H; try discriminate.
  - cbn [app]. unfold lincomb at 2. cbn. ring.
  - cbn [app]. rewrite !lincomb_cons. rewrite IHcs1 by lia. ring.
Qed.
Definition dependent (n : nat) (l : list vec) : Prop :=
  exists cs, length cs = length l /\ Exists (fun c => c <> 0) cs /\ forall i, (i < n)%nat -> lincomb cs l i = 0.

Definition elim (q : vec) (n : nat) (v : vec) : vec := fun i => v i - (v n / q n) * q i.
Lemma lincomb_elim : forall q n, q n <> 0 -> forall ds l i,
  lincomb ds (map (elim q n) l) i = lincomb ds l i - (lincomb ds l n / q n) * q i.
Proof.
  intros q n Hq. induction ds; intros l i; destruct l; try (unfold lincomb; cbn; field; exact Hq).
  cbn [map]. rewrite !lincomb_cons. rewrite IHds. unfold elim. field. exact Hq.
Qed.
Lemma lincomb_zero_coord : forall cs l i, Forall (fun v : vec => v i = 0) l -> lincomb cs l i = 0.
Proof.
  induction cs; intros l i H; destruct l; try reflexivity. inversion H; subst.
  rewrite lincomb_cons, IHcs by assumption. rewrite H2. ring.
Qed.

Lemma dep_dim : forall n l, (n < length l)%nat -> dependent n l.
Proof.
  induction n; intros l Hl.
  - exists (repeat 1 (length l)). split; [apply repeat_length|]. split; [|intros; lia].
    destruct l; [cbn in Hl; lia|]. cbn. left. apply (F_1_neq_0 Fth).
  - assert (Dec : forall v : vec, {v n = 0} + {v n <> 0}).
    { intros v. destruct (feqb F (v n) 0) eqn:E; [left; apply feqb_spec; exact E|right; intros Z; apply feqb_spec in Z; congruence]. }
    destruct (Forall_Exists_dec (fun v : vec => v n = 0) Dec l) as [Fa|Ex].
    + destruct (IHn l ltac:(lia)) as [cs [H1 [H2 H3]]]. exists cs. split; [exact H1|]. split; [exact H2|].
      intros i Hi. destruct (Nat.eq_dec i n) as [->|N]; [apply lincomb_zero_coord; exact Fa|apply H3; lia].
    + apply Exists_exists in Ex. destruct Ex as [q [Hin Hq]]. apply in_split in Hin. destruct Hin as [l1 [l2 El]]. subst l.
      rewrite app_length in Hl. cbn [length] in Hl.
      destruct (IHn (map (elim q n) (l1 ++ l2))) as [ds [H1 [H2 H3]]]; [rewrite map_length, app_length; lia|].
      rewrite map_length, app_length in H1.
      set (e := - (lincomb ds (l1 ++ l2) n / q n)).
      set (ds1 := firstn (length l1) ds). set (ds2 := skipn (length l1) ds).
      assert (Eds : ds = ds1 ++ ds2) by (symmetry; apply firstn_skipn).
      assert (L1 : length ds1 = length l1) by (unfold ds1; rewrite firstn_length; lia).
      exists (ds1 ++ e :: ds2). split.
      { rewrite !app_length. cbn [length]. rewrite L1. assert (length ds2 = length l2) by (unfold ds2; rewrite skipn_length; lia). lia. }
      split.
      { rewrite Eds in H2. apply Exists_app in H2. apply Exists_app. destruct H2 as [H2|H2]; [left; exact H2|right; right; exact H2]. }
      intros i Hi. rewrite lincomb_app by exact L1. rewrite lincomb_cons.
      assert (Z : lincomb ds (l1 ++ l2) i + e * q i = 0).
      { destruct (Nat.eq_dec i n) as [->|N].
        - unfold e. field. exact Hq.
        - pose proof (H3 i ltac:(lia)) as Z. rewrite (lincomb_elim q n Hq) in Z. rewrite <- Z. unfold e. field. exact Hq. }
      rewrite Eds in Z at 1. rewrite lincomb_app in Z by exact L1. rewrite <- Z. ring.
Qed.

Lemma dot_lincomb : forall n c cs v l w, dot n (lincomb (c :: cs) (v :: l)) w = c * dot n v w + dot n (lincomb cs l) w.
Proof.
  intros. rewrite (dot_ext n _ (fun i => lincomb cs l i + c * v i) w w) by (intros; try reflexivity; rewrite lincomb_cons; ring).
  rewrite dot_lin_l. ring.
Qed.
Lemma dot_lincomb_orth : forall n cs l w, Forall (fun u => dot n u w = 0) l -> dot n (lincomb cs l) w = 0.
Proof.
  induction cs; intros l w H; destruct l; try (apply (dot_zero_l A F Fth); intros; reflexivity).
  inversion H; subst. rewrite dot_lincomb, IHcs by assumption. rewrite H2. ring.
Qed.
Lemma orth_indep : forall n l cs, length cs = length l -> (forall i, (i < n)%nat -> lincomb cs l i = 0) ->
  ForallOrdPairs (fun u v => dot n u v = 0) l -> Forall (fun v => dot n v v <> 0) l -> Forall (fun c => c = 0) cs.
Proof.
  induction l; intros cs Hl Hz Ho Hn; destruct cs; cbn [length] in Hl; try discriminate; [constructor|].
  inversion Ho; subst. inversion Hn; subst.
  assert (Hc : a0 = 0).
  { assert (E : dot n (lincomb (a0 :: cs) (a :: l)) a = 0) by (apply (dot_zero_l A F Fth); exact Hz).
    rewrite dot_lincomb in E. rewrite dot_lincomb_orth in E.
    2:{ eapply Forall_impl; [|exact H1]. intros u Hu. cbv beta in Hu. rewrite dot_comm. exact Hu. }
    apply (cancel_l (dot n a a)); [exact H3|]. rewrite <- E. ring. }
  constructor; [exact Hc|]. apply IHl; [lia| |assumption|assumption].
  intros i Hi. pose proof (Hz i Hi) as Z. rewrite lincomb_cons, Hc in Z. rewrite <- Z. ring.
Qed.

(* no n+1 mutually orthogonal vectors u with u.u <> 0 in dimension n *)
Theorem no_orth_family : forall n (Rs : nat -> vec),
  (forall j k, (j < k <= n)%nat -> dot n (Rs k) (Rs j) = 0) -> (forall j, (j <= n)%nat -> dot n (Rs j) (Rs j) <> 0) -> False.
Proof.
  intros n Rs Ho Hn.
  set (l := map Rs (seq 0 (S n))).
  destruct (dep_dim n l) as [cs [H1 [H2 H3]]]; [unfold l; rewrite map_length, seq_length; lia|].
  assert (Z : Forall (fun c => c = 0) cs).
  { apply (orth_indep n l cs H1 H3).
    - unfold l. assert (G : forall m a, (a + m <= S n)%nat -> ForallOrdPairs (fun u v => dot n u v = 0) (map Rs (seq a m))).
      { induction m; intros a Ha; cbn [seq map]; [constructor|]. constructor; [|apply IHm; lia].
        apply Forall_forall. intros u Hu. apply in_map_iff in Hu. destruct Hu as [j [<- Hj]]. apply in_seq in Hj.
        rewrite dot_comm. apply Ho. lia. }
      apply G. lia.
    - unfold l. apply Forall_forall. intros u Hu. apply in_map_iff in Hu. destruct Hu as [j [<- Hj]]. apply in_seq in Hj. apply Hn. lia. }
  apply Exists_exists in H2. destruct H2 as [c [Hin Hc]]. rewrite Forall_forall in Z. apply Hc. apply Z. exact Hin.
Qed.

(* ---------- the iterates of the model's loop are the recurrence; termination within n iterations ---------- *)
Section Term.
Variable fabs : A -> A.
Hypothesis abs_0 : fabs 0 = 0.
Hypothesis lt_irrefl : forall x, fltb F x x = false.
Hypothesis sumsq_nz : forall n v, nonzero A F n v -> dot n v v <> 0.
Variables (n : nat) (M : mat) (eps : A).
Hypothesis Msym : forall i j, (i < n)%nat -> (j < n)%nat -> M i j = M j i.
Hypothesis Hdef : definite A F n M.
Hypothesis eps_pos : fltb F 0 eps = true.
Notation ninf := (ninf A F fabs).
Notation nonzero := (nonzero A F).

Definition seq_step (rp : vec * vec) : vec * vec :=
  let r := fst rp in let p := snd rp in
  let Ap := mvp n M p in let rsqr := dot n r r in let alpha := rsqr / dot n p Ap in
  let nr := fun i => r i - alpha * Ap i in
  let beta := dot n nr nr / rsqr in
  (nr, fun i => nr i + beta * p i).
Fixpoint cg_seq (r0 : vec) (k : nat) : vec * vec :=
  match k with O => (r0, r0) | S k' => seq_step (cg_seq r0 k') end.
Variable r0 : vec.
Definition Rk (k : nat) : vec := fst (cg_seq r0 k).
Definition Pk (k : nat) : vec := snd (cg_seq r0 k).
Definition alk (k : nat) : A := rr n Rk k / pAp n M Pk k.
Definition bek (k : nat) : A := rr n Rk (S k) / rr n Rk k.

Lemma seq_HP0 : forall i, (i < n)%nat -> Pk 0 i = Rk 0 i. Proof. reflexivity. Qed.
Lemma seq_HR : forall k i, (i < n)%nat -> Rk (S k) i = Rk k i - alk k * mvp n M (Pk k) i. Proof. reflexivity. Qed.
Lemma seq_HPn : forall k i, (i < n)%nat -> Pk (S k) i = Rk (S k) i + bek k * Pk k i. Proof. reflexivity. Qed.

Lemma nonzero_ext : forall (u v : vec), (forall i, (i < n)%nat -> u i = v i) -> nonzero n u -> nonzero n v.
Proof. intros u v H [i [Hi Hu]]. exists i. split; [exact Hi|]. rewrite <- H by exact Hi. exact Hu. Qed.

(* all residuals R_0 .. R_K non-zero => the invariant of the classical induction holds up to K and no denominator vanishes *)
Lemma conj_all : forall K, (forall j, (j <= K)%nat -> nonzero n (Rk j)) ->
  forall k, (k <= K)%nat -> conj_inv n M Rk Pk k /\ forall i, (i <= k)%nat -> rr n Rk i <> 0 /\ pAp n M Pk i <> 0.
Proof.
  intros K Hnz. 
  assert (Hpos : forall k, (k <= K)%nat -> conj_inv n M Rk Pk k -> rr n Rk k <> 0 /\ pAp n M Pk k <> 0).
  { intros k Hk (_ & _ & _ & Id).
    assert (H1 : rr n Rk k <> 0) by (apply sumsq_nz; apply Hnz; exact Hk).
    split; [exact H1|]. unfold pAp, dotA. apply Hdef.
    destruct (zero_or_nonzero A F feqb_spec n (Pk k)) as [Z|N]; [|exact N].
    exfalso. apply H1. rewrite <- Id. rewrite dot_comm. apply (dot_zero_l A F Fth). exact Z. }
  induction k; intros Hk.
  - assert (C0 : conj_inv n M Rk Pk 0).
    { split; [intros; lia|]. split; [intros; lia|]. split; [intros; lia|]. reflexivity. }
    split; [exact C0|]. intros i Hi. replace i with 0%nat by lia. apply Hpos; [lia|exact C0].
  - destruct (IHk ltac:(lia)) as [Ck Hk']. destruct (Hk' k (le_n k)) as [H1 H2].
    assert (Cs : conj_inv n M Rk Pk (S k)).
    { apply (conj_step n M Msym Rk Pk alk bek seq_HP0 seq_HR seq_HPn (fun _ => eq_refl) (fun _ => eq_refl) k H1 H2); [|exact Ck].
      intros i Hi. apply Hk'. lia. }
    split; [exact Cs|]. intros i Hi. destruct (Nat.eq_dec i (S k)) as [->|N]; [apply Hpos; [exact Hk|exact Cs]|apply Hk'; lia].
Qed.

(* n+1 non-zero residuals cannot exist *)
Lemma seq_contradiction : (forall j, (j <= n)%nat -> nonzero n (Rk j)) -> False.
Proof.
  intros Hnz. pose proof (conj_all n Hnz) as C.
  apply (no_orth_family n Rk).
  - intros j k Hjk. destruct (C k ltac:(lia)) as [(Ia & _) _]. apply Ia. lia.
  - intros j Hj. destruct (C j Hj) as [_ H]. apply (H j (le_n j)).
Qed.

(* one step of the loop computes the next element of the sequence *)
Lemma loop_step_seq : forall k (r p : vec), (forall i, (i < n)%nat -> r i = Rk k i) -> (forall i, (i < n)%nat -> p i = Pk k i) ->
  let Ap := cg_mv A F n M p in let rsqr := dot n r r in let alpha := rsqr / dot n p Ap in
  let nr := memo A F n (fun i => r i - alpha * Ap i) in
  let beta := dot n nr nr / rsqr in
  let p' := memo A F n (fun i => p i * beta + nr i) in
  (forall i, (i < n)%nat -> nr i = Rk (S k) i) /\ (forall i, (i < n)%nat -> p' i = Pk (S k) i).
Proof.
  intros k r p Hr Hp Ap rsqr alpha nr beta p'.
  assert (E1 : rsqr = dot n (Rk k) (Rk k)) by (apply dot_ext; assumption).
  assert (E2 : dot n p Ap = dot n (Pk k) (mvp n M (Pk k))).
  { apply dot_ext; [exact Hp|]. intros i Hi. unfold Ap. rewrite cg_mv_eq. apply (mvp_ext A F). exact Hp. }
  assert (Hnr : forall i, (i < n)%nat -> nr i = Rk (S k) i).
  { intros i Hi. unfold nr. rewrite (memo_eq A F). unfold alpha. rewrite E1, E2. unfold Ap. rewrite cg_mv_eq.
    rewrite (mvp_ext A F n M p (Pk k) i Hp). rewrite Hr by exact Hi. reflexivity. }
  split; [exact Hnr|]. intros i Hi. unfold p'. rewrite (memo_eq A F). unfold beta.
  rewrite (dot_ext n nr (Rk (S k)) nr (Rk (S k)) Hnr Hnr). rewrite E1. rewrite Hnr, Hp by exact Hi.
  change (Pk (S k) i) with (Rk (S k) i + dot n (Rk (S k)) (Rk (S k)) / dot n (Rk k) (Rk k) * Pk k i). ring.
Qed.

Lemma cg_loop_term : forall fuel k (x r p : vec) dens,
  (forall i, (i < n)%nat -> r i = Rk k i) -> (forall i, (i < n)%nat -> p i = Pk k i) ->
  (forall j, (j <= k)%nat -> nonzero n (Rk j)) -> (n < k + fuel)%nat ->
  let o := cg_loop A F fabs fuel n M eps 0 k x r p dens in cg_why A o = StopEps /\ (cg_iters A o <= n)%nat.
Proof.
  induction fuel; intros k x r p dens Hr Hp Hnz Hf.
  - exfalso. apply seq_contradiction. intros j Hj. apply Hnz. lia.
  - cbn [cg_loop]. cbn [Nat.eqb negb andb]. destruct (loop_step_seq k r p Hr Hp) as [Hnr Hp']. cbv zeta in *.
    match goal with |- context [fltb F (ninf n ?v) eps] => destruct (fltb F (ninf n v) eps) eqn:E end.
    + cbn [cg_why cg_iters]. split; [reflexivity|]. destruct (Nat.lt_ge_cases k n); [lia|].
      exfalso. apply seq_contradiction. intros j Hj. apply Hnz. lia.
    + apply IHfuel; [exact Hnr|exact Hp'| |lia].
      intros j Hj. destruct (Nat.eq_dec j (S k)) as [->|N]; [|apply Hnz; lia].
      eapply nonzero_ext; [exact Hnr|]. eapply (not_small_nonzero A F fabs feqb_spec abs_0 lt_irrefl); [exact eps_pos|exact E].
Qed.
Lemma cgm_loop_term : forall fuel k (x r p : vec) dens,
  (forall i, (i < n)%nat -> r i = Rk k i) -> (forall i, (i < n)%nat -> p i = Pk k i) ->
  (forall j, (j < k)%nat -> nonzero n (Rk j)) -> (S n < k + fuel)%nat ->
  let o := cgm_loop A F fabs fuel n M eps 0 k x r p dens in
  (cg_why A o = StopEps \/ cg_why A o = StopInit) /\ (cg_iters A o <= n)%nat.
Proof.
  induction fuel; intros k x r p dens Hr Hp Hnz Hf.
  - exfalso. apply seq_contradiction. intros j Hj. apply Hnz. lia.
  - cbn [cgm_loop]. cbn [Nat.eqb negb andb].
    destruct (fltb F (ninf n r) eps) eqn:E.
    + cbn [cg_why cg_iters]. split; [destruct k; [right|left]; reflexivity|]. destruct (Nat.le_gt_cases k n); [lia|].
      exfalso. apply seq_contradiction. intros j Hj. apply Hnz. lia.
    + destruct (loop_step_seq k r p Hr Hp) as [Hnr Hp']. cbv zeta in *.
      apply IHfuel; [exact Hnr|exact Hp'| |lia].
      intros j Hj. destruct (Nat.eq_dec j k) as [->|N]; [|apply Hnz; lia].
      apply (nonzero_ext r); [exact Hr|]. eapply (not_small_nonzero A F fabs feqb_spec abs_0 lt_irrefl); [exact eps_pos|exact E].
Qed.

(* the residuals / directions generated by the loop (loop_step_seq: its states are Rk, Pk) are mutually orthogonal / conjugate *)
Theorem cg_seq_orthogonal : forall K, (forall k, (k < K)%nat -> rr n Rk k <> 0 /\ pAp n M Pk k <> 0) ->
  forall k, (k <= K)%nat -> forall i, (i < k)%nat -> dot n (Rk k) (Rk i) = 0 /\ dotA n M (Pk k) (Pk i) = 0.
Proof. exact (cg_orthogonal n M Msym Rk Pk alk bek seq_HP0 seq_HR seq_HPn (fun _ => eq_refl) (fun _ => eq_refl)). Qed.
End Term.

(* symmetric definite matrix, eps > 0, no iteration limit: the routine returns through its stopping rule after at most n iterations
   (in exact arithmetic), whatever the start vector; the same for every column of the matrix version *)
Theorem cg_vec_terminates : forall (fabs : A -> A), fabs 0 = 0 -> (forall x, fltb F x x = false) ->
  (forall n v, nonzero A F n v -> dot n v v <> 0) ->
  forall fuel n (M : mat) eps (x0 b : vec), (forall i j, (i < n)%nat -> (j < n)%nat -> M i j = M j i) -> definite A F n M ->
  fltb F 0 eps = true -> (n < fuel)%nat ->
  let o := cg_vec A F fabs fuel n M eps 0 x0 b in
  (cg_why A o = StopEps \/ cg_why A o = StopInit) /\ (cg_iters A o <= n)%nat.
Proof.
  intros fabs abs_0 lt_irrefl sumsq fuel n M eps x0 b Msym Hdef He Hf. unfold cg_vec. cbv zeta.
  set (r1 := memo A F n (fun i => b i - cg_mv A F n M x0 i)).
  assert (G : forall (x r : vec), fltb F (ninf A F fabs n r) eps = false ->
     let o := cg_loop A F fabs fuel n M eps 0 0 x r r [] in (cg_why A o = StopEps \/ cg_why A o = StopInit) /\ (cg_iters A o <= n)%nat).
  { intros x r E. destruct (cg_loop_term fabs abs_0 lt_irrefl sumsq n M eps Msym Hdef He r fuel 0 x r r []) as [W I]; try (intros; reflexivity); [|lia|].
    - intros j Hj. replace j with 0%nat by lia. eapply (not_small_nonzero A F fabs feqb_spec abs_0 lt_irrefl); [exact He|exact E].
    - split; [left; exact W|exact I]. }
  destruct (fltb F (ninf A F fabs n b) (ninf A F fabs n r1)).
  - destruct (fltb F (ninf A F fabs n b) eps) eqn:E; [cbn; split; [right; reflexivity|lia]|]. apply G. exact E.
  - destruct (fltb F (ninf A F fabs n r1) eps) eqn:E; [cbn; split; [right; reflexivity|lia]|]. apply G. exact E.
Qed.
Theorem cg_col_terminates : forall (fabs : A -> A), fabs 0 = 0 -> (forall x, fltb F x x = false) ->
  (forall n v, nonzero A F n v -> dot n v v <> 0) ->
  forall fuel n (M : mat) eps (b : vec), (forall i j, (i < n)%nat -> (j < n)%nat -> M i j = M j i) -> definite A F n M ->
  fltb F 0 eps = true -> (S n < fuel)%nat ->
  let o := cg_col A F fabs fuel n M eps 0 b in
  (cg_why A o = StopEps \/ cg_why A o = StopInit) /\ (cg_iters A o <= n)%nat.
Proof.
  intros fabs abs_0 lt_irrefl sumsq fuel n M eps b Msym Hdef He Hf. unfold cg_col.
  apply (cgm_loop_term fabs abs_0 lt_irrefl sumsq n M eps Msym Hdef He b fuel 0); try (intros; reflexivity); [intros; lia|lia].
Qed.

End CgConj.
