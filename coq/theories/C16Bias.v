(* C16 — the book-keeping of BiasSolver / BiasSolverSimplex::performBiasUpdate (QpMcBoxDecomp.h / QpMcSimplexDecomp.h),
   as coded: deltaLinear(i,p) -= sum over the explicit entries of nu.row(label(i) * |P| + p) of value * step(index),
   label(i) taken by DATA index (repair 295c135c), followed by addDeltaLinear.  Definitions only.  The Rprop loop that
   produces the steps is not modelled (no optimality claim: known finding C16-BIAS). *)
From Coq Require Import Arith Bool List.
From SharkV Require Import C08Model C16Model C16State.
Import ListNotations.

Section Bias.
Variable A : Type.
Variable O : ops A.
Variable P n : nat.
Variable nuRow : nat -> list (nat * A).     (* nu.row(r).entry[0..size) *)
Variable y0 : nat -> nat.                   (* m_labels: label by data index *)

(* for (b < row.size) deltaLinear(i,p) -= row.entry[b].value * step(row.entry[b].index); *)
Definition bias_delta (step : nat -> A) (i p : nat) : A :=
  fold_left (fun acc (e : nat * A) => o_sub O acc (o_mul O (snd e) (step (fst e)))) (nuRow (y0 i * P + p)) (o_zero O).

(* performBiasUpdate(step, nu) together with "bias += step" of the caller *)
Definition bias_update (st : mst A * (nat -> A)) (step : nat -> A) : mst A * (nat -> A) :=
  (add_delta_linear O P n (fst st) (bias_delta step), fun c => o_add O (snd st c) (step c)).

End Bias.
Arguments bias_delta {A}. Arguments bias_update {A}.
