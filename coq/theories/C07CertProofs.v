(* C07 — soundness of the certified result checker C07Cert.certify.

   A. qdy / sumn_dy are invisible (== the plain values); forallb_n reflects bounded quantification.
   B. the stored gradient of cert_st is gradv (lin - K alpha); its flags mean "at the bound".
   C. certify = true  ->  box, equality within slack, eps-KKT (the solver's own criterion), bias in
      its interval.
   D. a point with a multiplier beta (g_a <= beta + eps below the upper bound, beta - eps <= g_a above
      the lower bound) is within eps*sum(U-L) + beta*(sum al' - sum al) of EVERY point of the box
      (K symmetric psd): generalises C07Proofs.eps_KKT_near_optimal to candidates that satisfy the
      equality constraint only up to a slack.
   E. certify = true -> near-optimality with the explicit slack term; two certified results agree.
   F. the linear-kernel Gram matrix X X^T (exactly as [gram] computes it) and the 2x2 block matrix
      of a psd matrix are symmetric psd. *)
From Coq Require Import QArith Qabs Qminmax Lqa Arith Bool List Lia.
From SharkV Require Import C08Model C08Defs C08Aux C07Proofs C07Setup C07SetupProofs C07Cert.
Import ListNotations.
Open Scope Q_scope.

Definition Kpsd (n : nat) (K : nat -> nat -> Q) : Prop :=
  forall d : nat -> Q, 0 <= sumn n (fun a => d a * sumn n (fun b => K a b * d b)).

(* ------------------------------------------------------------------ *)
(* A. normalisation, bounded quantifiers                                *)
(* ------------------------------------------------------------------ *)
Lemma strip2_ratio p q : let (a, b) := strip2 p q in (Zpos a * Zpos q = Zpos p * Zpos b)%Z.
Proof.
  revert q. induction p; intros q; cbn [strip2]; try reflexivity.
  destruct q; try reflexivity.
  specialize (IHp q). destruct (strip2 p q) as [a b].
  rewrite (Pos2Z.inj_xO q), (Pos2Z.inj_xO p). lia.
Qed.

Lemma qdy_eq x : qdy x == x.
Proof.
  destruct x as [num den]. unfold qdy. cbn [Qnum Qden].
  destruct num as [|p|p]; [reflexivity| |].
  - pose proof (strip2_ratio p den) as H. destruct (strip2 p den) as [a b].
    unfold Qeq. cbn [Qnum Qden]. exact H.
  - pose proof (strip2_ratio p den) as H. destruct (strip2 p den) as [a b].
    unfold Qeq. cbn [Qnum Qden]. change (Zneg a) with (- Zpos a)%Z. change (Zneg p) with (- Zpos p)%Z. lia.
Qed.

Lemma sumn_dy_eq m f : sumn_dy m f == sumn m f.
Proof. induction m; [reflexivity|]. cbn [sumn_dy sumn]. rewrite qdy_eq, IHm. reflexivity. Qed.

Lemma forallb_n_true m f : forallb_n m f = true <-> forall a, (a < m)%nat -> f a = true.
Proof.
  induction m; cbn [forallb_n].
  - split; [intros _ a H; lia|reflexivity].
  - rewrite andb_true_iff, IHm. split.
    + intros [H1 H2] a Ha. destruct (Nat.eq_dec a m) as [->|N]; [assumption|apply H1; lia].
    + intros H. split; [intros a Ha; apply H; lia|apply H; lia].
Qed.

(* ------------------------------------------------------------------ *)
(* B. the state of the candidate                                        *)
(* ------------------------------------------------------------------ *)
Lemma nth_map_seq (f : nat -> Q) n a : (a < n)%nat -> nth a (map f (seq 0 n)) 0 = f a.
Proof.
  intros H. rewrite (nth_indep _ 0 (f 0%nat)) by (rewrite map_length, seq_length; exact H).
  rewrite map_nth, seq_nth by exact H. reflexivity.
Qed.

Lemma cert_grad n K lin lo hi al a :
  (a < n)%nat -> grad (cert_st n K lin lo hi al) a == gradv n K lin al a.
Proof.
  intros H. unfold cert_st, cert_state, cert_grad_list. cbn [grad].
  rewrite nth_map_seq by exact H. rewrite qdy_eq, sumn_dy_eq. reflexivity.
Qed.

Lemma cert_active n K lin lo hi al : active (cert_st n K lin lo hi al) = n.
Proof. reflexivity. Qed.
Lemma cert_fu n K lin lo hi al a : fu (cert_st n K lin lo hi al) a = Qeq_bool (al a) (hi a).
Proof. reflexivity. Qed.
Lemma cert_fl n K lin lo hi al a : fl (cert_st n K lin lo hi al) a = Qeq_bool (al a) (lo a).
Proof. reflexivity. Qed.

Lemma below_upper_flag (x u : Q) : x < u -> Qeq_bool x u = false.
Proof. intros H. apply qeqb_false. lra. Qed.
Lemma above_lower_flag (x l : Q) : l < x -> Qeq_bool x l = false.
Proof. intros H. apply qeqb_false. lra. Qed.

(* ------------------------------------------------------------------ *)
(* C. what an accepted candidate satisfies                              *)
(* ------------------------------------------------------------------ *)
Definition in_box (n : nat) (lo hi al : nat -> Q) : Prop :=
  forall a, (a < n)%nat -> lo a <= al a /\ al a <= hi a.

(* the conditions certify decides, stated on the exact gradient gradv = lin - K alpha *)
Record certified (n : nat) (K : nat -> nat -> Q) (lin lo hi : nat -> Q) (eq : bool) (target : Q)
                 (al : nat -> Q) (hasbias : bool) (bias eps slack_eq slack_b : Q) : Prop := {
  cf_eps : 0 <= eps /\ 0 <= slack_eq /\ 0 <= slack_b;
  cf_box : in_box n lo hi al;
  cf_eq : eq = true -> Qabs (sumn n al - target) <= slack_eq;
  (* equality-constrained dual: every violating pair is within eps *)
  cf_kkt_eq : eq = true -> forall a c, (a < n)%nat -> (c < n)%nat -> al a < hi a -> lo c < al c ->
              gradv n K lin al a - gradv n K lin al c <= eps;
  (* ... and smallest_down (cert_mult) is a one-sided multiplier *)
  cf_mult : eq = true -> forall a, (a < n)%nat ->
            (al a < hi a -> gradv n K lin al a <= cert_mult n K lin lo hi al + eps) /\
            (lo a < al a -> cert_mult n K lin lo hi al <= gradv n K lin al a);
  (* box-constrained dual *)
  cf_kkt_box : eq = false -> forall a, (a < n)%nat ->
               (al a < hi a -> gradv n K lin al a <= eps) /\ (lo a < al a -> - eps <= gradv n K lin al a);
  (* the bias is an admissible multiplier up to eps + slack_b *)
  cf_bias : eq = true -> hasbias = true -> forall a, (a < n)%nat ->
            (al a < hi a -> gradv n K lin al a <= bias + eps + slack_b) /\
            (lo a < al a -> bias - eps - slack_b <= gradv n K lin al a)
}.

Lemma box_ok_true n lo hi al : box_ok n lo hi al = true -> in_box n lo hi al.
Proof.
  unfold box_ok. rewrite forallb_n_true. intros H a Ha. specialize (H a Ha).
  apply andb_true_iff in H. destruct H as [H1 H2].
  apply Qle_bool_iff in H1. apply Qle_bool_iff in H2. split; assumption.
Qed.

Lemma eq_ok_true n al target slack : eq_ok n al target slack = true -> Qabs (sumn n al - target) <= slack.
Proof.
  unfold eq_ok. intros H. apply andb_true_iff in H. destruct H as [H1 H2].
  apply Qle_bool_iff in H1. apply Qle_bool_iff in H2. rewrite sumn_dy_eq in H1, H2.
  apply Qabs_Qle_condition. split; lra.
Qed.

Theorem certify_sound n K lin lo hi eq target al hasbias bias eps slack_eq slack_b :
  certify n K lin lo hi eq target al hasbias bias eps slack_eq slack_b = true ->
  certified n K lin lo hi eq target al hasbias bias eps slack_eq slack_b.
Proof.
  unfold certify, cert_code. set (s := cert_st n K lin lo hi al).
  destruct (Qle_bool 0 eps && Qle_bool 0 slack_eq && Qle_bool 0 slack_b) eqn:E1; cbn [negb]; [|discriminate].
  destruct (box_ok n lo hi al) eqn:E2; cbn [negb]; [|discriminate].
  destruct (eq && negb (eq_ok n al target slack_eq)) eqn:E3; [discriminate|].
  destruct (Qle_bool (check_kkt qops n eq s) eps) eqn:E4; cbn [negb]; [|discriminate].
  destruct (eq && hasbias && negb (bias_ok n s bias (eps + slack_b))) eqn:E5; [discriminate|].
  intros _.
  apply andb_true_iff in E1. destruct E1 as [E1 E1c]. apply andb_true_iff in E1. destruct E1 as [E1a E1b].
  apply Qle_bool_iff in E1a. apply Qle_bool_iff in E1b. apply Qle_bool_iff in E1c. apply Qle_bool_iff in E4.
  pose proof (box_ok_true _ _ _ _ E2) as Hbox.
  assert (G : forall a, (a < n)%nat -> grad s a == gradv n K lin al a) by (intros; apply cert_grad; assumption).
  split.
  - auto.
  - exact Hbox.
  - intros ->. cbn [andb] in E3. apply negb_false_iff in E3. apply eq_ok_true. exact E3.
  - intros -> a c Ha Hc Ua Lc. unfold check_kkt in E4.
    pose proof (checkKKT_svm_is_max_violation s a c) as M. rewrite <- (G a Ha), <- (G c Hc).
    eapply Qle_trans; [apply M|exact E4]; try assumption.
    + unfold s. rewrite cert_fu. apply below_upper_flag. exact Ua.
    + unfold s. rewrite cert_fl. apply above_lower_flag. exact Lc.
  - intros -> a Ha. unfold check_kkt in E4.
    pose proof (checkKKT_svm_eps_multiplier_fwd s eps E4 a Ha) as [M1 M2].
    unfold cert_mult. fold s. change (active s) with n in M1, M2. rewrite <- (G a Ha). split.
    + intros Ua. apply M1. unfold s. rewrite cert_fu. apply below_upper_flag. exact Ua.
    + intros La. apply M2. unfold s. rewrite cert_fl. apply above_lower_flag. exact La.
  - intros -> a Ha. unfold check_kkt in E4.
    pose proof (proj1 (checkKKT_box_eps s n eps E1a) E4 a Ha) as M. rewrite <- (G a Ha).
    split.
    + intros Ua. assert (FU : fu s a = false) by (unfold s; rewrite cert_fu; apply below_upper_flag; exact Ua).
      apply M; [|exact FU]. unfold deact. rewrite FU. apply andb_false_r.
    + intros La. assert (FL : fl s a = false) by (unfold s; rewrite cert_fl; apply above_lower_flag; exact La).
      apply M; [|exact FL]. unfold deact. rewrite FL. reflexivity.
  - intros -> -> a Ha. cbn [andb] in E5. apply negb_false_iff in E5.
    unfold bias_ok in E5. rewrite forallb_n_true in E5. specialize (E5 a Ha).
    apply andb_true_iff in E5. destruct E5 as [B1 B2]. rewrite <- (G a Ha). split.
    + intros Ua. assert (FU : fu s a = false) by (unfold s; rewrite cert_fu; apply below_upper_flag; exact Ua).
      rewrite FU in B1. cbn [orb] in B1. apply Qle_bool_iff in B1. lra.
    + intros La. assert (FL : fl s a = false) by (unfold s; rewrite cert_fl; apply above_lower_flag; exact La).
      rewrite FL in B2. cbn [orb] in B2. apply Qle_bool_iff in B2. lra.
Qed.

(* ------------------------------------------------------------------ *)
(* D. a multiplier gives near-optimality, slack included                *)
(* ------------------------------------------------------------------ *)
Theorem mult_near_optimal n K (Hsym : Ksym K) (Hpsd : Kpsd n K) lin L U al al' eps beta :
  0 <= eps -> in_box n L U al -> in_box n L U al' ->
  (forall a, (a < n)%nat -> (al a < U a -> gradv n K lin al a <= beta + eps) /\
                             (L a < al a -> beta - eps <= gradv n K lin al a)) ->
  objv n K lin al' - objv n K lin al <=
  eps * sumn n (fun a => U a - L a) + beta * (sumn n al' - sumn n al).
Proof.
  intros He Hb Hb' HK.
  set (d := fun a => al' a - al a).
  assert (E : objv n K lin al' == objv n K lin (fun a => al a + d a)).
  { apply objv_ext. intros a _. unfold d. ring. }
  rewrite E, (objv_expand n K Hsym).
  pose proof (Hpsd d) as Hq. fold (quad n K d d) in Hq.
  assert (S1 : sumn n (fun a => gradv n K lin al a * d a) ==
               sumn n (fun a => (gradv n K lin al a - beta) * d a) + beta * (sumn n al' - sumn n al)).
  { rewrite <- sumn_sub, <- sumn_scal, <- sumn_add. apply sumn_ext. intros a _. unfold d. ring. }
  assert (S2 : sumn n (fun a => (gradv n K lin al a - beta) * d a) <= sumn n (fun a => eps * (U a - L a))).
  { apply sumn_le. intros a Ha. destruct (Hb a Ha) as [B1 B2]. destruct (Hb' a Ha) as [B3 B4].
    destruct (HK a Ha) as [K1 K2]. unfold d.
    destruct (Qlt_le_dec (al a) (al' a)) as [Up|Dn].
    - assert (G := K1 ltac:(lra)). nra.
    - destruct (Qlt_le_dec (al' a) (al a)) as [Dn'|Z].
      + assert (G := K2 ltac:(lra)). nra.
      + assert (al' a - al a == 0) by lra. rewrite H. nra. }
  rewrite sumn_scal in S2. lra.
Qed.

(* ------------------------------------------------------------------ *)
(* E. accepted candidates are nearly optimal                            *)
(* ------------------------------------------------------------------ *)
Lemma qabs_mul_le (x y s : Q) : Qabs y <= s -> x * y <= Qabs x * s.
Proof.
  intros H. assert (0 <= Qabs x) by apply Qabs_nonneg.
  assert (x * y <= Qabs (x * y)) by apply Qle_Qabs. rewrite Qabs_Qmult in H1.
  assert (0 <= Qabs y) by apply Qabs_nonneg. nra.
Qed.

(* al' ranges over EVERY point of the box whose sum misses the target by at most slack'
   (slack' = 0: every feasible point of the dual) *)
Theorem certified_near_optimal n K (Hsym : Ksym K) (Hpsd : Kpsd n K)
        lin lo hi eq target al hasbias bias eps slack_eq slack_b :
  certify n K lin lo hi eq target al hasbias bias eps slack_eq slack_b = true ->
  forall al' slack', in_box n lo hi al' ->
  (eq = true -> Qabs (sumn n al' - target) <= slack') ->
  objv n K lin al' - objv n K lin al <=
  eps * sumn n (fun a => hi a - lo a) +
  (if eq then Qabs (cert_mult n K lin lo hi al) * (slack_eq + slack') else 0).
Proof.
  intros C al' slack' Hb' Hs'. apply certify_sound in C. destruct C as [[He _] Hb Heq _ Hmult Hbox _].
  destruct eq.
  - specialize (Heq eq_refl). specialize (Hs' eq_refl).
    pose proof (mult_near_optimal n K Hsym Hpsd lin lo hi al al' eps (cert_mult n K lin lo hi al) He Hb Hb') as M.
    assert (HK : forall a, (a < n)%nat ->
               (al a < hi a -> gradv n K lin al a <= cert_mult n K lin lo hi al + eps) /\
               (lo a < al a -> cert_mult n K lin lo hi al - eps <= gradv n K lin al a)).
    { intros a Ha. destruct (Hmult eq_refl a Ha) as [M1 M2]. split; [exact M1|].
      intros La. specialize (M2 La). lra. }
    specialize (M HK).
    assert (D : Qabs (sumn n al' - sumn n al) <= slack_eq + slack').
    { setoid_replace (sumn n al' - sumn n al) with ((sumn n al' - target) + - (sumn n al - target)) by ring.
      eapply Qle_trans; [apply Qabs_triangle|]. rewrite Qabs_opp. lra. }
    pose proof (qabs_mul_le (cert_mult n K lin lo hi al) _ _ D). lra.
  - pose proof (mult_near_optimal n K Hsym Hpsd lin lo hi al al' eps 0 He Hb Hb') as M.
    assert (HK : forall a, (a < n)%nat ->
               (al a < hi a -> gradv n K lin al a <= 0 + eps) /\ (lo a < al a -> 0 - eps <= gradv n K lin al a)).
    { intros a Ha. destruct (Hbox eq_refl a Ha) as [M1 M2]. split; intros X; [specialize (M1 X)|specialize (M2 X)]; lra. }
    specialize (M HK). lra.
Qed.

(* the same with the returned bias as multiplier (accuracy eps + slack_b) *)
Theorem certified_near_optimal_bias n K (Hsym : Ksym K) (Hpsd : Kpsd n K)
        lin lo hi target al bias eps slack_eq slack_b :
  certify n K lin lo hi true target al true bias eps slack_eq slack_b = true ->
  forall al' slack', in_box n lo hi al' -> Qabs (sumn n al' - target) <= slack' ->
  objv n K lin al' - objv n K lin al <=
  (eps + slack_b) * sumn n (fun a => hi a - lo a) + Qabs bias * (slack_eq + slack').
Proof.
  intros C al' slack' Hb' Hs'. apply certify_sound in C. destruct C as [[He [_ Hsb]] Hb Heq _ _ _ Hbias].
  specialize (Heq eq_refl).
  assert (He' : 0 <= eps + slack_b) by lra.
  pose proof (mult_near_optimal n K Hsym Hpsd lin lo hi al al' (eps + slack_b) bias He' Hb Hb') as M.
  assert (HK : forall a, (a < n)%nat ->
             (al a < hi a -> gradv n K lin al a <= bias + (eps + slack_b)) /\
             (lo a < al a -> bias - (eps + slack_b) <= gradv n K lin al a)).
  { intros a Ha. destruct (Hbias eq_refl eq_refl a Ha) as [M1 M2].
    split; intros X; [specialize (M1 X)|specialize (M2 X)]; lra. }
  specialize (M HK).
  assert (D : Qabs (sumn n al' - sumn n al) <= slack_eq + slack').
  { setoid_replace (sumn n al' - sumn n al) with ((sumn n al' - target) + - (sumn n al - target)) by ring.
    eapply Qle_trans; [apply Qabs_triangle|]. rewrite Qabs_opp. lra. }
  pose proof (qabs_mul_le bias _ _ D). lra.
Qed.

(* two certified results of the same problem — whatever shrinking / cache / precompute / warm-start
   configuration produced them — have objectives within the sum of the two bounds (twice the bound
   when the accuracies coincide) *)
Corollary certified_results_agree n K (Hsym : Ksym K) (Hpsd : Kpsd n K) lin lo hi eq target
          al1 hb1 b1 eps1 se1 sb1 al2 hb2 b2 eps2 se2 sb2 :
  certify n K lin lo hi eq target al1 hb1 b1 eps1 se1 sb1 = true ->
  certify n K lin lo hi eq target al2 hb2 b2 eps2 se2 sb2 = true ->
  let S := sumn n (fun a => hi a - lo a) in
  let m1 := if eq then Qabs (cert_mult n K lin lo hi al1) * (se1 + se2) else 0 in
  let m2 := if eq then Qabs (cert_mult n K lin lo hi al2) * (se2 + se1) else 0 in
  objv n K lin al2 - objv n K lin al1 <= eps1 * S + m1 /\
  objv n K lin al1 - objv n K lin al2 <= eps2 * S + m2.
Proof.
  intros C1 C2 S m1 m2.
  pose proof (certify_sound _ _ _ _ _ _ _ _ _ _ _ _ _ C1) as [_ B1 E1 _ _ _ _].
  pose proof (certify_sound _ _ _ _ _ _ _ _ _ _ _ _ _ C2) as [_ B2 E2 _ _ _ _].
  split.
  - apply (certified_near_optimal n K Hsym Hpsd _ _ _ _ _ _ _ _ _ _ _ C1 al2 se2 B2 E2).
  - apply (certified_near_optimal n K Hsym Hpsd _ _ _ _ _ _ _ _ _ _ _ C2 al1 se1 B1 E1).
Qed.

(* ------------------------------------------------------------------ *)
(* F. positive semidefinite instances                                   *)
(* ------------------------------------------------------------------ *)
Lemma sumn_sq_nonneg m (f : nat -> Q) : 0 <= sumn m (fun k => f k * f k).
Proof. apply sumn_nonneg. intros a _. nra. Qed.

(* K = X X^T as [gram] computes it *)
Theorem gram_sym_psd n d X : Ksym (gram d X) /\ Kpsd n (gram d X).
Proof.
  split.
  - intros p q. unfold gram. rewrite !sumn_dy_eq. apply sumn_ext. intros k _. ring.
  - intros v.
    assert (E : sumn n (fun a => v a * sumn n (fun b => gram d X a b * v b)) ==
                sumn d (fun k => sumn n (fun a => v a * X a k) * sumn n (fun a => v a * X a k))).
    { rewrite (sumn_ext n _ (fun a => sumn d (fun k => (v a * X a k) * sumn n (fun b => v b * X b k)))).
      - rewrite sumn_exch. apply sumn_ext. intros k _. rewrite sumn_scal_r. reflexivity.
      - intros a _. rewrite <- sumn_scal.
        rewrite (sumn_ext n _ (fun b => sumn d (fun k => v a * X a k * (v b * X b k)))).
        + rewrite sumn_exch. apply sumn_ext. intros k _. rewrite sumn_scal. reflexivity.
        + intros b _. unfold gram. rewrite sumn_dy_eq.
          rewrite <- sumn_scal_r, <- sumn_scal. apply sumn_ext. intros k _. ring. }
    rewrite E. apply sumn_sq_nonneg.
Qed.

(* the matrix of the eps-SVR problem *)
Theorem block2_sym_psd n K : Ksym K -> Kpsd n K -> Ksym (block2 n K) /\ Kpsd (n + n) (block2 n K).
Proof.
  intros Hs Hp. split.
  - intros p q. unfold block2. apply Hs.
  - intros v.
    set (e := fun a => v a + v (n + a)%nat).
    assert (R : forall r, sumn (n + n) (fun b => block2 n K r b * v b) == sumn n (fun b => K (bidx n r) b * e b)).
    { intros r. rewrite sumn_plus, <- sumn_add. apply sumn_ext. intros b Hb. unfold block2, e.
      rewrite bidx_hi, (bidx_lo n b Hb). ring. }
    assert (E : sumn (n + n) (fun a => v a * sumn (n + n) (fun b => block2 n K a b * v b)) ==
                sumn n (fun a => e a * sumn n (fun b => K a b * e b))).
    { rewrite sumn_plus, <- sumn_add. apply sumn_ext. intros a Ha.
      rewrite !R, bidx_hi, (bidx_lo n a Ha). unfold e. ring. }
    rewrite E. apply Hp.
Qed.

(* ------------------------------------------------------------------ *)
(* satisfiability: a concrete 3-point problem that certify accepts      *)
(* ------------------------------------------------------------------ *)
(* data x = (1, 2, -1) (one coordinate), labels (+,+,-), linear kernel K = x x^T, C- = C+ = 1, offset.
   alpha = (1/2, 0, -1/2) gives w = 1, gradient y_i - x_i w = (0, -1, 0): no violating pair, bias 0:
   accepted with eps = 1/100.  alpha = (1/4, 0, -1/4) has gradient (1/2, 0, -1/2), violation 1: rejected. *)
Definition ex_X (a k : nat) : Q := match a with 0%nat => 1 | 1%nat => 2 | _ => -1 end.
Definition ex_lab (i : nat) : bool := (i <? 2)%nat.
Definition ex_p : qp Q := csvm_problem qops 1 true 3 ex_lab 1 1 None.
Definition ex_al (i : nat) : Q := match i with 0%nat => 1 # 2 | 1%nat => 0 | _ => - (1 # 2) end.

Example certify_accepts_example :
  certify_qp (gram 1 ex_X) ex_p 0 ex_al true 0 (1 # 100) 0 0 = true.
Proof. vm_compute. reflexivity. Qed.

Example certify_rejects_example :
  certify_qp (gram 1 ex_X) ex_p 0 (fun i => if (i =? 0)%nat then 1 # 4 else if (i =? 1)%nat then 0 else - (1 # 4))
             true 0 (1 # 100) 0 0 = false.
Proof. vm_compute. reflexivity. Qed.

Print Assumptions certify_sound.
Print Assumptions mult_near_optimal.
Print Assumptions certified_near_optimal.
Print Assumptions certified_near_optimal_bias.
Print Assumptions certified_results_agree.
Print Assumptions gram_sym_psd.
Print Assumptions block2_sym_psd.
