(* C12 — the construction loop of createCVIndexed / createCVFullyIndexed / createCVSameSizeBalanced, subBatch through
   a DataView and detail::complement (std::set_difference) compute the list functions of C12Model (regroup, complement). *)
From Coq Require Import List Arith Lia Bool Permutation Sorted.
From SharkV Require Import ListAux C03Model C03Proofs C12Model C12Proofs C03ViewProofs C03Class C12BalancedProofs C12Folds C12FoldsProofs C12Loops.
Import ListNotations.

Ltac inv H := inversion H; subst; clear H.

(* ------------------------------------------------------------------------------------------------ *)
(* list helpers                                                                                       *)
Lemma upd_map_seq {X} (f : nat -> X) k p v :
  upd p v (map f (seq 0 k)) = map (fun q => if q =? p then v else f q) (seq 0 k).
Proof.
  assert (G : forall s, upd p v (map f (seq s k)) = map (fun q => if q =? s + p then v else f q) (seq s k)).
  { revert p; induction k as [|k IH]; intros p s; simpl; [destruct p; reflexivity|].
    destruct p as [|p]; simpl.
    - rewrite Nat.add_0_r, Nat.eqb_refl. f_equal. apply map_ext_in. intros q Hq. apply in_seq in Hq.
      destruct (Nat.eqb_spec q s); [lia|reflexivity].
    - destruct (Nat.eqb_spec s (s + S p)); [lia|]. f_equal. rewrite IH. apply map_ext. intros q.
      replace (S s + p) with (s + S p) by lia. reflexivity. }
  apply (G 0).
Qed.

Lemma nth_map_seq {X} (f : nat -> X) k p d : p < k -> nth p (map f (seq 0 k)) d = f p.
Proof.
  intros H. rewrite (nth_indep _ d (f 0)) by (rewrite map_length, seq_length; auto).
  rewrite map_nth, seq_nth by auto. reflexivity.
Qed.

Lemma upd_concat {X} (rs : list (list X)) p i v :
  p < length rs -> i < length (nth p rs []) ->
  upd (length (concat (firstn p rs)) + i) v (concat rs) = concat (upd p (upd i v (nth p rs [])) rs).
Proof.
  revert p; induction rs as [|r t IH]; intros p Hp Hi; simpl in *; [lia|].
  destruct p as [|p]; simpl in *.
  - clear IH Hp. revert i Hi; induction r as [|x r' IHr]; intros i Hi; simpl in *; [lia|].
    destruct i; simpl; auto. f_equal. apply IHr. lia.
  - rewrite app_length. rewrite <- IH by lia.
    clear. induction r as [|x r' IHr]; simpl; auto. f_equal. exact IHr.
Qed.

Lemma nth_concat {X} (rs : list (list X)) p i d :
  p < length rs -> i < length (nth p rs []) ->
  nth (length (concat (firstn p rs)) + i) (concat rs) d = nth i (nth p rs []) d.
Proof.
  revert p; induction rs as [|r t IH]; intros p Hp Hi; simpl in *; [lia|].
  destruct p as [|p]; simpl in *.
  - apply app_nth1. auto.
  - rewrite app_length, app_nth2 by lia. rewrite <- IH by lia. f_equal. lia.
Qed.

Lemma length_concat_firstn {X} (rs : list (list X)) p :
  length (concat (firstn p rs)) = sum (firstn p (map (@length X) rs)).
Proof. rewrite length_concat_sum, firstn_map. reflexivity. Qed.

Lemma nth_pstarts lens s p : p < length lens -> nth p (pstarts lens s) 0 = s + sum (firstn p lens).
Proof.
  revert s p; induction lens as [|n r IH]; intros s p H; simpl in *; [lia|].
  destruct p; simpl; [lia|]. rewrite IH by lia. lia.
Qed.

Lemma pstarts_length lens s : length (pstarts lens s) = length lens.
Proof. revert s; induction lens as [|n r IH]; intros s; simpl; auto. Qed.

Lemma map_const_seq {X} (x : X) s n : map (fun _ => x) (seq s n) = repeat x n.
Proof. revert s; induction n as [|n IH]; intros s; simpl; auto. f_equal. apply IH. Qed.

Lemma upd_app_pad {X} (out : list X) (e pad : X) n :
  0 < n -> upd (length out) e (out ++ repeat pad n) = (out ++ [e]) ++ repeat pad (n - 1).
Proof.
  intros H. induction out as [|x t IH]; simpl.
  - destruct n; [lia|]. simpl. rewrite Nat.sub_0_r. reflexivity.
  - f_equal. exact IH.
Qed.

Lemma chunk_app_exact {X} a (L r : list X) : sum a = length L -> chunk a (L ++ r) = chunk a L.
Proof.
  revert L; induction a as [|s t IH]; intros L H; simpl in *; auto.
  assert (s <= length L) by lia.
  rewrite firstn_app, skipn_app. replace (s - length L) with 0 by lia. simpl. rewrite app_nil_r. f_equal.
  apply IH. rewrite skipn_length. lia.
Qed.

Lemma chunk_concat_pairs {X} (pairs : list (list nat * list X)) :
  (forall bl, In bl pairs -> sum (fst bl) = length (snd bl)) ->
  concat (map (fun bl => chunk (fst bl) (snd bl)) pairs) = chunk (concat (map fst pairs)) (concat (map snd pairs)).
Proof.
  induction pairs as [|[b L] t IH]; intros H; simpl; auto.
  rewrite chunk_app. rewrite (chunk_app_exact b L) by (apply (H (b, L)); left; reflexivity).
  f_equal. rewrite IH by (intros bl Hb; apply H; right; exact Hb). f_equal.
  assert (E : sum b = length L) by (apply (H (b, L)); left; reflexivity).
  rewrite skipn_app, E, skipn_all, Nat.sub_diag. reflexivity.
Qed.

(* ------------------------------------------------------------------------------------------------ *)
(* one fold seen alone: (number of completed batches, pending positions, completed batches)           *)
Definition pst := (nat * list nat * list (list nat))%type.
Definition g0 : pst := (0, [], []).
Definition pj (g : pst) := fst (fst g).
Definition ppend (g : pst) := snd (fst g).
Definition pout (g : pst) := snd g.

Definition fstep (bsz : list nat) (g : pst) (src : nat) : pst :=
  let pend' := ppend g ++ [src] in
  if length pend' =? nth (pj g) bsz 0 then (S (pj g), [], pout g ++ [pend']) else (pj g, pend', pout g).

Lemma fill_chunk bsz : (forall s, In s bsz -> 1 <= s) ->
  forall L j pend out, j <= length bsz -> (j < length bsz -> length pend < nth j bsz 0) ->
    length pend + length L = sum (skipn j bsz) ->
    fold_left (fstep bsz) L (j, pend, out) = (length bsz, [], out ++ chunk (skipn j bsz) (pend ++ L)).
Proof.
  intros Pos. induction L as [|x L IH]; intros j pend out Hj Hp Hs; simpl.
  - destruct (skipn j bsz) as [|s rest] eqn:Sk.
    + simpl in *. destruct pend; [|simpl in Hs; lia]. rewrite app_nil_r.
      assert (j = length bsz) as ->; [|reflexivity].
      destruct (Nat.eq_dec j (length bsz)); auto.
      assert (length (skipn j bsz) = length bsz - j) by apply skipn_length. rewrite Sk in H. simpl in H. lia.
    + exfalso. assert (Lj : j < length bsz).
      { destruct (Nat.lt_ge_cases j (length bsz)); auto. rewrite skipn_all2 in Sk by auto. discriminate. }
      assert (s = nth j bsz 0).
      { rewrite <- (firstn_skipn j bsz) at 1. rewrite app_nth2 by (rewrite firstn_length; lia).
        rewrite firstn_length, Nat.min_l by lia. rewrite Nat.sub_diag, Sk. reflexivity. }
      specialize (Hp Lj). simpl in Hs. lia.
  - assert (Lj : j < length bsz).
    { destruct (Nat.lt_ge_cases j (length bsz)); auto. rewrite skipn_all2 in Hs by auto. simpl in Hs. lia. }
    assert (Sk : skipn j bsz = nth j bsz 0 :: skipn (S j) bsz).
    { clear - Lj. revert j Lj; induction bsz as [|b t IHb]; intros j Lj; simpl in *; [lia|].
      destruct j; simpl; auto. apply IHb. lia. }
    specialize (Hp Lj). unfold fstep at 2. cbn [pj ppend pout fst snd]. rewrite app_length. simpl length.
    destruct (Nat.eqb_spec (length pend + 1) (nth j bsz 0)) as [E|N].
    + rewrite IH.
      * f_equal. rewrite Sk. simpl chunk. rewrite <- app_assoc. f_equal.
        replace (pend ++ x :: L) with ((pend ++ [x]) ++ L) by (rewrite <- app_assoc; reflexivity).
        rewrite firstn_app, skipn_app, app_length. simpl length. rewrite <- E, Nat.sub_diag. simpl.
        rewrite firstn_all2 by (rewrite app_length; simpl; lia). rewrite app_nil_r.
        rewrite skipn_all2 by (rewrite app_length; simpl; lia). reflexivity.
      * lia.
      * intros H. assert (In (nth (S j) bsz 0) bsz) by (apply nth_In; auto). specialize (Pos _ H0). simpl. lia.
      * rewrite Sk in Hs. simpl in Hs. simpl. lia.
    + rewrite IH.
      * f_equal. rewrite <- app_assoc. reflexivity.
      * lia.
      * intros _. rewrite app_length. simpl. lia.
      * rewrite app_length. simpl in *. lia.
Qed.

(* the folds evolve independently: fold p sees exactly the steps that name it, in order *)
Definition gstep (bszs : list (list nat)) (G : list pst) (sp : nat * nat) : list pst :=
  upd (snd sp) (fstep (nth (snd sp) bszs []) (nth (snd sp) G g0) (fst sp)) G.

Lemma gstep_project bszs steps : forall G p, p < length G ->
  nth p (fold_left (gstep bszs) steps G) g0 =
  fold_left (fstep (nth p bszs [])) (map fst (filter (fun sp => snd sp =? p) steps)) (nth p G g0).
Proof.
  induction steps as [|[src q] r IH]; intros G p Hp; simpl; auto.
  rewrite IH by (unfold gstep; rewrite upd_length; auto). unfold gstep. simpl.
  rewrite nth_upd. destruct (Nat.eqb_spec q p) as [->|N]; simpl.
  - apply Nat.ltb_lt in Hp. rewrite Hp. reflexivity.
  - reflexivity.
Qed.

Lemma gstep_length bszs steps : forall G, length (fold_left (gstep bszs) steps G) = length G.
Proof. induction steps as [|sp r IH]; intros G; simpl; auto. rewrite IH. unfold gstep. apply upd_length. Qed.

Lemma concat_repeat_nil {X} (lens : list nat) : concat (map (fun n => repeat (@nil X) n) lens) = repeat [] (sum lens).
Proof. induction lens as [|n r IH]; simpl; auto. rewrite IH. symmetry. apply repeat_app. Qed.

Lemma count_eq_filter_snd (steps : list (nat * nat)) p :
  count_eq (map snd steps) p = length (map fst (filter (fun sp => snd sp =? p) steps)).
Proof.
  unfold count_eq. rewrite map_length. induction steps as [|[a b] r IH]; simpl; auto.
  rewrite (Nat.eqb_sym p b). destruct (b =? p); simpl; rewrite IH; reflexivity.
Qed.

(* ------------------------------------------------------------------------------------------------ *)
(* the loop of the C++ against the independent folds                                                  *)
Section Loop.
Variable bszs : list (list nat).                   (* batch sizes of fold 0, of fold 1, ... *)
Hypothesis Pos : forall p s, In s (nth p bszs []) -> 1 <= s.
Let k := length bszs.
Let bs := concat bszs.
Let starts := pstarts (map (@length nat) bszs) 0.

Definition region (G : list pst) (p : nat) : list (list nat) :=
  pout (nth p G g0) ++ repeat [] (length (nth p bszs []) - length (pout (nth p G g0))).

Definition conc (G : list pst) : cvloop :=
  mkLoop (map (fun p => nth p starts 0 + pj (nth p G g0)) (seq 0 k))
         (map (fun p => ppend (nth p G g0)) (seq 0 k))
         (concat (map (region G) (seq 0 k))).

Definition ginv (G : list pst) (rest : list (nat * nat)) : Prop :=
  length G = k /\
  forall q, q < k ->
    let g := nth q G g0 in let bz := nth q bszs [] in
    length (pout g) = pj g /\ pj g <= length bz /\
    (pj g < length bz -> length (ppend g) < nth (pj g) bz 0) /\
    sum (firstn (pj g) bz) + length (ppend g) + count_eq (map snd rest) q = sum bz.

Lemma region_length G q : length (pout (nth q G g0)) <= length (nth q bszs []) -> length (region G q) = length (nth q bszs []).
Proof. intros H. unfold region. rewrite app_length, repeat_length. lia. Qed.

Lemma start_is_offset G p : (forall q, q < k -> length (pout (nth q G g0)) <= length (nth q bszs [])) -> p < k ->
  nth p starts 0 = length (concat (firstn p (map (region G) (seq 0 k)))).
Proof.
  intros H Hp. unfold starts. rewrite nth_pstarts by (rewrite map_length; exact Hp). simpl.
  rewrite length_concat_firstn. f_equal. f_equal. rewrite map_map.
  rewrite <- (map_nth_seq (map (@length nat) bszs) 0) at 1. rewrite map_length. fold k. apply map_ext_in.
  intros q Hq. apply in_seq in Hq. rewrite region_length by (apply H; lia).
  rewrite (nth_indep _ 0 (length (@nil nat))) by (rewrite map_length; fold k; lia). apply map_nth.
Qed.

Lemma nth_sum_firstn_lt (bz : list nat) j : (forall s, In s bz -> 1 <= s) -> j <= length bz ->
  forall c, sum (firstn j bz) + c < sum bz -> (j < length bz -> c < nth j bz 0 \/ True) -> j < length bz.
Proof.
  intros P Hj c H _. destruct (Nat.lt_ge_cases j (length bz)); auto. rewrite firstn_all2 in H by auto. lia.
Qed.

(* one pass through the loop body = one step of the fold it names *)
Lemma cv_step_conc G rest src p :
  ginv G ((src, p) :: rest) -> p < k ->
  cv_step bs (conc G) (src, p) = conc (gstep bszs G (src, p)) /\ ginv (gstep bszs G (src, p)) rest.
Proof.
  intros [LG I] Hp. pose proof (I p Hp) as Ip. cbv zeta in Ip. destruct Ip as (I1 & I2 & I3 & I4).
  set (g := nth p G g0) in *. set (bz := nth p bszs []) in *.
  assert (Hout : forall q, q < k -> length (pout (nth q G g0)) <= length (nth q bszs [])).
  { intros q Hq. destruct (I q Hq) as (A1 & A2 & _). lia. }
  simpl map in I4. rewrite count_eq_cons, Nat.eqb_refl in I4.
  assert (Jlt : pj g < length bz).
  { destruct (Nat.lt_ge_cases (pj g) (length bz)); auto. rewrite firstn_all2 in I4 by auto. lia. }
  specialize (I3 Jlt).
  (* what the loop body reads *)
  assert (Rb : nth p (belems (conc G)) [] = ppend g) by (unfold conc; cbn [belems]; exact (nth_map_seq (fun q => ppend (nth q G g0)) k p [] Hp)).
  assert (Rv : nth p (vstart (conc G)) 0 = nth p starts 0 + pj g) by (unfold conc; cbn [vstart]; exact (nth_map_seq (fun q => nth q starts 0 + pj (nth q G g0)) k p 0 Hp)).
  assert (Rs : nth (nth p starts 0 + pj g) bs 0 = nth (pj g) bz 0).
  { unfold bs. assert (nth p starts 0 = length (concat (firstn p bszs))) as ->.
    { unfold starts. rewrite nth_pstarts by (rewrite map_length; exact Hp). simpl. symmetry. apply length_concat_firstn. }
    apply nth_concat; auto. }
  unfold cv_step. rewrite Rb, Rv, Rs. unfold gstep. cbn [fst snd]. fold g. fold bz. unfold fstep.
  destruct (length (ppend g ++ [src]) =? nth (pj g) bz 0) eqn:Full.
  - (* the batch is complete *)
    set (g' := (S (pj g), @nil nat, pout g ++ [ppend g ++ [src]])).
    assert (Ng : forall q, nth q (upd p g' G) g0 = if q =? p then g' else nth q G g0).
    { intros q. rewrite nth_upd. destruct (Nat.eqb_spec p q) as [->|N].
      - rewrite Nat.eqb_refl. cbn [andb].
        match goal with |- (if ?c then _ else _) = _ => destruct c eqn:Eb end; [reflexivity|].
        apply Nat.ltb_ge in Eb. unfold pst in *. lia.
      - destruct (Nat.eqb_spec q p); [congruence|reflexivity]. }
    split.
    + unfold conc. f_equal.
      * cbn [vstart]. rewrite upd_map_seq. apply map_ext. intros q. rewrite Ng. destruct (q =? p) eqn:Eq.
        -- apply Nat.eqb_eq in Eq. subst q. unfold g', pj. simpl. lia.
        -- reflexivity.
      * cbn [belems]. rewrite upd_map_seq. apply map_ext. intros q. rewrite Ng. destruct (q =? p); reflexivity.
      * cbn [newset]. rewrite (start_is_offset G p Hout Hp).
        assert (Lr : nth p (map (region G) (seq 0 k)) [] = region G p) by (exact (nth_map_seq (region G) k p [] Hp)).
        rewrite upd_concat; [|rewrite map_length, seq_length; exact Hp|rewrite Lr, region_length by (apply Hout; exact Hp); exact Jlt].
        f_equal. rewrite Lr, upd_map_seq. apply map_ext. intros q. unfold region at 2 3. rewrite Ng.
        destruct (Nat.eqb_spec q p) as [->|N]; [|reflexivity].
        unfold region. fold g. fold bz. unfold g', pout. cbn [snd]. rewrite <- I1 at 1.
        rewrite upd_app_pad by (unfold pout in I1; lia). rewrite app_length. simpl length.
        replace (length bz - (length (snd g) + 1)) with (length bz - length (snd g) - 1) by lia. reflexivity.
    + split; [rewrite upd_length; exact LG|]. intros q Hq. cbv zeta. rewrite Ng.
      destruct (Nat.eqb_spec q p) as [->|N].
      * fold bz. apply Nat.eqb_eq in Full. rewrite app_length in Full. simpl length in Full.
        unfold g'. unfold pj, ppend, pout in *. cbn [fst snd]. rewrite app_length. simpl length.
        split; [lia|]. split; [lia|]. split.
        -- intros H. assert (In (nth (S (fst (fst g))) bz 0) bz) by (apply nth_In; exact H). specialize (Pos p _ H0). lia.
        -- rewrite sum_firstn_S. lia.
      * destruct (I q Hq) as (A1 & A2 & A3 & A4). simpl map in A4. rewrite count_eq_cons in A4.
        destruct (Nat.eqb_spec q p); [congruence|]. repeat split; auto.
  - (* still filling *)
    set (g' := (pj g, ppend g ++ [src], pout g)).
    assert (Ng : forall q, nth q (upd p g' G) g0 = if q =? p then g' else nth q G g0).
    { intros q. rewrite nth_upd. destruct (Nat.eqb_spec p q) as [->|N].
      - rewrite Nat.eqb_refl. cbn [andb].
        match goal with |- (if ?c then _ else _) = _ => destruct c eqn:Eb end; [reflexivity|].
        apply Nat.ltb_ge in Eb. unfold pst in *. lia.
      - destruct (Nat.eqb_spec q p); [congruence|reflexivity]. }
    split.
    + unfold conc. f_equal.
      * cbn [vstart]. apply map_ext. intros q. rewrite Ng. destruct (Nat.eqb_spec q p) as [->|]; reflexivity.
      * cbn [belems]. rewrite upd_map_seq. apply map_ext. intros q. rewrite Ng. destruct (q =? p); reflexivity.
      * cbn [newset]. f_equal. apply map_ext. intros q. unfold region. rewrite Ng. destruct (Nat.eqb_spec q p) as [->|]; reflexivity.
    + split; [rewrite upd_length; exact LG|]. intros q Hq. cbv zeta. rewrite Ng.
      destruct (Nat.eqb_spec q p) as [->|N].
      * fold bz. apply Nat.eqb_neq in Full. rewrite app_length in Full. simpl length in Full.
        unfold g'. unfold pj, ppend, pout in *. cbn [fst snd]. rewrite app_length. simpl length.
        repeat split; try lia.
      * destruct (I q Hq) as (A1 & A2 & A3 & A4). simpl map in A4. rewrite count_eq_cons in A4.
        destruct (Nat.eqb_spec q p); [congruence|]. repeat split; auto.
Qed.

Lemma cv_loop_conc rest : forall G, ginv G rest -> (forall sp, In sp rest -> snd sp < k) ->
  fold_left (cv_step bs) rest (conc G) = conc (fold_left (gstep bszs) rest G).
Proof.
  induction rest as [|[src p] r IH]; intros G I B; cbn [fold_left]; auto.
  destruct (cv_step_conc G r src p I (B (src, p) (or_introl eq_refl))) as [E I'].
  rewrite E. apply IH; auto. intros sp Hs. apply B. right. exact Hs.
Qed.

(* the whole loop: the new set holds, fold after fold, the source positions named for the fold, in the order of the steps,
   cut into the fold's batches *)
Theorem cv_loop_newset steps :
  (forall sp, In sp steps -> snd sp < k) ->
  (forall p, p < k -> count_eq (map snd steps) p = sum (nth p bszs [])) ->
  newset (cv_loop bs starts k steps) =
  chunk bs (flat_map (fun p => map fst (filter (fun sp => snd sp =? p) steps)) (seq 0 k)).
Proof.
  intros B C. unfold cv_loop.
  set (G0 := repeat g0 k).
  assert (N0 : forall q, nth q G0 g0 = g0) by (intros q; unfold G0; apply nth_repeat).
  assert (E0 : mkLoop starts (repeat [] k) (repeat [] (length bs)) = conc G0).
  { unfold conc. f_equal.
    - rewrite <- (map_nth_seq starts 0) at 1. assert (length starts = k) as ->.
      { unfold starts, k. rewrite pstarts_length, map_length. reflexivity. }
      apply map_ext. intros q. rewrite N0. unfold pj, g0. simpl. lia.
    - rewrite (map_ext _ (fun _ => @nil nat)) by (intros q; rewrite N0; reflexivity). symmetry. apply map_const_seq.
    - unfold bs. rewrite length_concat_sum. rewrite <- concat_repeat_nil. f_equal.
      rewrite <- (map_nth_seq (map (@length nat) bszs) 0), map_length, map_map. fold k. apply map_ext_in.
      intros q Hq. apply in_seq in Hq. unfold region. rewrite N0. unfold pout, g0. simpl. rewrite Nat.sub_0_r. f_equal.
      rewrite (nth_indep _ 0 (length (@nil nat))) by (rewrite map_length; fold k; lia). apply map_nth. }
  rewrite E0. rewrite cv_loop_conc; auto.
  - (* all folds complete *)
    set (Gf := fold_left (gstep bszs) steps G0).
    assert (F : forall p, p < k -> nth p Gf g0 =
              (length (nth p bszs []), [], chunk (nth p bszs []) (map fst (filter (fun sp => snd sp =? p) steps)))).
    { intros p Hp. unfold Gf. rewrite gstep_project by (unfold G0; rewrite repeat_length; exact Hp). rewrite N0.
      unfold g0. rewrite (fill_chunk (nth p bszs []) (Pos p)); simpl; auto; try lia.
      - intros H. destruct (nth p bszs []) as [|s0 t0] eqn:E; simpl in *; [lia|].
        assert (In s0 (nth p bszs [])) by (rewrite E; left; reflexivity). specialize (Pos p s0 H0). lia.
      - rewrite <- count_eq_filter_snd. apply C. exact Hp. }
    unfold conc. cbn [newset].
    rewrite (map_ext_in (region Gf) (fun p => chunk (nth p bszs []) (map fst (filter (fun sp => snd sp =? p) steps)))).
    + rewrite (map_ext_in _ (fun p => (fun bl => chunk (fst bl) (snd bl)) (nth p bszs [], map fst (filter (fun sp => snd sp =? p) steps))))
        by reflexivity.
      rewrite <- (map_map (fun p => (nth p bszs [], map fst (filter (fun sp => snd sp =? p) steps))) (fun bl => chunk (fst bl) (snd bl))).
      rewrite chunk_concat_pairs.
      * rewrite !map_map. cbn [fst snd]. unfold bs. f_equal.
        -- f_equal. apply (map_nth_seq bszs []).
        -- rewrite flat_map_concat_map. reflexivity.
      * intros bl Hb. apply in_map_iff in Hb. destruct Hb as [p [<- Hp]]. apply in_seq in Hp. cbn [fst snd].
        rewrite <- count_eq_filter_snd. symmetry. apply C. lia.
    + intros p Hp. apply in_seq in Hp. unfold region. rewrite F by lia. unfold pout. cbn [snd].
      rewrite chunk_length, Nat.sub_diag. apply app_nil_r.
  - (* the invariant holds at the start *)
    split; [unfold G0; apply repeat_length|]. intros q Hq. cbv zeta. rewrite N0. unfold g0, pj, ppend, pout. simpl.
    repeat split; try lia.
    + intros H. destruct (nth q bszs []) as [|s t] eqn:E; simpl in *; [lia|].
      assert (In s (nth q bszs [])) by (rewrite E; left; reflexivity). specialize (Pos q s H0). lia.
    + apply C. exact Hq.
Qed.

End Loop.

(* ------------------------------------------------------------------------------------------------ *)
(* detail::complement: iota, sort, std::set_difference = the filter of the model                      *)
Lemma existsb_eqb_In x l : existsb (Nat.eqb x) l = true <-> In x l.
Proof.
  rewrite existsb_exists. split.
  - intros [y [Hy E]]. apply Nat.eqb_eq in E. subst. exact Hy.
  - intros H. exists x. split; auto. apply Nat.eqb_refl.
Qed.

Lemma insert_sorted_In x l y : In y (insert_sorted x l) <-> y = x \/ In y l.
Proof.
  induction l as [|z r IH]; simpl; [intuition|].
  destruct (x <=? z); simpl; [intuition|]. rewrite IH. intuition.
Qed.

Lemma sort_nat_In l y : In y (sort_nat l) <-> In y l.
Proof. induction l as [|x r IH]; simpl; [tauto|]. rewrite insert_sorted_In, IH. intuition. Qed.

Lemma insert_sorted_sorted x l : StronglySorted le l -> StronglySorted le (insert_sorted x l).
Proof.
  induction 1 as [|z r S IH F]; simpl; [repeat constructor|].
  destruct (Nat.leb_spec x z).
  - constructor; [constructor; auto|]. constructor; auto. eapply Forall_impl; [|exact F]. intros; lia.
  - constructor; auto. apply Forall_forall. intros y Hy. apply insert_sorted_In in Hy. destruct Hy as [->|Hy]; [lia|].
    rewrite Forall_forall in F. auto.
Qed.

Lemma sort_nat_sorted l : StronglySorted le (sort_nat l).
Proof. induction l; simpl; [constructor|apply insert_sorted_sorted; auto]. Qed.

Lemma sort_nat_length l : length (sort_nat l) = length l.
Proof.
  assert (G : forall x r, length (insert_sorted x r) = S (length r)).
  { intros x r. induction r as [|z t IH]; simpl; auto. destruct (x <=? z); simpl; auto. }
  induction l; simpl; auto. rewrite G. auto.
Qed.

Lemma seq_strongly_sorted s n : StronglySorted lt (seq s n).
Proof.
  revert s; induction n as [|n IH]; intros s; simpl; constructor; auto.
  apply Forall_forall. intros y Hy. apply in_seq in Hy. lia.
Qed.

Lemma set_difference_spec fuel : forall a b,
  length a + length b <= fuel -> StronglySorted lt a -> StronglySorted le b ->
  set_difference fuel a b = filter (fun x => negb (existsb (Nat.eqb x) b)) a.
Proof.
  induction fuel as [|f IH]; intros a b L Sa Sb.
  - destruct a; simpl in *; [reflexivity|lia].
  - destruct a as [|x a']; [reflexivity|]. destruct b as [|y b'].
    + simpl. f_equal. symmetry. clear. induction a'; simpl; auto. f_equal. auto.
    + inversion Sa as [|? ? Sa' Fa]; subst. inversion Sb as [|? ? Sb' Fb]; subst.
      rewrite Forall_forall in Fa, Fb. cbn [set_difference].
      destruct (Nat.ltb_spec x y) as [Lxy|Gxy].
      * (* x is below everything in b: kept *)
        rewrite IH by (auto; simpl in *; lia).
        assert (Nx : existsb (Nat.eqb x) (y :: b') = false).
        { apply not_true_is_false. intros H. apply existsb_eqb_In in H. destruct H as [->|H]; [lia|]. specialize (Fb _ H). lia. }
        cbn [filter]. rewrite Nx. reflexivity.
      * destruct (Nat.ltb_spec y x) as [Lyx|Gyx].
        -- (* y is below everything in a: dropped from b *)
           rewrite IH by (auto; simpl in *; lia). apply filter_ext_in. intros z Hz. f_equal. cbn [existsb].
           assert (z <> y) by (destruct Hz as [<-|Hz]; [lia|specialize (Fa _ Hz); lia]).
           destruct (Nat.eqb_spec z y); [congruence|reflexivity].
        -- assert (x = y) by lia. subst y.
           rewrite IH by (auto; simpl in *; lia). cbn [filter existsb]. rewrite Nat.eqb_refl. cbn [orb negb].
           apply filter_ext_in. intros z Hz. f_equal. specialize (Fa _ Hz).
           destruct (Nat.eqb_spec z x); [lia|reflexivity].
Qed.

Theorem complement_sd_correct idx n : complement_sd idx n = complement idx n.
Proof.
  unfold complement_sd, complement. rewrite set_difference_spec.
  - apply filter_ext. intros x. f_equal.
    destruct (existsb (Nat.eqb x) (sort_nat idx)) eqn:E1; destruct (existsb (Nat.eqb x) idx) eqn:E2; auto.
    + apply (proj1 (existsb_eqb_In x (sort_nat idx))) in E1. apply (proj1 (sort_nat_In idx x)) in E1. apply (proj2 (existsb_eqb_In x idx)) in E1. congruence.
    + apply (proj1 (existsb_eqb_In x idx)) in E2. apply (proj2 (sort_nat_In idx x)) in E2. apply (proj2 (existsb_eqb_In x (sort_nat idx))) in E2. congruence.
  - rewrite seq_length, sort_nat_length. lia.
  - apply seq_strongly_sorted.
  - apply sort_nat_sorted.
Qed.

(* ------------------------------------------------------------------------------------------------ *)
(* the step sequences of the three constructors name, for every fold, the positions of the model's gather order *)
Lemma filter_map_swap {X Y} (g : X -> Y) (f : Y -> bool) l : filter f (map g l) = map g (filter (fun x => f (g x)) l).
Proof. induction l as [|x r IH]; simpl; auto. destruct (f (g x)); simpl; rewrite IH; reflexivity. Qed.

Lemma steps_of_fold (a b : list nat) p : length a = length b ->
  map fst (filter (fun sp => snd sp =? p) (combine a b)) =
  map (fun t => nth t a 0) (filter (fun t => nth t b 0 =? p) (seq 0 (length b))).
Proof.
  revert b; induction a as [|x a IH]; intros [|y b] L; simpl in L; try discriminate; [reflexivity|].
  cbn [combine filter snd length]. rewrite <- cons_seq, <- seq_shift. cbn [filter nth].
  specialize (IH b ltac:(lia)).
  assert (T : map (fun t => nth t (x :: a) 0) (filter (fun t => nth t (y :: b) 0 =? p) (map S (seq 0 (length b))))
              = map fst (filter (fun sp => snd sp =? p) (combine a b))).
  { rewrite filter_map_swap, map_map. cbn [nth]. symmetry. exact IH. }
  cbn [nth] in T. destruct (y =? p); cbn [map fst]; rewrite T; reflexivity.
Qed.

Lemma map_nth_seq_id n l : (forall t, In t l -> t < n) -> map (fun t => nth t (seq 0 n) 0) l = l.
Proof.
  intros H. rewrite <- (map_id l) at 2. apply map_ext_in. intros t Ht. rewrite seq_nth by auto. reflexivity.
Qed.

Lemma map_flat_map {X Y Z} (g : Y -> Z) (H : X -> list Y) l : map g (flat_map H l) = flat_map (fun p => map g (H p)) l.
Proof. induction l as [|x r IH]; simpl; auto. rewrite map_app, IH. reflexivity. Qed.

Lemma order_indexed idx k :
  flat_map (fun p => map fst (filter (fun sp => snd sp =? p) (steps_indexed idx))) (seq 0 k) = indexed_order idx k.
Proof.
  unfold indexed_order, steps_indexed. apply flat_map_ext. intros p.
  rewrite steps_of_fold by apply seq_length. apply map_nth_seq_id.
  intros t Ht. apply filter_In in Ht. destruct Ht as [Ht _]. apply in_seq in Ht. lia.
Qed.

Lemma order_fully first second k : length first = length second ->
  flat_map (fun p => map fst (filter (fun sp => snd sp =? p) (steps_fully first second))) (seq 0 k)
  = map (fun t => nth t first 0) (indexed_order second k).
Proof.
  intros L. unfold indexed_order, steps_fully. rewrite map_flat_map.
  apply flat_map_ext. intros p. apply steps_of_fold. exact L.
Qed.

Lemma order_balanced members k :
  flat_map (fun p => map fst (filter (fun sp => snd sp =? p) (steps_balanced members k))) (seq 0 k)
  = dealt_order (concat members) k.
Proof.
  unfold dealt_order, steps_balanced. apply flat_map_ext. intros p.
  rewrite steps_of_fold by (rewrite map_length, seq_length; reflexivity).
  rewrite map_length, seq_length. f_equal. apply filter_ext_in. intros t Ht. apply in_seq in Ht.
  rewrite (nth_indep _ 0 ((fun t => t mod k) 0)) by (rewrite map_length, seq_length; lia).
  rewrite (map_nth (fun t => t mod k)), seq_nth by lia. reflexivity.
Qed.

(* ------------------------------------------------------------------------------------------------ *)
(* subBatch through the view, the new set, the constructors                                            *)
Section Poly.
Context {A : Type}.
Variable dflt : A.

Lemma all_some_map_some {X Y} (f : X -> Y) l : all_some (map (fun x => Some (f x)) l) = Some (map f l).
Proof. induction l as [|x r IH]; simpl; auto. rewrite IH. reflexivity. Qed.

(* subBatch(view, indices) holds the elements at the given positions of the element sequence, in the given order *)
Theorem sub_batch_spec (d : @data A) idxs :
  forallb (fun i => i <? nelems d) idxs = true ->
  sub_batch d idxs = Some (map (fun i => nth i (elems d) dflt) idxs).
Proof.
  intros F. unfold sub_batch, view_subset. rewrite view_of_length, F. rewrite map_map.
  rewrite <- all_some_map_some. f_equal. apply map_ext_in. intros i Hi.
  rewrite forallb_forall in F. specialize (F i Hi). apply Nat.ltb_lt in F.
  destruct (view_of_spec d) as [V _].
  assert (E : nth i (map (view_get d) (view_of d)) None = nth i (map Some (elems d)) None) by (rewrite V; reflexivity).
  rewrite (nth_indep _ None (view_get d (0, 0, 0))) in E by (rewrite map_length, view_of_length; exact F).
  rewrite map_nth in E. rewrite E.
  rewrite (nth_indep _ None (Some dflt)) by (rewrite map_length; exact F). apply map_nth.
Qed.

Lemma build_set_spec (d : @data A) bs order :
  forallb (fun i => i <? nelems d) order = true ->
  build_set d (chunk bs order) = Some (regroup dflt order bs d).
Proof.
  intros F. unfold build_set, regroup.
  assert (G : forall pb, In pb (chunk bs order) -> sub_batch d pb = Some (map (fun i => nth i (elems d) dflt) pb)).
  { intros pb Hp. apply sub_batch_spec. apply forallb_forall. intros i Hi.
    rewrite forallb_forall in F. apply F.
    assert (In i (elems (chunk bs order))) by (unfold elems; apply in_concat; eauto).
    rewrite chunk_elems in H. eapply In_firstn'; eauto. }
  rewrite (map_ext_in _ _ _ G). rewrite all_some_map_some. f_equal.
  rewrite chunk_map. reflexivity.
Qed.

Lemma osz_pos m p s : In s (osz m p) -> 1 <= s.
Proof.
  unfold osz. destruct (opt_sizes p m) as [l|] eqn:E; [|intros []]. intros H.
  destruct (opt_sizes_spec _ _ _ E) as (_ & B & _). apply B. exact H.
Qed.

(* the construction loop + subBatch + CVFolds(set, partitionStart) build the fold object of the list model *)
Theorem cv_by_loop_spec steps psizes k m (d : @data A) starts bs :
  batch_partitioning psizes m 0 = Some (starts, bs) -> length psizes = k ->
  (forall sp, In sp steps -> snd sp < k /\ fst sp < nelems d) ->
  (forall p, p < k -> count_eq (map snd steps) p = nth p psizes 0) ->
  let order := flat_map (fun p => map fst (filter (fun sp => snd sp =? p) steps)) (seq 0 k) in
  cv_by_loop steps psizes k m d =
  Some (mkCV (regroup dflt order bs d) (folds_from_starts starts (length (regroup dflt order bs d)))).
Proof.
  intros BP Lk B C order. unfold cv_by_loop. rewrite BP.
  destruct (bp_explicit _ _ _ _ _ BP) as (E1 & E2 & E3).
  set (bszs := map (osz m) psizes).
  assert (Lb : length bszs = k) by (unfold bszs; rewrite map_length; exact Lk).
  assert (Nb : forall p, nth p bszs [] = osz m (nth p psizes 0)).
  { intros p. unfold bszs. destruct (Nat.lt_ge_cases p (length psizes)).
    - rewrite (nth_indep _ [] (osz m 0)) by (rewrite map_length; auto). apply map_nth.
    - rewrite !nth_overflow by (rewrite ?map_length; auto). symmetry. apply osz_0. }
  assert (N : newset (cv_loop bs starts k steps) = chunk bs order).
  { rewrite E1, E2. replace (map (fun p => length (osz m p)) psizes) with (map (@length nat) bszs) by (unfold bszs; rewrite map_map; reflexivity).
    fold bszs. unfold order. rewrite <- Lb. apply cv_loop_newset.
    - intros p s Hs. rewrite Nb in Hs. eapply osz_pos; eauto.
    - intros sp Hs. rewrite Lb. apply B. exact Hs.
    - intros p Hp. rewrite Lb in Hp. rewrite C by exact Hp. rewrite Nb. symmetry. apply E3. apply nth_In. lia. }
  rewrite N. rewrite build_set_spec; [reflexivity|].
  apply forallb_forall. intros i Hi. unfold order in Hi. apply in_flat_map in Hi. destruct Hi as [p [_ Hi]].
  apply in_map_iff in Hi. destruct Hi as [sp [<- Hs]]. apply filter_In in Hs. destruct Hs as [Hs _].
  apply Nat.ltb_lt. apply B. exact Hs.
Qed.

Lemma nth_map_count idx k p : p < k -> nth p (map (count_eq idx) (seq 0 k)) 0 = count_eq idx p.
Proof. intros H. exact (nth_map_seq (count_eq idx) k p 0 H). Qed.

Lemma map_snd_combine {X Y} (a : list X) (b : list Y) : length a = length b -> map snd (combine a b) = b.
Proof. revert b; induction a as [|x a IH]; intros [|y b] L; simpl in *; try discriminate; auto. f_equal. apply IH. lia. Qed.

Lemma in_combine_both {X Y} (a : list X) (b : list Y) x y : In (x, y) (combine a b) -> In x a /\ In y b.
Proof. intros H. split; [eapply in_combine_l|eapply in_combine_r]; eauto. Qed.

Theorem cv_indexed_loop_correct idx k m (d : @data A) : cv_indexed_loop idx k m d = cv_indexed dflt idx k m d.
Proof.
  unfold cv_indexed_loop, cv_indexed.
  destruct (negb (length idx =? nelems d) || negb (forallb (fun i => i <? k) idx)) eqn:G; [reflexivity|].
  apply orb_false_elim in G. destruct G as [G1 G2]. apply negb_false_iff in G1, G2. apply Nat.eqb_eq in G1.
  destruct (batch_partitioning (map (count_eq idx) (seq 0 k)) m 0) as [[starts bs]|] eqn:BP.
  - rewrite (cv_by_loop_spec _ _ k m d starts bs BP).
    + rewrite order_indexed. reflexivity.
    + rewrite map_length, seq_length. reflexivity.
    + intros [src p] Hs. unfold steps_indexed in Hs. apply in_combine_both in Hs. destruct Hs as [H1 H2]. simpl.
      apply in_seq in H1. rewrite forallb_forall in G2. specialize (G2 p H2). apply Nat.ltb_lt in G2. lia.
    + intros p Hp. rewrite nth_map_count by exact Hp. unfold steps_indexed. rewrite map_snd_combine by apply seq_length. reflexivity.
  - unfold cv_by_loop. rewrite BP. reflexivity.
Qed.

Theorem cv_fully_indexed_loop_correct first second k m (d : @data A) :
  cv_fully_indexed_loop first second k m d = cv_fully_indexed dflt first second k m d.
Proof.
  unfold cv_fully_indexed_loop, cv_fully_indexed.
  match goal with |- (if ?c then _ else _) = _ => destruct c eqn:G; [reflexivity|] end.
  apply orb_false_elim in G. destruct G as [G G4]. apply orb_false_elim in G. destruct G as [G G3].
  apply orb_false_elim in G. destruct G as [G1 G2]. apply negb_false_iff in G1, G2, G3, G4.
  apply Nat.eqb_eq in G1, G2.
  destruct (batch_partitioning (map (count_eq second) (seq 0 k)) m 0) as [[starts bs]|] eqn:BP.
  - rewrite (cv_by_loop_spec _ _ k m d starts bs BP).
    + rewrite order_fully by congruence. reflexivity.
    + rewrite map_length, seq_length. reflexivity.
    + intros [src p] Hs. unfold steps_fully in Hs. apply in_combine_both in Hs. destruct Hs as [H1 H2]. simpl.
      rewrite forallb_forall in G3, G4. specialize (G3 p H2). specialize (G4 src H1). apply Nat.ltb_lt in G3, G4. lia.
    + intros p Hp. rewrite nth_map_count by exact Hp. unfold steps_fully. rewrite map_snd_combine by congruence. reflexivity.
  - unfold cv_by_loop. rewrite BP. reflexivity.
Qed.

Theorem cv_balanced_loop_correct members k m (d : @data A) :
  cv_balanced_loop members k m d = cv_balanced dflt members k m d.
Proof.
  unfold cv_balanced_loop, cv_balanced. set (s := concat members).
  match goal with |- (if ?c then _ else _) = _ => destruct c eqn:G; [reflexivity|] end.
  apply orb_false_elim in G. destruct G as [G G3]. apply orb_false_elim in G. destruct G as [G1 G2].
  apply Nat.eqb_neq in G1. apply negb_false_iff in G2, G3. apply Nat.eqb_eq in G2.
  destruct (batch_partitioning (val_sizes (nelems d) k) m 0) as [[starts bs]|] eqn:BP.
  - rewrite (cv_by_loop_spec _ _ k m d starts bs BP).
    + rewrite order_balanced. reflexivity.
    + unfold val_sizes. rewrite map_length, seq_length. reflexivity.
    + intros [src p] Hs. unfold steps_balanced in Hs. fold s in Hs. apply in_combine_both in Hs. destruct Hs as [H1 H2]. simpl.
      rewrite forallb_forall in G3. specialize (G3 src H1). apply Nat.ltb_lt in G3. split; [|exact G3].
      apply in_map_iff in H2. destruct H2 as [t [<- _]]. apply Nat.mod_upper_bound. exact G1.
    + intros p Hp. unfold steps_balanced. fold s. rewrite map_snd_combine by (rewrite map_length, seq_length; reflexivity).
      rewrite (val_sizes_deal (nelems d) k s) by (auto; lia).
      rewrite (nth_map_seq (fun p => length (deal k p 0 s)) k p 0 Hp). rewrite deal_length. unfold cnt, count_eq.
      rewrite filter_map_length. f_equal. apply filter_ext. intros t. apply Nat.eqb_sym.
  - unfold cv_by_loop. rewrite BP. reflexivity.
Qed.

(* every constructor: the loop-built fold object is the one of cv_create (all theorems of Properties_C12 apply to it) *)
Theorem cv_create_loop_correct req (d : @data A) : cv_create_loop dflt req d = cv_create dflt req d.
Proof.
  destruct req; cbn [cv_create_loop cv_create]; auto.
  - apply cv_indexed_loop_correct.
  - apply cv_fully_indexed_loop_correct.
  - apply cv_balanced_loop_correct.
  - unfold cv_iid. apply cv_indexed_loop_correct.
Qed.

Theorem training_sd_correct (c : @cv A) p : training_sd c p = training c p.
Proof. unfold training_sd, training. rewrite complement_sd_correct. reflexivity. Qed.

Context {S : Type}.
Theorem scv_create_loop_correct req (x : sdata A S) : scv_create_loop dflt req x = scv_create dflt req x.
Proof. unfold scv_create_loop, scv_create. rewrite cv_create_loop_correct. reflexivity. Qed.

Theorem s_training_sd_correct (c : scv A S) p : s_training_sd c p = s_training c p.
Proof. unfold s_training_sd, s_training. rewrite complement_sd_correct. reflexivity. Qed.

End Poly.
