(* C03 — the element iterator (DataElementIterator: increment, decrement, advance in both
   directions) agrees with index access into the batch sequence.  All batches non-empty (the library
   never creates empty batches from non-empty ranges; see opt_sizes_spec). *)
From Coq Require Import List Arith Lia Bool.
From SharkV Require Import ListAux C03Model C03Proofs.
Import ListNotations.

Section Iter.
Context {A : Type}.
Variable d : @data A.
Hypothesis nonempty : forall b, b < length d -> 0 < length (nth b d []).

Definition off (b : nat) : nat := sum (firstn b (sizes d)).

(* a dereferenceable iterator position *)
Definition it_ok (it : iter) (p : nat) : Prop :=
  let '(b, e, q) := it in b < length d /\ e < length (nth b d []) /\ q = p /\ p = off b + e.

Lemma nth_sizes b : nth b (sizes d) 0 = length (nth b d []).
Proof.
  unfold sizes. destruct (Nat.lt_ge_cases b (length d)).
  - rewrite nth_indep with (d' := length (@nil A)) by (rewrite map_length; auto). apply map_nth.
  - rewrite !nth_overflow; auto. rewrite map_length. auto.
Qed.

Lemma off_S b : off (S b) = off b + length (nth b d []).
Proof. unfold off. rewrite sum_firstn_S, nth_sizes. reflexivity. Qed.

Lemma off_total : off (length d) = nelems d.
Proof. unfold off. rewrite firstn_all2 by (unfold sizes; rewrite map_length; auto). apply sum_sizes. Qed.

Lemma off_mono b c : b <= c -> off b <= off c.
Proof. induction 1; auto. rewrite off_S. lia. Qed.

Lemma off_lt_total b : b < length d -> off b + length (nth b d []) <= nelems d.
Proof. intros H. rewrite <- off_S, <- off_total. apply off_mono. lia. Qed.

Theorem deref_ok it p : it_ok it p -> it_deref d it = nth_error (elems d) p.
Proof.
  destruct it as [[b e] q]. intros (Hb & He & -> & ->). unfold it_deref.
  rewrite (elems_split b d Hb).
  assert (length (elems (firstn b d)) = off b) as L by (apply elems_firstn_sum; lia).
  rewrite nth_error_app2 by lia. rewrite L. replace (off b + e - off b) with e by lia.
  rewrite nth_error_app1 by auto. reflexivity.
Qed.

Theorem incr_ok it p : it_ok it p -> S p < nelems d -> it_ok (it_incr d it) (S p).
Proof.
  destruct it as [[b e] q]. intros (Hb & He & -> & E) Hn. unfold it_incr.
  destruct (Nat.eqb_spec (S e) (length (nth b d []))) as [Eq|Ne].
  - assert (S b < length d) as Hb'.
    { destruct (Nat.lt_ge_cases (S b) (length d)); auto. exfalso.
      assert (S b = length d) by lia. pose proof off_total. rewrite <- H0, off_S in H1. lia. }
    repeat split; auto. rewrite off_S. lia.
  - repeat split; auto; lia.
Qed.

Theorem decr_ok it p : it_ok it (S p) -> it_ok (it_decr d it) p.
Proof.
  destruct it as [[b e] q]. intros (Hb & He & -> & E). unfold it_decr.
  destruct (Nat.eqb_spec e 0) as [->|Ne].
  - destruct b as [|b]; [unfold off in E; simpl in E; lia|].
    replace (S b - 1) with b by lia. pose proof (nonempty b ltac:(lia)). rewrite off_S in E.
    repeat split; try lia.
  - repeat split; auto; lia.
Qed.

Theorem incr_decr_identity it p : it_ok it p -> S p < nelems d -> it_decr d (it_incr d it) = it.
Proof.
  destruct it as [[b e] q]. intros (Hb & He & -> & E) Hn. unfold it_incr.
  destruct (Nat.eqb_spec (S e) (length (nth b d []))) as [Eq|Ne]; unfold it_decr.
  - simpl. replace (b - 0) with b by lia. f_equal; [f_equal; lia|lia].
  - simpl. f_equal; [f_equal; lia|lia].
Qed.

(* forward jump loop *)
Lemma adv_fwd_spec fuel : forall b np P,
  length d - b < fuel -> b <= length d -> P = off b + np -> P < nelems d ->
  let '(b', np') := adv_fwd fuel d b np in it_ok (b', np', P) P.
Proof.
  induction fuel as [|f IH]; intros b np P Hf Hb HP Hn; [lia|]. simpl.
  assert (b < length d) as Hb'.
  { destruct (Nat.lt_ge_cases b (length d)); auto. exfalso.
    assert (b = length d) by lia. subst b. rewrite off_total in HP. lia. }
  destruct (Nat.eqb_spec np 0) as [->|Nz]; simpl.
  - pose proof (nonempty b Hb'). repeat split; auto.
  - destruct (Nat.leb_spec (length (nth b d [])) np) as [Hle|Hlt].
    + apply IH; try lia. rewrite off_S. lia.
    + repeat split; auto.
Qed.

(* backward jump loop: target = off (S b) - 1 - np *)
Lemma adv_bwd_spec fuel : forall b np P,
  b < fuel -> b < length d -> P + 1 + np = off (S b) ->
  let '(b', np') := adv_bwd fuel d b np in it_ok (b', length (nth b' d []) - 1 - np', P) P.
Proof.
  induction fuel as [|f IH]; intros b np P Hf Hb HP; [lia|]. simpl.
  pose proof (nonempty b Hb) as Hne. rewrite off_S in HP.
  destruct (Nat.eqb_spec np 0) as [->|Nz]; simpl.
  - repeat split; auto; lia.
  - destruct (Nat.leb_spec (length (nth b d [])) np) as [Hle|Hlt].
    + destruct b as [|b]; [unfold off in HP; simpl in HP; lia|].
      replace (S b - 1) with b by lia. apply IH; try lia.
    + repeat split; auto; lia.
Qed.

(* it + n and it - n land on the element with index p + n resp. p - n *)
Theorem advance_forward_ok it p n :
  it_ok it p -> p + n < nelems d -> it_ok (it_advance d it false n) (p + n).
Proof.
  destruct it as [[b e] q]. intros (Hb & He & -> & E) Hn. unfold it_advance.
  destruct (Nat.eqb_spec (n + e) 0) as [Z|Nz].
  - assert (n = 0) by lia. assert (e = 0) by lia. subst. repeat split; auto; lia.
  - pose proof (adv_fwd_spec (S (length d)) b (n + e) (p + n) ltac:(lia) ltac:(lia) ltac:(lia) Hn) as H.
    destruct (adv_fwd (S (length d)) d b (n + e)) as [b' np']. exact H.
Qed.

Theorem advance_backward_ok it p n :
  it_ok it p -> n <= p -> it_ok (it_advance d it true n) (p - n).
Proof.
  destruct it as [[b e] q]. intros (Hb & He & -> & E) Hn. unfold it_advance.
  destruct (Nat.leb_spec n e) as [Hle|Hgt].
  - destruct (Nat.eqb_spec n e) as [->|Ne].
    + pose proof (nonempty b Hb). repeat split; auto; lia.
    + pose proof (adv_fwd_spec (S (length d)) b (e - n) (p - n) ltac:(lia) ltac:(lia) ltac:(lia)) as H.
      assert (p - n < nelems d) as Hlt by (pose proof (off_lt_total b Hb); lia).
      specialize (H Hlt). destruct (adv_fwd (S (length d)) d b (e - n)) as [b' np']. exact H.
  - destruct b as [|b]; [unfold off in E; simpl in E; lia|].
    replace (S b - 1) with b by lia.
    pose proof (adv_bwd_spec (S (length d)) b (n - e - 1) (p - n) ltac:(lia) ltac:(lia) ltac:(lia)) as H.
    destruct (adv_bwd (S (length d)) d b (n - e - 1)) as [b' np']. exact H.
Qed.

End Iter.
