(* C06, extension round — cross-entropy: the coded gradient is the derivative of the coded value in the ANALYTIC sense.
   The Section-polymorphic cross-entropy functions of C06Model.v (the same code the driver runs with OCaml floats) are
   instantiated at the real numbers of the standard library with exp / ln, and Coquelicot's `is_derive` (equivalent to
   `derivable_pt_lim`, see is_derive_Reals) is proved
     * multi-class, unsigned-int labels: along EVERY direction v, d/dt ce_eval c (p + t v) = <gradient(p + t v), v>, hence every
       partial derivative of  p |-> ln(sum_k exp p_k) - p_c  is the coded component softmax_j(p) - [j = c];
     * one output: d/dx ce_eval c [x] = sigmoid(x) - c at every x strictly above the coded cut-off  -200 < y x;
     * probability-vector labels (single-row batch; batches are sums of rows by C06_cross_entropy_vector_labels_batch_is_sum):
       along every direction, d/dt cev_eval [(t, p + s v)] = <softmax(p + s v) - t, v>.
   Uses the standard-library axioms of the reals (and what Coquelicot's is_derive depends on); they are printed by
   Print Assumptions in Properties_C06.v. *)
From Coq Require Import List Arith Reals Lra Lia.
From Coquelicot Require Import Coquelicot.
From SharkV Require Import ListAux C06Model C06FieldProofs C06RealProofs.
Import ListNotations.
Open Scope R_scope.

(* the model's functions read over R *)
Definition Rce_eval := ce_eval R 0 1 Rplus Rminus Rmult Ropp exp ln Rltb INR.
Definition Rce_evald := ce_evald R 0 1 Rplus Rminus Rmult Rdiv Ropp exp ln Rltb INR.
Definition Rcev_eval := cev_eval R 0 Rplus Rminus Rmult exp ln Rltb.
Definition Rcev_evald := cev_evald R 0 Rplus Rminus Rmult Rdiv exp ln Rltb.
Definition Rexpsum := expsum R 0 Rplus exp.
Definition Rsoftmax := softmax R 0 Rplus Rdiv exp.
Definition Rdot := adot R 0 Rplus Rmult.
Definition Raxpy := avaxpy R Rplus Rmult.          (* Raxpy t v p = p + t v *)
Definition Rsigmoid := sigmoid R 1 Rplus Rdiv Ropp exp.
Definition Rylabel := ylabel R 1 Rminus Rmult INR.

Lemma Rexpsum_nil : Rexpsum [] = 0.
Proof. reflexivity. Qed.
Lemma Rexpsum_cons x l : Rexpsum (x :: l) = exp x + Rexpsum l.
Proof. unfold Rexpsum, expsum. cbn [map]. apply (asum_cons R 0 1 Rplus Rminus Rmult Rdiv Ropp Rinv Rltb R_ordered_field). Qed.
Lemma Rexpsum_pos p : p <> [] -> 0 < Rexpsum p.
Proof. intros H. apply Rltb_lt. apply (expsum_pos R 0 1 Rplus Rminus Rmult Rdiv Ropp Rinv Rltb exp ln R_ordered_field R_explog p H). Qed.

Lemma Raxpy_length t : forall v p, length v = length p -> length (Raxpy t v p) = length p.
Proof. induction v as [|y v IH]; intros [|x p] H; simpl in *; try discriminate; [reflexivity|]. f_equal. apply IH. lia. Qed.

Lemma nth_Raxpy t c : forall v p, length v = length p -> nth c (Raxpy t v p) 0 = nth c p 0 + t * nth c v 0.
Proof.
  unfold Raxpy. induction c as [|c IH]; intros [|y v] [|x p] H; simpl in *; try discriminate; try ring.
  apply IH. lia.
Qed.

(* ---- d/dt sum_k exp (p_k + t v_k) ---- *)
Lemma Rexpsum_dir : forall p v t0, length v = length p ->
  is_derive (fun t => Rexpsum (Raxpy t v p)) t0 (Rdot v (map exp (Raxpy t0 v p))).
Proof.
  induction p as [|a p IH]; intros [|y v] t0 H; simpl in H; try discriminate.
  - simpl. apply (is_derive_const (K := R_AbsRing) (V := R_NormedModule)).
  - cbn [Raxpy avaxpy map Rdot adot]. fold Raxpy. fold Rdot.
    apply (is_derive_ext (fun t => plus (exp (a + t * y)) (Rexpsum (Raxpy t v p)))).
    { intros t. rewrite Rexpsum_cons. reflexivity. }
    apply (is_derive_plus (K := R_AbsRing) (V := R_NormedModule) (fun t => exp (a + t * y)) (fun t => Rexpsum (Raxpy t v p))).
    + auto_derive; [trivial | ring].
    + apply IH. lia.
Qed.

Lemma Rdot_softmax S : forall q v, Rdot (map (fun x => exp x / S) q) v = Rdot v (map exp q) / S.
Proof.
  induction q as [|a q IH]; intros [|y v]; cbn [map Rdot adot]; fold Rdot; try (unfold Rdiv; ring).
  rewrite IH. unfold Rdiv. ring.
Qed.

Lemma Rdot_upd c x : forall s v, (c < length s)%nat -> Rdot (upd c x s) v = Rdot s v + (x - nth c s 0) * nth c v 0.
Proof.
  induction c as [|c IH]; intros [|a s] [|y v] H; simpl in H; try lia; cbn [upd Rdot adot nth]; fold Rdot; try ring.
  rewrite IH by lia. ring.
Qed.

Lemma upd_beyond {X} c (x : X) : forall s, (length s <= c)%nat -> upd c x s = s.
Proof. induction c as [|c IH]; intros [|a s] H; simpl in *; try lia; try reflexivity. f_equal. apply IH. lia. Qed.

(* ---- multi-class, unsigned-int labels ---- *)
Lemma Rce_value c q : (length q =? 1)%nat = false -> q <> [] -> Rce_eval c q = ln (Rexpsum q) - nth c q 0.
Proof. exact (ce_eval_multiclass R 0 1 Rplus Rminus Rmult Rdiv Ropp Rinv Rltb exp ln INR R_ordered_field R_explog c q). Qed.

Lemma Rce_grad_dot c q v : (length q =? 1)%nat = false -> q <> [] -> length v = length q ->
  Rdot (snd (Rce_evald c q)) v = Rdot v (map exp q) / Rexpsum q - nth c v 0.
Proof.
  intros Hd Hne Hv. unfold Rce_evald.
  rewrite (ce_grad_multiclass R 0 1 Rplus Rminus Rmult Rdiv Ropp Rinv Rltb exp ln INR R_ordered_field R_explog c q Hd Hne).
  fold Rdot. assert (Hl : length (softmax R 0 Rplus Rdiv exp q) = length q) by (unfold softmax; apply map_length).
  destruct (lt_dec c (length q)) as [Hc|Hc].
  - rewrite Rdot_upd by (rewrite Hl; exact Hc). unfold softmax. fold Rexpsum. rewrite Rdot_softmax. ring.
  - rewrite upd_beyond by (rewrite Hl; lia). rewrite (nth_overflow v) by lia.
    unfold softmax. fold Rexpsum. rewrite Rdot_softmax. ring.
Qed.

Theorem Rce_directional_derivative c p v t0 : (length p =? 1)%nat = false -> p <> [] -> length v = length p ->
  is_derive (fun t => Rce_eval c (Raxpy t v p)) t0 (Rdot (snd (Rce_evald c (Raxpy t0 v p))) v).
Proof.
  intros Hd Hne Hv.
  assert (Hq : forall t, (length (Raxpy t v p) =? 1)%nat = false /\ Raxpy t v p <> []).
  { intros t. rewrite Raxpy_length by exact Hv. split; [exact Hd|].
    intros E. apply (f_equal (@length R)) in E. rewrite Raxpy_length in E by exact Hv. destruct p; [contradiction | discriminate]. }
  destruct (Hq t0) as [Hd0 Hne0]. rewrite (Rce_grad_dot c _ v Hd0 Hne0) by (rewrite Raxpy_length; auto).
  apply (is_derive_ext (fun t => minus (ln (Rexpsum (Raxpy t v p))) (nth c p 0 + t * nth c v 0))).
  { intros t. destruct (Hq t) as [A B]. rewrite (Rce_value c _ A B), nth_Raxpy by exact Hv. reflexivity. }
  assert (HS := Rexpsum_pos _ Hne0).
  replace (Rdot v (map exp (Raxpy t0 v p)) / Rexpsum (Raxpy t0 v p) - nth c v 0)
    with (minus (scal (Rdot v (map exp (Raxpy t0 v p))) (/ Rexpsum (Raxpy t0 v p))) (nth c v 0))
    by (unfold minus, plus, opp, scal; simpl; unfold mult; simpl; unfold Rdiv; ring).
  apply (is_derive_minus (K := R_AbsRing) (V := R_NormedModule)).
  - apply (is_derive_comp (K := R_AbsRing) (V := R_NormedModule) ln (fun t => Rexpsum (Raxpy t v p))).
    + apply is_derive_ln, HS.
    + apply Rexpsum_dir, Hv.
  - auto_derive; [trivial | ring].
Qed.

(* the partial derivatives: the function of the j-th logit alone; unitv j n = e_j in R^n *)
Fixpoint unitv (j n : nat) : list R :=
  match n with
  | O => []
  | S n' => match j with O => 1 :: repeat 0 n' | S j' => 0 :: unitv j' n' end
  end.

Lemma unitv_length j : forall n, length (unitv j n) = n.
Proof. induction j as [|j IH]; intros [|n]; cbn [unitv length]; try reflexivity; [rewrite repeat_length | rewrite IH]; reflexivity. Qed.

Lemma Raxpy_repeat0 t : forall p, Raxpy t (repeat 0 (length p)) p = p.
Proof. induction p as [|a p IH]; cbn [length repeat Raxpy avaxpy]; fold Raxpy; [reflexivity|]. f_equal; [ring | exact IH]. Qed.

Lemma Rdot_repeat0 : forall g n, Rdot g (repeat 0 n) = 0.
Proof. induction g as [|a g IH]; intros [|n]; cbn [repeat Rdot adot]; fold Rdot; try reflexivity. rewrite IH. ring. Qed.

Lemma upd_as_axpy : forall p j x, (j < length p)%nat -> upd j x p = Raxpy (x - nth j p 0) (unitv j (length p)) p.
Proof.
  induction p as [|a p IH]; intros j x Hj; simpl in Hj; [lia|].
  destruct j as [|j]; cbn [upd unitv length Raxpy avaxpy nth]; fold Raxpy.
  - f_equal; [ring|]. symmetry. apply Raxpy_repeat0.
  - f_equal; [ring|]. apply IH. lia.
Qed.

Lemma Rdot_unitv : forall g j n, Rdot g (unitv j n) = if (j <? n)%nat then nth j g 0 else 0.
Proof.
  induction g as [|a g IH]; intros j n.
  - destruct n, j; cbn [unitv Rdot adot nth]; try reflexivity; destruct (_ <? _)%nat; reflexivity.
  - destruct n as [|n]; [cbn [unitv Rdot adot]; destruct j; reflexivity|].
    destruct j as [|j]; cbn [unitv Rdot adot nth]; fold Rdot.
    + rewrite Rdot_repeat0. cbn. ring.
    + rewrite IH. change (S j <? S n)%nat with (j <? n)%nat. ring.
Qed.

Theorem Rce_partial_derivative c p j : (length p =? 1)%nat = false -> (j < length p)%nat ->
  is_derive (fun x => Rce_eval c (upd j x p)) (nth j p 0) (nth j (snd (Rce_evald c p)) 0).
Proof.
  intros Hd Hj. assert (Hne : p <> []) by (destruct p; [simpl in Hj; lia | discriminate]).
  apply (is_derive_ext (fun x => Rce_eval c (Raxpy (x - nth j p 0) (unitv j (length p)) p))).
  { intros x. rewrite <- upd_as_axpy by exact Hj. reflexivity. }
  assert (D := Rce_directional_derivative c p (unitv j (length p)) (nth j p 0 - nth j p 0) Hd Hne (unitv_length j (length p))).
  assert (E : Raxpy (nth j p 0 - nth j p 0) (unitv j (length p)) p = p).
  { rewrite <- upd_as_axpy by exact Hj. clear. revert j. induction p as [|a p IH]; intros [|j]; cbn [upd nth]; try reflexivity. rewrite IH. reflexivity. }
  rewrite E in D. rewrite Rdot_unitv in D.
  assert (Hl : length (snd (Rce_evald c p)) = length p).
  { unfold Rce_evald. rewrite (ce_grad_multiclass R 0 1 Rplus Rminus Rmult Rdiv Ropp Rinv Rltb exp ln INR R_ordered_field R_explog c p Hd Hne).
    rewrite upd_length. unfold softmax. apply map_length. }
  destruct (j <? length p)%nat eqn:Ej; [|apply Nat.ltb_ge in Ej; lia].
  replace (nth j (snd (Rce_evald c p)) 0) with (scal 1 (nth j (snd (Rce_evald c p)) 0)) by (unfold scal; simpl; unfold mult; simpl; ring).
  apply (is_derive_comp (K := R_AbsRing) (V := R_NormedModule) (fun t => Rce_eval c (Raxpy t (unitv j (length p)) p)) (fun x => x - nth j p 0)).
  - exact D.
  - auto_derive; [trivial | ring].
Qed.

(* the same statement with the value written out:  p |-> ln (sum_k exp p_k) - p_c  and the component  softmax_j(p) - [j = c] *)
Theorem Rce_partial_derivative_explicit c p j : (length p =? 1)%nat = false -> (j < length p)%nat ->
  is_derive (fun x => ln (Rexpsum (upd j x p)) - nth c (upd j x p) 0) (nth j p 0)
            (exp (nth j p 0) / Rexpsum p - (if (j =? c)%nat then 1 else 0)).
Proof.
  intros Hd Hj. assert (Hne : p <> []) by (destruct p; [simpl in Hj; lia | discriminate]).
  assert (D := Rce_partial_derivative c p j Hd Hj).
  unfold Rce_evald in D.
  rewrite (ce_grad_multiclass_coord R 0 1 Rplus Rminus Rmult Rdiv Ropp Rinv Rltb exp ln INR R_ordered_field R_explog c p j Hd Hj) in D.
  fold Rexpsum in D.
  apply (is_derive_ext (fun x => Rce_eval c (upd j x p))); [|exact D].
  intros x. apply Rce_value.
  - rewrite upd_length. exact Hd.
  - intros E. apply (f_equal (@length R)) in E. rewrite upd_length in E. destruct p; [contradiction | discriminate].
Qed.

Theorem Rce_partial_derivative_Reals c p j : (length p =? 1)%nat = false -> (j < length p)%nat ->
  derivable_pt_lim (fun x => Rce_eval c (upd j x p)) (nth j p 0) (nth j (snd (Rce_evald c p)) 0).
Proof. intros Hd Hj. apply is_derive_Reals. apply Rce_partial_derivative; assumption. Qed.

(* ---- one output (binary labels): d/dx ce_eval c [x] = sigmoid(x) - c strictly above the coded cut-off ---- *)
Lemma INR_200 : INR 200 = 200.
Proof. rewrite INR_IZR_INZ. reflexivity. Qed.

Lemma Rylabel_01 : Rylabel 0 = -1 /\ Rylabel 1 = 1.
Proof. unfold Rylabel, ylabel. simpl. split; lra. Qed.

Theorem Rce_one_output_derivative c x0 : (c < 2)%nat -> -200 < x0 * Rylabel c ->
  is_derive (fun x => Rce_eval c [x]) x0 (nth 0 (snd (Rce_evald c [x0])) 0) /\
  nth 0 (snd (Rce_evald c [x0])) 0 = Rsigmoid x0 - INR c.
Proof.
  intros Hc Hcut.
  assert (G : snd (Rce_evald c [x0]) = [Rsigmoid x0 - INR c])
    by exact (ce_grad_binary R 0 1 Rplus Rminus Rmult Rdiv Ropp Rinv Rltb exp ln INR R_ordered_field R_ofnat R_explog c x0 Hc).
  rewrite G. cbn [nth]. split; [|reflexivity].
  set (y := Rylabel c) in *.
  assert (Hy : y = -1 /\ c = 0%nat \/ y = 1 /\ c = 1%nat).
  { destruct c as [|[|c]]; [left | right | lia]; split; try reflexivity; apply Rylabel_01. }
  assert (Hpos : 0 < x0 * y + 200) by lra.
  apply (is_derive_ext_loc (fun x => ln (1 + exp (- y * x)))).
  - exists (mkposreal _ Hpos). intros x Hx. symmetry.
    apply (ce_eval_binary R 0 1 Rplus Rminus Rmult Ropp Rltb exp ln INR c x).
    fold Rylabel. fold y. rewrite INR_200.
    unfold Rltb. match goal with |- (if ?d then _ else _) = _ => destruct d as [Hl|Hl] end; [|reflexivity]. exfalso.
    unfold ball in Hx. simpl in Hx. unfold AbsRing_ball, abs, minus, plus, opp in Hx. simpl in Hx.
    apply Rabs_def2 in Hx. destruct Hx as [H1 H2].
    destruct Hy as [[Hy _]|[Hy _]]; rewrite Hy in *; lra.
  - destruct Hy as [[Hy Hc0]|[Hy Hc1]]; rewrite Hy; subst c; unfold Rsigmoid, sigmoid; simpl INR.
    + assert (He : exp (- x0) = / exp x0) by apply exp_Ropp.
      assert (Hp := exp_pos x0).
      auto_derive.
      * replace (- -1 * x0) with x0 by ring. lra.
      * replace (- -1 * x0) with x0 by ring. rewrite He. field. split; lra.
    + assert (Hp := exp_pos (- x0)).
      auto_derive.
      * replace (- (1) * x0) with (- x0) by ring. lra.
      * replace (- (1) * x0) with (- x0) by ring. field. lra.
Qed.

(* ---- probability-vector labels, one row: value ln(sum exp p) - <t, p>, gradient row softmax(p) - t ---- *)
Lemma Rdot_axpy s : forall tl v p, length v = length p -> length tl = length p ->
  Rdot tl (Raxpy s v p) = Rdot tl p + s * Rdot tl v.
Proof.
  induction tl as [|a tl IH]; intros [|y v] [|x p] Hv Ht; simpl in Hv, Ht; try discriminate;
    cbn [Raxpy avaxpy Rdot adot]; fold Raxpy; fold Rdot; try ring.
  rewrite IH by lia. ring.
Qed.

Lemma Rdot_amap2_sub : forall sm tl v, length sm = length v -> length tl = length v ->
  Rdot (amap2 R Rminus sm tl) v = Rdot sm v - Rdot tl v.
Proof.
  induction sm as [|a sm IH]; intros [|b tl] [|y v] H1 H2; simpl in H1, H2; try discriminate;
    cbn [amap2 Rdot adot]; fold Rdot; try ring.
  rewrite IH by lia. ring.
Qed.

Theorem Rcev_directional_derivative tl p v s0 : p <> [] -> length v = length p -> length tl = length p ->
  is_derive (fun s => Rcev_eval [(tl, Raxpy s v p)]) s0 (Rdot (nth 0 (snd (Rcev_evald [(tl, Raxpy s0 v p)])) []) v).
Proof.
  intros Hne Hv Ht.
  assert (Hq : forall s, Raxpy s v p <> []).
  { intros s E. apply (f_equal (@length R)) in E. rewrite Raxpy_length in E by exact Hv. destruct p; [contradiction | discriminate]. }
  assert (G := cev_grad R 0 1 Rplus Rminus Rmult Rdiv Ropp Rinv Rltb exp ln R_ordered_field R_explog [(tl, Raxpy s0 v p)] 0%nat
                        ltac:(simpl; lia) (Hq s0)).
  unfold Rcev_evald. rewrite G. cbn [nth fst snd]. unfold softmax. fold Rexpsum.
  rewrite Rdot_amap2_sub by (rewrite ?map_length, ?Raxpy_length; auto; lia).
  rewrite Rdot_softmax.
  apply (is_derive_ext (fun s => minus (ln (Rexpsum (Raxpy s v p))) (Rdot tl p + s * Rdot tl v))).
  { intros s. unfold Rcev_eval.
    rewrite (cev_single R 0 1 Rplus Rminus Rmult Rdiv Ropp Rinv Rltb exp ln R_ordered_field R_explog tl _ (Hq s)).
    unfold cev_def. fold Rexpsum. fold Rdot. rewrite Rdot_axpy by assumption. reflexivity. }
  assert (HS := Rexpsum_pos _ (Hq s0)).
  replace (Rdot v (map exp (Raxpy s0 v p)) / Rexpsum (Raxpy s0 v p) - Rdot tl v)
    with (minus (scal (Rdot v (map exp (Raxpy s0 v p))) (/ Rexpsum (Raxpy s0 v p))) (Rdot tl v))
    by (unfold minus, plus, opp, scal; simpl; unfold mult; simpl; unfold Rdiv; ring).
  apply (is_derive_minus (K := R_AbsRing) (V := R_NormedModule)).
  - apply (is_derive_comp (K := R_AbsRing) (V := R_NormedModule) ln (fun s => Rexpsum (Raxpy s v p))).
    + apply is_derive_ln, HS.
    + apply Rexpsum_dir, Hv.
  - auto_derive; [trivial | ring].
Qed.

(* partial derivatives of the probability-label form *)
Theorem Rcev_partial_derivative tl p j : length tl = length p -> (j < length p)%nat ->
  is_derive (fun x => Rcev_eval [(tl, upd j x p)]) (nth j p 0) (nth j (nth 0 (snd (Rcev_evald [(tl, p)])) []) 0) /\
  nth j (nth 0 (snd (Rcev_evald [(tl, p)])) []) 0 = exp (nth j p 0) / Rexpsum p - nth j tl 0.
Proof.
  intros Ht Hj. assert (Hne : p <> []) by (destruct p; [simpl in Hj; lia | discriminate]).
  assert (G := cev_grad R 0 1 Rplus Rminus Rmult Rdiv Ropp Rinv Rltb exp ln R_ordered_field R_explog [(tl, p)] 0%nat ltac:(simpl; lia) Hne).
  cbn [nth fst snd] in G.
  assert (Hcomp : nth j (nth 0 (snd (Rcev_evald [(tl, p)])) []) 0 = exp (nth j p 0) / Rexpsum p - nth j tl 0).
  { unfold Rcev_evald. rewrite G. unfold softmax. fold Rexpsum. clear G Hne.
    revert tl j Ht Hj. generalize (Rexpsum p) as S. induction p as [|a p IH]; intros S [|b tl] [|j] Ht Hj; simpl in Ht, Hj; try discriminate; try lia;
      cbn [map amap2 nth]; [reflexivity|]. injection Ht as Ht. apply IH; [exact Ht | apply (proj2 (Nat.succ_lt_mono _ _)), Hj]. }
  split; [|exact Hcomp].
  apply (is_derive_ext (fun x => Rcev_eval [(tl, Raxpy (x - nth j p 0) (unitv j (length p)) p)])).
  { intros x. rewrite <- upd_as_axpy by exact Hj. reflexivity. }
  assert (D := Rcev_directional_derivative tl p (unitv j (length p)) (nth j p 0 - nth j p 0) Hne (unitv_length j (length p)) Ht).
  assert (E : Raxpy (nth j p 0 - nth j p 0) (unitv j (length p)) p = p).
  { rewrite <- upd_as_axpy by exact Hj. clear. revert j. induction p as [|a p IH]; intros [|j]; cbn [upd nth]; try reflexivity. rewrite IH. reflexivity. }
  rewrite E in D. rewrite Rdot_unitv in D.
  destruct (j <? length p)%nat eqn:Ej; [|apply Nat.ltb_ge in Ej; lia].
  replace (nth j (nth 0 (snd (Rcev_evald [(tl, p)])) []) 0) with (scal 1 (nth j (nth 0 (snd (Rcev_evald [(tl, p)])) []) 0))
    by (unfold scal; simpl; unfold mult; simpl; ring).
  apply (is_derive_comp (K := R_AbsRing) (V := R_NormedModule) (fun s => Rcev_eval [(tl, Raxpy s (unitv j (length p)) p)]) (fun x => x - nth j p 0)).
  - exact D.
  - auto_derive; [trivial | ring].
Qed.
