(* C19 — importers with a 64-bit maximumBatchSize / batchSize and an explicit target object.  Definitions only.

   1. std::size_t arithmetic (wadd/wsub/wmul: modulo 2^64) and the two batch-size routines AS CODED in it:
        opt_sizes64   detail::optimalBatchSizes(numElements, maximumBatchSize)       (Impl/Dataset.inl)
        init_sizes64  SharedContainer::initializeBatches(numElements, element, batchSize)
      The number of batches of optimalBatchSizes is a parameter (count_coded: n / m, then +1 if n - (n/m)*m > 0;
      count_idiom: the round-up idiom (n + m - 1) / m, which wraps) so that both can be stated and compared.
   2. The importer entry points with the batch size as a binary number (N): nat is unary, the extracted model cannot
      be run with 2^63.  The batch size is capped at (number of records + 1) AFTER parsing, inside the model
      (cap); C19BigBatchProofs.v proves that the cap changes nothing (C19_batches_saturate).
   3. The importer entry points with the TARGET object (the dataset the caller passes by reference, possibly holding
      the result of an earlier import) as an explicit argument: every importer assigns a new dataset or throws;
      no outcome depends on the target. *)
From Coq Require Import List Arith ZArith NArith Bool.
From SharkV Require Import ListAux C03Model C19Model.
Import ListNotations.

Local Open Scope N_scope.

Definition W64 : N := 18446744073709551616.          (* 2^64 *)
Definition wadd (a b : N) : N := (a + b) mod W64.
Definition wsub (a b : N) : N := (a + (W64 - b mod W64)) mod W64.
Definition wmul (a b : N) : N := (a * b) mod W64.

Definition nseq (b : N) : list N := map N.of_nat (seq 0 (N.to_nat b)).

(* number of batches; None = division by zero *)
Definition count_coded (n m : N) : option N :=
  if m =? 0 then None
  else let b := n / m in Some (if 0 <? wsub n (wmul b m) then wadd b 1 else b).

Definition count_idiom (n m : N) : option N :=
  if m =? 0 then None else Some (wsub (wadd n m) 1 / m).

Definition opt_sizes64_with (count : N -> N -> option N) (n m : N) : option (list N) :=
  if n =? 0 then Some []
  else match count n m with
       | None => None
       | Some b =>
         if b =? 0 then None                                  (* numElements / batches *)
         else let q := n / b in
              let r := wsub n (wmul b q) in
              Some (map (fun j => if j <? r then wadd q 1 else q) (nseq b))
       end.

Definition opt_sizes64 := opt_sizes64_with count_coded.
Definition opt_sizes64_idiom := opt_sizes64_with count_idiom.

Definition init_sizes64 (n b : N) : list N :=
  if (b =? 0) || (n <? b) then [n]
  else
    let nb := wadd (n / b) (if 0 <? n mod b then 1 else 0) in
    repeat b (N.to_nat (wsub nb 1)) ++ [wsub n (wmul (wsub nb 1) b)].

Local Close Scope N_scope.

(* the batch size the unary model is run with: min(m, n + 1) *)
Definition cap (m : N) (n : nat) : nat := N.to_nat (N.min m (N.of_nat (S n))).

Definition csv_import_data_N (sep cm : byte) (m : N) (s : list byte) :=
  lift (read_values cm sep s) (fun rows => post_data rows (cap m (length rows))).
Definition csv_import_reg_N (first : bool) (nout : nat) (sep cm : byte) (m : N) (s : list byte) :=
  lift (read_values cm sep s) (fun rows => post_reg first nout rows (cap m (length rows))).
Definition csv_import_cls_N (first : bool) (sep cm : byte) (m : N) (s : list byte) :=
  lift (read_points cm sep first s) (fun rows => post_cls rows (cap m (length rows))).
Definition csv_import_scalar_N {T} (lexT : list byte -> option (T * list byte)) (cm : byte) (m : N) (s : list byte) :=
  lift (read_scalars cm lexT s) (fun v => post_scalar v (cap m (length v))).
Definition csv_import_ints_N := csv_import_scalar_N lex_int.
Definition csv_import_uints_N := csv_import_scalar_N lex_uint.
Definition csv_import_reals_N := csv_import_scalar_N lex_double.

Definition svm_import_cls_N (compressed : bool) (hi : Z) (b : N) (s : list byte) :=
  lift (read_svm s) (fun recs => post_svm_cls compressed hi (cap b (length recs)) recs).
Definition svm_import_reg_N (compressed : bool) (hi : Z) (b : N) (s : list byte) :=
  lift (read_svm s) (fun recs => post_svm_reg compressed hi (cap b (length recs)) recs).
Definition svm_import_cls_coded_N (compressed : bool) (hi : Z) (b : N) (s : list byte) :=
  lift (read_svm s) (fun recs => post_svm_cls_coded compressed hi (cap b (length recs)) recs).
Definition svm_import_reg_coded_N (compressed : bool) (hi : Z) (b : N) (s : list byte) :=
  lift (read_svm s) (fun recs => post_svm_reg_coded compressed hi (cap b (length recs)) recs).

(* ---- the target object.  void csvStringToData(Data<..>& data, ...) / importSparseData(LabeledData<..>& dataset, ...):
   [into target r] is the call with the target the caller passes; the outcome is the value of the target after the
   call (Ok), or the exception.  As coded every path assigns `data = ...` before returning normally. *)
Definition into {D : Type} (target : D) (r : outcome D) : outcome D := r.

Definition csv_import_data_into target sep cm m s := into target (csv_import_data_N sep cm m s).
Definition csv_import_reg_into target first nout sep cm m s := into target (csv_import_reg_N first nout sep cm m s).
Definition csv_import_cls_into target first sep cm m s := into target (csv_import_cls_N first sep cm m s).
Definition csv_import_ints_into target cm m s := into target (csv_import_ints_N cm m s).
Definition csv_import_uints_into target cm m s := into target (csv_import_uints_N cm m s).
Definition csv_import_reals_into target cm m s := into target (csv_import_reals_N cm m s).
Definition svm_import_cls_into target compressed hi b s := into target (svm_import_cls_N compressed hi b s).
Definition svm_import_reg_into target compressed hi b s := into target (svm_import_reg_N compressed hi b s).

(* the breaking change the reused-target stream is made for (NOT the code): the early return for an input without
   records leaves the target as it is.  Refuted as an importer in C19BigBatchProofs.v (noreset_refuted). *)
Definition csv_import_scalar_noreset {T} (lexT : list byte -> option (T * list byte)) (target : dataset unit T)
    (cm : byte) (m : N) (s : list byte) : outcome (dataset unit T) :=
  match read_scalars cm lexT s with
  | Some [] => Ok target
  | _ => csv_import_scalar_N lexT cm m s
  end.
