(* C13 — the front end HypervolumeCalculator equals hv_spec whenever it does not dispatch to the (unmodelled) HOY
   algorithm, i.e. for every number of objectives except 4.  Axiom-free. *)
From Coq Require Import List ZArith Lia.
From SharkV Require Import ListAux C13Model C13Proofs C13Wfg C13WfgProofs C13Sweep3d C13Sweep3dProofs C13Disp.
Import ListNotations.

Theorem hv_dispatch_correct hoy ref S :
  length ref <> 4 -> below_ref ref S -> hv_dispatch hoy ref S = hv_spec ref S.
Proof.
  intros H4 HB. unfold hv_dispatch. destruct S as [|p S]; [now rewrite hv_spec_nil|].
  destruct (length ref) as [|[|[|[|[|n]]]]] eqn:E; try lia;
    try (apply wfg_correct; exact HB).
  - apply hv2d_correct; auto.
  - apply hv3d_correct; auto.
Qed.

(* with a correct algorithm in the HOY slot the front end is correct in every dimension *)
Corollary hv_dispatch_correct_all hoy ref S :
  (forall ref S, length ref = 4 -> below_ref ref S -> hoy ref S = hv_spec ref S) ->
  below_ref ref S -> hv_dispatch hoy ref S = hv_spec ref S.
Proof.
  intros Hh HB. destruct (Nat.eq_dec (length ref) 4) as [E|NE]; [|now apply hv_dispatch_correct].
  unfold hv_dispatch. destruct S as [|p S]; [now rewrite hv_spec_nil|]. rewrite E. now apply Hh.
Qed.

Example hv_dispatch_example :
  below_ref [3; 3; 3; 3; 3]%Z [[0; 2; 1; 2; 0]; [1; 1; 1; 1; 1]; [2; 0; 2; 0; 2]; [1; 1; 1; 1; 1]]%Z /\
  hv_dispatch (fun _ _ => 0%Z) [3; 3; 3; 3; 3]%Z [[0; 2; 1; 2; 0]; [1; 1; 1; 1; 1]; [2; 0; 2; 0; 2]; [1; 1; 1; 1; 1]]%Z =
  hv_spec [3; 3; 3; 3; 3]%Z [[0; 2; 1; 2; 0]; [1; 1; 1; 1; 1]; [2; 0; 2; 0; 2]; [1; 1; 1; 1; 1]]%Z.
Proof.
  split; [|vm_compute; reflexivity].
  intros p Hp. cbn in Hp. unfold leq_all.
  repeat (destruct Hp as [<-|Hp]; [repeat constructor; lia|]). destruct Hp.
Qed.
