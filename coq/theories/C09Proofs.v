(* C09 — invariants of the LRU cache / cached matrix model, for all operation histories. *)
From Coq Require Import List Arith Lia Bool FinFun.
From SharkV Require Import ListAux C09Model.
Import ListNotations.

Record Inv (s : st) : Prop := {
  I_len  : length (ents s) = size s;
  I_nd   : NoDup (lru s);
  I_lru  : forall k, In k (lru s) <-> (k < size s /\ linelen s k <> 0);
  I_size : csize s = tot (ents s);
  I_cap  : csize s <= cmax s;
  I_val  : forall k c, c < linelen s k -> nth c (line s k) garbage = bent (perm s) k c;
  I_err  : err s = false
}.

Lemma tot_zero {A} (l : list (list A)) :
  (forall k, k < length l -> nth k l [] = []) -> tot l = 0.
Proof.
  induction l as [|h t IH]; simpl; auto. intros H.
  pose proof (H 0 ltac:(lia)) as H0. simpl in H0. subst h. simpl.
  apply IH. intros k Hk. apply (H (S k)). lia.
Qed.

Lemma tot_single {A} (l : list (list A)) i :
  (forall k, k <> i -> nth k l [] = []) -> tot l = length (nth i l []).
Proof.
  revert i; induction l as [|h t IH]; intros i H; simpl.
  - destruct i; auto.
  - destruct i as [|i].
    + rewrite tot_zero; [lia|]. intros k Hk. apply (H (S k)). lia.
    + pose proof (H 0 ltac:(lia)) as H0. simpl in H0. subst h. simpl.
      apply IH. intros k Hk. apply (H (S k)). lia.
Qed.

Lemma init_inv ids m : Inv (init ids m).
Proof.
  unfold init. constructor; simpl; unfold size, linelen, line; simpl.
  - apply repeat_length.
  - constructor.
  - intros k. split; [tauto|]. intros [_ H]. exfalso. apply H.
    destruct (Nat.lt_ge_cases k (length ids)).
    + rewrite nth_repeat. auto.
    + rewrite nth_overflow; auto. rewrite repeat_length; auto.
  - symmetry. apply tot_zero. intros k Hk. rewrite nth_repeat. auto.
  - lia.
  - intros k c H. exfalso.
    assert (nth k (repeat (@nil T) (length ids)) [] = []) as E.
    { destruct (Nat.lt_ge_cases k (length ids)); [apply nth_repeat|apply nth_overflow; rewrite repeat_length; auto]. }
    rewrite E in H. simpl in H. lia.
  - auto.
Qed.

(* facts about a line after an update of the entry table *)
Lemma line_upd s k v x (P : list nat) L sz mx e :
  line (mk P (upd k v (ents s)) L sz mx e) x =
  if (k =? x) && (k <? length (ents s)) then v else line s x.
Proof. unfold line; simpl. apply nth_upd. Qed.

Lemma remove_row_inv s k : Inv s -> In k (lru s) -> Inv (remove_row k s).
Proof.
  intros I Hk. pose proof (proj1 (I_lru s I k) Hk) as [Hkn Hkl].
  assert (Hke : k < length (ents s)) by (rewrite (I_len s I); auto).
  unfold remove_row. constructor; simpl; unfold size, linelen in *; simpl.
  - rewrite upd_length. apply (I_len s I).
  - apply NoDup_remove_nat, (I_nd s I).
  - intros x. rewrite In_remove_nat, (I_lru s I x). rewrite line_upd.
    destruct (Nat.eqb_spec k x) as [->|Hne]; simpl.
    + apply Nat.ltb_lt in Hke. rewrite Hke. simpl. split; intros; [lia|tauto].
    + unfold size, linelen. split; intros; [tauto|]. split; [tauto|lia].
  - pose proof (tot_upd k (@nil T) (ents s) Hke) as E. simpl in E.
    rewrite (I_size s I). unfold line. lia.
  - pose proof (I_cap s I). lia.
  - intros x c. rewrite line_upd.
    destruct ((k =? x) && (k <? length (ents s))); simpl; [lia|]. apply (I_val s I).
  - apply (I_err s I).
Qed.

Lemma remove_row_perm s k : perm (remove_row k s) = perm s. Proof. auto. Qed.
Lemma remove_row_cmax s k : cmax (remove_row k s) = cmax s. Proof. auto. Qed.
Lemma remove_row_line s k x : line (remove_row k s) x = line s x \/ line (remove_row k s) x = [].
Proof.
  unfold remove_row. rewrite line_upd. destruct ((k =? x) && _); auto.
Qed.
Lemma remove_row_line_neq s k x : x <> k -> line (remove_row k s) x = line s x.
Proof.
  intros H. unfold remove_row. rewrite line_upd.
  destruct (Nat.eqb_spec k x); simpl; auto. congruence.
Qed.

(* no listed line -> nothing stored *)
Lemma empty_lru_csize s : Inv s -> lru s = [] -> csize s = 0.
Proof.
  intros I H. rewrite (I_size s I). apply tot_zero. intros k Hk.
  rewrite (I_len s I) in Hk.
  destruct (nth k (ents s) []) eqn:E; auto. exfalso.
  assert (In k (lru s)) as Hin.
  { apply (I_lru s I). split; auto. unfold linelen, line. rewrite E. simpl. lia. }
  rewrite H in Hin. destruct Hin.
Qed.

Definition keeps (s s' : st) : Prop :=
  perm s' = perm s /\ cmax s' = cmax s /\
  (forall x, line s' x = line s x \/ line s' x = []).

Lemma keeps_refl s : keeps s s.
Proof. repeat split; auto. Qed.

Lemma keeps_trans a b c : keeps a b -> keeps b c -> keeps a c.
Proof.
  intros (P1 & M1 & L1) (P2 & M2 & L2). repeat split; try congruence.
  intros x. destruct (L2 x) as [E|E]; [rewrite E; apply L1|auto].
Qed.

Lemma ensure_free_spec fuel need s :
  Inv s -> need <= cmax s -> length (lru s) <= fuel ->
  let s' := ensure_free fuel need s in
  Inv s' /\ need <= cmax s' - csize s' /\ keeps s s'.
Proof.
  revert s; induction fuel as [|f IH]; intros s I Hn Hf; simpl.
  - destruct (Nat.ltb_spec (cmax s - csize s) need) as [Hlt|Hge].
    + exfalso. assert (lru s = []) as E by (destruct (lru s); simpl in *; auto; lia).
      rewrite (empty_lru_csize s I E) in Hlt. lia.
    + split; auto. split; [lia|apply keeps_refl].
  - destruct (Nat.ltb_spec (cmax s - csize s) need) as [Hlt|Hge].
    + destruct (last_opt (lru s)) as [k|] eqn:EL.
      * pose proof (last_opt_In _ _ EL) as Hin.
        assert (Inv (remove_row k s)) as I' by (apply remove_row_inv; auto).
        specialize (IH (remove_row k s) I').
        rewrite remove_row_cmax in IH. specialize (IH Hn).
        assert (length (lru (remove_row k s)) <= f) as Hf'.
        { simpl. pose proof (remove_nat_length_lt k (lru s) Hin). lia. }
        specialize (IH Hf'). destruct IH as (A & B & C).
        split; auto. split; auto.
        eapply keeps_trans; [|exact C].
        repeat split; auto. intros x. apply remove_row_line.
      * exfalso. apply last_opt_None in EL.
        rewrite (empty_lru_csize s I EL) in Hlt. lia.
    + split; auto. split; [lia|apply keeps_refl].
Qed.

Lemma ensure_free'_spec need s :
  Inv s -> need <= cmax s ->
  let s' := ensure_free' need s in
  Inv s' /\ need <= cmax s' - csize s' /\ keeps s s'.
Proof. intros. apply ensure_free_spec; auto. Qed.

(* the head of the LRU list survives when capacity allows it *)
Lemma only_head_csize s i : Inv s -> lru s = [i] -> csize s = linelen s i.
Proof.
  intros I H. rewrite (I_size s I). unfold linelen, line. apply tot_single.
  intros k Hk. destruct (nth k (ents s) []) eqn:E; auto. exfalso.
  destruct (Nat.lt_ge_cases k (size s)) as [Hlt|Hge].
  - assert (In k (lru s)) as Hin.
    { apply (I_lru s I). split; auto. unfold linelen, line. rewrite E. simpl. lia. }
    rewrite H in Hin. destruct Hin as [->|[]]. congruence.
  - rewrite nth_overflow in E; [discriminate|]. rewrite (I_len s I). auto.
Qed.

Lemma last_opt_cons_cons {A} (a b : A) t : last_opt (a :: b :: t) = last_opt (b :: t).
Proof. auto. Qed.

Lemma ensure_free_head fuel need s i rest :
  Inv s -> lru s = i :: rest -> linelen s i + need <= cmax s ->
  let s' := ensure_free fuel need s in
  line s' i = line s i /\ exists rest', lru s' = i :: rest'.
Proof.
  revert s rest; induction fuel as [|f IH]; intros s rest I HL Hc; simpl.
  - destruct (cmax s - csize s <? need); simpl; split; eauto.
  - destruct (Nat.ltb_spec (cmax s - csize s) need) as [Hlt|Hge]; [|split; eauto].
    destruct (last_opt (lru s)) as [k|] eqn:EL; [|simpl; split; eauto].
    pose proof (last_opt_In _ _ EL) as Hin.
    destruct rest as [|r rest].
    + exfalso. rewrite (only_head_csize s i I HL) in Hlt. lia.
    + assert (k <> i) as Hki.
      { rewrite HL in EL. rewrite last_opt_cons_cons in EL.
        apply last_opt_In in EL. pose proof (I_nd s I) as ND. rewrite HL in ND.
        inversion ND; subst. intros ->. auto. }
      assert (Inv (remove_row k s)) as I' by (apply remove_row_inv; auto).
      assert (lru (remove_row k s) = i :: remove_nat k (r :: rest)) as HL'.
      { simpl lru. rewrite HL. cbn [remove_nat]. destruct (Nat.eqb_spec i k); [congruence|auto]. }
      specialize (IH (remove_row k s) _ I' HL').
      unfold linelen in *. rewrite remove_row_line_neq in IH by auto.
      rewrite remove_row_cmax in IH. specialize (IH Hc).
      destruct IH as [A B]. split; auto.
Qed.

(* adding a fresh line at the front *)
Lemma add_front_inv s k l :
  Inv s -> k < size s -> linelen s k = 0 -> l <> [] -> length l <= cmax s - csize s ->
  (forall c, c < length l -> nth c l garbage = bent (perm s) k c) ->
  Inv (add_front k l s).
Proof.
  intros I Hk H0 Hl Hc Hv.
  assert (Hke : k < length (ents s)) by (rewrite (I_len s I); auto).
  assert (Hnin : ~ In k (lru s)) by (rewrite (I_lru s I); tauto).
  unfold add_front. constructor; simpl; unfold size, linelen in *; simpl.
  - rewrite upd_length. apply (I_len s I).
  - constructor; auto. apply (I_nd s I).
  - intros x. rewrite line_upd. destruct (Nat.eqb_spec k x) as [->|Hne]; simpl.
    + apply Nat.ltb_lt in Hke. rewrite Hke. simpl. split; intros; auto.
      split; auto. destruct l; simpl; [congruence|lia].
    + rewrite (I_lru s I x). unfold size, linelen. split; [intros [?|?]; [congruence|auto]|auto].
  - pose proof (tot_upd k l (ents s) Hke) as E. unfold line in H0. rewrite H0 in E.
    rewrite (I_size s I). lia.
  - pose proof (I_cap s I). lia.
  - intros x c. rewrite line_upd. destruct (Nat.eqb_spec k x) as [->|Hne]; simpl.
    + apply Nat.ltb_lt in Hke. rewrite Hke. simpl. apply Hv.
    + apply (I_val s I).
  - apply (I_err s I).
Qed.

Lemma keeps_linelen0 s s' k : keeps s s' -> linelen s k = 0 -> linelen s' k = 0.
Proof.
  intros (_ & _ & L) H. unfold linelen in *. destruct (L k) as [E|E]; rewrite E; auto.
Qed.

Lemma Inv_size_keeps s s' : keeps s s' -> size s' = size s.
Proof. intros (P & _). unfold size. rewrite P. auto. Qed.

(* the line written by CachedMatrix::row *)
Definition good_line (p : list nat) (k : nat) (l : list T) : Prop :=
  forall c, c < length l -> nth c l garbage = bent p k c.

Lemma brow_length p k a b : length (brow p k a b) = b - a.
Proof. unfold brow. rewrite map_length, seq_length. auto. Qed.

Lemma brow_nth p k a b c : c < b - a -> nth c (brow p k a b) garbage = bent p k (a + c).
Proof.
  intros H. unfold brow.
  rewrite nth_indep with (d' := bent p k 0) by (rewrite map_length, seq_length; auto).
  rewrite map_nth with (f := bent p k) (d := 0). rewrite seq_nth; auto.
Qed.

Lemma good_extend p k l e :
  good_line p k l -> length l <= e -> good_line p k (l ++ brow p k (length l) e).
Proof.
  intros G Hle c Hc. rewrite app_length, brow_length in Hc.
  destruct (Nat.lt_ge_cases c (length l)).
  - rewrite app_nth1; auto.
  - rewrite app_nth2; auto. rewrite brow_nth by lia. f_equal. lia.
Qed.

Lemma good_firstn p k l m : good_line p k l -> good_line p k (firstn m l).
Proof.
  intros G c Hc. rewrite firstn_length in Hc.
  rewrite <- (firstn_skipn m l) in G.
  specialize (G c). rewrite app_length, firstn_length in G.
  rewrite app_nth1 in G by (rewrite firstn_length; lia). apply G. lia.
Qed.

(* replacing the content of the (non-empty) line k by another one of the same length *)
Lemma set_line_inv s k l :
  Inv s -> length l = linelen s k -> good_line (perm s) k l ->
  Inv (mk (perm s) (upd k l (ents s)) (lru s) (csize s) (cmax s) (err s)).
Proof.
  intros I HL G.
  destruct (Nat.lt_ge_cases k (length (ents s))) as [Hke|Hke].
  2:{ rewrite upd_oob by auto. destruct s; simpl in *. exact I. }
  constructor; simpl; unfold size, linelen in *; simpl.
  - rewrite upd_length. apply (I_len s I).
  - apply (I_nd s I).
  - intros x. rewrite (I_lru s I x). rewrite line_upd. unfold size, linelen.
    destruct (Nat.eqb_spec k x) as [->|Hne]; simpl; [|tauto].
    apply Nat.ltb_lt in Hke. rewrite Hke. simpl. rewrite HL. tauto.
  - pose proof (tot_upd k l (ents s) Hke) as E. unfold line in HL. rewrite (I_size s I). lia.
  - apply (I_cap s I).
  - intros x c. rewrite line_upd. destruct (Nat.eqb_spec k x) as [->|Hne]; simpl.
    + apply Nat.ltb_lt in Hke. rewrite Hke. simpl. apply G.
    + apply (I_val s I).
  - apply (I_err s I).
Qed.

Lemma redeclare_newest_inv s k : Inv s -> k < size s -> linelen s k <> 0 -> Inv (redeclare_newest k s).
Proof.
  intros I Hk Hl. unfold redeclare_newest. constructor; simpl; unfold size, linelen in *; simpl;
    try apply I.
  - constructor; [rewrite In_remove_nat; tauto|apply NoDup_remove_nat, (I_nd s I)].
  - intros x. rewrite In_remove_nat. rewrite (I_lru s I x). unfold size, linelen.
    destruct (Nat.eq_dec k x) as [->|Hne]; [tauto|]. split; [intros [?|?]; [congruence|tauto]|].
    intros H. right. split; [tauto|congruence].
Qed.

Lemma NoDup_snoc (l : list nat) k : NoDup l -> ~ In k l -> NoDup (l ++ [k]).
Proof.
  induction 1 as [|h t Hn Hd IH]; simpl; intros Hk.
  - constructor; [tauto|constructor].
  - constructor; [rewrite in_app_iff; simpl; intuition|apply IH; tauto].
Qed.

Lemma mark_inv s k : Inv s -> k < size s -> Inv (mark_for_deletion k s).
Proof.
  intros I Hk. unfold mark_for_deletion.
  destruct (Nat.eqb_spec (linelen s k) 0) as [E|E]; auto.
  constructor; simpl; unfold size, linelen in *; simpl; try apply I.
  - apply NoDup_snoc; [apply NoDup_remove_nat, (I_nd s I)|rewrite In_remove_nat; tauto].
  - intros x. rewrite in_app_iff, In_remove_nat. rewrite (I_lru s I x). unfold size, linelen. simpl.
    destruct (Nat.eq_dec k x) as [->|Hne]; [tauto|]. split; [intros [?|[?|[]]]; [tauto|congruence]|].
    intros H. left. split; [tauto|congruence].
Qed.


(* get_line + fill = CachedMatrix::row, in closed form for its three cases *)
Lemma cm_row_create k e s :
  linelen s k = 0 -> 0 < e ->
  cm_row k e s = add_front k (brow (perm s) k 0 e) (ensure_free' e s).
Proof.
  intros E0 He. unfold cm_row, get_line. rewrite E0. simpl (0 =? 0).
  assert (0 <? e = true) as -> by (apply Nat.ltb_lt; auto). cbv iota.
  unfold create_row, add_front. cbn [perm ents lru csize cmax err].
  rewrite upd_upd. rewrite firstn_O. cbn [app].
  rewrite repeat_length, brow_length, Nat.sub_0_r. reflexivity.
Qed.

Lemma cm_row_hit k e s :
  linelen s k <> 0 -> e <= linelen s k -> cm_row k e s = redeclare_newest k s.
Proof.
  intros E0 He. unfold cm_row, get_line.
  destruct (Nat.eqb_spec (linelen s k) 0); [contradiction|].
  assert (e <=? linelen s k = true) as -> by (apply Nat.leb_le; auto).
  assert (linelen s k <? e = false) as -> by (apply Nat.ltb_ge; auto). reflexivity.
Qed.

Lemma cm_row_extend k e s :
  k < length (ents s) -> linelen s k <> 0 -> linelen s k < e ->
  length (ents (ensure_free' e (remove_row k s))) = length (ents s) ->
  cm_row k e s =
  add_front k (line s k ++ brow (perm s) k (linelen s k) e) (ensure_free' e (remove_row k s)).
Proof.
  intros Hk E0 He HL. unfold cm_row, get_line.
  destruct (Nat.eqb_spec (linelen s k) 0); [contradiction|].
  assert (e <=? linelen s k = false) as -> by (apply Nat.leb_gt; auto).
  assert (linelen s k <? e = true) as -> by (apply Nat.ltb_lt; auto).
  unfold resize_line. set (s1 := ensure_free' e (remove_row k s)) in *.
  unfold add_front. cbn [perm ents lru csize cmax err].
  rewrite upd_upd. rewrite line_upd, Nat.eqb_refl.
  assert (k <? length (ents s1) = true) as -> by (apply Nat.ltb_lt; lia). cbn [andb].
  unfold linelen in *.
  rewrite firstn_all2 with (n := e) by lia.
  rewrite firstn_app, firstn_all, Nat.sub_diag. cbn [firstn]. rewrite app_nil_r.
  unfold add_front. f_equal.
  rewrite !app_length, repeat_length, brow_length. lia.
Qed.

Lemma ensure_free_ents_length fuel need s :
  length (ents (ensure_free fuel need s)) = length (ents s).
Proof.
  revert s; induction fuel as [|f IH]; intros s; simpl.
  - destruct (_ <? _); auto.
  - destruct (_ <? _); auto. destruct (last_opt (lru s)); auto.
    rewrite IH. simpl. apply upd_length.
Qed.

Lemma cm_row_inv k e s :
  Inv s -> k < size s -> 0 < e -> e <= cmax s ->
  let s' := cm_row k e s in
  Inv s' /\ perm s' = perm s /\ cmax s' = cmax s /\ e <= linelen s' k /\
  good_line (perm s) k (line s' k) /\
  (forall x, x <> k -> line s' x = line s x \/ line s' x = []).
Proof.
  intros I Hk He Hc.
  assert (Hke0 : k < length (ents s)) by (rewrite (I_len s I); auto).
  destruct (Nat.eq_dec (linelen s k) 0) as [E0|E0].
  - (* create *)
    rewrite cm_row_create by auto.
    destruct (ensure_free'_spec e s I Hc) as (I1 & Hfree & K1).
    set (s1 := ensure_free' e s) in *.
    pose proof K1 as (P1 & M1 & L1).
    assert (Hk1 : k < size s1) by (rewrite (Inv_size_keeps _ _ K1); auto).
    assert (Hl1 : linelen s1 k = 0) by (eapply keeps_linelen0; eauto).
    assert (Hke : k < length (ents s1)) by (rewrite (I_len s1 I1); auto).
    assert (G : good_line (perm s) k (brow (perm s) k 0 e)).
    { intros c Hlt. rewrite brow_length in Hlt. rewrite brow_nth by auto. auto. }
    assert (Inv (add_front k (brow (perm s) k 0 e) s1)) as I2.
    { apply add_front_inv; auto.
      - intros Hb. apply (f_equal (@length T)) in Hb. rewrite brow_length in Hb. simpl in Hb. lia.
      - rewrite brow_length. lia.
      - rewrite P1. exact G. }
    assert (EL : line (add_front k (brow (perm s) k 0 e) s1) k = brow (perm s) k 0 e).
    { unfold add_front. rewrite line_upd, Nat.eqb_refl.
      apply Nat.ltb_lt in Hke. rewrite Hke. reflexivity. }
    cbv zeta. split; [exact I2|]. split; [exact P1|]. split; [exact M1|].
    unfold linelen. rewrite EL. split; [rewrite brow_length; lia|]. split; [exact G|].
    intros x Hx. unfold add_front. rewrite line_upd.
    destruct (Nat.eqb_spec k x); [congruence|]. cbn [andb]. apply L1.
  - destruct (Nat.le_gt_cases e (linelen s k)) as [Hle|Hgt].
    + rewrite cm_row_hit by auto. cbv zeta.
      split; [apply redeclare_newest_inv; auto|]. repeat split; auto.
      intros c Hlt. apply (I_val s I). exact Hlt.
    + assert (In k (lru s)) as Hin by (apply (I_lru s I); auto).
      assert (Inv (remove_row k s)) as Ir by (apply remove_row_inv; auto).
      destruct (ensure_free'_spec e (remove_row k s) Ir Hc) as (I1 & Hfree & K1).
      rewrite cm_row_extend; auto.
      2:{ unfold ensure_free'. rewrite ensure_free_ents_length. simpl. apply upd_length. }
      set (s1 := ensure_free' e (remove_row k s)) in *.
      pose proof K1 as (P1 & M1 & L1). simpl in P1, M1.
      assert (Hk1 : k < size s1) by (rewrite (Inv_size_keeps _ _ K1); auto).
      assert (Hl1 : linelen s1 k = 0).
      { eapply keeps_linelen0; eauto. unfold remove_row, linelen. rewrite line_upd.
        rewrite Nat.eqb_refl. apply Nat.ltb_lt in Hke0. rewrite Hke0. auto. }
      assert (Hke : k < length (ents s1)) by (rewrite (I_len s1 I1); auto).
      set (nl := line s k ++ brow (perm s) k (linelen s k) e).
      assert (G : good_line (perm s) k nl).
      { unfold nl. apply good_extend; [intros c Hlt; apply (I_val s I); auto|unfold linelen in *; lia]. }
      assert (Inv (add_front k nl s1)) as I2.
      { apply add_front_inv; auto.
        - unfold nl. destruct (line s k) eqn:EL; [unfold linelen in E0; rewrite EL in E0; simpl in E0; lia|discriminate].
        - unfold nl. rewrite app_length, brow_length. unfold linelen in *. lia.
        - rewrite P1. exact G. }
      assert (EL : line (add_front k nl s1) k = nl).
      { unfold add_front. rewrite line_upd, Nat.eqb_refl.
        apply Nat.ltb_lt in Hke. rewrite Hke. reflexivity. }
      cbv zeta. split; [exact I2|]. split; [exact P1|]. split; [exact M1|].
      unfold linelen at 1. rewrite EL. split.
      { unfold nl. rewrite app_length, brow_length. unfold linelen. lia. }
      split; [exact G|].
      intros x Hx. unfold add_front. rewrite line_upd.
      destruct (Nat.eqb_spec k x); [congruence|]. cbn [andb].
      destruct (L1 x) as [E|E]; [|right; exact E].
      left. rewrite E. apply remove_row_line_neq. auto.
Qed.

(* ---- truncation (resizeLine to a shorter length) ---- *)
Lemma trunc_inv k e s :
  Inv s -> k < size s -> 0 < e -> e <= linelen s k -> Inv (resize_line k e s).
Proof.
  intros I Hk He Hle.
  assert (Hke0 : k < length (ents s)) by (rewrite (I_len s I); auto).
  assert (Hc : e <= cmax s).
  { pose proof (tot_nth_le k (ents s)). pose proof (I_cap s I). rewrite (I_size s I) in *.
    unfold linelen, line in Hle. lia. }
  assert (In k (lru s)) as Hin by (apply (I_lru s I); split; auto; lia).
  assert (Inv (remove_row k s)) as Ir by (apply remove_row_inv; auto).
  destruct (ensure_free'_spec e (remove_row k s) Ir Hc) as (I1 & Hfree & K1).
  unfold resize_line. set (s1 := ensure_free' e (remove_row k s)) in *.
  pose proof K1 as (P1 & M1 & L1). simpl in P1, M1.
  assert (Hk1 : k < size s1) by (rewrite (Inv_size_keeps _ _ K1); auto).
  assert (Hl1 : linelen s1 k = 0).
  { eapply keeps_linelen0; eauto. unfold remove_row, linelen. rewrite line_upd.
    rewrite Nat.eqb_refl. apply Nat.ltb_lt in Hke0. rewrite Hke0. auto. }
  unfold linelen in Hle.
  assert (e - length (line s k) = 0) as -> by lia. cbn [repeat]. rewrite app_nil_r.
  apply add_front_inv; auto.
  - intros E. apply (f_equal (@length T)) in E. rewrite firstn_length in E. simpl in E. lia.
  - rewrite firstn_length. lia.
  - rewrite P1. apply good_firstn. intros c Hlt. apply (I_val s I). exact Hlt.
Qed.

(* ---- flips ---- *)
Lemma flip_line_length p i j k l : length (flip_line p i j k l) = length l.
Proof.
  unfold flip_line. destruct (_ <=? _); auto. destruct (_ <? _); rewrite ?upd_length; auto.
Qed.

Lemma flip_line_good p i j k l :
  i < j -> good_line p k l ->
  forall c, c < length l -> nth c (flip_line p i j k l) garbage = bent p k (tr i j c).
Proof.
  intros Hij G c Hc. unfold flip_line.
  destruct (Nat.leb_spec (length l) i) as [H1|H1].
  - rewrite tr_other by lia. apply G; auto.
  - destruct (Nat.ltb_spec j (length l)) as [H2|H2].
    + rewrite !nth_upd, upd_length.
      assert (i <? length l = true) as -> by (apply Nat.ltb_lt; lia).
      assert (j <? length l = true) as -> by (apply Nat.ltb_lt; lia).
      rewrite !andb_true_r. unfold tr. rewrite (Nat.eqb_sym i c), (Nat.eqb_sym j c).
      destruct (Nat.eqb_spec c i) as [->|?]; [apply G; lia|].
      destruct (Nat.eqb_spec c j) as [->|?]; apply G; lia.
    + rewrite nth_upd.
      assert (i <? length l = true) as -> by (apply Nat.ltb_lt; lia).
      rewrite andb_true_r. unfold tr. rewrite (Nat.eqb_sym i c).
      destruct (Nat.eqb_spec c i) as [->|?]; auto.
      destruct (Nat.eqb_spec c j) as [->|?]; [lia|]. apply G; auto.
Qed.

Lemma flip_line_nil p i j k : flip_line p i j k [] = [].
Proof. unfold flip_line. simpl. auto. Qed.

Lemma nth_map_seq {A} (f : nat -> A) n k d : k < n -> nth k (map f (seq 0 n)) d = f k.
Proof.
  intros H. rewrite nth_indep with (d' := f 0) by (rewrite map_length, seq_length; auto).
  rewrite map_nth with (d := 0). rewrite seq_nth; auto.
Qed.

Lemma bent_swapl p i j k c :
  i < length p -> j < length p ->
  bent (swapl 0 i j p) k c = bent p (tr i j k) (tr i j c).
Proof. intros. unfold bent. rewrite !nth_swapl; auto. Qed.

Lemma tr_lt_iff i j k n : i < n -> j < n -> (tr i j k < n <-> k < n).
Proof.
  intros Hi Hj. split; intros H; [|apply tr_lt; auto].
  rewrite <- (tr_invol i j k). apply tr_lt; auto.
Qed.

Lemma cm_flip_inv i0 j0 s :
  Inv s -> i0 < size s -> j0 < size s ->
  Inv (cm_flip i0 j0 s) /\ perm (cm_flip i0 j0 s) = swapl 0 i0 j0 (perm s) /\ cmax (cm_flip i0 j0 s) = cmax s.
Proof.
  intros I Hi0 Hj0. unfold cm_flip.
  destruct (Nat.eqb_spec i0 j0) as [->|Hne].
  { rewrite swapl_same. auto. }
  set (i := Nat.min i0 j0). set (j := Nat.max i0 j0).
  assert (Hij : i < j) by (unfold i, j; lia).
  assert (Hi : i < size s) by (unfold i; lia). assert (Hj : j < size s) by (unfold j; lia).
  assert (Eperm : swapl 0 i j (perm s) = swapl 0 i0 j0 (perm s)).
  { destruct (Nat.le_gt_cases i0 j0).
    - unfold i, j. rewrite Nat.min_l, Nat.max_r by lia. auto.
    - unfold i, j. rewrite Nat.min_r, Nat.max_l by lia.
      apply nth_ext with (d := 0) (d' := 0); [rewrite !swapl_length; auto|].
      intros k _. unfold size in *. rewrite !nth_swapl by lia. f_equal.
      unfold tr. destruct (Nat.eqb_spec k j0); destruct (Nat.eqb_spec k i0); subst; auto; lia. }
  set (ents1 := map (fun k => flip_line (perm s) i j k (nth k (ents s) [])) (seq 0 (length (ents s)))).
  assert (L1 : length ents1 = size s) by (unfold ents1; rewrite map_length, seq_length; apply (I_len s I)).
  assert (N1 : forall k, nth k ents1 [] = flip_line (perm s) i j k (line s k)).
  { intros k. destruct (Nat.lt_ge_cases k (length (ents s))) as [H|H].
    - unfold ents1. rewrite nth_map_seq; auto.
    - rewrite nth_overflow by (rewrite L1, <- (I_len s I); auto).
      unfold line. rewrite nth_overflow by auto. rewrite flip_line_nil. auto. }
  set (s1 := mk (perm s) ents1 (lru s) (csize s) (cmax s) (err s)).
  assert (LL1 : forall k, linelen s1 k = linelen s k).
  { intros k. unfold linelen, line, s1. simpl. rewrite N1, flip_line_length. auto. }
  (* characterisation of the state after swapLineIndices, valid in both of its branches *)
  set (s2 := swap_line_indices i j s1).
  assert (P2 : perm s2 = perm s /\ csize s2 = csize s /\ cmax s2 = cmax s /\ err s2 = err s).
  { unfold s2, swap_line_indices. destruct (_ || _); simpl; auto. }
  assert (E2 : length (ents s2) = size s).
  { unfold s2, swap_line_indices. destruct (_ || _); simpl; auto. rewrite swapl_length; auto. }
  assert (N2 : forall k, line s2 k = flip_line (perm s) i j (tr i j k) (line s (tr i j k))).
  { intros k. unfold s2, swap_line_indices.
    destruct (Nat.eqb_spec i j); [lia|]. cbn [orb].
    destruct (Nat.eqb_spec (linelen s1 i) 0) as [Z1|Z1]; destruct (Nat.eqb_spec (linelen s1 j) 0) as [Z2|Z2]; cbn [andb].
    2,3,4: unfold line at 1; simpl; rewrite nth_swapl by (rewrite L1; auto); apply N1.
    unfold line at 1. simpl. rewrite N1.
    rewrite LL1 in Z1, Z2. unfold linelen in Z1, Z2.
    unfold tr. destruct (Nat.eqb_spec k i) as [->|?].
    - apply length_zero_iff_nil in Z1, Z2. rewrite Z1, Z2, !flip_line_nil. auto.
    - destruct (Nat.eqb_spec k j) as [->|?]; auto.
      apply length_zero_iff_nil in Z1, Z2. rewrite Z1, Z2, !flip_line_nil. auto. }
  assert (LL2 : forall k, linelen s2 k = linelen s (tr i j k)).
  { intros k. unfold linelen. rewrite N2, flip_line_length. auto. }
  assert (R2 : forall k, In k (lru s2) <-> In (tr i j k) (lru s)).
  { intros k. unfold s2, swap_line_indices.
    destruct (Nat.eqb_spec i j); [lia|]. cbn [orb].
    destruct ((linelen s1 i =? 0) && (linelen s1 j =? 0)) eqn:EZ.
    - simpl. apply andb_prop in EZ. destruct EZ as [Z1 Z2].
      apply Nat.eqb_eq in Z1, Z2. rewrite LL1 in Z1, Z2.
      unfold tr. destruct (Nat.eqb_spec k i) as [->|?].
      + rewrite !(I_lru s I). split; intros [_ H]; lia.
      + destruct (Nat.eqb_spec k j) as [->|?]; [|tauto].
        rewrite !(I_lru s I). split; intros [_ H]; lia.
    - simpl. rewrite in_map_iff. split.
      + intros (x & <- & Hx). rewrite tr_invol. auto.
      + intros H. exists (tr i j k). split; auto. apply tr_invol. }
  assert (ND2 : NoDup (lru s2)).
  { unfold s2, swap_line_indices. destruct (_ || _); simpl; [apply (I_nd s I)|].
    apply FinFun.Injective_map_NoDup; [|apply (I_nd s I)]. intros a b. apply tr_inj. }
  destruct P2 as (P2 & C2 & M2 & Er2).
  split; [|split; [simpl; rewrite P2; exact Eperm|simpl; exact M2]].
  constructor; simpl; unfold size, linelen, line in *; simpl.
  - rewrite swapl_length, P2. exact E2.
  - exact ND2.
  - intros k. rewrite swapl_length, P2. rewrite R2, (I_lru s I). unfold size, linelen, line.
    rewrite LL2. rewrite (tr_lt_iff i j k (length (perm s))) by auto. tauto.
  - rewrite C2, (I_size s I).
    transitivity (tot ents1).
    + apply tot_ext_length; [rewrite L1; apply (I_len s I)|].
      intros k. rewrite N1, flip_line_length. auto.
    + unfold s2, swap_line_indices. destruct (_ || _); simpl; auto.
      symmetry. apply tot_swapl; rewrite L1; auto.
  - rewrite C2, M2. apply (I_cap s I).
  - intros k c. rewrite N2, flip_line_length. intros Hc. rewrite P2.
    rewrite bent_swapl by auto.
    apply flip_line_good; auto. intros c' Hc'. apply (I_val s I). exact Hc'.
  - rewrite Er2. apply (I_err s I).
Qed.

(* ---- setMaxCachedIndex, clear ---- *)
Lemma mark_perm k s : perm (mark_for_deletion k s) = perm s /\ cmax (mark_for_deletion k s) = cmax s.
Proof. unfold mark_for_deletion. destruct (_ =? _); auto. Qed.

Lemma set_max_inv m s : Inv s -> Inv (cm_set_max_cached_index m s) /\
  perm (cm_set_max_cached_index m s) = perm s /\ cmax (cm_set_max_cached_index m s) = cmax s.
Proof.
  unfold cm_set_max_cached_index.
  assert (forall l s, Inv s -> (forall k, In k l -> k < size s) ->
            let s' := fold_left (fun s k => mark_for_deletion k s) l s in
            Inv s' /\ perm s' = perm s /\ cmax s' = cmax s) as H.
  { induction l as [|h t IH]; intros s0 I0 HL; simpl; auto.
    destruct (mark_perm h s0) as [P M].
    specialize (IH (mark_for_deletion h s0) (mark_inv s0 h I0 (HL h (or_introl eq_refl)))).
    destruct IH as (A & B & C).
    { intros k Hk. unfold size. rewrite P. apply HL. right; auto. }
    split; auto. split; congruence. }
  intros I. apply H; auto. intros k Hk. apply in_seq in Hk. lia.
Qed.

Lemma clear_inv s : Inv s -> Inv (lru_clear s) /\ perm (lru_clear s) = perm s /\ cmax (lru_clear s) = cmax s.
Proof.
  intros I. destruct (ensure_free'_spec (cmax s) s I (le_n _)) as (A & B & (P & M & _)). auto.
Qed.

Lemma clear_empties s : Inv s -> csize (lru_clear s) = 0.
Proof.
  intros I. destruct (ensure_free'_spec (cmax s) s I (le_n _)) as (A & B & (P & M & _)).
  unfold lru_clear. rewrite M in B. pose proof (I_cap _ A). rewrite M in H. lia.
Qed.

(* ---- all histories ---- *)
Definition wf_op_P := wf_op.

Lemma step_inv s o : Inv s -> Inv (step s o) /\ cmax (step s o) = cmax s /\ size (step s o) = size s.
Proof.
  intros I. unfold step. destruct (wf_op s o) eqn:W; auto.
  destruct o as [k e|i j|m| |k e|k|k e]; simpl in W;
    repeat (apply andb_prop in W; destruct W as [W ?]);
    repeat match goal with H : (_ <? _) = true |- _ => apply Nat.ltb_lt in H
                         | H : (_ <=? _) = true |- _ => apply Nat.leb_le in H end.
  - destruct (cm_row_inv k e s I) as (A & B & C & _); auto. unfold size. rewrite B. auto.
  - destruct (cm_flip_inv i j s I) as (A & B & C); auto. split; auto. split; auto.
    unfold size. rewrite B, swapl_length. auto.
  - destruct (set_max_inv m s I) as (A & B & C). unfold size. rewrite B. auto.
  - destruct (clear_inv s I) as (A & B & C). unfold size. rewrite B. auto.
  - split; [apply trunc_inv; auto|]. unfold resize_line, ensure_free'. simpl.
    set (f := length _). set (r := remove_row k s).
    assert (forall fuel need s0, cmax (ensure_free fuel need s0) = cmax s0 /\ perm (ensure_free fuel need s0) = perm s0) as EF.
    { induction fuel as [|f0 IH]; intros need s0; simpl; destruct (_ <? _); auto.
      destruct (last_opt _); auto. destruct (IH need (remove_row n s0)); auto. }
    destruct (EF f e r) as [E1 E2]. unfold size. simpl. rewrite E1, E2. auto.
  - destruct (mark_perm k s) as [P M]. split; [apply mark_inv; auto|]. unfold size. rewrite P. auto.
  - auto.
Qed.

Theorem run_inv ops s : Inv s -> Inv (run s ops).
Proof.
  revert s; induction ops as [|o ops IH]; intros s I; simpl; auto.
  apply IH. apply step_inv. exact I.
Qed.

Theorem reachable_inv ids mx ops : Inv (run (init ids mx) ops).
Proof. apply run_inv, init_inv. Qed.

(* ---- what a row request returns ---- *)
Theorem row_returns_true_entries k e s :
  Inv s -> wf_op s (ORow k e) = true ->
  let s' := step s (ORow k e) in
  perm s' = perm s /\
  forall c, c < e -> nth c (line s' k) garbage = bent (perm s) k c.
Proof.
  intros I W. unfold step. rewrite W. simpl in W.
  repeat (apply andb_prop in W; destruct W as [W ?]).
  repeat match goal with H : (_ <? _) = true |- _ => apply Nat.ltb_lt in H
                       | H : (_ <=? _) = true |- _ => apply Nat.leb_le in H end.
  destruct (cm_row_inv k e s I) as (A & B & C & D & G & _); auto.
  split; auto. intros c Hc. apply G. unfold linelen in D. lia.
Qed.

Theorem const_row_returns_true_entries k e s :
  Inv s ->
  length (cm_row_const k e s) = e /\
  forall c, c < e -> nth c (cm_row_const k e s) garbage = bent (perm s) k c.
Proof.
  intros I. unfold cm_row_const. set (m := Nat.min (linelen s k) e).
  assert (G0 : good_line (perm s) k (line s k)) by (intros c Hc; apply (I_val s I); exact Hc).
  pose proof (good_firstn _ _ _ m G0) as G1.
  assert (L1 : length (firstn m (line s k)) = m) by (rewrite firstn_length; unfold m, linelen; lia).
  pose proof (good_extend _ _ _ e G1) as G. rewrite L1 in G. specialize (G ltac:(unfold m; lia)).
  assert (LT : length (firstn m (line s k) ++ brow (perm s) k m e) = e).
  { rewrite app_length, L1, brow_length. unfold m. lia. }
  split; [exact LT|]. intros c Hc. apply G. rewrite LT. exact Hc.
Qed.

(* ---- two rows ---- *)
Lemma cm_row_head k e s :
  Inv s -> k < size s -> 0 < e -> exists rest, lru (cm_row k e s) = k :: rest.
Proof.
  intros I Hk He.
  destruct (Nat.eq_dec (linelen s k) 0) as [E0|E0].
  - rewrite cm_row_create by auto. simpl. eauto.
  - destruct (Nat.le_gt_cases e (linelen s k)).
    + rewrite cm_row_hit by auto. simpl. eauto.
    + rewrite cm_row_extend; auto; [simpl; eauto|rewrite (I_len s I); auto|].
      unfold ensure_free'. rewrite ensure_free_ents_length. simpl. apply upd_length.
Qed.

Theorem two_rows_valid i a j b s :
  Inv s -> i <> j ->
  wf_op s (ORow i a) = true ->
  let s1 := step s (ORow i a) in
  wf_op s1 (ORow j b) = true ->
  linelen s1 i + b <= cmax s ->
  let s2 := step s1 (ORow j b) in
  line s2 i = line s1 i /\ a <= linelen s2 i.
Proof.
  intros I Hij W1 s1 W2 Hcap s2. unfold s2, s1 in *. clear s1 s2.
  unfold step in *. rewrite W1 in *. rewrite W2.
  simpl in W1, W2.
  repeat (apply andb_prop in W1; destruct W1 as [W1 ?]).
  repeat (apply andb_prop in W2; destruct W2 as [W2 ?]).
  repeat match goal with H : (_ <? _) = true |- _ => apply Nat.ltb_lt in H
                       | H : (_ <=? _) = true |- _ => apply Nat.leb_le in H end.
  destruct (cm_row_inv i a s I) as (I1 & P1 & M1 & D1 & _ & _); auto.
  destruct (cm_row_head i a s I) as (rest & HL); auto.
  set (s1 := cm_row i a s) in *.
  rewrite <- M1 in Hcap.
  assert (Hj1 : j < length (ents s1)) by (rewrite (I_len s1 I1); auto).
  assert (line (cm_row j b s1) i = line s1 i) as E.
  { destruct (Nat.eq_dec (linelen s1 j) 0) as [E0|E0].
    - rewrite cm_row_create by auto.
      destruct (ensure_free_head (length (lru s1)) b s1 i rest I1 HL Hcap) as [A _].
      unfold add_front. rewrite line_upd. destruct (Nat.eqb_spec j i); [congruence|]. exact A.
    - destruct (Nat.le_gt_cases b (linelen s1 j)).
      + rewrite cm_row_hit by auto. reflexivity.
      + rewrite cm_row_extend; auto.
        2:{ unfold ensure_free'. rewrite ensure_free_ents_length. simpl. apply upd_length. }
        assert (In j (lru s1)) as Hin by (apply (I_lru s1 I1); auto).
        assert (Inv (remove_row j s1)) as Ir by (apply remove_row_inv; auto).
        assert (lru (remove_row j s1) = i :: remove_nat j rest) as HL'.
        { simpl. rewrite HL. cbn [remove_nat]. destruct (Nat.eqb_spec i j); [congruence|auto]. }
        assert (linelen (remove_row j s1) i + b <= cmax (remove_row j s1)) as Hcap'.
        { unfold linelen. rewrite remove_row_line_neq by auto. exact Hcap. }
        destruct (ensure_free_head (length (lru (remove_row j s1))) b _ i _ Ir HL' Hcap') as [A _].
        unfold add_front. rewrite line_upd. destruct (Nat.eqb_spec j i); [congruence|].
        cbn [andb]. unfold ensure_free'. rewrite A. apply remove_row_line_neq. auto. }
  split; auto. unfold linelen. rewrite E. exact D1.
Qed.

(* non-vacuity: a concrete state with two cached lines meets all premises *)
Example two_rows_example :
  let s := run (init [5;6;7;8] 8) [ORow 2 4] in
  Inv s /\ wf_op s (ORow 0 3) = true /\ wf_op (step s (ORow 0 3)) (ORow 1 4) = true /\
  linelen (step s (ORow 0 3)) 0 + 4 <= cmax s /\
  linelen (step (step s (ORow 0 3)) (ORow 1 4)) 2 = 0.   (* the oldest line had to go *)
Proof.
  cbv zeta. split; [apply reachable_inv|]. vm_compute. repeat split; auto.
Qed.
