(* C17 — executable model of the kd-tree CONSTRUCTION: KDTree::buildTree, KDTree::calculateCuttingDimension
   (include/shark/Models/Trees/KDTree.h), BinaryTree::splitList (BinaryTree.h) and partitionEqually /
   median_element (include/shark/Core/utility/functional.h), default TreeConstruction() (bucket size 1,
   depth limit 2^32-1).  Definitions only; proofs are in C17BuildProofs.v.

   std::nth_element is NOT modelled: it is an explicit oracle argument `oracle : list kv -> list kv`
   (the range of KeyValuePair<key, point> after the call).  The theorems quantify over every oracle with
   the post-condition of std::nth_element (`nth_spec`: a permutation of its input; the element at the
   median position is >= everything before and <= everything behind).  In the correspondence run the
   oracle answers with the arrangement that the real std::nth_element produced for that node (recorded
   by the harness).  The two std::partition calls of partitionEqually are modelled by the stable
   partition: the order inside the parts only decides in which order a sub-range is handed to the next
   std::nth_element, whose result is arbitrary again.

   Points are lists of Z.  The threshold 0.5*(maximum+minimum) is (maximum+minimum)/2 with Z division;
   it is exact on the doubled coordinates that the correspondence run feeds (see C17Model.v). *)
From Coq Require Import List ZArith Bool Arith Permutation.
From SharkV Require Import C17Model.
Import ListNotations.
Open Scope Z_scope.

(* KeyValuePair<double, iterator>: key = funct(point) = point[m_cutDim], value = index of the point *)
Definition kv := (Z * nat)%type.

(* ---------------------------------------------------------------------------------------- *)
(* KDTree::calculateCuttingDimension.  L = U = first point; for the other points: if (v < L[d]) L[d] = v;
   if (v > U[d]) U[d] = v.  (The C++ loops over the points outside and the dimensions inside; the
   model computes every dimension's L[d], U[d] by its own scan over the points.) *)
Definition lo_of (data : list point) (d : nat) (first : nat) (rest : list nat) : Z :=
  fold_left (fun acc i => let v := coord (pt data i) d in if v <? acc then v else acc)
            rest (coord (pt data first) d).
Definition hi_of (data : list point) (d : nat) (first : nat) (rest : list nat) : Z :=
  fold_left (fun acc i => let v := coord (pt data i) d in if acc <? v then v else acc)
            rest (coord (pt data first) d).
Definition extent (data : list point) (first : nat) (rest : list nat) (d : nat) : Z :=
  hi_of data d first rest - lo_of data d first rest.

(* cutDim = 0; extent = U[0]-L[0]; for d = 1 .. dim-1: e = U[d]-L[d]; if (e > extent) {extent = e; cutDim = d;} *)
Fixpoint scan_dims (ext : nat -> Z) (ds : list nat) (cutDim : nat) (ex : Z) : nat * Z :=
  match ds with
  | [] => (cutDim, ex)
  | d :: ds' => if ex <? ext d then scan_dims ext ds' d (ext d) else scan_dims ext ds' cutDim ex
  end.

(* front point .size() *)
Definition dim_of (data : list point) (elems : list nat) : nat := length (pt data (hd 0%nat elems)).

(* if (extent == 0) return dim; return cutDim; *)
Definition cutting_dim (data : list point) (elems : list nat) : nat :=
  match elems with
  | [] => 0%nat
  | first :: rest =>
      let dim := length (pt data first) in
      let '(cd, e) := scan_dims (extent data first rest) (seq 1 (dim - 1)) 0%nat (extent data first rest 0%nat) in
      if e =? 0 then dim else cd
  end.

(* ---------------------------------------------------------------------------------------- *)
(* median_element: medianPos = (size+1)/2 *)
Definition median_pos (n : nat) : nat := Nat.div (n + 1) 2.

(* partitionEqually(range): returns the two parts [begin,pos) and [pos,end) of the rearranged range *)
Definition partition_equally (oracle : list kv -> list kv) (range : list kv) : list kv * list kv :=
  let mp := median_pos (length range) in
  let r := oracle range in                                   (* std::nth_element(begin, begin+medianPos, end) *)
  let median := fst (nth mp r (0, 0%nat)) in                  (* median = value at medianIter *)
  let front := firstn mp r in
  let back := skipn mp r in
  let lt := filter (fun e => fst e <? median) front in        (* left = partition(begin, medianIter, elem < median) *)
  let ge := filter (fun e => negb (fst e <? median)) front in
  let eq := filter (fun e => fst e =? median) back in         (* right = partition(medianIter, end, elem == median) *)
  let gt := filter (fun e => negb (fst e =? median)) back in
  let a := length lt in                                       (* left - begin *)
  let c := length gt in                                       (* end - right *)
  if (a =? 0)%nat then (lt ++ ge ++ eq, gt)                   (* if (left == begin) return right *)
  else if (c <=? a)%nat then (lt, ge ++ eq ++ gt)             (* if (left - begin >= end - right) return left *)
  else (lt ++ ge ++ eq, gt).                                  (* else return right *)

(* std::max_element(begin, pos)->key, std::min_element(pos, end)->key *)
Definition maxkey (l : list kv) : Z :=
  match l with
  | [] => 0
  | e :: t => fold_left (fun acc x => if acc <? fst x then fst x else acc) t (fst e)
  end.
Definition minkey (l : list kv) : Z :=
  match l with
  | [] => 0
  | e :: t => fold_left (fun acc x => if fst x <? acc then fst x else acc) t (fst e)
  end.

(* BinaryTree::splitList: threshold, left range, right range *)
Definition split_list (oracle : list kv -> list kv) (range : list kv) : Z * list kv * list kv :=
  let '(L, R) := partition_equally oracle range in
  match R with
  | [] => (fst (hd (0, 0%nat) L), [], L)      (* pos == range.end(): m_threshold = values[0]; return points.begin() *)
  | _ :: _ => ((maxkey L + minkey R) / 2, L, R)   (* m_threshold = 0.5*(maximum + minimum) *)
  end.

(* ---------------------------------------------------------------------------------------- *)
(* KDTree::buildTree with the default TreeConstruction().  `fuel` stands for the depth limit
   (0xffffffff in the C++, decremented per level); kd_build starts with the number of points, which is
   never used up (C17BuildProofs.build_fuel_enough). *)
Fixpoint build (fuel : nat) (data : list point) (oracle : list kv -> list kv) (elems : list nat) : tree :=
  match fuel with
  | O => Leaf elems                                           (* tc.maxDepth() == 0 *)
  | S f =>
      if (length elems <=? 1)%nat then Leaf elems              (* m_size <= tc.maxBucketSize() *)
      else
        let cd := cutting_dim data elems in
        if (cd =? dim_of data elems)%nat then Leaf elems       (* m_cutDim == front point .size(): extent 0 *)
        else
          let range := map (fun i => (coord (pt data i) cd, i)) elems in   (* distance[i] = point[m_cutDim] *)
          let '(thr, L, R) := split_list oracle range in
          Node cd thr (build f data oracle (map snd L)) (build f data oracle (map snd R))
  end.

(* KDTree(dataset): elements = 0 .. n-1 *)
Definition kd_build (data : list point) (oracle : list kv -> list kv) : tree :=
  build (length data) data oracle (seq 0 (length data)).

(* ---------------------------------------------------------------------------------------- *)
(* executable check of the median property of one oracle answer (run on every recorded arrangement) *)
Definition median_okb (mp : nat) (r : list kv) : bool :=
  match nth_error r mp with
  | None => true
  | Some e => forallb (fun x => fst x <=? fst e) (firstn mp r) && forallb (fun x => fst e <=? fst x) (skipn mp r)
  end.

(* ---------------------------------------------------------------------------------------- *)
(* hypotheses of the construction theorems *)
(* the post-condition of std::nth_element(begin, begin+medianPos, end) on a range of key/value
   pairs: a rearrangement of the input; the element at the median position is not smaller than
   any element before it and not larger than any element behind it. *)
Definition median_prop (mp : nat) (r : list kv) : Prop :=
  forall e, nth_error r mp = Some e ->
    Forall (fun x => fst x <= fst e) (firstn mp r) /\ Forall (fun x => fst e <= fst x) (skipn mp r).

Definition nth_spec (l r : list kv) : Prop :=
  Permutation l r /\ median_prop (median_pos (length l)) r.

Definition oracle_ok (oracle : list kv -> list kv) : Prop := forall l, nth_spec l (oracle l).

(* all points of the data set have the same number of coordinates *)
Definition uniform (dim : nat) (data : list point) : Prop := Forall (fun p => length p = dim) data.

(* a total oracle: insertion sort by key (shows that the hypotheses of the theorems are satisfiable) *)
Fixpoint kinsert (e : kv) (l : list kv) : list kv :=
  match l with
  | [] => [e]
  | h :: t => if fst e <=? fst h then e :: l else h :: kinsert e t
  end.
Fixpoint ksort (l : list kv) : list kv :=
  match l with [] => [] | e :: t => kinsert e (ksort t) end.

(* two trees with the same cuts whose leaves hold the same index sets *)
Fixpoint tree_equiv (a b : tree) : Prop :=
  match a, b with
  | Leaf i, Leaf j => Permutation i j
  | Node c t l r, Node c' t' l' r' => c = c' /\ t = t' /\ tree_equiv l l' /\ tree_equiv r r'
  | _, _ => False
  end.
