(* C15 — PCA::setData / encoder / decoder AS CODED (src/Algorithms/PCA.cpp): executable model over Q, definitions only.

   The symmetric eigen-decomposition (remora symm_eigenvalue_decomposition = syev) is an explicit ORACLE
       eig : size -> matrix -> (Q, D)          (eigen.Q() with the eigenvectors as COLUMNS, eigen.D())
   with the contract [eig_contract] (C15PcaProofs.v uses it as hypothesis, tools/c15.py evaluates it on every run on the values
   the real decomposition returned, and the driver runs this model with exactly those values as the oracle's answer).
   std::sqrt is the parameter [sq]; the model carries the GHOST list of the values the run took the square root of (not in the
   C++): the theorems ask sq to be exact on exactly these values.  epsm = std::numeric_limits<double>::epsilon(), cut = the
   double 1.e-15 of encoder()/decoder().  Qred (reduction to lowest terms, Qred q == q) only keeps the numbers of the extracted
   program small; it has no counterpart in the C++ and no influence on the value.

   setData, AUTO:  m_n > m_l  ->  SMALL_SAMPLE, else STANDARD.
     STANDARD      S = covariance (meanvar, matrix form, 1/n);  m_eigenvectors = eigen.Q(); m_eigenvalues = eigen.D().
     SMALL_SAMPLE  m_mean = mean; S = X0 X0^T / m_l  (X0 = rows minus the mean; the code fills S block-wise over the pairs of
                   batches - entry (a,b) is the inner product of the centred elements a and b whatever the batch partition, this
                   index book-keeping is not modelled, the tie runs several partitions); eigen(S);
                   m_eigenvectors = X0^T U (accumulated over the batches); threshold = m_n * eps * max(D(0),0);
                   for i = 0..m_l-1:  D(i) > threshold: column i /= norm_2(column i)
                                      else D(i) = 0; best = first unit vector with the largest residual
                                           1 - |row j restricted to the columns < i|^2 (start -1, strict >);
                                           direction = e_best, two passes of  direction -= <direction, col k> col k  (k < i);
                                           column i = direction / norm_2(direction)           (repair 3057e109)
   encoder(m) / decoder(m): m = 0 -> min(m_n, m_l); A = first m columns transposed, offset = -A mean; whitening divides row i
   and offset i by sqrt(D(i)) unless D(i) <= 1e-15 D(0) (row and offset cleared); decoder: columns times sqrt(D(i)) resp.
   cleared, offset = mean. *)
From Coq Require Import List Arith Bool QArith.
From SharkV Require Import ListAux C03Model C15Model.
Import ListNotations.
Open Scope Q_scope.

Definition vecq := nat -> Q.
Definition matq := nat -> nat -> Q.

(* ---------- tabulation (execution speed only; pointwise the identity: C15PcaProofs.memoq_eq / memo2q_eq) ---------- *)
Definition tabq (n : nat) (x : vecq) : list Q := map x (seq 0 n).
Definition memo_lq (n : nat) (l : list Q) (x : vecq) : vecq := fun i => if (i <? n)%nat then nth i l 0 else x i.
Definition memoq (n : nat) (x : vecq) : vecq := memo_lq n (tabq n x) x.
Definition memo2_lq (r c : nat) (rows : list (list Q)) (M : matq) : matq :=
  fun i j => if ((i <? r)%nat && (j <? c)%nat)%bool then nth j (nth i rows []) 0 else M i j.
Definition memo2q (r c : nat) (M : matq) : matq := memo2_lq r c (map (fun i => tabq c (M i)) (seq 0 r)) M.

Definition qltb (a b : Q) : bool := negb (Qle_bool b a).                (* a < b *)
Definition qmax0 (x : Q) : Q := if qltb x 0 then 0 else x.              (* std::max(x, 0.0) = (x < 0) ? 0 : x *)
Definition set_col (V : matq) (i : nat) (c : vecq) : matq := fun j k => if (k =? i)%nat then c j else V j k.
Definition set_at (v : vecq) (i : nat) (x : Q) : vecq := fun k => if (k =? i)%nat then x else v k.

(* contract of the oracle on the n x n matrix S: orthogonal Q (both products), eigen-equation, non-increasing order *)
Definition eig_contract (n : nat) (M U : matq) (Dv : vecq) : Prop :=
  (forall i k, (i < n)%nat -> (k < n)%nat -> gram n U i k == delta i k) /\
  (forall a b, (a < n)%nat -> (b < n)%nat -> sumn n (fun i => U a i * U b i) == delta a b) /\
  (forall i a, (i < n)%nat -> (a < n)%nat -> sumn n (fun b => M a b * U b i) == Dv i * U a i) /\
  (forall i, (S i < n)%nat -> Dv (S i) <= Dv i).

(* best unit vector: for(j = 0; j != n; ++j) if(residual > bestResidual) {bestResidual = residual; best = j;} *)
Fixpoint best_scan (res : vecq) (n : nat) : nat * Q :=
  match n with
  | O => (O, - (1))
  | S n' => let br := best_scan res n' in if qltb (snd br) (res n') then (n', res n') else br
  end.

(* direction -= inner_prod(direction, column k) * column k *)
Definition mgs_step (d : nat) (V : matq) (k : nat) (dir : vecq) : vecq :=
  let c := sumn d (fun j => dir j * V j k) in memoq d (fun j => Qred (dir j - c * V j k)).
Fixpoint mgs_pass (d : nat) (V : matq) (i : nat) (dir : vecq) : vecq :=
  match i with O => dir | S i' => mgs_step d V i' (mgs_pass d V i' dir) end.

Section Pca.
Variable sq : Q -> Q.
Variable eig : nat -> matq -> matq * vecq.
Variable epsm : Q.
Variable cut : Q.

Definition pstate := (matq * vecq * list Q)%type.        (* m_eigenvectors (d x l), m_eigenvalues, ghost *)

(* one iteration of the normalisation loop of the small-sample branch *)
Definition ss_step (d l : nat) (thr : Q) (i : nat) (st : pstate) : pstate :=
  match st with
  | (V, ev, met) =>
    if qltb thr (ev i) then
      let v := gram d V i i in
      let nr := sq v in
      (memo2q d l (set_col V i (fun j => Qred (V j i / nr))), ev, met ++ [v])
    else
      let res := memoq d (fun j => 1 - sumn i (fun k => V j k * V j k)) in
      let best := fst (best_scan res d) in
      let dir := mgs_pass d V i (mgs_pass d V i (fun j => delta best j)) in
      let v := sumn d (fun j => dir j * dir j) in
      let nr := sq v in
      (memo2q d l (set_col V i (fun j => Qred (dir j / nr))), set_at ev i 0, met ++ [v])
  end.
Fixpoint ss_loop (d l : nat) (thr : Q) (n : nat) (st : pstate) : pstate :=
  match n with O => st | S n' => ss_step d l thr n' (ss_loop d l thr n' st) end.

(* X0: element a minus the mean *)
Definition cen (d : nat) (D : @data (list Q)) : matq :=
  let mu := memoq d (fun j => mean (feat j) D) in
  let xs := elems D in
  memo2q (nelems D) d (fun a j => feat j (nth a xs []) - mu j).
(* S = X0 X0^T / m_l *)
Definition ss_gram (d l : nat) (cnt : Q) (X0 : matq) : matq :=
  memo2q l l (fun a b => sumn d (fun j => X0 a j * X0 b j) / cnt).
(* X0^T U *)
Definition ss_back (d l : nat) (X0 U : matq) : matq := memo2q d l (fun j i => sumn l (fun a => X0 a j * U a i)).
Definition ss_threshold (d : nat) (ev0 : Q) : Q := inject_Z (Z.of_nat d) * epsm * qmax0 ev0.

Definition pca_small (d : nat) (D : @data (list Q)) : pstate :=
  let l := nelems D in
  let X0 := cen d D in
  match eig l (ss_gram d l (count D) X0) with
  | (U, Dv) => ss_loop d l (ss_threshold d (Dv O)) l (ss_back d l X0 U, Dv, [])
  end.
Definition pca_cov (d : nat) (D : @data (list Q)) : matq := memo2q d d (fun j l => cov (feat j) (feat l) D).
Definition pca_std (d : nat) (D : @data (list Q)) : pstate :=
  match eig d (pca_cov d D) with (U, Dv) => (U, Dv, []) end.
(* AUTO: if(m_n > m_l) SMALL_SAMPLE else STANDARD *)
Definition pca_setdata (d : nat) (D : @data (list Q)) : pstate :=
  if (nelems D <? d)%nat then pca_small d D else pca_std d D.
Definition pca_mean (d : nat) (D : @data (list Q)) : vecq := memoq d (fun j => mean (feat j) D).

(* if(!m) m = std::min(m_n, m_l) *)
Definition pca_m (d l m : nat) : nat := if (m =? 0)%nat then Nat.min d l else m.
Definition pca_cleared (ev : vecq) (a : nat) : bool := Qle_bool (ev a) (cut * ev O).
(* encoder: (A, offset), rows a < m *)
Definition pca_encoder (wh : bool) (d : nat) (V : matq) (ev mu : vecq) : matq * vecq :=
  let off := fun a => - sumn d (fun j => V j a * mu j) in
  if wh then
    (fun a j => if pca_cleared ev a then 0 else V j a / sq (ev a),
     fun a => if pca_cleared ev a then 0 else off a / sq (ev a))
  else (fun a j => V j a, off).
(* decoder: (A, offset), columns a < m *)
Definition pca_decoder (wh : bool) (V : matq) (ev mu : vecq) : matq * vecq :=
  if wh then (fun j a => if pca_cleared ev a then 0 else V j a * sq (ev a), mu)
  else (V, mu).
(* the ghost of encoder()/decoder() with whitening: the eigenvalues the square root is taken of *)
Definition pca_wh_met (m : nat) (ev : vecq) : list Q :=
  map ev (filter (fun a => negb (pca_cleared ev a)) (seq 0 m)).

(* a linear model  A x + b  applied to a vector given as function *)
Definition apply_enc (d : nat) (E : matq * vecq) (a : nat) (x : vecq) : Q := sumn d (fun j => fst E a j * x j) + snd E a.
Definition apply_dec (m : nat) (Dc : matq * vecq) (j : nat) (z : vecq) : Q := sumn m (fun a => fst Dc j a * z a) + snd Dc j.

End Pca.
