(* C19 — an exported CSV file whose line ends were converted from LF to CR LF imports to the same result
   (unlabelled and regression files, separator character; chars_ok as in C19RoundTrip.v, comment character not CR). *)
From Coq Require Import List Arith ZArith NArith Bool Lia.
From SharkV Require Import ListAux C03Model C19Model C19Proofs C19RoundTrip C19Lines.
Import ListNotations.
Local Open Scope N_scope.

Lemma crlf_app a b : crlf (a ++ b) = crlf a ++ crlf b.
Proof. unfold crlf. apply flat_map_app. Qed.

Lemma crlf_id s : Forall (fun c => (c =? 10) = false) s -> crlf s = s.
Proof. induction 1 as [|c s Hc _ IH]; [reflexivity|]. cbn. rewrite Hc. cbn. f_equal. exact IH. Qed.

Lemma digits_no_nl ds : digits ds -> Forall (fun c => (c =? 10) = false) ds.
Proof.
  intros D. eapply Forall_impl; [|exact D]. intros c Hc. cbn beta in Hc. apply N.eqb_neq. intros ->. discriminate.
Qed.

Lemma print_sign_no_nl sg : Forall (fun c => (c =? 10) = false) (print_sign sg).
Proof. destruct sg as [[|]|]; repeat constructor. Qed.

Lemma print_num_no_nl v : sci_tok v -> Forall (fun c => (c =? 10) = false) (print_num v).
Proof.
  destruct v as [sg ip [|] fp [[es ed]|]| | |]; cbn [sci_tok]; try contradiction.
  intros (_ & Dip & Dfp & _ & Ded & _). cbn [print_num].
  apply Forall_app; split; [apply print_sign_no_nl|].
  apply Forall_app; split; [apply digits_no_nl; assumption|].
  apply Forall_app; split.
  - constructor; [reflexivity|apply digits_no_nl; assumption].
  - constructor; [reflexivity|]. apply Forall_app; split; [apply print_sign_no_nl|apply digits_no_nl; assumption].
Qed.

Section Crlf.
Variables sep cm : byte.
Hypothesis OK : chars_ok sep cm.
Hypothesis CR : (cm =? 13) = false.

Lemma sep_no_nl : (sep =? 10) = false.
Proof. destruct OK as (_ & S & _). apply N.eqb_neq. intros ->. discriminate. Qed.
Lemma sep_not_cr : (13 =? sep) = false.
Proof. destruct OK as (_ & S & _). apply N.eqb_neq. intros <-. discriminate. Qed.

Lemma body_no_nl r : Forall sci_tok r -> Forall (fun c => (c =? 10) = false) (body sep r).
Proof.
  intros T. destruct r as [|v vs]; [constructor|]. unfold body. rewrite join_cons. inversion T as [|? ? Tv Tvs]; subst.
  apply Forall_app; split; [apply print_num_no_nl; exact Tv|]. clear T Tv.
  unfold tail_text. induction Tvs as [|w ws Tw _ IH]; [constructor|]. cbn [map concat].
  apply Forall_app; split; [|exact IH]. constructor; [exact sep_no_nl|apply print_num_no_nl; exact Tw].
Qed.

(* the exported text with CR LF line ends *)
Definition export_crlf (rows : list (list num)) : list byte := concat (map (fun r => body sep r ++ [13; 10]) rows).

Lemma export_crlf_cons r rows : export_crlf (r :: rows) = body sep r ++ 13 :: 10 :: export_crlf rows.
Proof. unfold export_crlf. cbn [map concat]. rewrite <- app_assoc. reflexivity. Qed.

Lemma crlf_export rows : Forall (good_row) rows -> crlf (export_data sep rows) = export_crlf rows.
Proof.
  induction 1 as [|r rows (_ & T) _ IH]; [reflexivity|].
  rewrite (export_cons sep), export_crlf_cons, crlf_app. rewrite (crlf_id _ (body_no_nl r T)).
  f_equal. change (10 :: export_data sep rows) with ([10] ++ export_data sep rows). rewrite crlf_app, IH. reflexivity.
Qed.

Lemma sk_cr r : sk cm (13 :: r) = 13 :: r.
Proof.
  unfold sk. cbn [skipc]. replace (is_space 13 && (false || negb (is_eolc 13))) with false by reflexivity.
  rewrite N.eqb_sym, CR. reflexivity.
Qed.

Lemma nodigit_tail_cr vs rest : nodigit_head (tail_text sep vs ++ 13 :: rest).
Proof. destruct OK as (A & _). destruct vs; cbn; [reflexivity|exact A]. Qed.

Lemma cells_sep_print_cr vs : forall fuel rest, (length vs < fuel)%nat -> Forall sci_tok vs ->
  cells_sep cm sep fuel (tail_text sep vs ++ 13 :: rest) = (vs, 13 :: rest).
Proof.
  destruct OK as (A & S & Z & SC & _).
  induction vs as [|v vs IH]; intros fuel rest Hf T.
  - destruct fuel as [|f]; [lia|]. cbn [tail_text map concat app cells_sep].
    rewrite (sk_cr rest). rewrite sep_not_cr. reflexivity.
  - destruct fuel as [|f]; [cbn in Hf; lia|]. inversion T as [|? ? Tv Tvs]; subst.
    change (tail_text sep (v :: vs)) with ((sep :: print_num v) ++ tail_text sep vs).
    rewrite <- app_assoc. cbn [app cells_sep].
    rewrite (sk_nonblank cm sep _ S SC). rewrite N.eqb_refl.
    rewrite (cell_sep_print sep cm OK v _ Tv (nodigit_tail_cr vs rest)).
    rewrite (IH f rest ltac:(cbn in Hf; lia) Tvs). reflexivity.
Qed.

Lemma row_sep_print_cr v vs rest : Forall sci_tok (v :: vs) ->
  row_sep cm sep (body sep (v :: vs) ++ 13 :: rest) = Some (v :: vs, 13 :: rest).
Proof.
  intros T. inversion T as [|? ? Tv Tvs]; subst. unfold body. rewrite join_cons, <- app_assoc.
  unfold row_sep. rewrite (cell_sep_print sep cm OK v _ Tv (nodigit_tail_cr vs rest)).
  rewrite cells_sep_print_cr; [reflexivity| |exact Tvs].
  rewrite app_length. pose proof (tail_text_length sep vs). lia.
Qed.

Lemma export_crlf_length rows : (length rows <= length (export_crlf rows))%nat.
Proof.
  induction rows as [|r rows IH]; [cbn; lia|]. rewrite export_crlf_cons, app_length. cbn [length]. lia.
Qed.

Lemma rows_list_print_cr rows : forall fuel, (length rows < fuel)%nat -> Forall good_row rows ->
  rows_list cm (row_sep cm sep) fuel (13 :: 10 :: export_crlf rows) = (rows, [13; 10]).
Proof.
  induction rows as [|r rows IH]; intros fuel Hf G; (destruct fuel as [|f]; [cbn in Hf; lia|]).
  - change (export_crlf []) with (@nil N). cbn [rows_list]. unfold eol_sk. rewrite (sk_cr [10]). cbn [eol].
    replace (13 =? 13) with true by reflexivity. replace (10 =? 10) with true by reflexivity.
    rewrite (row_sep_nil sep cm). reflexivity.
  - inversion G as [|? ? (NE & T) Gs]; subst. destruct r as [|v vs]; [contradiction|].
    cbn [rows_list]. unfold eol_sk. rewrite (sk_cr _). cbn [eol].
    replace (13 =? 13) with true by reflexivity. replace (10 =? 10) with true by reflexivity.
    rewrite export_crlf_cons. rewrite (row_sep_print_cr v vs _ T).
    rewrite (IH f ltac:(cbn in Hf; lia) Gs). reflexivity.
Qed.

Theorem read_values_export_crlf rows : rows <> [] -> Forall good_row rows ->
  read_values cm sep (crlf (export_data sep rows)) = Some rows.
Proof.
  intros NE G. rewrite (crlf_export rows G). destruct OK as (_ & S & Z & _).
  unfold read_values, ws_mode. rewrite S, Z. cbn [orb].
  destruct rows as [|r rows]; [contradiction|]. inversion G as [|? ? (NEr & T) Gs]; subst.
  destruct r as [|v vs]; [contradiction|].
  unfold file_list. rewrite export_crlf_cons. rewrite (row_sep_print_cr v vs _ T).
  rewrite rows_list_print_cr; [| |exact Gs].
  2:{ rewrite app_length. cbn [length]. pose proof (export_crlf_length rows). lia. }
  cbn [eols]. unfold eol_sk. rewrite (sk_cr [10]). cbn [eol].
  replace (13 =? 13) with true by reflexivity. replace (10 =? 10) with true by reflexivity.
  destruct (length (body sep (v :: vs) ++ 13 :: 10 :: export_crlf rows)); reflexivity.
Qed.

(* the importers see the same rows, hence return the same result, for every batch size *)
Theorem crlf_data_import rows m : rows <> [] -> Forall good_row rows ->
  csv_import_data sep cm m (crlf (export_data sep rows)) = csv_import_data sep cm m (export_data sep rows).
Proof.
  intros NE G. unfold csv_import_data.
  rewrite (read_values_export_crlf rows NE G), (read_values_export sep cm OK rows NE G). reflexivity.
Qed.

Theorem crlf_reg_import first nout rows m : rows <> [] ->
  Forall (fun r => fst r ++ snd r <> [] /\ Forall sci_tok (fst r) /\ Forall sci_tok (snd r)) rows ->
  csv_import_reg first nout sep cm m (crlf (export_reg first sep rows)) = csv_import_reg first nout sep cm m (export_reg first sep rows).
Proof.
  intros NE F. rewrite export_reg_as_data. set (mrows := map (merge first) rows).
  assert (G : Forall good_row mrows).
  { apply Forall_forall. intros r Hr. apply in_map_iff in Hr. destruct Hr as (x & <- & Hx). rewrite Forall_forall in F.
    destruct (F x Hx) as (A & B & C). unfold merge. destruct first; split; try (apply Forall_app; auto).
    - exact A.
    - intros E. apply app_eq_nil in E. destruct E as (E1 & E2). apply A. rewrite E1, E2. reflexivity. }
  assert (NEm : mrows <> []). { unfold mrows. destruct rows; [contradiction|discriminate]. }
  unfold csv_import_reg.
  rewrite (read_values_export_crlf mrows NEm G), (read_values_export sep cm OK mrows NEm G). reflexivity.
Qed.
End Crlf.
