(* C05 — derivatives of the composed kernels (ARD, Normalized, WeightedSum, Subrange, Model) and a compositional
   derivative specification.  Axiom-free, for every ordered field; continues C05Aux.v (same dual-number device).

   DOK Dir Pt n m K k g p   ("the coded derivatives g, p of the kernel k are the tangents of the model code K") says:
   for every parameter direction dth (length m), all points x, z (length n, in the domain Pt) and all input directions
   dx, dz (length n, in Dir), the model code K run on the dual numbers (parameters + eps dth, x + eps dx, z + eps dz) has
       value    k x z                                                   (the model kernel itself)
       tangent  <p x z, dth> + <g x z, dx> + <g z x, dz>                (the CODED gradients, g w.r.t. the first argument)
   and g x z, p x z have lengths n, m.  K is always the SAME Gallina code as the kernel (k_norm, k_wsum, k_ard, ... of
   C05Model.v) instantiated with dual numbers; only the lifting of the uninterpreted exp / sqrt / division to dual
   numbers is defined here (dexp in C05Aux; ddiv, dsqrt below, each with a lemma that it is THE dual solution of
   q*r = p resp. r*r = p).  Dir = all directions for kernels with a coded input derivative; Dir = zero directions only
   for ModelKernel (no coded input derivative).  DOK is closed under the kernel combinators (the lemmas named DOK_...), and
   wid_of_DOK / wpdv_of_DOK turn it into the statement about the batch routines. *)
From Coq Require Import List Arith Bool Field Ring Lia.
From SharkV Require Import C03Model C05Model C05Proofs C05Aux.
Import ListNotations.

Section Deriv.
Variable A : Type.
Variables (zero one : A) (add mul sub div : A -> A -> A) (opp inv : A -> A) (le : A -> A -> Prop).
Variables (sqrtA expA : A -> A).
Hypothesis OF : OrdField zero one add mul sub div opp inv le.

Definition FT3 := of_field _ _ _ _ _ _ _ _ _ OF.
Add Field Ff3 : FT3.

Declare Scope H_scope.
Delimit Scope H_scope with H.
Notation "0" := zero : H_scope.
Notation "1" := one : H_scope.
Infix "+" := add : H_scope.
Infix "*" := mul : H_scope.
Infix "-" := sub : H_scope.
Infix "/" := div : H_scope.
Local Open Scope H_scope.

Notation lsumA := (lsum A zero add).
Notation dotA := (dot A zero add mul).
Notation powA := (pow A one mul).
Notation distsqA := (distsq A zero add mul sub).
Notation wdistsqA := (wdistsq A zero add mul sub).
Notation ofnatA := (ofnat A zero one add).
Notation twoA := (two A one add).
Notation vec := (list A).
Notation mat := (list (list A)).
Notation vscaleA := (vscale A mul).
Notation vaddA := (vadd A add).
Notation vsumA := (vsum A zero add).
Notation zipwA := (zipw A).
Notation lsum_ext := (lsum_map_ext A zero add).
Notation subvecA := (subvec A).

Notation D := (D A).
Notation dzero := (dzero A zero).
Notation done := (done A zero one).
Notation dadd := (dadd A add).
Notation dmul := (dmul A add mul).
Notation dsub := (dsub A sub).
Notation dopp := (dopp A opp).
Notation dexp := (dexp A mul expA).
Notation cstv := (cstv A zero).
Notation dotD := (dot D dzero dadd dmul).
Notation powD := (pow D done dmul).
Notation distsqD := (distsq D dzero dadd dmul dsub).
Notation wdistsqD := (wdistsq D dzero dadd dmul dsub).
Notation zeros := (repeat zero).

Notation dot_symA := (dot_sym A zero one add mul sub div opp inv le OF).
Notation dot_vscaleA := (dot_vscale A zero one add mul sub div opp inv le OF).
Notation dot_vaddA := (dot_vadd A zero one add mul sub div opp inv le OF).
Notation dot_zerosA := (dot_zeros A zero one add mul sub div opp inv le OF).
Notation dot_vsumA := (dot_vsum A zero one add mul sub div opp inv le OF).
Notation vsum_lengthA := (vsum_length A zero add).
Notation vadd_lengthA := (vadd_length A add).
Notation vscale_lengthA := (vscale_length A mul).
Notation zipw_lengthA := (zipw_length A).

(* ------------------------------------------------------------------ division and square root on dual numbers *)
Definition ddiv (p q : D) : D := (fst p / fst q, (snd p * fst q - fst p * snd q) / (fst q * fst q)).
Definition dsqrt (p : D) : D := (sqrtA (fst p), snd p / (twoA * sqrtA (fst p))).

(* ddiv p q is the dual number r with r * q = p *)
Lemma ddiv_sound (p q : D) : fst q <> 0 -> dmul (ddiv p q) q = p.
Proof.
  intros H. destruct p as [a a'], q as [b b']. unfold C05Aux.dmul, ddiv. cbn [fst snd] in *. f_equal; field; auto.
Qed.
Lemma ddiv_unique (p q r : D) : fst q <> 0 -> dmul r q = p -> r = ddiv p q.
Proof.
  intros H E. destruct p as [a a'], q as [b b'], r as [c c']. unfold C05Aux.dmul, ddiv in *. cbn [fst snd] in *.
  inversion E; subst. f_equal; field; auto.
Qed.
(* dsqrt p is the dual number r with r * r = p whose value is sqrtA (fst p) (for arguments where sqrtA is a square root) *)
Lemma dsqrt_sound (p : D) : sqrtA (fst p) * sqrtA (fst p) = fst p -> sqrtA (fst p) <> 0 -> twoA <> 0 -> dmul (dsqrt p) (dsqrt p) = p.
Proof.
  intros S N T. destruct p as [a a']. unfold C05Aux.dmul, dsqrt, C05Model.two in *. cbn [fst snd] in *. f_equal; [auto|].
  field. split; auto.
Qed.
Lemma dsqrt_unique (p r : D) : fst r = sqrtA (fst p) -> sqrtA (fst p) <> 0 -> twoA <> 0 -> dmul r r = p -> r = dsqrt p.
Proof.
  intros F N T E. destruct p as [a a'], r as [c c']. unfold C05Aux.dmul, dsqrt, C05Model.two in *. cbn [fst snd] in *.
  subst c. injection E as E1 E2. f_equal. rewrite <- E2. field. split; auto.
Qed.

(* ------------------------------------------------------------------ list facts *)
Lemma cstv_combine (z : vec) : cstv z = combine z (zeros (length z)).
Proof. unfold C05Aux.cstv. induction z; simpl; auto. rewrite IHz. auto. Qed.

Lemma dot_zeros_r (v : vec) n : dotA v (zeros n) = 0.
Proof. rewrite dot_symA. apply dot_zerosA. Qed.

Lemma dot_nil_r (v : vec) : dotA v [] = 0.
Proof. destruct v; auto. Qed.

Lemma dot_app (u v w : vec) : dotA (u ++ v) w = dotA u (firstn (length u) w) + dotA v (skipn (length u) w).
Proof.
  revert w. induction u; intros w; simpl.
  - ring.
  - destruct w; simpl.
    + rewrite dot_nil_r. destruct (u ++ v); simpl; ring.
    + rewrite IHu. ring.
Qed.

Lemma dot_firstn (u w : vec) : dotA u (firstn (length u) w) = dotA u w.
Proof. revert w. induction u; intros w; simpl; auto. destruct w; simpl; auto. rewrite IHu. auto. Qed.

Lemma skipn_combine {S T} n : forall (l : list S) (l' : list T), skipn n (combine l l') = combine (skipn n l) (skipn n l').
Proof.
  induction n; intros l l'; simpl; auto. destruct l; simpl; auto. destruct l'; simpl; auto.
  destruct (skipn n l); auto.
Qed.

Lemma subvec_combine {S T} a b (l : list S) (l' : list T) :
  subvec (S * T) a b (combine l l') = combine (subvec S a b l) (subvec T a b l').
Proof. unfold subvec. rewrite skipn_combine, combine_firstn. auto. Qed.

Lemma subvec_len {S} a b (x : list S) : (a <= b)%nat -> (b <= length x)%nat -> length (subvec S a b x) = (b - a)%nat.
Proof. intros. unfold subvec. rewrite firstn_length, skipn_length. lia. Qed.

Lemma combine_fst_snd {S T} (l : list (S * T)) : l = combine (map fst l) (map snd l).
Proof. induction l as [|[a b] l]; simpl; auto. f_equal. auto. Qed.

(* ------------------------------------------------------------------ dual inner products and distances, both arguments perturbed *)
Lemma dotD_both x : forall dx z dz, length x = length dx -> length z = length dz ->
  fst (dotD (combine x dx) (combine z dz)) = dotA x z /\
  snd (dotD (combine x dx) (combine z dz)) = dotA dx z + dotA x dz.
Proof.
  induction x; destruct dx; simpl; intros z dz H1 H2; try discriminate; [split; [auto|ring]|].
  destruct z, dz; simpl in *; try discriminate; [split; [auto|ring]|].
  destruct (IHx dx z dz) as [E1 E2]; try lia. rewrite E1, E2. split; ring.
Qed.

Lemma distsqD_both x : forall dx z dz, length x = length dx -> length z = length dz ->
  fst (distsqD (combine x dx) (combine z dz)) = distsqA x z /\
  snd (distsqD (combine x dx) (combine z dz)) = twoA * dotA (zipwA sub x z) dx + twoA * dotA (zipwA sub z x) dz.
Proof.
  unfold C05Model.two.
  induction x; destruct dx; simpl; intros z dz H1 H2; try discriminate.
  - split; [auto|]. destruct z; simpl; ring.
  - destruct z, dz; simpl in *; try discriminate; [split; [auto|ring]|].
    destruct (IHx dx z dz) as [E1 E2]; try lia. rewrite E1, E2. split; ring.
Qed.

(* ------------------------------------------------------------------ the specification *)
Notation kD := (list D -> list D -> D).
Definition DirAll : vec -> Prop := fun _ => True.
Definition DirZero : vec -> Prop := fun dx => dx = zeros (length dx).

Definition DOK (Dir Pt : vec -> Prop) (n m : nat) (K : vec -> kD) (k : vec -> vec -> A) (g p : vec -> vec -> vec) : Prop :=
  forall dth x dx z dz, length dth = m -> length x = n -> length dx = n -> length z = n -> length dz = n ->
    Dir dx -> Dir dz -> Pt x -> Pt z ->
    fst (K dth (combine x dx) (combine z dz)) = k x z /\
    snd (K dth (combine x dx) (combine z dz)) = dotA (p x z) dth + dotA (g x z) dx + dotA (g z x) dz /\
    length (g x z) = n /\ length (p x z) = m.

Lemma DOK_weaken (Dir Dir' Pt Pt' : vec -> Prop) n m K k g p :
  (forall v, Dir' v -> Dir v) -> (forall v, Pt' v -> Pt v) -> DOK Dir Pt n m K k g p -> DOK Dir' Pt' n m K k g p.
Proof. intros H1 H2 H dth x dx z dz; intros. apply H; auto. Qed.

(* ------------------------------------------------------------------ leaves *)
Variable isz : A -> bool.
Hypothesis isz_spec : forall a, isz a = true <-> a = zero.
Notation safe_divA := (safe_div A zero div isz).
Notation k_linA := (k_lin A zero add mul).
Notation k_polyA := (k_poly A zero one add mul).
Notation k_monoA := (k_mono A zero one add mul).
Notation k_gaussA := (k_gauss A zero add mul sub opp expA).
Notation k_ardA := (k_ard A zero add mul sub opp expA).
Notation g_polyA := (g_poly A zero one add mul div isz).
Notation g_monoA := (g_mono A zero one add mul div isz).
Notation g_gaussA := (g_gauss A zero one add mul sub opp expA).
Notation g_ardA := (g_ard A zero one add mul sub opp expA).
Notation p_polyA := (p_poly A zero one add mul div isz).
Notation p_gaussA := (p_gauss A zero add mul sub opp expA).
Notation p_ardA := (p_ard A zero add mul sub opp expA).
Notation p_oneA := (p_one A).
Notation p_noneA := (p_none A).
Notation g_scaledA := (g_scaled A mul).

Definition K_lin : vec -> kD := fun _ => k_lin D dzero dadd dmul.
Theorem DOK_lin Dir Pt n : DOK Dir Pt n 0 K_lin k_linA (g_lin A) p_noneA.
Proof.
  intros dth x dx z dz Lth Lx Ldx Lz Ldz _ _ _ _. unfold K_lin, C05Model.k_lin, C05Model.g_lin, C05Model.p_none.
  destruct (dotD_both x dx z dz) as [E1 E2]; try lia. rewrite E1, E2.
  repeat split; auto. simpl. rewrite (dot_symA dx z). ring.
Qed.

Lemma poly_coef d b : ofnatA d * powA b (d - 1) = (if d =? 1 then 1 else ofnatA d * safe_divA (powA b d) b).
Proof.
  destruct (Nat.eqb_spec d 1) as [->|N]; [simpl; ring|]. destruct d; [simpl; ring|].
  rewrite (safe_div_pow A zero one add mul sub div opp inv le OF isz isz_spec) by lia. reflexivity.
Qed.

Lemma g_poly_dot d c x z w : dotA (g_polyA d c x z) w = (ofnatA d * powA (dotA x z + c) (d - 1)) * dotA z w.
Proof. unfold C05Model.g_poly. rewrite poly_coef. destruct (d =? 1); [ring|]. rewrite dot_vscaleA. ring. Qed.
Lemma g_poly_len d c x z : length (g_polyA d c x z) = length z.
Proof. unfold C05Model.g_poly. destruct (d =? 1); auto. apply vscale_lengthA. Qed.

(* offset c with tangent e * dth_0: e = 1 for the plain encoding, e = c = exp(parameter) for the unconstrained one,
   where the dual offset is dexp (log c, dth_0) = (c, c * dth_0) *)
Definition K_poly (d : nat) (c e : A) : vec -> kD := fun dth => k_poly D dzero done dadd dmul d (c, e * nth 0 dth 0).
Theorem DOK_poly Dir Pt n d c e : DOK Dir Pt n 1 (K_poly d c e) (k_polyA d c) (g_polyA d c) (g_scaledA e (p_oneA (p_polyA d c))).
Proof.
  intros dth x dx z dz Lth Lx Ldx Lz Ldz _ _ _ _. destruct dth as [|t [|]]; try discriminate.
  unfold K_poly, C05Model.k_poly. cbn [nth].
  destruct (dotD_both x dx z dz) as [E1 E2]; try lia.
  destruct (powD_spec A zero one add mul sub div opp inv le OF (dadd (dotD (combine x dx) (combine z dz)) (c, e * t)) d) as [F1 F2].
  rewrite F1, F2. rewrite !(fst_dadd A add), !(snd_dadd A add). cbn [fst snd]. rewrite E1, E2.
  split; [reflexivity|]. split; [|split; [rewrite g_poly_len; auto|reflexivity]].
  rewrite !g_poly_dot. unfold C05Model.g_scaled, C05Model.p_one, C05Model.p_poly. rewrite <- poly_coef. rewrite dot_vscaleA. cbn [dot].
  rewrite (dot_symA z x), (dot_symA dx z). ring.
Qed.

Lemma g_mono_dot d x z w : dotA (g_monoA d x z) w = (ofnatA d * powA (dotA x z) (d - 1)) * dotA z w.
Proof. unfold C05Model.g_mono. rewrite poly_coef. destruct (d =? 1); [ring|]. rewrite dot_vscaleA. ring. Qed.
Lemma g_mono_len d x z : length (g_monoA d x z) = length z.
Proof. unfold C05Model.g_mono. destruct (d =? 1); auto. apply vscale_lengthA. Qed.

Definition K_mono (d : nat) : vec -> kD := fun _ => k_mono D dzero done dadd dmul d.
Theorem DOK_mono Dir Pt n d : DOK Dir Pt n 0 (K_mono d) (k_monoA d) (g_monoA d) p_noneA.
Proof.
  intros dth x dx z dz Lth Lx Ldx Lz Ldz _ _ _ _.
  unfold K_mono, C05Model.k_mono.
  destruct (dotD_both x dx z dz) as [E1 E2]; try lia.
  destruct (powD_spec A zero one add mul sub div opp inv le OF (dotD (combine x dx) (combine z dz)) d) as [F1 F2].
  rewrite F1, F2, E1, E2.
  split; [reflexivity|]. split; [|split; [rewrite g_mono_len; auto|reflexivity]].
  rewrite !g_mono_dot. unfold C05Model.p_none. cbn [dot].
  rewrite (dot_symA z x), (dot_symA dx z). ring.
Qed.

(* gamma with tangent e * dth_0 (e = 1 plain, e = gamma for the unconstrained encoding gamma = exp(parameter)) *)
Definition K_gauss (g e : A) : vec -> kD := fun dth => k_gauss D dzero dadd dmul dsub dopp dexp (g, e * nth 0 dth 0).
Theorem DOK_gauss Dir Pt n g e : DOK Dir Pt n 1 (K_gauss g e) (k_gaussA g) (g_gaussA g) (g_scaledA e (p_oneA (p_gaussA g))).
Proof.
  intros dth x dx z dz Lth Lx Ldx Lz Ldz _ _ _ _. destruct dth as [|t [|]]; try discriminate.
  unfold K_gauss, C05Model.k_gauss. cbn [nth].
  destruct (distsqD_both x dx z dz) as [E1 E2]; try lia.
  rewrite (snd_dexp A mul expA). unfold C05Aux.dexp at 1. cbn [fst].
  rewrite !(fst_dmul A add mul), !(snd_dmul A add mul), !(fst_dopp A opp), !(snd_dopp A opp). cbn [fst snd]. rewrite E1, E2.
  split; [reflexivity|]. split.
  - unfold C05Model.g_gauss, C05Model.g_scaled, C05Model.p_one, C05Model.p_gauss, C05Model.k_gauss.
    rewrite !dot_vscaleA. cbn [dot]. rewrite (distsq_sym A zero one add mul sub div opp inv le OF z x).
    rewrite (zipw_sub_neg A zero one add mul sub div opp inv le OF x z dx), (zipw_sub_neg A zero one add mul sub div opp inv le OF z x dz).
    rewrite (zipw_sub_neg A zero one add mul sub div opp inv le OF x z dz). unfold C05Model.two. ring.
  - split; [|reflexivity]. unfold C05Model.g_gauss. rewrite vscale_lengthA, zipw_lengthA; lia.
Qed.

(* ARD: parameters ps = log gammas; gammas gs = exp ps; dual gammas dexp (ps_i, dth_i) = (gs_i, gs_i * dth_i) *)
Lemma wdistsqD_all ps : forall dth x dx z dz,
  length dth = length ps -> length x = length ps -> length dx = length ps -> length z = length ps -> length dz = length ps ->
  let gs := map expA ps in
  fst (wdistsqD (map dexp (combine ps dth)) (combine x dx) (combine z dz)) = wdistsqA gs x z /\
  snd (wdistsqD (map dexp (combine ps dth)) (combine x dx) (combine z dz))
    = dotA (zipwA mul gs (zipwA (fun a b => (a - b) * (a - b)) x z)) dth
      + twoA * dotA (zipwA mul gs (zipwA sub x z)) dx + twoA * dotA (zipwA mul gs (zipwA sub z x)) dz.
Proof.
  unfold C05Model.two.
  induction ps as [|q ps IH]; intros dth x dx z dz L1 L2 L3 L4 L5; simpl.
  - split; [auto|ring].
  - destruct dth as [|t dth], x as [|a x], dx as [|a' dx], z as [|b z], dz as [|b' dz]; try discriminate. simpl in *.
    destruct (IH dth x dx z dz) as [E1 E2]; try lia. cbv zeta in E1, E2. rewrite E1, E2. split; ring.
Qed.

Definition K_ard (ps : vec) : vec -> kD := fun dth => k_ard D dzero dadd dmul dsub dopp dexp (map dexp (combine ps dth)).
Theorem DOK_ard Dir Pt n ps : length ps = n ->
  DOK Dir Pt n n (K_ard ps) (k_ardA (map expA ps)) (g_ardA (map expA ps)) (p_ardA (map expA ps)).
Proof.
  intros Lp dth x dx z dz Lth Lx Ldx Lz Ldz _ _ _ _.
  unfold K_ard, C05Model.k_ard.
  destruct (wdistsqD_all ps dth x dx z dz) as [E1 E2]; try lia. cbv zeta in E1, E2.
  rewrite (snd_dexp A mul expA). unfold C05Aux.dexp at 1. cbn [fst].
  rewrite !(fst_dopp A opp), !(snd_dopp A opp). rewrite E1, E2.
  split; [reflexivity|]. split.
  - unfold C05Model.g_ard, C05Model.p_ard, C05Model.k_ard. rewrite !dot_vscaleA.
    rewrite (wdistsq_sym A zero one add mul sub div opp inv le OF (map expA ps) z x). unfold C05Model.two. ring.
  - unfold C05Model.g_ard, C05Model.p_ard. rewrite !vscale_lengthA.
    assert (L1 : length (zipwA sub x z) = n) by (rewrite zipw_lengthA; lia).
    assert (L2 : length (zipwA (fun a b : A => (a - b) * (a - b)) x z) = n) by (rewrite zipw_lengthA; lia).
    rewrite !zipw_lengthA; rewrite ?map_length; lia.
Qed.

(* ------------------------------------------------------------------ closure: ScaledKernel *)
Definition K_scaled (f : A) (K : vec -> kD) : vec -> kD := fun dth => k_scaled D dmul (list D) (f, 0) (K dth).
Theorem DOK_scaled Dir Pt n m f K k g p :
  DOK Dir Pt n m K k g p -> DOK Dir Pt n m (K_scaled f K) (k_scaled A mul vec f k) (g_scaledA f g) (g_scaledA f p).
Proof.
  intros H dth x dx z dz Lth Lx Ldx Lz Ldz Dx Dz Px Pz.
  destruct (H dth x dx z dz) as (E1 & E2 & L1 & L2); auto.
  unfold K_scaled, C05Model.k_scaled, C05Model.g_scaled. rewrite (fst_dmul A add mul), (snd_dmul A add mul). cbn [fst snd].
  rewrite E1, E2, !dot_vscaleA, !vscale_lengthA. repeat split; auto. ring.
Qed.

(* ------------------------------------------------------------------ closure: NormalizedKernel *)
Notation k_normA := (k_norm A div sqrtA vec).
Notation g_normA := (g_norm A one add mul div opp sqrtA).
Notation p_normA := (p_norm A one add mul div opp sqrtA).
Definition K_norm (K : vec -> kD) : vec -> kD := fun dth => k_norm D ddiv dsqrt (list D) (K dth).
(* Pt' : the points where sqrtA really is a non-zero square root of the diagonal value k(x,x).  The derivative code divides the
   coefficients by sqrt(kxx)*sqrt(kzz), as the evaluation code does (/repo commit 65eec74d; before, by sqrt(kxx*kzz), which needed
   the extra premise that sqrtA is multiplicative on the diagonal values - DOK_norm keeps that premise in its statement, unused) *)
Theorem DOK_norm_strong (Dir Pt Pt' : vec -> Prop) n m K k g p :
  DOK Dir Pt n m K k g p -> (forall x z, k x z = k z x) -> twoA <> 0 ->
  (forall x, Pt' x -> Pt x /\ sqrtA (k x x) * sqrtA (k x x) = k x x /\ sqrtA (k x x) <> 0) ->
  DOK Dir Pt' n m (K_norm K) (k_normA k) (g_normA k g) (p_normA k p).
Proof.
  intros H Sy T HP dth x dx z dz Lth Lx Ldx Lz Ldz Dx Dz Px Pz.
  destruct (HP x Px) as (Qx & Sx & Nx). destruct (HP z Pz) as (Qz & Sz & Nz).
  destruct (H dth x dx z dz) as (A1 & A2 & A3 & A4); auto.
  destruct (H dth x dx x dx) as (B1 & B2 & B3 & B4); auto.
  destruct (H dth z dz z dz) as (C1 & C2 & C3 & C4); auto.
  destruct (H dth z dz x dx) as (_ & _ & A3' & A4'); auto.
  unfold K_norm, C05Model.k_norm. unfold ddiv, dsqrt. cbn [fst snd]. rewrite A1, A2, B1, B2, C1, C2.
  split; [reflexivity|].
  split; [|split].
  - unfold C05Model.g_norm, C05Model.p_norm.
    rewrite !dot_vaddA by (rewrite ?vadd_lengthA; rewrite !vscale_lengthA; congruence).
    rewrite !dot_vscaleA. rewrite (Sy z x).
    unfold C05Model.two in *.
    set (sx := sqrtA (k x x)) in *. set (sz := sqrtA (k z z)) in *. rewrite <- Sx, <- Sz.
    field. repeat split; auto.
  - unfold C05Model.g_norm. rewrite vadd_lengthA; rewrite !vscale_lengthA; congruence.
  - unfold C05Model.p_norm. rewrite !vadd_lengthA; rewrite ?vadd_lengthA; rewrite !vscale_lengthA; congruence.
Qed.
Theorem DOK_norm (Dir Pt Pt' : vec -> Prop) n m K k g p :
  DOK Dir Pt n m K k g p -> (forall x z, k x z = k z x) -> twoA <> 0 ->
  (forall x, Pt' x -> Pt x /\ sqrtA (k x x) * sqrtA (k x x) = k x x /\ sqrtA (k x x) <> 0) ->
  (forall x z, Pt' x -> Pt' z -> sqrtA (k x x * k z z) = sqrtA (k x x) * sqrtA (k z z)) ->
  DOK Dir Pt' n m (K_norm K) (k_normA k) (g_normA k g) (p_normA k p).
Proof. intros H Sy T HP _. exact (DOK_norm_strong Dir Pt Pt' n m K k g p H Sy T HP). Qed.

(* ------------------------------------------------------------------ closure: SubrangeKernelWrapper *)
Lemma dot_g_sub n a b (v w : vec) : (a <= b)%nat -> (b <= n)%nat -> length v = (b - a)%nat -> length w = n ->
  dotA (zeros a ++ v ++ zeros (n - b)) w = dotA v (subvecA a b w).
Proof.
  intros H1 H2 Lv Lw. rewrite dot_app, repeat_length, dot_zerosA, dot_app, dot_zerosA.
  unfold C05Model.subvec. rewrite <- Lv. ring.
Qed.

Definition K_sub (a b : nat) (K : vec -> kD) : vec -> kD := fun dth => k_sub D a b (K dth).
Theorem DOK_sub (Dir Dir' Pt Pt' : vec -> Prop) n m a b K k g p : (a <= b)%nat -> (b <= n)%nat ->
  DOK Dir' Pt' (b - a) m K k g p ->
  (forall v, length v = n -> Dir v -> Dir' (subvecA a b v)) -> (forall x, length x = n -> Pt x -> Pt' (subvecA a b x)) ->
  DOK Dir Pt n m (K_sub a b K) (k_sub A a b k) (g_sub A zero n a b g) (p_sub A a b p).
Proof.
  intros H1 H2 H HD HP dth x dx z dz Lth Lx Ldx Lz Ldz Dx Dz Px Pz.
  unfold K_sub, C05Model.k_sub, C05Model.k_pull, C05Model.p_sub, C05Model.v_pull, C05Model.g_sub. unfold C05Aux.D. rewrite !subvec_combine.
  destruct (H dth (subvecA a b x) (subvecA a b dx) (subvecA a b z) (subvecA a b dz)) as (E1 & E2 & L1 & L2);
    try (apply subvec_len; lia); auto.
  destruct (H dth (subvecA a b z) (subvecA a b dz) (subvecA a b x) (subvecA a b dx)) as (_ & _ & L1' & _);
    try (apply subvec_len; lia); auto.
  rewrite E1, E2. rewrite !(dot_g_sub n a b) by auto.
  repeat split; auto. rewrite !app_length, !repeat_length, L1. lia.
Qed.

(* ------------------------------------------------------------------ closure: WeightedSumKernel *)
(* one sub-kernel with its number of parameters, dual code, value, coded gradients *)
Record comp := mkComp { c_m : nat; c_K : vec -> kD; c_k : vec -> vec -> A; c_g : vec -> vec -> vec; c_p : vec -> vec -> vec }.
Definition cOK (Dir Pt : vec -> Prop) (n : nat) (c : comp) : Prop := DOK Dir Pt n (c_m c) (c_K c) (c_k c) (c_g c) (c_p c).
Definition msum (cs : list comp) : nat := fold_right (fun c s => (c_m c + s)%nat) 0%nat cs.
(* the sub-kernels take consecutive slices of the parameter direction *)
Fixpoint wsD (wDs : list D) (cs : list comp) (dth : vec) : list (D * kD) :=
  match wDs, cs with
  | wD :: wr, c :: r => (wD, c_K c (firstn (c_m c) dth)) :: wsD wr r (skipn (c_m c) dth)
  | _, _ => []
  end.
(* parameters: log-weights of kernels 2..n (weight 1 of the first kernel is fixed), then the sub-kernels' parameters *)
Definition K_wsum (lws : vec) (cs : list comp) : vec -> kD := fun dth =>
  k_wsum D dzero dadd dmul ddiv (list D)
    (wsD (done :: map dexp (combine lws (firstn (length lws) dth))) cs (skipn (length lws) dth)).

Lemma fst_lsumD l : fst (lsum D dzero dadd l) = lsumA (map fst l).
Proof. induction l; simpl; auto. rewrite IHl. auto. Qed.

Lemma wsD_den cs : forall wDs dth, length wDs = length cs -> map fst (wsD wDs cs dth) = wDs.
Proof. induction cs; intros [|wD wDs] dth H; simpl in *; try discriminate; auto. f_equal. apply IHcs. lia. Qed.

Lemma map_combine_fst {T} (F : A -> comp -> T) (wDs : list D) : forall cs,
  map (fun t => F (fst (fst t)) (snd t)) (combine wDs cs) = map (fun t => F (fst t) (snd t)) (combine (map fst wDs) cs).
Proof. induction wDs; intros [|c cs]; simpl; auto. f_equal. auto. Qed.

Lemma vsum_cons n (v : vec) vs : vsumA n (v :: vs) = vaddA v (vsumA n vs).
Proof. reflexivity. Qed.
Lemma vsum_nil n : vsumA n [] = zeros n.
Proof. reflexivity. Qed.
Lemma lsum_cons a l : lsumA (a :: l) = a + lsumA l.
Proof. reflexivity. Qed.

Lemma dot_vsum_div {T} n (fw : T -> A) (h : T -> vec) W v L : W <> 0 -> (forall t, In t L -> length (h t) = n) ->
  dotA (vsumA n (map (fun t => vscaleA (fw t / W) (h t)) L)) v = dotA (vsumA n (map (fun t => vscaleA (fw t) (h t)) L)) v / W.
Proof.
  intros HW HL. induction L as [|t L IH]; cbn [map]; rewrite ?vsum_cons, ?vsum_nil.
  - rewrite dot_zerosA. field; auto.
  - assert (LL : forall f : T -> A, length (vsumA n (map (fun t => vscaleA (f t) (h t)) L)) = n).
    { intros f. apply vsum_lengthA. rewrite Forall_forall. intros u Hu. apply in_map_iff in Hu. destruct Hu as (t' & <- & Ht').
      rewrite vscale_lengthA. apply HL. right; auto. }
    rewrite !dot_vaddA by (rewrite vscale_lengthA, ?(LL fw), ?(LL (fun t => fw t / W)); apply HL; left; auto).
    rewrite IH by (intros; apply HL; right; auto). rewrite !dot_vscaleA. field; auto.
Qed.

Lemma dot_concat_div {T} (fw : T -> A) (h : T -> vec) W L : W <> 0 -> forall v,
  dotA (concat (map (fun t => vscaleA (fw t / W) (h t)) L)) v = dotA (concat (map (fun t => vscaleA (fw t) (h t)) L)) v / W.
Proof.
  intros HW. induction L as [|t L IH]; intros v; cbn [map concat].
  - simpl. field; auto.
  - rewrite !dot_app, !vscale_lengthA, IH, !dot_vscaleA. field; auto.
Qed.

Section WSum.
Variables (Dir Pt : vec -> Prop) (n : nat).
Variables (x dx z dz : vec).
Hypothesis Lx : length x = n.
Hypothesis Ldx : length dx = n.
Hypothesis Lz : length z = n.
Hypothesis Ldz : length dz = n.
Hypothesis Dx : Dir dx.
Hypothesis Dz : Dir dz.
Hypothesis Px : Pt x.
Hypothesis Pz : Pt z.

Lemma cOK_at c dth : cOK Dir Pt n c -> length dth = c_m c ->
  fst (c_K c dth (combine x dx) (combine z dz)) = c_k c x z /\
  snd (c_K c dth (combine x dx) (combine z dz)) = dotA (c_p c x z) dth + dotA (c_g c x z) dx + dotA (c_g c z x) dz /\
  length (c_g c x z) = n /\ length (c_p c x z) = c_m c /\ length (c_g c z x) = n.
Proof.
  intros H L. destruct (H dth x dx z dz) as (E1 & E2 & L1 & L2); auto.
  destruct (H dth z dz x dx) as (_ & _ & L1' & _); auto.
Qed.

Lemma cOK_len c : cOK Dir Pt n c -> length (c_g c x z) = n /\ length (c_g c z x) = n /\ length (c_p c x z) = c_m c.
Proof. intros H. destruct (cOK_at c (zeros (c_m c)) H) as (_ & _ & L1 & L2 & L3); [apply repeat_length|]. auto. Qed.

Lemma wsD_num cs : forall wDs dth, length wDs = length cs -> length dth = msum cs -> Forall (cOK Dir Pt n) cs ->
  let L := combine wDs cs in
  fst (wsum_num D dzero dadd dmul (list D) (wsD wDs cs dth) (combine x dx) (combine z dz))
    = lsumA (map (fun t => fst (fst t) * c_k (snd t) x z) L) /\
  snd (wsum_num D dzero dadd dmul (list D) (wsD wDs cs dth) (combine x dx) (combine z dz))
    = lsumA (map (fun t => snd (fst t) * c_k (snd t) x z) L)
      + dotA (concat (map (fun t => vscaleA (fst (fst t)) (c_p (snd t) x z)) L)) dth
      + dotA (vsumA n (map (fun t => vscaleA (fst (fst t)) (c_g (snd t) x z)) L)) dx
      + dotA (vsumA n (map (fun t => vscaleA (fst (fst t)) (c_g (snd t) z x)) L)) dz.
Proof.
  induction cs as [|c cs IH]; intros [|wD wDs] dth L1 L2 F; cbn [length] in L1, L2; try discriminate; cbv zeta.
  - cbn [wsD wsum_num combine map concat]. rewrite !vsum_nil, !dot_zerosA. simpl. split; [auto|ring].
  - assert (Fc := Forall_inv F). assert (Fr := Forall_inv_tail F). cbn [msum fold_right] in L2.
    destruct (cOK_at c (firstn (c_m c) dth) Fc) as (E1 & E2 & G1 & P1 & G2); [rewrite firstn_length; lia|].
    destruct (IH wDs (skipn (c_m c) dth)) as [I1 I2]; [lia|rewrite skipn_length; unfold msum; lia|auto|]. cbv zeta in I1, I2.
    cbn [wsD wsum_num combine map concat fst snd]. rewrite !vsum_cons, !lsum_cons.
    rewrite (fst_dadd A add), (snd_dadd A add), (fst_dmul A add mul), (snd_dmul A add mul), E1, E2, I1, I2.
    split; [reflexivity|].
    assert (LL : forall (sel : comp -> vec), (forall c', In c' cs -> length (sel c') = n) ->
                 length (vsumA n (map (fun t : D * comp => vscaleA (fst (fst t)) (sel (snd t))) (combine wDs cs))) = n).
    { intros sel Hs. apply vsum_lengthA. rewrite Forall_forall. intros u Hu. apply in_map_iff in Hu. destruct Hu as (t' & <- & Ht').
      rewrite vscale_lengthA. apply Hs. destruct t'. apply in_combine_r in Ht'. auto. }
    rewrite Forall_forall in Fr.
    rewrite dot_app, vscale_lengthA, P1.
    rewrite !dot_vaddA.
    2:{ rewrite vscale_lengthA, G2. symmetry. apply (LL (fun c' => c_g c' z x)). intros c' Hc'. apply (cOK_len c' (Fr c' Hc')). }
    2:{ rewrite vscale_lengthA, G1. symmetry. apply (LL (fun c' => c_g c' x z)). intros c' Hc'. apply (cOK_len c' (Fr c' Hc')). }
    rewrite !dot_vscaleA. ring.
Qed.

(* derivative w.r.t. the log-weights *)
Lemma wpart W N lws : forall tw cs, length tw = length lws -> length cs = length lws -> W <> 0 ->
  dotA (map (fun t : A * comp => (fst t * (c_k (snd t) x z * W - N)) / (W * W)) (combine (map expA lws) cs)) tw
  = (lsumA (map (fun t : D * comp => snd (fst t) * c_k (snd t) x z) (combine (map dexp (combine lws tw)) cs)) * W
     - N * lsumA (map snd (map dexp (combine lws tw)))) / (W * W).
Proof.
  induction lws as [|l lws IH]; intros [|t tw] [|c cs] H1 H2 HW; cbn [length] in H1, H2; try discriminate.
  - simpl. field; auto.
  - cbn [map combine dot fst snd C05Aux.dexp]. rewrite IH by (auto; lia). rewrite !lsum_cons. field; auto.
Qed.

End WSum.

Lemma map_fst_dexp lws : forall tw, length tw = length lws -> map fst (map dexp (combine lws tw)) = map expA lws.
Proof. induction lws; intros [|t tw] H; simpl in *; try discriminate; auto. f_equal. apply IHlws. lia. Qed.

Lemma tl_map {S T} (f : S -> T) l : tl (map f l) = map f (tl l).
Proof. destruct l; auto. Qed.

Lemma map_fst_combine {S T} (l : list S) : forall (l' : list T), length l = length l' -> map fst (combine l l') = l.
Proof. induction l; intros [|b l'] H; simpl in *; try discriminate; auto. f_equal. apply IHl. lia. Qed.

Lemma concat_scale_len {T} (fw : T -> A) (h : T -> vec) (mm : T -> nat) L : (forall t, In t L -> length (h t) = mm t) ->
  length (concat (map (fun t => vscaleA (fw t) (h t)) L)) = fold_right (fun t s => (mm t + s)%nat) 0%nat L.
Proof.
  induction L as [|t L IH]; intros H; cbn [map concat fold_right]; auto.
  rewrite app_length, vscale_lengthA, IH; [|intros; apply H; right; auto]. f_equal. apply H. left; auto.
Qed.

Lemma fold_combine_msum (ws : vec) : forall cs, length ws = length cs ->
  fold_right (fun (t : A * comp) s => (c_m (snd t) + s)%nat) 0%nat (combine ws cs) = msum cs.
Proof. induction ws; intros [|c cs] H; simpl in *; try discriminate; auto. Qed.

Notation k_wsumA := (k_wsum A zero add mul div vec).
Notation g_wsumA := (g_wsum A zero add mul div).
Notation p_wsumA := (p_wsum A zero add mul sub div).

Theorem DOK_wsum (Dir Pt : vec -> Prop) n (lws : vec) (cs : list comp) :
  length cs = S (length lws) -> Forall (cOK Dir Pt n) cs ->
  lsumA (1 :: map expA lws) <> 0 ->
  let L := combine (1 :: map expA lws) cs in
  DOK Dir Pt n (length lws + msum cs) (K_wsum lws cs)
      (k_wsumA (map (fun t => (fst t, c_k (snd t))) L))
      (g_wsumA n (map (fun t => (fst t, c_g (snd t))) L))
      (p_wsumA (map (fun t => (fst t, (c_k (snd t), c_p (snd t)))) L)).
Proof.
  intros Lc F HW L dth x dx z dz Lth Lx Ldx Lz Ldz Dx Dz Px Pz.
  set (ws := 1 :: map expA lws) in *.
  set (tw := firstn (length lws) dth). set (dr := skipn (length lws) dth).
  assert (Ltw : length tw = length lws) by (unfold tw; rewrite firstn_length; lia).
  assert (Ldr : length dr = msum cs) by (unfold dr; rewrite skipn_length; lia).
  set (wDs := done :: map dexp (combine lws tw)).
  assert (LwD : length wDs = length cs) by (unfold wDs; cbn [length]; rewrite map_length; unfold C05Aux.D; rewrite combine_length; lia).
  assert (Ews : map fst wDs = ws) by (unfold wDs, ws; cbn [map fst C05Aux.done]; rewrite map_fst_dexp; auto).
  assert (Lws : length ws = length cs) by (rewrite <- Ews, map_length; auto).
  destruct (wsD_num Dir Pt n x dx z dz Lx Ldx Lz Ldz Dx Dz Px Pz cs wDs dr LwD Ldr F) as [N1 N2]. cbv zeta in N1, N2.
  assert (Flen : forall c, In c cs -> length (c_g c x z) = n /\ length (c_g c z x) = n /\ length (c_p c x z) = c_m c).
  { intros c Hc. rewrite Forall_forall in F. apply (cOK_len Dir Pt n x dx z dz Lx Ldx Lz Ldz Dx Dz Px Pz c (F c Hc)). }
  (* sums over the dual weights -> sums over the weights *)
  rewrite (map_combine_fst (fun w c => w * c_k c x z)) in N1.
  rewrite (map_combine_fst (fun w c => vscaleA w (c_p c x z))) in N2.
  rewrite (map_combine_fst (fun w c => vscaleA w (c_g c x z))) in N2.
  rewrite (map_combine_fst (fun w c => vscaleA w (c_g c z x))) in N2.
  rewrite Ews in N1, N2. fold L in N1, N2.
  unfold K_wsum. fold tw dr wDs. unfold C05Model.k_wsum, C05Model.wsum_den, C05Model.kernel. rewrite (wsD_den cs wDs dr LwD).
  unfold ddiv. cbn [fst snd]. rewrite fst_lsumD, (snd_lsumD A zero add), N1, N2, Ews.
  rewrite !map_map. cbn [fst snd].
  assert (EW : map (fun x0 : A * comp => fst x0) L = ws) by (change (map fst (combine ws cs) = ws); apply map_fst_combine; auto).
  rewrite EW.
  assert (EN : wsum_num A zero add mul vec (map (fun t : A * comp => (fst t, c_k (snd t))) L) x z
               = lsumA (map (fun t : A * comp => fst t * c_k (snd t) x z) L)).
  { clear. induction L as [|t L' IH]; simpl; auto. rewrite IH. auto. }
  rewrite EN. split; [reflexivity|].
  set (W := lsumA ws) in *. set (N := lsumA (map (fun t : A * comp => fst t * c_k (snd t) x z) L)).
  split; [|split].
  - unfold C05Model.g_wsum, C05Model.p_wsum. rewrite !map_map. cbn [fst snd].
    rewrite !EW. fold W. fold N.
    rewrite !(dot_vsum_div n) by (auto; intros [w c] Hc; apply in_combine_r in Hc; apply (Flen c Hc)).
    rewrite tl_map, map_map. cbn [fst snd]. rewrite dot_app, map_length.
    assert (Ltl : length (tl L) = length lws).
    { unfold L, ws. destruct cs as [|c0 cs']; [discriminate|]. cbn [combine tl length] in *. rewrite combine_length, map_length. lia. }
    rewrite Ltl. fold tw dr. rewrite dot_concat_div by auto.
    destruct cs as [|c0 cs']; [discriminate|]. unfold L, ws. cbn [combine tl]. cbn [length] in Lc.
    rewrite (wpart x z W N lws tw cs') by (auto; lia).
    unfold wDs. cbn [combine map]. rewrite !lsum_cons. cbn [fst snd C05Aux.done].
    repeat match goal with |- context [dotA ?u ?v] => let d := fresh "d" in set (d := dotA u v) end.
    repeat match goal with |- context [lsumA ?u] => let d := fresh "s" in set (d := lsumA u) end.
    assert (Es : s1 = s) by reflexivity. rewrite Es.
    field. auto.
  - unfold C05Model.g_wsum. apply vsum_lengthA. rewrite Forall_forall. intros u Hu. apply in_map_iff in Hu. destruct Hu as (t' & <- & Ht').
    apply in_map_iff in Ht'. destruct Ht' as ([w c] & <- & Hc). cbn [fst snd]. rewrite vscale_lengthA. apply in_combine_r in Hc. apply (Flen c Hc).
  - unfold C05Model.p_wsum. rewrite tl_map, app_length, !map_length.
    assert (Ltl : length (tl L) = length lws).
    { unfold L, ws. destruct cs as [|c0 cs']; [discriminate|]. cbn [combine tl length] in *. rewrite combine_length, map_length. lia. }
    rewrite Ltl. f_equal. rewrite map_map. cbn [fst snd].
    set (W0 := lsumA (map fst (map (fun t : A * comp => (fst t, (c_k (snd t), c_p (snd t)))) L))).
    transitivity (fold_right (fun (t : A * comp) s => (c_m (snd t) + s)%nat) 0%nat L).
    + apply (concat_scale_len (fun t : A * comp => fst t / W0) (fun t : A * comp => c_p (snd t) x z) (fun t : A * comp => c_m (snd t))).
      intros [w c] Hc. apply in_combine_r in Hc. apply (Flen c Hc).
    + unfold L. apply fold_combine_msum. auto.
Qed.

(* ------------------------------------------------------------------ ModelKernel with a LinearModel x |-> W x + b *)
Notation linmapA := (linmap A zero add mul).
Notation linmapD := (linmap D dzero dadd dmul).
Notation lm_pgradA := (lm_pgrad A mul).
Notation p_modelA := (p_model A zero add mul).
(* k rows of length n cut from a flat (row-major) vector *)
Fixpoint chunk (n k : nat) (v : vec) : mat :=
  match k with O => [] | S k' => firstn n v :: chunk n k' (skipn n v) end.
(* parameter direction: inner kernel's parameters | matrix (row-major) | offset *)
Definition K_model (n : nat) (W : mat) (b : vec) (mk : nat) (K : vec -> kD) : vec -> kD := fun dth X Z =>
  let mo := length W in
  let dm := skipn mk dth in
  let WD := zipdual A W (chunk n mo (firstn (mo * n) dm)) in
  let bD := combine b (skipn (mo * n) dm) in
  K (firstn mk dth) (linmapD WD bD X) (linmapD WD bD Z).

Lemma chunk_spec n k : forall v, length v = (k * n)%nat -> length (chunk n k v) = k /\ Forall (fun r => length r = n) (chunk n k v).
Proof.
  induction k; intros v H; simpl in *; [split; auto|].
  destruct (IHk (skipn n v)) as [E1 E2]; [rewrite skipn_length; lia|]. split; [lia|]. constructor; auto. rewrite firstn_length. lia.
Qed.

Lemma linmap_length (W : mat) (b x : vec) : length b = length W -> length (linmapA W b x) = length W.
Proof. intros H. unfold C05Model.linmap. rewrite zipw_lengthA; rewrite map_length; auto. Qed.

Lemma linmapD_cst (x : vec) : forall (W dW : mat) (b db : vec),
  length dW = length W -> length b = length W -> length db = length W ->
  Forall (fun r => length r = length x) W -> Forall (fun r => length r = length x) dW ->
  linmapD (zipdual A W dW) (combine b db) (cstv x)
  = combine (linmapA W b x) (zipwA add (map (fun dr => dotA dr x) dW) db).
Proof.
  unfold C05Model.linmap, C05Aux.zipdual.
  induction W as [|r W IH]; intros [|dr dW] [|b0 b] [|db0 db] H1 H2 H3 F1 F2; simpl in *; try discriminate; auto.
  inversion F1; inversion F2; subst.
  destruct (dotD_var A zero one add mul sub div opp inv le OF r dr x) as [E1 E2]; [congruence|].
  rewrite <- IH by (auto; lia). f_equal.
  rewrite (surjective_pairing (dotD (combine r dr) (cstv x))), E1, E2. reflexivity.
Qed.

Lemma dot_zipw_add (d : vec) : forall u w, length u = length d -> length w = length d ->
  dotA d (zipwA add u w) = dotA d u + dotA d w.
Proof. induction d; intros [|a0 u] [|b0 w] H1 H2; simpl in *; try discriminate; [ring|]. rewrite IHd by lia. ring. Qed.

Lemma dot_concat_rows n (x : vec) : length x = n -> forall (d v : vec), length v = (length d * n)%nat ->
  dotA (concat (map (fun a => vscaleA a x) d)) v = dotA d (map (fun dr => dotA dr x) (chunk n (length d) v)).
Proof.
  intros Lx. induction d as [|a d IH]; intros v Lv; cbn [map concat length chunk dot]; [destruct v; auto|].
  cbn [length] in Lv. rewrite dot_app, vscale_lengthA, Lx, dot_vscaleA, IH by (rewrite skipn_length; lia).
  rewrite (dot_symA x). ring.
Qed.

Lemma lm_pgrad_length (d x : vec) : length (lm_pgradA d x) = (length d * length x + length d)%nat.
Proof.
  unfold C05Model.lm_pgrad. rewrite app_length. f_equal.
  induction d; simpl; auto. rewrite app_length, vscale_lengthA, IHd. auto.
Qed.

Lemma lm_pgrad_dot n mo (d x dm : vec) : length x = n -> length d = mo -> length dm = (mo * n + mo)%nat ->
  dotA (lm_pgradA d x) dm
  = dotA d (zipwA add (map (fun dr => dotA dr x) (chunk n mo (firstn (mo * n) dm))) (skipn (mo * n) dm)).
Proof.
  intros Lx Ld Lm. unfold C05Model.lm_pgrad.
  assert (Lc : length (concat (map (fun a => vscaleA a x) d)) = (mo * n)%nat).
  { clear Lm. subst mo. induction d; simpl; auto. rewrite app_length, vscale_lengthA, IHd. lia. }
  rewrite dot_app, Lc.
  rewrite (dot_concat_rows n x Lx d) by (rewrite firstn_length; lia). rewrite Ld.
  destruct (chunk_spec n mo (firstn (mo * n) dm)) as [C1 _]; [rewrite firstn_length; lia|].
  rewrite dot_zipw_add; [auto|rewrite map_length; exact (eq_trans C1 (eq_sym Ld))|rewrite skipn_length; lia].
Qed.

Theorem DOK_model (Pt' : vec -> Prop) n mo mk (W : mat) (b : vec) K k g p :
  length W = mo -> Forall (fun r => length r = n) W -> length b = mo ->
  DOK DirAll Pt' mo mk K k g p ->
  DOK DirZero (fun x => Pt' (linmapA W b x)) n (mk + (mo * n + mo)) (K_model n W b mk K)
      (k_pull A (linmapA W b) k) (fun _ _ => zeros n) (p_modelA W b g p).
Proof.
  intros LW FW Lb H dth x dx z dz Lth Lx Ldx Lz Ldz Dx Dz Px Pz.
  assert (Ex : combine x dx = cstv x) by (rewrite cstv_combine, Dx, Ldx, Lx; auto).
  assert (Ez : combine z dz = cstv z) by (rewrite cstv_combine, Dz, Ldz, Lz; auto).
  unfold K_model. cbv zeta. rewrite Ex, Ez, LW.
  set (dk := firstn mk dth). set (dm := skipn mk dth).
  assert (Ldk : length dk = mk) by (unfold dk; rewrite firstn_length; lia).
  assert (Ldm : length dm = (mo * n + mo)%nat) by (unfold dm; rewrite skipn_length; lia).
  set (dW := chunk n mo (firstn (mo * n) dm)). set (db := skipn (mo * n) dm).
  destruct (chunk_spec n mo (firstn (mo * n) dm)) as [C1 C2]; [rewrite firstn_length; lia|]. fold dW in C1, C2.
  assert (Ldb : length db = mo) by (unfold db; rewrite skipn_length; lia).
  rewrite !linmapD_cst; try lia; try (rewrite Lx; auto); try (rewrite Lz; auto).
  set (fx := linmapA W b x). set (fz := linmapA W b z).
  assert (Lfx : length fx = mo) by (unfold fx; rewrite linmap_length; lia).
  assert (Lfz : length fz = mo) by (unfold fz; rewrite linmap_length; lia).
  set (tx := zipwA add (map (fun dr => dotA dr x) dW) db). set (tz := zipwA add (map (fun dr => dotA dr z) dW) db).
  assert (Ltx : length tx = mo) by (unfold tx; rewrite zipw_lengthA; rewrite map_length; [exact C1 | exact (eq_trans C1 (eq_sym Ldb))]).
  assert (Ltz : length tz = mo) by (unfold tz; rewrite zipw_lengthA; rewrite map_length; [exact C1 | exact (eq_trans C1 (eq_sym Ldb))]).
  destruct (H dk fx tx fz tz) as (E1 & E2 & G1 & P1); auto; try exact I.
  destruct (H dk fz tz fx tx) as (_ & _ & G2 & _); auto; try exact I.
  rewrite E1, E2. unfold C05Model.k_pull. fold fx fz. split; [reflexivity|].
  unfold C05Model.p_model. fold fx fz. split; [|split; [apply repeat_length|]].
  - rewrite !dot_zerosA, dot_app, P1. fold dk dm.
    rewrite dot_vaddA by (rewrite !lm_pgrad_length; lia).
    rewrite (lm_pgrad_dot n mo (g fx fz) x dm), (lm_pgrad_dot n mo (g fz fx) z dm) by auto.
    fold dW db tx tz. ring.
  - rewrite app_length, vadd_lengthA; rewrite !lm_pgrad_length; lia.
Qed.

(* ------------------------------------------------------------------ from the specification to the batch routines *)
Notation wsumD := (wsumD A zero add mul).
Notation wsumP := (wsumP A zero add mul).
Notation wid_dot := (wid_dot A zero add mul).
Notation shapes := (shapes A).
Notation widA := (wid A zero add mul).
Notation wpdvA := (wpdv A zero add mul).

(* input derivative: parameters fixed (direction 0), second batch constant *)
Theorem wid_of_DOK (Pt : vec -> Prop) n m K k g p C X1 dX1 X2 :
  DOK DirAll Pt n m K k g p -> shapes n C X1 dX1 X2 -> Forall Pt X1 -> Forall Pt X2 ->
  wsumD (K (zeros m)) C X1 dX1 X2 = wid_dot (widA n g C X1 X2) dX1.
Proof.
  intros H S F1 F2. apply (wid_general A zero one add mul sub div opp inv le OF); auto.
  intros x dx z Hx Hz Lx Ldx Lz. rewrite Forall_forall in F1, F2.
  destruct (H (zeros m) x dx z (zeros n)) as (_ & E2 & G1 & _); auto; try exact I; try apply repeat_length.
  rewrite cstv_combine, Lz, E2, !dot_zeros_r. split; [ring|auto].
Qed.

(* parameter derivative: both batches constant, any parameter direction dth *)
Theorem wpdv_of_DOK (Dir Pt : vec -> Prop) n m K k g p C X1 X2 dth :
  DOK Dir Pt n m K k g p -> Dir (zeros n) -> shapes n C X1 X1 X2 -> Forall Pt X1 -> Forall Pt X2 -> length dth = m ->
  wsumP (K dth) C X1 X2 = dotA (wpdvA m p C X1 X2) dth.
Proof.
  intros H D0 (S1 & _ & S3 & _ & _) F1 F2 Lth. unfold C05Aux.wsumP, C05Model.wpdv.
  rewrite Forall_forall in F1, F2, S1, S3.
  assert (PP : forall x z, In x X1 -> In z X2 -> snd (K dth (cstv x) (cstv z)) = dotA (p x z) dth /\ length (p x z) = m).
  { intros x z Hx Hz. destruct (H dth x (zeros n) z (zeros n)) as (_ & E2 & _ & P1); auto; try apply repeat_length.
    rewrite !cstv_combine, (S1 x Hx), (S3 z Hz), E2, !dot_zeros_r. split; [ring|auto]. }
  rewrite dot_vsumA.
  - rewrite map_map. apply lsum_ext. intros [x crow] Hx. cbn [fst snd]. apply in_combine_l in Hx.
    rewrite dot_vsumA.
    + rewrite map_map. apply lsum_ext. intros [c z] Hz. cbn [fst snd]. apply in_combine_r in Hz.
      destruct (PP x z Hx Hz) as [E _]. rewrite dot_vscaleA, E. reflexivity.
    + rewrite Forall_forall. intros v Hv. apply in_map_iff in Hv. destruct Hv as ([c z] & <- & Hz). cbn [fst snd].
      apply in_combine_r in Hz. rewrite vscale_lengthA. apply (PP x z Hx Hz).
  - rewrite Forall_forall. intros v Hv. apply in_map_iff in Hv. destruct Hv as ([x crow] & <- & Hx). cbn [fst snd].
    apply in_combine_l in Hx. apply vsum_lengthA.
    rewrite Forall_forall. intros v Hv. apply in_map_iff in Hv. destruct Hv as ([c z] & <- & Hz). cbn [fst snd].
    apply in_combine_r in Hz. rewrite vscale_lengthA. apply (PP x z Hx Hz).
Qed.

(* the value computed by the dual run is the model kernel *)
Theorem value_of_DOK (Dir Pt : vec -> Prop) n m K k g p dth x z :
  DOK Dir Pt n m K k g p -> Dir (zeros n) -> length dth = m -> length x = n -> length z = n -> Pt x -> Pt z ->
  fst (K dth (cstv x) (cstv z)) = k x z.
Proof.
  intros H D0 Lth Lx Lz Px Pz. destruct (H dth x (zeros n) z (zeros n)) as (E1 & _); auto; try apply repeat_length.
  rewrite !cstv_combine, Lx, Lz. auto.
Qed.

(* ------------------------------------------------------------------ corollaries in the form of C05Aux (ARD kernel) *)
Lemma Forall_True {T} (l : list T) : Forall (fun _ => True) l.
Proof. induction l; constructor; auto. Qed.

Theorem wid_ard_correct n ps C X1 dX1 X2 : length ps = n -> shapes n C X1 dX1 X2 ->
  wsumD (K_ard ps (zeros n)) C X1 dX1 X2 = wid_dot (widA n (g_ardA (map expA ps)) C X1 X2) dX1.
Proof.
  intros L S. apply (wid_of_DOK (fun _ => True) n n (K_ard ps) (k_ardA (map expA ps)) (g_ardA (map expA ps)) (p_ardA (map expA ps)));
    auto using Forall_True. apply DOK_ard; auto.
Qed.

Theorem wpdv_ard_correct n ps C X1 X2 dth : length ps = n -> shapes n C X1 X1 X2 -> length dth = n ->
  wsumP (K_ard ps dth) C X1 X2 = dotA (wpdvA n (p_ardA (map expA ps)) C X1 X2) dth.
Proof.
  intros L S Lth. apply (wpdv_of_DOK DirAll (fun _ => True) n n (K_ard ps) (k_ardA (map expA ps)) (g_ardA (map expA ps)));
    auto using Forall_True. apply DOK_ard; auto. exact I.
Qed.

Theorem ddiv_spec (p q : D) : fst q <> 0 -> dmul (ddiv p q) q = p /\ forall r, dmul r q = p -> r = ddiv p q.
Proof. intros H. split; [apply ddiv_sound; auto|intros; apply ddiv_unique; auto]. Qed.

Theorem dsqrt_spec (p : D) : sqrtA (fst p) * sqrtA (fst p) = fst p -> sqrtA (fst p) <> 0 -> twoA <> 0 ->
  dmul (dsqrt p) (dsqrt p) = p /\ forall r, fst r = sqrtA (fst p) -> dmul r r = p -> r = dsqrt p.
Proof. intros S N T. split; [apply dsqrt_sound; auto|intros; apply dsqrt_unique; auto]. Qed.

End Deriv.

(* ------------------------------------------------------------------ the premises of the conditional statements are satisfiable (over Qc) *)
From Coq Require Import QArith Qcanon.

Definition qc_sq25 : Qc -> Qc := fun v => if Qc_eq_dec v (Q2Qc 25) then Q2Qc 5 else Q2Qc 25.
Definition qc_lincomp : comp Qc :=
  mkComp Qc 0 (K_lin Qc (Q2Qc 0) Qcplus Qcmult) (k_lin Qc (Q2Qc 0) Qcplus Qcmult) (g_lin Qc) (p_none Qc).

Lemma Qc_neq (a b : Qc) : Qnum (this a) <> Qnum (this b) -> a <> b.
Proof. intros H E. apply H. rewrite E. reflexivity. Qed.

Example composed_deriv_hyps_example :
  let k := QcDot in
  let Pt' := fun x : list Qc => x = [Q2Qc 3; Q2Qc 4] \/ x = [Q2Qc 0; Q2Qc 5] in
  (* NormalizedKernel *)
  two Qc 1%Qc Qcplus <> Q2Qc 0 /\
  (forall x z, k x z = k z x) /\
  (forall x, Pt' x -> True /\ (qc_sq25 (k x x) * qc_sq25 (k x x) = k x x)%Qc /\ qc_sq25 (k x x) <> Q2Qc 0) /\
  (forall x z, Pt' x -> Pt' z -> qc_sq25 (k x x * k z z)%Qc = (qc_sq25 (k x x) * qc_sq25 (k z z))%Qc) /\
  (* WeightedSumKernel of two linear kernels, log-weight 0, exp := fun _ => 1 *)
  (let cs := [qc_lincomp; qc_lincomp] in
   length cs = S (length [Q2Qc 0]) /\
   Forall (cOK Qc (Q2Qc 0) Qcplus Qcmult (DirAll Qc) (fun _ => True) 2) cs /\
   lsum Qc (Q2Qc 0) Qcplus (1%Qc :: map (fun _ : Qc => 1%Qc) [Q2Qc 0]) <> Q2Qc 0) /\
  (* ModelKernel with the linear model x |-> [x_1 + 2 x_2] and a linear kernel *)
  (let W := [[1%Qc; Q2Qc 2]] in
   length W = 1%nat /\ Forall (fun r => length r = 2%nat) W /\ length [Q2Qc 0] = 1%nat /\
   DOK Qc (Q2Qc 0) Qcplus Qcmult (DirAll Qc) (fun _ => True) 1 0 (K_lin Qc (Q2Qc 0) Qcplus Qcmult) (k_lin Qc (Q2Qc 0) Qcplus Qcmult) (g_lin Qc) (p_none Qc)) /\
  (* SubrangeKernel: columns [0,1) of 2 *)
  ((0 <= 1)%nat /\ (1 <= 2)%nat /\
   (forall v : list Qc, length v = 2%nat -> DirAll Qc v -> DirAll Qc (subvec Qc 0 1 v))).
Proof.
  cbv zeta.
  assert (L0 := DOK_lin Qc (Q2Qc 0) 1%Qc Qcplus Qcmult Qcminus Qcdiv Qcopp Qcinv Qcle Qc_ordfield).
  assert (E25 : forall x, x = [Q2Qc 3; Q2Qc 4] \/ x = [Q2Qc 0; Q2Qc 5] -> QcDot x x = Q2Qc 25).
  { intros x [-> | ->]; apply Qc_is_canon; vm_compute; reflexivity. }
  assert (S25 : qc_sq25 (Q2Qc 25) = Q2Qc 5).
  { unfold qc_sq25. destruct (Qc_eq_dec (Q2Qc 25) (Q2Qc 25)); [auto|contradiction]. }
  assert (S625 : qc_sq25 (Q2Qc 25 * Q2Qc 25)%Qc = Q2Qc 25).
  { unfold qc_sq25. destruct (Qc_eq_dec (Q2Qc 25 * Q2Qc 25)%Qc (Q2Qc 25)) as [e|]; [|auto].
    exfalso. revert e. apply Qc_neq. vm_compute. discriminate. }
  split; [apply Qc_neq; vm_compute; discriminate|].
  split; [intros; apply (dot_sym Qc (Q2Qc 0) 1%Qc Qcplus Qcmult Qcminus Qcdiv Qcopp Qcinv Qcle Qc_ordfield)|].
  split.
  { intros x Hx. rewrite (E25 x Hx), S25. split; [auto|]. split; [apply Qc_is_canon; vm_compute; reflexivity|].
    apply Qc_neq; vm_compute; discriminate. }
  split.
  { intros x z Hx Hz. rewrite (E25 x Hx), (E25 z Hz), S25, S625. apply Qc_is_canon; vm_compute; reflexivity. }
  split.
  { split; [reflexivity|]. split; [constructor; [apply L0|constructor; [apply L0|constructor]]|]. apply Qc_neq; vm_compute; discriminate. }
  split.
  { split; [reflexivity|]. split; [repeat constructor|]. split; [reflexivity|]. apply L0. }
  split; [lia|]. split; [lia|]. intros; exact I.
Qed.
