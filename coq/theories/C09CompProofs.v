(* C09 (composition) — CachedMatrix / PrecomputedMatrix over ANY flip-aware base matrix: invariants
   for all operation histories, and what the stack returns in terms of the base's ORIGINAL entry
   function under the composed variable order.  The proofs follow C09Proofs.v (the same cache over the
   free matrix of id pairs); every use of the closed form of the free matrix is replaced by a law
   of the record [flip_aware]. *)
From Coq Require Import List Arith Lia Bool FinFun Permutation.
From SharkV Require Import ListAux C09Comp.
Import ListNotations.

(* the laws of a correct base matrix object; [ok] is the class invariant of the base (e.g. "the
   attribute vectors have one entry per variable") *)
Record flip_aware {V B} {M : MatOps V B} (ok : B -> Prop) : Prop := {
  fa_ok    : forall b i j, ok b -> i < bsize b -> j < bsize b -> ok (bflip i j b);
  fa_size  : forall b i j, ok b -> i < bsize b -> j < bsize b -> bsize (bflip i j b) = bsize b;
  fa_entry : forall b i j a c, ok b -> i < bsize b -> j < bsize b -> a < bsize b -> c < bsize b ->
               bentry (bflip i j b) a c = bentry b (tr i j a) (tr i j c);
  fa_row   : forall b k a e, ok b -> k < bsize b -> e <= bsize b ->
               browf b k a e = map (bentry b k) (seq a (e - a))
}.

(* matrix(storage) of the base state b writes the table of its entries.  (Not a law of every state of
   every class: KernelMatrix::matrix computes from the dataset in its ORIGINAL order and ignores the
   flips, so for KernelMatrix / Regularized / Modified it holds for unflipped states only.) *)
Definition mat_ok {V B} {M : MatOps V B} (b : B) : Prop :=
  bmat b = map (fun i => map (bentry b i) (seq 0 (bsize b))) (seq 0 (bsize b)).

Lemma tot_zero {A} (l : list (list A)) :
  (forall k, k < length l -> nth k l [] = []) -> tot l = 0.
Proof.
  induction l as [|h t IH]; simpl; auto. intros H.
  pose proof (H 0 ltac:(lia)) as H0. simpl in H0. subst h. simpl.
  apply IH. intros k Hk. apply (H (S k)). lia.
Qed.

Lemma tot_single {A} (l : list (list A)) i :
  (forall k, k <> i -> nth k l [] = []) -> tot l = length (nth i l []).
Proof.
  revert i; induction l as [|h t IH]; intros i H; simpl.
  - destruct i; auto.
  - destruct i as [|i].
    + rewrite tot_zero; [lia|]. intros k Hk. apply (H (S k)). lia.
    + pose proof (H 0 ltac:(lia)) as H0. simpl in H0. subst h. simpl.
      apply IH. intros k Hk. apply (H (S k)). lia.
Qed.

Lemma nth_firstn_lt {A} (l : list A) m c d : c < m -> nth c (firstn m l) d = nth c l d.
Proof.
  revert l c; induction m as [|m IH]; intros l c H; [lia|].
  destruct l; simpl; auto. destruct c; auto. apply IH. lia.
Qed.

Lemma nth_skipn_add {A} (l : list A) a c d : nth c (skipn a l) d = nth (a + c) l d.
Proof.
  revert l; induction a as [|a IH]; intros l; simpl; auto.
  destruct l; simpl; auto. destruct c; auto.
Qed.

Ltac wf_split W :=
  simpl in W; repeat (apply andb_prop in W; destruct W as [W ?]);
  repeat match goal with H : (_ <? _) = true |- _ => apply Nat.ltb_lt in H
                       | H : (_ <=? _) = true |- _ => apply Nat.leb_le in H end.

Section CompProofs.
Context {Vt Bt : Type} {MO : MatOps Vt Bt}.
Variable ok : Bt -> Prop.
Hypothesis FA : flip_aware ok.
Local Notation st := (gst Vt Bt).

Record Inv (s : st) : Prop := {
  I_ok   : ok (gbase s);
  I_len  : length (gents s) = gsize s;
  I_nd   : NoDup (glru s);
  I_lru  : forall k, In k (glru s) <-> (k < gsize s /\ glinelen s k <> 0);
  I_size : gcsize s = tot (gents s);
  I_cap  : gcsize s <= gcmax s;
  I_llen : forall k, glinelen s k <= gsize s;
  I_val  : forall k c, c < glinelen s k -> nth c (gline s k) gv = bentry (gbase s) k c;
  I_err  : gerr s = false
}.

Lemma init_inv b m : ok b -> Inv (ginit b m).
Proof.
  intros OK.
  assert (E : forall k, nth k (repeat (@nil Vt) (bsize b)) [] = []).
  { intros k. destruct (Nat.lt_ge_cases k (bsize b)); [apply nth_repeat|apply nth_overflow; rewrite repeat_length; auto]. }
  unfold ginit. constructor; simpl; unfold gsize, glinelen, gline; simpl.
  - exact OK.
  - apply repeat_length.
  - constructor.
  - intros k. split; [tauto|]. intros [_ H]. exfalso. apply H. rewrite E. auto.
  - symmetry. apply tot_zero. intros k Hk. apply E.
  - lia.
  - intros k. rewrite E. simpl. lia.
  - intros k c H. exfalso. rewrite E in H. simpl in H. lia.
  - auto.
Qed.

(* facts about a gline after an update of the entry table *)
Lemma line_upd (s : st) k v x (P : Bt) L sz mx e :
  gline (gmk P (upd k v (gents s)) L sz mx e) x =
  if (k =? x) && (k <? length (gents s)) then v else gline s x.
Proof. unfold gline; simpl. apply nth_upd. Qed.

Lemma remove_row_inv s k : Inv s -> In k (glru s) -> Inv (gremove_row k s).
Proof.
  intros I Hk. pose proof (proj1 (I_lru s I k) Hk) as [Hkn Hkl].
  assert (Hke : k < length (gents s)) by (rewrite (I_len s I); auto).
  unfold gremove_row. constructor; simpl; unfold gsize, glinelen in *; simpl.
  - apply (I_ok s I).
  - rewrite upd_length. apply (I_len s I).
  - apply NoDup_remove_nat, (I_nd s I).
  - intros x. rewrite In_remove_nat, (I_lru s I x). rewrite line_upd.
    destruct (Nat.eqb_spec k x) as [->|Hne]; simpl.
    + apply Nat.ltb_lt in Hke. rewrite Hke. simpl. split; intros; [lia|tauto].
    + unfold gsize, glinelen. split; intros; [tauto|]. split; [tauto|lia].
  - pose proof (tot_upd k (@nil Vt) (gents s) Hke) as E. simpl in E.
    rewrite (I_size s I). unfold gline. lia.
  - pose proof (I_cap s I). lia.
  - intros x. rewrite line_upd.
    destruct ((k =? x) && (k <? length (gents s))); simpl; [lia|]. apply (I_llen s I).
  - intros x c. rewrite line_upd.
    destruct ((k =? x) && (k <? length (gents s))); simpl; [lia|]. apply (I_val s I).
  - apply (I_err s I).
Qed.

Lemma remove_row_perm (s : st) k : gbase (gremove_row k s) = gbase s. Proof. auto. Qed.
Lemma remove_row_cmax (s : st) k : gcmax (gremove_row k s) = gcmax s. Proof. auto. Qed.
Lemma remove_row_line (s : st) k x : gline (gremove_row k s) x = gline s x \/ gline (gremove_row k s) x = [].
Proof.
  unfold gremove_row. rewrite line_upd. destruct ((k =? x) && _); auto.
Qed.
Lemma remove_row_line_neq (s : st) k x : x <> k -> gline (gremove_row k s) x = gline s x.
Proof.
  intros H. unfold gremove_row. rewrite line_upd.
  destruct (Nat.eqb_spec k x); simpl; auto. congruence.
Qed.

(* no listed gline -> nothing stored *)
Lemma empty_lru_csize s : Inv s -> glru s = [] -> gcsize s = 0.
Proof.
  intros I H. rewrite (I_size s I). apply tot_zero. intros k Hk.
  rewrite (I_len s I) in Hk.
  destruct (nth k (gents s) []) eqn:E; auto. exfalso.
  assert (In k (glru s)) as Hin.
  { apply (I_lru s I). split; auto. unfold glinelen, gline. rewrite E. simpl. lia. }
  rewrite H in Hin. destruct Hin.
Qed.

Definition keeps (s s' : st) : Prop :=
  gbase s' = gbase s /\ gcmax s' = gcmax s /\
  (forall x, gline s' x = gline s x \/ gline s' x = []).

Lemma keeps_refl (s : st) : keeps s s.
Proof. repeat split; auto. Qed.

Lemma keeps_trans (a b c : st) : keeps a b -> keeps b c -> keeps a c.
Proof.
  intros (P1 & M1 & L1) (P2 & M2 & L2). repeat split; try congruence.
  intros x. destruct (L2 x) as [E|E]; [rewrite E; apply L1|auto].
Qed.

Lemma ensure_free_spec fuel need s :
  Inv s -> need <= gcmax s -> length (glru s) <= fuel ->
  let s' := gensure_free fuel need s in
  Inv s' /\ need <= gcmax s' - gcsize s' /\ keeps s s'.
Proof.
  revert s; induction fuel as [|f IH]; intros s I Hn Hf; simpl.
  - destruct (Nat.ltb_spec (gcmax s - gcsize s) need) as [Hlt|Hge].
    + exfalso. assert (glru s = []) as E by (destruct (glru s); simpl in *; auto; lia).
      rewrite (empty_lru_csize s I E) in Hlt. lia.
    + split; auto. split; [lia|apply keeps_refl].
  - destruct (Nat.ltb_spec (gcmax s - gcsize s) need) as [Hlt|Hge].
    + destruct (last_opt (glru s)) as [k|] eqn:EL.
      * pose proof (last_opt_In _ _ EL) as Hin.
        assert (Inv (gremove_row k s)) as I' by (apply remove_row_inv; auto).
        specialize (IH (gremove_row k s) I').
        rewrite remove_row_cmax in IH. specialize (IH Hn).
        assert (length (glru (gremove_row k s)) <= f) as Hf'.
        { simpl. pose proof (remove_nat_length_lt k (glru s) Hin). lia. }
        specialize (IH Hf'). destruct IH as (A & B & C).
        split; auto. split; auto.
        eapply keeps_trans; [|exact C].
        repeat split; auto. intros x. apply remove_row_line.
      * exfalso. apply last_opt_None in EL.
        rewrite (empty_lru_csize s I EL) in Hlt. lia.
    + split; auto. split; [lia|apply keeps_refl].
Qed.

Lemma gensure_free'_spec need s :
  Inv s -> need <= gcmax s ->
  let s' := gensure_free' need s in
  Inv s' /\ need <= gcmax s' - gcsize s' /\ keeps s s'.
Proof. intros. apply ensure_free_spec; auto. Qed.

(* the head of the LRU list survives when capacity allows it *)
Lemma only_head_csize s i : Inv s -> glru s = [i] -> gcsize s = glinelen s i.
Proof.
  intros I H. rewrite (I_size s I). unfold glinelen, gline. apply tot_single.
  intros k Hk. destruct (nth k (gents s) []) eqn:E; auto. exfalso.
  destruct (Nat.lt_ge_cases k (gsize s)) as [Hlt|Hge].
  - assert (In k (glru s)) as Hin.
    { apply (I_lru s I). split; auto. unfold glinelen, gline. rewrite E. simpl. lia. }
    rewrite H in Hin. destruct Hin as [->|[]]. congruence.
  - rewrite nth_overflow in E; [discriminate|]. rewrite (I_len s I). auto.
Qed.

Lemma last_opt_cons_cons {A} (a b : A) t : last_opt (a :: b :: t) = last_opt (b :: t).
Proof. auto. Qed.

Lemma ensure_free_head fuel need s i rest :
  Inv s -> glru s = i :: rest -> glinelen s i + need <= gcmax s ->
  let s' := gensure_free fuel need s in
  gline s' i = gline s i /\ exists rest', glru s' = i :: rest'.
Proof.
  revert s rest; induction fuel as [|f IH]; intros s rest I HL Hc; simpl.
  - destruct (gcmax s - gcsize s <? need); simpl; split; eauto.
  - destruct (Nat.ltb_spec (gcmax s - gcsize s) need) as [Hlt|Hge]; [|split; eauto].
    destruct (last_opt (glru s)) as [k|] eqn:EL; [|simpl; split; eauto].
    pose proof (last_opt_In _ _ EL) as Hin.
    destruct rest as [|r rest].
    + exfalso. rewrite (only_head_csize s i I HL) in Hlt. lia.
    + assert (k <> i) as Hki.
      { rewrite HL in EL. rewrite last_opt_cons_cons in EL.
        apply last_opt_In in EL. pose proof (I_nd s I) as ND. rewrite HL in ND.
        inversion ND; subst. intros ->. auto. }
      assert (Inv (gremove_row k s)) as I' by (apply remove_row_inv; auto).
      assert (glru (gremove_row k s) = i :: remove_nat k (r :: rest)) as HL'.
      { simpl glru. rewrite HL. cbn [remove_nat]. destruct (Nat.eqb_spec i k); [congruence|auto]. }
      specialize (IH (gremove_row k s) _ I' HL').
      unfold glinelen in *. rewrite remove_row_line_neq in IH by auto.
      rewrite remove_row_cmax in IH. specialize (IH Hc).
      destruct IH as [A B]. split; auto.
Qed.

(* adding a fresh gline at the front *)
Lemma add_front_inv s k l :
  Inv s -> k < gsize s -> glinelen s k = 0 -> l <> [] -> length l <= gcmax s - gcsize s ->
  length l <= gsize s ->
  (forall c, c < length l -> nth c l gv = bentry (gbase s) k c) ->
  Inv (gadd_front k l s).
Proof.
  intros I Hk H0 Hl Hc Hn Hv.
  assert (Hke : k < length (gents s)) by (rewrite (I_len s I); auto).
  assert (Hnin : ~ In k (glru s)) by (rewrite (I_lru s I); tauto).
  unfold gadd_front. constructor; simpl; unfold gsize, glinelen in *; simpl.
  - apply (I_ok s I).
  - rewrite upd_length. apply (I_len s I).
  - constructor; auto. apply (I_nd s I).
  - intros x. rewrite line_upd. destruct (Nat.eqb_spec k x) as [->|Hne]; simpl.
    + apply Nat.ltb_lt in Hke. rewrite Hke. simpl. split; intros; auto.
      split; auto. destruct l; simpl; [congruence|lia].
    + rewrite (I_lru s I x). unfold gsize, glinelen. split; [intros [?|?]; [congruence|auto]|auto].
  - pose proof (tot_upd k l (gents s) Hke) as E. unfold gline in H0. rewrite H0 in E.
    rewrite (I_size s I). lia.
  - pose proof (I_cap s I). lia.
  - intros x. rewrite line_upd. destruct ((k =? x) && (k <? length (gents s))); [exact Hn|apply (I_llen s I)].
  - intros x c. rewrite line_upd. destruct (Nat.eqb_spec k x) as [->|Hne]; simpl.
    + apply Nat.ltb_lt in Hke. rewrite Hke. simpl. apply Hv.
    + apply (I_val s I).
  - apply (I_err s I).
Qed.

Lemma keeps_linelen0 (s s' : st) k : keeps s s' -> glinelen s k = 0 -> glinelen s' k = 0.
Proof.
  intros (_ & _ & L) H. unfold glinelen in *. destruct (L k) as [E|E]; rewrite E; auto.
Qed.

Lemma Inv_size_keeps (s s' : st) : keeps s s' -> gsize s' = gsize s.
Proof. intros (P & _). unfold gsize. rewrite P. auto. Qed.

(* the line written by CachedMatrix::row *)
Definition good_line (b : Bt) (k : nat) (l : list Vt) : Prop :=
  forall c, c < length l -> nth c l gv = bentry b k c.

Lemma brow_length b k a e : ok b -> k < bsize b -> e <= bsize b -> length (browf b k a e) = e - a.
Proof. intros. rewrite (fa_row ok FA) by auto. rewrite map_length, seq_length. auto. Qed.

Lemma brow_nth b k a e c : ok b -> k < bsize b -> e <= bsize b ->
  c < e - a -> nth c (browf b k a e) gv = bentry b k (a + c).
Proof.
  intros OK Hk He H. rewrite (fa_row ok FA) by auto.
  rewrite nth_indep with (d' := bentry b k 0) by (rewrite map_length, seq_length; auto).
  rewrite map_nth with (f := bentry b k) (d := 0). rewrite seq_nth; auto.
Qed.

Lemma good_extend b k l e :
  ok b -> k < bsize b -> e <= bsize b ->
  good_line b k l -> length l <= e -> good_line b k (l ++ browf b k (length l) e).
Proof.
  intros OK Hk He G Hle c Hc. rewrite app_length, brow_length in Hc by auto.
  destruct (Nat.lt_ge_cases c (length l)).
  - rewrite app_nth1; auto.
  - rewrite app_nth2; auto. rewrite brow_nth by (auto; lia). f_equal. lia.
Qed.

Lemma good_firstn b k l m : good_line b k l -> good_line b k (firstn m l).
Proof.
  intros G c Hc. rewrite firstn_length in Hc.
  rewrite <- (firstn_skipn m l) in G.
  specialize (G c). rewrite app_length, firstn_length in G.
  rewrite app_nth1 in G by (rewrite firstn_length; lia). apply G. lia.
Qed.

Lemma redeclare_newest_inv s k : Inv s -> k < gsize s -> glinelen s k <> 0 -> Inv (gredeclare_newest k s).
Proof.
  intros I Hk Hl. unfold gredeclare_newest. constructor; simpl; unfold gsize, glinelen in *; simpl;
    try apply I.
  - constructor; [rewrite In_remove_nat; tauto|apply NoDup_remove_nat, (I_nd s I)].
  - intros x. rewrite In_remove_nat. rewrite (I_lru s I x). unfold gsize, glinelen.
    destruct (Nat.eq_dec k x) as [->|Hne]; [tauto|]. split; [intros [?|?]; [congruence|tauto]|].
    intros H. right. split; [tauto|congruence].
Qed.

Lemma NoDup_snoc (l : list nat) k : NoDup l -> ~ In k l -> NoDup (l ++ [k]).
Proof.
  induction 1 as [|h t Hn Hd IH]; simpl; intros Hk.
  - constructor; [tauto|constructor].
  - constructor; [rewrite in_app_iff; simpl; intuition|apply IH; tauto].
Qed.

Lemma mark_inv s k : Inv s -> k < gsize s -> Inv (gmark_for_deletion k s).
Proof.
  intros I Hk. unfold gmark_for_deletion.
  destruct (Nat.eqb_spec (glinelen s k) 0) as [E|E]; auto.
  constructor; simpl; unfold gsize, glinelen in *; simpl; try apply I.
  - apply NoDup_snoc; [apply NoDup_remove_nat, (I_nd s I)|rewrite In_remove_nat; tauto].
  - intros x. rewrite in_app_iff, In_remove_nat. rewrite (I_lru s I x). unfold gsize, glinelen. simpl.
    destruct (Nat.eq_dec k x) as [->|Hne]; [tauto|]. split; [intros [?|[?|[]]]; [tauto|congruence]|].
    intros H. left. split; [tauto|congruence].
Qed.


(* gget_line + fill = CachedMatrix::row, in closed form for its three cases *)
Lemma cm_row_create k e (s : st) :
  ok (gbase s) -> k < gsize s -> e <= gsize s ->
  glinelen s k = 0 -> 0 < e ->
  gcm_row k e s = gadd_front k (browf (gbase s) k 0 e) (gensure_free' e s).
Proof.
  intros OK Hk Hen E0 He. unfold gcm_row, gget_line. rewrite E0. simpl (0 =? 0).
  assert (0 <? e = true) as -> by (apply Nat.ltb_lt; auto). cbv iota.
  unfold gcreate_row, gadd_front. cbn [gbase gents glru gcsize gcmax gerr].
  rewrite upd_upd. rewrite firstn_O. cbn [app].
  rewrite repeat_length, brow_length, Nat.sub_0_r by auto. reflexivity.
Qed.

Lemma cm_row_hit k e (s : st) :
  glinelen s k <> 0 -> e <= glinelen s k -> gcm_row k e s = gredeclare_newest k s.
Proof.
  intros E0 He. unfold gcm_row, gget_line.
  destruct (Nat.eqb_spec (glinelen s k) 0); [contradiction|].
  assert (e <=? glinelen s k = true) as -> by (apply Nat.leb_le; auto).
  assert (glinelen s k <? e = false) as -> by (apply Nat.ltb_ge; auto). reflexivity.
Qed.

Lemma cm_row_extend k e (s : st) :
  ok (gbase s) -> k < gsize s -> e <= gsize s ->
  k < length (gents s) -> glinelen s k <> 0 -> glinelen s k < e ->
  length (gents (gensure_free' e (gremove_row k s))) = length (gents s) ->
  gcm_row k e s =
  gadd_front k (gline s k ++ browf (gbase s) k (glinelen s k) e) (gensure_free' e (gremove_row k s)).
Proof.
  intros OK Hkn Hen Hk E0 He HL. unfold gcm_row, gget_line.
  destruct (Nat.eqb_spec (glinelen s k) 0); [contradiction|].
  assert (e <=? glinelen s k = false) as -> by (apply Nat.leb_gt; auto).
  assert (glinelen s k <? e = true) as -> by (apply Nat.ltb_lt; auto).
  unfold gresize_line. set (s1 := gensure_free' e (gremove_row k s)) in *.
  unfold gadd_front. cbn [gbase gents glru gcsize gcmax gerr].
  rewrite upd_upd. rewrite line_upd, Nat.eqb_refl.
  assert (k <? length (gents s1) = true) as -> by (apply Nat.ltb_lt; lia). cbn [andb].
  unfold glinelen in *.
  rewrite firstn_all2 with (n := e) by lia.
  rewrite firstn_app, firstn_all, Nat.sub_diag. cbn [firstn]. rewrite app_nil_r.
  unfold gadd_front. f_equal.
  rewrite !app_length, repeat_length, brow_length by auto. lia.
Qed.

Lemma ensure_free_ents_length fuel need (s : st) :
  length (gents (gensure_free fuel need s)) = length (gents s).
Proof.
  revert s; induction fuel as [|f IH]; intros s; simpl.
  - destruct (_ <? _); auto.
  - destruct (_ <? _); auto. destruct (last_opt (glru s)); auto.
    rewrite IH. simpl. apply upd_length.
Qed.

Lemma cm_row_inv k e s :
  Inv s -> k < gsize s -> 0 < e -> e <= gcmax s -> e <= gsize s ->
  let s' := gcm_row k e s in
  Inv s' /\ gbase s' = gbase s /\ gcmax s' = gcmax s /\ e <= glinelen s' k /\
  good_line (gbase s) k (gline s' k) /\
  (forall x, x <> k -> gline s' x = gline s x \/ gline s' x = []).
Proof.
  intros I Hk He Hc Hen. pose proof (I_ok s I) as OK.
  assert (Hke0 : k < length (gents s)) by (rewrite (I_len s I); auto).
  destruct (Nat.eq_dec (glinelen s k) 0) as [E0|E0].
  - (* create *)
    rewrite cm_row_create by auto.
    destruct (gensure_free'_spec e s I Hc) as (I1 & Hfree & K1).
    set (s1 := gensure_free' e s) in *.
    pose proof K1 as (P1 & M1 & L1).
    assert (Hk1 : k < gsize s1) by (rewrite (Inv_size_keeps _ _ K1); auto).
    assert (Hl1 : glinelen s1 k = 0) by (eapply keeps_linelen0; eauto).
    assert (Hke : k < length (gents s1)) by (rewrite (I_len s1 I1); auto).
    assert (G : good_line (gbase s) k (browf (gbase s) k 0 e)).
    { intros c Hlt. rewrite brow_length in Hlt by auto. rewrite brow_nth by (auto; lia). auto. }
    assert (Inv (gadd_front k (browf (gbase s) k 0 e) s1)) as I2.
    { apply add_front_inv; auto.
      - intros Hb. apply (f_equal (@length Vt)) in Hb. rewrite brow_length in Hb by auto. simpl in Hb. lia.
      - rewrite brow_length by auto. lia.
      - rewrite brow_length by auto. rewrite (Inv_size_keeps _ _ K1). lia.
      - rewrite P1. exact G. }
    assert (EL : gline (gadd_front k (browf (gbase s) k 0 e) s1) k = browf (gbase s) k 0 e).
    { unfold gadd_front. rewrite line_upd, Nat.eqb_refl.
      apply Nat.ltb_lt in Hke. rewrite Hke. reflexivity. }
    cbv zeta. split; [exact I2|]. split; [exact P1|]. split; [exact M1|].
    unfold glinelen. rewrite EL. split; [rewrite brow_length by auto; lia|]. split; [exact G|].
    intros x Hx. unfold gadd_front. rewrite line_upd.
    destruct (Nat.eqb_spec k x); [congruence|]. cbn [andb]. apply L1.
  - destruct (Nat.le_gt_cases e (glinelen s k)) as [Hle|Hgt].
    + rewrite cm_row_hit by auto. cbv zeta.
      split; [apply redeclare_newest_inv; auto|]. repeat split; auto.
      intros c Hlt. apply (I_val s I). exact Hlt.
    + assert (In k (glru s)) as Hin by (apply (I_lru s I); auto).
      assert (Inv (gremove_row k s)) as Ir by (apply remove_row_inv; auto).
      destruct (gensure_free'_spec e (gremove_row k s) Ir Hc) as (I1 & Hfree & K1).
      rewrite cm_row_extend; auto.
      2:{ unfold gensure_free'. rewrite ensure_free_ents_length. simpl. apply upd_length. }
      set (s1 := gensure_free' e (gremove_row k s)) in *.
      pose proof K1 as (P1 & M1 & L1). simpl in P1, M1.
      assert (Hk1 : k < gsize s1) by (rewrite (Inv_size_keeps _ _ K1); auto).
      assert (Hl1 : glinelen s1 k = 0).
      { eapply keeps_linelen0; eauto. unfold gremove_row, glinelen. rewrite line_upd.
        rewrite Nat.eqb_refl. apply Nat.ltb_lt in Hke0. rewrite Hke0. auto. }
      assert (Hke : k < length (gents s1)) by (rewrite (I_len s1 I1); auto).
      set (nl := gline s k ++ browf (gbase s) k (glinelen s k) e).
      assert (G : good_line (gbase s) k nl).
      { unfold nl. apply good_extend; auto; [intros c Hlt; apply (I_val s I); auto|unfold glinelen in *; lia]. }
      assert (Lnl : length nl = e).
      { unfold nl. rewrite app_length, brow_length by auto. unfold glinelen in *. lia. }
      assert (Inv (gadd_front k nl s1)) as I2.
      { apply add_front_inv; auto.
        - intros Hb. rewrite Hb in Lnl. simpl in Lnl. lia.
        - rewrite Lnl. lia.
        - rewrite Lnl. rewrite (Inv_size_keeps _ _ K1). exact Hen.
        - rewrite P1. exact G. }
      assert (EL : gline (gadd_front k nl s1) k = nl).
      { unfold gadd_front. rewrite line_upd, Nat.eqb_refl.
        apply Nat.ltb_lt in Hke. rewrite Hke. reflexivity. }
      cbv zeta. split; [exact I2|]. split; [exact P1|]. split; [exact M1|].
      unfold glinelen at 1. rewrite EL. split; [lia|].
      split; [exact G|].
      intros x Hx. unfold gadd_front. rewrite line_upd.
      destruct (Nat.eqb_spec k x); [congruence|]. cbn [andb].
      destruct (L1 x) as [E|E]; [|right; exact E].
      left. rewrite E. apply remove_row_line_neq. auto.
Qed.

(* ---- flips ---- *)
Lemma flip_line_length (p : Bt) i j k l : length (gflip_line p i j k l) = length l.
Proof.
  unfold gflip_line. destruct (_ <=? _); auto. destruct (_ <? _); rewrite ?upd_length; auto.
Qed.

Lemma flip_line_good p i j k l :
  i < j -> good_line p k l ->
  forall c, c < length l -> nth c (gflip_line p i j k l) gv = bentry p k (tr i j c).
Proof.
  intros Hij G c Hc. unfold gflip_line.
  destruct (Nat.leb_spec (length l) i) as [H1|H1].
  - rewrite tr_other by lia. apply G; auto.
  - destruct (Nat.ltb_spec j (length l)) as [H2|H2].
    + rewrite !nth_upd, upd_length.
      assert (i <? length l = true) as -> by (apply Nat.ltb_lt; lia).
      assert (j <? length l = true) as -> by (apply Nat.ltb_lt; lia).
      rewrite !andb_true_r. unfold tr. rewrite (Nat.eqb_sym i c), (Nat.eqb_sym j c).
      destruct (Nat.eqb_spec c i) as [->|?]; [apply G; lia|].
      destruct (Nat.eqb_spec c j) as [->|?]; apply G; lia.
    + rewrite nth_upd.
      assert (i <? length l = true) as -> by (apply Nat.ltb_lt; lia).
      rewrite andb_true_r. unfold tr. rewrite (Nat.eqb_sym i c).
      destruct (Nat.eqb_spec c i) as [->|?]; auto.
      destruct (Nat.eqb_spec c j) as [->|?]; [lia|]. apply G; auto.
Qed.

Lemma flip_line_nil (p : Bt) i j k : gflip_line p i j k [] = [].
Proof. unfold gflip_line. simpl. auto. Qed.

Lemma nth_map_seq {A} (f : nat -> A) n k d : k < n -> nth k (map f (seq 0 n)) d = f k.
Proof.
  intros H. rewrite nth_indep with (d' := f 0) by (rewrite map_length, seq_length; auto).
  rewrite map_nth with (d := 0). rewrite seq_nth; auto.
Qed.

Lemma tr_lt_iff i j k n : i < n -> j < n -> (tr i j k < n <-> k < n).
Proof.
  intros Hi Hj. split; intros H; [|apply tr_lt; auto].
  rewrite <- (tr_invol i j k). apply tr_lt; auto.
Qed.

Lemma linelen_mk (s : st) (b : Bt) L c m e k : glinelen (gmk b (gents s) L c m e) k = glinelen s k.
Proof. reflexivity. Qed.
Lemma line_mk (s : st) (b : Bt) L c m e k : gline (gmk b (gents s) L c m e) k = gline s k.
Proof. reflexivity. Qed.

Lemma line_overflow (s : st) k : length (gents s) <= k -> gline s k = [].
Proof. intros. unfold gline. apply nth_overflow. auto. Qed.

(* the base state after CachedMatrix::flipColumnsAndRows(i0,j0) *)
Definition flipped_base (i0 j0 : nat) (b : Bt) : Bt :=
  if i0 =? j0 then b else bflip (Nat.min i0 j0) (Nat.max i0 j0) b.

Lemma cm_flip_inv i0 j0 s :
  Inv s -> i0 < gsize s -> j0 < gsize s ->
  let s' := gcm_flip i0 j0 s in
  Inv s' /\ gbase s' = flipped_base i0 j0 (gbase s) /\ gcmax s' = gcmax s /\ gsize s' = gsize s /\
  gcsize s' = gcsize s /\ length (glru s') = length (glru s) /\
  (forall k, glinelen s' k = glinelen s (tr i0 j0 k)).
Proof.
  intros I Hi0 Hj0. cbv zeta. unfold gcm_flip, flipped_base.
  destruct (Nat.eqb_spec i0 j0) as [->|Hne].
  { assert (T : forall k, tr j0 j0 k = k) by (intros k; unfold tr; destruct (Nat.eqb_spec k j0); auto).
    repeat (split; [solve [auto]|]). intros k. rewrite T. reflexivity. }
  set (i := Nat.min i0 j0). set (j := Nat.max i0 j0).
  assert (Hij : i < j) by (unfold i, j; lia).
  assert (Hi : i < gsize s) by (unfold i; lia). assert (Hj : j < gsize s) by (unfold j; lia).
  assert (Etr : forall k, tr i j k = tr i0 j0 k).
  { intros k. destruct (Nat.le_gt_cases i0 j0).
    - unfold i, j. rewrite Nat.min_l, Nat.max_r by lia. auto.
    - unfold i, j. rewrite Nat.min_r, Nat.max_l by lia.
      unfold tr. destruct (Nat.eqb_spec k j0); destruct (Nat.eqb_spec k i0); subst; auto; lia. }
  pose proof (I_ok s I) as OK.
  set (ents1 := map (fun k => gflip_line (gbase s) i j k (nth k (gents s) [])) (seq 0 (length (gents s)))).
  assert (L1 : length ents1 = gsize s) by (unfold ents1; rewrite map_length, seq_length; apply (I_len s I)).
  assert (N1 : forall k, nth k ents1 [] = gflip_line (gbase s) i j k (gline s k)).
  { intros k. destruct (Nat.lt_ge_cases k (length (gents s))) as [H|H].
    - unfold ents1. rewrite nth_map_seq; auto.
    - rewrite nth_overflow by (rewrite L1, <- (I_len s I); auto).
      unfold gline. rewrite nth_overflow by auto. rewrite flip_line_nil. auto. }
  set (s1 := gmk (gbase s) ents1 (glru s) (gcsize s) (gcmax s) (gerr s)).
  assert (LL1 : forall k, glinelen s1 k = glinelen s k).
  { intros k. unfold glinelen, gline, s1. simpl. rewrite N1, flip_line_length. auto. }
  (* characterisation of the state after swapLineIndices, valid in both of its branches *)
  set (s2 := gswap_line_indices i j s1).
  assert (P2 : gbase s2 = gbase s /\ gcsize s2 = gcsize s /\ gcmax s2 = gcmax s /\ gerr s2 = gerr s).
  { unfold s2, gswap_line_indices. destruct (_ || _); simpl; auto. }
  assert (E2 : length (gents s2) = gsize s).
  { unfold s2, gswap_line_indices. destruct (_ || _); simpl; auto. rewrite swapl_length; auto. }
  assert (N2 : forall k, gline s2 k = gflip_line (gbase s) i j (tr i j k) (gline s (tr i j k))).
  { intros k. unfold s2, gswap_line_indices.
    destruct (Nat.eqb_spec i j); [lia|]. cbn [orb].
    destruct (Nat.eqb_spec (glinelen s1 i) 0) as [Z1|Z1]; destruct (Nat.eqb_spec (glinelen s1 j) 0) as [Z2|Z2]; cbn [andb].
    2,3,4: unfold gline at 1; simpl; rewrite nth_swapl by (rewrite L1; auto); apply N1.
    unfold gline at 1. simpl. rewrite N1.
    rewrite LL1 in Z1, Z2. unfold glinelen in Z1, Z2.
    unfold tr. destruct (Nat.eqb_spec k i) as [->|?].
    - apply length_zero_iff_nil in Z1, Z2. rewrite Z1, Z2, !flip_line_nil. auto.
    - destruct (Nat.eqb_spec k j) as [->|?]; auto.
      apply length_zero_iff_nil in Z1, Z2. rewrite Z1, Z2, !flip_line_nil. auto. }
  assert (LL2 : forall k, glinelen s2 k = glinelen s (tr i j k)).
  { intros k. unfold glinelen. rewrite N2, flip_line_length. auto. }
  assert (R2 : forall k, In k (glru s2) <-> In (tr i j k) (glru s)).
  { intros k. unfold s2, gswap_line_indices.
    destruct (Nat.eqb_spec i j); [lia|]. cbn [orb].
    destruct ((glinelen s1 i =? 0) && (glinelen s1 j =? 0)) eqn:EZ.
    - simpl. apply andb_prop in EZ. destruct EZ as [Z1 Z2].
      apply Nat.eqb_eq in Z1, Z2. rewrite LL1 in Z1, Z2.
      unfold tr. destruct (Nat.eqb_spec k i) as [->|?].
      + rewrite !(I_lru s I). split; intros [_ H]; lia.
      + destruct (Nat.eqb_spec k j) as [->|?]; [|tauto].
        rewrite !(I_lru s I). split; intros [_ H]; lia.
    - simpl. rewrite in_map_iff. split.
      + intros (x & <- & Hx). rewrite tr_invol. auto.
      + intros H. exists (tr i j k). split; auto. apply tr_invol. }
  assert (ND2 : NoDup (glru s2)).
  { unfold s2, gswap_line_indices. destruct (_ || _); simpl; [apply (I_nd s I)|].
    apply FinFun.Injective_map_NoDup; [|apply (I_nd s I)]. intros a b. apply tr_inj. }
  destruct P2 as (P2 & C2 & M2 & Er2).
  assert (SZ : bsize (bflip i j (gbase s2)) = gsize s).
  { rewrite P2. apply (fa_size ok FA); auto. }
  assert (LN2 : length (glru s2) = length (glru s)).
  { unfold s2, gswap_line_indices. destruct (_ || _); simpl; auto. apply map_length. }
  split; [|split; [simpl; rewrite P2; reflexivity|split; [simpl; exact M2|split; [unfold gsize at 1; simpl; exact SZ|
           split; [simpl; exact C2|split; [simpl; exact LN2|intros k; rewrite linelen_mk, LL2, Etr; reflexivity]]]]]].
  constructor; simpl; unfold gsize; simpl; rewrite ?SZ.
  - rewrite P2. apply (fa_ok ok FA); auto.
  - exact E2.
  - exact ND2.
  - intros k. rewrite linelen_mk.
    rewrite R2, (I_lru s I). rewrite LL2. rewrite (tr_lt_iff i j k (gsize s)) by auto. tauto.
  - rewrite C2, (I_size s I).
    transitivity (tot ents1).
    + apply tot_ext_length; [rewrite L1; apply (I_len s I)|].
      intros k. rewrite N1, flip_line_length. auto.
    + unfold s2, gswap_line_indices. destruct (_ || _); simpl; auto.
      symmetry. apply tot_swapl; rewrite L1; auto.
  - rewrite C2, M2. apply (I_cap s I).
  - intros k. rewrite linelen_mk, LL2. apply (I_llen s I).
  - intros k c. rewrite linelen_mk, line_mk. unfold glinelen. rewrite N2, flip_line_length. intros Hc. rewrite P2.
    assert (Hcn : c < gsize s) by (pose proof (I_llen s I (tr i j k)); unfold glinelen in *; lia).
    assert (Hkn : k < gsize s).
    { apply (tr_lt_iff i j k (gsize s)); auto.
      destruct (Nat.lt_ge_cases (tr i j k) (gsize s)) as [?|Hge]; auto.
      rewrite line_overflow in Hc by (rewrite (I_len s I); exact Hge). simpl in Hc. lia. }
    rewrite (fa_entry ok FA) by auto.
    apply flip_line_good; auto. intros c' Hc'. apply (I_val s I). exact Hc'.
  - rewrite Er2. apply (I_err s I).
Qed.

(* ---- setMaxCachedIndex, clear ---- *)
Lemma mark_perm k (s : st) :
  gbase (gmark_for_deletion k s) = gbase s /\ gcmax (gmark_for_deletion k s) = gcmax s /\
  gents (gmark_for_deletion k s) = gents s /\ gcsize (gmark_for_deletion k s) = gcsize s.
Proof. unfold gmark_for_deletion. destruct (_ =? _); auto. Qed.

Lemma set_max_inv m s : Inv s ->
  let s' := gcm_set_max_cached_index m s in
  Inv s' /\ gbase s' = gbase s /\ gcmax s' = gcmax s /\ gents s' = gents s /\ gcsize s' = gcsize s.
Proof.
  unfold gcm_set_max_cached_index.
  assert (forall l s, Inv s -> (forall k, In k l -> k < gsize s) ->
            let s' := fold_left (fun s k => gmark_for_deletion k s) l s in
            Inv s' /\ gbase s' = gbase s /\ gcmax s' = gcmax s /\ gents s' = gents s /\ gcsize s' = gcsize s) as H.
  { induction l as [|h t IH]; intros s0 I0 HL; simpl; auto.
    destruct (mark_perm h s0) as (P1 & M1 & E1 & C1).
    specialize (IH (gmark_for_deletion h s0) (mark_inv s0 h I0 (HL h (or_introl eq_refl)))).
    destruct IH as (A1 & B1 & C2 & D1 & F1).
    { intros k Hk. unfold gsize. rewrite P1. apply HL. right; auto. }
    split; auto. repeat split; congruence. }
  intros I. apply H; auto. intros k Hk. apply in_seq in Hk. lia.
Qed.

Lemma clear_inv s : Inv s -> Inv (glru_clear s) /\ gbase (glru_clear s) = gbase s /\ gcmax (glru_clear s) = gcmax s.
Proof.
  intros I. destruct (gensure_free'_spec (gcmax s) s I (le_n _)) as (A1 & B1 & (P1 & M1 & _)). auto.
Qed.

Lemma clear_empties s : Inv s -> gcsize (glru_clear s) = 0.
Proof.
  intros I. destruct (gensure_free'_spec (gcmax s) s I (le_n _)) as (A1 & B1 & (P1 & M1 & _)).
  unfold glru_clear. rewrite M1 in B1. pose proof (I_cap _ A1) as H. rewrite M1 in H. lia.
Qed.

(* an empty cache lists no line and holds no line *)
Lemma csize0_empty s : Inv s -> gcsize s = 0 -> glru s = [] /\ forall k, glinelen s k = 0.
Proof.
  intros I Z.
  assert (L0 : forall k, glinelen s k = 0).
  { intros k. pose proof (tot_nth_le k (gents s)) as H. rewrite <- (I_size s I), Z in H.
    unfold glinelen, gline. lia. }
  split; auto. destruct (glru s) as [|k t] eqn:E; auto. exfalso.
  assert (In k (glru s)) as Hin by (rewrite E; left; auto).
  apply (I_lru s I) in Hin. destruct Hin as [_ Hn]. apply Hn, L0.
Qed.

(* ---- all histories ---- *)

Lemma step_inv s o : Inv s -> Inv (gstep s o) /\ gcmax (gstep s o) = gcmax s /\ gsize (gstep s o) = gsize s.
Proof.
  intros I. unfold gstep. destruct (gwf_op s o) eqn:W; auto.
  destruct o as [k a e|i j|m| |k a e]; wf_split W.
  - destruct (cm_row_inv k e s I) as (A1 & B1 & C1 & _); auto. unfold gsize. rewrite B1. auto.
  - destruct (cm_flip_inv i j s I) as (A1 & B1 & C1 & D1 & _); auto.
  - destruct (set_max_inv m s I) as (A1 & B1 & C1 & _). unfold gsize. rewrite B1. auto.
  - destruct (clear_inv s I) as (A1 & B1 & C1). unfold gsize. rewrite B1. auto.
  - auto.
Qed.

Theorem run_inv ops s : Inv s -> Inv (grun s ops).
Proof.
  revert s; induction ops as [|o ops IH]; intros s I; simpl; auto.
  apply IH. apply step_inv. exact I.
Qed.

Theorem reachable_inv b mx ops : ok b -> Inv (grun (ginit b mx) ops).
Proof. intros. apply run_inv, init_inv. auto. Qed.

(* ---- what a row request returns (in terms of the CURRENT base state) ---- *)
Theorem row_returns_true_entries k a e s :
  Inv s -> gwf_op s (GRow k a e) = true ->
  let s' := gstep s (GRow k a e) in
  gbase s' = gbase s /\ e <= glinelen s' k /\
  forall c, c < e -> nth c (gline s' k) gv = bentry (gbase s) k c.
Proof.
  intros I W. unfold gstep. rewrite W. wf_split W.
  destruct (cm_row_inv k e s I) as (A1 & B1 & C1 & D1 & G & _); auto.
  split; auto. split; auto. intros c Hc. apply G. unfold glinelen in D1. lia.
Qed.

(* total: every request start <= end <= size writes exactly the cells [start,end) *)
Theorem const_row_returns_true_entries k a e s :
  Inv s -> k < gsize s -> a <= e -> e <= gsize s ->
  length (gcm_row_const k a e s) = e - a /\
  forall c, c < e - a -> nth c (gcm_row_const k a e s) gv = bentry (gbase s) k (a + c).
Proof.
  intros I Hk Hae Hen. pose proof (I_ok s I) as OK. unfold gcm_row_const.
  set (m := Nat.min (glinelen s k) e). set (f := Nat.max a m).
  assert (G0 : good_line (gbase s) k (gline s k)) by (intros c Hc; apply (I_val s I); exact Hc).
  assert (LB : length (browf (gbase s) k f e) = e - f) by (apply brow_length; auto).
  assert (LF : length (firstn (m - a) (skipn a (gline s k))) = m - a).
  { rewrite firstn_length, skipn_length. unfold m, glinelen. lia. }
  split.
  - rewrite app_length, LF, LB. unfold f, m. lia.
  - intros c Hc. destruct (Nat.lt_ge_cases c (m - a)) as [Hlt|Hge].
    + rewrite app_nth1 by (rewrite LF; exact Hlt). rewrite nth_firstn_lt by exact Hlt.
      rewrite nth_skipn_add. apply G0. unfold m, glinelen in *. lia.
    + rewrite app_nth2 by (rewrite LF; exact Hge). rewrite LF.
      rewrite brow_nth by (auto; unfold f, m in *; lia). f_equal. unfold f, m in *. lia.
Qed.

(* ---- two rows ---- *)
Lemma cm_row_head k e s :
  Inv s -> k < gsize s -> 0 < e -> e <= gsize s -> exists rest, glru (gcm_row k e s) = k :: rest.
Proof.
  intros I Hk He Hen. pose proof (I_ok s I) as OK.
  destruct (Nat.eq_dec (glinelen s k) 0) as [E0|E0].
  - rewrite cm_row_create by auto. simpl. eauto.
  - destruct (Nat.le_gt_cases e (glinelen s k)).
    + rewrite cm_row_hit by auto. simpl. eauto.
    + rewrite cm_row_extend; auto; [simpl; eauto|rewrite (I_len s I); auto|].
      unfold gensure_free'. rewrite ensure_free_ents_length. simpl. apply upd_length.
Qed.

Theorem two_rows_valid i a0 a j b0 b s :
  Inv s -> i <> j ->
  gwf_op s (GRow i a0 a) = true ->
  let s1 := gstep s (GRow i a0 a) in
  gwf_op s1 (GRow j b0 b) = true ->
  glinelen s1 i + b <= gcmax s ->
  let s2 := gstep s1 (GRow j b0 b) in
  gline s2 i = gline s1 i /\ a <= glinelen s2 i.
Proof.
  intros I Hij W1 s1 W2 Hcap s2. unfold s2, s1 in *. clear s1 s2.
  unfold gstep in *. rewrite W1 in *. rewrite W2.
  wf_split W1. wf_split W2.
  destruct (cm_row_inv i a s I) as (I1 & P1 & M1 & D1 & _ & _); auto.
  destruct (cm_row_head i a s I) as (rest & HL); auto.
  set (s1 := gcm_row i a s) in *.
  rewrite <- M1 in Hcap. pose proof (I_ok s1 I1) as OK1.
  assert (Hj1 : j < length (gents s1)) by (rewrite (I_len s1 I1); auto).
  assert (gline (gcm_row j b s1) i = gline s1 i) as E.
  { destruct (Nat.eq_dec (glinelen s1 j) 0) as [E0|E0].
    - rewrite cm_row_create by auto.
      destruct (ensure_free_head (length (glru s1)) b s1 i rest I1 HL Hcap) as [A1 _].
      unfold gadd_front. rewrite line_upd. destruct (Nat.eqb_spec j i); [congruence|]. exact A1.
    - destruct (Nat.le_gt_cases b (glinelen s1 j)).
      + rewrite cm_row_hit by auto. reflexivity.
      + rewrite cm_row_extend; auto.
        2:{ unfold gensure_free'. rewrite ensure_free_ents_length. simpl. apply upd_length. }
        assert (In j (glru s1)) as Hin by (apply (I_lru s1 I1); auto).
        assert (Inv (gremove_row j s1)) as Ir by (apply remove_row_inv; auto).
        assert (glru (gremove_row j s1) = i :: remove_nat j rest) as HL'.
        { simpl. rewrite HL. cbn [remove_nat]. destruct (Nat.eqb_spec i j); [congruence|auto]. }
        assert (glinelen (gremove_row j s1) i + b <= gcmax (gremove_row j s1)) as Hcap'.
        { unfold glinelen. rewrite remove_row_line_neq by auto. exact Hcap. }
        destruct (ensure_free_head (length (glru (gremove_row j s1))) b _ i _ Ir HL' Hcap') as [A1 _].
        unfold gadd_front. rewrite line_upd. destruct (Nat.eqb_spec j i); [congruence|].
        cbn [andb]. unfold gensure_free'. rewrite A1. apply remove_row_line_neq. auto. }
  split; auto. unfold glinelen. rewrite E. exact D1.
Qed.

End CompProofs.

(* ================= the composed statement ================= *)

Lemma tot_const {A} (m : list (list A)) w :
  (forall r, r < length m -> length (nth r m []) = w) -> tot m = length m * w.
Proof.
  induction m as [|h t IH]; intros R; simpl; auto.
  rewrite IH.
  - pose proof (R 0 ltac:(simpl; lia)) as R0. simpl in R0. rewrite R0. reflexivity.
  - intros r Hr. apply (R (S r)). simpl. lia.
Qed.

Lemma map_nth_seq0 {A} (l : list A) d : map (fun k => nth k l d) (seq 0 (length l)) = l.
Proof.
  apply nth_ext with (d := d) (d' := d); [rewrite map_length, seq_length; auto|].
  intros k Hk. rewrite map_length, seq_length in Hk.
  rewrite nth_indep with (d' := (fun k => nth k l d) 0) by (rewrite map_length, seq_length; auto).
  rewrite map_nth with (f := fun k => nth k l d) (d := 0). rewrite seq_nth by auto. reflexivity.
Qed.

Lemma swapl_perm0 {A} (d : A) i j l : i < length l -> j < length l -> Permutation (swapl d i j l) l.
Proof.
  intros Hi Hj.
  assert (swapl d i j l = map (fun k => nth k l d) (map (tr i j) (seq 0 (length l)))) as ->.
  { apply nth_ext with (d := d) (d' := d).
    - rewrite swapl_length, !map_length, seq_length. auto.
    - intros n Hn. rewrite swapl_length in Hn. rewrite nth_swapl by auto.
      rewrite map_map. symmetry.
      set (f := fun x => nth (tr i j x) l d).
      rewrite nth_indep with (d' := f 0) by (rewrite map_length, seq_length; auto).
      rewrite map_nth with (f := f) (d := 0).
      rewrite seq_nth by auto. reflexivity. }
  rewrite <- (map_nth_seq0 l d) at 2.
  apply Permutation_map. apply NoDup_Permutation_bis.
  - apply Injective_map_NoDup; [intros a b; apply tr_inj|apply seq_NoDup].
  - rewrite map_length. auto.
  - intros x Hx. apply in_map_iff in Hx. destruct Hx as (y & <- & Hy). apply in_seq in Hy.
    apply in_seq. pose proof (tr_lt i j y (length l) Hi Hj). lia.
Qed.

Section Composed.
Context {Vt Bt : Type} {MO : MatOps Vt Bt}.
Variable ok : Bt -> Prop.
Hypothesis FA : flip_aware ok.
Local Notation st := (gst Vt Bt).
Variable b0 : Bt.
Hypothesis OK0 : ok b0.
Local Notation n := (bsize b0).

(* [p] is the variable order: the entry (a,c) of the current base state is the ORIGINAL entry
   (p a, p c) *)
Definition under (b : Bt) (p : list nat) : Prop :=
  forall a c, a < n -> c < n -> bentry b a c = bentry b0 (nth a p 0) (nth c p 0).

Lemma under_init : under b0 (seq 0 n).
Proof. intros a c Ha Hc. rewrite !seq_nth by auto. reflexivity. Qed.

Lemma tr_sym i j k : tr i j k = tr j i k.
Proof.
  unfold tr. destruct (Nat.eqb_spec k i); destruct (Nat.eqb_spec k j); subst; auto.
Qed.

Lemma under_flip b p i j :
  ok b -> bsize b = n -> length p = n -> i < n -> j < n -> under b p ->
  under (bflip i j b) (swapl 0 i j p).
Proof.
  intros OK SZ LP Hi Hj U a c Ha Hc.
  rewrite (fa_entry ok FA) by (auto; rewrite SZ; auto).
  rewrite !nth_swapl by (rewrite LP; auto).
  apply U; apply tr_lt; auto.
Qed.

Lemma under_flipped_base b p i j :
  ok b -> bsize b = n -> length p = n -> i < n -> j < n -> under b p ->
  under (flipped_base i j b) (swapl 0 i j p).
Proof.
  intros OK SZ LP Hi Hj U. unfold flipped_base.
  destruct (Nat.eqb_spec i j) as [->|Hne]; [rewrite swapl_same; exact U|].
  assert (E : swapl 0 i j p = swapl 0 (Nat.min i j) (Nat.max i j) p).
  { destruct (Nat.le_gt_cases i j).
    - rewrite Nat.min_l, Nat.max_r by lia. auto.
    - rewrite Nat.min_r, Nat.max_l by lia.
      apply nth_ext with (d := 0) (d' := 0); [rewrite !swapl_length; auto|].
      intros k _. rewrite !nth_swapl by lia. f_equal. apply tr_sym. }
  rewrite E. apply under_flip; auto; lia.
Qed.

Record CInv (s : st) (p : list nat) : Prop := {
  C_inv  : Inv ok s;
  C_size : gsize s = n;
  C_plen : length p = n;
  C_perm : Permutation p (seq 0 n);
  C_base : under (gbase s) p
}.

Lemma cinv_init mx : CInv (ginit b0 mx) (seq 0 n).
Proof.
  constructor.
  - apply init_inv; auto.
  - reflexivity.
  - apply seq_length.
  - apply Permutation_refl.
  - apply under_init.
Qed.

Lemma cinv_step s p o : CInv s p -> CInv (gstep s o) (cperm_step n p o).
Proof.
  intros [I SZ LP PP U].
  assert (NOP : forall p', p' = p -> CInv s p') by (intros p' ->; constructor; auto).
  unfold gstep. destruct (gwf_op s o) eqn:W.
  2:{ apply NOP. destruct o; simpl; auto. simpl in W. rewrite SZ in W. rewrite W. reflexivity. }
  destruct o as [k a e|i j|m| |k a e]; simpl cperm_step.
  - wf_split W. destruct (cm_row_inv ok FA k e s I) as (A1 & B1 & C1 & _); auto.
    constructor; auto. + unfold gsize. rewrite B1. exact SZ. + rewrite B1. exact U.
  - simpl in W. rewrite SZ in W. rewrite W. wf_split W.
    destruct (cm_flip_inv ok FA i j s I) as (A1 & B1 & C1 & D1 & _); try lia.
    constructor; auto.
    + lia.
    + rewrite swapl_length. exact LP.
    + eapply perm_trans; [apply swapl_perm0; lia|exact PP].
    + rewrite B1. apply under_flipped_base; auto. apply (I_ok ok s I).
  - destruct (set_max_inv ok m s I) as (A1 & B1 & C1 & _).
    constructor; auto. + unfold gsize. rewrite B1. exact SZ. + rewrite B1. exact U.
  - destruct (clear_inv ok s I) as (A1 & B1 & C1).
    constructor; auto. + unfold gsize. rewrite B1. exact SZ. + rewrite B1. exact U.
  - constructor; auto.
Qed.

Lemma cinv_run ops s p : CInv s p -> CInv (grun s ops) (fold_left (cperm_step n) ops p).
Proof.
  revert s p; induction ops as [|o ops IH]; intros s p C; simpl; auto.
  apply IH, cinv_step, C.
Qed.

Theorem composed_inv mx ops : CInv (grun (ginit b0 mx) ops) (cperm n ops).
Proof. apply cinv_run, cinv_init. Qed.

Lemma run_cmax ops (s : st) : Inv ok s -> gcmax (grun s ops) = gcmax s.
Proof.
  revert s; induction ops as [|o ops IH]; intros s I; simpl; auto.
  destruct (step_inv ok FA s o I) as (A1 & B1 & _). rewrite IH by auto. exact B1.
Qed.

(* cells of a line: only inside the matrix *)
Lemma cell_in_range s k c : Inv ok s -> c < glinelen s k -> k < gsize s /\ c < gsize s.
Proof.
  intros I H. split; [|pose proof (I_llen ok s I k); lia].
  destruct (Nat.lt_ge_cases k (gsize s)) as [?|Hge]; auto.
  unfold glinelen in H. rewrite line_overflow in H by (rewrite (I_len ok s I); exact Hge). simpl in H. lia.
Qed.

(* THE composed statement: every reachable state of the cache stacked on the flip-aware base *)
Theorem composed_cache_sound mx ops :
  let s := grun (ginit b0 mx) ops in let p := cperm n ops in
  gcsize s <= gcmax s /\ gcmax s = mx /\ gcsize s = tot (gents s) /\ NoDup (glru s) /\
  (forall k, In k (glru s) <-> k < n /\ glinelen s k <> 0) /\
  (forall k, glinelen s k <= n) /\
  Permutation p (seq 0 n) /\
  (forall k c, c < glinelen s k -> nth c (gline s k) gv = bentry b0 (nth k p 0) (nth c p 0)) /\
  (forall a c, a < n -> c < n -> gcm_entry s a c = bentry b0 (nth a p 0) (nth c p 0)) /\
  gerr s = false.
Proof.
  intros s p. destruct (composed_inv mx ops) as [I SZ LP PP U]. fold s in I, SZ, U. fold p in LP, PP, U.
  split; [apply I|]. split; [unfold s; rewrite run_cmax by (apply init_inv; auto); reflexivity|].
  split; [apply I|]. split; [apply I|].
  split; [intros k; rewrite <- SZ; apply (I_lru ok s I)|].
  split; [intros k; rewrite <- SZ; apply (I_llen ok s I)|].
  split; [exact PP|].
  split; [|split; [exact U|apply I]].
  intros k c Hc. destruct (cell_in_range s k c I Hc) as [Hk Hcn]. rewrite SZ in Hk, Hcn.
  rewrite (I_val ok s I) by exact Hc. apply U; auto.
Qed.

(* a row request of ANY prefix length after ANY history returns the original entries under the
   composed order; the order itself is not changed by the request *)
Theorem composed_row mx ops k a e :
  let s := grun (ginit b0 mx) ops in let p := cperm n ops in
  gwf_op s (GRow k a e) = true ->
  let s' := gstep s (GRow k a e) in
  cperm n (ops ++ [GRow k a e]) = p /\ e <= glinelen s' k /\
  forall c, c < e -> nth c (gline s' k) gv = bentry b0 (nth k p 0) (nth c p 0).
Proof.
  intros s p W s'. destruct (composed_inv mx ops) as [I SZ LP PP U]. fold s in I, SZ, U. fold p in LP, PP, U.
  destruct (row_returns_true_entries ok FA k a e s I W) as (B1 & D1 & G). fold s' in B1, D1, G.
  split; [unfold cperm; rewrite fold_left_app; reflexivity|]. split; [exact D1|].
  intros c Hc. rewrite G by exact Hc. wf_split W. apply U; lia.
Qed.

(* the const overload (out-of-order access into caller storage): for EVERY sub-range a <= e <= n exactly the
   cells [a,e), the cache state is not an argument of the result type (observation only) *)
Theorem composed_row_const mx ops k a e :
  let s := grun (ginit b0 mx) ops in let p := cperm n ops in
  k < n -> a <= e -> e <= n ->
  gstep s (GRowC k a e) = s /\
  length (gcm_row_const k a e s) = e - a /\
  forall c, c < e - a -> nth c (gcm_row_const k a e s) gv = bentry b0 (nth k p 0) (nth (a + c) p 0).
Proof.
  intros s p Hk Hae Hen. destruct (composed_inv mx ops) as [I SZ LP PP U]. fold s in I, SZ, U. fold p in LP, PP, U.
  destruct (const_row_returns_true_entries ok FA k a e s I) as [L1 V1]; try lia.
  split; [unfold gstep; destruct (gwf_op s (GRowC k a e)); reflexivity|]. split; [exact L1|].
  intros c Hc. rewrite V1 by exact Hc. apply U; lia.
Qed.

(* the base matrix alone, after any list of flips *)
Lemma bflips_under fl : 
  let b := bflips fl b0 in let p := flips_perm n fl in
  ok b /\ bsize b = n /\ length p = n /\ Permutation p (seq 0 n) /\ under b p.
Proof.
  unfold bflips, flips_perm.
  assert (G : forall fl b p, ok b -> bsize b = n -> length p = n -> Permutation p (seq 0 n) -> under b p ->
     let b' := fold_left (fun b ij => if (fst ij <? bsize b) && (snd ij <? bsize b) then bflip (fst ij) (snd ij) b else b) fl b in
     let p' := fold_left (fun p ij => if (fst ij <? n) && (snd ij <? n) then swapl 0 (fst ij) (snd ij) p else p) fl p in
     ok b' /\ bsize b' = n /\ length p' = n /\ Permutation p' (seq 0 n) /\ under b' p').
  { clear fl. induction fl as [|[i j] fl IH]; intros b p OK SZ LP PP U; simpl; auto.
    rewrite SZ. destruct ((i <? n) && (j <? n)) eqn:W; [|apply IH; auto].
    apply andb_prop in W. destruct W as [W1 W2]. apply Nat.ltb_lt in W1, W2.
    apply IH.
    - apply (fa_ok ok FA); auto; lia.
    - rewrite (fa_size ok FA); auto; lia.
    - rewrite swapl_length. exact LP.
    - eapply perm_trans; [apply swapl_perm0; lia|exact PP].
    - apply under_flip; auto. }
  apply G; [exact OK0|reflexivity|apply seq_length|apply Permutation_refl|apply under_init].
Qed.

End Composed.

(* ---- PrecomputedMatrix<Matrix> over a base whose matrix() is correct at construction time; the
        base is never consulted again, so no law about its flips is needed ---- *)
Section Precomp.
Context {Vt Bt : Type} {MO : MatOps Vt Bt}.
Variable b0 : Bt.
Hypothesis MAT0 : mat_ok b0.
Local Notation n := (bsize b0).

Definition square (m : list (list Vt)) : Prop := length m = n /\ forall r, r < n -> length (nth r m []) = n.

Lemma pm_flip_square i j m : square m -> i < n -> j < n -> square (pm_flip i j m).
Proof.
  intros [L R] Hi Hj. unfold pm_flip. split.
  - rewrite map_length, swapl_length. exact L.
  - intros r Hr.
    rewrite nth_indep with (d' := swapl gv i j []) by (rewrite map_length, swapl_length, L; exact Hr).
    rewrite map_nth, swapl_length. rewrite nth_swapl by (rewrite L; auto). apply R. apply tr_lt; auto.
Qed.

Lemma pm_flip_entry i j m a c : square m -> i < n -> j < n -> a < n -> c < n ->
  pm_entry (pm_flip i j m) a c = pm_entry m (tr i j a) (tr i j c).
Proof.
  intros [L R] Hi Hj Ha Hc. unfold pm_entry, pm_flip.
  rewrite nth_indep with (d' := swapl gv i j []) (n := a) by (rewrite map_length, swapl_length, L; exact Ha).
  rewrite map_nth. rewrite (nth_swapl [] i j m a) by (rewrite L; assumption).
  assert (Lr : length (nth (tr i j a) m []) = n) by (apply R; apply tr_lt; assumption).
  rewrite nth_swapl by (rewrite Lr; assumption). reflexivity.
Qed.

Lemma pm_init_square : square (pm_init b0) /\ forall a c, a < n -> c < n -> pm_entry (pm_init b0) a c = bentry b0 a c.
Proof.
  unfold pm_init, square, pm_entry. pose proof MAT0 as E0. unfold mat_ok in E0. rewrite E0. clear E0.
  assert (R : forall r, r < n -> nth r (map (fun i => map (bentry b0 i) (seq 0 n)) (seq 0 n)) [] = map (bentry b0 r) (seq 0 n)).
  { intros r Hr. apply (nth_map_seq (fun i => map (bentry b0 i) (seq 0 n))). exact Hr. }
  split; [split|].
  - rewrite map_length, seq_length. reflexivity.
  - intros r Hr. rewrite R by auto. rewrite map_length, seq_length. reflexivity.
  - intros a c Ha Hc. rewrite R by auto.
    rewrite nth_indep with (d' := bentry b0 a 0) by (rewrite map_length, seq_length; auto).
    rewrite map_nth with (d := 0). rewrite seq_nth by auto. reflexivity.
Qed.

Theorem pm_sound fl :
  let m := pm_flips fl (pm_init b0) in let p := flips_perm n fl in
  square m /\ Permutation p (seq 0 n) /\
  forall a c, a < n -> c < n -> pm_entry m a c = bentry b0 (nth a p 0) (nth c p 0).
Proof.
  unfold pm_flips, flips_perm.
  assert (G : forall fl m p, square m -> length p = n -> Permutation p (seq 0 n) ->
     (forall a c, a < n -> c < n -> pm_entry m a c = bentry b0 (nth a p 0) (nth c p 0)) ->
     let m' := fold_left (fun m ij => if (fst ij <? length m) && (snd ij <? length m) then pm_flip (fst ij) (snd ij) m else m) fl m in
     let p' := fold_left (fun p ij => if (fst ij <? n) && (snd ij <? n) then swapl 0 (fst ij) (snd ij) p else p) fl p in
     square m' /\ Permutation p' (seq 0 n) /\
     forall a c, a < n -> c < n -> pm_entry m' a c = bentry b0 (nth a p' 0) (nth c p' 0)).
  { clear fl. induction fl as [|[i j] fl IH]; intros m p SQ LP PP U; simpl; auto.
    rewrite (proj1 SQ). destruct ((i <? n) && (j <? n)) eqn:W; [|apply IH; auto].
    apply andb_prop in W. destruct W as [W1 W2]. apply Nat.ltb_lt in W1, W2.
    apply IH.
    - apply pm_flip_square; auto.
    - rewrite swapl_length. exact LP.
    - eapply perm_trans; [apply swapl_perm0; lia|exact PP].
    - intros a c Ha Hc. rewrite pm_flip_entry by auto. rewrite !nth_swapl by (rewrite LP; auto).
      apply U; apply tr_lt; auto. }
  destruct pm_init_square as [SQ E0].
  apply G; [exact SQ|apply seq_length|apply Permutation_refl|].
  intros a c Ha Hc. rewrite E0 by auto. rewrite !seq_nth by auto. reflexivity.
Qed.

(* both row overloads: the cells [a,e) of row k *)
Theorem pm_row_sound fl k a e :
  let m := pm_flips fl (pm_init b0) in let p := flips_perm n fl in
  k < n -> a <= e -> e <= n ->
  pm_row m k a e = map (fun c => bentry b0 (nth k p 0) (nth c p 0)) (seq a (e - a)).
Proof.
  intros m p Hk Hae Hen. destruct (pm_sound fl) as ([L R] & PP & E). fold m in L, R, E. fold p in PP, E.
  unfold pm_row. apply nth_ext with (d := gv) (d' := gv).
  - rewrite firstn_length, skipn_length, map_length, seq_length, R by auto. lia.
  - intros c Hc. rewrite firstn_length, skipn_length, R in Hc by auto.
    rewrite nth_firstn_lt by lia. rewrite nth_skipn_add.
    rewrite nth_indep with (d' := bentry b0 (nth k p 0) (nth 0 p 0)) (l := map _ _) by (rewrite map_length, seq_length; lia).
    rewrite map_nth with (d := 0) (f := fun c => bentry b0 (nth k p 0) (nth c p 0)). rewrite seq_nth by lia.
    apply (E k (a + c)); lia.
Qed.

(* memory: the table always holds exactly n*n values (getMaxCacheSize = getCacheSize), rows of length n *)
Theorem pm_accounting fl :
  let m := pm_flips fl (pm_init b0) in
  pm_max_cache_size m = n * n /\ pm_size m = n /\ tot m = n * n.
Proof.
  intros m. destruct (pm_sound fl) as ([L R] & _ & _). fold m in L, R.
  unfold pm_max_cache_size, pm_size. rewrite L.
  assert (E0 : length (nth 0 m []) = n).
  { destruct (Nat.eq_dec n 0) as [Z|Z]; [|apply R; lia].
    rewrite Z in *. destruct m; [reflexivity|simpl in L; lia]. }
  rewrite E0. split; [reflexivity|]. split; [reflexivity|].
  rewrite (tot_const m n) by (rewrite L; exact R). rewrite L. reflexivity.
Qed.

End Precomp.
