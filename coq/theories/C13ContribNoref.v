(* C13 — the contribution front end HypervolumeContribution.h and the overloads WITHOUT reference point of
   HypervolumeContribution2D / 3D / MD as coded (after the repairs 0e06fa2a, 1a2ef572): executable model (definitions only).

   Front end (with or without reference point): 2 objectives -> 2-D algorithm, 3 -> 3-D sweep, otherwise MD
   (the approximation algorithm is off by default and not modelled).

   Without reference point every algorithm uses the implicit reference point = component-wise maximum of the set and
   treats the "extreme" points specially: they are only returned, LAST, when fewer than k other points exist.
     2-D: std::sort (lexicographic); candidates = all but the first and the last sorted point;
          result = bestContributors(front, min(k, candidates)) (nothing if there is no candidate);
          appendExtremePoints: if result.size() < k: push (width * (ref2 - front[0].f2), front[0].index) with
          width = front[1].f1 - front[0].f1 (0 for a single point), ref2 = max f2;  if still < k and n > 1: push
          (0, front[last].index).
     3-D: minIndex[j] = first index attaining the minimum of objective j; all contributions w.r.t. the implicit reference
          point, std::sort; for j = 0,1,2 the entry of minIndex[j] is moved from the result to [extremes] (if still there);
          smallest: the first k of the rest; largest: the last k of the rest, reversed; then extremes are appended in
          order while the result has fewer than k entries.
     MD:  the entries of all indices not in minIndex, sorted by (contribution, index); smallest: first k; largest: last k
          reversed; appendExtremePoints: the distinct minIndex values in increasing order with their contributions
          w.r.t. the same implicit reference point, while the result has fewer than k entries.
   bestContributors (heap of k+1 slots, sort_heap) is modelled as "the k best entries in sorted order" (smallest_kv /
   largest_kv): the order among equal contributions is not determined by the code either. *)
From Coq Require Import List ZArith Lia Bool Arith.
From SharkV Require Import ListAux C13Model C13Wfg C13Disp C13Dc C13ContribMd C13Contrib3d.
Import ListNotations.
Local Open Scope Z_scope.

(* ---- front end with reference point *)
Definition contribs_front (hoy : point -> list point -> Z) (ref : point) (S : list point) : list kv :=
  match length ref with
  | 2%nat => contrib2d_ref ref S
  | 3%nat => contribs3d ref S
  | _ => contribs_md_inst hoy ref S
  end.
Definition contrib_front_smallest hoy ref S k : list kv := smallest_kv k (contribs_front hoy ref S).
Definition contrib_front_largest hoy ref S k : list kv := largest_kv k (contribs_front hoy ref S).

(* ---- implicit reference point and the indices of the extreme points *)
Fixpoint pmax_all (p : point) (S : list point) : point :=
  match S with [] => p | q :: t => pmax_all (pmax p q) t end.
Definition implicit_ref (S : list point) : point :=
  match S with [] => [] | p :: t => pmax_all p t end.

(* first index attaining the minimum of objective j (strict < replaces) *)
Fixpoint argmin_from (j : nat) (best : Z) (bi : nat) (i : nat) (S : list point) : nat :=
  match S with
  | [] => bi
  | q :: t => if nth j q 0 <? best then argmin_from j (nth j q 0) i (Datatypes.S i) t
              else argmin_from j best bi (Datatypes.S i) t
  end.
Definition min_index (S : list point) (j : nat) : nat :=
  match S with [] => 0%nat | p :: t => argmin_from j (nth j p 0) 0 1 t end.
Definition min_indices (d : nat) (S : list point) : list nat := map (min_index S) (seq 0 d).

(* ---- 2-D *)
Definition append_extremes2d (front : list ipoint) (res : list kv) (k : nat) : list kv :=
  if (k <=? length res)%nat then res
  else match front with
       | [] => res
       | ((x0, y0), i0) :: t =>
         let ref2 := fold_left (fun m e => Z.max m (snd (fst e))) front y0 in
         let width := match t with [] => 0 | ((x1, _), _) :: _ => x1 - x0 end in
         let res1 := res ++ [(width * (ref2 - y0), i0)] in
         match t with
         | [] => res1
         | _ => if (length res1 <? k)%nat then res1 ++ [(0, snd (last front ((x0, y0), i0)))] else res1
         end
       end.

Definition noref2d (largest : bool) (S : list point) (k : nat) : list kv :=
  let front := sort_lex (indexed S) in
  let cand := (length front - 2)%nat in
  let res := if (cand =? 0)%nat then []
             else (if largest then largest_kv else smallest_kv) (Nat.min k cand) (contrib2d_noref S) in
  append_extremes2d front res k.

(* ---- 3-D *)
(* std::find_if + erase: first entry with the given index *)
Fixpoint take_index (m : nat) (l : list kv) : option (kv * list kv) :=
  match l with
  | [] => None
  | e :: t => if (snd e =? m)%nat then Some (e, t)
              else match take_index m t with Some (x, t') => Some (x, e :: t') | None => None end
  end.
Definition split_extremes (mi : list nat) (all : list kv) : list kv * list kv :=
  fold_left (fun er m => match take_index m (snd er) with
                         | Some (e, rest') => (fst er ++ [e], rest')
                         | None => er
                         end) mi ([], all).

Definition select_rest (largest : bool) (rest : list kv) (k : nat) : list kv :=
  if largest then rev (skipn (length rest - k) rest) else firstn k rest.

Definition noref3d (largest : bool) (S : list point) (k : nat) : list kv :=
  let iref := implicit_ref S in
  let all := sort_kv (contribs3d iref S) in
  let '(ext, rest) := split_extremes (min_indices 3 S) all in
  let sel := select_rest largest rest k in
  sel ++ firstn (k - length sel) ext.

(* ---- MD *)
(* sort by (contribution, index) *)
Fixpoint insert_kvi (p : kv) (l : list kv) : list kv :=
  match l with
  | [] => [p]
  | q :: t => if (fst p <? fst q) || ((fst p =? fst q) && (snd p <? snd q)%nat) then p :: l else q :: insert_kvi p t
  end.
Definition sort_kvi (l : list kv) : list kv := fold_right insert_kvi [] l.

(* std::sort + std::unique on indices *)
Fixpoint insert_nat (v : nat) (l : list nat) : list nat :=
  match l with [] => [v] | w :: t => if (v <=? w)%nat then v :: l else w :: insert_nat v t end.
Fixpoint uniq_nat (l : list nat) : list nat :=
  match l with
  | [] => []
  | v :: t => match t with [] => [v] | w :: _ => if (v =? w)%nat then uniq_nat t else v :: uniq_nat t end
  end.
Definition sort_uniq_nat (l : list nat) : list nat := uniq_nat (fold_right insert_nat [] l).

Definition norefmd (hoy : point -> list point -> Z) (largest : bool) (S : list point) (k : nat) : list kv :=
  let iref := implicit_ref S in
  let d := length iref in
  let mi := min_indices d S in
  let cm i := contrib_md (hv_dispatch hoy) nds_front iref S i in
  let cand := filter (fun i => negb (existsb (Nat.eqb i) mi)) (seq 0 (length S)) in
  let res := sort_kvi (map (fun i => (cm i, i)) cand) in
  let sel := select_rest largest res k in
  let ext := map (fun i => (cm i, i)) (sort_uniq_nat mi) in
  sel ++ firstn (k - length sel) ext.

(* ---- front end without reference point *)
Definition noref_front (hoy : point -> list point -> Z) (largest : bool) (S : list point) (k : nat) : list kv :=
  match S with
  | [] => []
  | p :: _ => match length p with
              | 2%nat => noref2d largest S k
              | 3%nat => noref3d largest S k
              | _ => norefmd hoy largest S k
              end
  end.
