(* C13 — DC sort proofs, part 2: ndHelperB, ndHelperA (fuel is sufficient), the entry point
   dc_nds = rank_list, the front end nds_front = rank_list. *)
From Coq Require Import List ZArith Lia Bool Arith Permutation Sorted.
From SharkV Require Import ListAux C13Model C13Proofs C13ProofsFast C13HsspFrontProofs C13Wfg C13Dc C13DcAuxProofs C13DcSweepProofs.
Import ListNotations.

Lemma bool_eq_iff (a b : bool) : (a = true <-> b = true) -> a = b.
Proof. destruct a, b; intuition congruence. Qed.

Lemma filter_negb_negb {A} (p : A -> bool) l : filter (fun i => negb (negb (p i))) l = filter p l.
Proof. apply filter_ext. intros a. apply negb_involutive. Qed.

Lemma forallb_exists_false {A} (p : A -> bool) l : forallb p l = false -> exists x, In x l /\ p x = false.
Proof.
  induction l as [|a l IH]; cbn [forallb]; [discriminate|]. intros H. apply andb_false_iff in H.
  destruct H as [H|H]; [exists a; split; auto; now left|]. destruct (IH H) as [x [H1 H2]]. exists x. split; auto. now right.
Qed.

Section DcCtx2.
Variable pts : list point.
Variable m : nat.
Hypothesis Hm : 2 <= m.
Hypothesis Hlen : forall i, i < length pts -> length (P pts i) = m.
Hypothesis Hlex : forall i j, i < j < length pts -> lexlt (P pts i) (P pts j).

Local Notation n := (length pts).
Local Notation obj := (obj pts).
Local Notation wdomb := (wdomb pts).
Local Notation sdomb := (sdomb pts).
Local Notation W := (W pts).
Local Notation D := (D pts).
Local Notation incr := (incr pts).
Local Notation distinctk := (distinctk pts).
Local Notation fpos := (fpos pts).
Local Notation SpecA := (SpecA pts).
Local Notation SpecB := (SpecB pts).

Lemma W_step k l h : 1 <= k -> (W k l h <-> W (k - 1) l h /\ (obj l (k - 1) <= obj h (k - 1))%Z).
Proof.
  intros Hk. unfold C13DcSweepProofs.W. split.
  - intros H. split; [intros c Hc; apply H; lia|apply H; lia].
  - intros [H1 H2] c Hc. destruct (Nat.eq_dec c (k - 1)) as [->|Hne]; auto. apply H1. lia.
Qed.

Lemma D_step_eq k l h : 1 <= k -> obj l (k - 1) = obj h (k - 1) -> (D k l h <-> D (k - 1) l h).
Proof.
  intros Hk He. unfold C13DcSweepProofs.D. rewrite (W_step k l h Hk). split.
  - intros [[H1 H2] [c [Hc Hlt]]]. split; auto. exists c. split; auto.
    destruct (Nat.eq_dec c (k - 1)) as [->|Hne]; lia.
  - intros [H1 [c [Hc Hlt]]]. split; [split; auto; lia|]. exists c. split; auto. lia.
Qed.

Lemma D_step_lt k l h : 1 <= k -> (obj l (k - 1) < obj h (k - 1))%Z -> (D k l h <-> W (k - 1) l h).
Proof.
  intros Hk Hlt. unfold C13DcSweepProofs.D. rewrite (W_step k l h Hk). split.
  - intros [[H1 _] _]. auto.
  - intros H1. split; [split; auto; lia|]. exists (k - 1). split; auto. lia.
Qed.

Lemma SpecB_change_k L H k k' f f' :
  (forall l h, In l L -> In h H -> wdomb k l h = wdomb k' l h) -> SpecB L H k f f' -> SpecB L H k' f f'.
Proof.
  intros He [A [B C]]. split; auto. split; auto. intros h Hh. rewrite (C h Hh). f_equal.
  apply mxf_ext; auto. intros l. split; intros [H1 H2]; split; auto; [rewrite <- He|rewrite He]; auto.
Qed.

(* ---------------------------------------------------------------------------------------- *)
(* a split by a side predicate whose two sides are strictly ordered in objective k *)
Definition ordered_sides (side : nat -> bool) (c : nat) : Prop :=
  forall x y, side x = true -> side y = false -> (obj x c < obj y c)%Z.

Lemma SpecB_split L H k side f f1 f2 f3 :
  3 <= k <= m -> incr L -> incr H -> (forall x, In x H -> ~ In x L) ->
  ordered_sides side (k - 1) ->
  SpecB (filter side L) (filter side H) k f f1 ->
  SpecB (filter side L) (filter (fun i => negb (side i)) H) (k - 1) f1 f2 ->
  SpecB (filter (fun i => negb (side i)) L) (filter (fun i => negb (side i)) H) k f2 f3 ->
  SpecB L H k f f3.
Proof.
  intros Hk HL HH Hdisj Hord [A1 [B1 C1]] [A2 [B2 C2]] [A3 [B3 C3]].
  assert (HLn : forall l, In l L -> l < n) by (intros l Hl; apply HL; auto).
  assert (HHn : forall h, In h H -> h < n) by (intros h Hh; apply HH; auto).
  assert (HLf : forall l, In l L -> frt_of f1 l = frt_of f l /\ frt_of f2 l = frt_of f l).
  { intros l Hl. assert (Hn : ~ In l H) by (intros Hc; exact (Hdisj l Hc Hl)).
    rewrite B2, B1; [auto| |]; intros Hc; apply filter_In in Hc; tauto. }
  split; [lia|]. split.
  - intros x Hx. rewrite B3, B2, B1; auto; intros Hc; apply filter_In in Hc; tauto.
  - intros h Hh. rewrite (mxf_union _ _ L (filter side L) (filter (fun i => negb (side i)) L)).
    2:{ intros x. rewrite !filter_In. destruct (side x); cbn; tauto. }
    destruct (side h) eqn:Sh.
    + assert (H1 : In h (filter side H)) by (apply filter_In; auto).
      assert (H2 : ~ In h (filter (fun i => negb (side i)) H)).
      { intros Hc. apply filter_In in Hc. rewrite Sh in Hc. cbn in Hc. destruct Hc; discriminate. }
      rewrite B3, B2, (C1 h H1) by auto.
      rewrite (mxf_none _ _ (filter (fun i => negb (side i)) L)); [lia|].
      intros l Hl. apply filter_In in Hl. destruct Hl as [Hl Sl]. apply negb_true_iff in Sl.
      destruct (wdomb k l h) eqn:E; auto. apply wdomb_iff with (m := m) in E; auto; try lia.
      apply W_step in E; [|lia]. specialize (Hord h l Sh Sl). lia.
    + assert (H2 : In h (filter (fun i => negb (side i)) H)) by (apply filter_In; rewrite Sh; auto).
      assert (H1 : ~ In h (filter side H)).
      { intros Hc. apply filter_In in Hc. destruct Hc; congruence. }
      rewrite (C3 h H2), (C2 h H2), (B1 h H1).
      rewrite (mxf_ext (fun l => frt_of f1 l + 1) (fun l => frt_of f l + 1)
                 (fun l => wdomb (k - 1) l h) (fun l => wdomb k l h) (filter side L) (filter side L)).
      * rewrite (mxf_ext (fun l => frt_of f2 l + 1) (fun l => frt_of f l + 1)
                 (fun l => wdomb k l h) (fun l => wdomb k l h)
                 (filter (fun i => negb (side i)) L) (filter (fun i => negb (side i)) L)); [lia|tauto|].
        intros l Hl _. apply filter_In in Hl. rewrite (proj2 (HLf l (proj1 Hl))). auto.
      * intros l. split; intros [Hl Hw]; split; auto; pose proof Hl as Hl'; apply filter_In in Hl'; destruct Hl' as [HlL Sl].
        -- apply wdomb_iff with (m := m); auto; try lia. apply wdomb_iff with (m := m) in Hw; auto; try lia.
           apply W_step; [lia|]. split; auto. specialize (Hord l h Sl Sh). lia.
        -- apply wdomb_iff with (m := m); auto; try lia. apply wdomb_iff with (m := m) in Hw; auto; try lia.
           apply W_step in Hw; [|lia]. tauto.
      * intros l Hl _. apply filter_In in Hl. rewrite (proj1 (HLf l (proj1 Hl))). auto.
Qed.

(* splitB is such a split, and both sides make progress *)
Definition sideB (L H : list nat) (k : nat) : nat -> bool :=
  let c := k - 1 in
  let piv2 := median2 (map (fun i => obj i c) (if length H <? length L then L else H)) in
  let lt i := (2 * obj i c <? piv2)%Z in
  let gt i := (piv2 <? 2 * obj i c)%Z in
  if length (filter lt L) + length (filter lt H) <=? length (filter gt L) + length (filter gt H)
  then (fun i => negb (gt i)) else lt.

Lemma splitB_side L H k :
  splitB pts L H k = (filter (sideB L H k) L, filter (fun i => negb (sideB L H k i)) L,
                      filter (sideB L H k) H, filter (fun i => negb (sideB L H k i)) H).
Proof.
  unfold splitB, sideB. cbv zeta.
  destruct (_ <=? _); [|reflexivity].
  rewrite !filter_negb_negb. reflexivity.
Qed.

Lemma sideB_ordered L H k : ordered_sides (sideB L H k) (k - 1).
Proof.
  unfold ordered_sides, sideB. cbv zeta. destruct (_ <=? _); intros x y Hx Hy.
  - apply negb_true_iff in Hx. apply negb_false_iff in Hy. apply Z.ltb_ge in Hx. apply Z.ltb_lt in Hy. lia.
  - apply Z.ltb_lt in Hx. apply Z.ltb_ge in Hy. lia.
Qed.

Lemma sideB_progress L H k : L <> [] -> H <> [] ->
  ~ (zmax_list (map (fun i => obj i (k - 1)) L) <= zmin_list (map (fun i => obj i (k - 1)) H))%Z ->
  0 < length (filter (sideB L H k) L) + length (filter (sideB L H k) H) /\
  0 < length (filter (fun i => negb (sideB L H k i)) L) + length (filter (fun i => negb (sideB L H k i)) H).
Proof.
  intros HLne HHne Hnot. unfold sideB. cbv zeta.
  set (c := k - 1) in *.
  set (X := if length H <? length L then L else H).
  set (piv2 := median2 (map (fun i => obj i c) X)).
  assert (HX : X <> []) by (unfold X; destruct (_ <? _); auto).
  assert (HXsub : forall x, In x X -> In x L \/ In x H) by (unfold X; destruct (_ <? _); auto).
  assert (HXm : map (fun i => obj i c) X <> []) by (destruct X; [congruence|discriminate]).
  destruct (median2_low _ HXm) as [a [Ha Hlow]]. destruct (median2_high _ HXm) as [b [Hb Hhigh]].
  apply in_map_iff in Ha. destruct Ha as [x1 [<- Hx1]]. apply in_map_iff in Hb. destruct Hb as [x2 [<- Hx2]].
  fold piv2 in Hlow, Hhigh.
  set (lt := fun i => (2 * obj i c <? piv2)%Z). set (gt := fun i => (piv2 <? 2 * obj i c)%Z).
  assert (Hnz : forall (p : nat -> bool) x, (In x L \/ In x H) -> p x = true -> 0 < length (filter p L) + length (filter p H)).
  { intros p x [Hx|Hx] Hp; [pose proof (filter_nonempty p L x Hx Hp)|pose proof (filter_nonempty p H x Hx Hp)]; lia. }
  destruct (Nat.leb_spec (length (filter lt L) + length (filter lt H)) (length (filter gt L) + length (filter gt H))) as [Hle|Hgt].
  - split.
    + apply (Hnz _ x1); auto. apply negb_true_iff. apply Z.ltb_ge. lia.
    + destruct (Nat.eq_dec (length (filter gt L) + length (filter gt H)) 0) as [Hz|Hnz0].
      * exfalso. apply Hnot.
        assert (Hall : forall x, In x L \/ In x H -> (2 * obj x c = piv2)%Z).
        { intros x Hx.
          assert (G : gt x = false).
          { destruct Hx; [apply (filter_empty_all gt L)|apply (filter_empty_all gt H)]; auto; lia. }
          assert (G2 : lt x = false).
          { destruct Hx; [apply (filter_empty_all lt L)|apply (filter_empty_all lt H)]; auto; lia. }
          unfold lt, gt in *. apply Z.ltb_ge in G, G2. lia. }
        assert (HLm : map (fun i => obj i c) L <> []) by (destruct L; [congruence|discriminate]).
        assert (HHm : map (fun i => obj i c) H <> []) by (destruct H; [congruence|discriminate]).
        destruct (zmax_list_spec _ HLm) as [M1 _]. destruct (zmin_list_spec _ HHm) as [M2 _].
        apply in_map_iff in M1. destruct M1 as [l [El Hl]]. apply in_map_iff in M2. destruct M2 as [h [Eh Hh]].
        rewrite <- El, <- Eh. pose proof (Hall l (or_introl Hl)). pose proof (Hall h (or_intror Hh)). lia.
      * assert (E : forall l, length (filter (fun i => negb (negb (gt i))) l) = length (filter gt l)).
        { intros l. f_equal. apply filter_ext. intros a. apply negb_involutive. }
        rewrite !E. lia.
  - split; [lia|].
    apply (Hnz _ x2); auto. apply negb_true_iff. apply Z.ltb_ge. lia.
Qed.

(* ---------------------------------------------------------------------------------------- *)
(* ndHelperB *)
Lemma helperB_unfold fu L H k f : L <> [] -> H <> [] ->
  helperB pts (S fu) L H k f =
    if (length L =? 1) || (length H =? 1) then baseB pts L H k f
    else if k =? 2 then sweepB pts L H f
    else
      let vL := map (fun i => obj i (k - 1)) L in
      let vH := map (fun i => obj i (k - 1)) H in
      if (zmax_list vL <=? zmin_list vH)%Z then helperB pts fu L H (k - 1) f
      else if (zmin_list vL <=? zmax_list vH)%Z then
        let '(L1, L2, H1, H2) := splitB pts L H k in
        helperB pts fu L2 H2 k (helperB pts fu L1 H2 (k - 1) (helperB pts fu L1 H1 k f))
      else f.
Proof. destruct L, H; try congruence; reflexivity. Qed.

Lemma obj_bounds X c x : In x X ->
  (zmin_list (map (fun i => obj i c) X) <= obj x c <= zmax_list (map (fun i => obj i c) X))%Z.
Proof.
  intros Hx. assert (Hne : map (fun i => obj i c) X <> []) by (destruct X; [destruct Hx|discriminate]).
  destruct (zmin_list_spec _ Hne) as [_ A]. destruct (zmax_list_spec _ Hne) as [_ B].
  split; [apply A|apply B]; apply in_map_iff; exists x; auto.
Qed.

Lemma helperB_correct : forall fuel L H k f,
  2 <= k <= m -> incr L -> incr H -> (forall x, In x H -> ~ In x L) -> fpos f ->
  length L + length H + k <= fuel -> SpecB L H k f (helperB pts fuel L H k f).
Proof.
  induction fuel as [|fu IH]; intros L H k f Hk HL HH Hdisj Hf Hfuel; [lia|].
  destruct L as [|l0 L'] eqn:EL; [apply (SpecB_refl_nilL pts m Hm)|].
  destruct H as [|h0 H'] eqn:EH; [apply SpecB_refl_nilH|].
  rewrite <- EL, <- EH in *. assert (HLne : L <> []) by (rewrite EL; discriminate).
  assert (HHne : H <> []) by (rewrite EH; discriminate). clear EL EH l0 L' h0 H'.
  rewrite helperB_unfold by auto.
  assert (HLn : forall l, In l L -> l < n) by (intros l Hl; apply HL; auto).
  assert (HHn : forall h, In h H -> h < n) by (intros h Hh; apply HH; auto).
  destruct ((length L =? 1) || (length H =? 1)).
  { apply (baseB_spec pts m Hm); auto. - apply (incr_NoDup pts m Hm); auto. - intros x Hx. destruct Hf as [-> _]. auto. }
  destruct (Nat.eqb_spec k 2) as [->|Hk2].
  { apply (sweepB_spec pts m); auto. }
  cbv zeta.
  destruct (Z.leb_spec (zmax_list (map (fun i => obj i (k - 1)) L)) (zmin_list (map (fun i => obj i (k - 1)) H))) as [Hsep|Hnsep].
  { apply (SpecB_change_k L H (k - 1) k).
    - intros l h Hl Hh. apply bool_eq_iff. rewrite !(wdomb_iff pts m Hm Hlen) by (auto; lia).
      rewrite (W_step k l h) by lia. pose proof (obj_bounds L (k - 1) l Hl). pose proof (obj_bounds H (k - 1) h Hh).
      split; [intros; split; auto; lia|tauto].
    - apply IH; auto; lia. }
  destruct (Z.leb_spec (zmin_list (map (fun i => obj i (k - 1)) L)) (zmax_list (map (fun i => obj i (k - 1)) H))) as [Hov|Hnov].
  - rewrite splitB_side.
    destruct (sideB_progress L H k HLne HHne ltac:(lia)) as [P1 P2].
    pose proof (filter_negb_length (sideB L H k) L) as FL. pose proof (filter_negb_length (sideB L H k) H) as FH.
    set (side := sideB L H k) in *.
    assert (S1 : SpecB (filter side L) (filter side H) k f (helperB pts fu (filter side L) (filter side H) k f)).
    { apply IH; auto; try (apply (incr_filter pts); auto); [|lia].
      intros x Hx Hc. apply filter_In in Hx, Hc. apply (Hdisj x); tauto. }
    set (f1 := helperB pts fu (filter side L) (filter side H) k f) in *.
    pose proof (SpecB_fpos pts m Hm _ _ _ _ _ S1 Hf) as Hf1.
    assert (S2 : SpecB (filter side L) (filter (fun i => negb (side i)) H) (k - 1) f1
                   (helperB pts fu (filter side L) (filter (fun i => negb (side i)) H) (k - 1) f1)).
    { apply IH; auto; try (apply (incr_filter pts); auto); [lia| |lia].
      intros x Hx Hc. apply filter_In in Hx, Hc. apply (Hdisj x); tauto. }
    set (f2 := helperB pts fu (filter side L) (filter (fun i => negb (side i)) H) (k - 1) f1) in *.
    pose proof (SpecB_fpos pts m Hm _ _ _ _ _ S2 Hf1) as Hf2.
    assert (S3 : SpecB (filter (fun i => negb (side i)) L) (filter (fun i => negb (side i)) H) k f2
                   (helperB pts fu (filter (fun i => negb (side i)) L) (filter (fun i => negb (side i)) H) k f2)).
    { apply IH; auto; try (apply (incr_filter pts); auto); [|lia].
      intros x Hx Hc. apply filter_In in Hx, Hc. apply (Hdisj x); tauto. }
    apply (SpecB_split L H k side f f1 f2); auto; [lia|apply sideB_ordered].
  - destruct Hf as [Hf0 _]. split; auto. split; auto. intros h Hh. rewrite mxf_none; [lia|].
    intros l Hl. destruct (wdomb k l h) eqn:E; auto. apply (wdomb_iff pts m Hm Hlen) in E; auto; try lia.
    apply W_step in E; [|lia]. pose proof (obj_bounds L (k - 1) l Hl). pose proof (obj_bounds H (k - 1) h Hh). lia.
Qed.

(* ---------------------------------------------------------------------------------------- *)
(* ndHelperA *)
Lemma SpecA_change_k S k k' f f' :
  (forall x y, In x S -> In y S -> sdomb k y x = sdomb k' y x) -> SpecA S k f f' -> SpecA S k' f f'.
Proof.
  intros He [A [B C]]. split; auto. split; auto. intros x Hx. rewrite (C x Hx). f_equal.
  apply mxf_ext; auto. intros y. split; intros [H1 H2]; split; auto; [rewrite <- He|rewrite He]; auto.
Qed.

Lemma SpecA_split S k side f f1 f2 f3 :
  3 <= k <= m -> incr S -> ordered_sides side (k - 1) ->
  SpecA (filter side S) k f f1 ->
  SpecB (filter side S) (filter (fun i => negb (side i)) S) (k - 1) f1 f2 ->
  SpecA (filter (fun i => negb (side i)) S) k f2 f3 ->
  SpecA S k f f3.
Proof.
  intros Hk HS Hord [A1 [B1 C1]] [A2 [B2 C2]] [A3 [B3 C3]].
  assert (HSn : forall x, In x S -> x < n) by (intros x Hx; apply HS; auto).
  set (L := filter side S) in *. set (H := filter (fun i => negb (side i)) S) in *.
  assert (HLH : forall x, In x L -> ~ In x H).
  { intros x Hx Hc. apply filter_In in Hx, Hc. destruct Hx as [_ Hx], Hc as [_ Hc]. rewrite Hx in Hc. discriminate. }
  assert (HL3 : forall l, In l L -> frt_of f3 l = frt_of f1 l).
  { intros l Hl. rewrite B3, B2; auto. }
  split; [lia|]. split.
  - intros x Hx. rewrite B3, B2, B1; auto; intros Hc; apply filter_In in Hc; tauto.
  - intros x Hx. destruct (side x) eqn:Sx.
    + assert (HxL : In x L) by (apply filter_In; auto).
      rewrite (HL3 x HxL), (C1 x HxL). f_equal. apply mxf_ext.
      * intros y. split; intros [H1 H2]; split; auto.
        -- apply filter_In in H1. tauto.
        -- apply filter_In. split; auto. destruct (side y) eqn:Sy; auto. exfalso.
           apply (sdomb_iff pts m Hm Hlen) in H2; auto; try lia. destruct H2 as [H2 _].
           apply W_step in H2; [|lia]. specialize (Hord x y Sx Sy). lia.
      * intros y Hy _. rewrite HL3; auto.
    + assert (HxH : In x H) by (apply filter_In; rewrite Sx; auto).
      assert (HxL : ~ In x L) by (intros Hc; exact (HLH x Hc HxH)).
      rewrite (C3 x HxH), (C2 x HxH), (B1 x HxL).
      rewrite (mxf_union (fun y => frt_of f3 y + 1) (fun y => sdomb k y x) S L H).
      2:{ intros y. unfold L, H. rewrite !filter_In. destruct (side y); cbn; tauto. }
      rewrite (mxf_ext (fun y => frt_of f3 y + 1) (fun l => frt_of f1 l + 1)
                 (fun y => sdomb k y x) (fun l => wdomb (k - 1) l x) L L); [lia| |].
      * intros l. split; intros [Hl Hw]; split; auto; pose proof Hl as Hl'; apply filter_In in Hl'; destruct Hl' as [HlS Sl];
        specialize (Hord l x Sl Sx).
        -- apply (wdomb_iff pts m Hm Hlen); auto; try lia. apply (sdomb_iff pts m Hm Hlen) in Hw; auto; try lia.
           apply D_step_lt in Hw; auto; lia.
        -- apply (sdomb_iff pts m Hm Hlen); auto; try lia. apply (wdomb_iff pts m Hm Hlen) in Hw; auto; try lia.
           apply D_step_lt; auto; lia.
      * intros l Hl _. rewrite HL3; auto.
Qed.

Definition sideA (S : list nat) (k : nat) : nat -> bool :=
  let c := k - 1 in
  let med2 := median2 (map (fun i => obj i c) S) in
  let lt i := (2 * obj i c <? med2)%Z in
  let gt i := (med2 <? 2 * obj i c)%Z in
  if length (filter lt S) <? length (filter gt S) then (fun i => negb (gt i)) else lt.

Lemma splitA_side S k :
  splitA pts S k = (filter (sideA S k) S, filter (fun i => negb (sideA S k i)) S).
Proof.
  unfold splitA, sideA. cbv zeta. destruct (_ <? _); [|reflexivity].
  rewrite filter_negb_negb. reflexivity.
Qed.

Lemma sideA_ordered S k : ordered_sides (sideA S k) (k - 1).
Proof.
  unfold ordered_sides, sideA. cbv zeta. destruct (_ <? _); intros x y Hx Hy.
  - apply negb_true_iff in Hx. apply negb_false_iff in Hy. apply Z.ltb_ge in Hx. apply Z.ltb_lt in Hy. lia.
  - apply Z.ltb_lt in Hx. apply Z.ltb_ge in Hy. lia.
Qed.

Lemma sideA_progress S k :
  (exists x y, In x S /\ In y S /\ obj x (k - 1) <> obj y (k - 1)) ->
  0 < length (filter (sideA S k) S) /\ 0 < length (filter (fun i => negb (sideA S k i)) S).
Proof.
  intros [x [y [Hx [Hy Hne]]]]. unfold sideA. cbv zeta.
  set (c := k - 1) in *. set (med2 := median2 (map (fun i => obj i c) S)).
  assert (HXm : map (fun i => obj i c) S <> []) by (destruct S; [destruct Hx|discriminate]).
  destruct (median2_low _ HXm) as [a [Ha Hlow]]. destruct (median2_high _ HXm) as [b [Hb Hhigh]].
  apply in_map_iff in Ha. destruct Ha as [x1 [<- Hx1]]. apply in_map_iff in Hb. destruct Hb as [x2 [<- Hx2]].
  fold med2 in Hlow, Hhigh.
  set (lt := fun i => (2 * obj i c <? med2)%Z). set (gt := fun i => (med2 <? 2 * obj i c)%Z).
  destruct (Nat.ltb_spec (length (filter lt S)) (length (filter gt S))) as [Hlt|Hge].
  - split.
    + apply (filter_nonempty _ S x1); auto. apply negb_true_iff. apply Z.ltb_ge. lia.
    + change (0 < length (filter (fun i => negb (negb (gt i))) S)). rewrite (filter_negb_negb gt). lia.
  - split.
    + destruct (Nat.eq_dec (length (filter lt S)) 0) as [Hz|Hnz]; [|lia]. exfalso.
      assert (Hall : forall z, In z S -> (2 * obj z c = med2)%Z).
      { intros z Hz'. pose proof (filter_empty_all lt S Hz z Hz') as G2.
        pose proof (filter_empty_all gt S ltac:(lia) z Hz') as G. unfold lt, gt in *.
        apply Z.ltb_ge in G, G2. lia. }
      pose proof (Hall x Hx). pose proof (Hall y Hy). lia.
    + apply (filter_nonempty _ S x2); auto. apply negb_true_iff. apply Z.ltb_ge. lia.
Qed.

Lemma distinctk_filter k p S : distinctk k S -> distinctk k (filter p S).
Proof. intros H x y Hx Hy. apply filter_In in Hx, Hy. apply H; tauto. Qed.

Lemma sdomb_self k x : k <= m -> x < n -> sdomb k x x = false.
Proof.
  intros Hk Hx. destruct (sdomb k x x) eqn:E; auto. apply (sdomb_iff pts m Hm Hlen) in E; auto.
  destruct (D_irrefl pts m Hm k x E).
Qed.

Lemma sdomb_later k x y : k <= m -> x < y < n -> sdomb k y x = false.
Proof.
  intros Hk Hxy. destruct (sdomb k y x) eqn:E; auto. apply (sdomb_iff pts m Hm Hlen) in E; auto; try lia.
  destruct (later_not_D pts m Hm Hlen Hlex k x y Hxy E).
Qed.

Lemma helperA_unfold fu s0 s1 s2 S'' k f :
  helperA pts (S fu) (s0 :: s1 :: s2 :: S'') k f =
    let S := s0 :: s1 :: s2 :: S'' in
    if k =? 2 then sweepA pts S f
    else if forallb (fun i => (obj s0 (k - 1) =? obj i (k - 1))%Z) (s1 :: s2 :: S'') then helperA pts fu S (k - 1) f
    else
      let '(L, H) := splitA pts S k in
      let f1 := helperA pts fu L k f in
      let f2 := helperB pts (length L + length H + k + 1) L H (k - 1) f1 in
      helperA pts fu H k f2.
Proof. reflexivity. Qed.

Lemma helperA_correct : forall fuel S k f,
  2 <= k <= m -> incr S -> distinctk k S -> fpos f ->
  length S + k <= fuel -> SpecA S k f (helperA pts fuel S k f).
Proof.
  induction fuel as [|fu IH]; intros S k f Hk HS Hd Hf Hfuel; [lia|].
  destruct S as [|a [|b [|c S'']]].
  - cbn. split; auto. split; auto. intros x [].
  - cbn [helperA]. destruct (incr_cons _ _ _ HS) as [Ha _].
    split; auto. split; auto. intros x [<-|[]]. rewrite mxf_cons, sdomb_self, mxf_nil by (auto; lia). lia.
  - cbn [helperA]. destruct (incr_cons _ _ _ HS) as [Ha [HS' Hab]]. destruct (incr_cons _ _ _ HS') as [Hb _].
    specialize (Hab b (or_introl eq_refl)). destruct Hf as [Hf0 Hpos].
    assert (Ea : forall g, mxf g (fun y => sdomb k y a) [a; b] = 0).
    { intros g. rewrite !mxf_cons, mxf_nil, sdomb_self, (sdomb_later k a b) by (auto; lia). auto. }
    destruct (sdomb k a b) eqn:E.
    + split; [apply raise_length|]. split.
      * intros x Hx. apply frt_raise_other. intros ->. apply Hx. right. now left.
      * intros x [<-|[<-|[]]].
        -- rewrite Ea, frt_raise_other by lia. lia.
        -- rewrite !mxf_cons, mxf_nil, E, sdomb_self by (auto; lia).
           rewrite frt_raise_same by lia. rewrite frt_raise_other by lia. lia.
    + split; auto. split; auto. intros x [<-|[<-|[]]].
      * rewrite Ea. lia.
      * rewrite !mxf_cons, mxf_nil, E, sdomb_self by (auto; lia). lia.
  - rewrite helperA_unfold. cbv zeta. set (S := a :: b :: c :: S'') in *.
    assert (HSn : forall x, In x S -> x < n) by (intros x Hx; apply HS; auto).
    destruct (Nat.eqb_spec k 2) as [->|Hk2].
    { apply (sweepA_spec pts m); auto. }
    destruct (forallb _ _) eqn:Eq.
    { apply (SpecA_change_k S (k - 1) k).
      - assert (Hall : forall x, In x S -> obj a (k - 1) = obj x (k - 1)).
        { intros x [<-|Hx]; auto. rewrite forallb_forall in Eq. apply Z.eqb_eq. apply Eq. auto. }
        intros x y Hx Hy. apply bool_eq_iff. rewrite !(sdomb_iff pts m Hm Hlen) by (auto; lia).
        symmetry. apply D_step_eq; [lia|]. rewrite <- (Hall x Hx), <- (Hall y Hy). auto.
      - apply IH; auto; try lia.
        + assert (Hall : forall x, In x S -> obj a (k - 1) = obj x (k - 1)).
          { intros x [<-|Hx]; auto. rewrite forallb_forall in Eq. apply Z.eqb_eq. apply Eq. auto. }
          intros x y Hx Hy Hne. destruct (Hd x y Hx Hy Hne) as [c0 [Hc0 Hne0]].
          exists c0. split; auto. destruct (Nat.eq_dec c0 (k - 1)) as [->|]; [|lia].
          rewrite <- (Hall x Hx), <- (Hall y Hy) in Hne0. congruence. }
    assert (Hex : exists x y, In x S /\ In y S /\ obj x (k - 1) <> obj y (k - 1)).
    { destruct (forallb_exists_false _ _ Eq) as [y [Hy Hy2]].
      exists a, y. split; [now left|]. split; [now right|]. apply Z.eqb_neq. auto. }
    rewrite splitA_side. destruct (sideA_progress S k Hex) as [P1 P2].
    pose proof (filter_negb_length (sideA S k) S) as FS. set (side := sideA S k) in *.
    set (L := filter side S) in *. set (H := filter (fun i => negb (side i)) S) in *.
    assert (HL : incr L) by (apply (incr_filter pts); auto).
    assert (HH : incr H) by (apply (incr_filter pts); auto).
    assert (S1 : SpecA L k f (helperA pts fu L k f)).
    { apply IH; auto; [apply distinctk_filter; auto|lia]. }
    set (f1 := helperA pts fu L k f) in *. pose proof (SpecA_fpos pts m Hm _ _ _ _ S1 Hf) as Hf1.
    assert (S2 : SpecB L H (k - 1) f1 (helperB pts (length L + length H + k + 1) L H (k - 1) f1)).
    { apply helperB_correct; auto; try lia.
      intros x Hx Hc. apply filter_In in Hx, Hc. destruct Hx as [_ Hx], Hc as [_ Hc]. rewrite Hc in Hx. discriminate. }
    set (f2 := helperB pts (length L + length H + k + 1) L H (k - 1) f1) in *.
    pose proof (SpecB_fpos pts m Hm _ _ _ _ _ S2 Hf1) as Hf2.
    assert (S3 : SpecA H k f2 (helperA pts fu H k f2)).
    { apply IH; auto; [apply distinctk_filter; auto|lia]. }
    apply (SpecA_split S k side f f1 f2); auto; [lia|apply sideA_ordered].
Qed.

End DcCtx2.

(* ---------------------------------------------------------------------------------------- *)
(* the entry point *)
Lemma nth_repeat_lt {A} (x d : A) n : forall i, i < n -> nth i (repeat x n) d = x.
Proof. induction n as [|n IH]; intros [|i] H; cbn; auto; try lia. apply IH. lia. Qed.

Lemma list_max_succ (g : nat -> nat) l :
  Nat.max 1 (list_max (map (fun y => g y + 1) l)) = 1 + list_max (map g l).
Proof. induction l as [|a l IH]; cbn [map list_max fold_right]; [reflexivity|]. unfold list_max in IH. lia. Qed.

Lemma list_max_set_ext l l' : (forall x, In x l <-> In x l') -> list_max l = list_max l'.
Proof.
  intros H. apply list_max_char.
  - intros x Hx. apply list_max_ge. apply H. auto.
  - destruct (list_max_zero_or_in l') as [E|E]; [now left|right]. apply H. auto.
Qed.

Lemma nth_map_lt {A B} (f : A -> B) l d d' : forall i, i < length l -> nth i (map f l) d = f (nth i l d').
Proof. induction l as [|a l IH]; intros [|i] H; cbn in *; auto; try lia. apply IH. lia. Qed.

Section Top.
Variable d : nat.
Variable S : list point.
Hypothesis Hd : 2 <= d.
Hypothesis HS : same_dim d S.

Let pts := dc_uniq (dc_sort S).

Lemma pts_sorted : StronglySorted lexlt pts.
Proof. apply (dc_uniq_sort_spec d S HS). Qed.
Lemma pts_In x : In x pts <-> In x S.
Proof. apply (dc_uniq_sort_spec d S HS). Qed.

Lemma pts_len i : i < length pts -> length (P pts i) = d.
Proof. intros Hi. apply HS. apply pts_In. apply nth_In. auto. Qed.

Lemma pts_lex i j : i < j < length pts -> lexlt (P pts i) (P pts j).
Proof. intros Hij. apply (SS_nth lexlt pts [] pts_sorted i j Hij). Qed.

Lemma pts_lower_bound p : In p S ->
  dc_lower_bound pts p < length pts /\ nth (dc_lower_bound pts p) pts [] = p.
Proof.
  intros Hp. apply pts_In in Hp. destruct (In_nth_ex pts p [] Hp) as [u [Hu E]].
  assert (Hsd : same_dim d pts) by (intros x Hx; apply HS; apply pts_In; auto).
  rewrite <- E. rewrite (dc_lower_bound_spec d pts Hsd pts_sorted u Hu). auto.
Qed.

Lemma dc_frt_is_rank :
  let n := length pts in
  is_rank_assignment pts (helperA pts (n + d + 1) (seq 0 n) d (repeat 1 n)).
Proof.
  intros n. set (f0 := repeat 1 n).
  assert (Hf0 : fpos pts f0).
  { split; [apply repeat_length|]. intros i Hi. unfold frt_of, f0. rewrite nth_repeat_lt; auto. }
  assert (Hincr : incr pts (seq 0 n)).
  { split; [apply SS_seq|]. intros x Hx. apply in_seq in Hx. lia. }
  assert (Hdist : distinctk pts d (seq 0 n)).
  { intros x y Hx Hy Hne. apply in_seq in Hx, Hy.
    destruct (Nat.lt_total x y) as [Hlt|[->|Hlt]]; [|congruence|].
    - destruct (lex_coord pts d Hd pts_len pts_lex x y ltac:(lia)) as [c [H1 [H2 _]]]. exists c. split; auto. lia.
    - destruct (lex_coord pts d Hd pts_len pts_lex y x ltac:(lia)) as [c [H1 [H2 _]]]. exists c. split; auto. lia. }
  pose proof (helperA_correct pts d Hd pts_len pts_lex (n + d + 1) (seq 0 n) d f0 ltac:(lia) Hincr Hdist Hf0) as HA.
  rewrite seq_length in HA. specialize (HA ltac:(lia)).
  set (f' := helperA pts (n + d + 1) (seq 0 n) d f0) in *. destruct HA as [A [_ C]].
  split; [rewrite A; apply repeat_length|].
  intros i Hi. specialize (C i ltac:(apply in_seq; lia)).
  unfold frt_of at 1 in C. rewrite C. unfold frt_of at 1, f0. rewrite nth_repeat_lt by auto.
  unfold mxf. rewrite list_max_succ. f_equal. f_equal.
  unfold dom_idx. fold n. f_equal. apply filter_ext_in. intros j Hj. apply in_seq in Hj.
  unfold sdomb, domk, domb, P. rewrite !firstn_all2; auto.
  - rewrite <- (pts_len i Hi). unfold P. lia.
  - rewrite <- (pts_len j ltac:(lia)). unfold P. lia.
Qed.

Theorem dc_nds_rank_list_sec : dc_nds S = rank_list S.
Proof.
  assert (Hcase : S = [] \/ exists p0 S', S = p0 :: S') by (destruct S; [left|right; eauto]; reflexivity).
  destruct Hcase as [E0|[p0 [S' ES]]]; [rewrite E0; reflexivity|].
  assert (Hm : length p0 = d) by (apply HS; rewrite ES; now left).
  assert (E : dc_nds S = map (fun p => nth (dc_lower_bound pts p)
                 (helperA pts (length pts + d + 1) (seq 0 (length pts)) d (repeat 1 (length pts))) 0) S).
  { rewrite ES at 1. unfold dc_nds. rewrite <- ES, Hm. reflexivity. }
  rewrite E. clear E. pose proof dc_frt_is_rank as HR. cbv zeta in HR.
  set (rU := helperA pts (length pts + d + 1) (seq 0 (length pts)) d (repeat 1 (length pts))) in *.
  set (r := map (fun p => nth (dc_lower_bound pts p) rU 0) S).
  apply (rank_unique d S r (rank_list S) HS); [|apply (rank_list_is_rank d); auto].
  destruct HR as [HRl HRe].
  assert (Hr : forall j, j < length S -> nth j r 0 = nth (dc_lower_bound pts (nth j S [])) rU 0).
  { intros j Hj. unfold r. exact (nth_map_lt (fun p => nth (dc_lower_bound pts p) rU 0) S 0 [] j Hj). }
  split; [unfold r; apply map_length|].
  intros i Hi. rewrite (Hr i Hi).
  destruct (pts_lower_bound (nth i S []) (nth_In _ _ Hi)) as [Hu Eu].
  rewrite (HRe _ Hu). rewrite Eu. f_equal. apply list_max_set_ext. intros v. rewrite !in_map_iff. split.
  - intros [u' [Ev Hu']]. apply dom_idx_In in Hu'. destruct Hu' as [Hu'n Hdom].
    assert (HinS : In (nth u' pts []) S) by (apply pts_In; apply nth_In; auto).
    destruct (In_nth_ex S _ [] HinS) as [j [Hj Ej]].
    exists j. split.
    + rewrite (Hr j Hj), Ej.
      assert (Hsd : same_dim d pts) by (intros x Hx; apply HS; apply pts_In; auto).
      rewrite (dc_lower_bound_spec d pts Hsd pts_sorted u' Hu'n). auto.
    + apply dom_idx_In. split; auto. rewrite Ej. auto.
  - intros [j [Ev Hj]]. apply dom_idx_In in Hj. destruct Hj as [Hjn Hdom].
    destruct (pts_lower_bound (nth j S []) (nth_In _ _ Hjn)) as [Hu' Eu'].
    exists (dc_lower_bound pts (nth j S [])). split; [rewrite <- Ev; symmetry; apply Hr; auto|].
    apply dom_idx_In. split; auto. rewrite Eu'. auto.
Qed.
End Top.

Theorem dc_nds_eq_rank_list : forall d S, 2 <= d -> same_dim d S -> dc_nds S = rank_list S.
Proof. intros d S Hd HS. apply (dc_nds_rank_list_sec d S Hd HS). Qed.

Theorem dc_nds_is_rank : forall d S, 2 <= d -> same_dim d S -> is_rank_assignment S (dc_nds S).
Proof. intros d S Hd HS. rewrite (dc_nds_eq_rank_list d S Hd HS). apply (rank_list_is_rank d). auto. Qed.

(* the front end, whichever algorithm the switch selects *)
Theorem nds_front_gen_eq_rank_list : forall choose d S, 2 <= d -> same_dim d S -> nds_front_gen choose S = rank_list S.
Proof.
  intros choose d S Hd HS. unfold nds_front_gen. destruct S as [|p0 S']; [reflexivity|].
  destruct (choose _ _); [apply (dc_nds_eq_rank_list d)|apply (fast_nds_eq_rank_list d)]; auto.
Qed.

Theorem nds_front_eq_rank_list : forall d S, 2 <= d -> same_dim d S -> nds_front S = rank_list S.
Proof. intros. apply (nds_front_gen_eq_rank_list nds_choice d); auto. Qed.

(* limitSet of the WFG recursion with the ranks of the front end is the limit set of the WFG model *)
Theorem limit_set_via_front_end : forall choose arr d S p, 2 <= d -> length p = d -> same_dim d S ->
  arr (nd_front_via (nds_front_gen choose) (map (fun q => pmax q p) S)) = limit_set arr S p.
Proof.
  intros choose arr d S p Hd Hp HS. unfold limit_set, nd_front_via, nd_front.
  rewrite (nds_front_gen_eq_rank_list choose d); auto.
  intros x Hx. apply in_map_iff in Hx. destruct Hx as [q [<- Hq]]. rewrite C13WfgProofs.pmax_length; rewrite (HS q Hq); auto.
Qed.

Example dc_nds_example :
  same_dim 3 [[1; 5; 2]; [2; 3; 3]; [2; 3; 3]; [4; 4; 4]; [3; 1; 5]; [1; 4; 5]; [2; 2; 3]; [6; 0; 0]; [4; 4; 5]; [1; 5; 2]]%Z /\
  dc_nds [[1; 5; 2]; [2; 3; 3]; [2; 3; 3]; [4; 4; 4]; [3; 1; 5]; [1; 4; 5]; [2; 2; 3]; [6; 0; 0]; [4; 4; 5]; [1; 5; 2]]%Z
    = [1; 2; 2; 3; 1; 1; 1; 1; 4; 1] /\
  rank_list [[1; 5; 2]; [2; 3; 3]; [2; 3; 3]; [4; 4; 4]; [3; 1; 5]; [1; 4; 5]; [2; 2; 3]; [6; 0; 0]; [4; 4; 5]; [1; 5; 2]]%Z
    = [1; 2; 2; 3; 1; 1; 1; 1; 4; 1] /\
  nds_front [[0; 1; 1; 0]; [1; 0; 0; 1]; [1; 1; 1; 1]; [0; 1; 1; 0]; [2; 1; 1; 1]; [0; 0; 1; 1]]%Z = [1; 1; 2; 1; 3; 1].
Proof.
  split; [intros p Hp; repeat (destruct Hp as [<-|Hp]; [reflexivity|]); destruct Hp|].
  split; [vm_compute; reflexivity|]. split; vm_compute; reflexivity.
Qed.
