(* C02 — symm_pos_semi_definite_solver::solve (model C02SemiModel.v): the returned vector satisfies the normal equations
   A (A x - b) = 0 whenever the pivoted factorisation is exact of rank r (P^T A P = L L^T, i.e. zero Schur complement),
   and A x = b for full rank.  Over an arbitrary field; the inner Cholesky factor is used through its contract
   (Lc Lc^T = L^T L on the lower triangle), which potrf provides (C02CholBlkProofs.potrf_rec_correct). *)
From Coq Require Import List Arith Bool Lia Field Permutation.
From SharkV Require Import C02Model C02Proofs C02BlkModel C02LUProofs C02LURightProofs C02CholBlkProofs C02PstrfModel C02PstrfProofs C02SemiModel.
Import ListNotations.

Section SemiProofs.
Variable A : Type.
Variable F : ops A.
Variable fabs : A -> A.
Notation "0" := (fzero F) : F_scope.
Notation "1" := (fone F) : F_scope.
Infix "+" := (fadd F) : F_scope.
Infix "*" := (fmul F) : F_scope.
Infix "-" := (fsub F) : F_scope.
Infix "/" := (fdiv F) : F_scope.
Notation "- x" := (fopp F x) : F_scope.
Hypothesis Fth : field_theory (fzero F) (fone F) (fadd F) (fmul F) (fsub F) (fopp F) (fdiv F) (finv F) (@eq A).
Hypothesis feqb_spec : forall x y, feqb F x y = true <-> x = y.
Add Field FfieldSemi : Fth.
Local Open Scope F_scope.
Notation mat := (mat A).
Notation vec := (vec A).
Notation sumr := (sumr A F).
Notation sumr_ext := (sumr_ext A F).
Notation sumr_split := (sumr_split A F Fth).
Notation sumr_swap := (sumr_swap A F Fth).
Notation sumr_mul_l := (sumr_mul_l A F Fth).
Notation sumr_mul_r := (sumr_mul_r A F Fth).
Notation sumr_add := (sumr_add A F Fth).
Notation sumr_zero := (sumr_zero A F Fth).
Notation memo_eq := (memo_eq A F).
Notation memo2_eq := (memo2_eq A F).
Notation mv := (mv A F).

Lemma sumr_sub : forall lo hi f g, sumr lo hi (fun j => f j - g j) = sumr lo hi f - sumr lo hi g.
Proof.
  intros lo hi f g. rewrite (sumr_ext lo hi _ (fun j => f j + (- (1)) * g j)) by (intros; ring).
  rewrite sumr_add, sumr_mul_l. ring.
Qed.

(* ---------- the two product rules ---------- *)
Section Core.
Variables (n r : nat) (L : mat).
Let G : mat := fun a b => sumr 0 n (fun i => L i a * L i b).
Let B : mat := fun i j => sumr 0 r (fun u => L i u * L j u).

(* (L L^T) f = L (L^T f) *)
Lemma B_apply : forall (f : vec) k, sumr 0 n (fun j => B k j * f j) = sumr 0 r (fun u => L k u * sumr 0 n (fun j => L j u * f j)).
Proof.
  intros f k. unfold B.
  rewrite (sumr_ext 0 n _ (fun j => sumr 0 r (fun u => L k u * (L j u * f j)))).
  2:{ intros j Hj. rewrite <- sumr_mul_r. apply sumr_ext. intros; ring. }
  rewrite sumr_swap. apply sumr_ext. intros u Hu. rewrite sumr_mul_l. reflexivity.
Qed.
(* L^T (L v) = (L^T L) v *)
Lemma gram_apply : forall (v : vec) u, sumr 0 n (fun j => L j u * sumr 0 r (fun a => L j a * v a)) = sumr 0 r (fun a => G u a * v a).
Proof.
  intros v u. unfold G.
  rewrite (sumr_ext 0 n _ (fun j => sumr 0 r (fun a => L j u * L j a * v a))).
  2:{ intros j Hj. rewrite <- sumr_mul_l. apply sumr_ext. intros; ring. }
  rewrite sumr_swap. apply sumr_ext. intros a Ha. rewrite sumr_mul_r. reflexivity.
Qed.

(* y = L w2 with G w2 = w1  ==>  B y = L w1 *)
Lemma By_eq : forall (w1 w2 y : vec),
  (forall a, (a < r)%nat -> sumr 0 r (fun c => G a c * w2 c) = w1 a) ->
  (forall i, (i < n)%nat -> y i = sumr 0 r (fun a => L i a * w2 a)) ->
  forall k, sumr 0 n (fun j => B k j * y j) = sumr 0 r (fun u => L k u * w1 u).
Proof.
  intros w1 w2 y H2 Hy k. rewrite B_apply. apply sumr_ext. intros u Hu. f_equal.
  rewrite (sumr_ext 0 n _ (fun j => L j u * sumr 0 r (fun a => L j a * w2 a))) by (intros j Hj; rewrite Hy by lia; reflexivity).
  rewrite gram_apply. apply H2. lia.
Qed.

(* the rank-deficient branch: z = L^T b, G w1 = z, G w2 = w1, y = L w2  ==>  B (B y - b) = 0 *)
Lemma lsq_core : forall (b z w1 w2 y : vec),
  (forall a, (a < r)%nat -> z a = sumr 0 n (fun i => L i a * b i)) ->
  (forall a, (a < r)%nat -> sumr 0 r (fun c => G a c * w1 c) = z a) ->
  (forall a, (a < r)%nat -> sumr 0 r (fun c => G a c * w2 c) = w1 a) ->
  (forall i, (i < n)%nat -> y i = sumr 0 r (fun a => L i a * w2 a)) ->
  forall i, sumr 0 n (fun k => B i k * (sumr 0 n (fun j => B k j * y j) - b k)) = 0.
Proof.
  intros b z w1 w2 y Hz H1 H2 Hy i.
  assert (By : forall k, sumr 0 n (fun j => B k j * y j) = sumr 0 r (fun u => L k u * w1 u)).
  { intros k. rewrite B_apply. apply sumr_ext. intros u Hu. f_equal.
    rewrite (sumr_ext 0 n _ (fun j => L j u * sumr 0 r (fun a => L j a * w2 a))) by (intros j Hj; rewrite Hy by lia; reflexivity).
    rewrite gram_apply. apply H2. lia. }
  rewrite (sumr_ext 0 n _ (fun k => B i k * (sumr 0 r (fun u => L k u * w1 u) - b k))) by (intros k Hk; rewrite By; reflexivity).
  rewrite (B_apply (fun k => sumr 0 r (fun u => L k u * w1 u) - b k) i).
  apply sumr_zero. intros u Hu.
  rewrite (sumr_ext 0 n _ (fun j => L j u * sumr 0 r (fun a => L j a * w1 a) - L j u * b j)) by (intros; ring).
  rewrite sumr_sub. rewrite gram_apply. rewrite H1 by lia. rewrite Hz by lia. ring.
Qed.
End Core.

(* ---------- through the permutation ---------- *)
Lemma perm_lsq : forall n (A0 : mat) P (b y : vec), pgood P 0 n n ->
  (forall i, (i < n)%nat ->
     sumr 0 n (fun k => A0 (perm_of P 0 n i) (perm_of P 0 n k) *
                        (sumr 0 n (fun j => A0 (perm_of P 0 n k) (perm_of P 0 n j) * y j) - swap_vec A F n n P b k)) = 0) ->
  forall i, (i < n)%nat -> mv n A0 (fun k => mv n A0 (swap_vec_inv A F n n P y) k - b k) i = 0.
Proof.
  intros n A0 P b y G H i Hi.
  destruct (perm_of_bijective P n G i Hi) as [_ [Hi' [Hii _]]].
  set (i' := perm_inv P 0 n i) in *. specialize (H i' Hi'). rewrite Hii in H.
  unfold C02Proofs.mv.
  rewrite <- (sumr_perm A F Fth P n n (fun k => A0 i k * (sumr 0 n (fun j => A0 k j * swap_vec_inv A F n n P y j) - b k)) (le_n _) G).
  rewrite <- H. apply sumr_ext. intros k Hk. f_equal. rewrite swap_vec_eq. f_equal.
  rewrite <- (sumr_perm A F Fth P n n (fun j => A0 (perm_of P 0 n k) j * swap_vec_inv A F n n P y j) (le_n _) G).
  apply sumr_ext. intros j Hj. f_equal. rewrite swap_vec_inv_eq by lia. rewrite Nat.sub_diag. rewrite perm_inv_of. reflexivity.
Qed.

Definition gram (n : nat) (L : mat) : mat := fun a c => sumr 0 n (fun i => L i a * L i c).
Lemma gram_symm : forall n L a c, gram n L a c = gram n L c a.
Proof. intros. unfold gram. apply sumr_ext. intros; ring. Qed.
Lemma symm_of_lower_symm : forall (M : mat), (forall i j, M i j = M j i) -> forall i j, symm_of_lower A M i j = M i j.
Proof. intros M H i j. unfold symm_of_lower. destruct (Nat.leb j i); [reflexivity|apply H]. Qed.

(* contract of the inner Cholesky factor (rank-deficient case) *)
Definition chol_contract (n r : nat) (L Lc : mat) : Prop :=
  forall a c, (c <= a < r)%nat -> sumr 0 (S c) (fun t => Lc a t * Lc c t) = gram n L a c.

Theorem semi_solve_with_lsq : forall o n r (A0 L : mat) P Lc b x, (r <= n)%nat -> pgood P 0 n n ->
  (forall i j, (i < n)%nat -> (j < n)%nat -> sumr 0 r (fun u => L i u * L j u) = A0 (perm_of P 0 n i) (perm_of P 0 n j)) ->
  (forall t u, (t < r)%nat -> (t < u < n)%nat -> L t u = 0) ->
  ((0 < r < n)%nat -> chol_contract n r L Lc) ->
  semi_solve_with A F o n r L P Lc b = Some x ->
  forall i, (i < n)%nat -> mv n A0 (fun k => mv n A0 x k - b k) i = 0.
Proof.
  intros o n r A0 L P Lc b x Hr G HB HU HC H. unfold semi_solve_with in H.
  set (b1 := swap_vec A F n n P b) in *.
  set (sg := perm_of P 0 n) in *.
  assert (Fin : forall y : vec,
     (forall i, (i < n)%nat -> sumr 0 n (fun k => sumr 0 r (fun u => L i u * L k u) *
                                     (sumr 0 n (fun j => sumr 0 r (fun u => L k u * L j u) * y j) - b1 k)) = 0) ->
     forall i, (i < n)%nat -> mv n A0 (fun k => mv n A0 (swap_vec_inv A F n n P y) k - b k) i = 0).
  { intros y Hy. apply perm_lsq; [exact G|]. intros i Hi. rewrite <- (Hy i Hi). apply sumr_ext. intros k Hk.
    fold sg. rewrite <- (HB i k) by lia. f_equal. f_equal. apply sumr_ext. intros j Hj. rewrite <- (HB k j) by lia. reflexivity. }
  destruct (Nat.eqb_spec r 0) as [E0|E0].
  - (* rank 0: b.clear() *)
    inversion H; subst x. apply Fin. intros i Hi. apply sumr_zero. intros k Hk. subst r.
    rewrite (sumr_empty A F 0 0) by lia. ring.
  - destruct (Nat.eqb_spec r n) as [En|En].
    + (* full rank: two triangular solves *)
      subst r. destruct (chol_solve_with A F o L n b1) as [y|] eqn:Ey; [|discriminate]. inversion H; subst x.
      apply Fin. intros i Hi.
      set (M := fun i c => sumr 0 n (fun u => L i u * L c u)).
      assert (HM : forall i c, (c <= i < n)%nat -> sumr 0 (S c) (fun t => L i t * L c t) = M i c).
      { intros i0 c Hc. unfold M. rewrite (sumr_split 0 (S c) n) by lia.
        rewrite (sumr_zero (S c) n) by (intros t Ht; rewrite (HU c t) by lia; ring). ring. }
      pose proof (cholesky_solve_with_correct A F Fth feqb_spec o n M L b1 y HM Ey) as Sol.
      assert (MS : forall i j, M i j = M j i) by (intros; unfold M; apply sumr_ext; intros; ring).
      apply sumr_zero. intros k Hk. specialize (Sol k (proj2 Hk)). unfold C02Proofs.mv in Sol.
      assert (E : sumr 0 n (fun j => sumr 0 n (fun u => L k u * L j u) * y j) = b1 k).
      { rewrite <- Sol. apply sumr_ext. intros j Hj. rewrite symm_of_lower_symm by exact MS. reflexivity. }
      rewrite E. ring.
    + (* rank deficient *)
      assert (Hr2 : (0 < r < n)%nat) by lia. specialize (HC Hr2).
      set (z := memo A F r (fun a => sumr 0 n (fun i => L i a * b1 i))) in *.
      destruct (chol_solve_with A F o Lc r z) as [w1|] eqn:E1; [|discriminate].
      destruct (chol_solve_with A F o Lc r w1) as [w2|] eqn:E2; [|discriminate].
      inversion H; subst x. clear H.
      pose proof (cholesky_solve_with_correct A F Fth feqb_spec o r (gram n L) Lc z w1 HC E1) as S1.
      pose proof (cholesky_solve_with_correct A F Fth feqb_spec o r (gram n L) Lc w1 w2 HC E2) as S2.
      apply Fin. intros i Hi.
      apply (lsq_core n r L b1 z w1 w2).
      * intros a Ha. unfold z. rewrite memo_eq. reflexivity.
      * intros a Ha. rewrite <- (S1 a Ha). unfold C02Proofs.mv. apply sumr_ext. intros c Hc.
        rewrite symm_of_lower_symm by (apply gram_symm). reflexivity.
      * intros a Ha. rewrite <- (S2 a Ha). unfold C02Proofs.mv. apply sumr_ext. intros c Hc.
        rewrite symm_of_lower_symm by (apply gram_symm). reflexivity.
      * intros k Hk. rewrite memo_eq. reflexivity.
Qed.

(* ---------- uniqueness: L^T L is injective when its Cholesky factor has a non-zero diagonal ---------- *)
Lemma tri_upper_unique : forall n unit (T : mat) (z : vec), diag_ok A F unit T 0 n ->
  (forall i, (i < n)%nat -> mv n (tri A F true unit T) z i = 0) -> forall i, (i < n)%nat -> z i = 0.
Proof.
  intros n unit T z D H.
  assert (Hd : forall i, (i < n)%nat -> dg A F unit T i <> 0).
  { intros i Hi. unfold dg. destruct D as [->|D]; [|destruct unit; [|apply D; lia]].
    - intros Z. apply (F_1_neq_0 Fth). exact Z.
    - intros Z. apply (F_1_neq_0 Fth). exact Z. }
  assert (Hrev : forall m i, (n - i <= m)%nat -> (i < n)%nat -> z i = 0).
  { induction m; intros i Hm Hi; [lia|].
    pose proof (H i Hi) as E. rewrite (mv_upper A F Fth) in E by exact Hi.
    rewrite (sumr_zero (S i) n) in E by (intros j Hj; rewrite (IHm j) by lia; ring).
    assert (E2 : dg A F unit T i * z i = 0) by (rewrite <- E; ring).
    assert (Z : z i = (dg A F unit T i * z i) / dg A F unit T i) by (field; apply Hd; exact Hi).
    rewrite Z, E2. field. apply Hd; exact Hi. }
  intros i Hi. apply (Hrev n i); lia.
Qed.

Lemma gram_injective : forall n r (L Lc : mat) (d : vec), chol_contract n r L Lc -> (forall a, (a < r)%nat -> Lc a a <> 0) ->
  (forall a, (a < r)%nat -> sumr 0 r (fun c => gram n L a c * d c) = 0) -> forall a, (a < r)%nat -> d a = 0.
Proof.
  intros n r L Lc d HC HD H.
  set (e := fun t => sumr 0 r (fun c => tri A F false false Lc c t * d c)).
  assert (He : forall t, (t < r)%nat -> e t = 0).
  { apply (tri_lower_unique A F Fth r false Lc e); [right; intros; apply HD; lia|].
    intros a Ha. rewrite <- (H a Ha). unfold C02Proofs.mv, e.
    rewrite (sumr_ext 0 r (fun c => gram n L a c * d c) (fun c => sumr 0 r (fun t => tri A F false false Lc a t * (tri A F false false Lc c t * d c)))).
    2:{ intros c Hc. rewrite <- (symm_of_lower_symm (gram n L) (gram_symm n L) a c).
        rewrite <- (LLt_entry A F Fth r (gram n L) Lc HC a c) by lia. rewrite <- sumr_mul_r. apply sumr_ext. intros; ring. }
    rewrite sumr_swap. apply sumr_ext. intros t Ht. rewrite sumr_mul_l. reflexivity. }
  apply (tri_upper_unique r false (transp A Lc) d); [right; intros; unfold transp; apply HD; lia|].
  intros t Ht. rewrite <- (He t Ht). unfold C02Proofs.mv, e. apply sumr_ext. intros c Hc.
  change true with (negb false). rewrite (tri_transp A F). reflexivity.
Qed.

Lemma perm_eq : forall n (A0 : mat) P (b y : vec), pgood P 0 n n ->
  (forall i, (i < n)%nat ->
     sumr 0 n (fun j => A0 (perm_of P 0 n i) (perm_of P 0 n j) * y j) = swap_vec A F n n P b i) ->
  forall i, (i < n)%nat -> mv n A0 (swap_vec_inv A F n n P y) i = b i.
Proof.
  intros n A0 P b y G H i Hi.
  destruct (perm_of_bijective P n G i Hi) as [_ [Hi' [Hii _]]].
  set (i' := perm_inv P 0 n i) in *. specialize (H i' Hi'). rewrite Hii in H. rewrite swap_vec_eq, Hii in H.
  rewrite <- H. unfold C02Proofs.mv.
  rewrite <- (sumr_perm A F Fth P n n (fun j => A0 i j * swap_vec_inv A F n n P y j) (le_n _) G).
  apply sumr_ext. intros j Hj. f_equal. rewrite swap_vec_inv_eq by lia. rewrite Nat.sub_diag. rewrite perm_inv_of. reflexivity.
Qed.

(* b in the range of A: the returned x solves the system *)
Theorem semi_solve_with_in_range : forall o n r (A0 L : mat) P Lc b w x, (r <= n)%nat -> pgood P 0 n n ->
  (forall i j, (i < n)%nat -> (j < n)%nat -> sumr 0 r (fun u => L i u * L j u) = A0 (perm_of P 0 n i) (perm_of P 0 n j)) ->
  (forall t u, (t < r)%nat -> (t < u < n)%nat -> L t u = 0) ->
  ((0 < r < n)%nat -> chol_contract n r L Lc /\ forall a, (a < r)%nat -> Lc a a <> 0) ->
  (forall k, (k < n)%nat -> b k = mv n A0 w k) ->
  semi_solve_with A F o n r L P Lc b = Some x ->
  forall i, (i < n)%nat -> mv n A0 x i = b i.
Proof.
  intros o n r A0 L P Lc b w x Hr G HB HU HC Hb H. unfold semi_solve_with in H.
  set (b1 := swap_vec A F n n P b) in *.
  set (sg := perm_of P 0 n) in *.
  set (w' := fun k => w (sg k)).
  (* the permuted right-hand side is B w' *)
  assert (Hb1 : forall k, (k < n)%nat -> b1 k = sumr 0 n (fun j => sumr 0 r (fun u => L k u * L j u) * w' j)).
  { intros k Hk. unfold b1. rewrite swap_vec_eq. fold sg.
    rewrite Hb by (apply (perm_of_bijective P n G k Hk)). unfold C02Proofs.mv.
    rewrite <- (sumr_perm A F Fth P n n (fun j => A0 (sg k) j * w j) (le_n _) G). apply sumr_ext. intros j Hj.
    fold sg. rewrite <- (HB k j) by lia. reflexivity. }
  assert (Fin : forall y : vec,
     (forall i, (i < n)%nat -> sumr 0 n (fun j => sumr 0 r (fun u => L i u * L j u) * y j) = b1 i) ->
     forall i, (i < n)%nat -> mv n A0 (swap_vec_inv A F n n P y) i = b i).
  { intros y Hy. apply perm_eq; [exact G|]. intros i Hi. fold b1. rewrite <- (Hy i Hi). apply sumr_ext. intros j Hj.
    fold sg. rewrite <- (HB i j) by lia. reflexivity. }
  destruct (Nat.eqb_spec r 0) as [E0|E0].
  - inversion H; subst x. apply Fin. intros i Hi. rewrite Hb1 by exact Hi. subst r.
    rewrite !(sumr_zero 0 n); [reflexivity| |]; intros j Hj; rewrite (sumr_empty A F 0 0) by lia; ring.
  - destruct (Nat.eqb_spec r n) as [En|En].
    + subst r. destruct (chol_solve_with A F o L n b1) as [y|] eqn:Ey; [|discriminate]. inversion H; subst x.
      apply Fin. intros i Hi.
      set (M := fun i c => sumr 0 n (fun u => L i u * L c u)).
      assert (HM : forall i c, (c <= i < n)%nat -> sumr 0 (S c) (fun t => L i t * L c t) = M i c).
      { intros i0 c Hc. unfold M. rewrite (sumr_split 0 (S c) n) by lia.
        rewrite (sumr_zero (S c) n) by (intros t Ht; rewrite (HU c t) by lia; ring). ring. }
      pose proof (cholesky_solve_with_correct A F Fth feqb_spec o n M L b1 y HM Ey) as Sol.
      assert (MS : forall i j, M i j = M j i) by (intros; unfold M; apply sumr_ext; intros; ring).
      rewrite <- (Sol i Hi). unfold C02Proofs.mv. apply sumr_ext. intros j Hj. rewrite symm_of_lower_symm by exact MS. reflexivity.
    + assert (Hr2 : (0 < r < n)%nat) by lia. destruct (HC Hr2) as [HCc HD].
      set (z := memo A F r (fun a => sumr 0 n (fun i => L i a * b1 i))) in *.
      destruct (chol_solve_with A F o Lc r z) as [w1|] eqn:E1; [|discriminate].
      destruct (chol_solve_with A F o Lc r w1) as [w2|] eqn:E2; [|discriminate].
      inversion H; subst x. clear H.
      pose proof (cholesky_solve_with_correct A F Fth feqb_spec o r (gram n L) Lc z w1 HCc E1) as S1.
      pose proof (cholesky_solve_with_correct A F Fth feqb_spec o r (gram n L) Lc w1 w2 HCc E2) as S2.
      apply Fin. intros i Hi.
      set (v := fun u => sumr 0 n (fun j => L j u * w' j)).
      assert (Hbv : forall k, (k < n)%nat -> b1 k = sumr 0 r (fun u => L k u * v u)).
      { intros k Hk. rewrite Hb1 by exact Hk. apply (B_apply n r L w' k). }
      (* G w1 = z = G v  ==>  w1 = v *)
      assert (Hw : forall a, (a < r)%nat -> w1 a = v a).
      { intros a Ha.
        assert (Z : w1 a - v a = 0).
        { apply (gram_injective n r L Lc (fun c => w1 c - v c) HCc HD); [|exact Ha].
          intros a' Ha'. rewrite (sumr_ext 0 r _ (fun c => gram n L a' c * w1 c - gram n L a' c * v c)) by (intros; ring).
          rewrite sumr_sub.
          assert (X1 : sumr 0 r (fun c => gram n L a' c * w1 c) = z a').
          { rewrite <- (S1 a' Ha'). unfold C02Proofs.mv. apply sumr_ext. intros c Hc.
            rewrite symm_of_lower_symm by (apply gram_symm). reflexivity. }
          rewrite X1. unfold z. rewrite memo_eq.
          rewrite (sumr_ext 0 n _ (fun i0 => L i0 a' * sumr 0 r (fun u => L i0 u * v u))) by (intros i0 Hi0; rewrite Hbv by lia; reflexivity).
          rewrite (gram_apply n r L v a'). unfold gram. cbv beta. ring. }
        assert (E : w1 a = (w1 a - v a) + v a) by ring. rewrite E, Z. ring. }
      rewrite (By_eq n r L w1 w2 _).
      * rewrite Hbv by exact Hi. apply sumr_ext. intros u Hu. rewrite Hw by lia. reflexivity.
      * intros a Ha. rewrite <- (S2 a Ha). unfold C02Proofs.mv. apply sumr_ext. intros c Hc.
        rewrite symm_of_lower_symm by (apply gram_symm). reflexivity.
      * intros k Hk. rewrite memo_eq. reflexivity.
Qed.

(* the solve returns (no exception out of the triangular solves) when the diagonals are non-zero *)
Theorem semi_solve_with_total : forall o n r (L : mat) P Lc b,
  (r = n -> forall t, (t < n)%nat -> L t t <> 0) -> ((0 < r < n)%nat -> forall a, (a < r)%nat -> Lc a a <> 0) -> (r <= n)%nat ->
  exists x, semi_solve_with A F o n r L P Lc b = Some x.
Proof.
  intros o n r L P Lc b H1 H2 Hr. unfold semi_solve_with.
  destruct (Nat.eqb_spec r 0); [eexists; reflexivity|].
  destruct (Nat.eqb_spec r n) as [En|En].
  - destruct (cholesky_solve_total A F feqb_spec o n L (swap_vec A F n n P b) (H1 En)) as [y Ey]. rewrite Ey. eexists; reflexivity.
  - assert (Hr2 : (0 < r < n)%nat) by lia.
    match goal with |- context [chol_solve_with A F o Lc r ?z] => destruct (cholesky_solve_total A F feqb_spec o r Lc z (H2 Hr2)) as [w1 E1] end.
    rewrite E1. destruct (cholesky_solve_total A F feqb_spec o r Lc w1 (H2 Hr2)) as [w2 E2]. rewrite E2. eexists; reflexivity.
Qed.

(* ---------- the whole path for row-major storage: pstrf, potrf of L^T L, solve ---------- *)
(* semi_decompose psbs bs tbs RowMajor n epsm A0 is, by definition, pstrf_full (= pstrf with eps = pstrf_eps n epsm A0) followed,
   when r < n, by potrf_blocked2 false RowMajor r (semi_gram n r L) = potrf_rec bs tbs r r 0 r (semi_gram n r L). *)
Hypothesis fleb_00 : fleb F 0 0 = true.

Theorem semi_solve_rowmajor : forall eps psbs bs tbs n (A0 L Lc : mat) r P piv b x,
  fleb F 0 eps = true -> (0 < psbs)%nat -> (0 < bs)%nat -> (0 < tbs)%nat ->
  (forall i j, A0 i j = A0 j i) ->
  pstrf A F psbs n eps A0 = (r, L, P, piv) -> sq_ok A F piv ->
  (forall i j, (r <= i < n)%nat -> (r <= j < n)%nat ->
     A0 (perm_of P 0 n i) (perm_of P 0 n j) = sumr 0 r (fun u => L i u * L j u)) ->
  ((0 < r < n)%nat -> potrf_rec A F bs tbs r r 0 r (semi_gram A F n r L) = BOk A Lc /\
                      sqrt_exact_lower A F r r (semi_gram A F n r L)) ->
  semi_solve_with A F RowMajor n r L P Lc b = Some x ->
  (forall i, (i < n)%nat -> mv n A0 (fun k => mv n A0 x k - b k) i = 0) /\
  (forall w, (forall k, (k < n)%nat -> b k = mv n A0 w k) -> forall i, (i < n)%nat -> mv n A0 x i = b i).
Proof.
  intros eps psbs bs tbs n A0 L Lc r P piv b x He Hps Hbs Htbs Sy Hp Hsq Hex Hch Hs.
  pose proof (pstrf_spec A F Fth eps He psbs n A0 L r P piv Hps Hp Hsq) as (Hr & HG & _ & _ & HU & _ & HD & _).
  pose proof (pstrf_spec_symm A F Fth eps He psbs n A0 L r P piv Hps Hp Hsq Sy) as Hrow.
  assert (G : pgood P 0 n n) by (intros t Ht; apply HG; lia).
  assert (HB : forall i j, (i < n)%nat -> (j < n)%nat ->
            sumr 0 r (fun u => L i u * L j u) = A0 (perm_of P 0 n i) (perm_of P 0 n j)).
  { intros i j Hi Hj. destruct (Nat.lt_ge_cases j r) as [Hjr|Hjr]; [apply Hrow; assumption|].
    destruct (Nat.lt_ge_cases i r) as [Hir|Hir].
    - rewrite Sy. rewrite <- (Hrow j i Hj Hir). apply sumr_ext. intros; ring.
    - symmetry. apply Hex; lia. }
  assert (HC : (0 < r < n)%nat -> chol_contract n r L Lc /\ forall a, (a < r)%nat -> Lc a a <> 0).
  { intros Hr2. destruct (Hch Hr2) as [Hrec Hsqc].
    destruct (potrf_rec_correct A F Fth feqb_spec fleb_00 bs tbs r r (semi_gram A F n r L) Lc Hbs Htbs Hsqc Hrec) as [C1 [C2 _]].
    split; [|exact C2]. intros a c Hac. rewrite C1 by exact Hac. unfold semi_gram. rewrite memo2_eq. reflexivity. }
  split.
  - apply (semi_solve_with_lsq RowMajor n r A0 L P Lc b x Hr G HB HU); [|exact Hs]. intros Hr2. apply HC. exact Hr2.
  - intros w Hw. exact (semi_solve_with_in_range RowMajor n r A0 L P Lc b w x Hr G HB HU HC Hw Hs).
Qed.

End SemiProofs.
