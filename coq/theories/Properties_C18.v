(* C18 — Serialization round-trips preserve behaviour.
   Only statements + `exact`; proofs live in C18Proofs.v, the executable model in C18Model.v.

   PROVED here (for all kinds, all values, all field lists, all objects, all fresh objects, all
   trailing archive content; no bound):
     * the archive codec round-trips for every field kind (C18_codec_roundtrip);
     * a class whose read() streams the same field sequence as its write() restores every streamed
       field exactly and leaves the rest of the archive untouched (C18_seq_roundtrip on value lists,
       C18_class_roundtrip on member maps, the latter also using the member-coverage obligation:
       every non-transient data member is the root of a restored field);
     * diagnostics, showing the obligations are not vacuous: a field dropped from read (leading,
       middle or trailing) leaves the fresh object's value in that member for some object
       (C18_seq_mismatch_dropped_field); two same-kind fields exchanged between read and write parse
       silently and exchange the members (C18_seq_mismatch_swapped_fields); a trailing field read but
       not written runs off the archive (C18_seq_mismatch_extra_trailing_read).
     * NESTED descriptions (C18Nested.v: desc = primitive | object with named fields | vector (length, elements) |
       fixed run | pointer), by structural induction over the description: read of a description equal to the write
       description restores everything streamed AT EVERY DEPTH and leaves the rest of the archive untouched
       (C18_nested_roundtrip); with the coverage obligation of every object node, every non-transient member of every
       nested object is the root of a restored field (C18_nested_class_roundtrip); deep coverage = the class's own
       obligation && that of its fields' descriptions (C18_nested_cover_composes), and coincides with the flat
       obligation for flat classes (C18_nested_cover_flat); a member an object node does not stream keeps the FRESH
       object's value, so an object differing there is not restored (C18_nested_dropped_member_not_restored);
     * the Data<T> layout as coded in Dataset.h / Impl/Dataset.inl / Shape.h (number of batches, per batch a pointer
       record and the batch, then the shape): read(write(d)) has the same batches in the same order and the same shape,
       for every batch description, every list of batches -- incl. the empty dataset and a single one-element batch
       -- read into any fresh dataset (C18_data_roundtrip, _eq, _empty, _single_element); the description the
       translator regenerates (one primitive container field) has the same token layout (C18_data_desc_prim_same_layout);
     * text and binary archives (C18Text.v: the vector serializer of LinAlg/BLAS/cpu/dense.hpp: size item; resize on
       loading; elements only when non-empty): the stream of a vector is the size word followed by one word per element
       (text) / 8 size bytes followed by the element bytes (binary), an EMPTY vector is the single word "0"; loading
       into any stale vector consumes exactly these items, also for consecutive vectors with empty ones among them
       (C18_text_vec_roundtrip_aligned, C18_text_empty_vec_is_one_word, C18_text_empty_vec_aligned,
       C18_text_vecs_roundtrip_aligned, C18_bin_vec_roundtrip_aligned); tokenising the printed character stream gives
       back the words (C18_text_vec_chars_roundtrip); the early-return variant of seeded change C18-3 stays aligned but
       keeps the stale target (C18_vec_early_return_empty_keeps_stale_target).
   TIED to /repo on every run (not proved in this file): tools/translate_serial.py regenerates, per
   serializable class X, coq/gen/c18/C18_X.v with write_fields_X / read_fields_X / members_X /
   transient_X and the obligations rw_X (read_fields_X = write_fields_X, by reflexivity), cover_X
   (covers ... = true, by vm_compute), stale_X and rebuild_X (DERIVED STATE: every transient member is either
   re-established by read() -- referenced, or written by a non-const member function read() calls, at or after the last
   streaming statement; source-level reading confirmed on clang's AST on every run -- or exempt with a one-line reason in
   REBUILD_NOT_REQUIRED; a cache read() no longer rebuilds is reported as transient-not-rebuilt:<Class>::<member>), plus
   the nested descriptions wdesc_X / rdesc_X (member classes as parameters) with nrw_X; tools/c18.py compiles each file separately, composes the nested descriptions in
   coq/gen/C18NestedAll.v (deep_rw_X uses deep_rw_Y of the member classes Y; roundtrip_X instantiates
   C18_nested_class_roundtrip) and checks coq/gen/C18DataTie.v (regenerated Data / LabeledData / Shape = modelled
   layout).  read()/write() that delegate to a helper member function are translated by inlining the helper
   (self-test on synthetic classes, harness/c18_selftest/, every run).  The extracted vector-stream model is run next to
   Boost's real text and binary archives (harness class VectorStream: same words / bytes) on every run.
   MONITORED only (C++ harness harness/c18_*.cpp, text and binary archives): that the restored C++
   object behaves identically (outputs, parameters, dataset structure, next optimizer iterates; incl. the
   multi-objective optimizers with a configured indicator reference point, weighted datasets, image models).
   For every model and kernel class of the harness ALL advertised behaviours are compared (harness/c18_behave.h):
   feature flags, eval (batch, with state, single pattern) and -- where hasFirstParameterDerivative /
   hasFirstInputDerivative say so -- weightedParameterDerivative, weightedInputDerivative, weightedDerivatives on a fixed
   probe batch and a fixed coefficient matrix, for the object restored into a default-constructed (minimal) object and
   into a differently structured / parameterised one, before any setter is called on it (key
   roundtrip:<Class>:<behaviour>; this is what notices a cache that read() fails to rebuild, which parameters, shapes
   and eval() do not show).  That a rebuilt cache holds the RIGHT value is only compared here, not proved.
   Not modelled: Boost.Serialization itself (archive header, class-id/version/tracking and object-id records, pointer
   tracking); the 4 classes that loop over constructor-fixed structure are not composed into C18NestedAll.v;
   "behaves identically" follows from "all non-transient members equal" only under the assumption
   that behaviour is a function of those members and of the constructor-supplied structure. *)
From Coq Require Import List Arith Bool ZArith String.
From SharkV Require Import C18Model C18Proofs C18Nested C18NestedProofs C18Text C18TextProofs.
Import ListNotations.
Open Scope list_scope.

Theorem C18_codec_roundtrip : forall k v rest,
  has_kind k v = true -> decode k (encode k v ++ rest) = Some (v, rest).
Proof. exact codec_roundtrip. Qed.
Print Assumptions C18_codec_roundtrip.

Theorem C18_seq_roundtrip : forall rk wk vs rest,
  rk = wk -> typed_vals wk vs = true -> read_vals rk (write_vals wk vs ++ rest) = Some (vs, rest).
Proof. exact seq_roundtrip. Qed.
Print Assumptions C18_seq_roundtrip.

Theorem C18_class_roundtrip : forall members transient rf wf,
  rf = wf -> covers members wf transient = true ->
  forall x fresh rest, typed_obj wf x = true ->
  exists x', read_obj rf fresh (write_obj wf x ++ rest) = Some (x', rest) /\
             (forall f, In f wf -> lookup (fname f) x' = lookup (fname f) x) /\
             (forall m, In m members -> ~ In m transient ->
                        exists f, In f wf /\ froot f = m /\ lookup (fname f) x' = lookup (fname f) x).
Proof. exact class_roundtrip. Qed.
Print Assumptions C18_class_roundtrip.

Theorem C18_seq_mismatch_dropped_field : forall w1 f w2 fresh x0,
  ~ In (fname f) (map fname (w1 ++ w2)) ->
  informative (fkind f) = true ->
  typed_obj (w1 ++ f :: w2) x0 = true ->
  exists x, typed_obj (w1 ++ f :: w2) x = true /\
    forall rest x' rest',
      read_obj (w1 ++ w2) fresh (write_obj (w1 ++ f :: w2) x ++ rest) = Some (x', rest') ->
      lookup (fname f) x' <> lookup (fname f) x.
Proof. exact seq_mismatch_dropped_field. Qed.
Print Assumptions C18_seq_mismatch_dropped_field.

Theorem C18_seq_mismatch_swapped_fields : forall w1 f g w2 fresh x0,
  fkind f = fkind g -> fname f <> fname g ->
  ~ In (fname f) (map fname (w1 ++ w2)) -> ~ In (fname g) (map fname (w1 ++ w2)) ->
  informative (fkind f) = true ->
  typed_obj (w1 ++ f :: g :: w2) x0 = true ->
  exists x, typed_obj (w1 ++ f :: g :: w2) x = true /\
    forall rest, exists x',
      read_obj (w1 ++ g :: f :: w2) fresh (write_obj (w1 ++ f :: g :: w2) x ++ rest) = Some (x', rest) /\
      lookup (fname f) x' = lookup (fname g) x /\ lookup (fname g) x' = lookup (fname f) x /\
      lookup (fname f) x' <> lookup (fname f) x.
Proof. exact seq_mismatch_swapped_fields. Qed.
Print Assumptions C18_seq_mismatch_swapped_fields.

Theorem C18_seq_mismatch_extra_trailing_read : forall wf f x fresh,
  consuming (fkind f) = true -> typed_obj wf x = true ->
  read_obj (wf ++ [f]) fresh (write_obj wf x) = None.
Proof. exact seq_mismatch_extra_trailing_read. Qed.
Print Assumptions C18_seq_mismatch_extra_trailing_read.

(* ------------------------------------------------------------------------------------------------ *)
(* nested descriptions (C18Nested.v): objects inside objects, containers, pointers -- structural induction over desc *)

Theorem C18_nested_roundtrip : forall rd wd,
  rd = wd -> wfd wd = true ->
  forall x fresh rest, ntyped wd x = true ->
    exists x', nread rd fresh (nwrite wd x ++ rest) = Some (x', rest) /\ streq wd x x'.
Proof. exact nested_roundtrip. Qed.
Print Assumptions C18_nested_roundtrip.

Theorem C18_nested_class_roundtrip : forall rd wd,
  rd = wd -> wfd wd = true -> ncovers wd = true ->
  forall x fresh rest, ntyped wd x = true ->
    exists x', nread rd fresh (nwrite wd x ++ rest) = Some (x', rest) /\
               streq wd x x' /\ restored wd x x'.
Proof. exact nested_class_roundtrip. Qed.
Print Assumptions C18_nested_class_roundtrip.

Theorem C18_nested_cover_composes : forall members transient fs,
  ncovers (DObj members transient fs) = shallow_covers (DObj members transient fs) && fcovers fs.
Proof. exact ncovers_compose. Qed.
Print Assumptions C18_nested_cover_composes.

Theorem C18_nested_cover_flat : forall members transient fl,
  ncovers (desc_of_class members transient fl) = covers members fl transient.
Proof. exact ncovers_flat. Qed.
Print Assumptions C18_nested_cover_flat.

Theorem C18_nested_dropped_member_not_restored : forall members transient rfs fresh ts x' r n,
  nread (DObj members transient rfs) fresh ts = Some (x', r) ->
  ~ In n (fnames rfs) ->
  forall x, nlookup n (members_of x) <> nlookup n (members_of fresh) ->
            nlookup n (members_of x') <> nlookup n (members_of x).
Proof. exact nested_dropped_member_not_restored. Qed.
Print Assumptions C18_nested_dropped_member_not_restored.

Theorem C18_data_roundtrip : forall batch, wfd batch = true ->
  forall bs dims numel fresh rest,
    forallb (ntyped batch) bs = true ->
    exists d', nread (data_desc batch) fresh (nwrite (data_desc batch) (data_val bs (shape_val dims numel)) ++ rest)
               = Some (d', rest) /\
               length (data_batches d') = length bs /\
               Forall2 (streq batch) bs (data_batches d') /\
               shape_dims (data_shape d') = NPrim (VList (map VNat dims)) /\
               shape_numel (data_shape d') = NPrim (VNat numel).
Proof. exact data_roundtrip. Qed.
Print Assumptions C18_data_roundtrip.

Theorem C18_data_roundtrip_eq : forall batch, wfd batch = true -> objfree batch = true ->
  forall bs dims numel fresh rest,
    forallb (ntyped batch) bs = true ->
    exists d', nread (data_desc batch) fresh (nwrite (data_desc batch) (data_val bs (shape_val dims numel)) ++ rest)
               = Some (d', rest) /\
               data_batches d' = bs /\
               shape_dims (data_shape d') = NPrim (VList (map VNat dims)) /\
               shape_numel (data_shape d') = NPrim (VNat numel).
Proof. exact data_roundtrip_eq. Qed.
Print Assumptions C18_data_roundtrip_eq.

Theorem C18_data_roundtrip_empty : forall batch, wfd batch = true ->
  forall dims numel fresh rest,
    exists d', nread (data_desc batch) fresh (nwrite (data_desc batch) (data_val [] (shape_val dims numel)) ++ rest)
               = Some (d', rest) /\
               data_batches d' = [] /\
               shape_dims (data_shape d') = NPrim (VList (map VNat dims)) /\
               shape_numel (data_shape d') = NPrim (VNat numel).
Proof. exact data_roundtrip_empty. Qed.
Print Assumptions C18_data_roundtrip_empty.

Theorem C18_data_roundtrip_single_element : forall v dims numel fresh rest,
  has_kind KDbl v = true ->
  let batch := DPrim (KMat KDbl) in
  let b := NPrim (VMat 1 1 [v]) in
  exists d', nread (data_desc batch) fresh (nwrite (data_desc batch) (data_val [b] (shape_val dims numel)) ++ rest)
             = Some (d', rest) /\
             data_batches d' = [b] /\
             shape_dims (data_shape d') = NPrim (VList (map VNat dims)) /\
             shape_numel (data_shape d') = NPrim (VNat numel).
Proof. exact data_roundtrip_single_element. Qed.
Print Assumptions C18_data_roundtrip_single_element.

(* the description the translator regenerates for Data (one primitive container field) has the token layout of data_desc *)
Theorem C18_data_desc_prim_same_layout : forall k vs dims numel,
  nwrite (data_desc_prim k)
         (NObj [("m_data", NObj [("m_data", NPrim (VList (map VSome vs)))]); ("m_shape", shape_val dims numel)]) =
  nwrite (data_desc (DPrim k)) (data_val (map NPrim vs) (shape_val dims numel)).
Proof. exact data_desc_prim_same_layout. Qed.
Print Assumptions C18_data_desc_prim_same_layout.

(* ------------------------------------------------------------------------------------------------ *)
(* text / binary archives: the stream of a vector as coded in remora vector::serialize (C18Text.v) *)

Theorem C18_text_vec_roundtrip_aligned : forall A (pr : A -> String.string) (pa : String.string -> option A) (dflt : A),
  (forall a, pa (pr a) = Some a) ->
  forall v target rest, text_load_vec pa dflt target (text_save_vec pr v ++ rest) = Some (v, rest).
Proof. exact text_vec_roundtrip_aligned. Qed.
Print Assumptions C18_text_vec_roundtrip_aligned.

Theorem C18_text_empty_vec_is_one_word : forall A (pr : A -> String.string), text_save_vec pr [] = ["0"%string].
Proof. exact text_empty_vec_is_one_word. Qed.
Print Assumptions C18_text_empty_vec_is_one_word.

Theorem C18_text_empty_vec_aligned : forall A (pa : String.string -> option A) (dflt : A) target rest,
  text_load_vec pa dflt target ("0"%string :: rest) = Some ([], rest).
Proof. exact text_empty_vec_aligned. Qed.
Print Assumptions C18_text_empty_vec_aligned.

Theorem C18_text_vecs_roundtrip_aligned : forall A (pr : A -> String.string) (pa : String.string -> option A) (dflt : A),
  (forall a, pa (pr a) = Some a) ->
  forall vs targets rest, List.length targets = List.length vs ->
    load_vecs String.string text_dec_count A (text_dec pa) dflt targets (text_save_vecs pr vs ++ rest) = Some (vs, rest).
Proof. exact text_vecs_roundtrip_aligned. Qed.
Print Assumptions C18_text_vecs_roundtrip_aligned.

Theorem C18_text_vec_chars_roundtrip : forall A (pr : A -> String.string) (v : list A),
  (forall a, word (pr a) = true) ->
  lex (render (text_save_vec pr v)) = print_count (List.length v) :: map pr v.
Proof. exact text_vec_chars_roundtrip. Qed.
Print Assumptions C18_text_vec_chars_roundtrip.

(* seeded change C18-3 (early return before the resize): aligned, silent, and stale for an empty vector *)
Theorem C18_vec_early_return_empty_keeps_stale_target :
  forall item enc_count dec_count A (enc : A -> list item) dec (dflt : A) target rest,
  count_ok item enc_count dec_count 0 ->
  load_vec_early_return item dec_count A dec dflt target (save_vec item enc_count A enc [] ++ rest) = Some (target, rest).
Proof. exact early_return_empty_keeps_stale_target. Qed.
Print Assumptions C18_vec_early_return_empty_keeps_stale_target.

Theorem C18_bin_vec_roundtrip_aligned : forall A (enc : A -> list nat) (dec : list nat -> option (A * list nat)) (dflt : A),
  (forall a r, dec (enc a ++ r) = Some (a, r)) ->
  forall v target rest, List.length v < 256 ^ 8 ->
    load_vec nat bin_dec_count A dec dflt target (save_vec nat bin_enc_count A enc v ++ rest) = Some (v, rest).
Proof. exact bin_vec_roundtrip_aligned. Qed.
Print Assumptions C18_bin_vec_roundtrip_aligned.
