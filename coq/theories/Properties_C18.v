(* C18 — Serialization round-trips preserve behaviour.
   Only statements + `exact`; proofs live in C18Proofs.v, the executable model in C18Model.v.

   PROVED here (for all kinds, all values, all field lists, all objects, all fresh objects, all
   trailing archive content; no bound):
     * the archive codec round-trips for every field kind (C18_codec_roundtrip);
     * a class whose read() streams the same field sequence as its write() restores every streamed
       field exactly and leaves the rest of the archive untouched (C18_seq_roundtrip on value lists,
       C18_class_roundtrip on member maps, the latter also using the member-coverage obligation:
       every non-transient data member is the root of a restored field);
     * diagnostics, showing the obligations are not vacuous: a field dropped from read (leading,
       middle or trailing) leaves the fresh object's value in that member for some object
       (C18_seq_mismatch_dropped_field); two same-kind fields exchanged between read and write parse
       silently and exchange the members (C18_seq_mismatch_swapped_fields); a trailing field read but
       not written runs off the archive (C18_seq_mismatch_extra_trailing_read).
   TIED to /repo on every run (not proved in this file): tools/translate_serial.py regenerates, per
   serializable class X, coq/gen/C18_X.v with write_fields_X / read_fields_X / members_X /
   transient_X and the obligations rw_X (read_fields_X = write_fields_X, by reflexivity), cover_X
   (covers ... = true, by vm_compute) and stale_X; tools/c18.py compiles each file separately.
   MONITORED only (C++ harness harness/c18_*.cpp, text and binary archives): that the restored C++
   object behaves identically (outputs, parameters, dataset structure, next optimizer iterates).
   Not modelled: Boost.Serialization itself (class-id/version/tracking records, pointer tracking);
   "behaves identically" follows from "all non-transient members equal" only under the assumption
   that behaviour is a function of those members and of the constructor-supplied structure. *)
From Coq Require Import List Arith Bool ZArith String.
From SharkV Require Import C18Model C18Proofs.
Import ListNotations.
Open Scope list_scope.

Theorem C18_codec_roundtrip : forall k v rest,
  has_kind k v = true -> decode k (encode k v ++ rest) = Some (v, rest).
Proof. exact codec_roundtrip. Qed.
Print Assumptions C18_codec_roundtrip.

Theorem C18_seq_roundtrip : forall rk wk vs rest,
  rk = wk -> typed_vals wk vs = true -> read_vals rk (write_vals wk vs ++ rest) = Some (vs, rest).
Proof. exact seq_roundtrip. Qed.
Print Assumptions C18_seq_roundtrip.

Theorem C18_class_roundtrip : forall members transient rf wf,
  rf = wf -> covers members wf transient = true ->
  forall x fresh rest, typed_obj wf x = true ->
  exists x', read_obj rf fresh (write_obj wf x ++ rest) = Some (x', rest) /\
             (forall f, In f wf -> lookup (fname f) x' = lookup (fname f) x) /\
             (forall m, In m members -> ~ In m transient ->
                        exists f, In f wf /\ froot f = m /\ lookup (fname f) x' = lookup (fname f) x).
Proof. exact class_roundtrip. Qed.
Print Assumptions C18_class_roundtrip.

Theorem C18_seq_mismatch_dropped_field : forall w1 f w2 fresh x0,
  ~ In (fname f) (map fname (w1 ++ w2)) ->
  informative (fkind f) = true ->
  typed_obj (w1 ++ f :: w2) x0 = true ->
  exists x, typed_obj (w1 ++ f :: w2) x = true /\
    forall rest x' rest',
      read_obj (w1 ++ w2) fresh (write_obj (w1 ++ f :: w2) x ++ rest) = Some (x', rest') ->
      lookup (fname f) x' <> lookup (fname f) x.
Proof. exact seq_mismatch_dropped_field. Qed.
Print Assumptions C18_seq_mismatch_dropped_field.

Theorem C18_seq_mismatch_swapped_fields : forall w1 f g w2 fresh x0,
  fkind f = fkind g -> fname f <> fname g ->
  ~ In (fname f) (map fname (w1 ++ w2)) -> ~ In (fname g) (map fname (w1 ++ w2)) ->
  informative (fkind f) = true ->
  typed_obj (w1 ++ f :: g :: w2) x0 = true ->
  exists x, typed_obj (w1 ++ f :: g :: w2) x = true /\
    forall rest, exists x',
      read_obj (w1 ++ g :: f :: w2) fresh (write_obj (w1 ++ f :: g :: w2) x ++ rest) = Some (x', rest) /\
      lookup (fname f) x' = lookup (fname g) x /\ lookup (fname g) x' = lookup (fname f) x /\
      lookup (fname f) x' <> lookup (fname f) x.
Proof. exact seq_mismatch_swapped_fields. Qed.
Print Assumptions C18_seq_mismatch_swapped_fields.

Theorem C18_seq_mismatch_extra_trailing_read : forall wf f x fresh,
  consuming (fkind f) = true -> typed_obj wf x = true ->
  read_obj (wf ++ [f]) fresh (write_obj wf x) = None.
Proof. exact seq_mismatch_extra_trailing_read. Qed.
Print Assumptions C18_seq_mismatch_extra_trailing_read.
