(* C13 — proofs for C13ContribNoref.v: the contribution front end with reference point, and what the overloads
   without reference point return for every k <= n. *)
From Coq Require Import List ZArith Lia Bool Arith Permutation Sorted.
From SharkV Require Import ListAux C13Model C13Proofs C13ProofsFast C13ProofsContrib C13Wfg C13WfgProofs C13Disp C13DispProofs.
From SharkV Require Import C13Dc C13DcAuxProofs C13DcProofs C13ContribMd C13ContribMdProofs C13Contrib3d C13Contrib3dInvProofs C13Contrib3dProofs C13ContribNoref.
Import ListNotations.
Local Open Scope Z_scope.

(* ---------------------------------------------------------------------------------------- *)
(* front end with reference point *)
Definition hoy_ok (hoy : point -> list point -> Z) (ref : point) : Prop :=
  length ref <> 4%nat \/ forall ref S, length ref = 4%nat -> below_ref ref S -> hoy ref S = hv_spec ref S.

Theorem contribs_front_correct hoy ref S :
  (2 <= length ref)%nat -> hoy_ok hoy ref -> below_ref ref S ->
  (length ref <= 3 -> mutually_nondominated S)%nat ->
  Permutation (contribs_front hoy ref S) (combine (contribs_spec ref S) (seq 0 (length S))).
Proof.
  intros Hd Hh HB HN. unfold contribs_front.
  destruct (length ref) as [|[|[|[|m]]]] eqn:El; try lia.
  - apply contrib2d_ref_correct; auto.
  - apply contribs3d_correct; auto.
  - rewrite contribs_md_inst_correct; auto. lia.
Qed.

Lemma spec_nth ref S i : (i < length S)%nat -> nth i (contribs_spec ref S) 0 = contrib_spec ref S i.
Proof.
  intros Hi. unfold contribs_spec.
  rewrite (nth_indep _ 0 (contrib_spec ref S 0)) by (rewrite map_length, seq_length; auto).
  rewrite map_nth, seq_nth; auto.
Qed.

Theorem contrib_front_smallest_correct hoy ref S k :
  (2 <= length ref)%nat -> hoy_ok hoy ref -> below_ref ref S ->
  (length ref <= 3 -> mutually_nondominated S)%nat -> (k <= length S)%nat ->
  let res := contrib_front_smallest hoy ref S k in
  map fst res = smallest_k k (contribs_spec ref S) /\ length res = k /\ NoDup (map snd res) /\
  forall v i, In (v, i) res -> (i < length S)%nat /\ v = contrib_spec ref S i.
Proof.
  intros Hd Hh HB HN Hk res. unfold res, contrib_front_smallest.
  destruct (smallest_kv_spec (contribs_spec ref S) (contribs_front hoy ref S) k) as [A [B [C Dd]]].
  - rewrite contribs_spec_length. apply contribs_front_correct; auto.
  - now rewrite contribs_spec_length.
  - split; auto. split; auto. split; auto. intros v i Hin. destruct (Dd v i Hin) as [H1 H2].
    rewrite contribs_spec_length in H1. split; auto. rewrite H2. apply spec_nth. auto.
Qed.

Theorem contrib_front_largest_correct hoy ref S k :
  (2 <= length ref)%nat -> hoy_ok hoy ref -> below_ref ref S ->
  (length ref <= 3 -> mutually_nondominated S)%nat -> (k <= length S)%nat ->
  let res := contrib_front_largest hoy ref S k in
  map fst res = largest_k k (contribs_spec ref S) /\ length res = k /\ NoDup (map snd res) /\
  forall v i, In (v, i) res -> (i < length S)%nat /\ v = contrib_spec ref S i.
Proof.
  intros Hd Hh HB HN Hk res. unfold res, contrib_front_largest.
  destruct (largest_kv_spec (contribs_spec ref S) (contribs_front hoy ref S) k) as [A [B [C Dd]]].
  - rewrite contribs_spec_length. apply contribs_front_correct; auto.
  - now rewrite contribs_spec_length.
  - split; auto. split; auto. split; auto. intros v i Hin. destruct (Dd v i Hin) as [H1 H2].
    rewrite contribs_spec_length in H1. split; auto. rewrite H2. apply spec_nth. auto.
Qed.

(* ---------------------------------------------------------------------------------------- *)
(* the implicit reference point is weakly dominated by every point *)
Lemma pmax_leq_l : forall p q, length p = length q -> leq_all p (pmax p q).
Proof.
  induction p as [|x p IH]; intros [|y q] H; cbn in *; try discriminate; constructor; [lia|]. apply IH. lia.
Qed.

Lemma pmax_leq_r : forall p q, length p = length q -> leq_all q (pmax p q).
Proof.
  induction p as [|x p IH]; intros [|y q] H; cbn in *; try discriminate; constructor; [lia|]. apply IH. lia.
Qed.

Lemma pmax_all_spec d : forall S p, length p = d -> same_dim d S ->
  length (pmax_all p S) = d /\ leq_all p (pmax_all p S) /\ forall q, In q S -> leq_all q (pmax_all p S).
Proof.
  induction S as [|q S IH]; intros p Hp Hd; cbn [pmax_all].
  - split; auto. split; [apply leq_all_refl|intros q []].
  - assert (Hq : length q = d) by (apply Hd; now left).
    assert (Hpq : length (pmax p q) = d) by (rewrite pmax_length; lia).
    destruct (IH (pmax p q) Hpq (fun x Hx => Hd x (or_intror Hx))) as [A [B C]].
    split; auto. split.
    + apply (leq_all_trans p (pmax p q)); [apply pmax_leq_l; lia|exact B].
    + intros x [<-|Hx]; auto. apply (leq_all_trans q (pmax p q)); [apply pmax_leq_r; lia|exact B].
Qed.

Lemma implicit_ref_spec d S : S <> [] -> same_dim d S ->
  length (implicit_ref S) = d /\ below_ref (implicit_ref S) S.
Proof.
  intros Hne Hd. destruct S as [|p t]; [congruence|]. cbn [implicit_ref].
  destruct (pmax_all_spec d t p (Hd p (or_introl eq_refl)) (fun x Hx => Hd x (or_intror Hx))) as [A [B C]].
  split; auto. intros q [<-|Hq]; auto.
Qed.

(* ---------------------------------------------------------------------------------------- *)
(* sub-selections of a list of entries *)
Definition subsel (res all : list kv) : Prop :=
  NoDup (map snd res) /\ forall e, In e res -> In e all.

Lemma NoDup_app_intro {A} (a b : list A) : NoDup a -> NoDup b -> (forall x, In x a -> In x b -> False) -> NoDup (a ++ b).
Proof.
  induction a as [|x a IH]; intros Ha Hb Hd; cbn [app]; auto.
  inversion Ha; subst. constructor.
  - intros Hc. apply in_app_or in Hc. destruct Hc as [Hc|Hc]; [contradiction|]. apply (Hd x); auto. now left.
  - apply IH; auto. intros y Hy1 Hy2. apply (Hd y); auto. now right.
Qed.

Lemma NoDup_firstn {A} (l : list A) k : NoDup l -> NoDup (firstn k l).
Proof.
  intros H. rewrite <- (firstn_skipn k l) in H. apply NoDup_app_both in H. tauto.
Qed.

Lemma NoDup_skipn {A} (l : list A) k : NoDup l -> NoDup (skipn k l).
Proof.
  intros H. rewrite <- (firstn_skipn k l) in H. apply NoDup_app_both in H. tauto.
Qed.

Lemma In_firstn {A} (l : list A) k x : In x (firstn k l) -> In x l.
Proof. intros H. rewrite <- (firstn_skipn k l). apply in_or_app. auto. Qed.

Lemma In_skipn {A} (l : list A) k x : In x (skipn k l) -> In x l.
Proof. intros H. rewrite <- (firstn_skipn k l). apply in_or_app. auto. Qed.

Lemma select_rest_props largest rest k :
  NoDup (map snd rest) ->
  NoDup (map snd (select_rest largest rest k)) /\
  (forall e, In e (select_rest largest rest k) -> In e rest) /\
  length (select_rest largest rest k) = Nat.min k (length rest).
Proof.
  intros HN. unfold select_rest. unfold kv in *. destruct largest.
  - split; [|split].
    + rewrite map_rev. apply NoDup_rev. rewrite <- skipn_map. apply NoDup_skipn. auto.
    + intros e He. apply in_rev in He. eapply In_skipn; eauto.
    + rewrite rev_length, skipn_length. lia.
  - split; [|split].
    + rewrite <- firstn_map. apply NoDup_firstn. auto.
    + intros e He. eapply In_firstn; eauto.
    + apply firstn_length.
Qed.

(* selection followed by the appended extreme points *)
Lemma sel_append_props largest rest ext k :
  NoDup (map snd (rest ++ ext)) -> (k <= length rest + length ext)%nat ->
  let sel := select_rest largest rest k in
  let res := sel ++ firstn (k - length sel) ext in
  length res = k /\ NoDup (map snd res) /\ forall e, In e res -> In e (rest ++ ext).
Proof.
  intros HN Hk sel res. rewrite map_app in HN. pose proof (NoDup_app_both _ _ HN) as [HN1 HN2].
  destruct (select_rest_props largest rest k HN1) as [S1 [S2 S3]]. fold sel in S1, S2, S3.
  split; [|split].
  - unfold res. rewrite app_length, firstn_length, S3. lia.
  - unfold res. rewrite map_app. apply NoDup_app_intro.
    + exact S1.
    + rewrite <- firstn_map. apply NoDup_firstn. auto.
    + intros x Hx1 Hx2. apply in_map_iff in Hx1. destruct Hx1 as [e1 [E1 H1]]. apply in_map_iff in Hx2.
      destruct Hx2 as [e2 [E2 H2]]. apply S2 in H1. apply In_firstn in H2.
      clear -HN H1 H2 E1 E2. induction rest as [|r rest IH]; [destruct H1|]. cbn [app map] in HN. inversion HN; subst.
      destruct H1 as [->|H1].
      * apply H3. rewrite <- map_app. apply in_map_iff. exists e2. split; [congruence|]. apply in_or_app. auto.
      * apply IH; auto.
  - intros e He. unfold res in He. apply in_app_or in He. apply in_or_app.
    destruct He as [He|He]; [left; auto|right; eapply In_firstn; eauto].
Qed.

(* ---------------------------------------------------------------------------------------- *)
(* 3-D without reference point *)
Lemma take_index_perm m : forall l e rest, take_index m l = Some (e, rest) -> Permutation l (e :: rest).
Proof.
  induction l as [|x l IH]; intros e rest H; cbn [take_index] in H; [discriminate|].
  destruct (snd x =? m)%nat.
  - inversion H; subst. auto.
  - destruct (take_index m l) as [[y t']|] eqn:E; [|discriminate]. inversion H; subst.
    rewrite (IH _ _ eq_refl). apply perm_swap.
Qed.

Lemma split_extremes_perm mi : forall ext rest ext' rest',
  fold_left (fun er m => match take_index m (snd er) with
                         | Some (e, rest') => (fst er ++ [e], rest')
                         | None => er
                         end) mi (ext, rest) = (ext', rest') ->
  Permutation (rest' ++ ext') (rest ++ ext).
Proof.
  induction mi as [|m mi IH]; intros ext rest ext' rest' H; cbn [fold_left] in H.
  - inversion H; subst. auto.
  - cbn [fst snd] in H. destruct (take_index m rest) as [[e r1]|] eqn:E.
    + rewrite (IH _ _ _ _ H). rewrite (take_index_perm m rest e r1 E).
      rewrite app_assoc. rewrite <- Permutation_cons_append. cbn [app]. reflexivity.
    + apply (IH _ _ _ _ H).
Qed.

Definition noref_ok (iref : point) (S : list point) (k : nat) (res : list kv) : Prop :=
  length res = k /\ NoDup (map snd res) /\
  forall v i, In (v, i) res -> (i < length S)%nat /\ v = contrib_spec iref S i.

Lemma entries_of_spec ref S (all : list kv) :
  Permutation all (combine (contribs_spec ref S) (seq 0 (length S))) ->
  NoDup (map snd all) /\ length all = length S /\
  forall v i, In (v, i) all -> (i < length S)%nat /\ v = contrib_spec ref S i.
Proof.
  intros HP. split; [|split].
  - apply (Permutation_NoDup (l := seq 0 (length S))); [|apply seq_NoDup].
    symmetry. rewrite HP. rewrite map_snd_combine; auto. now rewrite contribs_spec_length, seq_length.
  - rewrite (Permutation_length HP). etransitivity; [apply combine_length|]. rewrite contribs_spec_length, seq_length. lia.
  - intros v i Hin. apply (Permutation_in _ HP) in Hin. unfold contribs_spec in Hin. rewrite combine_map_self in Hin.
    apply in_map_iff in Hin. destruct Hin as [j [E Hj]]. inversion E; subst. apply in_seq in Hj. split; [lia|reflexivity].
Qed.

Theorem noref3d_correct largest S k :
  S <> [] -> same_dim 3 S -> mutually_nondominated S -> (k <= length S)%nat ->
  noref_ok (implicit_ref S) S k (noref3d largest S k).
Proof.
  intros Hne Hd HN Hk. destruct (implicit_ref_spec 3 S Hne Hd) as [Hl HB].
  unfold noref3d. cbv zeta. set (iref := implicit_ref S) in *.
  pose proof (contribs3d_correct iref S Hl HB HN) as HP.
  assert (HPa : Permutation (sort_kv (contribs3d iref S)) (combine (contribs_spec iref S) (seq 0 (length S)))).
  { rewrite sort_kv_perm. exact HP. }
  unfold split_extremes.
  destruct (fold_left _ (min_indices 3 S) ([], sort_kv (contribs3d iref S))) as [ext rest] eqn:E.
  pose proof (split_extremes_perm _ _ _ _ _ E) as HPs. rewrite app_nil_r in HPs.
  assert (HPall : Permutation (rest ++ ext) (combine (contribs_spec iref S) (seq 0 (length S)))).
  { rewrite HPs. exact HPa. }
  destruct (entries_of_spec iref S _ HPall) as [N1 [N2 N3]].
  destruct (sel_append_props largest rest ext k N1) as [R1 [R2 R3]].
  { rewrite <- app_length. unfold kv in *. lia. }
  cbv zeta in R1, R2, R3. split; [exact R1|]. split; [exact R2|]. intros v i Hin. apply N3. apply R3. exact Hin.
Qed.

(* ---------------------------------------------------------------------------------------- *)
(* MD without reference point *)
Lemma insert_kvi_perm p l : Permutation (insert_kvi p l) (p :: l).
Proof.
  induction l as [|q t IH]; cbn [insert_kvi]; auto.
  destruct (_ || _); auto. rewrite IH. apply perm_swap.
Qed.

Lemma sort_kvi_perm l : Permutation (sort_kvi l) l.
Proof.
  induction l as [|p l IH]; cbn [sort_kvi fold_right]; auto.
  fold (sort_kvi l). rewrite insert_kvi_perm. now constructor.
Qed.

Lemma insert_nat_perm v l : Permutation (insert_nat v l) (v :: l).
Proof.
  induction l as [|w t IH]; cbn [insert_nat]; auto.
  destruct (v <=? w)%nat; auto. rewrite IH. apply perm_swap.
Qed.

Lemma insert_nat_sorted v l : StronglySorted le l -> StronglySorted le (insert_nat v l).
Proof.
  induction 1 as [|w t HS IH HF]; cbn [insert_nat]; [repeat constructor|].
  rewrite Forall_forall in HF. destruct (Nat.leb_spec v w).
  - constructor; [constructor; auto; now apply Forall_forall|].
    apply Forall_forall. intros x [<-|Hx]; [lia|]. specialize (HF x Hx). lia.
  - constructor; auto. apply Forall_forall. intros x Hx.
    eapply Permutation_in in Hx; [|apply insert_nat_perm]. destruct Hx as [<-|Hx]; [lia|auto].
Qed.

Lemma uniq_nat_spec : forall l, StronglySorted le l ->
  StronglySorted lt (uniq_nat l) /\ (forall x, In x (uniq_nat l) <-> In x l) /\
  (forall x, In x (uniq_nat l) -> match l with [] => False | y :: _ => (y <= x)%nat end).
Proof.
  induction l as [|v t IH]; intros HS; [cbn; repeat split; auto; try constructor; intros x []|].
  apply StronglySorted_inv in HS. destruct HS as [HS HF]. rewrite Forall_forall in HF.
  destruct (IH HS) as [A [B C]]. cbn [uniq_nat]. destruct t as [|w t'].
  - split; [repeat constructor|]. split; [tauto|]. intros x [<-|[]]. lia.
  - destruct (Nat.eqb_spec v w) as [->|Hne].
    + split; auto. split.
      * intros x. rewrite B. cbn [In]. tauto.
      * intros x Hx. specialize (C x Hx). exact C.
    + split; [|split].
      * constructor; auto. apply Forall_forall. intros x Hx. specialize (C x Hx). cbn in C.
        pose proof (HF w (or_introl eq_refl)). lia.
      * intros x. cbn [In]. rewrite B. cbn [In]. tauto.
      * intros x [<-|Hx]; [lia|]. apply B in Hx. specialize (HF x Hx). lia.
Qed.

Lemma sort_uniq_nat_spec l : NoDup (sort_uniq_nat l) /\ forall x, In x (sort_uniq_nat l) <-> In x l.
Proof.
  unfold sort_uniq_nat.
  assert (HS : StronglySorted le (fold_right insert_nat [] l)).
  { induction l as [|v l' IH]; cbn [fold_right]; [constructor|]. now apply insert_nat_sorted. }
  assert (HP : Permutation (fold_right insert_nat [] l) l).
  { clear HS. induction l as [|v l' IH]; cbn [fold_right]; auto. rewrite insert_nat_perm. now constructor. }
  destruct (uniq_nat_spec _ HS) as [A [B _]]. split.
  - clear -A. induction A as [|x l0 HSl IH HF]; constructor; auto. rewrite Forall_forall in HF.
    intros Hc. specialize (HF x Hc). lia.
  - intros x. rewrite B. split; intros H; [eapply Permutation_in; eauto|eapply Permutation_in; [symmetry; eauto|auto]].
Qed.

Lemma argmin_from_range j : forall t best bi i,
  argmin_from j best bi i t = bi \/ (i <= argmin_from j best bi i t < i + length t)%nat.
Proof.
  induction t as [|q t IH]; intros best bi i; cbn [argmin_from length]; [now left|].
  destruct (nth j q 0 <? best).
  - destruct (IH (nth j q 0) i (Datatypes.S i)) as [->|H]; right; lia.
  - destruct (IH best bi (Datatypes.S i)) as [->|H]; [now left|right; lia].
Qed.

Lemma min_index_lt S j : S <> [] -> (min_index S j < length S)%nat.
Proof.
  intros Hne. destruct S as [|p t]; [congruence|]. cbn [min_index length].
  destruct (argmin_from_range j t (nth j p 0) 0%nat 1%nat) as [->|H]; lia.
Qed.

Lemma same_set_length (a b : list nat) : NoDup a -> NoDup b -> (forall x, In x a <-> In x b) -> length a = length b.
Proof. intros Ha Hb H. apply Permutation_length. apply NoDup_Permutation; auto. Qed.

Theorem norefmd_correct hoy largest S k d :
  S <> [] -> same_dim d S -> (2 <= d)%nat ->
  (d <> 4%nat \/ forall ref S, length ref = 4%nat -> below_ref ref S -> hoy ref S = hv_spec ref S) ->
  (k <= length S)%nat ->
  noref_ok (implicit_ref S) S k (norefmd hoy largest S k).
Proof.
  intros Hne Hd Hd2 Hh Hk. destruct (implicit_ref_spec d S Hne Hd) as [Hl HB].
  unfold norefmd. cbv zeta. set (iref := implicit_ref S) in *. rewrite Hl.
  set (mi := min_indices d S).
  set (cm := fun i => contrib_md (hv_dispatch hoy) nds_front iref S i).
  assert (Hcm : forall i, (i < length S)%nat -> cm i = contrib_spec iref S i).
  { intros i Hi. unfold cm. apply contrib_md_correct; auto.
    - intros L HL. apply (nds_front_eq_rank_list (length iref)); auto. lia.
    - intros S' HB'. destruct Hh as [Hh|Hh]; [apply hv_dispatch_correct; auto; lia|apply hv_dispatch_correct_all; auto]. }
  assert (Hmi : forall x, In x mi -> (x < length S)%nat).
  { intros x Hx. unfold mi, min_indices in Hx. apply in_map_iff in Hx. destruct Hx as [j [<- _]]. apply min_index_lt. auto. }
  set (cand := filter (fun i => negb (existsb (Nat.eqb i) mi)) (seq 0 (length S))).
  destruct (sort_uniq_nat_spec mi) as [U1 U2].
  set (um := sort_uniq_nat mi) in *.
  set (res := sort_kvi (map (fun i => (cm i, i)) cand)).
  set (ext := map (fun i => (cm i, i)) um).
  assert (Hin_mi : forall i, existsb (Nat.eqb i) mi = true <-> In i mi).
  { intros i. rewrite existsb_exists. split; [intros [x [H1 H2]]; apply Nat.eqb_eq in H2; now subst|intros H; exists i; split; auto; apply Nat.eqb_refl]. }
  assert (Hcand : forall i, In i cand <-> (i < length S)%nat /\ ~ In i mi).
  { intros i. unfold cand. rewrite filter_In, in_seq, negb_true_iff. rewrite <- Hin_mi.
    destruct (existsb (Nat.eqb i) mi); split; intros [H1 H2]; split; auto; try lia; try congruence. }
  assert (Psnd : Permutation (map snd (res ++ ext)) (cand ++ um)).
  { rewrite map_app. apply Permutation_app.
    - unfold res. rewrite sort_kvi_perm. rewrite map_map. cbn [snd]. rewrite map_id. auto.
    - unfold ext. rewrite map_map. cbn [snd]. rewrite map_id. auto. }
  assert (NDc : NoDup (cand ++ um)).
  { apply NoDup_app_intro; auto.
    - unfold cand. apply NoDup_filter. apply seq_NoDup.
    - intros x H1 H2. apply Hcand in H1. apply U2 in H2. tauto. }
  assert (Hlen : (length cand + length um = length S)%nat).
  { assert (E : length um = length (filter (fun i => existsb (Nat.eqb i) mi) (seq 0 (length S)))).
    { apply same_set_length; auto; [apply NoDup_filter, seq_NoDup|].
      intros x. rewrite U2, filter_In, in_seq, Hin_mi. split; [intros H; split; auto; pose proof (Hmi x H); lia|tauto]. }
    rewrite E. unfold cand. pose proof (filter_negb_length (fun i => existsb (Nat.eqb i) mi) (seq 0 (length S))) as F.
    rewrite seq_length in F. lia. }
  destruct (sel_append_props largest res ext k) as [R1 [R2 R3]].
  { apply (Permutation_NoDup (l := cand ++ um)); auto. symmetry. exact Psnd. }
  { unfold res, ext. rewrite (Permutation_length (sort_kvi_perm _)), !map_length. lia. }
  cbv zeta in R1, R2, R3. split; [exact R1|]. split; [exact R2|].
  intros v i Hin. apply R3 in Hin. apply in_app_or in Hin.
  destruct Hin as [Hin|Hin].
  - unfold res in Hin. apply (Permutation_in _ (sort_kvi_perm _)) in Hin. apply in_map_iff in Hin.
    destruct Hin as [x [E Hx]]. inversion E; subst. apply Hcand in Hx. split; [tauto|]. apply Hcm. tauto.
  - unfold ext in Hin. apply in_map_iff in Hin. destruct Hin as [x [E Hx]]. inversion E; subst.
    apply U2 in Hx. pose proof (Hmi _ Hx). split; auto.
Qed.

(* ---------------------------------------------------------------------------------------- *)
(* 2-D without reference point *)
Lemma contribs_last_irrelevant r0 yy s : forall L prev,
  contribs prev (L ++ [((r0, yy), s)]) = contribs' r0 prev L.
Proof.
  induction L as [|[[x y] i] t IH]; intros prev.
  - reflexivity.
  - cbn [contribs' app]. specialize (IH y).
    destruct t as [|[[x' y'] j] t'].
    + reflexivity.
    + cbn [app] in *. cbn [contribs]. cbn [contribs] in IH. cbn [nextx].
      f_equal. exact IH.
Qed.

Definition lasty2 (prev : Z) (L : list ipoint) : Z := snd (fst (last L ((0, prev), 0%nat))).

Lemma contribs'_snoc r0 xl yl il : forall L prev,
  contribs' r0 prev (L ++ [((xl, yl), il)]) =
  contribs' xl prev L ++ [((r0 - xl) * (lasty2 prev L - yl), il)].
Proof.
  induction L as [|[[x y] i] t IH]; intros prev.
  - cbn. reflexivity.
  - cbn [app contribs']. rewrite IH. cbn [app]. f_equal.
    + f_equal. f_equal. destruct t as [|[[x' y'] j] t']; reflexivity.
    + f_equal. f_equal. f_equal. f_equal. unfold lasty2. destruct t as [|e t']; [reflexivity|].
      change (last (((x, y), i) :: e :: t') ((0, prev), 0%nat)) with (last (e :: t') ((0, prev), 0%nat)).
      clear. revert e. induction t' as [|e' t'' IHt]; intros e; [reflexivity|].
      change (last (e :: e' :: t'') ((0, y), 0%nat)) with (last (e' :: t'') ((0, y), 0%nat)).
      change (last (e :: e' :: t'') ((0, prev), 0%nat)) with (last (e' :: t'') ((0, prev), 0%nat)). apply IHt.
Qed.

(* the reference point the code uses implicitly *)
Definition ref2d_of (front : list ipoint) : point :=
  match front with
  | [] => []
  | ((x0, y0), i0) :: t => [fst (fst (last front ((x0, y0), i0))); fold_left (fun m e => Z.max m (snd (fst e))) front y0]
  end.

Lemma noref2d_entries largest S k e :
  In e (noref2d largest S k) -> (k <= length S)%nat ->
  In e (contrib2d_ref (ref2d_of (sort_lex (indexed S))) S).
Proof.
  unfold noref2d, contrib2d_ref, contrib2d_noref, append_extremes2d. cbv zeta.
  destruct (sort_lex (indexed S)) as [|[[x0 y0] i0] t] eqn:Ef.
  { cbn. destruct (_ <=? _)%nat; intros []. }
  destruct t as [|e1 t1].
  { (* a single point *)
    cbn. destruct (k <=? 0)%nat; [intros []|]. intros [<-|[]] _. left. f_equal. lia. }
  remember (e1 :: t1) as T eqn:ET.
  assert (HTne : T <> []) by (rewrite ET; discriminate).
  cbn [ref2d_of]. set (xl := fst (fst (last (((x0, y0), i0) :: T) ((x0, y0), i0)))).
  set (ref2 := fold_left (fun m e => Z.max m (snd (fst e))) (((x0, y0), i0) :: T) y0).
  rewrite contribs_sentinel. cbn [contribs'].
  destruct (@exists_last _ T HTne) as [T' [[[xl' yl'] il'] ETl]].
  assert (Exl : xl = xl') by (unfold xl; rewrite ETl, app_comm_cons, last_last; reflexivity).
  assert (Hint : forall e', In e' (contribs y0 T) -> In e' (contribs' xl y0 T)).
  { intros e' Hs. rewrite ETl in Hs |- *. rewrite contribs_last_irrelevant in Hs. rewrite contribs'_snoc.
    apply in_or_app. left. exact Hs. }
  assert (Hlast : In (0, snd (last (((x0, y0), i0) :: T) ((x0, y0), i0))) (contribs' xl y0 T)).
  { rewrite ETl. rewrite app_comm_cons, last_last. cbn [snd]. rewrite contribs'_snoc. apply in_or_app. right. left.
    rewrite Exl. f_equal. lia. }
  assert (Hfirst : (nextx xl T - x0) * (ref2 - y0) = (match T with [] => 0 | ((x1, _), _) :: _ => x1 - x0 end) * (ref2 - y0)).
  { rewrite ET. destruct e1 as [[x1 y1] i1]. reflexivity. }
  match goal with |- In _ (if (_ <=? length ?r)%nat then _ else _) -> _ => set (res := r) end.
  assert (Hres : forall e', In e' res -> In e' (contribs' xl y0 T)).
  { intros e' He'. apply Hint. revert He'. unfold res. destruct (_ =? 0)%nat; [intros []|]. destruct largest.
    - unfold largest_kv. intros H. apply in_rev in H. apply In_skipn in H.
      eapply Permutation_in; [apply sort_kv_perm|exact H].
    - unfold smallest_kv. intros H. apply In_firstn in H. eapply Permutation_in; [apply sort_kv_perm|exact H]. }
  intros Hin Hk. destruct (k <=? length res)%nat; [right; apply Hres; exact Hin|].
  assert (Hw : forall w, w = (match T with [] => 0 | ((x1, _), _) :: _ => x1 - x0 end) ->
            In (w * (ref2 - y0), i0) (((nextx xl T - x0) * (ref2 - y0), i0) :: contribs' xl y0 T)).
  { intros w ->. left. now rewrite Hfirst. }
  revert Hin. rewrite ET at 1 2. destruct e1 as [[x1 y1] i1]. rewrite <- ET.
  match goal with |- In _ (if ?c then _ else _) -> _ => destruct c end; intros Hin.
  - apply in_app_or in Hin. destruct Hin as [Hin|[<-|[]]].
    + apply in_app_or in Hin. destruct Hin as [Hin|[<-|[]]]; [right; apply Hres; exact Hin|].
      apply Hw. rewrite ET. reflexivity.
    + right. exact Hlast.
  - apply in_app_or in Hin. destruct Hin as [Hin|[<-|[]]]; [right; apply Hres; exact Hin|].
    apply Hw. rewrite ET. reflexivity.
Qed.

(* the result as "selection from the interior entries, then the two extreme entries" *)
Definition interior2d (S : list point) : list kv := contrib2d_noref S.
Definition extremes2d (S : list point) : list kv :=
  match sort_lex (indexed S) with
  | [] => []
  | ((x0, y0), i0) :: t =>
    let front := ((x0, y0), i0) :: t in
    let ref2 := fold_left (fun m e => Z.max m (snd (fst e))) front y0 in
    match t with
    | [] => [(0 * (ref2 - y0), i0)]
    | ((x1, _), _) :: _ => [((x1 - x0) * (ref2 - y0), i0); (0, snd (last front ((x0, y0), i0)))]
    end
  end.

Lemma contribs_length : forall L prev, length (contribs prev L) = (length L - 1)%nat.
Proof.
  induction L as [|[[x y] i] t IH]; intros prev; [reflexivity|]. cbn [contribs].
  destruct t as [|[[x' y'] j] t']; [reflexivity|]. cbn [length]. rewrite IH. cbn [length]. lia.
Qed.

Lemma noref2d_sel_append largest S k :
  noref2d largest S k =
  select_rest largest (sort_kv (interior2d S)) k ++
  firstn (k - length (select_rest largest (sort_kv (interior2d S)) k)) (extremes2d S).
Proof.
  unfold noref2d, interior2d, extremes2d, contrib2d_noref, append_extremes2d. cbv zeta.
  destruct (sort_lex (indexed S)) as [|[[x0 y0] i0] t] eqn:Ef.
  { cbn. destruct largest; cbn; rewrite ?firstn_nil; destruct (k <=? 0)%nat; cbn; now rewrite ?firstn_nil. }
  set (I := contribs y0 t). unfold kv, ipoint in *.
  assert (HI : length I = (length t - 1)%nat) by apply contribs_length.
  assert (Hs : length (sort_kv I) = length I) by (apply Permutation_length, sort_kv_perm).
  set (cand := (length (((x0, y0), i0) :: t) - 2)%nat).
  assert (Hc : cand = length I).
  { unfold cand. cbn [length]. lia. }
  match goal with |- context [if (cand =? 0)%nat then ?a else ?b] =>
    assert (Esel : (if (cand =? 0)%nat then a else b) = select_rest largest (sort_kv I) k) end.
  { unfold select_rest. destruct (Nat.eqb_spec cand 0) as [E0|Ne].
    - assert (H : I = []) by (apply length_zero_iff_nil; lia). rewrite H. cbn. destruct largest; cbn; now rewrite ?firstn_nil, ?skipn_nil.
    - destruct largest.
      + unfold largest_kv. rewrite Hs. f_equal. f_equal. unfold kv in *. lia.
      + unfold smallest_kv. rewrite Hc. unfold kv in *.
        destruct (Nat.le_ge_cases k (length I)); [now rewrite Nat.min_l by lia|].
        rewrite Nat.min_r by lia. rewrite !firstn_all2; auto; unfold kv in *; lia. }
  rewrite Esel. set (sel := select_rest largest (sort_kv I) k). unfold kv in *.
  match goal with |- (if ?c then _ else _) = _ => destruct c eqn:Ec end.
  - apply Nat.leb_le in Ec. replace (k - length sel)%nat with 0%nat by lia. cbn [firstn]. now rewrite app_nil_r.
  - apply Nat.leb_gt in Ec. destruct t as [|[[x1 y1] i1] t1].
    + destruct (k - length sel)%nat eqn:Ek; [lia|]. cbn [firstn]. now rewrite firstn_nil.
    + match goal with |- (if ?c then _ else _) = _ => destruct c eqn:Ec2 end.
      * apply Nat.ltb_lt in Ec2. rewrite app_length in Ec2. cbn [length] in Ec2.
        destruct (k - length sel)%nat as [|[|m]] eqn:Ek; try lia. cbn [firstn]. rewrite firstn_nil, <- app_assoc. reflexivity.
      * apply Nat.ltb_ge in Ec2. rewrite app_length in Ec2. cbn [length] in Ec2.
        destruct (k - length sel)%nat as [|[|m]] eqn:Ek; try lia. reflexivity.
Qed.

(* ---- the implicit reference point of the 2-D code is the component-wise maximum *)
Lemma nth_pmax : forall p q j, length p = length q -> (j < length p)%nat ->
  nth j (pmax p q) 0 = Z.max (nth j p 0) (nth j q 0).
Proof.
  induction p as [|x p IH]; intros [|y q] [|j] HL Hj; cbn in *; try lia; auto. apply IH; lia.
Qed.

Lemma pmax_all_attained d j : (j < d)%nat -> forall S p, length p = d -> same_dim d S ->
  nth j (pmax_all p S) 0 = nth j p 0 \/ exists q, In q S /\ nth j (pmax_all p S) 0 = nth j q 0.
Proof.
  intros Hj. induction S as [|q S IH]; intros p Hp Hd; cbn [pmax_all]; [now left|].
  assert (Hq : length q = d) by (apply Hd; now left).
  destruct (IH (pmax p q) ltac:(rewrite pmax_length; lia) (fun x Hx => Hd x (or_intror Hx))) as [E|[r [Hr E]]].
  - rewrite E, nth_pmax by lia. destruct (Z.max_spec (nth j p 0) (nth j q 0)) as [[_ ->]|[_ ->]].
    + right. exists q. split; [now left|reflexivity].
    + now left.
  - right. exists r. split; auto. now right.
Qed.

Lemma implicit_ref_max d S j : S <> [] -> same_dim d S -> (j < d)%nat ->
  (forall q, In q S -> nth j q 0 <= nth j (implicit_ref S) 0) /\
  (exists q, In q S /\ nth j q 0 = nth j (implicit_ref S) 0).
Proof.
  intros Hne Hd Hj. destruct (implicit_ref_spec d S Hne Hd) as [Hl HB]. split.
  - intros q Hq. specialize (HB q Hq). apply leq_all_nth in HB. destruct HB as [HL HB]. apply HB. rewrite (Hd q Hq). auto.
  - destruct S as [|p t]; [congruence|]. cbn [implicit_ref].
    destruct (pmax_all_attained d j Hj t p (Hd p (or_introl eq_refl)) (fun x Hx => Hd x (or_intror Hx))) as [E|[r [Hr E]]].
    + exists p. split; [now left|auto].
    + exists r. split; [now right|auto].
Qed.

Lemma fold_max_spec (front : list ipoint) : forall y0,
  let m := fold_left (fun m e => Z.max m (snd (fst e))) front y0 in
  y0 <= m /\ (forall e, In e front -> snd (fst e) <= m) /\ (m = y0 \/ exists e, In e front /\ m = snd (fst e)).
Proof.
  induction front as [|e t IH]; intros y0; cbn [fold_left].
  - split; [lia|]. split; [intros e []|now left].
  - destruct (IH (Z.max y0 (snd (fst e)))) as [A [B C]]. cbv zeta in *. split; [lia|]. split.
    + intros e' [<-|He']; [lia|auto].
    + destruct C as [C|[e' [He' C]]].
      * destruct (Z.max_spec y0 (snd (fst e))) as [[_ E]|[_ E]]; rewrite E in *.
        -- right. exists e. split; [now left|exact C].
        -- now left.
      * right. exists e'. split; auto. now right.
Qed.

Lemma In_indexed S x y i : same_dim 2 S -> In ((x, y), i) (indexed S) ->
  (i < length S)%nat /\ x = nth 0 (nth i S []) 0 /\ y = nth 1 (nth i S []) 0.
Proof.
  intros Hd Hin. unfold indexed in Hin. destruct (In_nth _ _ ((0, 0), 0%nat) Hin) as [m [Hm Em]].
  rewrite combine_length, map_length, seq_length, Nat.min_id in Hm.
  rewrite combine_nth in Em by now rewrite map_length, seq_length. rewrite seq_nth in Em by auto.
  rewrite (nth_map_lt to_pair S (0, 0) [] m Hm) in Em. cbn [Nat.add] in Em.
  pose proof (Hd _ (nth_In S [] Hm)) as Hl. destruct (nth m S []) as [|a [|b [|? ?]]] eqn:En; try discriminate.
  cbn in Em. inversion Em; subst. rewrite En. cbn. auto.
Qed.

Lemma indexed_length S : length (indexed S) = length S.
Proof. transitivity (length (map snd (indexed S))); [symmetry; apply map_length|]. now rewrite indexed_snd, seq_length. Qed.

Lemma ref2d_is_implicit S : S <> [] -> same_dim 2 S -> ref2d_of (sort_lex (indexed S)) = implicit_ref S.
Proof.
  intros Hne Hd. destruct (implicit_ref_spec 2 S Hne Hd) as [Hl _].
  pose proof (sort_lex_perm (indexed S)) as HP. pose proof (sort_lex_sorted (indexed S)) as HS.
  set (front := sort_lex (indexed S)) in *.
  assert (Hlen : length front = length S).
  { rewrite (Permutation_length HP). apply indexed_length. }
  destruct front as [|[[x0 y0] i0] t] eqn:Ef; [destruct S; [congruence|cbn in Hlen; lia]|].
  rewrite <- Ef in *.
  assert (Hfront : forall x y i, In ((x, y), i) front -> (i < length S)%nat /\ x = nth 0 (nth i S []) 0 /\ y = nth 1 (nth i S []) 0).
  { intros x y i Hin. apply In_indexed; auto. eapply Permutation_in; [exact HP|exact Hin]. }
  assert (Hfront' : forall q, In q S -> exists i, In ((nth 0 q 0, nth 1 q 0), i) front).
  { intros q Hq. pose (dp := ([] : point)). destruct (In_nth S q dp Hq) as [m [Hm Em]]. exists m.
    eapply Permutation_in; [symmetry; exact HP|]. unfold indexed.
    assert (E : ((nth 0 q 0, nth 1 q 0), m) = nth m (combine (map to_pair S) (seq 0 (length S))) ((0, 0), 0%nat)).
    { rewrite combine_nth by now rewrite map_length, seq_length. rewrite seq_nth by auto.
      rewrite (nth_map_lt to_pair S (0, 0) dp m Hm). pose proof (Hd q Hq) as Hlq. rewrite Em.
      destruct q as [|a [|b [|? ?]]]; try discriminate Hlq. reflexivity. }
    rewrite E. apply nth_In. fold (indexed S). rewrite indexed_length. lia. }
  destruct (implicit_ref_max 2 S 0 Hne Hd ltac:(lia)) as [U0 [q0 [Hq0 A0]]].
  destruct (implicit_ref_max 2 S 1 Hne Hd ltac:(lia)) as [U1 [q1 [Hq1 A1]]].
  destruct (implicit_ref S) as [|m0 [|m1 [|? ?]]] eqn:Ei; try discriminate. cbn [nth] in *.
  rewrite Ef at 1. cbn [ref2d_of]. rewrite <- Ef. f_equal; [|f_equal].
  - (* the last sorted point has the largest first objective *)
    assert (HlastIn : In (last front ((x0, y0), i0)) front) by (apply last_In; rewrite Ef; discriminate).
    destruct (last front ((x0, y0), i0)) as [[xl yl] il] eqn:El. cbn [fst].
    destruct (Hfront _ _ _ HlastIn) as (Hi & Ex & _).
    apply Z.le_antisymm.
    + rewrite Ex. apply U0. apply nth_In. auto.
    + destruct (Hfront' q0 Hq0) as [i Hin]. rewrite <- A0.
      destruct (SS_last lexR front ((x0, y0), i0) _ HS Hin) as [E|R].
      * rewrite El in E. inversion E. lia.
      * rewrite El in R. unfold lexR, lex_le in R. cbn [fst snd] in R. lia.
  - destruct (fold_max_spec front y0) as [B0 [B1 B2]]. cbv zeta in *.
    set (m := fold_left (fun m e => Z.max m (snd (fst e))) front y0) in *.
    apply Z.le_antisymm.
    + destruct B2 as [B2|[[[x y] i] [He B2]]].
      * rewrite B2. assert (Hin0 : In ((x0, y0), i0) front) by (rewrite Ef; now left).
        destruct (Hfront _ _ _ Hin0) as (Hi & _ & Ey). rewrite Ey. apply U1. apply nth_In. auto.
      * rewrite B2. cbn [fst snd]. destruct (Hfront _ _ _ He) as (Hi & _ & Ey). rewrite Ey. apply U1. apply nth_In. auto.
    + destruct (Hfront' q1 Hq1) as [i Hin]. rewrite <- A1. apply (B1 _ Hin).
Qed.

Lemma noref2d_indices S : S <> [] ->
  Permutation (map snd (sort_kv (interior2d S) ++ extremes2d S)) (seq 0 (length S)).
Proof.
  intros Hne. rewrite map_app. rewrite (Permutation_map snd (sort_kv_perm (interior2d S))). rewrite <- map_app.
  rewrite <- indexed_snd. rewrite <- (Permutation_map snd (sort_lex_perm (indexed S))).
  unfold interior2d, extremes2d, contrib2d_noref.
  destruct (sort_lex (indexed S)) as [|[[x0 y0] i0] t] eqn:Ef.
  { exfalso. pose proof (Permutation_length (sort_lex_perm (indexed S))) as HL. rewrite Ef, indexed_length in HL.
    destruct S; [congruence|discriminate]. }
  destruct t as [|e1 t1]; [reflexivity|].
  assert (Hne' : e1 :: t1 <> []) by discriminate.
  destruct (@exists_last _ (e1 :: t1) Hne') as [T' [[[xl yl] il] ET]].
  assert (Ext : forall ref2, match e1 :: t1 with
            | [] => [(0 * (ref2 - y0), i0)]
            | ((x1, _), _) :: _ => [((x1 - x0) * (ref2 - y0), i0); (0, snd (last (((x0, y0), i0) :: e1 :: t1) ((x0, y0), i0)))]
            end = [((fst (fst e1) - x0) * (ref2 - y0), i0); (0, il)]).
  { intros ref2. destruct e1 as [[x1 y1] i1]. cbn [fst]. f_equal. f_equal. f_equal.
    rewrite ET. rewrite app_comm_cons, last_last. reflexivity. }
  cbv zeta. rewrite Ext. rewrite ET. rewrite contribs_last_irrelevant. rewrite map_app, contribs'_snd.
  cbn [map snd]. rewrite map_app. cbn [map snd].
  rewrite <- Permutation_middle. constructor. apply Permutation_app_head. reflexivity.
Qed.

Theorem noref2d_correct largest S k :
  S <> [] -> same_dim 2 S -> mutually_nondominated S -> (k <= length S)%nat ->
  noref_ok (implicit_ref S) S k (noref2d largest S k).
Proof.
  intros Hne Hd HN Hk. destruct (implicit_ref_spec 2 S Hne Hd) as [Hl HB].
  pose proof (noref2d_indices S Hne) as HPi.
  assert (ND : NoDup (map snd (sort_kv (interior2d S) ++ extremes2d S))).
  { apply (Permutation_NoDup (l := seq 0 (length S))); [symmetry; exact HPi|apply seq_NoDup]. }
  assert (HL : (length (sort_kv (interior2d S)) + length (extremes2d S) = length S)%nat).
  { pose proof (Permutation_length HPi) as E. rewrite map_length, app_length, seq_length in E. exact E. }
  assert (Hk' : (k <= length (sort_kv (interior2d S)) + length (extremes2d S))%nat) by (rewrite HL; exact Hk).
  destruct (sel_append_props largest (sort_kv (interior2d S)) (extremes2d S) k ND Hk') as [R1 [R2 _]].
  cbv zeta in R1, R2. rewrite <- noref2d_sel_append in R1, R2.
  split; [exact R1|]. split; [exact R2|].
  intros v i Hin. pose proof (noref2d_entries largest S k (v, i) Hin Hk) as Hr.
  rewrite (ref2d_is_implicit S Hne Hd) in Hr.
  apply (contrib2d_ref_value (implicit_ref S) S Hl HB HN). exact Hr.
Qed.

(* ---------------------------------------------------------------------------------------- *)
(* the front end without reference point *)
Theorem noref_front_correct hoy largest S k d :
  S <> [] -> same_dim d S -> (2 <= d)%nat ->
  (d <> 4%nat \/ forall ref S, length ref = 4%nat -> below_ref ref S -> hoy ref S = hv_spec ref S) ->
  (d <= 3 -> mutually_nondominated S)%nat -> (k <= length S)%nat ->
  noref_ok (implicit_ref S) S k (noref_front hoy largest S k).
Proof.
  intros Hne Hd Hd2 Hh HN Hk. unfold noref_front. destruct S as [|p t] eqn:ES; [congruence|]. rewrite <- ES in *.
  assert (Hp : length p = d) by (apply Hd; rewrite ES; now left). rewrite Hp.
  destruct d as [|[|[|[|m]]]]; try lia.
  - apply noref2d_correct; auto.
  - apply noref3d_correct; auto.
  - apply (norefmd_correct hoy largest S k (Datatypes.S (Datatypes.S (Datatypes.S (Datatypes.S m))))); auto.
Qed.

Example noref_example :
  let S := [[1; 5; 2]; [2; 3; 3]; [2; 3; 3]; [3; 1; 5]; [1; 4; 5]; [2; 2; 4]] in
  let S2 := [[1; 5]; [2; 3]; [4; 2]; [2; 3]; [5; 1]] in
  same_dim 3 S /\ mutually_nondominated S /\ implicit_ref S = [3; 5; 5] /\
  noref_front (fun _ _ => 0) false S 5 = [(0, 4%nat); (0, 1%nat); (0, 2%nat); (1, 5%nat); (0, 0%nat)] /\
  noref_front (fun _ _ => 0) true S 2 = [(1, 5%nat); (0, 2%nat)] /\
  same_dim 2 S2 /\ mutually_nondominated S2 /\ implicit_ref S2 = [5; 5] /\
  noref_front (fun _ _ => 0) false S2 5 = [(0, 3%nat); (0, 1%nat); (1, 2%nat); (0, 0%nat); (0, 4%nat)].
Proof.
  cbv zeta.
  assert (ND : forall S0 : list point, (forall p q, In p S0 -> In q S0 -> length p = length q) ->
            forallb (fun p => forallb (fun q => negb (domb p q)) S0) S0 = true -> mutually_nondominated S0)
    by apply mutually_nondominated_dec_check.
  split; [intros p Hp; cbn [In] in Hp; repeat (destruct Hp as [<-|Hp]; [reflexivity|]); destruct Hp|].
  split.
  { apply ND; [|reflexivity]. intros p q Hp Hq. cbn [In] in Hp, Hq.
    repeat (destruct Hp as [<-|Hp]; [repeat (destruct Hq as [<-|Hq]; [reflexivity|]); destruct Hq|]). destruct Hp. }
  split; [reflexivity|]. split; [vm_compute; reflexivity|]. split; [vm_compute; reflexivity|].
  split; [intros p Hp; cbn [In] in Hp; repeat (destruct Hp as [<-|Hp]; [reflexivity|]); destruct Hp|].
  split.
  { apply ND; [|reflexivity]. intros p q Hp Hq. cbn [In] in Hp, Hq.
    repeat (destruct Hp as [<-|Hp]; [repeat (destruct Hq as [<-|Hq]; [reflexivity|]); destruct Hq|]). destruct Hp. }
  split; [reflexivity|]. vm_compute; reflexivity.
Qed.
