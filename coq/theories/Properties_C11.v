(* C11 — Evolution strategies keep a valid search distribution and are rank-invariant.
   Only statements + `exact`; proofs in C11Proofs.v, executable model in C11Model.v.

   PROVED here (all sizes, all inputs, all histories; over Q, axiom-free):
     * C11_selection_rank_invariant   selection/sorting on `map phi fitness` (phi strictly increasing) picks the same
                                      individuals in the same order as on `fitness` (model: stable insertion sort, so ties
                                      are covered by the model's tie rule), hence the rank-weighted recombination is identical;
     * C11_sorted_perm_is_isort       on tie-free fitness lists EVERY sorted permutation (i.e. whatever std::sort returns)
                                      is the model's sorted list;
     * C11_cov_update_sym / _quad / _pd  the covariance update of CMA::updatePopulation as coded (incl. the hsig term and
                                      the 1/sigma^2 factor) keeps symmetry; x^T C' x identity; positive definiteness for
                                      w_i >= 0, c1, cMu >= 0, c1 + cMu < 1, delta >= 0;
     * C11_cma_update_keeps_spd       the whole model step (selection + recombination + path + eq. 43) keeps C n x n,
                                      symmetric, positive definite;
     * C11_sigma_update_pos           sigma * exp(.) > 0 for any positive exp;
     * C11_elitist_never_worse / C11_elitist_reported_never_worse / C11_elitist_reports_evaluated
                                      ElitistCMA's acceptance rule over arbitrary offspring histories;
     * C11_penalized_value_at_closest_feasible   PenalizingEvaluator as coded.
   PARTIAL: cov_update_pd needs c1 + cMu < 1 (CMA's cMu = min(1 - c1, ...) can make it = 1 for large populations in low
     dimension; there positive definiteness rests on the rank of the sample, a probabilistic fact: monitored only).
   ONLY COMPARED / MONITORED (tools/c11.py): that CMA::updatePopulation computes what [cma_update] computes (float
     instantiation, 1e-10); eigendecomposition; CMSA / VD-CMA / cross-entropy / simplex internals; seed determinism;
     rank invariance of the real optimizers on f vs 4f; convergence on the sphere. *)
From Coq Require Import List QArith Lqa Permutation Sorted.
From SharkV Require Import C11Model C11Proofs.
Import ListNotations.

Theorem C11_selection_rank_invariant :
  forall (sq ex : Q -> Q) (pw : Q -> Q -> Q) (P : Type) (phi : Q -> Q),
  (forall a b, a < b -> phi a < phi b) -> (forall a b, a == b -> phi a == phi b) ->
  forall (l : list (Q * P)) (mu : nat),
    map snd (isort (QO sq ex pw) (remap phi l)) = map snd (isort (QO sq ex pw) l) /\
    map snd (select (QO sq ex pw) mu (remap phi l)) = map snd (select (QO sq ex pw) mu l) /\
    forall n ws (pt : P -> list Q),
      recombine (QO sq ex pw) n ws (map pt (map snd (select (QO sq ex pw) mu (remap phi l)))) =
      recombine (QO sq ex pw) n ws (map pt (map snd (select (QO sq ex pw) mu l))).
Proof. exact selection_rank_invariant_lemma. Qed.
Print Assumptions C11_selection_rank_invariant.

Theorem C11_sorted_perm_is_isort :
  forall (sq ex : Q -> Q) (pw : Q -> Q -> Q) (P : Type) (l l' : list (Q * P)),
    no_ties P l -> Permutation l' l -> StronglySorted (fle P) l' -> l' = isort (QO sq ex pw) l.
Proof. exact sorted_perm_is_isort_lemma. Qed.
Print Assumptions C11_sorted_perm_is_isort.

Theorem C11_cov_update_sym :
  forall sq ex pw n c1 cmu delta s C p ws ys,
  isnn n C -> length p = n -> Forall (fun y => length y = n) ys ->
  msym sq ex pw C -> msym sq ex pw (cov_update (QO sq ex pw) n c1 cmu delta s C p ws ys).
Proof. exact cov_update_sym_lemma. Qed.
Print Assumptions C11_cov_update_sym.

Theorem C11_cov_update_quad :
  forall sq ex pw n c1 cmu delta s C p ws ys x,
  isnn n C -> length p = n -> Forall (fun y => length y = n) ys ->
  quad (QO sq ex pw) (cov_update (QO sq ex pw) n c1 cmu delta s C p ws ys) x ==
    (1 - c1 - cmu) * quad (QO sq ex pw) C x
    + c1 * (dot (QO sq ex pw) p x * dot (QO sq ex pw) p x + delta * quad (QO sq ex pw) C x)
    + s * wsum ws ys (fun y => dot (QO sq ex pw) y x * dot (QO sq ex pw) y x).
Proof. exact cov_update_quad_lemma. Qed.
Print Assumptions C11_cov_update_quad.

(* full statement of the property would drop `c1 + cmu < 1` (see header): this is the proved part *)
Theorem C11_cov_update_pd_partial :
  forall sq ex pw n c1 cmu delta s C p ws ys,
  isnn n C -> length p = n -> Forall (fun y => length y = n) ys ->
  posdef sq ex pw n C -> 0 <= c1 -> 0 <= cmu -> c1 + cmu < 1 -> 0 <= delta -> 0 <= s ->
  Forall (fun w => 0 <= w) ws ->
  posdef sq ex pw n (cov_update (QO sq ex pw) n c1 cmu delta s C p ws ys).
Proof. exact cov_update_pd_lemma. Qed.
Print Assumptions C11_cov_update_pd_partial.

Theorem C11_cma_update_keeps_spd_partial :
  forall sq ex pw (k : cma_consts Q) n mu ws B st offspring,
  consts_ok k -> Forall (fun w => 0 <= w) ws ->
  isnn n (s_C st) -> msym sq ex pw (s_C st) -> posdef sq ex pw n (s_C st) ->
  length (s_mean st) = n -> length (s_pc st) = n ->
  Forall (fun i : Q * (list Q * list Q) => length (fst (snd i)) = n) offspring ->
  let st' := cma_update (QO sq ex pw) k n mu ws B st offspring in
  isnn n (s_C st') /\ msym sq ex pw (s_C st') /\ posdef sq ex pw n (s_C st').
Proof. exact cma_update_keeps_spd_lemma. Qed.
Print Assumptions C11_cma_update_keeps_spd_partial.

Theorem C11_sigma_update_pos :
  forall sq ex pw sigma arg, (forall t, 0 < ex t) -> 0 < sigma -> 0 < sigma_update (QO sq ex pw) sigma arg.
Proof. exact sigma_update_pos_lemma. Qed.
Print Assumptions C11_sigma_update_pos.

Theorem C11_elitist_never_worse :
  forall sq ex pw (P : Type) active (s0 : est Q P) os o, anc_ok (e_anc s0) ->
  last (e_anc (elitist_run (QO sq ex pw) active s0 (os ++ [o]))) 0 <=
  last (e_anc (elitist_run (QO sq ex pw) active s0 os)) 0.
Proof. exact elitist_never_worse_lemma. Qed.
Print Assumptions C11_elitist_never_worse.

Theorem C11_elitist_reported_never_worse :
  forall sq ex pw (P : Type) active (s0 : est Q P) os o, anc_ok (e_anc s0) ->
  unconstrained P (os ++ [o]) -> e_value s0 = last (e_anc s0) 0 ->
  e_value (elitist_run (QO sq ex pw) active s0 (os ++ [o])) <= e_value (elitist_run (QO sq ex pw) active s0 os).
Proof. exact elitist_reported_never_worse_lemma. Qed.
Print Assumptions C11_elitist_reported_never_worse.

Theorem C11_elitist_reports_evaluated :
  forall sq ex pw (P : Type) active os (s : est Q P),
  In (e_point s, e_value s) ((e_point s, e_value s) :: map fst os) ->
  In (e_point (elitist_run (QO sq ex pw) active s os), e_value (elitist_run (QO sq ex pw) active s os))
     ((e_point s, e_value s) :: map fst os).
Proof. exact elitist_reports_evaluated. Qed.
Print Assumptions C11_elitist_reports_evaluated.

Theorem C11_penalized_value_at_closest_feasible :
  forall sq ex pw (f : list Q -> Q) feasible closest penalty x,
  let r := penalized_eval (QO sq ex pw) f feasible closest penalty x in
  (feasible x = true  -> fst r = f x /\ snd r == f x) /\
  (feasible x = false -> fst r = f (closest x) /\
                         snd r = f (closest x) + penalty * normsqr (QO sq ex pw) (vsub (QO sq ex pw) (closest x) x)) /\
  (0 <= penalty -> fst r <= snd r).
Proof. exact penalized_eval_lemma. Qed.
Print Assumptions C11_penalized_value_at_closest_feasible.

(* ---- the hypotheses are satisfiable *)
Definition I2 : list (list Q) := [[1; 0]; [0; 1]].
Definition idq (x : Q) := x.
Definition pw0 (x y : Q) := x.

Example C11_identity_is_spd : isnn 2 I2 /\ msym idq idq pw0 I2 /\ posdef idq idq pw0 2 I2.
Proof.
  split; [split; [reflexivity|repeat constructor]|]. split.
  - intros i j. unfold mget, I2. destruct i as [|[|[|i]]]; destruct j as [|[|[|j]]]; cbn; reflexivity.
  - intros x L N. destruct x as [|a [|b [|c x]]]; try discriminate.
    unfold quad, mvec, I2. cbn [dot map o_add o_mul o_zero QO].
    destruct (Qeq_dec a 0) as [Ea|Ea]; [destruct (Qeq_dec b 0) as [Eb|Eb]|].
    + exfalso. apply N. repeat constructor; auto.
    + assert (0 < b * b) by nra. nra.
    + assert (0 < a * a) by nra. nra.
Qed.

(* a concrete update with c1 = 1/10, cMu = 1/5, hsig = 0 (delta = 3/4), weights (1/2, 1/2) *)
Example C11_cov_update_example :
  let C' := cov_update (QO idq idq pw0) 2 (1#10) (1#5) (3#4) (1#5) I2 [1; 2] [1#2; 1#2] [[1; 0]; [1; 1]] in
  posdef idq idq pw0 2 C' /\ msym idq idq pw0 C' /\
  Qeq_bool (mget (QO idq idq pw0) C' 0 1) (mget (QO idq idq pw0) C' 1 0) = true /\
  Qeq_bool (mget (QO idq idq pw0) C' 0 1) (3#10) = true.
Proof.
  destruct C11_identity_is_spd as (A & B & C).
  split; [apply cov_update_pd_lemma; auto; try lra; repeat constructor; lra|].
  split; [apply cov_update_sym_lemma; auto; repeat constructor|].
  split; vm_compute; reflexivity.
Qed.
