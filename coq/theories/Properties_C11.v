(* C11 — Evolution strategies keep a valid search distribution and are rank-invariant.
   Only statements + `exact`; proofs in C11Proofs.v / C11MoreProofs.v / C11SimplexProofs.v / C11SimplexBestProofs.v / C11CemProofs.v / C11RunProofs.v (over Q or
   over every arithmetic, axiom-free) and C11CholProofs.v (over R: the Cholesky-factor models take square roots; only the axioms of the
   standard library's real numbers), executable model in C11Model.v and C11DirectModel.v.

   PROVED here (all sizes, all inputs, all histories):
     over Q, closed under the global context
     * C11_selection_rank_invariant   selection/sorting on `map phi fitness` (phi strictly increasing) picks the same
                                      individuals in the same order as on `fitness` (model: stable insertion sort, so ties
                                      are covered by the model's tie rule), hence the rank-weighted recombination is identical;
     * C11_sorted_perm_is_isort       on tie-free fitness lists EVERY sorted permutation (i.e. whatever std::sort returns)
                                      is the model's sorted list;
     * C11_cov_update_sym / _quad / _pd  the covariance update of CMA::updatePopulation as coded (incl. the hsig term and
                                      the 1/sigma^2 factor) keeps symmetry; x^T C' x identity; positive definiteness for
                                      w_i >= 0, c1, cMu >= 0, c1 + cMu < 1, delta >= 0;
     * C11_cma_update_keeps_spd       the whole model step (selection + recombination + path + eq. 43) keeps C n x n,
                                      symmetric, positive definite;
     * C11_cov_update_corner_psd / _pd_iff / _pd_delta   THE CORNER c1 + cMu = 1 (cMu = min(1 - c1, ..), large populations in
                                      low dimension): C' is positive SEMI-definite; with hsig = 1 (delta = 0) it is positive
                                      definite IF AND ONLY IF the evolution path (when c1 > 0) together with the selected steps
                                      has full rank; with hsig = 0 (delta > 0) and c1 > 0 it is positive definite;
     * C11_sigma_update_pos           sigma * exp(.) > 0 for any positive exp;
     * C11_elitist_never_worse / C11_elitist_reported_never_worse / C11_elitist_reports_evaluated
                                      ElitistCMA's acceptance rule over arbitrary offspring histories;
     * C11_penalized_value_at_closest_feasible   PenalizingEvaluator as coded;
     * C11_vd_D_update_pos_iff        VDCMA:  D += D*meanS  keeps D > 0 IF AND ONLY IF every component of meanS is > -1
                                      (nothing in the code enforces it: monitored on every recorded update);
     * C11_vd_cov_quad / _pd_iff / _sym   C = D(I + v v^T)D = diag(D)^2 + (D*v)(D*v)^T is symmetric, x^T C x = |D*x|^2 + (v.(D*x))^2,
                                      and positive definite iff no component of D is zero, WHATEVER v is (so every v-update keeps it).
     over R (standard-library axioms only: ClassicalDedekindReals.sig_forall_dec, ClassicalDedekindReals.sig_not_dec,
       FunctionalExtensionality.functional_extensionality_dep, Classical_Prop.classic — the ones behind Coq's real numbers, sqrt and exp)
     * C11_chol_update_spec           remora cholesky_decomposition::update(alpha, beta, v) as coded, alpha > 0: whenever it
                                      returns, the new factor has the same shape, positive diagonal, and represents
                                      alpha L L^T + beta v v^T (quadratic-form identity for every x);
     * C11_chol_update_succeeds_pos   for beta >= 0 it always returns;
     * C11_chol_update_downdate       for beta < 0 and v = L z it returns as soon as alpha + beta |z|^2 > 0, and
                                      det(L'L'^T) = alpha^n det(L L^T) (1 + beta/alpha |z|^2)   (the determinant factor);
     * C11_cmsa_update_keeps_spd      CMSA::updatePopulation as coded (one scaling + mu rank-one updates of the factor, sigma = mean
                                      of the selected sigmas): for cC > 1, mu >= 1 no update throws, sigma' > 0, the factor stays
                                      non-singular, x^T C' x = (1 - 1/cC) x^T C x + 1/(mu cC) sum_i (y_i.x)^2 > 0;
     * C11_cmsa_cC_gt_1 / C11_cmsa_corner_cC_1   the constant of CMSA::doInit satisfies cC = 1 + n(n+1)/(2 mu) > 1; AT cC = 1 the code
                                      as written multiplies the factor by sqrt(0): the rank-one updates then start from the ZERO factor;
     * C11_active_rate_guard          the guard of CMAChromosome::updateAsParent: the rate r used satisfies r > 0, r(|z|^2 - 1) < 1;
     * C11_chrom_offspring_update / C11_chrom_parent_update / C11_ecma_chrom_step_keeps_spd
                                      CMAChromosome::updateAsOffspring / updateAsParent / roundUpdate inside ElitistCMA::step, every
                                      branch: no exception, sigma' > 0, factor with positive diagonal, covariance positive definite,
                                      x^T C' x identity per branch, determinant factor (1+r)^n (1 - r/(1+r)|z|^2) of the active update;
     * C11_vd_sample_covariance       VDCMA::createSample: y = (I + a vn vn^T) z has |y|^2 = |z|^2 + (v.z)^2, x = m + sigma D*y.
     over Q / over every arithmetic, closed under the global context (C11DirectModel.v: the objective is an ORACLE, every random draw an
       explicit argument; proofs in C11SimplexProofs.v, C11SimplexBestProofs.v, C11CemProofs.v, C11RunProofs.v)
     * C11_simplex_reports_objective  SimplexDownhill as coded (init as repaired by d2acfe00, sort, reflection 2x0-w / expansion 3x0-2w /
                                      contraction (x0+w)/2 / reduction (b+v)/2 with the coded comparisons, m_best tracking): after init and
                                      every number of steps the reported value IS the oracle at the reported point and every vertex carries
                                      its oracle value, for every oracle (no hypothesis);
     * C11_simplex_literal_witness    REGRESSION WITNESS about the init BEFORE d2acfe00 (old_sd_init): it compared vertex 0 too with the literal
                                      1e100 stored in m_best.value, so with no objective value below the literal solution() reported (literal,
                                      stale point) for ever (found by the NM probe; now a violation under key nm:value:all-values>=1e100);
     * C11_simplex_best_never_worse / _best_monotone / _minval_is_min / C11_simplex_reported_never_worse
                                      the best vertex value (the value of the first vertex after the sort = the least vertex value) never
                                      increases from step to step resp. along a run, for every oracle and every state with >= 2 vertices;
                                      the reported value never increases;
     * C11_simplex_reported_is_best_vertex   the reported solution is the FIRST vertex of the sorted simplex (a vertex, with the least vertex
                                      value) after init and every number of steps (dimension >= 1);
     * C11_simplex_rank_invariant / _rescaling   two oracles that order every pair of points identically visit exactly the same simplices and
                                      report the same point, for every start and number of steps; in particular phi o f for strictly
                                      increasing phi.  Every decision of init() and step() is a comparison of objective values;
     * C11_cem_reports_objective / C11_cem_step_throws_iff   CrossEntropyMethod::step as coded (sampling z*sqrt(var)+mean with the draws as
                                      arguments, ElitistSelection, counter, updateStrategyParameters, m_best = parents[0]): reported value =
                                      oracle (= unpenalised fitness) at the reported point, which is the best-ranked sample of the step;
                                      the step throws exactly when population size <= selection size;
     * C11_cem_update_distribution    mean = average of the elite; variance_j >= noise term, > 0 whenever the noise term is > 0, and == 0
                                      EXACTLY when the noise term is 0 and all elite samples agree in coordinate j (known finding C11-CEM0);
     * C11_cem_noise_schedules        ConstantNoise / LinearNoise are >= 0; > 0 iff c > 0 resp. a + t b > 0;
     * C11_cem_rank_invariant / C11_cem_elite_rank_invariant   same elite, mean, variance, counter, reported point for order-equivalent
                                      oracles along every run; same elite under a strictly increasing rescaling;
     * C11_cma_run_rank_invariant(_any_arithmetic) / C11_cma_run_rescaling / C11_cmsa_run_rank_invariant(_any_arithmetic) / C11_cmsa_run_rescaling
                                      whole steps of the MODEL (offspring sampled from the draws, evaluated by the oracle, then cma_update resp.
                                      cmsa_update): order-equivalent oracles give the SAME state (mean, sigma, covariance / factor, paths) after
                                      every sequence of draws, for every arithmetic incl. the float instantiation.
   STILL NOT PROVED: that D of VDCMA stays positive along a run (it does iff meanS > -1, a property of the sample); full rank of the
     rank-mu part in the CMA corner (probabilistic); convergence; the symmetric eigendecomposition (an oracle [eig] of cma_step); floating-point rounding; NaN objective values
     (comparisons are modelled with the strict order only).
   COMPARED on every run (tools/c11.py, float instantiation of the SAME model functions, 1e-10, on states/offspring recorded from the
     real optimizers): cma_update = CMA::updatePopulation; cma_step (offspring sampled by the model from the recorded draws and eigen-pairs) =
     generateOffspring + evaluation + updatePopulation; cmsa_update = CMSA::updatePopulation; cmsa_step (draws read back) = CMSA::step;
     ecma_chrom_step = the CMAChromosome update inside ElitistCMA::step; vd_update / vd_sample = VDCMA::updateStrategyParameters /
     createSample; chol_update = cholesky_decomposition::update on exact inputs including its exception exit; elitist_step, penalized_eval exactly.
     EXACTLY (bit for bit): sd_init / sd_step = SimplexDownhill::init / step replayed from the implementation's own previous simplex with the
     table of its own evaluations as oracle (simplex, reported solution, set of evaluated points; every branch, ties, dimension 1..15);
     cem_sample = the sampling of CrossEntropyMethod::step on the draws read back; at 1e-12: cem_select_update on the recorded samples and
     cem_step on the draws = mean / variance / reported solution / exception of CrossEntropyMethod::step.
   ONLY MONITORED: eigendecomposition; seed determinism; rank invariance of the real optimizers on f vs 4f (RUN streams; for SimplexDownhill
     additionally on whole simplices, NM streams; for CrossEntropyMethod on the elite, XCOR streams); convergence on the sphere; D > 0 in VDCMA. *)
From Coq Require Import List QArith Lqa Lia Permutation Sorted Reals.
From SharkV Require Import C11Model C11Proofs C11MoreProofs C11CholProofs C11DirectModel C11SimplexProofs C11SimplexBestProofs C11CemProofs C11RunProofs.
Open Scope Q_scope.
Import ListNotations.

Theorem C11_selection_rank_invariant :
  forall (sq ex : Q -> Q) (pw : Q -> Q -> Q) (P : Type) (phi : Q -> Q),
  (forall a b, a < b -> phi a < phi b) -> (forall a b, a == b -> phi a == phi b) ->
  forall (l : list (Q * P)) (mu : nat),
    map snd (isort (QO sq ex pw) (remap phi l)) = map snd (isort (QO sq ex pw) l) /\
    map snd (select (QO sq ex pw) mu (remap phi l)) = map snd (select (QO sq ex pw) mu l) /\
    forall n ws (pt : P -> list Q),
      recombine (QO sq ex pw) n ws (map pt (map snd (select (QO sq ex pw) mu (remap phi l)))) =
      recombine (QO sq ex pw) n ws (map pt (map snd (select (QO sq ex pw) mu l))).
Proof. exact selection_rank_invariant_lemma. Qed.
Print Assumptions C11_selection_rank_invariant.

Theorem C11_sorted_perm_is_isort :
  forall (sq ex : Q -> Q) (pw : Q -> Q -> Q) (P : Type) (l l' : list (Q * P)),
    no_ties P l -> Permutation l' l -> StronglySorted (fle P) l' -> l' = isort (QO sq ex pw) l.
Proof. exact sorted_perm_is_isort_lemma. Qed.
Print Assumptions C11_sorted_perm_is_isort.

Theorem C11_cov_update_sym :
  forall sq ex pw n c1 cmu delta s C p ws ys,
  isnn n C -> length p = n -> Forall (fun y => length y = n) ys ->
  msym sq ex pw C -> msym sq ex pw (cov_update (QO sq ex pw) n c1 cmu delta s C p ws ys).
Proof. exact cov_update_sym_lemma. Qed.
Print Assumptions C11_cov_update_sym.

Theorem C11_cov_update_quad :
  forall sq ex pw n c1 cmu delta s C p ws ys x,
  isnn n C -> length p = n -> Forall (fun y => length y = n) ys ->
  quad (QO sq ex pw) (cov_update (QO sq ex pw) n c1 cmu delta s C p ws ys) x ==
    (1 - c1 - cmu) * quad (QO sq ex pw) C x
    + c1 * (dot (QO sq ex pw) p x * dot (QO sq ex pw) p x + delta * quad (QO sq ex pw) C x)
    + s * wsum ws ys (fun y => dot (QO sq ex pw) y x * dot (QO sq ex pw) y x).
Proof. exact cov_update_quad_lemma. Qed.
Print Assumptions C11_cov_update_quad.

(* full statement of the property would drop `c1 + cmu < 1` (see header): this is the proved part *)
Theorem C11_cov_update_pd_partial :
  forall sq ex pw n c1 cmu delta s C p ws ys,
  isnn n C -> length p = n -> Forall (fun y => length y = n) ys ->
  posdef sq ex pw n C -> 0 <= c1 -> 0 <= cmu -> c1 + cmu < 1 -> 0 <= delta -> 0 <= s ->
  Forall (fun w => 0 <= w) ws ->
  posdef sq ex pw n (cov_update (QO sq ex pw) n c1 cmu delta s C p ws ys).
Proof. exact cov_update_pd_lemma. Qed.
Print Assumptions C11_cov_update_pd_partial.

Theorem C11_cma_update_keeps_spd_partial :
  forall sq ex pw (k : cma_consts Q) n mu ws B st offspring,
  consts_ok k -> Forall (fun w => 0 <= w) ws ->
  isnn n (s_C st) -> msym sq ex pw (s_C st) -> posdef sq ex pw n (s_C st) ->
  length (s_mean st) = n -> length (s_pc st) = n ->
  Forall (fun i : Q * (list Q * list Q) => length (fst (snd i)) = n) offspring ->
  let st' := cma_update (QO sq ex pw) k n mu ws B st offspring in
  isnn n (s_C st') /\ msym sq ex pw (s_C st') /\ posdef sq ex pw n (s_C st').
Proof. exact cma_update_keeps_spd_lemma. Qed.
Print Assumptions C11_cma_update_keeps_spd_partial.

Theorem C11_sigma_update_pos :
  forall sq ex pw sigma arg, (forall t, 0 < ex t) -> 0 < sigma -> 0 < sigma_update (QO sq ex pw) sigma arg.
Proof. exact sigma_update_pos_lemma. Qed.
Print Assumptions C11_sigma_update_pos.

Theorem C11_elitist_never_worse :
  forall sq ex pw (P : Type) active (s0 : est Q P) os o, anc_ok (e_anc s0) ->
  last (e_anc (elitist_run (QO sq ex pw) active s0 (os ++ [o]))) 0 <=
  last (e_anc (elitist_run (QO sq ex pw) active s0 os)) 0.
Proof. exact elitist_never_worse_lemma. Qed.
Print Assumptions C11_elitist_never_worse.

Theorem C11_elitist_reported_never_worse :
  forall sq ex pw (P : Type) active (s0 : est Q P) os o, anc_ok (e_anc s0) ->
  unconstrained P (os ++ [o]) -> e_value s0 = last (e_anc s0) 0 ->
  e_value (elitist_run (QO sq ex pw) active s0 (os ++ [o])) <= e_value (elitist_run (QO sq ex pw) active s0 os).
Proof. exact elitist_reported_never_worse_lemma. Qed.
Print Assumptions C11_elitist_reported_never_worse.

Theorem C11_elitist_reports_evaluated :
  forall sq ex pw (P : Type) active os (s : est Q P),
  In (e_point s, e_value s) ((e_point s, e_value s) :: map fst os) ->
  In (e_point (elitist_run (QO sq ex pw) active s os), e_value (elitist_run (QO sq ex pw) active s os))
     ((e_point s, e_value s) :: map fst os).
Proof. exact elitist_reports_evaluated. Qed.
Print Assumptions C11_elitist_reports_evaluated.

Theorem C11_penalized_value_at_closest_feasible :
  forall sq ex pw (f : list Q -> Q) feasible closest penalty x,
  let r := penalized_eval (QO sq ex pw) f feasible closest penalty x in
  (feasible x = true  -> fst r = f x /\ snd r == f x) /\
  (feasible x = false -> fst r = f (closest x) /\
                         snd r = f (closest x) + penalty * normsqr (QO sq ex pw) (vsub (QO sq ex pw) (closest x) x)) /\
  (0 <= penalty -> fst r <= snd r).
Proof. exact penalized_eval_lemma. Qed.
Print Assumptions C11_penalized_value_at_closest_feasible.

(* ---- the hypotheses are satisfiable *)
Definition I2 : list (list Q) := [[1; 0]; [0; 1]].
Definition idq (x : Q) := x.
Definition pw0 (x y : Q) := x.

Example C11_identity_is_spd : isnn 2 I2 /\ msym idq idq pw0 I2 /\ posdef idq idq pw0 2 I2.
Proof.
  split; [split; [reflexivity|repeat constructor]|]. split.
  - intros i j. unfold mget, I2. destruct i as [|[|[|i]]]; destruct j as [|[|[|j]]]; cbn; reflexivity.
  - intros x L N. destruct x as [|a [|b [|c x]]]; try discriminate.
    unfold quad, mvec, I2. cbn [dot map o_add o_mul o_zero QO].
    destruct (Qeq_dec a 0) as [Ea|Ea]; [destruct (Qeq_dec b 0) as [Eb|Eb]|].
    + exfalso. apply N. repeat constructor; auto.
    + assert (0 < b * b) by nra. nra.
    + assert (0 < a * a) by nra. nra.
Qed.

(* a concrete update with c1 = 1/10, cMu = 1/5, hsig = 0 (delta = 3/4), weights (1/2, 1/2) *)
Example C11_cov_update_example :
  let C' := cov_update (QO idq idq pw0) 2 (1#10) (1#5) (3#4) (1#5) I2 [1; 2] [1#2; 1#2] [[1; 0]; [1; 1]] in
  posdef idq idq pw0 2 C' /\ msym idq idq pw0 C' /\
  Qeq_bool (mget (QO idq idq pw0) C' 0 1) (mget (QO idq idq pw0) C' 1 0) = true /\
  Qeq_bool (mget (QO idq idq pw0) C' 0 1) (3#10) = true.
Proof.
  destruct C11_identity_is_spd as (A & B & C).
  split; [apply cov_update_pd_lemma; auto; try lra; repeat constructor; lra|].
  split; [apply cov_update_sym_lemma; auto; repeat constructor|].
  split; vm_compute; reflexivity.
Qed.

(* ================================================================ the corner c1 + cMu = 1 of CMA (over Q) *)
Theorem C11_cov_update_corner_psd :
  forall sq ex pw n c1 cmu delta s C p ws ys,
  isnn n C -> length p = n -> Forall (fun y => length y = n) ys ->
  posdef sq ex pw n C -> 0 <= c1 -> 0 <= cmu -> c1 + cmu <= 1 -> 0 <= delta -> 0 <= s ->
  Forall (fun w => 0 <= w) ws ->
  forall x, length x = n -> 0 <= quad (QO sq ex pw) (cov_update (QO sq ex pw) n c1 cmu delta s C p ws ys) x.
Proof. exact cov_update_corner_psd. Qed.
Print Assumptions C11_cov_update_corner_psd.

Theorem C11_cov_update_corner_pd_iff :
  forall sq ex pw n c1 cmu s C p ws ys,
  isnn n C -> length p = n -> Forall (fun y => length y = n) ys ->
  0 <= c1 -> c1 + cmu == 1 -> 0 < s -> Forall (fun w => 0 < w) ws -> length ws = length ys ->
  (posdef sq ex pw n (cov_update (QO sq ex pw) n c1 cmu 0 s C p ws ys) <-> spans sq ex pw n (corner_gens c1 p ys)).
Proof. exact cov_update_corner_pd_iff. Qed.
Print Assumptions C11_cov_update_corner_pd_iff.

Theorem C11_cov_update_corner_pd_delta :
  forall sq ex pw n c1 cmu delta s C p ws ys,
  isnn n C -> length p = n -> Forall (fun y => length y = n) ys ->
  posdef sq ex pw n C -> 0 < c1 -> 0 <= cmu -> c1 + cmu <= 1 -> 0 < delta -> 0 <= s ->
  Forall (fun w => 0 <= w) ws ->
  posdef sq ex pw n (cov_update (QO sq ex pw) n c1 cmu delta s C p ws ys).
Proof. exact cov_update_corner_pd_delta. Qed.
Print Assumptions C11_cov_update_corner_pd_delta.

(* ================================================================ VDCMA (over Q) *)
Theorem C11_vd_D_update_pos_iff :
  forall sq ex pw D s, length D = length s -> Forall (fun d => 0 < d) D ->
  (Forall (fun d => 0 < d) (vd_D_update (QO sq ex pw) D s) <-> Forall (fun si => -(1) < si) s).
Proof. exact vd_D_update_pos_iff. Qed.
Print Assumptions C11_vd_D_update_pos_iff.

Theorem C11_vd_cov_quad :
  forall sq ex pw D v x, length v = length D -> length x = length D ->
  quad (QO sq ex pw) (vd_cov (QO sq ex pw) D v) x ==
    normsqr (QO sq ex pw) (vmul (QO sq ex pw) D x)
    + dot (QO sq ex pw) v (vmul (QO sq ex pw) D x) * dot (QO sq ex pw) v (vmul (QO sq ex pw) D x).
Proof. exact vd_cov_quad. Qed.
Print Assumptions C11_vd_cov_quad.

Theorem C11_vd_cov_pd_iff :
  forall sq ex pw D v, length v = length D ->
  (posdef sq ex pw (length D) (vd_cov (QO sq ex pw) D v) <-> Forall (fun d => ~ d == 0) D).
Proof. intros sq ex pw D v L. split; [apply vd_cov_pd_conv; exact L|apply vd_cov_pd; exact L]. Qed.
Print Assumptions C11_vd_cov_pd_iff.

Theorem C11_vd_cov_sym :
  forall sq ex pw D v, length v = length D -> msym sq ex pw (vd_cov (QO sq ex pw) D v).
Proof. exact vd_cov_sym. Qed.
Print Assumptions C11_vd_cov_sym.

(* ---- the hypotheses are satisfiable (Q) *)
Example C11_corner_example :
  let C' := cov_update (QO idq idq pw0) 2 (1#5) (4#5) 0 1 I2 [0; 0] [1#2; 1#2] [[1; 0]; [1; 1]] in
  spans idq idq pw0 2 (corner_gens (1#5) [0; 0] [[1; 0]; [1; 1]]) /\ posdef idq idq pw0 2 C'.
Proof.
  destruct C11_identity_is_spd as (A & B & C).
  assert (spans idq idq pw0 2 (corner_gens (1#5) [0; 0] [[1; 0]; [1; 1]])) as S.
  { intros x L N. destruct x as [|a [|b [|c x]]]; try discriminate. unfold corner_gens. cbn.
    destruct (Qeq_dec a 0) as [Ea|Ea].
    - exists [1; 1]. split; [auto|]. cbn. intro Z. apply N. repeat constructor; auto. lra.
    - exists [1; 0]. split; [auto|]. cbn. intro Z. apply Ea. lra. }
  split; auto. apply C11_cov_update_corner_pd_iff; auto; try lra; repeat constructor; lra.
Qed.

Example C11_vd_example :
  posdef idq idq pw0 2 (vd_cov (QO idq idq pw0) [1; 2] [1; -(1)]) /\
  Forall (fun d => 0 < d) (vd_D_update (QO idq idq pw0) [1; 2] [-(1#2); 3]).
Proof.
  split.
  - apply (C11_vd_cov_pd_iff idq idq pw0 [1; 2] [1; -(1)]); auto. repeat constructor; intro; lra.
  - apply C11_vd_D_update_pos_iff; auto; repeat constructor; lra.
Qed.

(* ================================================================ Cholesky-factor optimizers (over R) *)
From Coq Require Import Lra.
Open Scope R_scope.

Theorem C11_chol_update_spec :
  forall alpha beta cols (v : list R) cols',
  0 < alpha -> wf cols -> dnz cols -> (beta <> 0 -> length v = length cols) ->
  chol_update RO alpha beta cols v = Some cols' ->
  wf cols' /\ length cols' = length cols /\ dnz cols' /\ (dpos cols -> dpos cols') /\
  forall x, length x = length cols ->
    fquad RO cols' x = alpha * fquad RO cols x + beta * (dot RO v x * dot RO v x).
Proof. exact chol_update_spec. Qed.
Print Assumptions C11_chol_update_spec.

Theorem C11_chol_update_succeeds_pos :
  forall alpha beta cols (v : list R),
  0 < alpha -> 0 <= beta -> wf cols -> dnz cols -> (beta <> 0 -> length v = length cols) ->
  exists cols', chol_update RO alpha beta cols v = Some cols'.
Proof. exact chol_update_ok_pos. Qed.
Print Assumptions C11_chol_update_succeeds_pos.

Theorem C11_chol_update_downdate :
  forall alpha beta cols (z : list R),
  0 < alpha -> beta < 0 -> wf cols -> dnz cols -> length z = length cols ->
  0 < alpha + beta * sumsq z ->
  exists cols', chol_update RO alpha beta cols (lmulz RO cols z) = Some cols' /\
                detsq cols' = alpha ^ length cols * detsq cols * (1 + beta / alpha * sumsq z).
Proof. exact chol_update_ok_neg. Qed.
Print Assumptions C11_chol_update_downdate.

(* a factor with non-zero diagonal represents a positive definite covariance *)
Theorem C11_factor_nonsingular_pd :
  forall cols x, wf cols -> dnz cols -> length x = length cols -> rnonzero x -> 0 < fquad RO cols x.
Proof. exact fquad_pos. Qed.
Print Assumptions C11_factor_nonsingular_pd.

Theorem C11_cmsa_update_keeps_spd :
  forall (n mu : nat) cC cols (offspring : list (R * (list R * (list R * R)))),
  1 < cC -> (0 < mu)%nat -> offspring <> [] ->
  wf cols -> dpos cols -> length cols = n ->
  Forall (fun i => length (fst (snd (snd i))) = n /\ 0 < snd (snd (snd i))) offspring ->
  exists m s cols', cmsa_update RO n mu cC cols offspring = Some (m, s, cols') /\
    0 < s /\ wf cols' /\ length cols' = n /\ dpos cols' /\
    (forall x, length x = n -> rnonzero x -> 0 < fquad RO cols' x) /\
    (forall x, length x = n ->
       fquad RO cols' x = (1 - 1 / cC) * fquad RO cols x + 1 / INR mu * 1 / cC *
          sumf (map (fun i => fst (snd (snd i))) (select RO mu offspring)) (fun y => dot RO y x * dot RO y x)).
Proof. exact cmsa_update_ok. Qed.
Print Assumptions C11_cmsa_update_keeps_spd.

Theorem C11_cmsa_cC_gt_1 :
  forall n mu : nat, (0 < n)%nat -> (0 < mu)%nat -> 1 < 1 + (INR n * (INR n + 1)) / (2 * INR mu).
Proof. exact cmsa_cC_gt_1. Qed.
Print Assumptions C11_cmsa_cC_gt_1.

Theorem C11_cmsa_corner_cC_1 :
  forall cols, exists cols0, chol_update RO (1 - 1 / 1) 0 cols [] = Some cols0 /\ forall x, fquad RO cols0 x = 0.
Proof. exact cmsa_corner_cC_1. Qed.
Print Assumptions C11_cmsa_corner_cC_1.

Theorem C11_chrom_sigma_pos :
  forall k sigma psucc, 0 < sigma -> 0 < chrom_sigma RO k sigma psucc.
Proof. exact chrom_sigma_pos. Qed.
Print Assumptions C11_chrom_sigma_pos.

Theorem C11_active_rate_guard :
  forall cu zz, 0 < cu -> 0 <= zz -> let r := active_rate RO cu zz in 0 < r /\ r * (zz - 1) < 1.
Proof. exact active_rate_ok. Qed.
Print Assumptions C11_active_rate_guard.

Theorem C11_chrom_offspring_update :
  forall k n c, chrom_consts_ok k -> chrom_ok n c ->
  exists c', chrom_offspring RO k c = Some c' /\ chrom_good n c' /\
    forall x, length x = n ->
      fquad RO (h_L c') x =
        (if Rltb (h_psucc c') (q_pthresh k) then 1 - q_ccov k else 1 - q_ccov k + q_cc k * (2 - q_cc k))
          * fquad RO (h_L c) x
        + q_ccov k * (dot RO (h_pc c') x * dot RO (h_pc c') x).
Proof. exact chrom_offspring_ok. Qed.
Print Assumptions C11_chrom_offspring_update.

Theorem C11_chrom_parent_update :
  forall k n s c, chrom_consts_ok k -> chrom_ok n c ->
  exists c', chrom_parent RO k s c = Some c' /\ chrom_good n c' /\
    (s <> Failure -> h_L c' = h_L c) /\
    (s = Failure -> forall x, length x = n ->
       fquad RO (h_L c') x =
         if Rltb (h_psucc c') (q_pthresh k)
         then let r := active_rate RO (q_cu k) (normsqr RO (h_z c)) in
              (1 + r) * fquad RO (h_L c) x - r * (dot RO (h_step c) x * dot RO (h_step c) x)
         else (1 - q_ccov k + q_cc k * (2 - q_cc k)) * fquad RO (h_L c) x
              + q_ccov k * (dot RO (h_pc c') x * dot RO (h_pc c') x)) /\
    (s = Failure -> Rltb (h_psucc c') (q_pthresh k) = true ->
       let r := active_rate RO (q_cu k) (normsqr RO (h_z c)) in
       detsq (h_L c') = (1 + r) ^ n * detsq (h_L c) * (1 - r / (1 + r) * normsqr RO (h_z c))).
Proof. exact chrom_parent_ok. Qed.
Print Assumptions C11_chrom_parent_update.

Theorem C11_ecma_chrom_step_keeps_spd :
  forall k n active anc pen c, chrom_consts_ok k -> chrom_ok n c ->
  exists c', ecma_chrom_step RO k active anc pen c = Some c' /\ chrom_good n c'.
Proof. exact ecma_chrom_step_ok. Qed.
Print Assumptions C11_ecma_chrom_step_keeps_spd.

Theorem C11_vd_sample_covariance :
  forall mean sigma D vn normv (z : list R),
  length z = length vn -> dot RO vn vn = 1 ->
  let r := vd_sample RO mean sigma D vn normv z in
  fst r = vadd RO mean (vmul RO (vscale RO sigma D) (snd r)) /\
  snd r = vadd RO z (vscale RO ((sqrt (1 + normv * normv) - 1) * dot RO z vn) vn) /\
  normsqr RO (snd r) = normsqr RO z + dot RO (vscale RO normv vn) z * dot RO (vscale RO normv vn) z.
Proof. exact vd_sample_spec. Qed.
Print Assumptions C11_vd_sample_covariance.

(* ---- the hypotheses are satisfiable (R):  L = [[2,0],[1,1]] as trailing columns *)
Definition L2 : list (list R) := [[2; 1]; [1]].
Definition k2 : chrom_consts R := mkCC (1/10) 2 (2/11) (1/2) (1/5) (1/10) (11/25).
Definition c2 : chrom R := mkChrom L2 [0; 0] (lmulz RO L2 [1; 1]) [1; 1] 1 (2/11).

Example C11_L2_is_factor : wf L2 /\ dpos L2.
Proof. split; [cbn; auto|]. repeat constructor; cbn; lra. Qed.

Example C11_chrom_example :
  chrom_consts_ok k2 /\ chrom_ok 2 c2 /\
  exists c', ecma_chrom_step RO k2 true [1; 1; 1; 1; 1] 2 c2 = Some c' /\ chrom_good 2 c'.
Proof.
  destruct C11_L2_is_factor as (W & D).
  assert (chrom_consts_ok k2) as K by (unfold chrom_consts_ok, k2; cbn; repeat split; lra).
  assert (chrom_ok 2 c2) as Ok by (unfold chrom_ok, c2; cbn [h_L h_pc h_z h_step h_sigma]; repeat split; auto; lra).
  split; auto. split; auto. apply C11_ecma_chrom_step_keeps_spd; auto.
Qed.

Example C11_cmsa_example :
  exists m s cols', cmsa_update RO 2 1 2 L2 [(3, ([0; 0], ([1; 0], 1))); (1, ([1; 1], ([0; 1], 1/2)))] = Some (m, s, cols') /\
                    0 < s /\ dpos cols'.
Proof.
  destruct C11_L2_is_factor as (W & D).
  destruct (C11_cmsa_update_keeps_spd 2 1 2 L2 [(3, ([0; 0], ([1; 0], 1))); (1, ([1; 1], ([0; 1], 1/2)))]) as (m & s & c & H & Hs & _ & _ & Hd & _);
    auto; try lra; try discriminate.
  - repeat constructor; cbn; lra.
  - exists m, s, c. auto.
Qed.

Example C11_downdate_example :
  exists cols', chol_update RO 1 (-(1/2)) L2 (lmulz RO L2 [1; 0]) = Some cols' /\
                detsq cols' = 1 ^ 2 * detsq L2 * (1 + -(1/2) / 1 * sumsq [1; 0]).
Proof.
  destruct C11_L2_is_factor as (W & D).
  apply C11_chol_update_downdate; auto; try lra; try (apply dpos_dnz; auto). cbn. lra.
Qed.

(* ================================================================ SimplexDownhill (C11DirectModel.sd_init / sd_step / sd_run, over Q) *)
Close Scope R_scope.
Open Scope Q_scope.

(* (a) the reported value is the objective at the reported point, and every vertex carries its objective value, after init (as
   repaired by d2acfe00: vertex 0 is taken unconditionally) and every number of steps, for every oracle *)
Theorem C11_simplex_reports_objective :
  forall sq ex pw (f : list Q -> Q) (start : list Q) (n : nat),
  let st := sd_run (QO sq ex pw) f n (sd_init (QO sq ex pw) f start) in
  fst (sd_best st) = f (snd (sd_best st)) /\ Forall (fun v => fst v = f (snd v)) (sd_simplex st).
Proof. exact sd_reports_objective_lemma. Qed.
Print Assumptions C11_simplex_reports_objective.

(* REGRESSION WITNESS about the init BEFORE the repair ([old_sd_init]: every vertex, also vertex 0, was compared with the literal 1e100
   [big] stored in m_best.value — the one place where a VALUE rather than a comparison of objective values was used): if no objective
   value is below the literal, solution() kept reporting (literal, the point the object held before init) after every number of steps *)
Theorem C11_simplex_literal_witness :
  forall sq ex pw (f : list Q -> Q) (big : Q) (p0 start : list Q) (n : nat),
  (forall x, big <= f x) ->
  sd_best (sd_run (QO sq ex pw) f n (old_sd_init (QO sq ex pw) f big p0 start)) = (big, p0).
Proof. exact sd_literal_reported_lemma. Qed.
Print Assumptions C11_simplex_literal_witness.

(* sd_minval = best.value as the step sees it = the least vertex value *)
Theorem C11_simplex_minval_is_min :
  forall sq ex pw (s : list (sol Q)),
  (forall v, In v s -> sd_minval sq ex pw s <= fst v) /\ (s <> [] -> exists v, In v s /\ fst v = sd_minval sq ex pw s).
Proof. intros sq ex pw s. split; [exact (minval_le sq ex pw s)|exact (minval_in sq ex pw (s:=s))]. Qed.
Print Assumptions C11_simplex_minval_is_min.

(* (b) the best value of the simplex never increases (dimension >= 1, i.e. at least two vertices), for every oracle and state *)
Theorem C11_simplex_best_never_worse :
  forall sq ex pw (f : list Q -> Q) (st : sd_state Q), (2 <= length (sd_simplex st))%nat ->
  sd_minval sq ex pw (sd_simplex (sd_step (QO sq ex pw) f st)) <= sd_minval sq ex pw (sd_simplex st).
Proof. exact sd_simplex_best_never_worse. Qed.
Print Assumptions C11_simplex_best_never_worse.

Theorem C11_simplex_best_monotone :
  forall sq ex pw (f : list Q -> Q) (n : nat) (st : sd_state Q), (2 <= length (sd_simplex st))%nat ->
  sd_minval sq ex pw (sd_simplex (sd_run (QO sq ex pw) f n st)) <= sd_minval sq ex pw (sd_simplex st).
Proof. exact sd_simplex_best_monotone. Qed.
Print Assumptions C11_simplex_best_monotone.

Theorem C11_simplex_reported_never_worse :
  forall sq ex pw (f : list Q -> Q) (st : sd_state Q),
  fst (sd_best (sd_step (QO sq ex pw) f st)) <= fst (sd_best st).
Proof. exact sd_reported_never_worse. Qed.
Print Assumptions C11_simplex_reported_never_worse.

(* (c) RANK INVARIANCE: two oracles that order every pair of points identically visit exactly the same simplices and report the same
   point, for every start point and every number of steps (every decision of init and step is a comparison of objective values) *)
Theorem C11_simplex_rank_invariant :
  forall sq ex pw (f g : list Q -> Q) (start : list Q) (n : nat),
  (forall x y, f x < f y <-> g x < g y) ->
  map snd (sd_simplex (sd_run (QO sq ex pw) f n (sd_init (QO sq ex pw) f start))) =
  map snd (sd_simplex (sd_run (QO sq ex pw) g n (sd_init (QO sq ex pw) g start))) /\
  snd (sd_best (sd_run (QO sq ex pw) f n (sd_init (QO sq ex pw) f start))) =
  snd (sd_best (sd_run (QO sq ex pw) g n (sd_init (QO sq ex pw) g start))).
Proof. exact sd_rank_invariant_lemma. Qed.
Print Assumptions C11_simplex_rank_invariant.

Theorem C11_simplex_rank_invariant_rescaling :
  forall sq ex pw (phi : Q -> Q) (f : list Q -> Q) (start : list Q) (n : nat),
  (forall a b, a < b -> phi a < phi b) -> (forall a b, a == b -> phi a == phi b) ->
  let g := fun x => phi (f x) in
  map snd (sd_simplex (sd_run (QO sq ex pw) f n (sd_init (QO sq ex pw) f start))) =
  map snd (sd_simplex (sd_run (QO sq ex pw) g n (sd_init (QO sq ex pw) g start))) /\
  snd (sd_best (sd_run (QO sq ex pw) f n (sd_init (QO sq ex pw) f start))) =
  snd (sd_best (sd_run (QO sq ex pw) g n (sd_init (QO sq ex pw) g start))).
Proof. exact sd_rank_invariant_rescaling. Qed.
Print Assumptions C11_simplex_rank_invariant_rescaling.

(* the reported solution IS the first vertex of the sorted simplex (stable sort: the earliest vertex with the least value): it is a
   vertex and its value is the least vertex value — in dimension >= 1 *)
Theorem C11_simplex_reported_is_best_vertex :
  forall sq ex pw (f : list Q -> Q) (start : list Q) (n : nat),
  (1 <= length start)%nat ->
  let st := sd_run (QO sq ex pw) f n (sd_init (QO sq ex pw) f start) in
  sd_best st = hd (sd_dflt (QO sq ex pw)) (isort (QO sq ex pw) (sd_simplex st)) /\ In (sd_best st) (sd_simplex st) /\
  fst (sd_best st) = sd_minval sq ex pw (sd_simplex st) /\ Forall (fun v => fst (sd_best st) <= fst v) (sd_simplex st).
Proof. exact sd_reported_is_best_vertex. Qed.
Print Assumptions C11_simplex_reported_is_best_vertex.

(* ---- the hypotheses are satisfiable: the sphere in dimension 2 from (0,0); the old init with literal 1000 on f = 2000; and on the
   same f the repaired init reports the objective value *)
Definition sphereQ (x : list Q) : Q := normsqr (QO idq idq pw0) x.
Definition sd_start0 : list Q := [0; 0].
Definition sd_st0 : sd_state Q := sd_init (QO idq idq pw0) sphereQ sd_start0.

Example C11_simplex_example :
  (1 <= length sd_start0)%nat /\ (2 <= length (sd_simplex sd_st0))%nat /\
  (forall x y, sphereQ x < sphereQ y <-> 4 * sphereQ x < 4 * sphereQ y) /\
  Qeq_bool (fst (sd_best (sd_run (QO idq idq pw0) sphereQ 5 sd_st0))) (98165 # 4194304) = true.
Proof.
  split; [cbn; lia|]. split; [vm_compute; lia|]. split; [intros; split; intro; Lqa.lra|vm_compute; reflexivity].
Qed.

Example C11_simplex_literal_example :
  sd_best (sd_run (QO idq idq pw0) (fun _ => 2000) 3 (old_sd_init (QO idq idq pw0) (fun _ => 2000) 1000 [7] [0; 0])) = (1000, [7]) /\
  fst (sd_best (sd_run (QO idq idq pw0) (fun _ => 2000) 3 (sd_init (QO idq idq pw0) (fun _ => 2000) [0; 0]))) = 2000.
Proof. split; [apply C11_simplex_literal_witness; intro x; Lqa.lra|apply C11_simplex_reports_objective]. Qed.

(* ================================================================ CrossEntropyMethod (C11DirectModel.cem_step / cem_run, over Q) *)
(* the reported value is the oracle (= unpenalised fitness of PenalizingEvaluator: objective at the closest feasible point) at the
   reported point; that point is the best-ranked of this step's samples *)
Theorem C11_cem_reports_objective :
  forall sq ex pw (ev : list Q -> Q) (noise : nat -> Q) (n mu : nat) (st : cem_state Q) (zs : list (list Q)) (st' : cem_state Q),
  (0 < mu)%nat -> cem_step (QO sq ex pw) ev noise n mu st zs = Some st' ->
  fst (c_best st') = ev (snd (c_best st')) /\
  In (snd (c_best st')) (cem_samples (QO sq ex pw) st zs) /\
  snd (c_best st') = hd [] (cem_elite (QO sq ex pw) ev mu st zs) /\
  c_counter st' = S (c_counter st).
Proof. intros sq ex pw. exact (@cem_reports_objective_generic Q (QO sq ex pw)). Qed.
Print Assumptions C11_cem_reports_objective.

(* the step throws (ElitistSelection's runtime check) exactly when the population is not larger than the selection size *)
Theorem C11_cem_step_throws_iff :
  forall sq ex pw (ev : list Q -> Q) (noise : nat -> Q) (n mu : nat) (st : cem_state Q) (zs : list (list Q)),
  cem_step (QO sq ex pw) ev noise n mu st zs = None <-> (length zs <= mu)%nat.
Proof. intros sq ex pw. exact (@cem_step_none_iff Q (QO sq ex pw)). Qed.
Print Assumptions C11_cem_step_throws_iff.

(* mean = average of the elite; variance_j >= noise, > 0 whenever the noise term is > 0, and == 0 EXACTLY when the noise term is 0
   and all elite samples agree in coordinate j (the precise form of the known finding C11-CEM0) *)
Theorem C11_cem_update_distribution :
  forall sq ex pw (ev : list Q -> Q) (noise : nat -> Q) (n mu : nat) (st : cem_state Q) (zs : list (list Q)) (st' : cem_state Q) (j : nat),
  (0 < mu)%nat -> (j < n)%nat -> 0 <= noise (S (c_counter st)) ->
  cem_step (QO sq ex pw) ev noise n mu st zs = Some st' ->
  let elite := cem_elite (QO sq ex pw) ev mu st zs in
  let nz := noise (S (c_counter st)) in
  length elite = mu /\ (mu < length zs)%nat /\
  nth j (c_mean st') 0 * inject_Z (Z.of_nat mu) == cem_sumf (cj j) elite /\
  nz <= nth j (c_var st') 0 /\
  (0 < nz -> 0 < nth j (c_var st') 0) /\
  (nth j (c_var st') 0 == 0 <-> nz == 0 /\ forall x y, In x elite -> In y elite -> cj j x == cj j y).
Proof. exact cem_step_spec. Qed.
Print Assumptions C11_cem_update_distribution.

Theorem C11_cem_noise_schedules :
  forall sq ex pw (c a b : Q) (t : nat),
  0 <= cem_noise_const (QO sq ex pw) c t /\ 0 <= cem_noise_linear (QO sq ex pw) a b t /\
  (0 < cem_noise_const (QO sq ex pw) c t <-> 0 < c) /\
  (0 < cem_noise_linear (QO sq ex pw) a b t <-> 0 < a + inject_Z (Z.of_nat t) * b).
Proof. exact cem_noise_spec. Qed.
Print Assumptions C11_cem_noise_schedules.

(* rank invariance: the elite (hence mean, variance, counter, reported point) is the same for two oracles that order every pair of
   points identically, for every sequence of draws; in particular for a strictly increasing rescaling *)
Theorem C11_cem_rank_invariant :
  forall sq ex pw (ev ev' : list Q -> Q) (noise : nat -> Q) (n mu : nat) (zss : list (list (list Q))) (st : cem_state Q),
  (forall x y, ev x < ev y <-> ev' x < ev' y) ->
  option_map (@cem_proj Q) (cem_run (QO sq ex pw) ev noise n mu st zss) = option_map (@cem_proj Q) (cem_run (QO sq ex pw) ev' noise n mu st zss).
Proof. exact cem_rank_invariant_lemma. Qed.
Print Assumptions C11_cem_rank_invariant.

Theorem C11_cem_elite_rank_invariant :
  forall sq ex pw (phi : Q -> Q) (ev : list Q -> Q) (mu : nat) (st : cem_state Q) (zs : list (list Q)),
  (forall a b, a < b -> phi a < phi b) -> (forall a b, a == b -> phi a == phi b) ->
  cem_elite (QO sq ex pw) (fun x => phi (ev x)) mu st zs = cem_elite (QO sq ex pw) ev mu st zs.
Proof. exact cem_elite_rank_invariant_lemma. Qed.
Print Assumptions C11_cem_elite_rank_invariant.

(* ---- satisfiable: one step in dimension 1 from N(0, 1) with draws 1, 2, 3 and an elite of 2 (variance 1/4); with draws 1, 1, 3 the
   elite agrees and the noise-free variance is exactly 0 *)
Definition cem_st0 : cem_state Q := mkCem [0] [1] 0 (0, []).
Example C11_cem_example :
  (exists st', cem_step (QO idq idq pw0) sphereQ (cem_noise_const (QO idq idq pw0) 0) 1 2 cem_st0 [[1]; [2]; [3]] = Some st' /\
               Qeq_bool (nth 0 (c_mean st') 0) (3 # 2) = true /\ Qeq_bool (nth 0 (c_var st') 0) (1 # 4) = true /\ c_best st' = (1 * 1 + 0, [1 * 1 + 0])) /\
  (exists st', cem_step (QO idq idq pw0) sphereQ (cem_noise_const (QO idq idq pw0) 0) 1 2 cem_st0 [[1]; [1]; [3]] = Some st' /\
               Qeq_bool (nth 0 (c_var st') 0) 0 = true).
Proof. split; eexists; (split; [vm_compute; reflexivity|]); repeat split; vm_compute; reflexivity. Qed.

(* ================================================================ whole runs of CMA / CMSA on the model: rank invariance *)
(* for EVERY arithmetic (in particular the float instantiation the driver runs): two oracles that order every pair of search points
   identically give the SAME state (mean, sigma, covariance, paths, counter) after every sequence of draws *)
Theorem C11_cma_run_rank_invariant_any_arithmetic :
  forall (A : Type) (O : ops A) (ev ev' : list A -> A), oeq O ev ev' ->
  forall eig k n mu ws zss st, cma_run O ev eig k n mu ws st zss = cma_run O ev' eig k n mu ws st zss.
Proof. exact cma_run_rank_invariant. Qed.
Print Assumptions C11_cma_run_rank_invariant_any_arithmetic.

Theorem C11_cmsa_run_rank_invariant_any_arithmetic :
  forall (A : Type) (O : ops A) (ev ev' : list A -> A), oeq O ev ev' ->
  forall cSigma cC n mu dss st, cmsa_run O ev cSigma cC n mu st dss = cmsa_run O ev' cSigma cC n mu st dss.
Proof. exact cmsa_run_rank_invariant. Qed.
Print Assumptions C11_cmsa_run_rank_invariant_any_arithmetic.

Theorem C11_cma_run_rank_invariant :
  forall sq ex pw (ev ev' : list Q -> Q) eig k n mu ws zss st,
  (forall x y, ev x < ev y <-> ev' x < ev' y) ->
  cma_run (QO sq ex pw) ev eig k n mu ws st zss = cma_run (QO sq ex pw) ev' eig k n mu ws st zss.
Proof. exact cma_run_rank_invariant_Q. Qed.
Print Assumptions C11_cma_run_rank_invariant.

Theorem C11_cma_run_rescaling :
  forall sq ex pw (phi : Q -> Q) (ev : list Q -> Q) eig k n mu ws zss st,
  (forall a b, a < b -> phi a < phi b) -> (forall a b, a == b -> phi a == phi b) ->
  cma_run (QO sq ex pw) (fun x => phi (ev x)) eig k n mu ws st zss = cma_run (QO sq ex pw) ev eig k n mu ws st zss.
Proof. exact cma_run_rescaling_Q. Qed.
Print Assumptions C11_cma_run_rescaling.

Theorem C11_cmsa_run_rank_invariant :
  forall sq ex pw (ev ev' : list Q -> Q) cSigma cC n mu dss st,
  (forall x y, ev x < ev y <-> ev' x < ev' y) ->
  cmsa_run (QO sq ex pw) ev cSigma cC n mu st dss = cmsa_run (QO sq ex pw) ev' cSigma cC n mu st dss.
Proof. exact cmsa_run_rank_invariant_Q. Qed.
Print Assumptions C11_cmsa_run_rank_invariant.

Theorem C11_cmsa_run_rescaling :
  forall sq ex pw (phi : Q -> Q) (ev : list Q -> Q) cSigma cC n mu dss st,
  (forall a b, a < b -> phi a < phi b) -> (forall a b, a == b -> phi a == phi b) ->
  cmsa_run (QO sq ex pw) (fun x => phi (ev x)) cSigma cC n mu st dss = cmsa_run (QO sq ex pw) ev cSigma cC n mu st dss.
Proof. exact cmsa_run_rescaling_Q. Qed.
Print Assumptions C11_cmsa_run_rescaling.

(* ---- satisfiable: phi(t) = 4 t + 1 is strictly increasing and ==-compatible; sphere vs 4*sphere + 1 order every pair identically *)
Example C11_rescaling_example :
  (forall a b : Q, a < b -> 4 * a + 1 < 4 * b + 1) /\ (forall a b : Q, a == b -> 4 * a + 1 == 4 * b + 1) /\
  (forall x y, sphereQ x < sphereQ y <-> 4 * sphereQ x + 1 < 4 * sphereQ y + 1).
Proof. split; [intros; Lqa.lra|]. split; [intros a b E; rewrite E; reflexivity|intros; split; intro; Lqa.lra]. Qed.
