(* C11 — Evolution strategies keep a valid search distribution and are rank-invariant.
   Only statements + `exact`; proofs in C11Proofs.v / C11MoreProofs.v (over Q, axiom-free) and C11CholProofs.v (over R: the
   Cholesky-factor models take square roots; only the axioms of the standard library's real numbers), executable model
   in C11Model.v.

   PROVED here (all sizes, all inputs, all histories):
     over Q, closed under the global context
     * C11_selection_rank_invariant   selection/sorting on `map phi fitness` (phi strictly increasing) picks the same
                                      individuals in the same order as on `fitness` (model: stable insertion sort, so ties
                                      are covered by the model's tie rule), hence the rank-weighted recombination is identical;
     * C11_sorted_perm_is_isort       on tie-free fitness lists EVERY sorted permutation (i.e. whatever std::sort returns)
                                      is the model's sorted list;
     * C11_cov_update_sym / _quad / _pd  the covariance update of CMA::updatePopulation as coded (incl. the hsig term and
                                      the 1/sigma^2 factor) keeps symmetry; x^T C' x identity; positive definiteness for
                                      w_i >= 0, c1, cMu >= 0, c1 + cMu < 1, delta >= 0;
     * C11_cma_update_keeps_spd       the whole model step (selection + recombination + path + eq. 43) keeps C n x n,
                                      symmetric, positive definite;
     * C11_cov_update_corner_psd / _pd_iff / _pd_delta   THE CORNER c1 + cMu = 1 (cMu = min(1 - c1, ..), large populations in
                                      low dimension): C' is positive SEMI-definite; with hsig = 1 (delta = 0) it is positive
                                      definite IF AND ONLY IF the evolution path (when c1 > 0) together with the selected steps
                                      has full rank; with hsig = 0 (delta > 0) and c1 > 0 it is positive definite;
     * C11_sigma_update_pos           sigma * exp(.) > 0 for any positive exp;
     * C11_elitist_never_worse / C11_elitist_reported_never_worse / C11_elitist_reports_evaluated
                                      ElitistCMA's acceptance rule over arbitrary offspring histories;
     * C11_penalized_value_at_closest_feasible   PenalizingEvaluator as coded;
     * C11_vd_D_update_pos_iff        VDCMA:  D += D*meanS  keeps D > 0 IF AND ONLY IF every component of meanS is > -1
                                      (nothing in the code enforces it: monitored on every recorded update);
     * C11_vd_cov_quad / _pd_iff / _sym   C = D(I + v v^T)D = diag(D)^2 + (D*v)(D*v)^T is symmetric, x^T C x = |D*x|^2 + (v.(D*x))^2,
                                      and positive definite iff no component of D is zero, WHATEVER v is (so every v-update keeps it).
     over R (standard-library axioms only: ClassicalDedekindReals.sig_forall_dec, ClassicalDedekindReals.sig_not_dec,
       FunctionalExtensionality.functional_extensionality_dep, Classical_Prop.classic — the ones behind Coq's real numbers, sqrt and exp)
     * C11_chol_update_spec           remora cholesky_decomposition::update(alpha, beta, v) as coded, alpha > 0: whenever it
                                      returns, the new factor has the same shape, positive diagonal, and represents
                                      alpha L L^T + beta v v^T (quadratic-form identity for every x);
     * C11_chol_update_succeeds_pos   for beta >= 0 it always returns;
     * C11_chol_update_downdate       for beta < 0 and v = L z it returns as soon as alpha + beta |z|^2 > 0, and
                                      det(L'L'^T) = alpha^n det(L L^T) (1 + beta/alpha |z|^2)   (the determinant factor);
     * C11_cmsa_update_keeps_spd      CMSA::updatePopulation as coded (one scaling + mu rank-one updates of the factor, sigma = mean
                                      of the selected sigmas): for cC > 1, mu >= 1 no update throws, sigma' > 0, the factor stays
                                      non-singular, x^T C' x = (1 - 1/cC) x^T C x + 1/(mu cC) sum_i (y_i.x)^2 > 0;
     * C11_cmsa_cC_gt_1 / C11_cmsa_corner_cC_1   the constant of CMSA::doInit satisfies cC = 1 + n(n+1)/(2 mu) > 1; AT cC = 1 the code
                                      as written multiplies the factor by sqrt(0): the rank-one updates then start from the ZERO factor;
     * C11_active_rate_guard          the guard of CMAChromosome::updateAsParent: the rate r used satisfies r > 0, r(|z|^2 - 1) < 1;
     * C11_chrom_offspring_update / C11_chrom_parent_update / C11_ecma_chrom_step_keeps_spd
                                      CMAChromosome::updateAsOffspring / updateAsParent / roundUpdate inside ElitistCMA::step, every
                                      branch: no exception, sigma' > 0, factor with positive diagonal, covariance positive definite,
                                      x^T C' x identity per branch, determinant factor (1+r)^n (1 - r/(1+r)|z|^2) of the active update;
     * C11_vd_sample_covariance       VDCMA::createSample: y = (I + a vn vn^T) z has |y|^2 = |z|^2 + (v.z)^2, x = m + sigma D*y.
   STILL NOT PROVED: that D of VDCMA stays positive along a run (it does iff meanS > -1, a property of the sample); full rank of the
     rank-mu part in the CMA corner (probabilistic); convergence; the symmetric eigendecomposition; floating-point rounding.
   COMPARED on every run (tools/c11.py, float instantiation of the SAME model functions, 1e-10, on states/offspring recorded from the
     real optimizers): cma_update = CMA::updatePopulation; cmsa_update = CMSA::updatePopulation; ecma_chrom_step = the CMAChromosome
     update inside ElitistCMA::step; vd_update / vd_sample = VDCMA::updateStrategyParameters / createSample; chol_update =
     cholesky_decomposition::update on exact inputs including its exception exit; elitist_step, penalized_eval exactly.
   ONLY MONITORED: eigendecomposition; cross-entropy / simplex internals; seed determinism; rank invariance of the real
     optimizers on f vs 4f; convergence on the sphere; D > 0 in VDCMA. *)
From Coq Require Import List QArith Lqa Permutation Sorted Reals.
From SharkV Require Import C11Model C11Proofs C11MoreProofs C11CholProofs.
Open Scope Q_scope.
Import ListNotations.

Theorem C11_selection_rank_invariant :
  forall (sq ex : Q -> Q) (pw : Q -> Q -> Q) (P : Type) (phi : Q -> Q),
  (forall a b, a < b -> phi a < phi b) -> (forall a b, a == b -> phi a == phi b) ->
  forall (l : list (Q * P)) (mu : nat),
    map snd (isort (QO sq ex pw) (remap phi l)) = map snd (isort (QO sq ex pw) l) /\
    map snd (select (QO sq ex pw) mu (remap phi l)) = map snd (select (QO sq ex pw) mu l) /\
    forall n ws (pt : P -> list Q),
      recombine (QO sq ex pw) n ws (map pt (map snd (select (QO sq ex pw) mu (remap phi l)))) =
      recombine (QO sq ex pw) n ws (map pt (map snd (select (QO sq ex pw) mu l))).
Proof. exact selection_rank_invariant_lemma. Qed.
Print Assumptions C11_selection_rank_invariant.

Theorem C11_sorted_perm_is_isort :
  forall (sq ex : Q -> Q) (pw : Q -> Q -> Q) (P : Type) (l l' : list (Q * P)),
    no_ties P l -> Permutation l' l -> StronglySorted (fle P) l' -> l' = isort (QO sq ex pw) l.
Proof. exact sorted_perm_is_isort_lemma. Qed.
Print Assumptions C11_sorted_perm_is_isort.

Theorem C11_cov_update_sym :
  forall sq ex pw n c1 cmu delta s C p ws ys,
  isnn n C -> length p = n -> Forall (fun y => length y = n) ys ->
  msym sq ex pw C -> msym sq ex pw (cov_update (QO sq ex pw) n c1 cmu delta s C p ws ys).
Proof. exact cov_update_sym_lemma. Qed.
Print Assumptions C11_cov_update_sym.

Theorem C11_cov_update_quad :
  forall sq ex pw n c1 cmu delta s C p ws ys x,
  isnn n C -> length p = n -> Forall (fun y => length y = n) ys ->
  quad (QO sq ex pw) (cov_update (QO sq ex pw) n c1 cmu delta s C p ws ys) x ==
    (1 - c1 - cmu) * quad (QO sq ex pw) C x
    + c1 * (dot (QO sq ex pw) p x * dot (QO sq ex pw) p x + delta * quad (QO sq ex pw) C x)
    + s * wsum ws ys (fun y => dot (QO sq ex pw) y x * dot (QO sq ex pw) y x).
Proof. exact cov_update_quad_lemma. Qed.
Print Assumptions C11_cov_update_quad.

(* full statement of the property would drop `c1 + cmu < 1` (see header): this is the proved part *)
Theorem C11_cov_update_pd_partial :
  forall sq ex pw n c1 cmu delta s C p ws ys,
  isnn n C -> length p = n -> Forall (fun y => length y = n) ys ->
  posdef sq ex pw n C -> 0 <= c1 -> 0 <= cmu -> c1 + cmu < 1 -> 0 <= delta -> 0 <= s ->
  Forall (fun w => 0 <= w) ws ->
  posdef sq ex pw n (cov_update (QO sq ex pw) n c1 cmu delta s C p ws ys).
Proof. exact cov_update_pd_lemma. Qed.
Print Assumptions C11_cov_update_pd_partial.

Theorem C11_cma_update_keeps_spd_partial :
  forall sq ex pw (k : cma_consts Q) n mu ws B st offspring,
  consts_ok k -> Forall (fun w => 0 <= w) ws ->
  isnn n (s_C st) -> msym sq ex pw (s_C st) -> posdef sq ex pw n (s_C st) ->
  length (s_mean st) = n -> length (s_pc st) = n ->
  Forall (fun i : Q * (list Q * list Q) => length (fst (snd i)) = n) offspring ->
  let st' := cma_update (QO sq ex pw) k n mu ws B st offspring in
  isnn n (s_C st') /\ msym sq ex pw (s_C st') /\ posdef sq ex pw n (s_C st').
Proof. exact cma_update_keeps_spd_lemma. Qed.
Print Assumptions C11_cma_update_keeps_spd_partial.

Theorem C11_sigma_update_pos :
  forall sq ex pw sigma arg, (forall t, 0 < ex t) -> 0 < sigma -> 0 < sigma_update (QO sq ex pw) sigma arg.
Proof. exact sigma_update_pos_lemma. Qed.
Print Assumptions C11_sigma_update_pos.

Theorem C11_elitist_never_worse :
  forall sq ex pw (P : Type) active (s0 : est Q P) os o, anc_ok (e_anc s0) ->
  last (e_anc (elitist_run (QO sq ex pw) active s0 (os ++ [o]))) 0 <=
  last (e_anc (elitist_run (QO sq ex pw) active s0 os)) 0.
Proof. exact elitist_never_worse_lemma. Qed.
Print Assumptions C11_elitist_never_worse.

Theorem C11_elitist_reported_never_worse :
  forall sq ex pw (P : Type) active (s0 : est Q P) os o, anc_ok (e_anc s0) ->
  unconstrained P (os ++ [o]) -> e_value s0 = last (e_anc s0) 0 ->
  e_value (elitist_run (QO sq ex pw) active s0 (os ++ [o])) <= e_value (elitist_run (QO sq ex pw) active s0 os).
Proof. exact elitist_reported_never_worse_lemma. Qed.
Print Assumptions C11_elitist_reported_never_worse.

Theorem C11_elitist_reports_evaluated :
  forall sq ex pw (P : Type) active os (s : est Q P),
  In (e_point s, e_value s) ((e_point s, e_value s) :: map fst os) ->
  In (e_point (elitist_run (QO sq ex pw) active s os), e_value (elitist_run (QO sq ex pw) active s os))
     ((e_point s, e_value s) :: map fst os).
Proof. exact elitist_reports_evaluated. Qed.
Print Assumptions C11_elitist_reports_evaluated.

Theorem C11_penalized_value_at_closest_feasible :
  forall sq ex pw (f : list Q -> Q) feasible closest penalty x,
  let r := penalized_eval (QO sq ex pw) f feasible closest penalty x in
  (feasible x = true  -> fst r = f x /\ snd r == f x) /\
  (feasible x = false -> fst r = f (closest x) /\
                         snd r = f (closest x) + penalty * normsqr (QO sq ex pw) (vsub (QO sq ex pw) (closest x) x)) /\
  (0 <= penalty -> fst r <= snd r).
Proof. exact penalized_eval_lemma. Qed.
Print Assumptions C11_penalized_value_at_closest_feasible.

(* ---- the hypotheses are satisfiable *)
Definition I2 : list (list Q) := [[1; 0]; [0; 1]].
Definition idq (x : Q) := x.
Definition pw0 (x y : Q) := x.

Example C11_identity_is_spd : isnn 2 I2 /\ msym idq idq pw0 I2 /\ posdef idq idq pw0 2 I2.
Proof.
  split; [split; [reflexivity|repeat constructor]|]. split.
  - intros i j. unfold mget, I2. destruct i as [|[|[|i]]]; destruct j as [|[|[|j]]]; cbn; reflexivity.
  - intros x L N. destruct x as [|a [|b [|c x]]]; try discriminate.
    unfold quad, mvec, I2. cbn [dot map o_add o_mul o_zero QO].
    destruct (Qeq_dec a 0) as [Ea|Ea]; [destruct (Qeq_dec b 0) as [Eb|Eb]|].
    + exfalso. apply N. repeat constructor; auto.
    + assert (0 < b * b) by nra. nra.
    + assert (0 < a * a) by nra. nra.
Qed.

(* a concrete update with c1 = 1/10, cMu = 1/5, hsig = 0 (delta = 3/4), weights (1/2, 1/2) *)
Example C11_cov_update_example :
  let C' := cov_update (QO idq idq pw0) 2 (1#10) (1#5) (3#4) (1#5) I2 [1; 2] [1#2; 1#2] [[1; 0]; [1; 1]] in
  posdef idq idq pw0 2 C' /\ msym idq idq pw0 C' /\
  Qeq_bool (mget (QO idq idq pw0) C' 0 1) (mget (QO idq idq pw0) C' 1 0) = true /\
  Qeq_bool (mget (QO idq idq pw0) C' 0 1) (3#10) = true.
Proof.
  destruct C11_identity_is_spd as (A & B & C).
  split; [apply cov_update_pd_lemma; auto; try lra; repeat constructor; lra|].
  split; [apply cov_update_sym_lemma; auto; repeat constructor|].
  split; vm_compute; reflexivity.
Qed.

(* ================================================================ the corner c1 + cMu = 1 of CMA (over Q) *)
Theorem C11_cov_update_corner_psd :
  forall sq ex pw n c1 cmu delta s C p ws ys,
  isnn n C -> length p = n -> Forall (fun y => length y = n) ys ->
  posdef sq ex pw n C -> 0 <= c1 -> 0 <= cmu -> c1 + cmu <= 1 -> 0 <= delta -> 0 <= s ->
  Forall (fun w => 0 <= w) ws ->
  forall x, length x = n -> 0 <= quad (QO sq ex pw) (cov_update (QO sq ex pw) n c1 cmu delta s C p ws ys) x.
Proof. exact cov_update_corner_psd. Qed.
Print Assumptions C11_cov_update_corner_psd.

Theorem C11_cov_update_corner_pd_iff :
  forall sq ex pw n c1 cmu s C p ws ys,
  isnn n C -> length p = n -> Forall (fun y => length y = n) ys ->
  0 <= c1 -> c1 + cmu == 1 -> 0 < s -> Forall (fun w => 0 < w) ws -> length ws = length ys ->
  (posdef sq ex pw n (cov_update (QO sq ex pw) n c1 cmu 0 s C p ws ys) <-> spans sq ex pw n (corner_gens c1 p ys)).
Proof. exact cov_update_corner_pd_iff. Qed.
Print Assumptions C11_cov_update_corner_pd_iff.

Theorem C11_cov_update_corner_pd_delta :
  forall sq ex pw n c1 cmu delta s C p ws ys,
  isnn n C -> length p = n -> Forall (fun y => length y = n) ys ->
  posdef sq ex pw n C -> 0 < c1 -> 0 <= cmu -> c1 + cmu <= 1 -> 0 < delta -> 0 <= s ->
  Forall (fun w => 0 <= w) ws ->
  posdef sq ex pw n (cov_update (QO sq ex pw) n c1 cmu delta s C p ws ys).
Proof. exact cov_update_corner_pd_delta. Qed.
Print Assumptions C11_cov_update_corner_pd_delta.

(* ================================================================ VDCMA (over Q) *)
Theorem C11_vd_D_update_pos_iff :
  forall sq ex pw D s, length D = length s -> Forall (fun d => 0 < d) D ->
  (Forall (fun d => 0 < d) (vd_D_update (QO sq ex pw) D s) <-> Forall (fun si => -(1) < si) s).
Proof. exact vd_D_update_pos_iff. Qed.
Print Assumptions C11_vd_D_update_pos_iff.

Theorem C11_vd_cov_quad :
  forall sq ex pw D v x, length v = length D -> length x = length D ->
  quad (QO sq ex pw) (vd_cov (QO sq ex pw) D v) x ==
    normsqr (QO sq ex pw) (vmul (QO sq ex pw) D x)
    + dot (QO sq ex pw) v (vmul (QO sq ex pw) D x) * dot (QO sq ex pw) v (vmul (QO sq ex pw) D x).
Proof. exact vd_cov_quad. Qed.
Print Assumptions C11_vd_cov_quad.

Theorem C11_vd_cov_pd_iff :
  forall sq ex pw D v, length v = length D ->
  (posdef sq ex pw (length D) (vd_cov (QO sq ex pw) D v) <-> Forall (fun d => ~ d == 0) D).
Proof. intros sq ex pw D v L. split; [apply vd_cov_pd_conv; exact L|apply vd_cov_pd; exact L]. Qed.
Print Assumptions C11_vd_cov_pd_iff.

Theorem C11_vd_cov_sym :
  forall sq ex pw D v, length v = length D -> msym sq ex pw (vd_cov (QO sq ex pw) D v).
Proof. exact vd_cov_sym. Qed.
Print Assumptions C11_vd_cov_sym.

(* ---- the hypotheses are satisfiable (Q) *)
Example C11_corner_example :
  let C' := cov_update (QO idq idq pw0) 2 (1#5) (4#5) 0 1 I2 [0; 0] [1#2; 1#2] [[1; 0]; [1; 1]] in
  spans idq idq pw0 2 (corner_gens (1#5) [0; 0] [[1; 0]; [1; 1]]) /\ posdef idq idq pw0 2 C'.
Proof.
  destruct C11_identity_is_spd as (A & B & C).
  assert (spans idq idq pw0 2 (corner_gens (1#5) [0; 0] [[1; 0]; [1; 1]])) as S.
  { intros x L N. destruct x as [|a [|b [|c x]]]; try discriminate. unfold corner_gens. cbn.
    destruct (Qeq_dec a 0) as [Ea|Ea].
    - exists [1; 1]. split; [auto|]. cbn. intro Z. apply N. repeat constructor; auto. lra.
    - exists [1; 0]. split; [auto|]. cbn. intro Z. apply Ea. lra. }
  split; auto. apply C11_cov_update_corner_pd_iff; auto; try lra; repeat constructor; lra.
Qed.

Example C11_vd_example :
  posdef idq idq pw0 2 (vd_cov (QO idq idq pw0) [1; 2] [1; -(1)]) /\
  Forall (fun d => 0 < d) (vd_D_update (QO idq idq pw0) [1; 2] [-(1#2); 3]).
Proof.
  split.
  - apply (C11_vd_cov_pd_iff idq idq pw0 [1; 2] [1; -(1)]); auto. repeat constructor; intro; lra.
  - apply C11_vd_D_update_pos_iff; auto; repeat constructor; lra.
Qed.

(* ================================================================ Cholesky-factor optimizers (over R) *)
From Coq Require Import Lra.
Open Scope R_scope.

Theorem C11_chol_update_spec :
  forall alpha beta cols (v : list R) cols',
  0 < alpha -> wf cols -> dnz cols -> (beta <> 0 -> length v = length cols) ->
  chol_update RO alpha beta cols v = Some cols' ->
  wf cols' /\ length cols' = length cols /\ dnz cols' /\ (dpos cols -> dpos cols') /\
  forall x, length x = length cols ->
    fquad RO cols' x = alpha * fquad RO cols x + beta * (dot RO v x * dot RO v x).
Proof. exact chol_update_spec. Qed.
Print Assumptions C11_chol_update_spec.

Theorem C11_chol_update_succeeds_pos :
  forall alpha beta cols (v : list R),
  0 < alpha -> 0 <= beta -> wf cols -> dnz cols -> (beta <> 0 -> length v = length cols) ->
  exists cols', chol_update RO alpha beta cols v = Some cols'.
Proof. exact chol_update_ok_pos. Qed.
Print Assumptions C11_chol_update_succeeds_pos.

Theorem C11_chol_update_downdate :
  forall alpha beta cols (z : list R),
  0 < alpha -> beta < 0 -> wf cols -> dnz cols -> length z = length cols ->
  0 < alpha + beta * sumsq z ->
  exists cols', chol_update RO alpha beta cols (lmulz RO cols z) = Some cols' /\
                detsq cols' = alpha ^ length cols * detsq cols * (1 + beta / alpha * sumsq z).
Proof. exact chol_update_ok_neg. Qed.
Print Assumptions C11_chol_update_downdate.

(* a factor with non-zero diagonal represents a positive definite covariance *)
Theorem C11_factor_nonsingular_pd :
  forall cols x, wf cols -> dnz cols -> length x = length cols -> rnonzero x -> 0 < fquad RO cols x.
Proof. exact fquad_pos. Qed.
Print Assumptions C11_factor_nonsingular_pd.

Theorem C11_cmsa_update_keeps_spd :
  forall (n mu : nat) cC cols (offspring : list (R * (list R * (list R * R)))),
  1 < cC -> (0 < mu)%nat -> offspring <> [] ->
  wf cols -> dpos cols -> length cols = n ->
  Forall (fun i => length (fst (snd (snd i))) = n /\ 0 < snd (snd (snd i))) offspring ->
  exists m s cols', cmsa_update RO n mu cC cols offspring = Some (m, s, cols') /\
    0 < s /\ wf cols' /\ length cols' = n /\ dpos cols' /\
    (forall x, length x = n -> rnonzero x -> 0 < fquad RO cols' x) /\
    (forall x, length x = n ->
       fquad RO cols' x = (1 - 1 / cC) * fquad RO cols x + 1 / INR mu * 1 / cC *
          sumf (map (fun i => fst (snd (snd i))) (select RO mu offspring)) (fun y => dot RO y x * dot RO y x)).
Proof. exact cmsa_update_ok. Qed.
Print Assumptions C11_cmsa_update_keeps_spd.

Theorem C11_cmsa_cC_gt_1 :
  forall n mu : nat, (0 < n)%nat -> (0 < mu)%nat -> 1 < 1 + (INR n * (INR n + 1)) / (2 * INR mu).
Proof. exact cmsa_cC_gt_1. Qed.
Print Assumptions C11_cmsa_cC_gt_1.

Theorem C11_cmsa_corner_cC_1 :
  forall cols, exists cols0, chol_update RO (1 - 1 / 1) 0 cols [] = Some cols0 /\ forall x, fquad RO cols0 x = 0.
Proof. exact cmsa_corner_cC_1. Qed.
Print Assumptions C11_cmsa_corner_cC_1.

Theorem C11_chrom_sigma_pos :
  forall k sigma psucc, 0 < sigma -> 0 < chrom_sigma RO k sigma psucc.
Proof. exact chrom_sigma_pos. Qed.
Print Assumptions C11_chrom_sigma_pos.

Theorem C11_active_rate_guard :
  forall cu zz, 0 < cu -> 0 <= zz -> let r := active_rate RO cu zz in 0 < r /\ r * (zz - 1) < 1.
Proof. exact active_rate_ok. Qed.
Print Assumptions C11_active_rate_guard.

Theorem C11_chrom_offspring_update :
  forall k n c, chrom_consts_ok k -> chrom_ok n c ->
  exists c', chrom_offspring RO k c = Some c' /\ chrom_good n c' /\
    forall x, length x = n ->
      fquad RO (h_L c') x =
        (if Rltb (h_psucc c') (q_pthresh k) then 1 - q_ccov k else 1 - q_ccov k + q_cc k * (2 - q_cc k))
          * fquad RO (h_L c) x
        + q_ccov k * (dot RO (h_pc c') x * dot RO (h_pc c') x).
Proof. exact chrom_offspring_ok. Qed.
Print Assumptions C11_chrom_offspring_update.

Theorem C11_chrom_parent_update :
  forall k n s c, chrom_consts_ok k -> chrom_ok n c ->
  exists c', chrom_parent RO k s c = Some c' /\ chrom_good n c' /\
    (s <> Failure -> h_L c' = h_L c) /\
    (s = Failure -> forall x, length x = n ->
       fquad RO (h_L c') x =
         if Rltb (h_psucc c') (q_pthresh k)
         then let r := active_rate RO (q_cu k) (normsqr RO (h_z c)) in
              (1 + r) * fquad RO (h_L c) x - r * (dot RO (h_step c) x * dot RO (h_step c) x)
         else (1 - q_ccov k + q_cc k * (2 - q_cc k)) * fquad RO (h_L c) x
              + q_ccov k * (dot RO (h_pc c') x * dot RO (h_pc c') x)) /\
    (s = Failure -> Rltb (h_psucc c') (q_pthresh k) = true ->
       let r := active_rate RO (q_cu k) (normsqr RO (h_z c)) in
       detsq (h_L c') = (1 + r) ^ n * detsq (h_L c) * (1 - r / (1 + r) * normsqr RO (h_z c))).
Proof. exact chrom_parent_ok. Qed.
Print Assumptions C11_chrom_parent_update.

Theorem C11_ecma_chrom_step_keeps_spd :
  forall k n active anc pen c, chrom_consts_ok k -> chrom_ok n c ->
  exists c', ecma_chrom_step RO k active anc pen c = Some c' /\ chrom_good n c'.
Proof. exact ecma_chrom_step_ok. Qed.
Print Assumptions C11_ecma_chrom_step_keeps_spd.

Theorem C11_vd_sample_covariance :
  forall mean sigma D vn normv (z : list R),
  length z = length vn -> dot RO vn vn = 1 ->
  let r := vd_sample RO mean sigma D vn normv z in
  fst r = vadd RO mean (vmul RO (vscale RO sigma D) (snd r)) /\
  snd r = vadd RO z (vscale RO ((sqrt (1 + normv * normv) - 1) * dot RO z vn) vn) /\
  normsqr RO (snd r) = normsqr RO z + dot RO (vscale RO normv vn) z * dot RO (vscale RO normv vn) z.
Proof. exact vd_sample_spec. Qed.
Print Assumptions C11_vd_sample_covariance.

(* ---- the hypotheses are satisfiable (R):  L = [[2,0],[1,1]] as trailing columns *)
Definition L2 : list (list R) := [[2; 1]; [1]].
Definition k2 : chrom_consts R := mkCC (1/10) 2 (2/11) (1/2) (1/5) (1/10) (11/25).
Definition c2 : chrom R := mkChrom L2 [0; 0] (lmulz RO L2 [1; 1]) [1; 1] 1 (2/11).

Example C11_L2_is_factor : wf L2 /\ dpos L2.
Proof. split; [cbn; auto|]. repeat constructor; cbn; lra. Qed.

Example C11_chrom_example :
  chrom_consts_ok k2 /\ chrom_ok 2 c2 /\
  exists c', ecma_chrom_step RO k2 true [1; 1; 1; 1; 1] 2 c2 = Some c' /\ chrom_good 2 c'.
Proof.
  destruct C11_L2_is_factor as (W & D).
  assert (chrom_consts_ok k2) as K by (unfold chrom_consts_ok, k2; cbn; repeat split; lra).
  assert (chrom_ok 2 c2) as Ok by (unfold chrom_ok, c2; cbn [h_L h_pc h_z h_step h_sigma]; repeat split; auto; lra).
  split; auto. split; auto. apply C11_ecma_chrom_step_keeps_spd; auto.
Qed.

Example C11_cmsa_example :
  exists m s cols', cmsa_update RO 2 1 2 L2 [(3, ([0; 0], ([1; 0], 1))); (1, ([1; 1], ([0; 1], 1/2)))] = Some (m, s, cols') /\
                    0 < s /\ dpos cols'.
Proof.
  destruct C11_L2_is_factor as (W & D).
  destruct (C11_cmsa_update_keeps_spd 2 1 2 L2 [(3, ([0; 0], ([1; 0], 1))); (1, ([1; 1], ([0; 1], 1/2)))]) as (m & s & c & H & Hs & _ & _ & Hd & _);
    auto; try lra; try discriminate.
  - repeat constructor; cbn; lra.
  - exists m, s, c. auto.
Qed.

Example C11_downdate_example :
  exists cols', chol_update RO 1 (-(1/2)) L2 (lmulz RO L2 [1; 0]) = Some cols' /\
                detsq cols' = 1 ^ 2 * detsq L2 * (1 + -(1/2) / 1 * sumsq [1; 0]).
Proof.
  destruct C11_L2_is_factor as (W & D).
  apply C11_chol_update_downdate; auto; try lra; try (apply dpos_dnz; auto). cbn. lra.
Qed.
