(* C13 — the model of fastNonDominatedSort (FastNonDominatedSort.h: domination counts, dominated-by
   lists, front peeling) computes the rank definition:
       forall d S, same_dim d S -> fast_nds S = rank_list S.
   Axiom-free (lists, nat).  Structure:
     1. generic list facts (filter lengths, occurrence counts);
     2. effect of a run of decrements `fold_left (dec_one fc) L st` in terms of occurrence counts;
     3. facts about the true ranks (bounded by |S|, downward closed);
     4. the loop invariant of `peel` (after the fronts 1..k were found: rk holds the true rank of the
        points of rank <= k and 0 elsewhere, cnt j = number of dominators of j of rank >= k, front =
        the points of rank k), its preservation, the initial state, and the fuel argument. *)
From Coq Require Import List ZArith Lia Bool Arith Permutation.
From SharkV Require Import ListAux C13Model C13Proofs.
Import ListNotations.

(* ========================================================================================== *)
(* 1. generic list facts *)

Lemma fold_left_flat_map {A B C} (f : A -> B -> A) (g : C -> list B) (l : list C) : forall a,
  fold_left (fun st e => fold_left f (g e) st) l a = fold_left f (flat_map g l) a.
Proof.
  induction l as [|e l IH]; intros a; cbn [fold_left flat_map]; [reflexivity|].
  rewrite fold_left_app. apply IH.
Qed.

Lemma filter_len_pos {A} (f : A -> bool) l :
  0 < length (filter f l) <-> exists x, In x l /\ f x = true.
Proof.
  split.
  - intros H. destruct (filter f l) as [|x t] eqn:E; [simpl in H; lia|].
    exists x. apply filter_In. rewrite E. simpl; auto.
  - intros [x Hx]. apply filter_In in Hx. destruct (filter f l); [destruct Hx|simpl; lia].
Qed.

Lemma filter_len_zero {A} (f : A -> bool) l :
  length (filter f l) = 0 <-> forall x, In x l -> f x = false.
Proof.
  split.
  - intros H x Hx. destruct (f x) eqn:E; auto.
    assert (0 < length (filter f l)) by (apply filter_len_pos; eauto). lia.
  - intros H. destruct (filter f l) as [|x t] eqn:E; auto.
    assert (In x (filter f l)) as Hx by (rewrite E; simpl; auto).
    apply filter_In in Hx. destruct Hx as [Hx Fx]. rewrite H in Fx; auto. discriminate.
Qed.

Lemma filter_len_split {A} (f g h : A -> bool) l :
  (forall x, In x l -> f x = g x || h x) -> (forall x, In x l -> g x && h x = false) ->
  length (filter f l) = length (filter g l) + length (filter h l).
Proof.
  induction l as [|a l IH]; intros H1 H2; [reflexivity|].
  cbn [filter]. specialize (IH (fun x Hx => H1 x (or_intror Hx)) (fun x Hx => H2 x (or_intror Hx))).
  pose proof (H1 a (or_introl eq_refl)) as E1. pose proof (H2 a (or_introl eq_refl)) as E2.
  destruct (f a), (g a), (h a); simpl in *; try discriminate; lia.
Qed.

Lemma filter_len_NoDup_ext (f g : nat -> bool) l l' :
  NoDup l -> NoDup l' -> (forall x, In x l /\ f x = true <-> In x l' /\ g x = true) ->
  length (filter f l) = length (filter g l').
Proof.
  intros N N' H. apply Permutation_length. apply NoDup_Permutation.
  - now apply NoDup_filter.
  - now apply NoDup_filter.
  - intros x. rewrite !filter_In. apply H.
Qed.

(* occurrence counts *)
Definition occ (L : list nat) (j : nat) : nat := count_occ Nat.eq_dec L j.

Lemma occ_nil j : occ [] j = 0.
Proof. reflexivity. Qed.

Lemma occ_cons a L j : occ (a :: L) j = (if a =? j then 1 else 0) + occ L j.
Proof.
  unfold occ. destruct (Nat.eqb_spec a j) as [E|E].
  - rewrite count_occ_cons_eq by auto. reflexivity.
  - rewrite count_occ_cons_neq by auto. reflexivity.
Qed.

Lemma occ_app L L' j : occ (L ++ L') j = occ L j + occ L' j.
Proof. apply count_occ_app. Qed.

Lemma occ_notin L j : ~ In j L -> occ L j = 0.
Proof. intros H. now apply count_occ_not_In. Qed.

Lemma occ_NoDup_in L j : NoDup L -> In j L -> occ L j = 1.
Proof.
  intros N H. pose proof (proj1 (NoDup_count_occ Nat.eq_dec L) N j) as H1.
  pose proof (proj1 (count_occ_In Nat.eq_dec L j) H) as H2. unfold occ. lia.
Qed.

Lemma occ_pos_in L j : 0 < occ L j -> In j L.
Proof. intros H. apply (count_occ_In Nat.eq_dec). unfold occ in H. lia. Qed.

(* ========================================================================================== *)
(* 2. a run of decrements *)

(* j is decremented by L down to exactly zero *)
Definition hit (L : list nat) (cnt : list nat) (j : nat) : Prop :=
  0 < occ L j /\ nth j cnt 0 = occ L j.

Lemma fold_dec_spec fc : forall L st,
  (forall j, In j L -> j < length (f_cnt st)) ->
  length (f_rk st) = length (f_cnt st) ->
  (forall j, occ L j <= nth j (f_cnt st) 0) ->
  length (f_cnt (fold_left (dec_one fc) L st)) = length (f_cnt st) /\
  length (f_rk (fold_left (dec_one fc) L st)) = length (f_cnt st) /\
  (forall j, nth j (f_cnt (fold_left (dec_one fc) L st)) 0 = nth j (f_cnt st) 0 - occ L j) /\
  (forall j, hit L (f_cnt st) j -> nth j (f_rk (fold_left (dec_one fc) L st)) 0 = fc) /\
  (forall j, ~ hit L (f_cnt st) j ->
             nth j (f_rk (fold_left (dec_one fc) L st)) 0 = nth j (f_rk st) 0) /\
  exists NL, f_next (fold_left (dec_one fc) L st) = f_next st ++ NL /\ NoDup NL /\
             forall j, In j NL <-> hit L (f_cnt st) j.
Proof.
  induction L as [|a L IH]; intros st Hin Hlen Hocc; cbn [fold_left].
  - split; [reflexivity|]. split; [exact Hlen|]. split; [intros j; rewrite occ_nil; lia|].
    split; [intros j [Hj _]; rewrite occ_nil in Hj; lia|]. split; [reflexivity|].
    exists []. split; [now rewrite app_nil_r|]. split; [constructor|].
    intros j; split; [intros []|intros [Hj _]; rewrite occ_nil in Hj; lia].
  - destruct st as [cnt rk next]. cbn [f_cnt f_rk f_next] in *.
    assert (Ha : a < length cnt) by (apply Hin; simpl; auto).
    pose proof (Hocc a) as Hoa. rewrite occ_cons, Nat.eqb_refl in Hoa.
    set (ca := nth a cnt 0) in *.
    set (st1 := dec_one fc {| f_cnt := cnt; f_rk := rk; f_next := next |} a).
    assert (Ecnt : f_cnt st1 = upd a (ca - 1) cnt).
    { unfold st1, dec_one. cbn [f_cnt f_rk f_next]. fold ca. rewrite <- Nat.sub_1_r.
      destruct (ca - 1 =? 0); reflexivity. }
    assert (Hn1 : forall j, nth j (f_cnt st1) 0 = if a =? j then ca - 1 else nth j cnt 0).
    { intros j. rewrite Ecnt, nth_upd. apply Nat.ltb_lt in Ha. rewrite Ha, andb_true_r. reflexivity. }
    assert (Hcase : (ca = 1 /\ occ L a = 0 /\ f_rk st1 = upd a fc rk /\ f_next st1 = next ++ [a]) \/
                    (2 <= ca /\ f_rk st1 = rk /\ f_next st1 = next)).
    { unfold st1, dec_one. cbn [f_cnt f_rk f_next]. fold ca. rewrite <- Nat.sub_1_r.
      destruct (Nat.eqb_spec (ca - 1) 0) as [E|E]; cbn [f_cnt f_rk f_next]; [left|right].
      - repeat split; lia.
      - repeat split; lia. }
    assert (Hlen1 : length (f_rk st1) = length (f_cnt st1)).
    { rewrite Ecnt, upd_length. destruct Hcase as [(_ & _ & -> & _)|(_ & -> & _)]; rewrite ?upd_length; auto. }
    assert (Hin1 : forall j, In j L -> j < length (f_cnt st1)).
    { intros j Hj. rewrite Ecnt, upd_length. apply Hin. simpl; auto. }
    assert (Hocc1 : forall j, occ L j <= nth j (f_cnt st1) 0).
    { intros j. rewrite Hn1. pose proof (Hocc j) as Hj. rewrite occ_cons in Hj.
      destruct (Nat.eqb_spec a j) as [Eaj|Hne]; [subst j; fold ca in Hj|]; lia. }
    destruct (IH st1 Hin1 Hlen1 Hocc1) as (I1 & I2 & I3 & I4 & I5 & NL & I6 & I7 & I8).
    assert (Hhit : forall j, hit (a :: L) cnt j <-> (j = a /\ ca = 1) \/ hit L (f_cnt st1) j).
    { intros j. unfold hit. rewrite occ_cons, Hn1. pose proof (Hocc1 j) as Hj. rewrite Hn1 in Hj.
      destruct (Nat.eqb_spec a j) as [Eaj|Hne]; [subst j; fold ca|]; lia. }
    split; [rewrite I1, Ecnt, upd_length; reflexivity|].
    split; [rewrite I2, Ecnt, upd_length; reflexivity|].
    split.
    { intros j. rewrite I3, Hn1, occ_cons. destruct (Nat.eqb_spec a j) as [Eaj|Hne]; [subst j; fold ca|]; lia. }
    split; [|split].
    + intros j Hj. apply Hhit in Hj. destruct Hj as [[-> Hc]|Hj]; [|now apply I4].
      destruct Hcase as [(_ & Hz & Erk & _)|(Hc2 & _)]; [|lia].
      rewrite I5.
      * rewrite Erk. apply nth_upd_eq. lia.
      * intros [Hp _]. lia.
    + intros j Hj. rewrite I5 by (intros Hh; apply Hj, Hhit; auto).
      destruct Hcase as [(Hc & _ & Erk & _)|(_ & -> & _)]; [|reflexivity].
      rewrite Erk. apply nth_upd_neq. intros <-. apply Hj, Hhit. auto.
    + destruct Hcase as [(Hc & Hz & _ & Enx)|(Hc2 & _ & Enx)].
      * exists (a :: NL). split; [rewrite I6, Enx, <- app_assoc; reflexivity|]. split.
        -- constructor; auto. intros Hi. apply I8 in Hi. destruct Hi as [Hp _]. lia.
        -- intros j. rewrite Hhit. simpl. rewrite I8. intuition.
      * exists NL. split; [rewrite I6, Enx; reflexivity|]. split; auto.
        intros j. rewrite Hhit, I8. intuition lia.
Qed.

(* ========================================================================================== *)
(* 3. true ranks *)

Definition rk_of (X : list point) (i : nat) : nat := nth i (rank_list X) 0.
Definition Dm (X : list point) (j i : nat) : bool := domb (nth j X []) (nth i X []).

(* number of dominators of i whose rank is >= k, resp. = k *)
Definition cntk (X : list point) (k i : nat) : nat :=
  length (filter (fun j => Dm X j i && (k <=? rk_of X j)) (seq 0 (length X))).
Definition hitk (X : list point) (k i : nat) : nat :=
  length (filter (fun j => Dm X j i && (rk_of X j =? k)) (seq 0 (length X))).

Lemma rhs_dominates_domb a b :
  match dominance a b with RhsDominates => true | _ => false end = domb b a.
Proof.
  unfold domb, dominance.
  destruct (0 <? count_lt a b), (0 <? count_lt b a); reflexivity.
Qed.

Lemma cntk_split X k i : cntk X k i = hitk X k i + cntk X (S k) i.
Proof.
  unfold cntk, hitk. apply filter_len_split; intros j _; destruct (Dm X j i); cbn [andb orb]; auto.
  - destruct (Nat.leb_spec k (rk_of X j)), (Nat.eqb_spec (rk_of X j) k), (Nat.leb_spec (S k) (rk_of X j));
      try reflexivity; lia.
  - destruct (Nat.eqb_spec (rk_of X j) k), (Nat.leb_spec (S k) (rk_of X j)); try reflexivity; lia.
Qed.

Lemma dominated_by_In X e j : In j (dominated_by X e) <-> j < length X /\ Dm X e j = true.
Proof.
  unfold dominated_by, Dm. rewrite filter_In, in_seq. split.
  - intros [Hj Hb]. apply andb_prop in Hb. split; [lia|tauto].
  - intros [Hj Hb]. split; [lia|]. rewrite Hb, andb_true_r.
    destruct (Nat.eqb_spec e j) as [->|Hne]; auto. rewrite domb_irrefl in Hb. discriminate.
Qed.

Lemma dominated_by_NoDup X e : NoDup (dominated_by X e).
Proof. apply NoDup_filter, seq_NoDup. Qed.

Lemma occ_flat_dominated X front j : j < length X ->
  occ (flat_map (dominated_by X) front) j = length (filter (fun e => Dm X e j) front).
Proof.
  intros Hj. induction front as [|e front IH]; [reflexivity|].
  cbn [flat_map filter]. rewrite occ_app, IH. destruct (Dm X e j) eqn:E.
  - rewrite (occ_NoDup_in _ _ (dominated_by_NoDup X e)) by (apply dominated_by_In; auto). reflexivity.
  - rewrite occ_notin; [reflexivity|]. intros Hi. apply dominated_by_In in Hi. destruct Hi as [_ Hi]. congruence.
Qed.

Lemma ndominating_eq X i :
  ndominating X i = length (filter (fun j => Dm X j i) (seq 0 (length X))).
Proof.
  unfold ndominating. f_equal. apply filter_ext_in. intros j _.
  rewrite rhs_dominates_domb. fold (Dm X j i). destruct (Dm X j i) eqn:E; [|apply andb_false_r].
  rewrite andb_true_r. destruct (Nat.eqb_spec i j) as [->|Hne]; auto.
  unfold Dm in E. rewrite domb_irrefl in E. discriminate.
Qed.

Section Fast.
Variable d : nat.
Variable X : list point.
Hypothesis SD : same_dim d X.
Local Notation n := (length X).
Local Notation r := (rk_of X).
Local Notation D := (Dm X).

Lemma r_facts i : i < n ->
  1 <= r i /\
  (forall j, j < n -> D j i = true -> r j < r i) /\
  (1 < r i -> exists j, j < n /\ D j i = true /\ S (r j) = r i) /\
  (r i = 1 <-> forall j, j < n -> D j i = false).
Proof. intros Hi. exact (rank_fronts_consistent X _ (rank_list_is_rank d X SD) i Hi). Qed.

Lemma rank_list_length : length (rank_list X) = n.
Proof. exact (proj1 (rank_list_is_rank d X SD)). Qed.

(* ranks are bounded by the number of points *)
Lemma r_le_ndom : forall m i, i < n -> ndom X i < m -> r i <= m.
Proof.
  induction m as [|m IH]; intros i Hi Hm; [lia|].
  destruct (r_facts i Hi) as (H1 & _ & H3 & _).
  destruct (Nat.le_gt_cases (r i) 1) as [Hle|Hgt]; [lia|].
  destruct (H3 Hgt) as (j & Hj & Hd & Hr).
  pose proof (ndom_decreases d X i j SD Hi Hj Hd) as Hdec.
  specialize (IH j Hj ltac:(lia)). lia.
Qed.

Lemma r_le_n i : i < n -> r i <= n.
Proof. intros Hi. apply r_le_ndom; auto. now apply ndom_lt_length. Qed.

(* ranks are downward closed: an empty front k means that there is no point of rank >= k *)
Lemma no_rank_above k : 1 <= k -> (forall e, e < n -> r e <> k) -> forall i, i < n -> r i < k.
Proof.
  intros Hk Hno.
  assert (K : forall m i, i < n -> r i <> k + m).
  { induction m as [|m IH]; intros i Hi E.
    - apply (Hno i Hi). lia.
    - destruct (r_facts i Hi) as (_ & _ & H3 & _).
      destruct (H3 ltac:(lia)) as (j & Hj & _ & Hr). apply (IH j Hj). lia. }
  intros i Hi. destruct (Nat.lt_ge_cases (r i) k) as [|Hge]; auto.
  exfalso. apply (K (r i - k) i Hi). lia.
Qed.

(* the points of rank k+1 are those that have a dominator of rank k and none of rank > k *)
Lemma rank_next_iff k j : 1 <= k -> j < n ->
  (r j = S k <-> 0 < hitk X k j /\ cntk X (S k) j = 0).
Proof.
  intros Hk Hj. destruct (r_facts j Hj) as (H1 & H2 & H3 & _). unfold hitk, cntk.
  rewrite filter_len_pos, filter_len_zero. split.
  - intros E. split.
    + destruct (H3 ltac:(lia)) as (e & He & Hd & Hr). exists e. split; [apply in_seq; lia|].
      rewrite Hd. cbn [andb]. apply Nat.eqb_eq. lia.
    + intros x Hx. apply in_seq in Hx. destruct (D x j) eqn:Hd; auto. cbn [andb].
      pose proof (H2 x ltac:(lia) Hd). apply Nat.leb_gt. lia.
  - intros [(e & He & Hb) Hz]. apply in_seq in He. apply andb_prop in Hb. destruct Hb as [Hd Hr].
    apply Nat.eqb_eq in Hr. pose proof (H2 e ltac:(lia) Hd) as Hlt.
    destruct (Nat.eq_dec (r j) (S k)) as [|Hne]; auto. exfalso.
    destruct (H3 ltac:(lia)) as (x & Hx & Hdx & Hrx).
    specialize (Hz x ltac:(apply in_seq; lia)). rewrite Hdx in Hz. cbn [andb] in Hz.
    apply Nat.leb_gt in Hz. lia.
Qed.

(* ========================================================================================== *)
(* 4. the loop invariant *)

Definition Inv (k : nat) (front cnt rk : list nat) : Prop :=
  length cnt = n /\ length rk = n /\
  NoDup front /\ (forall e, In e front <-> e < n /\ r e = k) /\
  (forall i, i < n -> nth i cnt 0 = cntk X k i) /\
  (forall i, i < n -> nth i rk 0 = if r i <=? k then r i else 0).

Lemma occ_front k front j : NoDup front -> (forall e, In e front <-> e < n /\ r e = k) -> j < n ->
  occ (flat_map (dominated_by X) front) j = hitk X k j.
Proof.
  intros ND HF Hj. rewrite occ_flat_dominated by auto. unfold hitk.
  apply filter_len_NoDup_ext; auto using seq_NoDup.
  intros x. rewrite HF, in_seq, andb_true_iff, Nat.eqb_eq. intuition lia.
Qed.

Lemma step_inv k front cnt rk : 1 <= k -> Inv k front cnt rk ->
  Inv (S k) (f_next (process_front X (S k) front {| f_cnt := cnt; f_rk := rk; f_next := [] |}))
            (f_cnt (process_front X (S k) front {| f_cnt := cnt; f_rk := rk; f_next := [] |}))
            (f_rk (process_front X (S k) front {| f_cnt := cnt; f_rk := rk; f_next := [] |})).
Proof.
  intros Hk (Lc & Lr & ND & HF & Hc & Hr).
  unfold process_front. rewrite fold_left_flat_map.
  set (L := flat_map (dominated_by X) front).
  set (st := {| f_cnt := cnt; f_rk := rk; f_next := [] |}).
  assert (HL : forall j, In j L -> j < n).
  { intros j Hj. unfold L in Hj. apply in_flat_map in Hj. destruct Hj as (e & _ & Hj).
    apply dominated_by_In in Hj. tauto. }
  assert (Hocc : forall j, j < n -> occ L j = hitk X k j) by (intros j Hj; now apply (occ_front k)).
  assert (Hocc0 : forall j, n <= j -> occ L j = 0).
  { intros j Hj. apply occ_notin. intros Hi. apply HL in Hi. lia. }
  destruct (fold_dec_spec (S k) L st) as (I1 & I2 & I3 & I4 & I5 & NL & I6 & I7 & I8);
    cbn [st f_cnt f_rk f_next].
  { intros j Hj. rewrite Lc. auto. }
  { congruence. }
  { intros j. destruct (Nat.lt_ge_cases j n) as [Hj|Hj].
    - rewrite Hocc, Hc, cntk_split by auto. lia.
    - rewrite Hocc0 by auto. lia. }
  cbn [st f_cnt f_rk f_next app] in *.
  assert (Hhit : forall j, hit L cnt j <-> j < n /\ r j = S k).
  { intros j. unfold hit. destruct (Nat.lt_ge_cases j n) as [Hj|Hj].
    - rewrite (rank_next_iff k j Hk Hj), Hocc, Hc by auto. rewrite (cntk_split X k j). lia.
    - rewrite Hocc0 by auto. lia. }
  unfold Inv. split; [congruence|]. split; [congruence|]. split; [rewrite I6; exact I7|].
  split; [intros e; rewrite I6, I8; apply Hhit|]. split.
  - intros i Hi. rewrite I3, Hc, Hocc, (cntk_split X k i) by auto. lia.
  - intros i Hi. destruct (Nat.eq_dec (r i) (S k)) as [E|E].
    + rewrite I4 by (apply Hhit; auto). rewrite E, Nat.leb_refl. reflexivity.
    + rewrite I5 by (rewrite Hhit; tauto). rewrite Hr by auto.
      destruct (Nat.leb_spec (r i) k), (Nat.leb_spec (r i) (S k)); try reflexivity; lia.
Qed.

Lemma inv_done k front cnt rk : Inv k front cnt rk -> (forall i, i < n -> r i <= k) ->
  rk = rank_list X.
Proof.
  intros (_ & Lr & _ & _ & _ & Hr) Hall.
  apply (nth_ext _ _ 0 0); [rewrite rank_list_length; exact Lr|].
  intros i Hi. rewrite Lr in Hi. rewrite Hr by auto.
  pose proof (Hall i Hi) as Hle. apply Nat.leb_le in Hle. rewrite Hle. reflexivity.
Qed.

Lemma peel_correct : forall fuel k front cnt rk,
  1 <= k -> Inv k front cnt rk -> n + 2 <= fuel + k ->
  peel fuel X (S k) front cnt rk = rank_list X.
Proof.
  induction fuel as [|fuel IH]; intros k front cnt rk Hk HI Hf; cbn [peel].
  - apply (inv_done k front cnt rk HI). intros i Hi. pose proof (r_le_n i Hi). lia.
  - destruct front as [|e front'] eqn:Efront.
    + apply (inv_done k [] cnt rk HI). intros i Hi.
      destruct HI as (_ & _ & _ & HF & _).
      assert (r i < k); [|lia]. apply no_rank_above; auto.
      intros x Hx E. apply (proj2 (HF x)); auto.
    + rewrite <- Efront in *. apply IH; [lia| |lia]. now apply step_inv.
Qed.

Lemma init_inv :
  Inv 1 (filter (fun i => nth i (map (ndominating X) (seq 0 n)) 0 =? 0) (seq 0 n))
        (map (ndominating X) (seq 0 n))
        (map (fun c => if c =? 0 then 1 else 0) (map (ndominating X) (seq 0 n))).
Proof.
  set (cnt := map (ndominating X) (seq 0 n)).
  assert (Lc : length cnt = n) by (unfold cnt; now rewrite map_length, seq_length).
  assert (Hc : forall i, i < n -> nth i cnt 0 = cntk X 1 i).
  { intros i Hi. unfold cnt. rewrite (nth_indep _ 0 (ndominating X 0)) by (now rewrite map_length, seq_length).
    rewrite map_nth, seq_nth by auto. cbn [Nat.add]. rewrite ndominating_eq. unfold cntk.
    f_equal. apply filter_ext_in. intros j Hj. apply in_seq in Hj.
    destruct (r_facts j ltac:(lia)) as (H1 & _). apply Nat.leb_le in H1. rewrite H1, andb_true_r. reflexivity. }
  assert (Hz : forall i, i < n -> (nth i cnt 0 = 0 <-> r i = 1)).
  { intros i Hi. rewrite Hc by auto. destruct (r_facts i Hi) as (H1 & _ & _ & H4). rewrite H4.
    unfold cntk. rewrite filter_len_zero. split.
    - intros H j Hj. specialize (H j ltac:(apply in_seq; lia)).
      destruct (r_facts j Hj) as (Hj1 & _). apply Nat.leb_le in Hj1. rewrite Hj1, andb_true_r in H. exact H.
    - intros H j Hj. apply in_seq in Hj. rewrite H by lia. reflexivity. }
  unfold Inv. split; [exact Lc|]. split; [now rewrite map_length|].
  split; [apply NoDup_filter, seq_NoDup|]. split; [|split].
  - intros e. rewrite filter_In, in_seq, Nat.eqb_eq. split.
    + intros [He Hze]. split; [lia|]. apply Hz; auto; lia.
    + intros [He Hr]. split; [lia|]. apply Hz; auto.
  - exact Hc.
  - intros i Hi.
    rewrite (nth_indep _ 0 ((fun c => if c =? 0 then 1 else 0) 0)) by (now rewrite map_length, Lc).
    rewrite (map_nth (fun c => if c =? 0 then 1 else 0) cnt 0 i).
    destruct (r_facts i Hi) as (H1 & _).
    destruct (Nat.eqb_spec (nth i cnt 0) 0) as [E|E].
    + apply Hz in E; auto. rewrite E. reflexivity.
    + destruct (Nat.leb_spec (r i) 1) as [Hle|]; auto. exfalso. apply E, Hz; auto. lia.
Qed.

Theorem fast_nds_rank_list_sec : fast_nds X = rank_list X.
Proof.
  unfold fast_nds. apply (peel_correct (S n) 1); [lia|apply init_inv|lia].
Qed.

End Fast.

(* ========================================================================================== *)
(* main theorems *)

Theorem fast_nds_eq_rank_list : forall d S, same_dim d S -> fast_nds S = rank_list S.
Proof. intros d S SD. exact (fast_nds_rank_list_sec d S SD). Qed.
Print Assumptions fast_nds_eq_rank_list.

Theorem fast_nds_is_rank : forall d S, same_dim d S -> is_rank_assignment S (fast_nds S).
Proof. intros d S SD. rewrite (fast_nds_eq_rank_list d S SD). now apply (rank_list_is_rank d). Qed.
Print Assumptions fast_nds_is_rank.

(* fast_nds is THE solution of the rank equation: any rank assignment equals it *)
Theorem fast_nds_unique : forall d S r, same_dim d S -> is_rank_assignment S r -> fast_nds S = r.
Proof.
  intros d S r SD H. apply (rank_unique d S); auto. now apply (fast_nds_is_rank d).
Qed.
Print Assumptions fast_nds_unique.

(* the hypothesis is satisfiable and the result is the expected one (ties, duplicates, 3 fronts) *)
Example fast_nds_example :
  same_dim 2 [[1; 5]; [2; 3]; [2; 3]; [4; 4]; [3; 1]; [5; 5]; [1; 5]]%Z /\
  fast_nds [[1; 5]; [2; 3]; [2; 3]; [4; 4]; [3; 1]; [5; 5]; [1; 5]]%Z = [1; 1; 1; 2; 1; 3; 1].
Proof.
  split; [|reflexivity].
  intros p Hp. simpl in Hp. repeat (destruct Hp as [<-|Hp]; [reflexivity|]). destruct Hp.
Qed.

(* the empty set and a chain of n mutually dominating points (rank = n: the fuel bound is tight) *)
Example fast_nds_example_chain :
  same_dim 1 [[3]; [1]; [2]; [4]]%Z /\ fast_nds [[3]; [1]; [2]; [4]]%Z = [3; 1; 2; 4] /\
  fast_nds [] = [].
Proof.
  split; [|split; reflexivity].
  intros p Hp. simpl in Hp. repeat (destruct Hp as [<-|Hp]; [reflexivity|]). destruct Hp.
Qed.
