(* C05 — PointSetKernel (C05Model.k_pset: mean of the base kernel over all pairs of points of two sets) has a finite
   non-negative feature map whenever the base kernel has one: the feature of a set is the mean of the features of its
   points.  Any ordered field; no axioms.  Domain: sets whose points lie in the base domain P and whose cardinality is
   not zero in the field (ofnat (length S) <> 0; in an ordered field with antisymmetric order: S <> []). *)
From Coq Require Import List Arith Bool Field Ring Lia.
From SharkV Require Import C03Model C05Model C05Proofs.
Import ListNotations.

Section PSet.
Variable A : Type.
Variables (zero one : A) (add mul sub div : A -> A -> A) (opp inv : A -> A) (le : A -> A -> Prop).
Hypothesis OF : OrdField zero one add mul sub div opp inv le.

Definition FT3 := of_field _ _ _ _ _ _ _ _ _ OF.
Add Field Fps : FT3.

Notation lsumA := (lsum A zero add).
Notation ofnatA := (ofnat A zero one add).
Notation lsum_ext := (lsum_map_ext A zero add).
Notation lsum_mul_l := (lsum_map_mul_l A zero one add mul sub div opp inv le OF).
Notation lsum_mul_r := (lsum_map_mul_r A zero one add mul sub div opp inv le OF).
Notation lsum_swapA := (lsum_swap A zero one add mul sub div opp inv le OF).
Notation lsum_prodA := (lsum_prod A zero one add mul sub div opp inv le OF).

Variable X : Type.
Notation frepA := (frep A zero add mul X).
Notation GRep := (GramRepOn A zero add mul le).

(* sum of a feature-map kernel over all pairs of two lists *)
Lemma sum_frep (fs : feats A X) (S T : list X) :
  lsumA (map (fun x => lsumA (map (fun z => frepA fs x z) T)) S) =
  lsumA (map (fun wf => mul (fst wf) (mul (lsumA (map (snd wf) S)) (lsumA (map (snd wf) T)))) fs).
Proof.
  transitivity (lsumA (map (fun x => lsumA (map (fun wf => lsumA (map (fun z => mul (fst wf) (mul (snd wf x) (snd wf z))) T)) fs)) S)).
  { apply lsum_ext. intros x _. unfold frep. apply lsum_swapA. }
  rewrite lsum_swapA. apply lsum_ext. intros wf _.
  rewrite lsum_prodA, <- lsum_mul_l. apply lsum_ext. intros x _.
  rewrite <- lsum_mul_l. reflexivity.
Qed.

Definition PSetDom (P : X -> Prop) (S : list X) : Prop := Forall P S /\ ofnatA (length S) <> zero.

End PSet.

Section PSetVec.
Variable A : Type.
Variables (zero one : A) (add mul sub div : A -> A -> A) (opp inv : A -> A) (le : A -> A -> Prop).
Hypothesis OF : OrdField zero one add mul sub div opp inv le.
Definition FT4 := of_field _ _ _ _ _ _ _ _ _ OF.
Add Field Fps2 : FT4.
Notation lsumA := (lsum A zero add).
Notation ofnatA := (ofnat A zero one add).
Notation vec := (list A).
Notation GRep := (GramRepOn A zero add mul le).

Lemma pset_alg w s t nS nT : nS <> zero -> nT <> zero ->
  mul (mul w (mul s t)) (inv (mul nS nT)) = mul w (mul (mul s (inv nS)) (mul t (inv nT))).
Proof. intros. field. auto. Qed.

Theorem gramrep_pset (P : vec -> Prop) (k : vec -> vec -> A) :
  GRep vec P k -> GRep (list vec) (PSetDom A zero one add vec P) (k_pset A zero one add mul div k).
Proof.
  intros (fs & W & E).
  exists (map (fun wf => (fst wf, fun S : list vec => mul (lsumA (map (snd wf) S)) (inv (ofnatA (length S))))) fs). split.
  - rewrite Forall_forall in *. intros wf Hwf. apply in_map_iff in Hwf. destruct Hwf as (w & <- & Hw). simpl. auto.
  - intros S T [HS NS] [HT NT]. unfold C05Model.k_pset.
    rewrite Forall_forall in HS, HT.
    rewrite (lsum_map_ext A zero add _ (fun x => lsumA (map (fun z => frep A zero add mul vec fs x z) T)) S).
    2:{ intros x Hx. apply (lsum_map_ext A zero add). intros z Hz. apply E; auto. }
    rewrite (sum_frep A zero one add mul sub div opp inv le OF vec fs S T).
    unfold frep. rewrite map_map. cbn [fst snd].
    rewrite (Fdiv_def FT4).
    rewrite <- (lsum_map_mul_r A zero one add mul sub div opp inv le OF).
    apply (lsum_map_ext A zero add). intros wf _. apply pset_alg; auto.
Qed.

End PSetVec.
