(* C15 — closed-form trainers: proofs about the Q model (C15Model). *)
From Coq Require Import List Arith Bool QArith Lia Lqa Setoid.
From SharkV Require Import ListAux C03Model C15Model C15Aux.
Import ListNotations.
Open Scope Q_scope.

(* ================= 1. batch-partition independence ================= *)

Lemma mean_lmean {X} (f : X -> Q) (d : @data X) : mean f d == lmean f (elems d).
Proof. unfold mean, lmean. rewrite dsum_elems, count_qlen. reflexivity. Qed.

Lemma var_lvar {X} (f : X -> Q) (d : @data X) : var f d == lvar f (elems d).
Proof.
  unfold var, lvar; cbv zeta. rewrite dsum_elems, count_qlen.
  assert (E : bsum (fun x => (f x - mean f d) * (f x - mean f d)) (elems d) ==
              bsum (fun x => (f x - lmean f (elems d)) * (f x - lmean f (elems d))) (elems d)).
  { apply bsum_ext; intros x. rewrite mean_lmean. reflexivity. }
  rewrite E. reflexivity.
Qed.

Lemma cov_lcov {X} (f g : X -> Q) (d : @data X) : cov f g d == lcov f g (elems d).
Proof.
  unfold cov, lcov; cbv zeta. rewrite dsum_elems, count_qlen.
  assert (E : bsum (fun x => (f x - mean f d) * (g x - mean g d)) (elems d) ==
              bsum (fun x => (f x - lmean f (elems d)) * (g x - lmean g (elems d))) (elems d)).
  { apply bsum_ext; intros x. rewrite !mean_lmean. reflexivity. }
  rewrite E. reflexivity.
Qed.

Lemma meanvar_batch_invariant {X} (f g : X -> Q) (d : @data X) :
  mean f d == lmean f (elems d) /\ var f d == lvar f (elems d) /\ cov f g d == lcov f g (elems d).
Proof. split; [apply mean_lmean|split; [apply var_lvar|apply cov_lcov]]. Qed.

Lemma meanvar_partition_independent {X} (f g : X -> Q) (d1 d2 : @data X) :
  elems d1 = elems d2 -> mean f d1 == mean f d2 /\ var f d1 == var f d2 /\ cov f g d1 == cov f g d2.
Proof.
  intros H. rewrite !mean_lmean, !var_lvar, !cov_lcov, H.
  split; [reflexivity|split; reflexivity].
Qed.

Lemma lr_system_partition_independent d lam (D1 D2 : @data sample) j k c :
  elems D1 = elems D2 -> lr_A d lam D1 j k == lr_A d lam D2 j k /\ lr_T d D1 j c == lr_T d D2 j c.
Proof.
  intros H. unfold lr_A, lr_T. rewrite !dsum_elems. unfold sample in *. rewrite H. split; reflexivity.
Qed.

Lemma var_is_cov {X} (f : X -> Q) (d : @data X) : var f d == cov f f d.
Proof. reflexivity. Qed.

(* ================= 2. NormalizeComponentsUnitVariance ================= *)

Lemma mean_ext {X} (f g : X -> Q) (d : @data X) : (forall x, f x == g x) -> mean f d == mean g d.
Proof. intros H. unfold mean. rewrite (dsum_ext f g d H). reflexivity. Qed.

Lemma var_ext {X} (f g : X -> Q) (d : @data X) : (forall x, f x == g x) -> var f d == var g d.
Proof.
  intros H. unfold var; cbv zeta.
  assert (E : dsum (fun x => (f x - mean f d) * (f x - mean f d)) d ==
              dsum (fun x => (g x - mean g d) * (g x - mean g d)) d).
  { apply dsum_ext; intros x. rewrite (mean_ext f g d H), H. reflexivity. }
  rewrite E. reflexivity.
Qed.

Lemma affine_mean {X} (a b : Q) (f : X -> Q) (d : @data X) : ~ count d == 0 ->
  mean (fun x => a * f x + b) d == a * mean f d + b.
Proof.
  intros Hn. unfold mean.
  rewrite (dsum_plus (fun x => a * f x) (fun _ => b) d), dsum_scal, dsum_const.
  field. exact Hn.
Qed.

Lemma affine_var {X} (a b : Q) (f : X -> Q) (d : @data X) : ~ count d == 0 ->
  var (fun x => a * f x + b) d == a * a * var f d.
Proof.
  intros Hn. unfold var; cbv zeta.
  assert (E : dsum (fun x => (a * f x + b - mean (fun x0 => a * f x0 + b) d) *
                             (a * f x + b - mean (fun x0 => a * f x0 + b) d)) d ==
              dsum (fun x => (a * a) * ((f x - mean f d) * (f x - mean f d))) d).
  { apply dsum_ext; intros x. rewrite (affine_mean a b f d Hn). ring. }
  rewrite E, dsum_scal. field. exact Hn.
Qed.

Lemma uv_params_nz (s m : Q) : ~ s == 0 -> uv_params s m = (1 / s, - m / s).
Proof.
  intros H. unfold uv_params. destruct (Qeq_bool s 0) eqn:E; [|reflexivity].
  apply Qeq_bool_iff in E. contradiction.
Qed.

Lemma unit_variance_correct {X} (f : X -> Q) (d : @data X) (s : Q) :
  ~ count d == 0 -> s * s == var f d -> ~ s == 0 ->
  let p := uv_params s (mean f d) in
  mean (fun x => affine p (f x)) d == 0 /\ var (fun x => affine p (f x)) d == 1 /\
  var (fun x => fst p * f x) d == 1.
Proof.
  intros Hn Hs Hs0 p. subst p. rewrite (uv_params_nz _ _ Hs0). unfold affine; cbn [fst snd].
  split; [|split].
  - rewrite (affine_mean (1 / s) (- mean f d / s) f d Hn). field. exact Hs0.
  - rewrite (affine_var (1 / s) (- mean f d / s) f d Hn), <- Hs. field. exact Hs0.
  - rewrite (var_ext (fun x => 1 / s * f x) (fun x => 1 / s * f x + 0) d) by (intros; ring).
    rewrite (affine_var (1 / s) 0 f d Hn), <- Hs. field. exact Hs0.
Qed.

Lemma unit_variance_constant (s m x : Q) : s == 0 -> affine (uv_params s m) x == 0.
Proof.
  intros H. unfold uv_params. apply Qeq_bool_iff in H. rewrite H.
  unfold affine; cbn [fst snd]. ring.
Qed.

Lemma sq_nonneg (a : Q) : 0 <= a * a.
Proof.
  destruct (Qlt_le_dec a 0).
  - setoid_replace (a * a) with ((- a) * (- a)) by ring. apply Qmult_le_0_compat; lra.
  - apply Qmult_le_0_compat; lra.
Qed.

Lemma sq_zero (a : Q) : a * a == 0 -> a == 0.
Proof.
  intros H. destruct (Qeq_dec a 0) as [E|E]; [exact E|].
  apply Qmult_integral in H. destruct H; exact H.
Qed.

Lemma bsum_sq_zero {X} (g : X -> Q) l :
  bsum (fun x => g x * g x) l == 0 -> forall x, In x l -> g x == 0.
Proof.
  induction l as [|y l IH]; intros H x Hx; [destruct Hx|].
  rewrite bsum_cons in H.
  pose proof (sq_nonneg (g y)) as H1. pose proof (bsum_sq_nonneg g l) as H2.
  assert (Hy : g y * g y == 0) by lra.
  assert (Hl : bsum (fun x => g x * g x) l == 0) by lra.
  destruct Hx as [<-|Hx]; [apply sq_zero; exact Hy|apply IH; assumption].
Qed.

Lemma var_zero_iff_constant {X} (f : X -> Q) (d : @data X) : ~ count d == 0 ->
  (var f d == 0 <-> forall x, In x (elems d) -> f x == mean f d).
Proof.
  intros Hn. unfold var; cbv zeta. rewrite dsum_elems. split.
  - intros H x Hx.
    assert (H0 : bsum (fun x => (f x - mean f d) * (f x - mean f d)) (elems d) == 0).
    { setoid_replace (bsum (fun x => (f x - mean f d) * (f x - mean f d)) (elems d))
        with (bsum (fun x => (f x - mean f d) * (f x - mean f d)) (elems d) / count d * count d)
        by (field; exact Hn).
      rewrite H. ring. }
    pose proof (bsum_sq_zero (fun x => f x - mean f d) (elems d) H0 x Hx) as E. cbv beta in E. lra.
  - intros H.
    rewrite (bsum_ext_in (fun x => (f x - mean f d) * (f x - mean f d)) (fun _ => 0) (elems d)).
    + rewrite bsum_const. field. exact Hn.
    + intros x Hx. rewrite (H x Hx). ring.
Qed.

Lemma uv_accept_sound {X} (f : X -> Q) (d : @data X) (dg off : Q) : ~ count d == 0 -> ~ var f d == 0 ->
  uv_accept (var f d) (mean f d) dg off = true ->
  mean (fun x => dg * f x + off) d == 0 /\ var (fun x => dg * f x + off) d == 1.
Proof.
  intros Hn Hv H. unfold uv_accept in H.
  destruct (Qeq_bool (var f d) 0) eqn:E.
  { apply Qeq_bool_iff in E. contradiction. }
  apply andb_true_iff in H. destruct H as [H Ho]. apply andb_true_iff in H. destruct H as [_ Hd].
  apply Qeq_bool_iff in Ho. apply Qeq_bool_iff in Hd. split.
  - rewrite (affine_mean dg off f d Hn), Ho. ring.
  - rewrite (affine_var dg off f d Hn). exact Hd.
Qed.

(* ================= 3. NormalizeComponentsUnitInterval ================= *)

Lemma qmin_cases a b : (qmin a b = a /\ a <= b) \/ (qmin a b = b /\ b <= a).
Proof.
  unfold qmin. destruct (Qle_bool a b) eqn:E.
  - left. split; [reflexivity|apply Qle_bool_iff; exact E].
  - right. split; [reflexivity|].
    destruct (Qlt_le_dec b a) as [L|L]; [lra|]. apply Qle_bool_iff in L. congruence.
Qed.

Lemma qmax_cases a b : (qmax a b = a /\ b <= a) \/ (qmax a b = b /\ a <= b).
Proof.
  unfold qmax. destruct (Qle_bool b a) eqn:E.
  - left. split; [reflexivity|apply Qle_bool_iff; exact E].
  - right. split; [reflexivity|].
    destruct (Qlt_le_dec a b) as [L|L]; [lra|]. apply Qle_bool_iff in L. congruence.
Qed.

Lemma foldmin_spec {X} (f : X -> Q) (l : list X) (m0 : Q) :
  let r := fold_left (fun m x => qmin m (f x)) l m0 in
  r <= m0 /\ (forall x, In x l -> r <= f x) /\ (r = m0 \/ exists x, In x l /\ r = f x).
Proof.
  revert m0. induction l as [|y l IH]; intros m0; cbn [fold_left].
  - split; [lra|split; [intros x []|left; reflexivity]].
  - destruct (IH (qmin m0 (f y))) as (H1 & H2 & H3). cbv zeta.
    set (r := fold_left (fun m x => qmin m (f x)) l (qmin m0 (f y))) in *.
    destruct (qmin_cases m0 (f y)) as [[E L]|[E L]]; rewrite E in *.
    + split; [exact H1|split].
      * intros x [<-|Hx]; [lra|apply H2; exact Hx].
      * destruct H3 as [H3|(x & Hx & H3)]; [left; exact H3|right; exists x; split; [right; exact Hx|exact H3]].
    + split; [lra|split].
      * intros x [<-|Hx]; [lra|apply H2; exact Hx].
      * right. destruct H3 as [H3|(x & Hx & H3)];
          [exists y; split; [left; reflexivity|exact H3]|exists x; split; [right; exact Hx|exact H3]].
Qed.

Lemma foldmax_spec {X} (f : X -> Q) (l : list X) (m0 : Q) :
  let r := fold_left (fun m x => qmax m (f x)) l m0 in
  m0 <= r /\ (forall x, In x l -> f x <= r) /\ (r = m0 \/ exists x, In x l /\ r = f x).
Proof.
  revert m0. induction l as [|y l IH]; intros m0; cbn [fold_left].
  - split; [lra|split; [intros x []|left; reflexivity]].
  - destruct (IH (qmax m0 (f y))) as (H1 & H2 & H3). cbv zeta.
    set (r := fold_left (fun m x => qmax m (f x)) l (qmax m0 (f y))) in *.
    destruct (qmax_cases m0 (f y)) as [[E L]|[E L]]; rewrite E in *.
    + split; [exact H1|split].
      * intros x [<-|Hx]; [lra|apply H2; exact Hx].
      * destruct H3 as [H3|(x & Hx & H3)]; [left; exact H3|right; exists x; split; [right; exact Hx|exact H3]].
    + split; [lra|split].
      * intros x [<-|Hx]; [lra|apply H2; exact Hx].
      * right. destruct H3 as [H3|(x & Hx & H3)];
          [exists y; split; [left; reflexivity|exact H3]|exists x; split; [right; exact Hx|exact H3]].
Qed.

Lemma fmin_spec {X} (f : X -> Q) (x0 : X) (l : list X) :
  (forall x, In x (x0 :: l) -> fmin f x0 l <= f x) /\ (exists x, In x (x0 :: l) /\ fmin f x0 l = f x).
Proof.
  unfold fmin. destruct (foldmin_spec f l (f x0)) as (H1 & H2 & H3). cbv zeta in *. split.
  - intros x [<-|Hx]; [exact H1|apply H2; exact Hx].
  - destruct H3 as [H3|(x & Hx & H3)]; [exists x0; split; [left; reflexivity|exact H3]|
      exists x; split; [right; exact Hx|exact H3]].
Qed.

Lemma fmax_spec {X} (f : X -> Q) (x0 : X) (l : list X) :
  (forall x, In x (x0 :: l) -> f x <= fmax f x0 l) /\ (exists x, In x (x0 :: l) /\ fmax f x0 l = f x).
Proof.
  unfold fmax. destruct (foldmax_spec f l (f x0)) as (H1 & H2 & H3). cbv zeta in *. split.
  - intros x [<-|Hx]; [exact H1|apply H2; exact Hx].
  - destruct H3 as [H3|(x & Hx & H3)]; [exists x0; split; [left; reflexivity|exact H3]|
      exists x; split; [right; exact Hx|exact H3]].
Qed.

Lemma fmin_le_fmax {X} (f : X -> Q) (x0 : X) (l : list X) : fmin f x0 l <= fmax f x0 l.
Proof.
  destruct (fmin_spec f x0 l) as [H1 _]. destruct (fmax_spec f x0 l) as [H2 _].
  specialize (H1 x0 (or_introl eq_refl)). specialize (H2 x0 (or_introl eq_refl)). lra.
Qed.

Lemma unit_interval_correct {X} (f : X -> Q) (x0 : X) (l : list X) :
  let mn := fmin f x0 l in let mx := fmax f x0 l in let p := ui_params mn mx in
  (forall x, In x (x0 :: l) -> 0 <= affine p (f x) /\ affine p (f x) <= 1) /\
  (~ mn == mx -> (exists x, In x (x0 :: l) /\ affine p (f x) == 0) /\
                 (exists x, In x (x0 :: l) /\ affine p (f x) == 1)) /\
  (mn == mx -> forall x, In x (x0 :: l) -> affine p (f x) == 1 # 2).
Proof.
  intros mn mx p.
  destruct (fmin_spec f x0 l) as [Hlo (xlo & Hxlo & Elo)].
  destruct (fmax_spec f x0 l) as [Hhi (xhi & Hxhi & Ehi)].
  pose proof (fmin_le_fmax f x0 l) as Hle.
  fold mn in Hlo, Elo, Hle. fold mx in Hhi, Ehi, Hle.
  unfold ui_params in p. destruct (Qeq_bool mn mx) eqn:E.
  - apply Qeq_bool_iff in E. subst p. unfold affine; cbn [fst snd].
    split; [|split].
    + intros x _. split; lra.
    + intros Hne. contradiction.
    + intros _ x _. ring.
  - apply Qeq_bool_neq in E. subst p. unfold affine; cbn [fst snd].
    assert (Hlt : 0 < mx - mn).
    { destruct (Qlt_le_dec mn mx) as [L|L]; [lra|]. exfalso. apply E. lra. }
    assert (Hnz : ~ mx - mn == 0) by lra.
    assert (Hn : 0 < 1 / (mx - mn)).
    { setoid_replace (1 / (mx - mn)) with (/ (mx - mn)) by (field; exact Hnz).
      apply Qinv_lt_0_compat. exact Hlt. }
    split; [|split].
    + intros x Hx. pose proof (Hlo x Hx) as A. pose proof (Hhi x Hx) as B.
      setoid_replace (1 / (mx - mn) * f x + - mn * (1 / (mx - mn)))
        with (1 / (mx - mn) * (f x - mn)) by ring.
      split.
      * apply Qmult_le_0_compat; lra.
      * setoid_replace 1 with (1 / (mx - mn) * (mx - mn)) at 2 by (field; exact Hnz).
        apply Qmult_le_l; [exact Hn|lra].
    + intros _. split.
      * exists xlo. split; [exact Hxlo|]. rewrite <- Elo. ring.
      * exists xhi. split; [exact Hxhi|]. rewrite <- Ehi. field. exact Hnz.
    + intros Heq. contradiction.
Qed.

Lemma ui_coded_constant_output (c : Q) : affine (ui_params_coded c c) c == (1 # 2) - c.
Proof.
  unfold ui_params_coded.
  assert (E : Qeq_bool c c = true) by (apply Qeq_bool_iff; reflexivity).
  rewrite E. unfold affine; cbn [fst snd]. ring.
Qed.

Lemma ui_coded_agrees (mn mx : Q) : ~ mn == mx -> ui_params_coded mn mx = ui_params mn mx.
Proof.
  intros H. unfold ui_params_coded, ui_params.
  destruct (Qeq_bool mn mx) eqn:E; [|reflexivity]. apply Qeq_bool_iff in E. contradiction.
Qed.

(* ================= 5. weights ================= *)

Lemma div_zero_r (a b : Q) : b == 0 -> a / b == 0.
Proof. intros H. rewrite H. unfold Qdiv. change (/ 0) with 0. ring. Qed.

Lemma wsum_scale {X} (c : Q) (w f : X -> Q) (l : list X) :
  wsum (fun x => c * w x) f l == c * wsum w f l.
Proof.
  unfold wsum. rewrite <- bsum_scal. apply bsum_ext; intros; ring.
Qed.

Lemma weighted_scale_invariant {X} (c : Q) (w f g : X -> Q) (l : list X) : ~ c == 0 ->
  wratio (fun x => c * w x) f g l == wratio w f g l.
Proof.
  intros Hc. unfold wratio. rewrite !wsum_scale.
  destruct (Qeq_dec (wsum w g l) 0) as [E|E].
  - rewrite (div_zero_r (wsum w f l) _ E). apply div_zero_r. rewrite E. ring.
  - field. split; assumption.
Qed.

Lemma wsum_ext {X} (w f f' : X -> Q) (l : list X) :
  (forall x, f x == f' x) -> wsum w f l == wsum w f' l.
Proof. intros H. unfold wsum. apply bsum_ext; intros x. rewrite H. reflexivity. Qed.

Lemma wratio_ext {X} (w f f' g : X -> Q) (l : list X) :
  (forall x, f x == f' x) -> wratio w f g l == wratio w f' g l.
Proof. intros H. unfold wratio. rewrite (wsum_ext w f f' l H). reflexivity. Qed.

Lemma weighted_stats_scale_invariant {X} (c : Q) (w f g : X -> Q) (l : list X) : ~ c == 0 ->
  wmean (fun x => c * w x) f l == wmean w f l /\ wvar (fun x => c * w x) f l == wvar w f l /\
  wcov (fun x => c * w x) f g l == wcov w f g l.
Proof.
  intros Hc.
  assert (Hm : forall h, wmean (fun x => c * w x) h l == wmean w h l).
  { intros h. unfold wmean. apply weighted_scale_invariant. exact Hc. }
  split; [apply Hm|split].
  - unfold wvar; cbv zeta. rewrite weighted_scale_invariant by exact Hc.
    apply wratio_ext. intros x. rewrite Hm. reflexivity.
  - unfold wcov; cbv zeta. rewrite weighted_scale_invariant by exact Hc.
    apply wratio_ext. intros x. rewrite !Hm. reflexivity.
Qed.

Definition wscale (c : Q) (p : wsample) : wsample := (fst p, c * snd p).

Lemma wratio_wscale (c : Q) (f g : wsample -> Q) (l : list wsample) : ~ c == 0 ->
  (forall p, f (wscale c p) = f p) -> (forall p, g (wscale c p) = g p) ->
  wratio s_w f g (map (wscale c) l) == wratio s_w f g l.
Proof.
  intros Hc Hf Hg. rewrite <- (weighted_scale_invariant c s_w f g l Hc).
  unfold wratio, wsum. rewrite !bsum_map.
  rewrite (bsum_ext (fun x => s_w (wscale c x) * f (wscale c x)) (fun x => c * s_w x * f x) l)
    by (intros x; rewrite Hf; reflexivity).
  rewrite (bsum_ext (fun x => s_w (wscale c x) * g (wscale c x)) (fun x => c * s_w x * g x) l)
    by (intros x; rewrite Hg; reflexivity).
  reflexivity.
Qed.

Lemma lda_prior_scale (c : Q) (l : list wsample) cl : ~ c == 0 ->
  lda_prior cl (map (wscale c) l) == lda_prior cl l.
Proof. intros Hc. unfold lda_prior. apply wratio_wscale; [exact Hc|reflexivity|reflexivity]. Qed.

Lemma lda_mean_scale (c : Q) (l : list wsample) cl j : ~ c == 0 ->
  lda_mean cl j (map (wscale c) l) == lda_mean cl j l.
Proof. intros Hc. unfold lda_mean. apply wratio_wscale; [exact Hc|reflexivity|reflexivity]. Qed.

Lemma lda_weight_scale_invariant (c : Q) (l : list wsample) K lam j k cl : ~ c == 0 ->
  let l' := map (fun p => (fst p, c * snd p)) l in
  lda_prior cl l' == lda_prior cl l /\ lda_mean cl j l' == lda_mean cl j l /\
  lda_cov K lam j k l' == lda_cov K lam j k l.
Proof.
  intros Hc l'. change l' with (map (wscale c) l). clear l'.
  split; [apply lda_prior_scale; exact Hc|split; [apply lda_mean_scale; exact Hc|]].
  unfold lda_cov.
  rewrite (wratio_wscale c (fun p => s_x j p * s_x k p) one l Hc) by reflexivity.
  rewrite (sumn_ext K
     (fun c0 => lda_prior c0 (map (wscale c) l) *
                (lda_mean c0 j (map (wscale c) l) * lda_mean c0 k (map (wscale c) l)))
     (fun c0 => lda_prior c0 l * (lda_mean c0 j l * lda_mean c0 k l))).
  - reflexivity.
  - intros i _. rewrite (lda_prior_scale c l i Hc), !(lda_mean_scale c l i _ Hc). reflexivity.
Qed.

(* ================= 4. LinearRegression ================= *)

Lemma sumn_dsum_pred d (D : @data sample) (g : sample -> Q) (b : nat -> Q) :
  sumn (S d) (fun k => dsum (fun p => g p * ext d (fst p) k) D * b k) ==
  dsum (fun p => g p * sumn (S d) (fun k => ext d (fst p) k * b k)) D.
Proof.
  rewrite (dsum_ext (fun p => g p * sumn (S d) (fun k => ext d (fst p) k * b k))
                    (fun p => sumn (S d) (fun k => g p * ext d (fst p) k * b k)) D).
  2:{ intros p. rewrite <- sumn_scal. apply sumn_ext; intros; ring. }
  rewrite (dsum_sumn (S d) (fun k p => g p * ext d (fst p) k * b k) D).
  apply sumn_ext; intros k _. symmetry.
  apply (dsum_scal_r (b k) (fun p => g p * ext d (fst p) k) D).
Qed.

Lemma lr_lam_sum d lam (beta : nat -> Q) j : (j <= d)%nat ->
  sumn (S d) (fun k => (if ((j =? k)%nat && (j <? d)%nat)%bool then lam else 0) * beta k) ==
  (if (j <? d)%nat then lam * beta j else 0).
Proof.
  intros Hj.
  rewrite (sumn_ext (S d) _ (fun k => delta j k * ((if (j <? d)%nat then lam else 0) * beta k))).
  - rewrite sumn_delta by lia. destruct (j <? d)%nat; ring.
  - intros k _. unfold delta. destruct (j =? k)%nat; destruct (j <? d)%nat; cbn [andb]; ring.
Qed.

Lemma lr_A_beta_sum d lam (D : @data sample) beta j : (j <= d)%nat ->
  sumn (S d) (fun k => lr_A d lam D j k * beta k) ==
  dsum (fun p => ext d (fst p) j * lr_pred d beta (fst p)) D
  + (if (j <? d)%nat then lam * beta j else 0).
Proof.
  intros Hj. unfold lr_A, lr_pred.
  rewrite (sumn_ext (S d) _
    (fun k => dsum (fun p => ext d (fst p) j * ext d (fst p) k) D * beta k
              + (if ((j =? k)%nat && (j <? d)%nat)%bool then lam else 0) * beta k))
    by (intros; ring).
  rewrite sumn_plus, (lr_lam_sum d lam beta j Hj).
  rewrite (sumn_dsum_pred d D (fun p => ext d (fst p) j) beta). reflexivity.
Qed.

Lemma lr_grad_residual d lam (D : @data sample) c beta j : (j <= d)%nat ->
  lr_grad d lam D c beta j == 2 * lr_residual d lam D c beta j.
Proof.
  intros Hj. unfold lr_grad, lr_residual. rewrite (lr_A_beta_sum d lam D beta j Hj). unfold lr_T.
  rewrite (dsum_ext (fun p => (lr_pred d beta (fst p) - nth c (snd p) 0) * ext d (fst p) j)
                    (fun p => ext d (fst p) j * lr_pred d beta (fst p) - ext d (fst p) j * nth c (snd p) 0) D)
    by (intros; ring).
  rewrite dsum_minus. destruct (j <? d)%nat; ring.
Qed.

Lemma linreg_normal_eq_zero_grad d lam (D : @data sample) c beta :
  lr_solves d lam D c beta <-> (forall j, (j <= d)%nat -> lr_grad d lam D c beta j == 0).
Proof.
  unfold lr_solves. split; intros H j Hj.
  - rewrite (lr_grad_residual d lam D c beta j Hj). unfold lr_residual. rewrite (H j Hj). ring.
  - pose proof (H j Hj) as G. rewrite (lr_grad_residual d lam D c beta j Hj) in G.
    unfold lr_residual in G. lra.
Qed.

Lemma lr_pred_diff d (beta beta' : nat -> Q) x :
  lr_pred d beta' x - lr_pred d beta x == sumn (S d) (fun k => ext d x k * (beta' k - beta k)).
Proof.
  unfold lr_pred. rewrite <- sumn_minus. apply sumn_ext; intros; ring.
Qed.

Lemma lr_reg_grad_sum d lam (beta dw : nat -> Q) :
  sumn (S d) (fun j => (if (j <? d)%nat then 2 * lam * beta j else 0) * dw j) ==
  2 * lam * sumn d (fun k => beta k * dw k).
Proof.
  rewrite sumn_S, Nat.ltb_irrefl, <- sumn_scal.
  rewrite (sumn_ext d (fun j => (if (j <? d)%nat then 2 * lam * beta j else 0) * dw j)
                      (fun k => 2 * lam * (beta k * dw k))).
  - ring.
  - intros i Hi. apply Nat.ltb_lt in Hi. rewrite Hi. ring.
Qed.

Lemma lr_grad_dot d lam (D : @data sample) c beta beta' :
  sumn (S d) (fun j => lr_grad d lam D c beta j * (beta' j - beta j)) ==
  2 * dsum (fun p => (lr_pred d beta (fst p) - nth c (snd p) 0) *
                     (lr_pred d beta' (fst p) - lr_pred d beta (fst p))) D
  + 2 * lam * sumn d (fun k => beta k * (beta' k - beta k)).
Proof.
  unfold lr_grad.
  rewrite (sumn_ext (S d) _
    (fun j => 2 * (dsum (fun p => (lr_pred d beta (fst p) - nth c (snd p) 0) * ext d (fst p) j) D
                   * (beta' j - beta j))
              + (if (j <? d)%nat then 2 * lam * beta j else 0) * (beta' j - beta j)))
    by (intros; ring).
  rewrite sumn_plus, sumn_scal, (lr_reg_grad_sum d lam beta (fun j => beta' j - beta j)).
  rewrite (sumn_dsum_pred d D (fun p => lr_pred d beta (fst p) - nth c (snd p) 0)
                          (fun j => beta' j - beta j)).
  rewrite (dsum_ext
    (fun p => (lr_pred d beta (fst p) - nth c (snd p) 0) *
              sumn (S d) (fun k => ext d (fst p) k * (beta' k - beta k)))
    (fun p => (lr_pred d beta (fst p) - nth c (snd p) 0) *
              (lr_pred d beta' (fst p) - lr_pred d beta (fst p))) D)
    by (intros p; rewrite lr_pred_diff; reflexivity).
  reflexivity.
Qed.

Lemma lr_err_diff d lam (D : @data sample) c beta beta' :
  lr_err d lam D c beta' - lr_err d lam D c beta ==
  (2 * dsum (fun p => (lr_pred d beta (fst p) - nth c (snd p) 0) *
                      (lr_pred d beta' (fst p) - lr_pred d beta (fst p))) D
   + 2 * lam * sumn d (fun k => beta k * (beta' k - beta k)))
  + dsum (fun p => (lr_pred d beta' (fst p) - lr_pred d beta (fst p)) *
                   (lr_pred d beta' (fst p) - lr_pred d beta (fst p))) D
  + lam * sumn d (fun k => (beta' k - beta k) * (beta' k - beta k)).
Proof.
  unfold lr_err.
  rewrite (dsum_ext
    (fun p => (lr_pred d beta' (fst p) - nth c (snd p) 0) * (lr_pred d beta' (fst p) - nth c (snd p) 0))
    (fun p => ((lr_pred d beta (fst p) - nth c (snd p) 0) * (lr_pred d beta (fst p) - nth c (snd p) 0)
               + 2 * ((lr_pred d beta (fst p) - nth c (snd p) 0) *
                      (lr_pred d beta' (fst p) - lr_pred d beta (fst p))))
              + (lr_pred d beta' (fst p) - lr_pred d beta (fst p)) *
                (lr_pred d beta' (fst p) - lr_pred d beta (fst p))) D)
    by (intros; ring).
  rewrite !dsum_plus, dsum_scal.
  rewrite (sumn_ext d (fun k => beta' k * beta' k)
    (fun k => (beta k * beta k + 2 * (beta k * (beta' k - beta k)))
              + (beta' k - beta k) * (beta' k - beta k)))
    by (intros; ring).
  rewrite !sumn_plus, sumn_scal. ring.
Qed.

Lemma linreg_minimizer d lam (D : @data sample) c beta : 0 <= lam -> lr_solves d lam D c beta ->
  forall beta', lr_err d lam D c beta <= lr_err d lam D c beta'.
Proof.
  intros Hlam Hs beta'.
  pose proof (lr_err_diff d lam D c beta beta') as E.
  rewrite <- (lr_grad_dot d lam D c beta beta') in E.
  assert (Z : sumn (S d) (fun j => lr_grad d lam D c beta j * (beta' j - beta j)) == 0).
  { rewrite <- (sumn_zero (S d)). apply sumn_ext; intros j Hj.
    apply (proj1 (linreg_normal_eq_zero_grad d lam D c beta)) with (j := j) in Hs; [|lia].
    rewrite Hs. ring. }
  rewrite Z in E.
  pose proof (dsum_sq_nonneg (fun p => lr_pred d beta' (fst p) - lr_pred d beta (fst p)) D) as N1.
  pose proof (sumn_sq_nonneg d (fun k => beta' k - beta k)) as N2.
  cbv beta in N1, N2.
  pose proof (Qmult_le_0_compat _ _ Hlam N2) as N3.
  lra.
Qed.
