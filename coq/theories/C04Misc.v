(* C04 — executable models of RBFLayer, CMACMap and Ensemble (mean of models), definitions only, as coded.
   Anchors: src/Models/RBFLayer.cpp, include/shark/Models/RBFLayer.h; src/Models/CMAC.cpp, include/shark/Models/CMAC.h;
            include/shark/Models/Ensemble.h (EnsembleImpl::pool for vector outputs).
   The transcendental / rounding operations (exp, log, division, truncation to an index) are Section variables. *)
From Coq Require Import List Arith Bool.
From SharkV Require Import C04Model C04Conv C04Pool.
Import ListNotations.
Set Implicit Arguments.

Section Misc.
Variable A : Type.
Variables (zero : A) (add mul sub div : A -> A -> A) (opp : A -> A).
Variables (expA logA : A -> A).
Variable ofnat : nat -> A.

(* ---------- RBFLayer ---------- *)
Variables (half logPi : A).     (* 0.5 and std::log(pi) *)
Record rbf := { r_nin : nat; r_nout : nat; r_tc : bool; r_tw : bool;   (* setTrainingParameters(centers, width) *)
                r_centers : list (list A); r_gamma : list A; r_logn : list A (* m_logNormalization *) }.
(* setGamma: m_gamma = gamma; m_logNormalization = nin * 0.5 * (logPi - log(gamma)) *)
Definition rbf_set_gamma (m : rbf) (gamma : list A) : rbf :=
  {| r_nin := r_nin m; r_nout := r_nout m; r_tc := r_tc m; r_tw := r_tw m; r_centers := r_centers m;
     r_gamma := gamma; r_logn := map (fun g => mul (mul (ofnat (r_nin m)) half) (sub logPi (logA g))) gamma |}.
Definition rbf_nparams (m : rbf) : nat := (if r_tc m then r_nin m * r_nout m else 0) + (if r_tw m then r_nout m else 0).
(* to_vector(m_centers) | log(m_gamma), each part only if trained *)
Definition rbf_params (m : rbf) : list A :=
  (if r_tc m then concat (r_centers m) else []) ++ (if r_tw m then map logA (r_gamma m) else []).
Definition rbf_set (m : rbf) (theta : list A) : rbf :=
  let pos := if r_tc m then r_nin m * r_nout m else 0 in
  let m1 := if r_tc m
            then {| r_nin := r_nin m; r_nout := r_nout m; r_tc := r_tc m; r_tw := r_tw m;
                    r_centers := chunk (r_nin m) (r_nout m) (firstn pos theta); r_gamma := r_gamma m; r_logn := r_logn m |}
            else m in
  if r_tw m then rbf_set_gamma m1 (map expA (skipn pos theta)) else m1.

(* distanceSqr(patterns, centers), entry (r, o) *)
Definition dist2 (x c : list A) : A := vsum zero add (map2 (fun xi ci => mul (sub xi ci) (sub xi ci)) x c).
(* output = exp(-gamma * norm2 - logNormalization) *)
Definition rbf_eval (m : rbf) (x : list A) : list A :=
  map3 (fun c g ln => expA (sub (opp (mul g (dist2 x c))) ln)) (r_centers m) (r_gamma m) (r_logn m).
Definition rbf_eval_batch (m : rbf) (X : list (list A)) : list (list A) := map (rbf_eval m) X.

(* weightedParameterDerivative, as coded *)
Definition rbf_wpd (m : rbf) (X C : list (list A)) : list A :=
  let out := rbf_eval_batch m X in
  let delta := map2 (fun c y => vmul mul c y) C out in
  let deltaSum := colsum zero add (r_nout m) delta in
  let norm2 := map (fun x => map (dist2 x) (r_centers m)) X in
  let gc :=
    if r_tc m then
      concat (map3 (fun row c dg => map (mul (mul (ofnat 2) (snd dg))) (map2 sub row (vscale mul (fst dg) c)))
                   (gradW zero add mul (r_nout m) (r_nin m) delta X) (r_centers m) (combine deltaSum (r_gamma m)))
    else [] in
  let gw :=
    if r_tw m then
      let s := colsum zero add (r_nout m) (map2 (fun d n => vmul mul (map opp d) n) delta norm2) in
      vadd add (vmul mul s (r_gamma m)) (vscale mul (mul half (ofnat (r_nin m))) deltaSum)
    else [] in
  gc ++ gw.

(* ---------- CMACMap ---------- *)
Variable trunc : A -> nat.      (* static_cast<std::size_t>(coordinate) *)
Variables (oneA : A).
Record cmac := { c_nin : nat; c_nout : nat; c_tilings : nat; c_tiles : nat; c_lower : A; c_upper : A }.
Definition c_tw (g : cmac) : A := div (sub (c_upper g) (c_lower g)) (ofnat (c_tiles g - 1)).
(* m_offset(tiling, dim) = 0 - 0.5 * tileWidth * (1.0 + tiling) / tilings *)
Definition c_offset (g : cmac) (t : nat) : A :=
  sub zero (div (mul (mul half (c_tw g)) (add oneA (ofnat t))) (ofnat (c_tilings g))).
Definition c_ppt (g : cmac) : nat := Nat.pow (c_tiles g) (c_nin g) * c_tilings g.
Definition cmac_nparams (g : cmac) : nat := c_ppt g * c_nout g.
(* getArrayIndexForTiling *)
Definition cmac_index (g : cmac) (t : nat) (x : list A) : nat :=
  fold_left (fun idx d =>
               idx + trunc (div (sub (sub (get zero x d) (c_lower g)) (c_offset g t)) (c_tw g)) * Nat.pow (c_tiles g) d)
            (seq 0 (c_nin g)) (t * Nat.pow (c_tiles g) (c_nin g)).
(* output(i, o) += parameters(indizes[j] + o * parametersPerTiling), j = 0 .. tilings - 1 *)
Definition cmac_eval (g : cmac) (theta : list A) (x : list A) : list A :=
  tab (c_nout g) (fun o => bsum zero add (c_tilings g) (fun j => get zero theta (cmac_index g j x + o * c_ppt g))).
Definition cmac_eval_batch (g : cmac) (theta : list A) (X : list (list A)) : list (list A) := map (cmac_eval g theta) X.
(* gradient.clear(); gradient(indizes[j] + o * parametersPerTiling) += coefficients(i, o) *)
Definition cmac_wpd (g : cmac) (X C : list (list A)) : list A :=
  fold_left (fun grad i =>
     fold_left (fun grad o =>
        fold_left (fun grad j =>
           upd grad (cmac_index g j (nth i X []) + o * c_ppt g) (fun d => add d (get zero (nth i C []) o)))
          (seq 0 (c_tilings g)) grad)
       (seq 0 (c_nout g)) grad)
    (seq 0 (length X)) (zeros zero (cmac_nparams g)).

(* ---------- Ensemble with vector outputs: weighted mean of the members ---------- *)
(* outputs.clear(); outputs += weight(i) * model(i)(patterns); outputs /= sumOfWeights() *)
Definition ens_eval_batch (nout : nat) (members : list (A * (list (list A) -> list (list A)))) (X : list (list A)) : list (list A) :=
  let acc := fold_left (fun acc wf => madd add acc (map (vscale mul (fst wf)) (snd wf X))) members (zmat zero (length X) nout) in
  let sw := fold_left add (map fst members) zero in
  map (map (fun v => div v sw)) acc.
Definition ens_eval (nout : nat) (members : list (A * (list (list A) -> list (list A)))) (x : list A) : list A :=
  nth 0 (ens_eval_batch nout members [x]) [].

End Misc.
