(* C13 — Pareto dominance, non-dominated sorting and hypervolume computations are exact.
   Only statements + `exact`; proofs live in C13Proofs.v, the executable model in C13Model.v.

   PROVED here (axiom-free, over Z / lists, all sizes and dimensions):
     * the coded four-valued dominance relation (ParetoDominance.h) is the component-wise
       definition; dominance is a strict partial order;
     * the rank definition "rank p = 1 + max rank of the points dominating p" has exactly one
       solution on every point set of uniform dimension, the executable rank_list computes it,
       and any solution has consistent fronts (rank 1 = non-dominated, every point of rank r>1
       is dominated by a point of rank r-1 and by no point of rank >= r);
     * hv_spec (unit-slice HSO recursion over the dimension = number of unit cells dominated by
       the set inside the box below the reference point, last objective sliced first) is
       invariant under permutation, under adding duplicates, under adding (weakly) dominated
       points, and monotone;
     * the 2-D sort-and-sweep of HypervolumeCalculator2D.h equals hv_spec in dimension 2 for every
       arrangement of the points that is sorted by the first objective (std::sort leaves ties
       unspecified) and for the model's insertion sort in particular;
     * fast_nds (model of FastNonDominatedSort.h: domination counts + front peeling with the fuel the
       code's loop structure provides) = rank_list on every point set of uniform dimension
       (C13_fast_sort: loop invariant "after k fronts the counts are the numbers of not yet peeled
       dominators and the front is exactly the set of points of rank k+1");
     * contrib2d_ref (model of HypervolumeContribution2D.h: lexicographic sort, sentinels, the term
       (x_next - x)(y_prev - y)) = contrib_spec = hv_spec S - hv_spec (S without p) for every mutually
       non-dominated 2-D set below the reference point, duplicates included (contribution 0), for every
       order std::sort may leave equal points in; hence the k smallest / largest reported contributions
       are the k extremal true contributions (theorems C13_contrib2d_...).
     * the WFG recursion (C13Wfg.v, model of HypervolumeCalculatorMDWFG.h as coded: sort, base cases n = 0, 1, 2,
       the loop  sum_i boxVolume(p_i) - wfg(limitSet(p_{i+1..}, p_i)),  limitSet = component-wise maximum with p_i,
       rank-1 points of nonDominatedSort, re-sorted; recursion on fuel = number of points) = hv_spec for EVERY
       point set below the reference point (duplicates, dominated points, points on the boundary included), every
       dimension, every arrangement the compaction / std::sort may leave the points in (C13_wfg_correct_any_arrangement;
       C13_wfg_correct for the extracted instance).  Key identity on the unit-cell spec:
       hv(p :: S) = hv(S) + boxVolume(p) - hv({max(q,p) : q in S})  (C13_hv_inclusion_exclusion, no hypothesis at the
       cell level: C13_hv_inclusion_exclusion_cells); the limit set is characterised as the set of non-dominated
       members of {max(q,p)} (C13_wfg_limit_set) and has the hypervolume of {max(q,p)} (C13_wfg_limit_set_hv);
     * the 3-D sweep (C13Sweep3d.v, model of HypervolumeCalculator3D.h as coded: filter strictly below the reference,
       sort by the third objective, std::map staircase with lower_bound / erase / operator[], area decrements and
       increment, volume chunks) = hv_spec in dimension 3 for EVERY point set below the reference point (ties in every
       objective, duplicates, dominated points, points on the reference boundary, keys already in the map) and for every
       order the sort may leave equal third objectives in (C13_hv3d_correct_any_tie_order; C13_hv3d_correct for the
       model's insertion sort).
     * 2-D subset selection (C13Hssp.v, model of HypervolumeSubsetSelection2D.h with reference point as coded:
       createFront with the comparator of the code and std::unique, the deque algorithm upperEnvelope, the k-1 rounds of
       hypSSP, the first maximiser of f_i(0), back-tracking): whenever the model returns a selection (k >= 1 and at
       least k points left in the front; otherwise the code throws), it marks at most k points of the set and NO list
       of at most k points of the set has a larger hv_spec; its hv_spec equals best_subset_hv k (C13_hssp_optimal,
       C13_hssp_is_best_subset) -- for every envelope routine with the specification "h_i = max_{j<=i} f_j(x_i),
       chosen_i attains it" and every arrangement of the shifted points that is a permutation sorted by the first
       objective (C13_hssp_optimal_any_arrangement; the comparator of the code is not a strict weak order, so the
       order inside a group of equal first objectives is whatever the sort leaves); the deque algorithm satisfies
       that specification for lines of strictly increasing slope and non-decreasing query points
       (C13_hssp_upper_envelope), libstdc++'s insertion sort with the comparator of the code is such an arrangement
       (C13_hssp_sort_instance).  Rational comparisons of the code (intersection abscissae, 1e-10 tolerance) are
       modelled exactly (cross-multiplication): assumption "small integer coordinates" of the check.
     * the front end HypervolumeCalculator (C13Disp.v: empty -> 0, 2-D sweep, 3-D sweep, HOY for 4 objectives, WFG
       otherwise) = hv_spec for every number of objectives except 4 (C13_hv_dispatcher_correct; the HOY algorithm is
       a parameter of the model, C13_hv_dispatcher_correct_given_hoy).
     * the divide-and-conquer sort (C13Dc.v, model of DCNonDominatedSort.h as coded: lexicographic std::sort + std::unique +
       std::lower_bound, ndHelperA with its cases |S| < 2, |S| = 2, k = 2 -> sweepA, 'all values of objective k equal',
       splitA by the median as coded (twice the median is kept, the two candidate splits and the balance test),
       ndHelperB with its double-loop base case, sweepB, the tests maxL <= minH / minL <= maxH, splitB; the std::map T of
       the two sweeps) = rank_list for EVERY point set of uniform dimension >= 2 (ties in every objective, duplicates,
       median ties): C13_dc_sort.  The recursions are structural on a fuel argument; the theorem includes that the fuel
       the entry point supplies is enough (every recursive call has fewer points or fewer objectives; both sides of a
       split are non-empty because the doubled median lies between twice the minimum and twice the maximum).
       Invariants: ndHelperB(L,H,k) sets frt(h) := max(frt(h), 1 + max{frt(l) : l in L, l <= h on the first k
       objectives}); ndHelperA(S,k) makes frt the solution of frt'(x) = max(frt(x), 1 + max{frt'(y) : y in S dominates x
       on the first k objectives}) (C13_dc_helperA_spec, C13_dc_helperB_spec).
     * the front end nonDominatedSort (NonDominatedSort.h: n = 0 -> nothing, DC sort if m = 2 or n > 5000 or
       log(n)/log(3) < m + 1, else fast sort) = rank_list for every dimension >= 2 WHICHEVER algorithm the switch selects
       (C13_nds_front_end_any_choice: the choice is a parameter, so the rounding of std::log at n = 3^(m+1) is covered;
       C13_nds_front_end for the extracted instance n < 3^(m+1)).  Hence limitSet of the WFG recursion computed with the
       ranks of the front end is the limit set of the WFG model (C13_wfg_limit_set_via_front_end): the former caveat
       "nonDominatedSort inside limitSet is taken to compute rank_list" is discharged for >= 2 objectives.
     * HypervolumeContributionMD with reference point (C13ContribMd.v: for every i the set without point i is restricted
       (component-wise maximum with point i, nonDominatedSort = the front end model, swap-with-last compaction of the
       rank-1 points as coded), contribution = box volume - hypervolume of the restricted set by the front end
       HypervolumeCalculator = hv_dispatch) = contrib_spec = hv_spec S - hv_spec (S without i) for EVERY point set below
       the reference point (dominated points and duplicates included, no mutual non-domination needed), every number of
       objectives >= 2 except 4 (C13_contrib_md_correct; for 4 objectives given HOY = hv_spec:
       C13_contrib_md_correct_given_hoy); the entries returned by smallest / largest (std::sort by the contribution, first
       k / last k reversed) are k entries with distinct indices, each carrying the contribution of its index, and their
       values are the k smallest / largest contributions (C13_contrib_md_smallest, C13_contrib_md_largest; for every list
       of (contribution, index) pairs: C13_select_smallest_entries, C13_select_largest_entries).
       Modelled, not verified: exp(sum(log(ref - p))) is the product of the edge lengths (compared at 1e-9).
     * HypervolumeContribution3D with reference point (C13Contrib3d.v, model of allContributions as coded: translation by
       the reference point, std::sort by the third objective, the std::multiset xyFront with its two sentinels and the
       upper-bound insertion of equal keys, lower_bound / predecessor, the scan over the dominated elements, erase,
       cutBoxesOnTheLeft, cutBoxesOnTheRight, the boxes pushed for the dominated points and for the new point, the final
       closing of the boxes of the front) = contrib_spec for EVERY mutually non-dominated point set below the reference
       point: duplicates (contribution 0), ties in every single objective, points on the reference boundary of any
       objective (C13_contrib3d_correct; per entry C13_contrib3d_entries: position k of the sorted array carries the
       contribution of its original index); smallest / largest return k entries with distinct indices, each with the
       contribution of its index, whose values are the k smallest / largest contributions (C13_contrib3d_smallest,
       C13_contrib3d_largest).  Loop invariant (C13Contrib3dInvProofs.v): the front is a weak staircase between the
       sentinels (points with first objective on the boundary behind the right sentinel); every processed point is in the
       front or weakly dominated in the first two objectives by a front element; the box list of a front element is a
       chain of boxes whose cell count is the indicator of the cells dominated by that element and by no other processed
       point; contributions + open box volumes at the current height = exclusive volume below that height (lemmas step_neg,
       step_zero, Inv_step; the loop on any sorted array: C13_contrib3d_sweep).  contrib_spec in dimension 3 = number of exclusively dominated unit cells: C13_contrib_spec_cells.
       Modelled, not verified: -inf of the sentinels is any value below all coordinates; Box::upper.f3 is dead data.
     * the contribution front end HypervolumeContribution with reference point (C13ContribNoref.v: 2 objectives -> 2-D
       algorithm, 3 -> 3-D sweep, otherwise MD): the list of all (contribution, index) entries is a permutation of
       (contrib_spec i, i), and smallest / largest return k distinct indices with their contributions, the values being
       the k smallest / largest contributions (C13_contrib_front_correct, C13_contrib_front_smallest / _largest) -- for
       >= 2 objectives except 4 (for 4 given HOY = hv_spec), mutually non-dominated sets in 2 and 3 objectives, any set in
       more objectives.
     * the overloads WITHOUT reference point as repaired (model noref_front: implicit reference point = component-wise
       maximum; 2-D: candidates = all but the first and last lexicographically sorted point, bestContributors on
       min(k, candidates), appendExtremePoints; 3-D: first minimiser of each objective moved from the sorted result to the
       list of extremes, first k / last k reversed, extremes appended while fewer than k; MD: entries of the non-extreme
       indices sorted by (contribution, index), selection, the distinct extreme indices appended in increasing order):
       for EVERY 1 <= k <= n the result has exactly k entries with distinct indices, and every entry (v, i) carries
       v = contrib_spec (implicit reference point) S i (C13_noref_front_correct; per algorithm C13_noref2d_correct,
       C13_noref3d_correct, C13_norefmd_correct; shape: C13_noref2d_shape = selection from the interior entries followed
       by the extreme entries; the 2-D code's implicit reference point (first objective of the last sorted point, maximal
       second objective) is the component-wise maximum: C13_noref2d_implicit_reference).
     * HypervolumeCalculatorMDHOY (C13Hoy.v, model of the class as coded after /repo commit 589fd5bd: operator() = filter
       strictly below the reference point, std::sort by the last objective, m_sqrtNoPoints from the unfiltered size,
       regLow = component-wise minimum; stream = first covering point / cover update / removal of the points at the new
       cover, isPile, the trellis sweep with computeTrellis as the signed sum over the binary digits of 1 .. 2^(m-1)-1, the
       search for the split bound with containsBoundary, the two candidate lists, getMedian (1 -> first, 2 -> second, odd ->
       middle, even -> mean of the two middle values) and the threshold m_sqrtNoPoints, child regions and child point sets
       by partCovers; run on the doubled integers so that the mean of two coordinates is exact) = hv_spec for EVERY point
       set below the reference point (duplicates, dominated points, ties in every objective, points on the reference
       boundary, negative coordinates), EVERY number of objectives >= 1 (the front end uses it for 4), every order the sort
       may leave equal last objectives in (C13_hoy_correct; C13_hoy_correct_any_tie_order for the recursion on any integer
       input).  Statement about every reachable call (C13_hoy_stream_measure): for a region [low, up), points sorted by the
       last objective that partly cover the region and lie in [zlo, cover), and the split-dimension invariant "every point
       has at most one dimension below split with point[i] > regionLow[i]", stream returns the number of unit cells of
       region x [zlo, cover) dominated by the points, PROVIDED the fuel exceeds mu = sum over the points of (1 + number of
       dimensions with point[i] > regionLow[i]); both children have a strictly smaller mu (the upper child loses the point
       with the largest candidate coordinate >= median, in the lower child the candidate <= median is no longer above the
       lower corner), and the entry point supplies n * m + 1 > mu (C13_hoy_fuel_sufficient).  The search for the split bound
       never leaves the first m-1 objectives (C13_hoy_split_search_stays_inside: no call state reachable from operator()
       yields the node NStuck, i.e. split <= m-2 always).  Ingredients: computeTrellis(low, up, t) = prod(up - low) -
       prod(t - low) (C13_hoy_trellis_formula); the slab above the first covering point is full, below it only points with
       a smaller last objective matter (C13_hoy_cover_step); the pile sweep = measure of the union of the piles
       (C13_hoy_pile_sweep); hv_spec(2 ref, 2 S) = 2^m hv_spec(ref, S) (C13_hoy_doubling).
       Hence UNCONDITIONALLY (extracted instance hoy in the HOY slot): the front end HypervolumeCalculator = hv_spec in every
       dimension (C13_hv_dispatcher_correct_all_dimensions), HypervolumeContributionMD = contrib_spec for every number of
       objectives >= 2 (C13_contrib_md_correct_all_dimensions, C13_contrib_md_smallest_all_dimensions / _largest_), the
       contribution front end with and without reference point (C13_contrib_front_correct_all_dimensions, _smallest_, _largest_,
       C13_noref_front_correct_all_dimensions).
       Modelled, not verified: double arithmetic on half-integers is exact (the model computes on the doubled integers; the
       check compares values, the recursion tree (sizes of the child point sets of every splitting call, read from the real
       code through a logging set type), getMedian and computeTrellis next to the code on every run); regionLow[m-1] /
       regionUp[m-1] are dead data.
   NOT PROVED, only compared on every run (tools/c13.py, exact integer arithmetic):
     * 2-D subset selection WITHOUT reference point: differential test and monitor only.
     * DC sort for fewer than 2 objectives: the code reads obj[-1] (ndHelperB with k = 0); outside the property's range. *)
From Coq Require Import List ZArith Permutation Sorted.
From SharkV Require Import ListAux C13Model C13Proofs C13ProofsFast C13ProofsContrib.
From SharkV Require Import C13Wfg C13WfgProofs C13Sweep3d C13Sweep3dProofs.
From SharkV Require Import C13ContribMd C13Contrib3d C13Contrib3dBoxProofs C13Contrib3dSpecProofs C13Contrib3dStepProofs C13Contrib3dInvProofs C13Contrib3dProofs.
From SharkV Require Import C13Hssp C13HsspEnvProofs C13HsspProofs C13HsspFrontProofs C13Disp C13DispProofs.
From SharkV Require Import C13Dc C13DcAuxProofs C13DcSweepProofs C13DcProofs.
From SharkV Require Import C13ContribMd C13ContribMdProofs C13ContribNoref C13ContribNorefProofs.
From SharkV Require Import C13Hoy C13HoyBoxProofs C13HoyCoverProofs C13HoyPileProofs C13HoySplitProofs C13HoyProofs C13HoyCorProofs.
Import ListNotations.

(* ---- dominance *)
Theorem C13_dominance_is_componentwise :
  forall a b : point, length a = length b ->
    (dominance a b = LhsDominates <-> dominates a b) /\
    (dominance a b = RhsDominates <-> dominates b a) /\
    (dominance a b = Equivalent <-> a = b) /\
    (dominance a b = Incomparable <-> ~ leq_all a b /\ ~ leq_all b a).
Proof. exact dominance_spec. Qed.
Print Assumptions C13_dominance_is_componentwise.

Theorem C13_dominates_by_coordinates :
  forall a b : point,
    dominates a b <->
    length a = length b /\
    (forall i, i < length a -> (nth i a 0 <= nth i b 0)%Z) /\
    (exists i, i < length a /\ (nth i a 0 < nth i b 0)%Z).
Proof. exact dominates_componentwise. Qed.
Print Assumptions C13_dominates_by_coordinates.

Theorem C13_dominance_strict_partial_order :
  (forall a, ~ dominates a a) /\
  (forall a b c, dominates a b -> dominates b c -> dominates a c) /\
  (forall a b, dominates a b -> ~ dominates b a).
Proof. exact (conj dominates_irrefl (conj dominates_trans dominates_asym)). Qed.
Print Assumptions C13_dominance_strict_partial_order.

(* ---- ranks *)
Theorem C13_rank_definition_unique :
  forall d S r r', same_dim d S -> is_rank_assignment S r -> is_rank_assignment S r' -> r = r'.
Proof. exact rank_unique. Qed.
Print Assumptions C13_rank_definition_unique.

Theorem C13_rank_list_satisfies_definition :
  forall d S, same_dim d S -> is_rank_assignment S (rank_list S).
Proof. exact rank_list_is_rank. Qed.
Print Assumptions C13_rank_list_satisfies_definition.

Theorem C13_rank_fronts_consistent :
  forall S r, is_rank_assignment S r ->
  forall i, i < length S ->
    1 <= nth i r 0 /\
    (forall j, j < length S -> domb (nth j S []) (nth i S []) = true -> nth j r 0 < nth i r 0) /\
    (1 < nth i r 0 -> exists j, j < length S /\ domb (nth j S []) (nth i S []) = true /\
                                Datatypes.S (nth j r 0) = nth i r 0) /\
    (nth i r 0 = 1 <-> forall j, j < length S -> domb (nth j S []) (nth i S []) = false).
Proof. exact rank_fronts_consistent. Qed.
Print Assumptions C13_rank_fronts_consistent.

(* the model of fastNonDominatedSort computes the rank definition (full statement) *)
Theorem C13_fast_sort :
  forall d S, same_dim d S -> fast_nds S = rank_list S.
Proof. exact fast_nds_eq_rank_list. Qed.
Print Assumptions C13_fast_sort.

Theorem C13_fast_sort_satisfies_definition :
  forall d S, same_dim d S -> is_rank_assignment S (fast_nds S).
Proof. exact fast_nds_is_rank. Qed.
Print Assumptions C13_fast_sort_satisfies_definition.

(* the hypotheses are satisfiable: example set with ties, duplicates and three fronts *)
Theorem C13_fast_sort_example :
  same_dim 2 [[1; 5]; [2; 3]; [2; 3]; [4; 4]; [3; 1]; [5; 5]; [1; 5]]%Z /\
  rank_list [[1; 5]; [2; 3]; [2; 3]; [4; 4]; [3; 1]; [5; 5]; [1; 5]]%Z = [1; 1; 1; 2; 1; 3; 1] /\
  fast_nds [[1; 5]; [2; 3]; [2; 3]; [4; 4]; [3; 1]; [5; 5]; [1; 5]]%Z = [1; 1; 1; 2; 1; 3; 1].
Proof. exact rank_example. Qed.
Print Assumptions C13_fast_sort_example.

(* ---- hypervolume spec *)
Theorem C13_hv_permutation_invariant :
  forall ref S S', Permutation S S' -> hv_spec ref S = hv_spec ref S'.
Proof. exact hv_spec_perm. Qed.
Print Assumptions C13_hv_permutation_invariant.

Theorem C13_hv_add_dominated :
  forall ref S q, (exists p, In p S /\ dominates p q) -> hv_spec ref (q :: S) = hv_spec ref S.
Proof. exact hv_spec_add_dominated. Qed.
Print Assumptions C13_hv_add_dominated.

Theorem C13_hv_add_duplicate :
  forall ref S q, In q S -> hv_spec ref (q :: S) = hv_spec ref S.
Proof. exact hv_spec_add_duplicate. Qed.
Print Assumptions C13_hv_add_duplicate.

Theorem C13_hv_monotone :
  forall ref S q, (hv_spec ref S <= hv_spec ref (q :: S))%Z.
Proof. exact hv_spec_monotone. Qed.
Print Assumptions C13_hv_monotone.

(* the lower end of the counting box is irrelevant: hv_spec is the measure of the dominated
   region bounded by the reference point only *)
Theorem C13_hv_lower_end_irrelevant :
  forall ref S lo, lower_bound lo S -> hv_spec ref S = hv_box lo (rev ref) (map (@rev Z) S).
Proof. exact hv_spec_any_lo. Qed.
Print Assumptions C13_hv_lower_end_irrelevant.

(* ---- 2-D sweep *)
Theorem C13_hv2d_correct :
  forall ref S, length ref = 2 -> below_ref ref S -> hv2d ref S = hv_spec ref S.
Proof. exact hv2d_correct. Qed.
Print Assumptions C13_hv2d_correct.

Theorem C13_hv2d_correct_any_tie_order :
  forall r0 r1 S L, below_ref [r0; r1] S ->
    (forall p, In p L <-> In p (map to_pair S)) -> sorted_x L ->
    hv2d_sweep r0 r1 L = hv_spec [r0; r1] S.
Proof. exact hv2d_sweep_correct. Qed.
Print Assumptions C13_hv2d_correct_any_tie_order.

Theorem C13_hv2d_example :
  below_ref [6; 6]%Z [[1; 5]; [2; 3]; [2; 3]; [4; 4]; [3; 1]]%Z /\
  hv2d [6; 6]%Z [[1; 5]; [2; 3]; [2; 3]; [4; 4]; [3; 1]]%Z = 19%Z.
Proof. exact hv2d_example. Qed.
Print Assumptions C13_hv2d_example.

(* ---- 2-D hypervolume contributions (HypervolumeContribution2D.h) *)
Theorem C13_contrib2d_correct :
  forall ref S, length ref = 2 -> below_ref ref S -> mutually_nondominated S ->
    Permutation (contrib2d_ref ref S) (combine (contribs_spec ref S) (seq 0 (length S))).
Proof. exact contrib2d_ref_correct. Qed.
Print Assumptions C13_contrib2d_correct.

Theorem C13_contrib2d_correct_strictly_below :
  forall ref S, length ref = 2 -> strictly_below ref S -> mutually_nondominated S ->
    Permutation (contrib2d_ref ref S) (combine (contribs_spec ref S) (seq 0 (length S))).
Proof. exact contrib2d_ref_correct_strict. Qed.
Print Assumptions C13_contrib2d_correct_strictly_below.

Theorem C13_contrib2d_value_per_index :
  forall ref S, length ref = 2 -> below_ref ref S -> mutually_nondominated S ->
  forall v i, In (v, i) (contrib2d_ref ref S) <-> (i < length S /\ v = contrib_spec ref S i).
Proof. exact contrib2d_ref_value. Qed.
Print Assumptions C13_contrib2d_value_per_index.

Theorem C13_contrib2d_correct_any_tie_order :
  forall r0 r1 S L s, below_ref [r0; r1] S -> mutually_nondominated S ->
    Permutation L (indexed S) -> StronglySorted lexR L ->
    Permutation (contribs r1 (L ++ [((r0, 0%Z), s)]))
                (combine (contribs_spec [r0; r1] S) (seq 0 (length S))).
Proof. exact contribs_any_tie_order. Qed.
Print Assumptions C13_contrib2d_correct_any_tie_order.

Theorem C13_contrib_duplicate_is_zero :
  forall (ref : point) (S : list point) i j, i < length S -> j < length S -> i <> j ->
    nth i S [] = nth j S [] -> contrib_spec ref S i = 0%Z.
Proof. exact contrib_spec_duplicate. Qed.
Print Assumptions C13_contrib_duplicate_is_zero.

Theorem C13_contrib2d_duplicate_is_zero :
  forall ref S v i j, length ref = 2 -> below_ref ref S -> mutually_nondominated S ->
    In (v, i) (contrib2d_ref ref S) -> j < length S -> i <> j -> nth i S [] = nth j S [] -> v = 0%Z.
Proof. exact contrib2d_ref_duplicate. Qed.
Print Assumptions C13_contrib2d_duplicate_is_zero.

Theorem C13_contrib2d_smallest_k :
  forall ref S k, length ref = 2 -> below_ref ref S -> mutually_nondominated S ->
    smallest_k k (map fst (contrib2d_ref ref S)) = smallest_k k (contribs_spec ref S).
Proof. exact smallest_k_contrib2d. Qed.
Print Assumptions C13_contrib2d_smallest_k.

Theorem C13_contrib2d_largest_k :
  forall ref S k, length ref = 2 -> below_ref ref S -> mutually_nondominated S ->
    largest_k k (map fst (contrib2d_ref ref S)) = largest_k k (contribs_spec ref S).
Proof. exact largest_k_contrib2d. Qed.
Print Assumptions C13_contrib2d_largest_k.

Theorem C13_contrib2d_smallest_k_extremal :
  forall ref S k, length ref = 2 -> below_ref ref S -> mutually_nondominated S -> k <= length S ->
    k_extremal Z.le k (smallest_k k (map fst (contrib2d_ref ref S))) (contribs_spec ref S).
Proof. exact smallest_k_contrib2d_extremal. Qed.
Print Assumptions C13_contrib2d_smallest_k_extremal.

Theorem C13_contrib2d_largest_k_extremal :
  forall ref S k, length ref = 2 -> below_ref ref S -> mutually_nondominated S -> k <= length S ->
    k_extremal Z.ge k (largest_k k (map fst (contrib2d_ref ref S))) (contribs_spec ref S).
Proof. exact largest_k_contrib2d_extremal. Qed.
Print Assumptions C13_contrib2d_largest_k_extremal.

Theorem C13_contrib2d_example :
  let S := [[1; 5]; [2; 3]; [4; 2]; [2; 3]; [5; 1]]%Z in
  strictly_below [6; 6]%Z S /\ below_ref [6; 6]%Z S /\ mutually_nondominated S /\
  contrib2d_ref [6; 6]%Z S = [(1%Z, 0); (0%Z, 1); (0%Z, 3); (1%Z, 2); (1%Z, 4)] /\
  contribs_spec [6; 6]%Z S = [1; 0; 1; 0; 1]%Z /\
  smallest_k 2 (map fst (contrib2d_ref [6; 6]%Z S)) = [0; 0]%Z /\
  largest_k 2 (map fst (contrib2d_ref [6; 6]%Z S)) = [1; 1]%Z.
Proof. exact contrib2d_example. Qed.
Print Assumptions C13_contrib2d_example.

(* ---- WFG recursion (HypervolumeCalculatorMDWFG.h) *)
Theorem C13_hv_inclusion_exclusion_cells :
  forall lo ref S p,
    (hv_box lo ref (p :: S) + hv_box lo ref (map (fun q => pmax q p) S) =
     hv_box lo ref S + hv_box lo ref [p])%Z.
Proof. exact hv_box_incl_excl. Qed.
Print Assumptions C13_hv_inclusion_exclusion_cells.

Theorem C13_hv_inclusion_exclusion :
  forall ref S p, below_ref ref (p :: S) ->
    hv_spec ref (p :: S) = (hv_spec ref S + box_vol ref p - hv_spec ref (map (fun q => pmax q p) S))%Z.
Proof. exact hv_spec_incl_excl. Qed.
Print Assumptions C13_hv_inclusion_exclusion.

Theorem C13_hv_single_point_is_box_volume :
  forall ref p, leq_all p ref -> hv_spec ref [p] = box_vol ref p.
Proof. exact hv_spec_single. Qed.
Print Assumptions C13_hv_single_point_is_box_volume.

Theorem C13_wfg_limit_set :
  forall arr ref S p u, (forall l, Permutation (arr l) l) -> below_ref ref (p :: S) ->
    (In u (limit_set arr S p) <->
     (exists q, In q S /\ u = pmax q p) /\ forall q, In q S -> ~ dominates (pmax q p) u).
Proof. exact limit_set_members. Qed.
Print Assumptions C13_wfg_limit_set.

Theorem C13_wfg_limit_set_hv :
  forall arr, (forall l, Permutation (arr l) l) ->
  forall ref rest p, below_ref ref (p :: rest) ->
    hv_spec ref (limit_set arr rest p) = hv_spec ref (map (fun q => pmax q p) rest).
Proof. exact limit_set_hv. Qed.
Print Assumptions C13_wfg_limit_set_hv.

Theorem C13_wfg_recursion_correct :
  forall arr, (forall l, Permutation (arr l) l) ->
  forall fuel ref pts, below_ref ref pts -> length pts <= fuel ->
    wfg_fuel arr fuel ref pts = hv_spec ref pts.
Proof. exact wfg_fuel_correct. Qed.
Print Assumptions C13_wfg_recursion_correct.

Theorem C13_wfg_correct_any_arrangement :
  forall arr, (forall l, Permutation (arr l) l) ->
  forall ref pts, below_ref ref pts -> wfg_top arr ref pts = hv_spec ref pts.
Proof. exact wfg_top_correct. Qed.
Print Assumptions C13_wfg_correct_any_arrangement.

Theorem C13_wfg_correct :
  forall ref pts, below_ref ref pts -> wfg ref pts = hv_spec ref pts.
Proof. exact wfg_correct. Qed.
Print Assumptions C13_wfg_correct.

Theorem C13_wfg_example :
  below_ref [6; 6; 6]%Z [[1; 5; 2]; [2; 3; 3]; [2; 3; 3]; [4; 4; 4]; [3; 1; 5]; [1; 4; 5]]%Z /\
  wfg [6; 6; 6]%Z [[1; 5; 2]; [2; 3; 3]; [2; 3; 3]; [4; 4; 4]; [3; 1; 5]; [1; 4; 5]]%Z = 51%Z /\
  hv_spec [6; 6; 6]%Z [[1; 5; 2]; [2; 3; 3]; [2; 3; 3]; [4; 4; 4]; [3; 1; 5]; [1; 4; 5]]%Z = 51%Z /\
  wfg [4; 4; 4; 4]%Z [[0; 3; 2; 1]; [1; 2; 3; 0]; [2; 1; 0; 3]; [3; 0; 1; 2]; [1; 1; 2; 2]]%Z =
  hv_spec [4; 4; 4; 4]%Z [[0; 3; 2; 1]; [1; 2; 3; 0]; [2; 1; 0; 3]; [3; 0; 1; 2]; [1; 1; 2; 2]]%Z.
Proof. exact wfg_example. Qed.
Print Assumptions C13_wfg_example.

(* ---- 3-D sweep (HypervolumeCalculator3D.h) *)
Theorem C13_hv3d_correct :
  forall ref S, length ref = 3 -> below_ref ref S -> hv3d ref S = hv_spec ref S.
Proof. exact hv3d_correct. Qed.
Print Assumptions C13_hv3d_correct.

Theorem C13_hv3d_correct_any_tie_order :
  forall r0 r1 r2 S L, below_ref [r0; r1; r2] S ->
    (forall t, In t L <-> In t (filter (strict3 r0 r1 r2) (map to_triple S))) -> sorted_z L ->
    sweep3d r0 r1 r2 L = hv_spec [r0; r1; r2] S.
Proof. exact sweep3d_correct. Qed.
Print Assumptions C13_hv3d_correct_any_tie_order.

Theorem C13_hv3d_example :
  below_ref [6; 6; 6]%Z [[1; 5; 2]; [2; 3; 3]; [2; 3; 3]; [4; 4; 4]; [3; 1; 5]; [1; 4; 5]; [2; 2; 3]; [6; 0; 0]]%Z /\
  hv3d [6; 6; 6]%Z [[1; 5; 2]; [2; 3; 3]; [2; 3; 3]; [4; 4; 4]; [3; 1; 5]; [1; 4; 5]; [2; 2; 3]; [6; 0; 0]]%Z = 60%Z /\
  hv_spec [6; 6; 6]%Z [[1; 5; 2]; [2; 3; 3]; [2; 3; 3]; [4; 4; 4]; [3; 1; 5]; [1; 4; 5]; [2; 2; 3]; [6; 0; 0]]%Z = 60%Z.
Proof. exact hv3d_example. Qed.
Print Assumptions C13_hv3d_example.

(* ---- 2-D subset selection (HypervolumeSubsetSelection2D.h, overload with reference point) *)
Theorem C13_hssp_upper_envelope :
  forall funs xs, length funs = length xs ->
    (forall i j, i < j < length funs -> (la (nth i funs dl) < la (nth j funs dl))%Z) ->
    (forall i j, i <= j < length xs -> (nth i xs 0 <= nth j xs 0)%Z) ->
    (forall j, j < length funs -> lidx (nth j funs dl) = j) ->
    length (envelope funs xs) = length xs /\
    forall t, t < length xs ->
      snd (nth t (envelope funs xs) d0) <= t /\
      ev (nth (snd (nth t (envelope funs xs) d0)) funs dl) (nth t xs 0%Z) = fst (nth t (envelope funs xs) d0) /\
      forall j, j <= t -> (ev (nth j funs dl) (nth t xs 0%Z) <= fst (nth t (envelope funs xs) d0))%Z.
Proof. exact envelope_ok. Qed.
Print Assumptions C13_hssp_upper_envelope.

Theorem C13_hssp_optimal_any_arrangement :
  forall env arr ref S k sel,
    env_ok env -> arr_ok arr -> length ref = 2 -> below_ref ref S ->
    hssp2d_gen env arr ref S k = Some sel ->
    length sel = length S /\ count_true sel <= k /\ (forall p, In p (pick sel S) -> In p S) /\
    forall T, incl T S -> length T <= k -> (hv_spec ref T <= hv_spec ref (pick sel S))%Z.
Proof. exact hssp2d_gen_optimal. Qed.
Print Assumptions C13_hssp_optimal_any_arrangement.

Theorem C13_hssp_sort_instance :
  forall l, Permutation (isort fp_lt l) l /\ StronglySorted (fun a b => (px a <= px b)%Z) (isort fp_lt l).
Proof. exact isort_arr_ok. Qed.
Print Assumptions C13_hssp_sort_instance.

Theorem C13_hssp_optimal :
  forall ref S k sel, length ref = 2 -> below_ref ref S -> hssp2d ref S k = Some sel ->
    length sel = length S /\ count_true sel <= k /\ (forall p, In p (pick sel S) -> In p S) /\
    forall T, incl T S -> length T <= k -> (hv_spec ref T <= hv_spec ref (pick sel S))%Z.
Proof. exact hssp2d_optimal. Qed.
Print Assumptions C13_hssp_optimal.

Theorem C13_hssp_is_best_subset :
  forall ref S k sel, length ref = 2 -> below_ref ref S -> hssp2d ref S k = Some sel ->
    hv_spec ref (pick sel S) = best_subset_hv k ref S.
Proof. exact hssp2d_is_best_subset. Qed.
Print Assumptions C13_hssp_is_best_subset.

Theorem C13_hssp_example :
  below_ref [8; 8]%Z [[1; 6]; [2; 4]; [2; 5]; [3; 4]; [5; 1]; [2; 4]; [4; 2]; [1; 7]]%Z /\
  hssp2d [8; 8]%Z [[1; 6]; [2; 4]; [2; 5]; [3; 4]; [5; 1]; [2; 4]; [4; 2]; [1; 7]]%Z 3 =
    Some [false; true; false; false; true; false; true; false] /\
  hv_spec [8; 8]%Z (pick [false; true; false; false; true; false; true; false]
                       [[1; 6]; [2; 4]; [2; 5]; [3; 4]; [5; 1]; [2; 4]; [4; 2]; [1; 7]]%Z) = 35%Z /\
  best_subset_hv 3 [8; 8]%Z [[1; 6]; [2; 4]; [2; 5]; [3; 4]; [5; 1]; [2; 4]; [4; 2]; [1; 7]]%Z = 35%Z.
Proof. exact hssp2d_example. Qed.
Print Assumptions C13_hssp_example.

(* ---- front end HypervolumeCalculator.h *)
Theorem C13_hv_dispatcher_correct :
  forall hoy ref S, length ref <> 4 -> below_ref ref S -> hv_dispatch hoy ref S = hv_spec ref S.
Proof. exact hv_dispatch_correct. Qed.
Print Assumptions C13_hv_dispatcher_correct.

Theorem C13_hv_dispatcher_correct_given_hoy :
  forall hoy ref S,
    (forall ref S, length ref = 4 -> below_ref ref S -> hoy ref S = hv_spec ref S) ->
    below_ref ref S -> hv_dispatch hoy ref S = hv_spec ref S.
Proof. exact hv_dispatch_correct_all. Qed.
Print Assumptions C13_hv_dispatcher_correct_given_hoy.

Theorem C13_hv_dispatcher_example :
  below_ref [3; 3; 3; 3; 3]%Z [[0; 2; 1; 2; 0]; [1; 1; 1; 1; 1]; [2; 0; 2; 0; 2]; [1; 1; 1; 1; 1]]%Z /\
  hv_dispatch (fun _ _ => 0%Z) [3; 3; 3; 3; 3]%Z [[0; 2; 1; 2; 0]; [1; 1; 1; 1; 1]; [2; 0; 2; 0; 2]; [1; 1; 1; 1; 1]]%Z =
  hv_spec [3; 3; 3; 3; 3]%Z [[0; 2; 1; 2; 0]; [1; 1; 1; 1; 1]; [2; 0; 2; 0; 2]; [1; 1; 1; 1; 1]]%Z.
Proof. exact hv_dispatch_example. Qed.
Print Assumptions C13_hv_dispatcher_example.

(* ---- divide-and-conquer sort (DCNonDominatedSort.h) and the sorting front end (NonDominatedSort.h) *)
Theorem C13_dc_sort :
  forall d S, 2 <= d -> same_dim d S -> dc_nds S = rank_list S.
Proof. exact dc_nds_eq_rank_list. Qed.
Print Assumptions C13_dc_sort.

Theorem C13_dc_sort_satisfies_definition :
  forall d S, 2 <= d -> same_dim d S -> is_rank_assignment S (dc_nds S).
Proof. exact dc_nds_is_rank. Qed.
Print Assumptions C13_dc_sort_satisfies_definition.

(* the two recursive procedures, for every lexicographically sorted array of distinct vectors [pts] of dimension m,
   every strictly increasing index lists and every assignment of positive front indices; the fuel bound is part of
   the statement *)
Theorem C13_dc_helperB_spec :
  forall pts m, 2 <= m ->
    (forall i, i < length pts -> length (P pts i) = m) ->
    (forall i j, i < j < length pts -> lexlt (P pts i) (P pts j)) ->
  forall fuel L H k f,
    2 <= k <= m -> incr pts L -> incr pts H -> (forall x, In x H -> ~ In x L) -> fpos pts f ->
    length L + length H + k <= fuel ->
    length (helperB pts fuel L H k f) = length f /\
    (forall x, ~ In x H -> frt_of (helperB pts fuel L H k f) x = frt_of f x) /\
    forall h, In h H ->
      frt_of (helperB pts fuel L H k f) h =
      Nat.max (frt_of f h) (list_max (map (fun l => frt_of f l + 1) (filter (fun l => wdomb pts k l h) L))).
Proof. exact helperB_correct. Qed.
Print Assumptions C13_dc_helperB_spec.

Theorem C13_dc_helperA_spec :
  forall pts m, 2 <= m ->
    (forall i, i < length pts -> length (P pts i) = m) ->
    (forall i j, i < j < length pts -> lexlt (P pts i) (P pts j)) ->
  forall fuel S k f,
    2 <= k <= m -> incr pts S -> distinctk pts k S -> fpos pts f -> length S + k <= fuel ->
    length (helperA pts fuel S k f) = length f /\
    (forall x, ~ In x S -> frt_of (helperA pts fuel S k f) x = frt_of f x) /\
    forall x, In x S ->
      frt_of (helperA pts fuel S k f) x =
      Nat.max (frt_of f x)
        (list_max (map (fun y => frt_of (helperA pts fuel S k f) y + 1) (filter (fun y => sdomb pts k y x) S))).
Proof. exact helperA_correct. Qed.
Print Assumptions C13_dc_helperA_spec.

(* std::sort + std::unique produce the strictly sorted array of the distinct vectors; std::lower_bound finds them *)
Theorem C13_dc_sort_unique :
  forall m S, same_dim m S ->
    StronglySorted lexlt (dc_uniq (dc_sort S)) /\ forall x, In x (dc_uniq (dc_sort S)) <-> In x S.
Proof. exact dc_uniq_sort_spec. Qed.
Print Assumptions C13_dc_sort_unique.

Theorem C13_nds_front_end_any_choice :
  forall choose d S, 2 <= d -> same_dim d S -> nds_front_gen choose S = rank_list S.
Proof. exact nds_front_gen_eq_rank_list. Qed.
Print Assumptions C13_nds_front_end_any_choice.

Theorem C13_nds_front_end :
  forall d S, 2 <= d -> same_dim d S -> nds_front S = rank_list S.
Proof. exact nds_front_eq_rank_list. Qed.
Print Assumptions C13_nds_front_end.

Theorem C13_wfg_limit_set_via_front_end :
  forall choose arr d S p, 2 <= d -> length p = d -> same_dim d S ->
    arr (nd_front_via (nds_front_gen choose) (map (fun q => pmax q p) S)) = limit_set arr S p.
Proof. exact limit_set_via_front_end. Qed.
Print Assumptions C13_wfg_limit_set_via_front_end.

Theorem C13_dc_sort_example :
  same_dim 3 [[1; 5; 2]; [2; 3; 3]; [2; 3; 3]; [4; 4; 4]; [3; 1; 5]; [1; 4; 5]; [2; 2; 3]; [6; 0; 0]; [4; 4; 5]; [1; 5; 2]]%Z /\
  dc_nds [[1; 5; 2]; [2; 3; 3]; [2; 3; 3]; [4; 4; 4]; [3; 1; 5]; [1; 4; 5]; [2; 2; 3]; [6; 0; 0]; [4; 4; 5]; [1; 5; 2]]%Z
    = [1; 2; 2; 3; 1; 1; 1; 1; 4; 1] /\
  rank_list [[1; 5; 2]; [2; 3; 3]; [2; 3; 3]; [4; 4; 4]; [3; 1; 5]; [1; 4; 5]; [2; 2; 3]; [6; 0; 0]; [4; 4; 5]; [1; 5; 2]]%Z
    = [1; 2; 2; 3; 1; 1; 1; 1; 4; 1] /\
  nds_front [[0; 1; 1; 0]; [1; 0; 0; 1]; [1; 1; 1; 1]; [0; 1; 1; 0]; [2; 1; 1; 1]; [0; 0; 1; 1]]%Z = [1; 1; 2; 1; 3; 1].
Proof. exact dc_nds_example. Qed.
Print Assumptions C13_dc_sort_example.

(* ---- HypervolumeContributionMD.h (with reference point) and the k-smallest / k-largest selection *)
Theorem C13_contrib_md_correct :
  forall hoy ref S, 2 <= length ref -> length ref <> 4 -> below_ref ref S ->
    contribs_md_inst hoy ref S = combine (contribs_spec ref S) (seq 0 (length S)).
Proof. exact (fun hoy ref S H2 H4 HB => contribs_md_inst_correct hoy ref S H2 (or_introl H4) HB). Qed.
Print Assumptions C13_contrib_md_correct.

Theorem C13_contrib_md_correct_given_hoy :
  forall hoy ref S, 2 <= length ref ->
    (forall ref S, length ref = 4 -> below_ref ref S -> hoy ref S = hv_spec ref S) -> below_ref ref S ->
    contribs_md_inst hoy ref S = combine (contribs_spec ref S) (seq 0 (length S)).
Proof. exact (fun hoy ref S H2 H4 HB => contribs_md_inst_correct hoy ref S H2 (or_intror H4) HB). Qed.
Print Assumptions C13_contrib_md_correct_given_hoy.

(* for every hypervolume routine and every sorting routine that are correct on the restricted sets *)
Theorem C13_contrib_md_correct_any_parts :
  forall hv ranks ref S i,
    (forall L, same_dim (length ref) L -> ranks L = rank_list L) ->
    (forall S', below_ref ref S' -> hv ref S' = hv_spec ref S') ->
    below_ref ref S -> i < length S ->
    contrib_md hv ranks ref S i = contrib_spec ref S i.
Proof. exact contrib_md_correct. Qed.
Print Assumptions C13_contrib_md_correct_any_parts.

Theorem C13_restrict_set_is_limit_set :
  forall ranks S p, ranks (map (fun q => pmax q p) S) = rank_list (map (fun q => pmax q p) S) ->
    Permutation (restrict_set ranks S p) (nd_front (map (fun q => pmax q p) S)).
Proof. exact restrict_set_perm. Qed.
Print Assumptions C13_restrict_set_is_limit_set.

Theorem C13_select_smallest_entries :
  forall vals l k, Permutation l (combine vals (seq 0 (length vals))) -> k <= length vals ->
    map fst (smallest_kv k l) = smallest_k k vals /\ length (smallest_kv k l) = k /\
    NoDup (map snd (smallest_kv k l)) /\
    forall v i, In (v, i) (smallest_kv k l) -> i < length vals /\ v = nth i vals 0%Z.
Proof. exact smallest_kv_spec. Qed.
Print Assumptions C13_select_smallest_entries.

Theorem C13_select_largest_entries :
  forall vals l k, Permutation l (combine vals (seq 0 (length vals))) -> k <= length vals ->
    map fst (largest_kv k l) = largest_k k vals /\ length (largest_kv k l) = k /\
    NoDup (map snd (largest_kv k l)) /\
    forall v i, In (v, i) (largest_kv k l) -> i < length vals /\ v = nth i vals 0%Z.
Proof. exact largest_kv_spec. Qed.
Print Assumptions C13_select_largest_entries.

Theorem C13_contrib_md_smallest :
  forall hoy ref S k, 2 <= length ref ->
    (length ref <> 4 \/ forall ref S, length ref = 4 -> below_ref ref S -> hoy ref S = hv_spec ref S) ->
    below_ref ref S -> k <= length S ->
    let res := smallest_kv k (contribs_md_inst hoy ref S) in
    map fst res = smallest_k k (contribs_spec ref S) /\ length res = k /\ NoDup (map snd res) /\
    forall v i, In (v, i) res -> i < length S /\ v = contrib_spec ref S i.
Proof. exact md_smallest_correct. Qed.
Print Assumptions C13_contrib_md_smallest.

Theorem C13_contrib_md_largest :
  forall hoy ref S k, 2 <= length ref ->
    (length ref <> 4 \/ forall ref S, length ref = 4 -> below_ref ref S -> hoy ref S = hv_spec ref S) ->
    below_ref ref S -> k <= length S ->
    let res := largest_kv k (contribs_md_inst hoy ref S) in
    map fst res = largest_k k (contribs_spec ref S) /\ length res = k /\ NoDup (map snd res) /\
    forall v i, In (v, i) res -> i < length S /\ v = contrib_spec ref S i.
Proof. exact md_largest_correct. Qed.
Print Assumptions C13_contrib_md_largest.

Theorem C13_contrib_md_example :
  let S := [[0; 3; 2; 1; 1]; [1; 2; 3; 0; 1]; [2; 1; 0; 3; 1]; [1; 2; 3; 0; 1]; [3; 0; 1; 2; 0]]%Z in
  let ref := [4; 4; 4; 4; 2]%Z in
  below_ref ref S /\
  contribs_md_inst (fun _ _ => 0%Z) ref S = [(12%Z, 0); (0%Z, 1); (12%Z, 2); (0%Z, 3); (36%Z, 4)] /\
  contribs_spec ref S = [12; 0; 12; 0; 36]%Z /\
  smallest_kv 2 (contribs_md_inst (fun _ _ => 0%Z) ref S) = [(0%Z, 3); (0%Z, 1)] /\
  largest_kv 2 (contribs_md_inst (fun _ _ => 0%Z) ref S) = [(36%Z, 4); (12%Z, 0)].
Proof. exact contrib_md_example. Qed.
Print Assumptions C13_contrib_md_example.

(* ---- HypervolumeContribution3D.h (with reference point) *)
Theorem C13_contrib3d_correct :
  forall ref S, length ref = 3 -> below_ref ref S -> mutually_nondominated S ->
    Permutation (contribs3d ref S) (combine (contribs_spec ref S) (seq 0 (length S))).
Proof. exact contribs3d_correct. Qed.
Print Assumptions C13_contrib3d_correct.

Theorem C13_contrib3d_entries :
  forall r0 r1 r2 S, below_ref [r0; r1; r2] S -> mutually_nondominated S ->
    contribs3d [r0; r1; r2] S =
    map (fun a => (contrib_spec [r0; r1; r2] S (idx a), idx a)) (sort_f3 (translate3 [r0; r1; r2] S)).
Proof. exact contribs3d_entries. Qed.
Print Assumptions C13_contrib3d_entries.

Theorem C13_contrib3d_value_per_index :
  forall ref S v i, length ref = 3 -> below_ref ref S -> mutually_nondominated S ->
    In (v, i) (contribs3d ref S) -> i < length S /\ v = contrib_spec ref S i.
Proof. exact contribs3d_value. Qed.
Print Assumptions C13_contrib3d_value_per_index.

Theorem C13_contrib3d_smallest :
  forall ref S k, length ref = 3 -> below_ref ref S -> mutually_nondominated S -> k <= length S ->
    let res := contrib3d_smallest ref S k in
    map fst res = smallest_k k (contribs_spec ref S) /\ length res = k /\ NoDup (map snd res) /\
    forall v i, In (v, i) res -> i < length S /\ v = contrib_spec ref S i.
Proof. exact contrib3d_smallest_correct. Qed.
Print Assumptions C13_contrib3d_smallest.

Theorem C13_contrib3d_largest :
  forall ref S k, length ref = 3 -> below_ref ref S -> mutually_nondominated S -> k <= length S ->
    let res := contrib3d_largest ref S k in
    map fst res = largest_k k (contribs_spec ref S) /\ length res = k /\ NoDup (map snd res) /\
    forall v i, In (v, i) res -> i < length S /\ v = contrib_spec ref S i.
Proof. exact contrib3d_largest_correct. Qed.
Print Assumptions C13_contrib3d_largest.

(* the sweep on any array sorted by the third objective whose members are pairwise not weakly dominated unless equal
   in the first two objectives: position k gets the number of cells dominated by point k and by no other position *)
Theorem C13_contrib3d_sweep :
  forall pts c0 b0 a0 ninf,
    (forall i j, i <= j < length pts -> (f3 (nth i pts C13Contrib3dSpecProofs.d0) <= f3 (nth j pts C13Contrib3dSpecProofs.d0))%Z) ->
    (forall a, In a pts -> (c0 <= f1 a <= 0)%Z /\ (b0 <= f2 a <= 0)%Z /\ (a0 <= f3 a <= 0)%Z) ->
    (forall a, In a pts -> (ninf < f1 a)%Z /\ (ninf < f2 a)%Z) -> (a0 <= 0)%Z ->
    (forall i j, i < length pts -> j < length pts ->
       (f1 (nth i pts C13Contrib3dSpecProofs.d0) <= f1 (nth j pts C13Contrib3dSpecProofs.d0))%Z -> (f2 (nth i pts C13Contrib3dSpecProofs.d0) <= f2 (nth j pts C13Contrib3dSpecProofs.d0))%Z ->
       (f3 (nth i pts C13Contrib3dSpecProofs.d0) <= f3 (nth j pts C13Contrib3dSpecProofs.d0))%Z ->
       f1 (nth i pts C13Contrib3dSpecProofs.d0) = f1 (nth j pts C13Contrib3dSpecProofs.d0) /\ f2 (nth i pts C13Contrib3dSpecProofs.d0) = f2 (nth j pts C13Contrib3dSpecProofs.d0)) ->
    (forall k, k < length pts -> nth k (map fst (all_contributions3d ninf pts)) 0%Z = EV c0 b0 a0 pts k 0) /\
    length (all_contributions3d ninf pts) = length pts /\
    map snd (all_contributions3d ninf pts) = map idx pts.
Proof. exact all_contributions3d_values. Qed.
Print Assumptions C13_contrib3d_sweep.

Theorem C13_contrib_spec_cells :
  forall r0 r1 r2 S i lo, below_ref [r0; r1; r2] S -> lower_bound lo S -> i < length S ->
    contrib_spec [r0; r1; r2] S i = EV (lo - r0) (lo - r1) (lo - r2) (translate3 [r0; r1; r2] S) i 0.
Proof. exact contrib_spec_cells. Qed.
Print Assumptions C13_contrib_spec_cells.

Theorem C13_contrib3d_example :
  let S := [[1; 5; 2]; [2; 3; 3]; [2; 3; 3]; [3; 1; 5]; [1; 4; 5]; [2; 2; 4]; [6; 0; 6]; [0; 6; 6]]%Z in
  let ref := [6; 6; 6]%Z in
  below_ref ref S /\ mutually_nondominated S /\
  contribs3d ref S = [(7%Z, 0); (0%Z, 2); (0%Z, 1); (5%Z, 5); (1%Z, 4); (3%Z, 3); (0%Z, 7); (0%Z, 6)] /\
  contribs_spec ref S = [7; 0; 0; 3; 1; 5; 0; 0]%Z /\
  contrib3d_smallest ref S 3 = [(0%Z, 6); (0%Z, 7); (0%Z, 1)] /\
  contrib3d_largest ref S 2 = [(7%Z, 0); (5%Z, 5)].
Proof. exact contrib3d_example. Qed.
Print Assumptions C13_contrib3d_example.

(* ---- front end HypervolumeContribution.h with reference point *)
Theorem C13_contrib_front_correct :
  forall hoy ref S, 2 <= length ref -> hoy_ok hoy ref -> below_ref ref S ->
    (length ref <= 3 -> mutually_nondominated S) ->
    Permutation (contribs_front hoy ref S) (combine (contribs_spec ref S) (seq 0 (length S))).
Proof. exact contribs_front_correct. Qed.
Print Assumptions C13_contrib_front_correct.

Theorem C13_contrib_front_smallest :
  forall hoy ref S k, 2 <= length ref -> hoy_ok hoy ref -> below_ref ref S ->
    (length ref <= 3 -> mutually_nondominated S) -> k <= length S ->
    let res := contrib_front_smallest hoy ref S k in
    map fst res = smallest_k k (contribs_spec ref S) /\ length res = k /\ NoDup (map snd res) /\
    forall v i, In (v, i) res -> i < length S /\ v = contrib_spec ref S i.
Proof. exact contrib_front_smallest_correct. Qed.
Print Assumptions C13_contrib_front_smallest.

Theorem C13_contrib_front_largest :
  forall hoy ref S k, 2 <= length ref -> hoy_ok hoy ref -> below_ref ref S ->
    (length ref <= 3 -> mutually_nondominated S) -> k <= length S ->
    let res := contrib_front_largest hoy ref S k in
    map fst res = largest_k k (contribs_spec ref S) /\ length res = k /\ NoDup (map snd res) /\
    forall v i, In (v, i) res -> i < length S /\ v = contrib_spec ref S i.
Proof. exact contrib_front_largest_correct. Qed.
Print Assumptions C13_contrib_front_largest.

(* ---- overloads WITHOUT reference point (implicit reference point, extreme points appended last) *)
Theorem C13_noref_front_correct :
  forall hoy largest S k d, S <> [] -> same_dim d S -> 2 <= d ->
    (d <> 4 \/ forall ref S, length ref = 4 -> below_ref ref S -> hoy ref S = hv_spec ref S) ->
    (d <= 3 -> mutually_nondominated S) -> k <= length S ->
    length (noref_front hoy largest S k) = k /\ NoDup (map snd (noref_front hoy largest S k)) /\
    forall v i, In (v, i) (noref_front hoy largest S k) ->
      i < length S /\ v = contrib_spec (implicit_ref S) S i.
Proof. exact noref_front_correct. Qed.
Print Assumptions C13_noref_front_correct.

Theorem C13_noref2d_correct :
  forall largest S k, S <> [] -> same_dim 2 S -> mutually_nondominated S -> k <= length S ->
    noref_ok (implicit_ref S) S k (noref2d largest S k).
Proof. exact noref2d_correct. Qed.
Print Assumptions C13_noref2d_correct.

Theorem C13_noref3d_correct :
  forall largest S k, S <> [] -> same_dim 3 S -> mutually_nondominated S -> k <= length S ->
    noref_ok (implicit_ref S) S k (noref3d largest S k).
Proof. exact noref3d_correct. Qed.
Print Assumptions C13_noref3d_correct.

Theorem C13_norefmd_correct :
  forall hoy largest S k d, S <> [] -> same_dim d S -> 2 <= d ->
    (d <> 4 \/ forall ref S, length ref = 4 -> below_ref ref S -> hoy ref S = hv_spec ref S) -> k <= length S ->
    noref_ok (implicit_ref S) S k (norefmd hoy largest S k).
Proof. exact norefmd_correct. Qed.
Print Assumptions C13_norefmd_correct.

Theorem C13_noref2d_shape :
  forall largest S k,
    noref2d largest S k =
    select_rest largest (sort_kv (interior2d S)) k ++
    firstn (k - length (select_rest largest (sort_kv (interior2d S)) k)) (extremes2d S).
Proof. exact noref2d_sel_append. Qed.
Print Assumptions C13_noref2d_shape.

Theorem C13_noref2d_implicit_reference :
  forall S, S <> [] -> same_dim 2 S -> ref2d_of (sort_lex (indexed S)) = implicit_ref S.
Proof. exact ref2d_is_implicit. Qed.
Print Assumptions C13_noref2d_implicit_reference.

Theorem C13_implicit_reference_is_weakly_dominated :
  forall d S, S <> [] -> same_dim d S -> length (implicit_ref S) = d /\ below_ref (implicit_ref S) S.
Proof. exact implicit_ref_spec. Qed.
Print Assumptions C13_implicit_reference_is_weakly_dominated.

Theorem C13_noref_example :
  let S := [[1; 5; 2]; [2; 3; 3]; [2; 3; 3]; [3; 1; 5]; [1; 4; 5]; [2; 2; 4]]%Z in
  let S2 := [[1; 5]; [2; 3]; [4; 2]; [2; 3]; [5; 1]]%Z in
  same_dim 3 S /\ mutually_nondominated S /\ implicit_ref S = [3; 5; 5]%Z /\
  noref_front (fun _ _ => 0%Z) false S 5 = [(0%Z, 4); (0%Z, 1); (0%Z, 2); (1%Z, 5); (0%Z, 0)] /\
  noref_front (fun _ _ => 0%Z) true S 2 = [(1%Z, 5); (0%Z, 2)] /\
  same_dim 2 S2 /\ mutually_nondominated S2 /\ implicit_ref S2 = [5; 5]%Z /\
  noref_front (fun _ _ => 0%Z) false S2 5 = [(0%Z, 3); (0%Z, 1); (1%Z, 2); (0%Z, 0); (0%Z, 4)].
Proof. exact noref_example. Qed.
Print Assumptions C13_noref_example.

(* ---- HypervolumeCalculatorMDHOY (C13Hoy.v) *)
Theorem C13_hoy_correct :
  forall ref S, ref <> [] -> below_ref ref S -> hoy ref S = hv_spec ref S.
Proof. exact hoy_correct. Qed.
Print Assumptions C13_hoy_correct.

Theorem C13_hoy_correct_any_tie_order :
  forall arr : list (list Z * Z) -> list (list Z * Z),
    (forall l, Permutation (arr l) l) -> (forall l, StronglySorted by_last (arr l)) ->
    forall ref S, ref <> [] -> below_ref ref S -> hoy_top arr ref S = hv_spec ref S.
Proof. exact hoy_top_correct. Qed.
Print Assumptions C13_hoy_correct_any_tie_order.

Theorem C13_hoy_stream_measure :
  forall fuel sq low up pts split cover zlo,
    length low = length up -> Forall2 Z.le low up -> wf_pts low up zlo cover pts ->
    StronglySorted by_last pts -> split_inv low pts split -> mu low pts < fuel ->
    stream fuel sq low up pts split cover = vol low up zlo cover pts.
Proof. exact stream_correct. Qed.
Print Assumptions C13_hoy_stream_measure.

Theorem C13_hoy_split_search_stays_inside :
  forall sq low up pts split cover zlo r,
    length low = length up -> wf_pts low up zlo cover pts -> StronglySorted by_last pts -> split_inv low pts split ->
    stream_node sq low up pts split cover <> NStuck r.
Proof. exact stream_node_not_stuck. Qed.
Print Assumptions C13_hoy_split_search_stays_inside.

Theorem C13_hoy_fuel_sufficient :
  forall low (pts : list (list Z * Z)) m,
    (forall p, In p pts -> Datatypes.S (length (fst p)) = m) -> mu low pts < stream_fuel (length pts) m.
Proof. exact hoy_top_fuel_sufficient. Qed.
Print Assumptions C13_hoy_fuel_sufficient.

Theorem C13_hoy_trellis_formula :
  forall low up tr, length low = length up -> length low = length tr ->
    compute_trellis low up tr = (lprod (edges up low) - lprod (edges tr low))%Z.
Proof. exact compute_trellis_formula. Qed.
Print Assumptions C13_hoy_trellis_formula.

Theorem C13_hoy_cover_step :
  forall low up pts cover zlo,
    length low = length up -> (forall p, In p pts -> length (fst p) = length low) ->
    StronglySorted by_last pts -> (forall p, In p pts -> (zlo <= snd p < cover)%Z) -> Forall2 Z.le low up ->
    forall cover' k res, cover_step low up pts cover = (cover', k, res) ->
      vol low up zlo cover pts = (res + vol low up zlo cover' (firstn k pts))%Z.
Proof. exact cover_step_vol. Qed.
Print Assumptions C13_hoy_cover_step.

Theorem C13_hoy_pile_sweep :
  forall low up, length low = length up -> Forall2 Z.le low up ->
    forall P pl zlo cover res, pile_list low P = Some pl -> P <> [] ->
      (forall p, In p P -> length (fst p) = length low /\ covers (fst p) low = false /\ (zlo <= snd p < cover)%Z) ->
      StronglySorted by_last P ->
      pile_sweep low up up pl cover res = (res + vol low up zlo cover P)%Z.
Proof. exact pile_sweep_vol. Qed.
Print Assumptions C13_hoy_pile_sweep.

Theorem C13_hoy_spec_is_measure :
  forall ref T lo, ref <> [] -> (forall p, In p T -> length p = length ref) -> lower_bound lo T ->
    hv_spec ref T = vol (repeat lo (length ref - 1)) (removelast ref) lo (last ref 0%Z) (map to_hpt T).
Proof. exact hv_spec_vol. Qed.
Print Assumptions C13_hoy_spec_is_measure.

Theorem C13_hoy_doubling :
  forall ref S, hv_spec (dbl ref) (map dbl S) = (2 ^ Z.of_nat (length ref) * hv_spec ref S)%Z.
Proof. exact hv_spec_dbl. Qed.
Print Assumptions C13_hoy_doubling.

Theorem C13_hoy_example :
  below_ref [4; 4; 4; 4]%Z [[0; 3; 2; 1]; [1; 2; 3; 0]; [2; 1; 0; 3]; [3; 0; 1; 2]; [1; 1; 2; 2]; [0; 2; 2; 3]; [2; 2; 1; 4]; [1; 3; 0; 2]; [1; 3; 0; 2]]%Z /\
  hoy [4; 4; 4; 4]%Z [[0; 3; 2; 1]; [1; 2; 3; 0]; [2; 1; 0; 3]; [3; 0; 1; 2]; [1; 1; 2; 2]; [0; 2; 2; 3]; [2; 2; 1; 4]; [1; 3; 0; 2]; [1; 3; 0; 2]]%Z = 87%Z /\
  hv_spec [4; 4; 4; 4]%Z [[0; 3; 2; 1]; [1; 2; 3; 0]; [2; 1; 0; 3]; [3; 0; 1; 2]; [1; 1; 2; 2]; [0; 2; 2; 3]; [2; 2; 1; 4]; [1; 3; 0; 2]; [1; 3; 0; 2]]%Z = 87%Z.
Proof. exact hoy_example. Qed.
Print Assumptions C13_hoy_example.

(* ---- unconditional corollaries: the extracted HOY model in the HOY slot *)
Theorem C13_hv_dispatcher_correct_all_dimensions :
  forall ref S, below_ref ref S -> hv_dispatch hoy ref S = hv_spec ref S.
Proof. exact hv_dispatch_hoy_correct. Qed.
Print Assumptions C13_hv_dispatcher_correct_all_dimensions.

Theorem C13_contrib_md_correct_all_dimensions :
  forall ref S, 2 <= length ref -> below_ref ref S ->
    contribs_md_inst hoy ref S = combine (contribs_spec ref S) (seq 0 (length S)).
Proof. exact contribs_md_hoy_correct. Qed.
Print Assumptions C13_contrib_md_correct_all_dimensions.

Theorem C13_contrib_md_smallest_all_dimensions :
  forall ref S k, 2 <= length ref -> below_ref ref S -> k <= length S ->
    let res := smallest_kv k (contribs_md_inst hoy ref S) in
    map fst res = smallest_k k (contribs_spec ref S) /\ length res = k /\ NoDup (map snd res) /\
    forall v i, In (v, i) res -> i < length S /\ v = contrib_spec ref S i.
Proof. exact md_smallest_hoy_correct. Qed.
Print Assumptions C13_contrib_md_smallest_all_dimensions.

Theorem C13_contrib_md_largest_all_dimensions :
  forall ref S k, 2 <= length ref -> below_ref ref S -> k <= length S ->
    let res := largest_kv k (contribs_md_inst hoy ref S) in
    map fst res = largest_k k (contribs_spec ref S) /\ length res = k /\ NoDup (map snd res) /\
    forall v i, In (v, i) res -> i < length S /\ v = contrib_spec ref S i.
Proof. exact md_largest_hoy_correct. Qed.
Print Assumptions C13_contrib_md_largest_all_dimensions.

Theorem C13_contrib_front_correct_all_dimensions :
  forall ref S, 2 <= length ref -> below_ref ref S -> (length ref <= 3 -> mutually_nondominated S) ->
    Permutation (contribs_front hoy ref S) (combine (contribs_spec ref S) (seq 0 (length S))).
Proof. exact contribs_front_hoy_correct. Qed.
Print Assumptions C13_contrib_front_correct_all_dimensions.

Theorem C13_contrib_front_smallest_all_dimensions :
  forall ref S k, 2 <= length ref -> below_ref ref S -> (length ref <= 3 -> mutually_nondominated S) -> k <= length S ->
    let res := contrib_front_smallest hoy ref S k in
    map fst res = smallest_k k (contribs_spec ref S) /\ length res = k /\ NoDup (map snd res) /\
    forall v i, In (v, i) res -> i < length S /\ v = contrib_spec ref S i.
Proof. exact contrib_front_smallest_hoy_correct. Qed.
Print Assumptions C13_contrib_front_smallest_all_dimensions.

Theorem C13_contrib_front_largest_all_dimensions :
  forall ref S k, 2 <= length ref -> below_ref ref S -> (length ref <= 3 -> mutually_nondominated S) -> k <= length S ->
    let res := contrib_front_largest hoy ref S k in
    map fst res = largest_k k (contribs_spec ref S) /\ length res = k /\ NoDup (map snd res) /\
    forall v i, In (v, i) res -> i < length S /\ v = contrib_spec ref S i.
Proof. exact contrib_front_largest_hoy_correct. Qed.
Print Assumptions C13_contrib_front_largest_all_dimensions.

Theorem C13_noref_front_correct_all_dimensions :
  forall largest S k d, S <> [] -> same_dim d S -> 2 <= d -> (d <= 3 -> mutually_nondominated S) -> k <= length S ->
    length (noref_front hoy largest S k) = k /\ NoDup (map snd (noref_front hoy largest S k)) /\
    forall v i, In (v, i) (noref_front hoy largest S k) -> i < length S /\ v = contrib_spec (implicit_ref S) S i.
Proof. exact noref_front_hoy_correct. Qed.
Print Assumptions C13_noref_front_correct_all_dimensions.
