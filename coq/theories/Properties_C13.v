(* C13 — Pareto dominance, non-dominated sorting and hypervolume computations are exact.
   Only statements + `exact`; proofs live in C13Proofs.v, the executable model in C13Model.v.

   PROVED here (axiom-free, over Z / lists, all sizes and dimensions):
     * the coded four-valued dominance relation (ParetoDominance.h) is the component-wise
       definition; dominance is a strict partial order;
     * the rank definition "rank p = 1 + max rank of the points dominating p" has exactly one
       solution on every point set of uniform dimension, the executable rank_list computes it,
       and any solution has consistent fronts (rank 1 = non-dominated, every point of rank r>1
       is dominated by a point of rank r-1 and by no point of rank >= r);
     * hv_spec (unit-slice HSO recursion over the dimension = number of unit cells dominated by
       the set inside the box below the reference point, last objective sliced first) is
       invariant under permutation, under adding duplicates, under adding (weakly) dominated
       points, and monotone;
     * the 2-D sort-and-sweep of HypervolumeCalculator2D.h equals hv_spec in dimension 2 for every
       arrangement of the points that is sorted by the first objective (std::sort leaves ties
       unspecified) and for the model's insertion sort in particular;
     * fast_nds (model of FastNonDominatedSort.h: domination counts + front peeling with the fuel the
       code's loop structure provides) = rank_list on every point set of uniform dimension
       (C13_fast_sort: loop invariant "after k fronts the counts are the numbers of not yet peeled
       dominators and the front is exactly the set of points of rank k+1");
     * contrib2d_ref (model of HypervolumeContribution2D.h: lexicographic sort, sentinels, the term
       (x_next - x)(y_prev - y)) = contrib_spec = hv_spec S - hv_spec (S without p) for every mutually
       non-dominated 2-D set below the reference point, duplicates included (contribution 0), for every
       order std::sort may leave equal points in; hence the k smallest / largest reported contributions
       are the k extremal true contributions (theorems C13_contrib2d_...).
   NOT PROVED, only compared on every run (tools/c13.py, exact integer arithmetic):
     * DC sort, the dispatcher, 3-D sweep, HOY, WFG, 3-D/MD contributions, 2-D subset
       selection: differential test of the C++ against rank_list / hv_spec / contrib_spec /
       best_subset_hv (extracted) and against an independent Python monitor. *)
From Coq Require Import List ZArith Permutation Sorted.
From SharkV Require Import ListAux C13Model C13Proofs C13ProofsFast C13ProofsContrib.
Import ListNotations.

(* ---- dominance *)
Theorem C13_dominance_is_componentwise :
  forall a b : point, length a = length b ->
    (dominance a b = LhsDominates <-> dominates a b) /\
    (dominance a b = RhsDominates <-> dominates b a) /\
    (dominance a b = Equivalent <-> a = b) /\
    (dominance a b = Incomparable <-> ~ leq_all a b /\ ~ leq_all b a).
Proof. exact dominance_spec. Qed.
Print Assumptions C13_dominance_is_componentwise.

Theorem C13_dominates_by_coordinates :
  forall a b : point,
    dominates a b <->
    length a = length b /\
    (forall i, i < length a -> (nth i a 0 <= nth i b 0)%Z) /\
    (exists i, i < length a /\ (nth i a 0 < nth i b 0)%Z).
Proof. exact dominates_componentwise. Qed.
Print Assumptions C13_dominates_by_coordinates.

Theorem C13_dominance_strict_partial_order :
  (forall a, ~ dominates a a) /\
  (forall a b c, dominates a b -> dominates b c -> dominates a c) /\
  (forall a b, dominates a b -> ~ dominates b a).
Proof. exact (conj dominates_irrefl (conj dominates_trans dominates_asym)). Qed.
Print Assumptions C13_dominance_strict_partial_order.

(* ---- ranks *)
Theorem C13_rank_definition_unique :
  forall d S r r', same_dim d S -> is_rank_assignment S r -> is_rank_assignment S r' -> r = r'.
Proof. exact rank_unique. Qed.
Print Assumptions C13_rank_definition_unique.

Theorem C13_rank_list_satisfies_definition :
  forall d S, same_dim d S -> is_rank_assignment S (rank_list S).
Proof. exact rank_list_is_rank. Qed.
Print Assumptions C13_rank_list_satisfies_definition.

Theorem C13_rank_fronts_consistent :
  forall S r, is_rank_assignment S r ->
  forall i, i < length S ->
    1 <= nth i r 0 /\
    (forall j, j < length S -> domb (nth j S []) (nth i S []) = true -> nth j r 0 < nth i r 0) /\
    (1 < nth i r 0 -> exists j, j < length S /\ domb (nth j S []) (nth i S []) = true /\
                                Datatypes.S (nth j r 0) = nth i r 0) /\
    (nth i r 0 = 1 <-> forall j, j < length S -> domb (nth j S []) (nth i S []) = false).
Proof. exact rank_fronts_consistent. Qed.
Print Assumptions C13_rank_fronts_consistent.

(* the model of fastNonDominatedSort computes the rank definition (full statement) *)
Theorem C13_fast_sort :
  forall d S, same_dim d S -> fast_nds S = rank_list S.
Proof. exact fast_nds_eq_rank_list. Qed.
Print Assumptions C13_fast_sort.

Theorem C13_fast_sort_satisfies_definition :
  forall d S, same_dim d S -> is_rank_assignment S (fast_nds S).
Proof. exact fast_nds_is_rank. Qed.
Print Assumptions C13_fast_sort_satisfies_definition.

(* the hypotheses are satisfiable: example set with ties, duplicates and three fronts *)
Theorem C13_fast_sort_example :
  same_dim 2 [[1; 5]; [2; 3]; [2; 3]; [4; 4]; [3; 1]; [5; 5]; [1; 5]]%Z /\
  rank_list [[1; 5]; [2; 3]; [2; 3]; [4; 4]; [3; 1]; [5; 5]; [1; 5]]%Z = [1; 1; 1; 2; 1; 3; 1] /\
  fast_nds [[1; 5]; [2; 3]; [2; 3]; [4; 4]; [3; 1]; [5; 5]; [1; 5]]%Z = [1; 1; 1; 2; 1; 3; 1].
Proof. exact rank_example. Qed.
Print Assumptions C13_fast_sort_example.

(* ---- hypervolume spec *)
Theorem C13_hv_permutation_invariant :
  forall ref S S', Permutation S S' -> hv_spec ref S = hv_spec ref S'.
Proof. exact hv_spec_perm. Qed.
Print Assumptions C13_hv_permutation_invariant.

Theorem C13_hv_add_dominated :
  forall ref S q, (exists p, In p S /\ dominates p q) -> hv_spec ref (q :: S) = hv_spec ref S.
Proof. exact hv_spec_add_dominated. Qed.
Print Assumptions C13_hv_add_dominated.

Theorem C13_hv_add_duplicate :
  forall ref S q, In q S -> hv_spec ref (q :: S) = hv_spec ref S.
Proof. exact hv_spec_add_duplicate. Qed.
Print Assumptions C13_hv_add_duplicate.

Theorem C13_hv_monotone :
  forall ref S q, (hv_spec ref S <= hv_spec ref (q :: S))%Z.
Proof. exact hv_spec_monotone. Qed.
Print Assumptions C13_hv_monotone.

(* the lower end of the counting box is irrelevant: hv_spec is the measure of the dominated
   region bounded by the reference point only *)
Theorem C13_hv_lower_end_irrelevant :
  forall ref S lo, lower_bound lo S -> hv_spec ref S = hv_box lo (rev ref) (map (@rev Z) S).
Proof. exact hv_spec_any_lo. Qed.
Print Assumptions C13_hv_lower_end_irrelevant.

(* ---- 2-D sweep *)
Theorem C13_hv2d_correct :
  forall ref S, length ref = 2 -> below_ref ref S -> hv2d ref S = hv_spec ref S.
Proof. exact hv2d_correct. Qed.
Print Assumptions C13_hv2d_correct.

Theorem C13_hv2d_correct_any_tie_order :
  forall r0 r1 S L, below_ref [r0; r1] S ->
    (forall p, In p L <-> In p (map to_pair S)) -> sorted_x L ->
    hv2d_sweep r0 r1 L = hv_spec [r0; r1] S.
Proof. exact hv2d_sweep_correct. Qed.
Print Assumptions C13_hv2d_correct_any_tie_order.

Theorem C13_hv2d_example :
  below_ref [6; 6]%Z [[1; 5]; [2; 3]; [2; 3]; [4; 4]; [3; 1]]%Z /\
  hv2d [6; 6]%Z [[1; 5]; [2; 3]; [2; 3]; [4; 4]; [3; 1]]%Z = 19%Z.
Proof. exact hv2d_example. Qed.
Print Assumptions C13_hv2d_example.

(* ---- 2-D hypervolume contributions (HypervolumeContribution2D.h) *)
Theorem C13_contrib2d_correct :
  forall ref S, length ref = 2 -> below_ref ref S -> mutually_nondominated S ->
    Permutation (contrib2d_ref ref S) (combine (contribs_spec ref S) (seq 0 (length S))).
Proof. exact contrib2d_ref_correct. Qed.
Print Assumptions C13_contrib2d_correct.

Theorem C13_contrib2d_correct_strictly_below :
  forall ref S, length ref = 2 -> strictly_below ref S -> mutually_nondominated S ->
    Permutation (contrib2d_ref ref S) (combine (contribs_spec ref S) (seq 0 (length S))).
Proof. exact contrib2d_ref_correct_strict. Qed.
Print Assumptions C13_contrib2d_correct_strictly_below.

Theorem C13_contrib2d_value_per_index :
  forall ref S, length ref = 2 -> below_ref ref S -> mutually_nondominated S ->
  forall v i, In (v, i) (contrib2d_ref ref S) <-> (i < length S /\ v = contrib_spec ref S i).
Proof. exact contrib2d_ref_value. Qed.
Print Assumptions C13_contrib2d_value_per_index.

Theorem C13_contrib2d_correct_any_tie_order :
  forall r0 r1 S L s, below_ref [r0; r1] S -> mutually_nondominated S ->
    Permutation L (indexed S) -> StronglySorted lexR L ->
    Permutation (contribs r1 (L ++ [((r0, 0%Z), s)]))
                (combine (contribs_spec [r0; r1] S) (seq 0 (length S))).
Proof. exact contribs_any_tie_order. Qed.
Print Assumptions C13_contrib2d_correct_any_tie_order.

Theorem C13_contrib_duplicate_is_zero :
  forall (ref : point) (S : list point) i j, i < length S -> j < length S -> i <> j ->
    nth i S [] = nth j S [] -> contrib_spec ref S i = 0%Z.
Proof. exact contrib_spec_duplicate. Qed.
Print Assumptions C13_contrib_duplicate_is_zero.

Theorem C13_contrib2d_duplicate_is_zero :
  forall ref S v i j, length ref = 2 -> below_ref ref S -> mutually_nondominated S ->
    In (v, i) (contrib2d_ref ref S) -> j < length S -> i <> j -> nth i S [] = nth j S [] -> v = 0%Z.
Proof. exact contrib2d_ref_duplicate. Qed.
Print Assumptions C13_contrib2d_duplicate_is_zero.

Theorem C13_contrib2d_smallest_k :
  forall ref S k, length ref = 2 -> below_ref ref S -> mutually_nondominated S ->
    smallest_k k (map fst (contrib2d_ref ref S)) = smallest_k k (contribs_spec ref S).
Proof. exact smallest_k_contrib2d. Qed.
Print Assumptions C13_contrib2d_smallest_k.

Theorem C13_contrib2d_largest_k :
  forall ref S k, length ref = 2 -> below_ref ref S -> mutually_nondominated S ->
    largest_k k (map fst (contrib2d_ref ref S)) = largest_k k (contribs_spec ref S).
Proof. exact largest_k_contrib2d. Qed.
Print Assumptions C13_contrib2d_largest_k.

Theorem C13_contrib2d_smallest_k_extremal :
  forall ref S k, length ref = 2 -> below_ref ref S -> mutually_nondominated S -> k <= length S ->
    k_extremal Z.le k (smallest_k k (map fst (contrib2d_ref ref S))) (contribs_spec ref S).
Proof. exact smallest_k_contrib2d_extremal. Qed.
Print Assumptions C13_contrib2d_smallest_k_extremal.

Theorem C13_contrib2d_largest_k_extremal :
  forall ref S k, length ref = 2 -> below_ref ref S -> mutually_nondominated S -> k <= length S ->
    k_extremal Z.ge k (largest_k k (map fst (contrib2d_ref ref S))) (contribs_spec ref S).
Proof. exact largest_k_contrib2d_extremal. Qed.
Print Assumptions C13_contrib2d_largest_k_extremal.

Theorem C13_contrib2d_example :
  let S := [[1; 5]; [2; 3]; [4; 2]; [2; 3]; [5; 1]]%Z in
  strictly_below [6; 6]%Z S /\ below_ref [6; 6]%Z S /\ mutually_nondominated S /\
  contrib2d_ref [6; 6]%Z S = [(1%Z, 0); (0%Z, 1); (0%Z, 3); (1%Z, 2); (1%Z, 4)] /\
  contribs_spec [6; 6]%Z S = [1; 0; 1; 0; 1]%Z /\
  smallest_k 2 (map fst (contrib2d_ref [6; 6]%Z S)) = [0; 0]%Z /\
  largest_k 2 (map fst (contrib2d_ref [6; 6]%Z S)) = [1; 1]%Z.
Proof. exact contrib2d_example. Qed.
Print Assumptions C13_contrib2d_example.

