(* C13 — Pareto dominance, non-dominated sorting and hypervolume computations are exact.
   Only statements + `exact`; proofs live in C13Proofs.v, the executable model in C13Model.v.

   PROVED here (axiom-free, over Z / lists, all sizes and dimensions):
     * the coded four-valued dominance relation (ParetoDominance.h) is the component-wise
       definition; dominance is a strict partial order;
     * the rank definition "rank p = 1 + max rank of the points dominating p" has exactly one
       solution on every point set of uniform dimension, the executable rank_list computes it,
       and any solution has consistent fronts (rank 1 = non-dominated, every point of rank r>1
       is dominated by a point of rank r-1 and by no point of rank >= r);
     * hv_spec (unit-slice HSO recursion over the dimension = number of unit cells dominated by
       the set inside the box below the reference point, last objective sliced first) is
       invariant under permutation, under adding duplicates, under adding (weakly) dominated
       points, and monotone;
     * the 2-D sort-and-sweep of HypervolumeCalculator2D.h equals hv_spec in dimension 2 for every
       arrangement of the points that is sorted by the first objective (std::sort leaves ties
       unspecified) and for the model's insertion sort in particular.
   NOT PROVED, only compared on every run (tools/c13.py, exact integer arithmetic):
     * fast_nds (model of FastNonDominatedSort.h: domination counts + front peeling) = rank_list:
       the full statement is in the comment at C13_fast_sort_partial below; the model is executed
       next to rank_list on every generated case and must agree;
     * DC sort, the dispatcher, 3-D sweep, HOY, WFG, 2-D/3-D/MD contributions, 2-D subset
       selection: differential test of the C++ against rank_list / hv_spec / contrib_spec /
       best_subset_hv (extracted) and against an independent Python monitor;
     * contrib2d_ref (model of HypervolumeContribution2D.h) = contrib_spec on mutually
       non-dominated sets: compared on every run, not proved. *)
From Coq Require Import List ZArith Permutation.
From SharkV Require Import ListAux C13Model C13Proofs.
Import ListNotations.

(* ---- dominance *)
Theorem C13_dominance_is_componentwise :
  forall a b : point, length a = length b ->
    (dominance a b = LhsDominates <-> dominates a b) /\
    (dominance a b = RhsDominates <-> dominates b a) /\
    (dominance a b = Equivalent <-> a = b) /\
    (dominance a b = Incomparable <-> ~ leq_all a b /\ ~ leq_all b a).
Proof. exact dominance_spec. Qed.
Print Assumptions C13_dominance_is_componentwise.

Theorem C13_dominates_by_coordinates :
  forall a b : point,
    dominates a b <->
    length a = length b /\
    (forall i, i < length a -> (nth i a 0 <= nth i b 0)%Z) /\
    (exists i, i < length a /\ (nth i a 0 < nth i b 0)%Z).
Proof. exact dominates_componentwise. Qed.
Print Assumptions C13_dominates_by_coordinates.

Theorem C13_dominance_strict_partial_order :
  (forall a, ~ dominates a a) /\
  (forall a b c, dominates a b -> dominates b c -> dominates a c) /\
  (forall a b, dominates a b -> ~ dominates b a).
Proof. exact (conj dominates_irrefl (conj dominates_trans dominates_asym)). Qed.
Print Assumptions C13_dominance_strict_partial_order.

(* ---- ranks *)
Theorem C13_rank_definition_unique :
  forall d S r r', same_dim d S -> is_rank_assignment S r -> is_rank_assignment S r' -> r = r'.
Proof. exact rank_unique. Qed.
Print Assumptions C13_rank_definition_unique.

Theorem C13_rank_list_satisfies_definition :
  forall d S, same_dim d S -> is_rank_assignment S (rank_list S).
Proof. exact rank_list_is_rank. Qed.
Print Assumptions C13_rank_list_satisfies_definition.

Theorem C13_rank_fronts_consistent :
  forall S r, is_rank_assignment S r ->
  forall i, i < length S ->
    1 <= nth i r 0 /\
    (forall j, j < length S -> domb (nth j S []) (nth i S []) = true -> nth j r 0 < nth i r 0) /\
    (1 < nth i r 0 -> exists j, j < length S /\ domb (nth j S []) (nth i S []) = true /\
                                Datatypes.S (nth j r 0) = nth i r 0) /\
    (nth i r 0 = 1 <-> forall j, j < length S -> domb (nth j S []) (nth i S []) = false).
Proof. exact rank_fronts_consistent. Qed.
Print Assumptions C13_rank_fronts_consistent.

(* Full statement wanted for the model of fastNonDominatedSort (NOT proved; compared on every run):
     forall d S, same_dim d S -> fast_nds S = rank_list S.
   Proved part: on the example set (ties, duplicates, three fronts) both give the same ranks, and
   the hypotheses of the rank theorems are satisfiable. *)
Theorem C13_fast_sort_partial :
  same_dim 2 [[1; 5]; [2; 3]; [2; 3]; [4; 4]; [3; 1]; [5; 5]; [1; 5]]%Z /\
  rank_list [[1; 5]; [2; 3]; [2; 3]; [4; 4]; [3; 1]; [5; 5]; [1; 5]]%Z = [1; 1; 1; 2; 1; 3; 1] /\
  fast_nds [[1; 5]; [2; 3]; [2; 3]; [4; 4]; [3; 1]; [5; 5]; [1; 5]]%Z = [1; 1; 1; 2; 1; 3; 1].
Proof. exact rank_example. Qed.
Print Assumptions C13_fast_sort_partial.

(* ---- hypervolume spec *)
Theorem C13_hv_permutation_invariant :
  forall ref S S', Permutation S S' -> hv_spec ref S = hv_spec ref S'.
Proof. exact hv_spec_perm. Qed.
Print Assumptions C13_hv_permutation_invariant.

Theorem C13_hv_add_dominated :
  forall ref S q, (exists p, In p S /\ dominates p q) -> hv_spec ref (q :: S) = hv_spec ref S.
Proof. exact hv_spec_add_dominated. Qed.
Print Assumptions C13_hv_add_dominated.

Theorem C13_hv_add_duplicate :
  forall ref S q, In q S -> hv_spec ref (q :: S) = hv_spec ref S.
Proof. exact hv_spec_add_duplicate. Qed.
Print Assumptions C13_hv_add_duplicate.

Theorem C13_hv_monotone :
  forall ref S q, (hv_spec ref S <= hv_spec ref (q :: S))%Z.
Proof. exact hv_spec_monotone. Qed.
Print Assumptions C13_hv_monotone.

(* the lower end of the counting box is irrelevant: hv_spec is the measure of the dominated
   region bounded by the reference point only *)
Theorem C13_hv_lower_end_irrelevant :
  forall ref S lo, lower_bound lo S -> hv_spec ref S = hv_box lo (rev ref) (map (@rev Z) S).
Proof. exact hv_spec_any_lo. Qed.
Print Assumptions C13_hv_lower_end_irrelevant.

(* ---- 2-D sweep *)
Theorem C13_hv2d_correct :
  forall ref S, length ref = 2 -> below_ref ref S -> hv2d ref S = hv_spec ref S.
Proof. exact hv2d_correct. Qed.
Print Assumptions C13_hv2d_correct.

Theorem C13_hv2d_correct_any_tie_order :
  forall r0 r1 S L, below_ref [r0; r1] S ->
    (forall p, In p L <-> In p (map to_pair S)) -> sorted_x L ->
    hv2d_sweep r0 r1 L = hv_spec [r0; r1] S.
Proof. exact hv2d_sweep_correct. Qed.
Print Assumptions C13_hv2d_correct_any_tie_order.

Theorem C13_hv2d_example :
  below_ref [6; 6]%Z [[1; 5]; [2; 3]; [2; 3]; [4; 4]; [3; 1]]%Z /\
  hv2d [6; 6]%Z [[1; 5]; [2; 3]; [2; 3]; [4; 4]; [3; 1]]%Z = 19%Z.
Proof. exact hv2d_example. Qed.
Print Assumptions C13_hv2d_example.
