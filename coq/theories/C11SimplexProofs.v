(* C11 — SimplexDownhill (C11DirectModel.sd_init / sd_step / sd_run): proofs.
   Generic part over any arithmetic [ops] (no axioms), order part over Q. *)
From Coq Require Import List Arith Bool QArith Lia Lqa Permutation Sorted.
From SharkV Require Import C11Model C11DirectModel C11Proofs.
Import ListNotations.
Set Implicit Arguments.

(* ================================================================ sorting tagged lists = sorting the payloads by their key *)
Section Tag.
Variables (A P : Type) (O : ops A).

Definition tag (k : P -> A) (p : P) : A * P := (k p, p).

Fixpoint pinsert (k : P -> A) (x : P) (l : list P) : list P :=
  match l with
  | [] => [x]
  | y :: t => if o_ltb O (k y) (k x) then y :: pinsert k x t else x :: y :: t
  end.
Definition psort (k : P -> A) (l : list P) : list P := fold_right (pinsert k) [] l.

Lemma insert_tag k x l : insert O (tag k x) (map (tag k) l) = map (tag k) (pinsert k x l).
Proof.
  induction l as [|y t IH]; cbn [insert map pinsert tag fst snd]; auto.
  destruct (o_ltb O (k y) (k x)); cbn [map]; auto. f_equal. exact IH.
Qed.

Lemma isort_tag k l : isort O (map (tag k) l) = map (tag k) (psort k l).
Proof.
  induction l as [|x t IH]; cbn [map isort fold_right psort]; auto.
  change (fold_right (insert (P:=P) O) [] (map (tag k) t)) with (isort O (map (tag k) t)).
  rewrite IH. apply insert_tag.
Qed.

(* two key functions that order every pair of payloads identically *)
Definition oeq (k1 k2 : P -> A) := forall x y, o_ltb O (k1 x) (k1 y) = o_ltb O (k2 x) (k2 y).

Lemma pinsert_oeq k1 k2 : oeq k1 k2 -> forall x l, pinsert k1 x l = pinsert k2 x l.
Proof.
  intros H x l. induction l as [|y t IH]; cbn [pinsert]; auto.
  rewrite (H y x), IH. reflexivity.
Qed.

Lemma psort_oeq k1 k2 : oeq k1 k2 -> forall l, psort k1 l = psort k2 l.
Proof.
  intros H l. induction l as [|x t IH]; cbn [psort fold_right]; auto.
  change (fold_right (pinsert k1) [] t) with (psort k1 t). change (fold_right (pinsert k2) [] t) with (psort k2 t).
  rewrite IH. apply pinsert_oeq; auto.
Qed.

Lemma pinsert_length k x l : length (pinsert k x l) = S (length l).
Proof. induction l as [|y t IH]; cbn [pinsert length]; auto. destruct (o_ltb O (k y) (k x)); cbn [length]; auto. Qed.

Lemma psort_length k l : length (psort k l) = length l.
Proof.
  induction l as [|x t IH]; cbn [psort fold_right length]; auto.
  change (fold_right (pinsert k) [] t) with (psort k t). rewrite pinsert_length, IH. reflexivity.
Qed.

Lemma select_tag k mu l : select O mu (map (tag k) l) = map (tag k) (firstn mu (psort k l)).
Proof. unfold select. rewrite isort_tag, firstn_map. reflexivity. Qed.

Lemma payload_tag k l : map snd (map (tag k) l) = l.
Proof. rewrite map_map. cbn [tag snd]. apply map_id. Qed.

End Tag.

(* ================================================================ SimplexDownhill: the step on the level of points *)
Section SimplexGeneric.
Variable A : Type.
Variable O : ops A.
Notation pt := (pvec A).
Notation solA := (sol A).

Definition shr (bp p : pt) : pt := map2 (fun x y => o_add O (o_mul O (sd_half O) x) (o_mul O (sd_half O) y)) bp p.

Fixpoint pshrink (f : pt -> A) (bp : pt) (rest : list pt) (b : solA) : list pt * solA :=
  match rest with
  | [] => ([], b)
  | p :: t => let r := pshrink f bp t (sd_track O b (tag f (shr bp p))) in (shr bp p :: fst r, snd r)
  end.

Lemma shrink_nf f bp : forall rest b,
  sd_shrink O f bp (map (tag f) rest) b = (map (tag f) (fst (pshrink f bp rest b)), snd (pshrink f bp rest b)).
Proof.
  induction rest as [|p t IH]; intro b; cbn [map sd_shrink pshrink fst snd]; auto.
  change (snd (tag f p)) with p. change (sd_eval f) with (tag f).
  fold (shr bp p). rewrite IH. cbn [fst snd map]. reflexivity.
Qed.

Lemma shrink_nf' f bp rest l b : l = map (tag f) rest ->
  sd_shrink O f bp l b = (map (tag f) (fst (pshrink f bp rest b)), snd (pshrink f bp rest b)).
Proof. intro E. subst l. apply shrink_nf. Qed.

Definition centroid (keep : list pt) (dim : nat) : pt :=
  map (fun a => o_div O a (o_ofnat O dim)) (fold_left (fun acc p => vadd O acc p) keep (vzero O dim)).
Definition refl (x0 w : pt) : pt := map2 (fun c w => o_sub O (o_mul O (o_two O) c) w) x0 w.
Definition expa (x0 w : pt) : pt := map2 (fun c w => o_sub O (o_mul O (sd_three O) c) (o_mul O (o_two O) w)) x0 w.
Definition cont (x0 w : pt) : pt := map2 (fun c w => o_add O (o_mul O (sd_half O) c) (o_mul O (sd_half O) w)) x0 w.

(* [qs]: the points of the simplex sorted by value *)
Definition pstep (f : pt -> A) (qs : list pt) (b : solA) : list pt * solA :=
  let dim := pred (length qs) in
  let q0 := nth 0 qs [] in
  let w := nth dim qs [] in
  let keep := firstn dim qs in
  let x0 := centroid keep dim in
  let xr := refl x0 w in
  let b1 := sd_track O b (tag f xr) in
  if negb (o_ltb O (f xr) (f q0)) && o_ltb O (f xr) (f (nth (pred dim) qs [])) then (keep ++ [xr], b1)
  else if o_ltb O (f xr) (f q0) then
    let xe := expa x0 w in
    let b2 := sd_track O b1 (tag f xe) in
    if o_ltb O (f xe) (f xr) then (keep ++ [xe], b2) else (keep ++ [xr], b2)
  else
    let xc := cont x0 w in
    let b2 := sd_track O b1 (tag f xc) in
    if o_ltb O (f xc) (f w) then (keep ++ [xc], b2)
    else let r := pshrink f q0 (tl qs) b2 in (q0 :: fst r, snd r).

Lemma fold_left_tagged f (l : list pt) : forall acc,
  fold_left (fun acc (v : solA) => vadd O acc (snd v)) (map (tag f) l) acc = fold_left (fun acc p => vadd O acc p) l acc.
Proof. induction l as [|p t IH]; intro acc; cbn [map fold_left]; auto. Qed.

Lemma nth_tagged f (l : list pt) i : (i < length l)%nat -> nth i (map (tag f) l) (sd_dflt O) = tag f (nth i l []).
Proof.
  intro L. rewrite (nth_indep _ (sd_dflt O) (tag f [])); [|rewrite map_length; exact L]. apply map_nth.
Qed.

Lemma step_nf f ps b : ps <> [] ->
  sd_step O f (mkSd (map (tag f) ps) b) =
  mkSd (map (tag f) (fst (pstep f (psort O f ps) b))) (snd (pstep f (psort O f ps) b)).
Proof.
  intro NE. unfold sd_step, pstep, centroid, refl, expa, cont. cbn [sd_simplex sd_best]. cbv zeta.
  unfold pvec, sol, vec in *.
  rewrite isort_tag. pose proof (psort_length O f ps) as Lq.
  set (qs := psort O f ps) in *.
  assert (length qs <> 0%nat) as Lne by (rewrite Lq; destruct ps; [congruence|discriminate]).
  rewrite !map_length.
  set (dim := pred (length qs)) in *.
  assert (0 < length qs)%nat as L0 by lia. assert (dim < length qs)%nat as Ld by (unfold dim; lia).
  assert (pred dim < length qs)%nat as Lp by lia.
  rewrite !nth_tagged by assumption.
  rewrite firstn_map, fold_left_tagged.
  change (sd_eval f) with (tag f). cbn [tag fst snd]. unfold pvec, sol, vec in *.
  repeat match goal with |- context [if ?c then _ else _] => destruct c end; cbn [fst snd]; try (rewrite map_app; reflexivity).
  assert (tl (map (tag f) qs) = map (tag f) (tl qs)) as Et by (destruct qs; reflexivity).
  match goal with |- context [sd_shrink O f ?bp ?l ?b] => rewrite (@shrink_nf' f bp (tl qs) l b Et) end.
  cbn [fst snd map]. reflexivity.
Qed.

Local Notation init_step := (sd_init_step O).

Lemma sd_init_fold k start :
  sd_init O k start = fold_left (init_step k start) (seq 1 (length start)) (mkSd (map (tag k) [sd_vertex O start 0]) (tag k (sd_vertex O start 0))).
Proof. reflexivity. Qed.

Lemma old_sd_init_fold k big p0 start :
  old_sd_init O k big p0 start = fold_left (init_step k start) (seq 0 (S (length start))) (mkSd [] (big, p0)).
Proof. reflexivity. Qed.

(* ---------------------------------------------------------------- rank invariance of one step *)
Section TwoOracles.
Variables f g : pt -> A.
Hypothesis H : oeq O f g.

(* the two tracked best solutions sit at the same point and compare identically with every objective value *)
Definition Rbest (b1 b2 : solA) := snd b1 = snd b2 /\ forall x, o_ltb O (f x) (fst b1) = o_ltb O (g x) (fst b2).

Lemma track_rel b1 b2 p : Rbest b1 b2 -> Rbest (sd_track O b1 (tag f p)) (sd_track O b2 (tag g p)).
Proof.
  intros [E L]. unfold sd_track, tag; cbn [fst snd]. rewrite L.
  destruct (o_ltb O (g p) (fst b2)) eqn:D; rewrite ?D; split; cbn [fst snd]; auto.
Qed.

Lemma pshrink_rel bp : forall rest b1 b2, Rbest b1 b2 ->
  fst (pshrink f bp rest b1) = fst (pshrink g bp rest b2) /\ Rbest (snd (pshrink f bp rest b1)) (snd (pshrink g bp rest b2)).
Proof.
  induction rest as [|p t IH]; intros b1 b2 R; cbn [pshrink fst snd]; auto.
  destruct (IH _ _ (track_rel (shr bp p) R)) as [E R']. split; [f_equal; exact E|exact R'].
Qed.

Lemma pstep_rel qs b1 b2 : Rbest b1 b2 ->
  fst (pstep f qs b1) = fst (pstep g qs b2) /\ Rbest (snd (pstep f qs b1)) (snd (pstep g qs b2)).
Proof.
  intro R. unfold pstep.
  set (dim := pred (length qs)). set (x0 := centroid (firstn dim qs) dim). set (w := nth dim qs []).
  rewrite !(H (refl x0 w)), !(H (expa x0 w)), !(H (cont x0 w)).
  pose proof (track_rel (refl x0 w) R) as R1.
  destruct (negb (o_ltb O (g (refl x0 w)) (g (nth 0 qs []))) && o_ltb O (g (refl x0 w)) (g (nth (pred dim) qs []))).
  - cbn [fst snd]. auto.
  - destruct (o_ltb O (g (refl x0 w)) (g (nth 0 qs []))).
    + pose proof (track_rel (expa x0 w) R1) as R2.
      destruct (o_ltb O (g (expa x0 w)) (g (refl x0 w))); cbn [fst snd]; auto.
    + pose proof (track_rel (cont x0 w) R1) as R2.
      destruct (o_ltb O (g (cont x0 w)) (g w)); cbn [fst snd]; auto.
      destruct (pshrink_rel (nth 0 qs []) (tl qs) R2) as [E R3]. split; [f_equal; exact E|exact R3].
Qed.

(* states: same points, values taken from the respective oracle *)
Definition Rstate (s1 s2 : sd_state A) :=
  exists ps, ps <> [] /\ sd_simplex s1 = map (tag f) ps /\ sd_simplex s2 = map (tag g) ps /\ Rbest (sd_best s1) (sd_best s2).

Lemma pstep_nonempty k qs b : fst (pstep k qs b) <> [].
Proof.
  unfold pstep.
  repeat match goal with |- context [if ?c then _ else _] => destruct c end; cbn [fst snd];
    try (intro E; apply app_eq_nil in E; destruct E; discriminate); discriminate.
Qed.

Lemma step_rel s1 s2 : Rstate s1 s2 -> Rstate (sd_step O f s1) (sd_step O g s2).
Proof.
  intros (ps & NE & E1 & E2 & R). destruct s1 as [x1 b1], s2 as [x2 b2]. cbn [sd_simplex sd_best] in *. subst x1 x2.
  rewrite !step_nf by exact NE. rewrite <- (psort_oeq H ps).
  destruct (pstep_rel (psort O f ps) R) as [E R'].
  exists (fst (pstep f (psort O f ps) b1)). cbn [sd_simplex sd_best].
  split; [apply pstep_nonempty|]. split; [reflexivity|]. split; [rewrite E; reflexivity|exact R'].
Qed.

Lemma run_rel n : forall s1 s2, Rstate s1 s2 -> Rstate (sd_run O f n s1) (sd_run O g n s2).
Proof. induction n as [|n IH]; intros s1 s2 R; cbn [sd_run]; auto. apply IH, step_rel, R. Qed.

(* init: the comparison with the literal must agree as well (e.g. every value of both oracles is below it) *)
Lemma init_step_nf k start ps b j :
  init_step k start (mkSd (map (tag k) ps) b) j = mkSd (map (tag k) (ps ++ [sd_vertex O start j])) (sd_track O b (tag k (sd_vertex O start j))).
Proof. unfold sd_init_step. cbn [sd_simplex sd_best]. rewrite map_app. reflexivity. Qed.

Lemma init_fold_rel start : forall js ps b1 b2, Rbest b1 b2 ->
  exists ps' b1' b2',
    fold_left (init_step f start) js (mkSd (map (tag f) ps) b1) = mkSd (map (tag f) (ps ++ ps')) b1' /\
    fold_left (init_step g start) js (mkSd (map (tag g) ps) b2) = mkSd (map (tag g) (ps ++ ps')) b2' /\
    Rbest b1' b2' /\ length ps' = length js.
Proof.
  induction js as [|j js IH]; intros ps b1 b2 R; cbn [fold_left].
  - exists [], b1, b2. rewrite app_nil_r. auto.
  - rewrite !init_step_nf.
    destruct (IH (ps ++ [sd_vertex O start j]) _ _ (track_rel (sd_vertex O start j) R)) as (ps' & b1' & b2' & E1 & E2 & R' & L).
    exists (sd_vertex O start j :: ps'), b1', b2'. rewrite E1, E2, <- !app_assoc. cbn [app length]. auto.
Qed.

Lemma init_rel start : Rstate (sd_init O f start) (sd_init O g start).
Proof.
  rewrite !sd_init_fold.
  destruct (@init_fold_rel start (seq 1 (length start)) [sd_vertex O start 0] (tag f (sd_vertex O start 0)) (tag g (sd_vertex O start 0)))
    as (ps' & b1' & b2' & E1 & E2 & R' & L).
  { split; cbn [tag fst snd]; auto. }
  rewrite E1, E2. exists ([sd_vertex O start 0] ++ ps'). cbn [sd_simplex sd_best]. split; [discriminate|auto].
Qed.

Theorem sd_rank_invariant_generic start n :
  map snd (sd_simplex (sd_run O f n (sd_init O f start))) = map snd (sd_simplex (sd_run O g n (sd_init O g start))) /\
  snd (sd_best (sd_run O f n (sd_init O f start))) = snd (sd_best (sd_run O g n (sd_init O g start))).
Proof.
  destruct (run_rel n (init_rel start)) as (ps & _ & E1 & E2 & R & _).
  rewrite E1, E2, !payload_tag. split; [reflexivity|exact R].
Qed.

End TwoOracles.

(* ---------------------------------------------------------------- values are objective values *)
Definition vcons (f : pt -> A) (s : sd_state A) := exists ps, ps <> [] /\ sd_simplex s = map (tag f) ps.
Definition bcons (f : pt -> A) (b : solA) := fst b = f (snd b).

Lemma oeq_refl (f : pt -> A) : oeq O f f.
Proof. intros x y. reflexivity. Qed.

Lemma track_bcons f b p : bcons f b -> bcons f (sd_track O b (tag f p)).
Proof. intro B. unfold sd_track. destruct (o_ltb O (fst (tag f p)) (fst b)); auto. reflexivity. Qed.

Lemma pshrink_bcons f bp : forall rest b, bcons f b -> bcons f (snd (pshrink f bp rest b)).
Proof. induction rest as [|p t IH]; intros b B; cbn [pshrink snd]; auto. apply IH, track_bcons, B. Qed.

Lemma pstep_bcons f qs b : bcons f b -> bcons f (snd (pstep f qs b)).
Proof.
  intro B. unfold pstep.
  repeat match goal with |- context [if ?c then _ else _] => destruct c end; cbn [snd];
    repeat first [apply pshrink_bcons | apply track_bcons]; exact B.
Qed.

Lemma step_cons f s : vcons f s -> vcons f (sd_step O f s) /\ (bcons f (sd_best s) -> bcons f (sd_best (sd_step O f s))).
Proof.
  intros (ps & NE & E). destruct s as [x b]. cbn [sd_simplex sd_best] in *. subst x.
  rewrite step_nf by exact NE. cbn [sd_simplex sd_best]. split.
  - eexists. split; [apply pstep_nonempty|reflexivity].
  - apply pstep_bcons.
Qed.

Lemma run_cons f n : forall s, vcons f s -> bcons f (sd_best s) ->
  vcons f (sd_run O f n s) /\ bcons f (sd_best (sd_run O f n s)).
Proof.
  induction n as [|n IH]; intros s V B; cbn [sd_run]; auto.
  destruct (step_cons V) as [V' B']. apply IH; auto.
Qed.


(* ---------------------------------------------------------------- init: the reported solution and the literal *)
Lemma init_fold_vcons f start : forall js ps b,
  exists ps' b', fold_left (init_step f start) js (mkSd (map (tag f) ps) b) = mkSd (map (tag f) (ps ++ ps')) b' /\ length ps' = length js.
Proof.
  induction js as [|j js IH]; intros ps b; cbn [fold_left].
  - exists [], b. rewrite app_nil_r. auto.
  - rewrite init_step_nf. destruct (IH (ps ++ [sd_vertex O start j]) (sd_track O b (tag f (sd_vertex O start j)))) as (ps' & b' & E & L).
    exists (sd_vertex O start j :: ps'), b'. rewrite E, <- app_assoc. cbn [app length]. auto.
Qed.

Lemma init_vcons f start : vcons f (sd_init O f start).
Proof.
  rewrite sd_init_fold. destruct (@init_fold_vcons f start (seq 1 (length start)) [sd_vertex O start 0] (tag f (sd_vertex O start 0))) as (ps' & b' & E & L).
  rewrite E. exists ([sd_vertex O start 0] ++ ps'). cbn [sd_simplex]. split; [discriminate|reflexivity].
Qed.

Lemma old_init_vcons f big p0 start : vcons f (old_sd_init O f big p0 start).
Proof.
  rewrite old_sd_init_fold. destruct (@init_fold_vcons f start (seq 0 (S (length start))) [] (big, p0)) as (ps' & b' & E & L).
  assert (vcons f (mkSd (map (tag f) ([] ++ ps')) b')) as G.
  { exists ps'. cbn [sd_simplex app]. split; [|auto]. intro Z. subst ps'. rewrite seq_length in L. discriminate. }
  rewrite <- E in G. exact G.
Qed.

Lemma init_fold_best f start : forall js st,
  bcons f (sd_best st) \/ (exists j, In j js /\ o_ltb O (f (sd_vertex O start j)) (fst (sd_best st)) = true) ->
  bcons f (sd_best (fold_left (init_step f start) js st)).
Proof.
  induction js as [|j js IH]; intros st [B|(j' & I & L)]; cbn [fold_left]; auto.
  - destruct I.
  - apply IH. left. unfold sd_init_step. cbn [sd_best]. apply track_bcons, B.
  - apply IH. unfold sd_init_step. cbn [sd_best]. change (sd_eval f) with (tag f).
    unfold sd_track. cbn [tag fst snd].
    destruct (o_ltb O (f (sd_vertex O start j)) (fst (sd_best st))) eqn:D.
    + left. reflexivity.
    + destruct I as [->|I]; [congruence|]. right. exists j'. auto.
Qed.

Lemma init_bcons f start : bcons f (sd_best (sd_init O f start)).
Proof. rewrite sd_init_fold. apply init_fold_best. left. reflexivity. Qed.

(* every value at or above the literal: m_best is never assigned *)
Section Literal.
Variables (f : pt -> A) (b : solA).
Hypothesis HB : forall x, o_ltb O (f x) (fst b) = false.

Lemma track_literal p : sd_track O b (tag f p) = b.
Proof. unfold sd_track. cbn [tag fst]. rewrite HB. reflexivity. Qed.

Lemma pshrink_literal bp : forall rest, snd (pshrink f bp rest b) = b.
Proof. induction rest as [|p t IH]; cbn [pshrink snd]; auto. rewrite track_literal. exact IH. Qed.

Lemma pstep_literal qs : snd (pstep f qs b) = b.
Proof.
  unfold pstep.
  repeat match goal with |- context [if ?c then _ else _] => destruct c end; cbn [snd];
    rewrite ?track_literal, ?pshrink_literal; reflexivity.
Qed.

Lemma step_literal s : vcons f s -> sd_best s = b -> sd_best (sd_step O f s) = b.
Proof.
  intros (ps & NE & E) EB. destruct s as [x b']. cbn [sd_simplex sd_best] in *. subst x b'.
  rewrite step_nf by exact NE. cbn [sd_best]. apply pstep_literal.
Qed.

Lemma run_literal n : forall s, vcons f s -> sd_best s = b -> sd_best (sd_run O f n s) = b.
Proof.
  induction n as [|n IH]; intros s V EB; cbn [sd_run]; auto.
  apply IH; [apply step_cons, V|apply step_literal; auto].
Qed.

Lemma init_fold_literal start : forall js st, sd_best st = b -> sd_best (fold_left (init_step f start) js st) = b.
Proof.
  induction js as [|j js IH]; intros st EB; cbn [fold_left]; auto.
  apply IH. unfold sd_init_step. cbn [sd_best]. rewrite EB. apply track_literal.
Qed.
End Literal.

(* about the init BEFORE the repair d2acfe00 (regression witness) *)
Theorem sd_literal_reported (f : pt -> A) big p0 start n :
  (forall x, o_ltb O (f x) big = false) ->
  sd_best (sd_run O f n (old_sd_init O f big p0 start)) = (big, p0).
Proof.
  intro HB. apply run_literal; [exact HB|apply old_init_vcons|].
  rewrite old_sd_init_fold. apply init_fold_literal; auto.
Qed.

Theorem sd_reports_objective_generic (f : pt -> A) start n :
  let st := sd_run O f n (sd_init O f start) in
  fst (sd_best st) = f (snd (sd_best st)) /\ Forall (fun v => fst v = f (snd v)) (sd_simplex st).
Proof.
  cbv zeta. destruct (@run_cons f n (sd_init O f start) (init_vcons f start) (init_bcons f start)) as [(ps & _ & V) B].
  split; [exact B|]. rewrite V. apply Forall_forall. intros v I. apply in_map_iff in I. destruct I as (p & <- & _). reflexivity.
Qed.

End SimplexGeneric.

(* ================================================================ order facts over Q *)
Section SimplexQ.
Variables (sq ex : Q -> Q) (pw : Q -> Q -> Q).
Notation QO := (QO sq ex pw).
Notation pt := (pvec Q).
Notation solQ := (sol Q).
Open Scope Q_scope.

(* the value of the first vertex after sorting = best.value as the step sees it *)
Definition sd_minval (s : list solQ) : Q := fst (hd (sd_dflt QO) (isort QO s)).

Lemma minval_le s v : In v s -> sd_minval s <= fst v.
Proof.
  intro I. unfold sd_minval.
  pose proof (isort_sorted sq ex pw _ s) as S. pose proof (isort_perm sq ex pw _ s) as Pm.
  assert (In v (isort QO s)) as I' by (eapply Permutation_in; [symmetry; exact Pm|exact I]).
  destruct (isort QO s) as [|h t]; [destruct I'|]. cbn [hd].
  apply StronglySorted_inv in S. destruct S as [_ F].
  destruct I' as [->|I']; [apply Qle_refl|]. rewrite Forall_forall in F. apply (F _ I').
Qed.

Lemma minval_in s : s <> [] -> exists v, In v s /\ fst v = sd_minval s.
Proof.
  intro NE. unfold sd_minval. pose proof (isort_perm sq ex pw _ s) as Pm.
  destruct (isort QO s) as [|h t] eqn:E.
  - apply Permutation_nil in Pm. contradiction.
  - exists h. split; [|reflexivity]. eapply Permutation_in; [exact Pm|left; reflexivity].
Qed.

Lemma shrink_length (f : pt -> Q) bp : forall rest b, length (fst (sd_shrink QO f bp rest b)) = length rest.
Proof. induction rest as [|v t IH]; intro b; cbn [sd_shrink fst length]; auto. Qed.

(* the best vertex is never replaced (dimension >= 1) *)
Lemma step_keeps_best (f : pt -> Q) st : (2 <= length (sd_simplex st))%nat ->
  In (hd (sd_dflt QO) (isort QO (sd_simplex st))) (sd_simplex (sd_step QO f st)) /\
  length (sd_simplex (sd_step QO f st)) = length (sd_simplex st).
Proof.
  intro L. unfold sd_step.
  pose proof (Permutation_length (isort_perm sq ex pw _ (sd_simplex st))) as Ls.
  remember (isort QO (sd_simplex st)) as s eqn:Es. unfold sol, pvec, indiv in *. rewrite <- Ls in L. rewrite <- Ls. clear Es Ls.
  destruct s as [|h [|h2 t]]; cbn [length] in L; try lia.
  cbv zeta. cbn [hd nth length pred].
  replace (firstn (S (length t)) (h :: h2 :: t)) with (h :: firstn (length t) (h2 :: t)) by reflexivity.
  assert (length (firstn (length t) (h2 :: t)) = length t) as Lf by (rewrite firstn_length; cbn [length]; lia).
  repeat match goal with |- context [if ?c then _ else _] => destruct c end; cbn [sd_simplex app tl];
    (split; [left; reflexivity|cbn [length]; rewrite ?app_length, ?shrink_length, ?Lf; cbn [length]; unfold sol, pvec, indiv, vec in *; lia]).
Qed.

Theorem sd_simplex_best_never_worse (f : pt -> Q) st : (2 <= length (sd_simplex st))%nat ->
  sd_minval (sd_simplex (sd_step QO f st)) <= sd_minval (sd_simplex st).
Proof. intro L. apply minval_le. apply (step_keeps_best f st L). Qed.

Lemma run_length (f : pt -> Q) n : forall st, (2 <= length (sd_simplex st))%nat ->
  length (sd_simplex (sd_run QO f n st)) = length (sd_simplex st).
Proof.
  induction n as [|n IH]; intros st L; cbn [sd_run]; auto.
  destruct (step_keeps_best f st L) as [_ E]. rewrite IH; [exact E|rewrite E; exact L].
Qed.

Theorem sd_simplex_best_monotone (f : pt -> Q) n : forall st, (2 <= length (sd_simplex st))%nat ->
  sd_minval (sd_simplex (sd_run QO f n st)) <= sd_minval (sd_simplex st).
Proof.
  induction n as [|n IH]; intros st L; cbn [sd_run]; [apply Qle_refl|].
  destruct (step_keeps_best f st L) as [_ E].
  eapply Qle_trans; [apply IH; rewrite E; exact L|apply sd_simplex_best_never_worse, L].
Qed.

(* the tracked solution only improves *)
Lemma track_le (b x : solQ) : fst (sd_track QO b x) <= fst b.
Proof.
  unfold sd_track. destruct (o_ltb QO (fst x) (fst b)) eqn:D; [|apply Qle_refl].
  cbn [o_ltb C11Proofs.QO] in D. apply Qltb_spec in D. apply Qlt_le_weak, D.
Qed.

Lemma shrink_best_le (f : pt -> Q) bp : forall rest b, fst (snd (sd_shrink QO f bp rest b)) <= fst b.
Proof.
  induction rest as [|v t IH]; intro b; cbn [sd_shrink snd]; [apply Qle_refl|].
  eapply Qle_trans; [apply IH|apply track_le].
Qed.

Theorem sd_reported_never_worse (f : pt -> Q) st : fst (sd_best (sd_step QO f st)) <= fst (sd_best st).
Proof.
  unfold sd_step. cbv zeta.
  repeat match goal with |- context [if ?c then _ else _] => destruct c end; cbn [sd_best];
    repeat first [apply track_le | eapply Qle_trans; [apply shrink_best_le|] | eapply Qle_trans; [apply track_le|]].
Qed.

(* a strictly increasing rescaling orders every pair of points as the objective does *)
Lemma incr_oeq (phi : Q -> Q) (f : pt -> Q) :
  (forall a b, a < b -> phi a < phi b) -> (forall a b, a == b -> phi a == phi b) ->
  oeq QO f (fun x => phi (f x)).
Proof. intros Hi He x y. symmetry. apply (incr_ltb sq ex pw phi Hi He). Qed.

Lemma order_oeq (f g : pt -> Q) : (forall x y, f x < f y <-> g x < g y) -> oeq QO f g.
Proof.
  intros H x y. cbn [o_ltb C11Proofs.QO]. apply eq_iff_eq_true. rewrite !Qltb_spec. apply H.
Qed.

Theorem sd_rank_invariant_lemma (f g : pt -> Q) start n :
  (forall x y, f x < f y <-> g x < g y) ->
  map snd (sd_simplex (sd_run QO f n (sd_init QO f start))) = map snd (sd_simplex (sd_run QO g n (sd_init QO g start))) /\
  snd (sd_best (sd_run QO f n (sd_init QO f start))) = snd (sd_best (sd_run QO g n (sd_init QO g start))).
Proof. intros H. apply sd_rank_invariant_generic, order_oeq, H. Qed.

Theorem sd_rank_invariant_rescaling (phi : Q -> Q) (f : pt -> Q) start n :
  (forall a b, a < b -> phi a < phi b) -> (forall a b, a == b -> phi a == phi b) ->
  let g := fun x => phi (f x) in
  map snd (sd_simplex (sd_run QO f n (sd_init QO f start))) = map snd (sd_simplex (sd_run QO g n (sd_init QO g start))) /\
  snd (sd_best (sd_run QO f n (sd_init QO f start))) = snd (sd_best (sd_run QO g n (sd_init QO g start))).
Proof. intros Hi He g. apply sd_rank_invariant_generic, incr_oeq; auto. Qed.

Theorem sd_reports_objective_lemma (f : pt -> Q) start n :
  let st := sd_run QO f n (sd_init QO f start) in
  fst (sd_best st) = f (snd (sd_best st)) /\ Forall (fun v => fst v = f (snd v)) (sd_simplex st).
Proof. apply sd_reports_objective_generic. Qed.

(* regression witness: the init BEFORE the repair d2acfe00 *)
Theorem sd_literal_reported_lemma (f : pt -> Q) big p0 start n :
  (forall x, big <= f x) -> sd_best (sd_run QO f n (old_sd_init QO f big p0 start)) = (big, p0).
Proof.
  intro HB. apply sd_literal_reported. intro x. cbn [o_ltb C11Proofs.QO]. apply Qltb_false, HB.
Qed.

Lemma init_length (f : pt -> Q) start : length (sd_simplex (sd_init QO f start)) = S (length start).
Proof.
  rewrite sd_init_fold.
  assert (forall js st, length (sd_simplex (fold_left (sd_init_step QO f start) js st)) = (length (sd_simplex st) + length js)%nat) as G.
  { induction js as [|j js IH]; intro st; cbn [fold_left length]; [lia|].
    rewrite IH. unfold sd_init_step. cbn [sd_simplex]. rewrite app_length. cbn [length]. lia. }
  rewrite G, seq_length. reflexivity.
Qed.

End SimplexQ.
