(* C02 — linear-system solvers and matrix decompositions (remora): executable model, definitions only.

   Mirrors  /repo/include/shark/LinAlg/BLAS/kernels/default/trsv.hpp   (four substitution loops)
            /repo/include/shark/LinAlg/BLAS/kernels/default/trsm.hpp   (blocked recursion, block kernel)
            /repo/include/shark/LinAlg/BLAS/kernels/default/potrf.hpp  (unblocked kernel per triangle)
            /repo/include/shark/LinAlg/BLAS/decompositions.hpp         (cholesky_decomposition::solve)
            /repo/include/shark/LinAlg/BLAS/solve.hpp                  (matrix_inverse::assign_to)

   Arithmetic is a record [ops A] of field operations (instantiated with Qc = canonical rationals for
   execution and for the Q theorems; proofs are over any field).  Vectors are [nat -> A], matrices
   [nat -> nat -> A] with explicit sizes; [memo]/[memo2] tabulate a function into a list so that the
   extracted program does not recompute closures (they are pointwise the identity, lemma memo_eq). *)
From Coq Require Import List Arith Bool.
Import ListNotations.

Record ops (A : Type) := mkOps {
  fzero : A; fone : A;
  fadd : A -> A -> A; fmul : A -> A -> A; fsub : A -> A -> A; fopp : A -> A;
  fdiv : A -> A -> A; finv : A -> A;
  feqb : A -> A -> bool;      (* x == value_type() *)
  fleb : A -> A -> bool;      (* s <= 0   (lower Cholesky kernel) *)
  fltb : A -> A -> bool;      (* Aii < 0  (upper Cholesky kernel) *)
  fsqrt : A -> A }.
Arguments fzero {A}. Arguments fone {A}. Arguments fadd {A}. Arguments fmul {A}. Arguments fsub {A}.
Arguments fopp {A}. Arguments fdiv {A}. Arguments finv {A}. Arguments feqb {A}. Arguments fleb {A}.
Arguments fltb {A}. Arguments fsqrt {A}.

Inductive orient := RowMajor | ColMajor.
Definition flip_orient (o : orient) : orient := match o with RowMajor => ColMajor | ColMajor => RowMajor end.

Section Model.
Variable A : Type.
Variable F : ops A.
Local Notation "0" := (fzero F).
Local Notation "1" := (fone F).
Local Infix "+" := (fadd F).
Local Infix "*" := (fmul F).
Local Infix "-" := (fsub F).
Local Infix "/" := (fdiv F).

Definition vec := nat -> A.
Definition mat := nat -> nat -> A.

(* ---------- tabulation (execution speed only) ---------- *)
Definition tab (n : nat) (x : vec) : list A := map x (seq 0 n).
Definition of_list (l : list A) : vec := fun i => nth i l 0.
Definition memo_l (n : nat) (l : list A) (x : vec) : vec := fun i => if Nat.ltb i n then nth i l 0 else x i.
Definition memo (n : nat) (x : vec) : vec := memo_l n (tab n x) x.
Definition memo2_l (n : nat) (rows : list (list A)) (M : mat) : mat :=
  fun i j => if Nat.ltb i n && Nat.ltb j n then nth j (nth i rows []) 0 else M i j.
Definition memo2 (n : nat) (M : mat) : mat := memo2_l n (map (fun i => tab n (M i)) (seq 0 n)) M.
Definition of_rows (rows : list (list A)) : mat := fun i j => nth j (nth i rows []) 0.
Definition to_rows (n m : nat) (M : mat) : list (list A) := map (fun i => tab m (M i)) (seq 0 n).

(* sum_{lo <= j < hi} f j *)
Fixpoint sumr (lo hi : nat) (f : nat -> A) : A :=
  match hi with
  | O => 0
  | S h => if Nat.leb lo h then sumr lo h f + f h else 0
  end.

Definition upd (x : vec) (i : nat) (v : A) : vec := fun k => if Nat.eqb k i then v else x k.
Definition transp (M : mat) : mat := fun i j => M j i.

(* ---------- kernels/default/trsv.hpp ---------- *)
(* lower, row_major (dot-product form); also the inner loop of trsm_block(lower).  Works on the index
   window [s, s+k): rows s..s+k-1, using only T[s.., s..]. *)
Fixpoint fwd_row (unit : bool) (T : mat) (s k : nat) (b : vec) : option vec :=
  match k with
  | O => Some b
  | S k' =>
    match fwd_row unit T s k' b with
    | None => None
    | Some x =>
      let i := Nat.add s k' in
      let v := x i - sumr s i (fun j => T i j * x j) in
      if unit then Some (upd x i v)
      else if feqb F (T i i) 0 then None            (* throw "[TRSV] Matrix is singular!" *)
      else Some (upd x i (v / T i i))
    end
  end.

(* lower, column_major (axpy form): columns 0..k-1 processed *)
Fixpoint fwd_col (unit : bool) (T : mat) (n k : nat) (b : vec) : option vec :=
  match k with
  | O => Some b
  | S c =>
    match fwd_col unit T n c b with
    | None => None
    | Some x =>
      if negb unit && feqb F (T c c) 0 then None
      else
        let xc := if unit then x c else x c / T c c in
        if feqb F xc 0 then Some (upd x c xc)        (* if (b(n) != 0) ... *)
        else Some (memo n (fun i => if Nat.eqb i c then xc
                                     else if Nat.ltb c i && Nat.ltb i n then x i + fopp F xc * T i c
                                     else x i))
    end
  end.

(* upper, row_major: rows s+len-1 down to s+len-k; also the inner loop of trsm_block(upper) *)
Fixpoint bwd_row (unit : bool) (T : mat) (s len k : nat) (b : vec) : option vec :=
  match k with
  | O => Some b
  | S k' =>
    match bwd_row unit T s len k' b with
    | None => None
    | Some x =>
      let i := Nat.sub (Nat.sub (Nat.add s len) 1) k' in
      let v := x i - sumr (S i) (Nat.add s len) (fun j => T i j * x j) in
      if unit then Some (upd x i v)
      else if feqb F (T i i) 0 then None
      else Some (upd x i (v / T i i))
    end
  end.

(* upper, column_major: columns n-1 down to n-k *)
Fixpoint bwd_col (unit : bool) (T : mat) (n k : nat) (b : vec) : option vec :=
  match k with
  | O => Some b
  | S k' =>
    match bwd_col unit T n k' b with
    | None => None
    | Some x =>
      let c := Nat.sub (Nat.sub n 1) k' in
      if negb unit && feqb F (T c c) 0 then None
      else
        let xc := if unit then x c else x c / T c c in
        if feqb F xc 0 then Some (upd x c xc)
        else Some (memo n (fun i => if Nat.eqb i c then xc
                                     else if Nat.ltb i c then x i + fopp F xc * T i c
                                     else x i))
    end
  end.

(* dispatcher: trsv<Triangular,Side>(A,b); right = left on trans(A) with transposed tags *)
Definition trsv_left (upper unit : bool) (o : orient) (T : mat) (n : nat) (b : vec) : option vec :=
  match upper, o with
  | false, RowMajor => fwd_row unit T 0 n b
  | false, ColMajor => fwd_col unit T n n b
  | true, RowMajor => bwd_row unit T 0 n n b
  | true, ColMajor => bwd_col unit T n n b
  end.
Definition trsv (upper unit : bool) (o : orient) (left : bool) (T : mat) (n : nat) (b : vec) : option vec :=
  if left then trsv_left upper unit o T n b
  else trsv_left (negb upper) unit (flip_orient o) (transp T) n b.

(* ---------- kernels/default/trsm.hpp ---------- *)
(* trsm_recursive on one column of B (gemm and the block kernel act on every column independently);
   bs = Block_Size (32 in the code).  fuel: any value >= len suffices. *)
Fixpoint trsv_rec (bs fuel : nat) (upper unit : bool) (T : mat) (n s len : nat) (b : vec) : option vec :=
  if Nat.leb len bs then
    (if upper then bwd_row unit T s len len b else fwd_row unit T s len b)
  else
    match fuel with
    | O => None
    | S f =>
      let split := Nat.mul (Nat.div (Nat.div (Nat.sub (Nat.add len bs) 1) bs) 2) bs in
      if upper then
        match trsv_rec bs f upper unit T n (Nat.add s split) (Nat.sub len split) b with
        | None => None
        | Some x1 =>
          (* gemm(A[front,back], Bback, Bfront, -1) *)
          let x2 := memo n (fun i => if Nat.leb s i && Nat.ltb i (Nat.add s split)
                                     then x1 i + fopp F 1 * sumr (Nat.add s split) (Nat.add s len) (fun j => T i j * x1 j)
                                     else x1 i) in
          trsv_rec bs f upper unit T n s split x2
        end
      else
        match trsv_rec bs f upper unit T n s split b with
        | None => None
        | Some x1 =>
          (* gemm(A[back,front], Bfront, Bback, -1) *)
          let x2 := memo n (fun i => if Nat.leb (Nat.add s split) i && Nat.ltb i (Nat.add s len)
                                     then x1 i + fopp F 1 * sumr s (Nat.add s split) (fun j => T i j * x1 j)
                                     else x1 i) in
          trsv_rec bs f upper unit T n (Nat.add s split) (Nat.sub len split) x2
        end
    end.

Fixpoint map_opt {X Y : Type} (f : X -> option Y) (l : list X) : option (list Y) :=
  match l with
  | [] => Some []
  | a :: l' => match f a, map_opt f l' with Some y, Some r => Some (y :: r) | _, _ => None end
  end.

(* left: T X = B, B given by its columns.  right: X T = B, B given by its rows (= columns of trans(B)),
   solved as trans(T) trans(X) = trans(B) with the transposed triangle, as trsm_recursive(...,right) does *)
Definition trsm (bs : nat) (upper unit left : bool) (T : mat) (n : nat) (cols : list vec) : option (list vec) :=
  if left then map_opt (trsv_rec bs n upper unit T n 0 n) cols
  else map_opt (trsv_rec bs n (negb upper) unit (transp T) n 0 n) cols.

(* ---------- kernels/default/potrf.hpp ---------- *)
Inductive presult :=
| POk (L : mat)                 (* return 0 *)
| PFail (k : nat) (L : mat)     (* return k (>0): pivot k-1 rejected *)
| PZeroDiv (k : nat).           (* upper kernel only: zero pivot k-1 ACCEPTED, the code goes on dividing by it *)

(* potrf_block(row_major, lower): column j (left-looking) *)
Definition potrf_lower_col (n j : nat) (L : mat) : option mat :=
  let s := L j j - sumr 0 j (fun k => L j k * L j k) in
  if fleb F s 0 then None
  else
    let d := fsqrt F s in
    Some (memo2 n (fun i c => if Nat.eqb c j && Nat.leb j i && Nat.ltb i n
                             then (if Nat.eqb i j then d else (L i j - sumr 0 j (fun k => L i k * L j k)) / d)
                             else L i c)).
Fixpoint potrf_lower (n k : nat) (M : mat) : presult :=
  match k with
  | O => POk M
  | S j =>
    match potrf_lower n j M with
    | POk L => match potrf_lower_col n j L with None => PFail (S j) L | Some L' => POk L' end
    | r => r
    end
  end.

(* potrf_block(row_major, upper): step i (right-looking) *)
Definition potrf_upper_step (n i : nat) (U : mat) : presult :=
  let a := U i i in
  if fltb F a 0 then PFail (S i) U
  else
    let d := fsqrt F a in
    if feqb F d 0 && Nat.ltb (S i) n then PZeroDiv (S i)
    else POk (memo2 n (fun r c =>
           if Nat.eqb r i then (if Nat.eqb c i then d else if Nat.ltb i c && Nat.ltb c n then U i c / d else U r c)
           else if Nat.ltb i r && Nat.leb r c && Nat.ltb c n then U r c - (U i r / d) * (U i c / d)
           else U r c)).
Fixpoint potrf_upper (n k : nat) (M : mat) : presult :=
  match k with
  | O => POk M
  | S i => match potrf_upper n i M with POk U => potrf_upper_step n i U | r => r end
  end.

(* dispatcher potrf<Triangular>(A) for sizes up to the block size: the stored orientation decides the kernel
   (column-major storage is handled on trans(A) with the transposed triangle) *)
Definition potrf (upper : bool) (o : orient) (n : nat) (M : mat) : presult :=
  match upper, o with
  | false, RowMajor => potrf_lower n n M
  | true, RowMajor => potrf_upper n n M
  | false, ColMajor => match potrf_upper n n (transp M) with POk U => POk (transp U) | PFail k U => PFail k (transp U) | r => r end
  | true, ColMajor => match potrf_lower n n (transp M) with POk L => POk (transp L) | PFail k L => PFail k (transp L) | r => r end
  end.

(* ---------- decompositions.hpp: cholesky_decomposition::solve(vector) ---------- *)
Definition chol_solve_with (o : orient) (L : mat) (n : nat) (b : vec) : option vec :=
  match trsv_left false false o L n b with
  | None => None
  | Some y => trsv_left true false (flip_orient o) (transp L) n y
  end.
Definition chol_solve (o : orient) (M : mat) (n : nat) (b : vec) : option vec :=
  match potrf false o n M with
  | POk L => chol_solve_with o L n b
  | _ => None
  end.
(* matrix right-hand sides: trsm<lower,left>(L,B); trsm<upper,left>(trans(L),B)  (right: the other order) *)
Definition chol_solve_m (bs : nat) (left : bool) (L : mat) (n : nat) (cols : list vec) : option (list vec) :=
  if left then
    match trsm bs false false true L n cols with
    | None => None | Some Y => trsm bs true false true (transp L) n Y end
  else
    match trsm bs true false false (transp L) n cols with
    | None => None | Some Y => trsm bs false false false L n Y end.

(* ---------- solve.hpp: matrix_inverse::assign_to :  X = I; solver.solve(X,left) ---------- *)
Definition unit_vec (c : nat) : vec := fun i => if Nat.eqb i c then 1 else 0.
Definition inv_tri (bs : nat) (upper unit : bool) (T : mat) (n : nat) : option (list vec) :=
  trsm bs upper unit true T n (map unit_vec (seq 0 n)).
(* prod(M, v) with M given by its columns *)
Definition cols_times (n : nat) (cols : list vec) (v : vec) : vec :=
  fun i => sumr 0 n (fun k => nth k cols (fun _ => 0) i * v k).

End Model.
