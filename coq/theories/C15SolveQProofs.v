(* C15 — the order laws used by C15SolveProofs.lrc_grad_zero hold over Qc, the instantiated theorems, and concrete runs over Qc
   showing that their hypotheses (exact run of the pivoted factorisation) are satisfiable, for a regular and for a singular system. *)
From Coq Require Import QArith Qcanon List Lia Lqa.
From SharkV Require Import C02Model C02Proofs C02BlkModel C02Q C02QProofs C02PstrfModel C02PstrfProofs C02PstrfQProofs C02SemiModel C02SemiProofs.
From SharkV Require Import C15SolveModel C15SolveProofs.
Import ListNotations.

(* ---------- non-negativity through the underlying rational ---------- *)
Definition nn (x : Qc) : Prop := (0 <= this x)%Q.
Lemma this_add x y : (this (x + y)%Qc == this x + this y)%Q.
Proof. unfold Qcplus, Q2Qc. cbn [this]. apply Qred_correct. Qed.
Lemma this_mul x y : (this (x * y)%Qc == this x * this y)%Q.
Proof. unfold Qcmult, Q2Qc. cbn [this]. apply Qred_correct. Qed.
Lemma nn_add x y : nn x -> nn y -> nn (x + y)%Qc.
Proof. unfold nn. intros. rewrite this_add. lra. Qed.
Lemma nn_mul x y : nn x -> nn y -> nn (x * y)%Qc.
Proof. unfold nn. intros. rewrite this_mul. apply Qmult_le_0_compat; assumption. Qed.
Lemma nn_sq x : nn (x * x)%Qc.
Proof.
  unfold nn. rewrite this_mul. destruct (Qlt_le_dec (this x) 0).
  - setoid_replace (this x * this x)%Q with ((- this x) * (- this x))%Q by ring. apply Qmult_le_0_compat; lra.
  - apply Qmult_le_0_compat; lra.
Qed.
Lemma nn_zero : nn (Q2Qc 0).
Proof. unfold nn. cbn. lra. Qed.
Lemma qc_zero_of_this x : (this x == 0)%Q -> x = Q2Qc 0.
Proof. intros H. apply Qc_is_canon. cbn. exact H. Qed.
Lemma nn_sum_zero x y : nn x -> nn y -> (x + y)%Qc = Q2Qc 0 -> x = Q2Qc 0 /\ y = Q2Qc 0.
Proof.
  unfold nn. intros Hx Hy H. assert (E : (this x + this y == 0)%Q) by (rewrite <- this_add, H; reflexivity).
  split; apply qc_zero_of_this; lra.
Qed.

Section QcLaws.
Variable sq : Qc -> Qc.
Let F := qc_ops sq.

Lemma nn_sumr_sq n (f : vec Qc) : nn (sumr Qc F 0 n (fun i => fmul F (f i) (f i))).
Proof.
  induction n as [|n IH]; [exact nn_zero|]. rewrite (sumr_S Qc F) by lia. apply nn_add; [exact IH|apply nn_sq].
Qed.

Lemma qc_sos : forall n (f : vec Qc), sumr Qc F 0 n (fun i => fmul F (f i) (f i)) = fzero F -> forall i, (i < n)%nat -> f i = fzero F.
Proof.
  induction n as [|n IH]; intros f H i Hi; [lia|].
  rewrite (sumr_S Qc F) in H by lia.
  destruct (nn_sum_zero _ _ (nn_sumr_sq n f) (nn_sq (f n)) H) as [H1 H2].
  destruct (Nat.eq_dec i n) as [->|Hne]; [|apply IH; [exact H1|lia]].
  apply qc_zero_of_this. assert (E : (this (f n) * this (f n) == 0)%Q) by (rewrite <- this_mul; cbn in H2; rewrite H2; reflexivity).
  destruct (Qmult_integral _ _ E); assumption.
Qed.

Lemma qc_sos2 : forall n m (f g : vec Qc) lam, fleb F (fzero F) lam = true ->
  fadd F (sumr Qc F 0 n (fun i => fmul F (f i) (f i))) (fmul F lam (sumr Qc F 0 m (fun j => fmul F (g j) (g j)))) = fzero F ->
  sumr Qc F 0 n (fun i => fmul F (f i) (f i)) = fzero F /\ fmul F lam (sumr Qc F 0 m (fun j => fmul F (g j) (g j))) = fzero F.
Proof.
  intros n m f g lam Hl H. apply nn_sum_zero; [apply nn_sumr_sq| |exact H].
  apply nn_mul; [|apply nn_sumr_sq]. cbn in Hl. apply qc_leb_true in Hl. exact Hl.
Qed.
End QcLaws.

(* ---------- the theorems over Qc ---------- *)
Lemma Forall2_nth {X Y} (P : X -> Y -> Prop) l r dx dy : Forall2 P l r ->
  length l = length r /\ forall i, (i < length l)%nat -> P (nth i l dx) (nth i r dy).
Proof.
  induction 1 as [|a b l r Hab H IH]; [split; [reflexivity|intros; cbn in *; lia]|].
  destruct IH as [IH1 IH2]. split; [cbn; congruence|]. intros [|i] Hi; [exact Hab|]. cbn. apply IH2. cbn in Hi. lia.
Qed.

Section QcTheorems.
Variable sq : Qc -> Qc.
Let F := qc_ops sq.
Let zero : vec Qc := fun _ => fzero F.

(* LinearRegression::train: every returned weight vector (row c of the matrix, offset c) is a stationary point of the regularised
   squared error, for every lambda >= 0, singular X^T X included (then it is a least-squares solution) *)
Theorem lrc_train_grad_zero_Q d o lam epsm D betas : fleb F (fzero F) lam = true ->
  semi_exact Qc F qc_abs (S d) epsm (lrc_A Qc F d lam D) ->
  lrc_train Qc F qc_abs d o lam epsm D = Some betas ->
  length betas = o /\
  forall c j, (c < o)%nat -> (j <= d)%nat -> lrc_halfgrad Qc F d lam D c (nth c betas zero) j = fzero F.
Proof.
  intros Hl Hex H.
  pose proof (lrc_train_correct Qc F qc_abs (qc_field sq) (qc_eqb_spec sq) (qc_leb_00 sq) d o lam epsm D betas Hex H) as HF.
  destruct (Forall2_nth _ _ _ zero zero HF) as [Hlen Hn]. rewrite map_length, seq_length in Hlen, Hn.
  split; [symmetry; exact Hlen|]. intros c j Hc Hj. specialize (Hn c Hc).
  rewrite (nth_indep _ zero (lrc_T Qc F d D O)) in Hn by (rewrite map_length, seq_length; exact Hc).
  rewrite map_nth, seq_nth in Hn by exact Hc. cbn [Nat.add] in Hn.
  exact (lrc_grad_zero Qc F (qc_field sq) (qc_eqb_spec sq) (qc_sos sq) (qc_sos2 sq) d lam D c (nth c betas zero) Hl Hn j Hj).
Qed.

(* LDA::train (both overloads differ only in the statistics): rows z_c of the returned matrix *)
Definition lda_rule_ok (half : Qc) (d K : nat) (means : list (vec Qc)) (C : mat Qc) (res : lda_result Qc) : Prop :=
  lda_means Qc res = means /\ lda_covm Qc res = C /\ length (lda_z Qc res) = K /\
  forall c, (c < K)%nat ->
    let m := nth c means zero in let z := nth c (lda_z Qc res) zero in
    (* least-squares normal equations  C (C z_c - m_c) = 0 *)
    (forall i, (i < d)%nat -> mv Qc F d C (fun k => fsub F (mv Qc F d C z k) (m k)) i = fzero F) /\
    (* data-dependent part of the bias: -0.5 <m_c, z_c> *)
    nth c (lda_bias_parts Qc res) (fzero F) = fmul F (fopp F half) (sumr Qc F 0 d (fun j => fmul F (m j) (z j))) /\
    (* regular covariance: C z_c = m_c (= z_c C, C symmetric) and the score is the Gaussian exponent (y = C^-1 x) *)
    (forall Ci, (forall i k, (i < d)%nat -> (k < d)%nat ->
                   sumr Qc F 0 d (fun j => fmul F (C i j) (Ci j k)) = if Nat.eqb i k then fone F else fzero F) ->
       (forall i, (i < d)%nat -> mv Qc F d C z i = m i) /\
       (fadd F half half = fone F -> forall x y, (forall k, (k < d)%nat -> mv Qc F d C y k = x k) ->
          fmul F (fopp F half) (sumr Qc F 0 d (fun k => fmul F (fsub F (x k) (m k)) (fsub F (y k) (z k))))
          = fsub F (fadd F (sumr Qc F 0 d (fun k => fmul F (z k) (x k))) (nth c (lda_bias_parts Qc res) (fzero F)))
                   (fmul F half (sumr Qc F 0 d (fun k => fmul F (x k) (y k)))))).

Lemma lda_rule_from_sols half d K means (C : mat Qc) zs priors : length means = K -> (forall j k, C j k = C k j) ->
  Forall2 (semi_sol Qc F d C) means zs ->
  lda_rule_ok half d K means C
    (mkLda Qc means C zs (map (fun mz => fmul F (fopp F half) (sumr Qc F 0 d (fun j => fmul F (fst mz j) (snd mz j)))) (combine means zs)) priors).
Proof.
  intros HK Sy HF. destruct (Forall2_nth _ _ _ zero zero HF) as [Hlen Hn]. rewrite HK in Hlen, Hn.
  unfold lda_rule_ok. cbn [lda_means lda_covm lda_z lda_bias_parts]. split; [reflexivity|]. split; [reflexivity|]. split; [symmetry; exact Hlen|].
  intros c Hc. cbv zeta. destruct (Hn c Hc) as [Hne Hin].
  assert (Hb : nth c (map (fun mz => fmul F (fopp F half) (sumr Qc F 0 d (fun j => fmul F (fst mz j) (snd mz j)))) (combine means zs)) (fzero F)
               = fmul F (fopp F half) (sumr Qc F 0 d (fun j => fmul F (nth c means zero j) (nth c zs zero j)))).
  { set (f := fun mz : vec Qc * vec Qc => fmul F (fopp F half) (sumr Qc F 0 d (fun j => fmul F (fst mz j) (snd mz j)))).
    rewrite (nth_indep _ (fzero F) (f (zero, zero))) by (rewrite map_length, combine_length; lia).
    rewrite map_nth, combine_nth by lia. reflexivity. }
  split; [exact Hne|]. split; [exact Hb|].
  intros Ci HCi.
  pose proof (semi_sol_regular Qc F (qc_field sq) d C Ci _ _ HCi (conj Hne Hin)) as Hz.
  split; [exact Hz|]. intros Hh x y Hy. rewrite Hb.
  exact (lda_bayes Qc F (qc_field sq) half d C _ _ x y Hh Sy Hz Hy).
Qed.

Theorem ldac_train_rule_Q half d K lam epsm D res : semi_exact Qc F qc_abs d epsm (ldac_cov Qc F d K lam D) ->
  ldac_train Qc F qc_abs half d K lam epsm D = Some res ->
  (forall c, (c < K)%nat -> ldac_num Qc c D <> O) /\
  lda_rule_ok half d K (map (fun c => ldac_mean Qc F d c D) (seq 0 K)) (ldac_cov Qc F d K lam D) res.
Proof.
  intros Hex H.
  destruct (ldac_train_correct Qc F qc_abs (qc_field sq) (qc_eqb_spec sq) (qc_leb_00 sq) half d K lam epsm D res Hex H) as [Hnum [zs [HF ->]]].
  split; [exact Hnum|]. apply lda_rule_from_sols; [rewrite map_length, seq_length; reflexivity| |exact HF].
  exact (ldac_cov_sym Qc F (qc_field sq) d K lam D).
Qed.

Theorem ldaw_train_rule_Q half d K lam epsm D res : semi_exact Qc F qc_abs d epsm (ldaw_cov Qc F d K lam D) ->
  ldaw_train Qc F qc_abs half d K lam epsm D = Some res ->
  (forall c, (c < K)%nat -> ldaw_cw Qc F c D <> fzero F) /\
  lda_rule_ok half d K (map (fun c => ldaw_mean Qc F d c D) (seq 0 K)) (ldaw_cov Qc F d K lam D) res.
Proof.
  intros Hex H.
  destruct (ldaw_train_correct Qc F qc_abs (qc_field sq) (qc_eqb_spec sq) (qc_leb_00 sq) half d K lam epsm D res Hex H) as [Hnum [zs [HF ->]]].
  split; [exact Hnum|]. apply lda_rule_from_sols; [rewrite map_length, seq_length; reflexivity| |exact HF].
  exact (ldaw_cov_sym Qc F (qc_field sq) d K lam D).
Qed.
End QcTheorems.
