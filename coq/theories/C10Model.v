(* C10 — gradient-based optimisers: executable model over Q (definitions only).

   Mirrors, statement by statement,
     * src/Algorithms/GradientDescent/LineSearch.cpp            backtracking()
     * src/Algorithms/GradientDescent/AbstractLineSearchOptimizer.cpp   init / step / read / write
     * src/Algorithms/GradientDescent/CG.cpp                    computeSearchDirection (one instance of the
                                                                 generic direction oracle)
     * include/shark/Algorithms/GradientDescent/SteepestDescent.h       init / step / read / write
   The objective is a pair of Section variables: the value oracle [f] and the gradient oracle [grad]
   (nothing relates them: the bookkeeping theorems do not need it).  Numbers are rationals kept in
   reduced form (Qred after every operation) so that the extracted model stays small; a C++ double is a
   rational, so on dyadic inputs of small magnitude the C++ iterates are exactly the model's iterates. *)
From Coq Require Import List QArith Qreduction Qabs Bool Arith.
Import ListNotations.
Open Scope Q_scope.

Definition vec := list Q.

Definition qadd (a b : Q) : Q := Qred (a + b).
Definition qsub (a b : Q) : Q := Qred (a - b).
Definition qmul (a b : Q) : Q := Qred (a * b).
Definition qltb (a b : Q) : bool := negb (Qle_bool b a).

Fixpoint vadd (a b : vec) : vec :=
  match a, b with x :: a', y :: b' => qadd x y :: vadd a' b' | _, _ => [] end.
Fixpoint vsub (a b : vec) : vec :=
  match a, b with x :: a', y :: b' => qsub x y :: vsub a' b' | _, _ => [] end.
Definition vscale (t : Q) (v : vec) : vec := map (qmul t) v.
Definition vneg (v : vec) : vec := map Qopp v.
Fixpoint dot (a b : vec) : Q :=
  match a, b with x :: a', y :: b' => qadd (qmul x y) (dot a' b') | _, _ => 0 end.
Definition sumabs (v : vec) : Q := fold_right (fun x a => qadd (Qabs x) a) 0 v.
Definition zeros (n : nat) : vec := repeat 0 n.

(* the doubles the code writes as 1e-4 and 1.e-10, as exact rationals *)
Definition c1 : Q := 7378697629483821 # 73786976294838206464.
Definition cg_eps : Q := 7737125245533627 # 77371252455336267181195264.
Definition max_iter : nat := 100.
Definition half : Q := 1 # 2.

(* state of AbstractLineSearchOptimizer: exactly the members written by write(), in that order, plus the
   derived class' own model state [extra] *)
Record ls_state (M : Type) : Type := mkLS {
  ls_min : Q; ls_max : Q; ls_type : nat;      (* m_linesearch: m_minInterval, m_maxInterval, m_lineSearchType *)
  step_len : Q;                               (* m_initialStepLength *)
  dim : nat;                                  (* m_dimension *)
  pt : vec; val : Q;                          (* m_best.point, m_best.value *)
  der : vec;                                  (* m_derivative *)
  sdir : vec;                                 (* m_searchDirection *)
  last_der : vec; last_pt : vec; last_val : Q;
  extra : M }.
Arguments mkLS {M}. Arguments ls_min {M}. Arguments ls_max {M}. Arguments ls_type {M}.
Arguments step_len {M}. Arguments dim {M}. Arguments pt {M}. Arguments val {M}. Arguments der {M}.
Arguments sdir {M}. Arguments last_der {M}. Arguments last_pt {M}. Arguments last_val {M}. Arguments extra {M}.

(* state of SteepestDescent (fixed learning rate + momentum) *)
Record sd_state : Type := mkSD {
  sd_pt : vec; sd_val : Q; sd_der : vec; sd_path : vec; sd_lr : Q; sd_mom : Q }.

Section Objective.
  Variable f : vec -> Q.
  Variable grad : vec -> vec.
  Variable feasible : vec -> bool.        (* fun _ => true for unconstrained objectives *)

  (* ---------------- LineSearch.cpp: backtracking ---------------- *)
  (* the while loop: Some (t, f_new, g_new) when the sufficient-decrease test succeeded with [fuel]
     iterations left, None when iter reached maxIter *)
  Fixpoint bt_loop (fuel : nat) (point d : vec) (value gtd t : Q) : option (Q * Q * vec) :=
    match fuel with
    | O => None
    | S k =>
      let x := vadd point (vscale t d) in
      let fnew := f x in
      if qltb fnew (qadd value (qmul (qmul c1 t) gtd)) then Some (t, fnew, grad x)
      else bt_loop k point d value gtd (qmul t half)
    end.

  (* result: (point, value, gradient); the old triple is kept when no step length was accepted; the
     accepted point is recomputed as point + t*d, value and gradient are the ones of the last probe *)
  Definition backtracking (point d : vec) (value : Q) (g : vec) (t0 : Q) : vec * Q * vec :=
    let gtd := dot g d in
    match bt_loop max_iter point d value gtd t0 with
    | Some (t, fnew, gnew) => (vadd point (vscale t d), fnew, gnew)
    | None => (point, value, g)
    end.

  (* ---------------- AbstractLineSearchOptimizer ---------------- *)
  Section LineSearchOptimizer.
    Variable M : Type.
    Variable init_model : nat -> M.                       (* initModel() *)
    Variable compute_dir : ls_state M -> M * vec.         (* computeSearchDirection(): new model, new direction *)

    (* while(!isFeasible(point + t*d)) t /= 2;  a double <= 1 underflows to exactly 0 after < 1100 halvings,
       which ends the C++ loop with t = 0 (init has checked that the starting point itself is feasible) *)
    Fixpoint halve_feasible (fuel : nat) (point d : vec) (t : Q) : Q :=
      match fuel with
      | O => 0
      | S k => if feasible (vadd point (vscale t d)) then t else halve_feasible k point d (qmul t half)
      end.

    Definition init_step_len (g : vec) : Q :=
      let s := sumabs g in
      if Qeq_bool s 0 then 1 else if Qle_bool 1 (/ s) then 1 else Qred (/ s).   (* min(1.0, 1.0/sum|g|) *)

    (* lstype: 0 Dlinmin, 1 WolfeCubic, 2 Backtracking; the model's step is the backtracking one *)
    Definition ls_init (lstype : nat) (x0 : vec) : ls_state M :=
      let v := f x0 in
      let g := grad x0 in
      let d := vneg g in
      let n := length x0 in
      {| ls_min := 0; ls_max := 1; ls_type := lstype;
         step_len := halve_feasible 1100 x0 d (init_step_len g);
         dim := n; pt := x0; val := v; der := g; sdir := d;
         last_der := zeros n; last_pt := zeros n; last_val := 0;
         extra := init_model n |}.

    Definition ls_step (s : ls_state M) : ls_state M :=
      let '(p', v', g') := backtracking (pt s) (sdir s) (val s) (der s) (step_len s) in
      let s1 := {| ls_min := ls_min s; ls_max := ls_max s; ls_type := ls_type s;
                   step_len := 1; dim := dim s; pt := p'; val := v'; der := g'; sdir := sdir s;
                   last_der := der s; last_pt := pt s; last_val := val s; extra := extra s |} in
      let '(m', d') := compute_dir s1 in
      {| ls_min := ls_min s1; ls_max := ls_max s1; ls_type := ls_type s1;
         step_len := step_len s1; dim := dim s1; pt := pt s1; val := val s1; der := der s1; sdir := d';
         last_der := last_der s1; last_pt := last_pt s1; last_val := last_val s1; extra := m' |}.

    Fixpoint ls_run (n : nat) (s : ls_state M) : ls_state M :=
      match n with O => s | S k => ls_run k (ls_step s) end.

    (* iterates as a list (for the Examples) *)
    Fixpoint ls_trace (n : nat) (s : ls_state M) : list (ls_state M) :=
      match n with O => [s] | S k => s :: ls_trace k (ls_step s) end.
  End LineSearchOptimizer.

  (* steepest-descent direction: the simplest derived class (initModel does nothing) *)
  Definition sd_init_model (n : nat) : unit := tt.
  Definition sd_dir (s : ls_state unit) : unit * vec := (tt, vneg (der s)).

  (* CG.cpp (Polak-Ribiere type update with automatic resets), as coded *)
  Definition cg_init_model (n : nat) : nat := O.
  Definition cg_dir (s : ls_state nat) : nat * vec :=
    let c := S (extra s) in
    if Nat.eqb c (dim s) then (O, vneg (der s))
    else
      let gg := dot (der s) (der s) in
      let divisor := dot (sdir s) (vsub (der s) (last_der s)) in
      if Qeq_bool gg 0 || Qle_bool (Qabs divisor) (qmul cg_eps gg)
      then (O, vsub (sdir s) (der s))                   (* sic: the old direction is not discarded here *)
      else (c, vsub (vscale (Qred (gg / divisor)) (sdir s)) (der s)).

  (* ---------------- SteepestDescent.h ---------------- *)
  Definition sd_init (lr mom : Q) (x0 : vec) : sd_state :=
    {| sd_pt := x0; sd_val := f x0; sd_der := grad x0; sd_path := zeros (length x0);
       sd_lr := lr; sd_mom := mom |}.

  Definition sd_step (s : sd_state) : sd_state :=
    let path := vadd (vscale (- sd_lr s) (sd_der s)) (vscale (sd_mom s) (sd_path s)) in
    let p := vadd (sd_pt s) path in
    {| sd_pt := p; sd_val := f p; sd_der := grad p; sd_path := path; sd_lr := sd_lr s; sd_mom := sd_mom s |}.

  Fixpoint sd_run (n : nat) (s : sd_state) : sd_state :=
    match n with O => s | S k => sd_run k (sd_step s) end.
End Objective.

(* ---------------- objectives used by the correspondence check ---------------- *)
(* f(x) = 1/2 x^T A x - b^T x  (A as list of rows), gradient A x - b *)
Definition mv (A : list vec) (x : vec) : vec := map (fun r => dot r x) A.
Definition quad_f (A : list vec) (b x : vec) : Q := qsub (qmul half (dot x (mv A x))) (dot b x).
Definition quad_grad (A : list vec) (b x : vec) : vec := vsub (mv A x) b.

(* box test l <= x <= u, coordinate-wise; wrong lengths are infeasible *)
Fixpoint box_feasb (l u x : vec) : bool :=
  match l, u, x with
  | a :: l', b :: u', c :: x' => Qle_bool a c && Qle_bool c b && box_feasb l' u' x'
  | [], [], [] => true
  | _, _, _ => false
  end.

(* BoxConstraintHandler::isFeasible: infeasible iff x(i) + 1e-13 < lower(i) or x(i) - 1e-13 > upper(i) for some i,
   i.e. the box widened by the double 1e-13 (exact rational below) *)
Definition box_eps : Q := 3961408125713217 # 39614081257132168796771975168.
Definition box_feasb_slack (eps : Q) (l u x : vec) : bool :=
  box_feasb (map (fun a => qsub a eps) l) (map (fun b => qadd b eps) u) x.

(* ---------------- save / restore (ISerializable::write / read) ---------------- *)
Inductive field : Type := FQ (q : Q) | FN (n : nat) | FV (v : vec).

(* AbstractLineSearchOptimizer::write: the nine archived members in order (m_linesearch contributes
   three, m_best two); the derived class appends its own members via save_extra *)
Section SaveRestore.
  Variable M : Type.
  Variable save_extra : M -> list field.
  Variable restore_extra : list field -> option M.

  Definition ls_save (s : ls_state M) : list field :=
    [FQ (ls_min s); FQ (ls_max s); FN (ls_type s); FQ (step_len s); FN (dim s);
     FV (pt s); FQ (val s); FV (der s); FV (sdir s); FV (last_der s); FV (last_pt s); FQ (last_val s)]
    ++ save_extra (extra s).

  (* read() into an existing (freshly init-ed) instance: every archived member overwrites the fresh one;
     members that are not archived would keep the fresh instance's values *)
  Definition ls_restore (fresh : ls_state M) (fs : list field) : option (ls_state M) :=
    match fs with
    | FQ a :: FQ b :: FN c :: FQ d :: FN e :: FV p :: FQ v :: FV g :: FV sd :: FV ld :: FV lp :: FQ lv :: rest =>
      match restore_extra rest with
      | Some m => Some (mkLS a b c d e p v g sd ld lp lv m)
      | None => None
      end
    | _ => None
    end.
End SaveRestore.

(* CG::write appends m_count *)
Definition cg_save_extra (c : nat) : list field := [FN c].
Definition cg_restore_extra (fs : list field) : option nat :=
  match fs with [FN c] => Some c | _ => None end.

(* SteepestDescent::write before the repair c36da89f (finding F16): m_path, m_learningRate, m_momentum only *)
Definition sd_save_coded (s : sd_state) : list field := [FV (sd_path s); FQ (sd_lr s); FQ (sd_mom s)].
Definition sd_restore_coded (fresh : sd_state) (fs : list field) : option sd_state :=
  match fs with
  | [FV p; FQ l; FQ m] => Some (mkSD (sd_pt fresh) (sd_val fresh) (sd_der fresh) p l m)
  | _ => None
  end.
(* the list as coded now: m_path, m_learningRate, m_momentum, m_derivative, m_best.point, m_best.value *)
Definition sd_save_full (s : sd_state) : list field :=
  [FV (sd_path s); FQ (sd_lr s); FQ (sd_mom s); FV (sd_der s); FV (sd_pt s); FQ (sd_val s)].
Definition sd_restore_full (fresh : sd_state) (fs : list field) : option sd_state :=
  match fs with
  | [FV p; FQ l; FQ m; FV g; FV x; FQ v] => Some (mkSD x v g p l m)
  | _ => None
  end.
