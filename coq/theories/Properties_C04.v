(* C04 — Models: batch equals single evaluation; parameter vector round trip; derivatives are the derivatives.
   Only statements + `exact`; the proofs live in C04Proofs.v / C04Aux.v, the executable model in C04Model.v.

   The model (C04Model.v) is the code of LinearModel (eval single / batch, parameterVector, setParameterVector,
   weightedParameterDerivative, weightedInputDerivative, weightedDerivatives) with a row activation (value + derivative
   expressed in the OUTPUT, NeuronLayers.h), ConcatenatedModel over such layers (forward with stored intermediates,
   backward chain rule), Normalizer and Classifier, polymorphic in its arithmetic.  All theorems hold over EVERY
   commutative ring (ring_theory with Leibniz equality: Z, Q, polynomial rings, ...) and are axiom-free.

   PROVED (all shapes, all parameter values, all batches, all coefficient matrices):
   * batch = single: row r of a batch evaluation is the single evaluation of row r and equals the row of ANY other
     batch that holds the same input at some position — LinearModel with an arbitrary row activation (covers the
     seven neurons incl. softmax / normaliser, whose aphi is an arbitrary function of the row), ConcatenatedModel,
     Normalizer, Classifier (arg max with first-maximum tie rule / threshold for one output).
   * parameterVector (setParameterVector m theta) = theta and its length = numberOfParameters for the row-major
     weights-then-offset layout of LinearModel, the diagonal-then-offset layout of Normalizer and the layer-order
     concatenation of ConcatenatedModel.
   * weightedDerivatives = (weightedParameterDerivative, weightedInputDerivative) for a layer.
   * derivatives, element-wise activations given as a pair (phi, dphi) with dphi written in the output:
     the coded weighted parameter / input derivatives of a layer (C04_layer_derivative_partial) and of a
     concatenation (C04_concat_chain_rule_partial) are the tangent (forward-mode dual numbers, sound for + and * by
     C04_dual_add_sound / C04_dual_mul_sound) of the coefficient-weighted output sum in EVERY direction
     (d theta, dX); unit directions give every partial derivative.   `_partial`: (a) that dphi o phi is the analytic
     derivative of tanh / logistic / fast sigmoid / rectifier (away from 0) is not proved here but monitored by finite
     differences; (b) softmax and normaliser (row-wise derivative) are compared and monitored only.
   * Linear activations (C04_linear_net_derivative): full strength — the weighted output sum at theta + t dtheta,
     X + t dX equals its value + t * (<coded parameter derivative, dtheta> + <coded input derivative, dX>)
     + t^2 * an explicit polynomial remainder, for every t, every direction, every depth: the coded derivatives ARE
     the gradient of the weighted sum (over Z or Q the first-order coefficient of a polynomial identity in t is unique).

   COMPARED on every run (tools/c04.py, extracted model vs /repo): LinearModel x 7 activations, ConcatenatedModel of
   LinearModels, Normalizer, Classifier.   MONITORED ONLY (batch vs single, round trip, finite differences):
   NeuronLayer, Conv2DModel, PoolingLayer, ResizeLayer, RBFLayer, CMACMap, KernelExpansion, Ensemble, heterogeneous
   concatenations with optimisation flags. *)
From Coq Require Import List Arith Bool ZArith Ring.
From SharkV Require Import C04Model C04Aux C04Proofs.
Import ListNotations.

(* ---------------- batch = single ---------------- *)
Theorem C04_batch_eq_single_linear :
  forall (A : Type) (zero one : A) (add mul sub : A -> A -> A) (opp : A -> A),
    ring_theory zero one add mul sub opp eq ->
    forall (l : layer A) (X X' : list (list A)) (r r' : nat),
      r < length X -> r' < length X' -> nth r X [] = nth r' X' [] ->
      nth r (lin_eval_batch zero add mul l X) [] = lin_eval zero add mul l (nth r X []) /\
      nth r (lin_eval_batch zero add mul l X) [] = nth r' (lin_eval_batch zero add mul l X') [].
Proof. exact batch_eq_single_linear. Qed.
Print Assumptions C04_batch_eq_single_linear.

Theorem C04_batch_eq_single_concat :
  forall (A : Type) (zero one : A) (add mul sub : A -> A -> A) (opp : A -> A),
    ring_theory zero one add mul sub opp eq ->
    forall (N : net A) (X X' : list (list A)) (r r' : nat),
      r < length X -> r' < length X' -> nth r X [] = nth r' X' [] ->
      nth r (net_eval_batch zero add mul N X) [] = net_eval zero add mul N (nth r X []) /\
      nth r (net_eval_batch zero add mul N X) [] = nth r' (net_eval_batch zero add mul N X') [].
Proof. exact batch_eq_single_concat. Qed.
Print Assumptions C04_batch_eq_single_concat.

Theorem C04_batch_eq_single_normalizer :
  forall (A : Type) (add mul : A -> A -> A) (dg b : list A) (X : list (list A)) (r : nat),
    r < length X -> nth r (norm_eval_batch add mul dg b X) [] = norm_eval add mul dg b (nth r X []).
Proof. exact batch_eq_single_normalizer. Qed.
Print Assumptions C04_batch_eq_single_normalizer.

Theorem C04_batch_eq_single_classifier :
  forall (A : Type) (zero one : A) (add mul sub : A -> A -> A) (opp : A -> A),
    ring_theory zero one add mul sub opp eq ->
    forall (ltb : A -> A -> bool) (l : layer A) (bias : list A) (X : list (list A)) (r : nat),
      r < length X ->
      nth r (classifier_eval_batch zero add mul ltb l bias X) 0 = classifier_eval zero add mul ltb l bias (nth r X []).
Proof. exact batch_eq_single_classifier. Qed.
Print Assumptions C04_batch_eq_single_classifier.

(* ---------------- parameter vector round trip, length = count ---------------- *)
Theorem C04_param_roundtrip_linear :
  forall (A : Type) (nin nout : nat) (off : bool) (a : act A) (t : list A),
    length t = lin_nparams nin nout off ->
    lin_params (lin_set nin nout off a t) = t /\
    length (lin_params (lin_set nin nout off a t)) = lin_nparams nin nout off.
Proof. exact param_roundtrip_linear. Qed.
Print Assumptions C04_param_roundtrip_linear.

Theorem C04_param_roundtrip_normalizer :
  forall (A : Type) (n : nat) (off : bool) (t : list A),
    length t = n + (if off then n else 0) ->
    let '(dg, b) := norm_set n off t in norm_params dg b = t /\ length dg = n.
Proof. exact param_roundtrip_normalizer. Qed.
Print Assumptions C04_param_roundtrip_normalizer.

Theorem C04_param_roundtrip_concat :
  forall (A : Type) (sh : list (nat * nat * bool * act A)) (t : list A),
    let n := net_nparams (map (fun q => match q with (i, o, off, _) => (i, o, off) end) sh) in
    length t = n -> net_params (net_set sh t) = t /\ length (net_params (net_set sh t)) = n.
Proof. exact param_roundtrip_concat. Qed.
Print Assumptions C04_param_roundtrip_concat.

(* ---------------- combined derivative call = the two separate calls ---------------- *)
Theorem C04_combined_eq_separate :
  forall (A : Type) (zero : A) (add mul : A -> A -> A) nin nout (l : layer A) X C,
    lin_wd zero add mul nin nout l X C = (lin_wpd zero add mul nin nout l X C, lin_wid zero add mul nin l X C).
Proof. exact combined_eq_separate. Qed.
Print Assumptions C04_combined_eq_separate.

(* ---------------- dual numbers are sound for + and * ---------------- *)
Theorem C04_dual_add_sound :
  forall (A : Type) (zero one : A) (add mul sub : A -> A -> A) (opp : A -> A),
    ring_theory zero one add mul sub opp eq ->
    forall (t : A) (p q : D A),
      add (re A add mul t p) (re A add mul t q) = re A add mul t (dadd A add p q).
Proof. exact dual_add_sound. Qed.
Print Assumptions C04_dual_add_sound.

Theorem C04_dual_mul_sound :
  forall (A : Type) (zero one : A) (add mul sub : A -> A -> A) (opp : A -> A),
    ring_theory zero one add mul sub opp eq ->
    forall (t : A) (p q : D A),
      mul (re A add mul t p) (re A add mul t q) =
      add (re A add mul t (dmul A add mul p q)) (mul (mul t t) (mul (snd p) (snd q))).
Proof. exact dual_mul_sound. Qed.
Print Assumptions C04_dual_mul_sound.

(* ---------------- the coded derivatives of a layer are the tangent of the weighted output sum ----------------
   full-strength statement (not proved for transcendental activations): for every activation of NeuronLayers.h,
   d/dt sum_r <C_r, f(theta + t dtheta, X_r + t dX_r)> at t = 0 over the reals equals the right-hand side. *)
Theorem C04_layer_derivative_partial :
  forall (A : Type) (zero one : A) (add mul sub : A -> A -> A) (opp : A -> A),
    ring_theory zero one add mul sub opp eq ->
    forall (nin nout : nat) (q : dlayer A) (XD : list (list (D A))) (C : list (list A)),
      wf_dlayer A nin nout q -> rows nin XD -> rows nout C ->
      let l := val A mul q in
      let X := map (map fst) XD in
      fr A zero add mul C
        (map (map snd) (map (lin_eval (dzero A zero) (dadd A add) (dmul A add mul) (up A add mul q)) XD)) =
      add (dot zero add mul (lin_wpd zero add mul nin nout l X C) (tan A q))
          (fr A zero add mul (lin_wid zero add mul nin l X C) (map (map snd) XD)).
Proof. exact layer_batch_tangent. Qed.
Print Assumptions C04_layer_derivative_partial.

Theorem C04_concat_chain_rule_partial :
  forall (A : Type) (zero one : A) (add mul sub : A -> A -> A) (opp : A -> A),
    ring_theory zero one add mul sub opp eq ->
    forall (N : dnet A) (nin nout : nat) (XD : list (list (D A))) (C : list (list A)),
      wf_dnet A nin N nout -> rows nin XD -> rows nout C ->
      let X := map (map fst) XD in
      fr A zero add mul C
        (map (map snd) (net_eval_batch (dzero A zero) (dadd A add) (dmul A add mul) (upN A add mul N) XD)) =
      add (dot zero add mul (fst (net_back zero add mul (valN A mul N) X C)) (tanN A N))
          (fr A zero add mul (snd (net_back zero add mul (valN A mul N) X C)) (map (map snd) XD)).
Proof. exact concat_chain_rule. Qed.
Print Assumptions C04_concat_chain_rule_partial.

(* ---------------- Linear activations: the coded derivatives are the gradient (polynomial identity in t) -------- *)
Theorem C04_linear_net_derivative :
  forall (A : Type) (zero one : A) (add mul sub : A -> A -> A) (opp : A -> A),
    ring_theory zero one add mul sub opp eq ->
    forall (N : dnet A) (nin nout : nat) (XD : list (list (D A))) (C : list (list A)) (t : A),
      linear_dnet A one N -> wf_dnet A nin N nout -> rows nin XD -> rows nout C ->
      let X := map (map fst) XD in
      let S0 := fr A zero add mul C (net_eval_batch zero add mul (valN A mul N) X) in
      let St := fr A zero add mul C
                  (net_eval_batch zero add mul (netAt A mul (re A add mul t) N) (map (map (re A add mul t)) XD)) in
      let g := net_back zero add mul (valN A mul N) X C in
      St = add (add S0 (mul t (add (dot zero add mul (fst g) (tanN A N))
                                   (fr A zero add mul (snd g) (map (map snd) XD)))))
               (mul (mul t t) (prem A zero add mul t (sumE A zero N XD C))).
Proof. exact linear_net_taylor. Qed.
Print Assumptions C04_linear_net_derivative.

Theorem C04_taylor_of_polynomial_expressions :
  forall (A : Type) (zero one : A) (add mul sub : A -> A -> A) (opp : A -> A),
    ring_theory zero one add mul sub opp eq ->
    forall (t : A) (e : pexpr A),
      fst (pdual A add mul e) = pval0 A add mul e /\
      pvalt A add mul t e =
      add (add (pval0 A add mul e) (mul t (snd (pdual A add mul e)))) (mul (mul t t) (prem A zero add mul t e)).
Proof. exact taylor_pexpr. Qed.
Print Assumptions C04_taylor_of_polynomial_expressions.

(* ---------------- the hypotheses are satisfiable: a concrete two-layer Linear network over Z ---------------- *)
Example C04_Z_is_a_ring : ring_theory 0%Z 1%Z Z.add Z.mul Z.sub Z.opp eq.
Proof. exact InitialRing.Zth. Qed.

(* layer 1: 2 -> 2 with offset, layer 2: 2 -> 1 without; every weight (w, dw) carries its direction *)
Example C04_example_net_wf :
  let q1 := {| dW := [[(1, 1); (2, 0)]; (0, 1) :: [(3, -1)]]%Z; db := [(1, 0); (-1, 2)]%Z;
               dphi_v := fun x : Z => x; dphi_d := fun _ : Z => 1%Z |} in
  let q2 := {| dW := [[(2, 1); (-1, 0)]]%Z; db := []; dphi_v := fun x : Z => x; dphi_d := fun _ : Z => 1%Z |} in
  let N := [(2, 2, q1); (2, 1, q2)] in
  linear_dnet Z 1%Z N /\ wf_dnet Z 2 N 1 /\
  rows 2 [[(1, 1); (2, -1)]; [(0, 0); (1, 3)]]%Z /\ rows 1 [[3]; [-2]]%Z.
Proof.
  repeat split; simpl; auto; repeat constructor; auto.
Qed.

(* and on it the derivative theorem gives concrete numbers: value 13 at t = 0, first-order coefficient
   <gradient, direction> = 14, and at t = 5 the perturbed value 13 + 5*14 + 25*remainder *)
Example C04_example_net_numbers :
  let q1 := {| dW := [[(1, 1); (2, 0)]; (0, 1) :: [(3, -1)]]%Z; db := [(1, 0); (-1, 2)]%Z;
               dphi_v := fun x : Z => x; dphi_d := fun _ : Z => 1%Z |} in
  let q2 := {| dW := [[(2, 1); (-1, 0)]]%Z; db := []; dphi_v := fun x : Z => x; dphi_d := fun _ : Z => 1%Z |} in
  let N := [(2, 2, q1); (2, 1, q2)] in
  let XD := [[(1, 1); (2, -1)]; [(0, 0); (1, 3)]]%Z in
  let C := [[3]; [-2]]%Z in
  let X := map (map fst) XD in
  let g := net_back 0%Z Z.add Z.mul (valN Z Z.mul N) X C in
  fr Z 0%Z Z.add Z.mul C (net_eval_batch 0%Z Z.add Z.mul (valN Z Z.mul N) X) = 13%Z /\
  (dot 0%Z Z.add Z.mul (fst g) (tanN Z N) + fr Z 0%Z Z.add Z.mul (snd g) (map (map snd) XD) = 14)%Z /\
  fr Z 0%Z Z.add Z.mul C
     (net_eval_batch 0%Z Z.add Z.mul (netAt Z Z.mul (re Z Z.add Z.mul 5%Z) N) (map (map (re Z Z.add Z.mul 5%Z)) XD))
    = (13 + 5 * 14 + 25 * prem Z 0%Z Z.add Z.mul 5%Z (sumE Z 0%Z N XD C))%Z.
Proof. vm_compute. repeat split; reflexivity. Qed.

(* a non-linear element-wise activation pair satisfies the hypotheses of the layer theorem as well
   (phi x = x*x with "derivative in the output" 2*sqrt(y) is not expressible; the pair below is phi x = 2x, dphi y = 2) *)
Example C04_example_layer_wf :
  wf_dlayer Z 2 1 {| dW := [[(1, 0); (2, 1)]]%Z; db := [(5, 1)]%Z; dphi_v := fun x => (2 * x)%Z; dphi_d := fun _ => 2%Z |}.
Proof. split; [reflexivity|split; [repeat constructor|right; reflexivity]]. Qed.
