(* C04 — Models: batch equals single evaluation; parameter vector round trip; derivatives are the derivatives.
   Only statements + `exact`; the proofs live in C04Proofs.v / C04Aux.v, the executable model in C04Model.v.

   The model (C04Model.v) is the code of LinearModel (eval single / batch, parameterVector, setParameterVector,
   weightedParameterDerivative, weightedInputDerivative, weightedDerivatives) with a row activation (value + derivative
   expressed in the OUTPUT, NeuronLayers.h), ConcatenatedModel over such layers (forward with stored intermediates,
   backward chain rule), Normalizer and Classifier, polymorphic in its arithmetic.  All theorems hold over EVERY
   commutative ring (ring_theory with Leibniz equality: Z, Q, polynomial rings, ...) and are axiom-free.

   PROVED (all shapes, all parameter values, all batches, all coefficient matrices):
   * batch = single: row r of a batch evaluation is the single evaluation of row r and equals the row of ANY other
     batch that holds the same input at some position — LinearModel with an arbitrary row activation (covers the
     seven neurons incl. softmax / normaliser, whose aphi is an arbitrary function of the row), ConcatenatedModel,
     Normalizer, Classifier (arg max with first-maximum tie rule / threshold for one output).
   * parameterVector (setParameterVector m theta) = theta and its length = numberOfParameters for the row-major
     weights-then-offset layout of LinearModel, the diagonal-then-offset layout of Normalizer and the layer-order
     concatenation of ConcatenatedModel.
   * weightedDerivatives = (weightedParameterDerivative, weightedInputDerivative) for a layer.
   * derivatives, element-wise activations given as a pair (phi, dphi) with dphi written in the output:
     the coded weighted parameter / input derivatives of a layer (C04_layer_derivative_partial) and of a
     concatenation (C04_concat_chain_rule_partial) are the tangent (forward-mode dual numbers, sound for + and * by
     C04_dual_add_sound / C04_dual_mul_sound) of the coefficient-weighted output sum in EVERY direction
     (d theta, dX); unit directions give every partial derivative.   `_partial`: (a) that dphi o phi is the analytic
     derivative of tanh / logistic / fast sigmoid / rectifier (away from 0) is not proved here but monitored by finite
     differences; (b) softmax and normaliser (row-wise derivative) are compared and monitored only.
   * Linear activations (C04_linear_net_derivative): full strength — the weighted output sum at theta + t dtheta,
     X + t dX equals its value + t * (<coded parameter derivative, dtheta> + <coded input derivative, dX>)
     + t^2 * an explicit polynomial remainder, for every t, every direction, every depth: the coded derivatives ARE
     the gradient of the weighted sum (over Z or Q the first-order coefficient of a polynomial identity in t is unique).

   EXTENSION (second half of this file; models C04Conv.v, C04Pool.v, C04Het.v, C04Misc.v (definitions only); proofs C04SumProofs,
   C04ConvProofs / C04ConvDerivProofs / C04ConvThmProofs / C04ConvDualProofs, C04PoolProofs, C04HetProofs / C04KindProofs, C04MiscProofs):
   * Conv2DModel, index level as coded (im2mat / im2mat_pad + gemm of conv2d.hpp on the whole batch, reorder NHWC <-> CHWN,
     updateBackpropFilters with the extra zero row / column for even filter sizes, offset on the (pixels x filters) view of the raw
     storage, parameter layout filters [filter][row][column][channel] then offset), geometry hypothesis geo_ok = filter sizes, channels,
     filters >= 1 and, for Padding::Valid, filter <= image; ZeroPad needs no such bound (filters larger than the image included):
       - C04_conv_batch_eq_single, C04_conv_param_roundtrip (any ring-free carrier);
       - C04_conv_derivative_core: for ANY delta, <delta, first-order change of convolution + offset> =
         <coded weightedParameterDerivative, d theta> + <coded weightedInputDerivative, dX>  (the adjointness of both backward
         convolutions, incl. the flip / enlarge / padding arithmetic);
       - C04_conv_linear_derivative: Linear activation, FULL strength (exact polynomial identity in t with explicit t^2 term);
       - C04_conv_derivative_partial: element-wise activation pair (phi, dphi), dual numbers, same `_partial` caveat as for layers.
   * PoolingLayer: C04_pool_batch_eq_single; C04_pool_value_at_argmax (value loop = arg-max loop, any comparison);
     C04_pool_tie_rule (first maximum in scan order, for a strict weak order); C04_pool_derivative_routes_to_argmax (cleared buffer,
     coefficient goes to the arg max, pixels outside all patches get 0); C04_pool_derivative (exact affine identity in t wherever the
     arg max does not move; at ties max pooling is not differentiable - nothing is claimed there beyond the tie rule).
   * ResizeLayer (the interpolation is cubic B-spline, 16 clamped taps per pixel): C04_resize_batch_eq_single; C04_resize_derivative
     (the map is linear in the image and the coded scatter-derivative is its adjoint: exact identity, no remainder, for arbitrary
     weight / tap arithmetic).  NOT proved: that the weights are those of a B-spline or sum to one; the sample points of
     setStructure are modelled as coded (for non-square targets they enumerate the target column-major; see the final report).

   * ConcatenatedModel over ARBITRARY layers with optimisation flags (C04Het.v, proofs C04HetProofs / C04KindProofs):
     C04_het_param_roundtrip (parameter vector skips frozen layers, which keep their parameters; length = numberOfParameters),
     C04_het_batch_eq_single, C04_het_chain_rule (abstract: every layer's coded derivatives adjoint to a tangent map => the same for
     the concatenation; gradient blocks only for optimised layers with parameters, in layer order, right length; the three derivative
     calls agree), C04_het_layer_kinds_ok_partial / C04_het_layer_kinds_rowwise (the hypotheses hold for Conv2DModel / LinearModel /
     NeuronLayer with an activation pair, PoolingLayer, ResizeLayer).  `_partial`: softmax / normaliser activations, Normalizer,
     RBFLayer layers inside a concatenation are compared only.
   * RBFLayer: C04_rbf_batch_eq_single, C04_rbf_param_roundtrip (centers | log gamma, all four training settings, given
     log (exp x) = x).  NOT proved: the RBF parameter derivative (compared at 1e-12 and monitored by finite differences).
   * CMACMap: C04_cmac_batch_eq_single, C04_cmac_derivative (linear in the parameters: exact identity, arbitrary tile indices).
   * Ensemble (weighted mean): C04_ensemble_batch_eq_single.
   * KernelExpansion (C04Kexp.v / C04KexpProofs.v), for ANY kernel function: C04_kexp_batch_eq_single, C04_kexp_param_roundtrip
     (alpha row-major then offset; count), C04_kexp_blocks (the result does not depend on how the basis is cut into batches),
     C04_kexp_value (b_o + sum_j k(basis_j, x) alpha(j, o)), C04_kexp_linear_in_parameters (exact; the class advertises no derivative,
     so there is no coded gradient), C04_kexp_kernels_are_C05 (the kernels of the exact runs are C05Model.k_lin / k_poly).
   * Row-wise activations (C04RowActProofs.v), over every FIELD (field_theory with Leibniz equality, e.g. Qc, R):
     C04_dual_div_sound (the dual quotient is the solution of r * q = p), C04_normalizer_row_derivative, C04_softmax_row_derivative_partial
     (coded multiplyDerivative = adjoint of the dual-number tangent of a / sum a resp. exp a / sum exp a, on rows with non-zero
     denominator), C04_layer_derivative_normalizer, C04_layer_derivative_softmax_partial (= C04_layer_derivative_partial for these two
     activations), C04_softmax_layer_kind_ok_partial (with exp > 0 a softmax LinearModel is a layer kind of C04_het_chain_rule:
     the lift of C04_concat_chain_rule_partial).  `_partial`: exp' = exp is the definition of the dual exponential.  NOT proved: the
     chain rule through a NormalizerNeuron layer inside a concatenation (needs the side condition on every row; layer level only),
     NeuronLayer<Softmax/Normalizer> and Conv2DModel with these activations (compared only).

   COMPARED on every run (tools/c04.py, extracted model vs /repo): LinearModel x 7 activations, NeuronLayer x 7, Normalizer,
   Classifier, Conv2DModel x activations (exact on dyadic inputs with Linear / Rectifier), PoolingLayer (exact, incl. tie streams),
   ResizeLayer (bit-exact: the float instantiation performs the floating point operations in the order of the C++), RBFLayer, CMACMap,
   Ensemble<LinearModel>, ConcatenatedModel of any of these with optimisation flags on / off (parameter vector, advertised features,
   eval, weightedParameterDerivative, weightedInputDerivative, weightedDerivatives; homogeneous LinearModel networks are run through
   both net models, which must agree), KernelExpansion with Linear / Polynomial (exact on integer data) / Gaussian kernels, basis in
   explicitly given unequal batches, with and without offset, zero rows of alpha.   Every anchored class is compared; the monitors
   (batch vs single, round trip, finite differences) run on all of them as before.   NOT proved, compared and monitored only:
   the RBFLayer parameter derivative. *)
From Coq Require Import List Arith Bool ZArith Ring Lia Field QArith Qcanon.
Close Scope Qc_scope. Close Scope Q_scope.
From SharkV Require Import C04Model C04Aux C04Proofs C04Conv C04SumProofs C04ConvProofs C04ConvDerivProofs C04ConvThmProofs C04ConvDualProofs C04Pool C04PoolProofs C04Het C04HetProofs C04KindProofs C04Misc C04MiscProofs C04Kexp C04KexpProofs C04RowActProofs.
Import ListNotations.

(* ---------------- batch = single ---------------- *)
Theorem C04_batch_eq_single_linear :
  forall (A : Type) (zero one : A) (add mul sub : A -> A -> A) (opp : A -> A),
    ring_theory zero one add mul sub opp eq ->
    forall (l : layer A) (X X' : list (list A)) (r r' : nat),
      r < length X -> r' < length X' -> nth r X [] = nth r' X' [] ->
      nth r (lin_eval_batch zero add mul l X) [] = lin_eval zero add mul l (nth r X []) /\
      nth r (lin_eval_batch zero add mul l X) [] = nth r' (lin_eval_batch zero add mul l X') [].
Proof. exact batch_eq_single_linear. Qed.
Print Assumptions C04_batch_eq_single_linear.

Theorem C04_batch_eq_single_concat :
  forall (A : Type) (zero one : A) (add mul sub : A -> A -> A) (opp : A -> A),
    ring_theory zero one add mul sub opp eq ->
    forall (N : net A) (X X' : list (list A)) (r r' : nat),
      r < length X -> r' < length X' -> nth r X [] = nth r' X' [] ->
      nth r (net_eval_batch zero add mul N X) [] = net_eval zero add mul N (nth r X []) /\
      nth r (net_eval_batch zero add mul N X) [] = nth r' (net_eval_batch zero add mul N X') [].
Proof. exact batch_eq_single_concat. Qed.
Print Assumptions C04_batch_eq_single_concat.

Theorem C04_batch_eq_single_normalizer :
  forall (A : Type) (add mul : A -> A -> A) (dg b : list A) (X : list (list A)) (r : nat),
    r < length X -> nth r (norm_eval_batch add mul dg b X) [] = norm_eval add mul dg b (nth r X []).
Proof. exact batch_eq_single_normalizer. Qed.
Print Assumptions C04_batch_eq_single_normalizer.

Theorem C04_batch_eq_single_classifier :
  forall (A : Type) (zero one : A) (add mul sub : A -> A -> A) (opp : A -> A),
    ring_theory zero one add mul sub opp eq ->
    forall (ltb : A -> A -> bool) (l : layer A) (bias : list A) (X : list (list A)) (r : nat),
      r < length X ->
      nth r (classifier_eval_batch zero add mul ltb l bias X) 0 = classifier_eval zero add mul ltb l bias (nth r X []).
Proof. exact batch_eq_single_classifier. Qed.
Print Assumptions C04_batch_eq_single_classifier.

(* ---------------- parameter vector round trip, length = count ---------------- *)
Theorem C04_param_roundtrip_linear :
  forall (A : Type) (nin nout : nat) (off : bool) (a : act A) (t : list A),
    length t = lin_nparams nin nout off ->
    lin_params (lin_set nin nout off a t) = t /\
    length (lin_params (lin_set nin nout off a t)) = lin_nparams nin nout off.
Proof. exact param_roundtrip_linear. Qed.
Print Assumptions C04_param_roundtrip_linear.

Theorem C04_param_roundtrip_normalizer :
  forall (A : Type) (n : nat) (off : bool) (t : list A),
    length t = n + (if off then n else 0) ->
    let '(dg, b) := norm_set n off t in norm_params dg b = t /\ length dg = n.
Proof. exact param_roundtrip_normalizer. Qed.
Print Assumptions C04_param_roundtrip_normalizer.

Theorem C04_param_roundtrip_concat :
  forall (A : Type) (sh : list (nat * nat * bool * act A)) (t : list A),
    let n := net_nparams (map (fun q => match q with (i, o, off, _) => (i, o, off) end) sh) in
    length t = n -> net_params (net_set sh t) = t /\ length (net_params (net_set sh t)) = n.
Proof. exact param_roundtrip_concat. Qed.
Print Assumptions C04_param_roundtrip_concat.

(* ---------------- combined derivative call = the two separate calls ---------------- *)
Theorem C04_combined_eq_separate :
  forall (A : Type) (zero : A) (add mul : A -> A -> A) nin nout (l : layer A) X C,
    lin_wd zero add mul nin nout l X C = (lin_wpd zero add mul nin nout l X C, lin_wid zero add mul nin l X C).
Proof. exact combined_eq_separate. Qed.
Print Assumptions C04_combined_eq_separate.

(* ---------------- dual numbers are sound for + and * ---------------- *)
Theorem C04_dual_add_sound :
  forall (A : Type) (zero one : A) (add mul sub : A -> A -> A) (opp : A -> A),
    ring_theory zero one add mul sub opp eq ->
    forall (t : A) (p q : D A),
      add (re A add mul t p) (re A add mul t q) = re A add mul t (dadd A add p q).
Proof. exact dual_add_sound. Qed.
Print Assumptions C04_dual_add_sound.

Theorem C04_dual_mul_sound :
  forall (A : Type) (zero one : A) (add mul sub : A -> A -> A) (opp : A -> A),
    ring_theory zero one add mul sub opp eq ->
    forall (t : A) (p q : D A),
      mul (re A add mul t p) (re A add mul t q) =
      add (re A add mul t (dmul A add mul p q)) (mul (mul t t) (mul (snd p) (snd q))).
Proof. exact dual_mul_sound. Qed.
Print Assumptions C04_dual_mul_sound.

(* ---------------- the coded derivatives of a layer are the tangent of the weighted output sum ----------------
   full-strength statement (not proved for transcendental activations): for every activation of NeuronLayers.h,
   d/dt sum_r <C_r, f(theta + t dtheta, X_r + t dX_r)> at t = 0 over the reals equals the right-hand side. *)
Theorem C04_layer_derivative_partial :
  forall (A : Type) (zero one : A) (add mul sub : A -> A -> A) (opp : A -> A),
    ring_theory zero one add mul sub opp eq ->
    forall (nin nout : nat) (q : dlayer A) (XD : list (list (D A))) (C : list (list A)),
      wf_dlayer A nin nout q -> rows nin XD -> rows nout C ->
      let l := val A mul q in
      let X := map (map fst) XD in
      fr A zero add mul C
        (map (map snd) (map (lin_eval (dzero A zero) (dadd A add) (dmul A add mul) (up A add mul q)) XD)) =
      add (dot zero add mul (lin_wpd zero add mul nin nout l X C) (tan A q))
          (fr A zero add mul (lin_wid zero add mul nin l X C) (map (map snd) XD)).
Proof. exact layer_batch_tangent. Qed.
Print Assumptions C04_layer_derivative_partial.

Theorem C04_concat_chain_rule_partial :
  forall (A : Type) (zero one : A) (add mul sub : A -> A -> A) (opp : A -> A),
    ring_theory zero one add mul sub opp eq ->
    forall (N : dnet A) (nin nout : nat) (XD : list (list (D A))) (C : list (list A)),
      wf_dnet A nin N nout -> rows nin XD -> rows nout C ->
      let X := map (map fst) XD in
      fr A zero add mul C
        (map (map snd) (net_eval_batch (dzero A zero) (dadd A add) (dmul A add mul) (upN A add mul N) XD)) =
      add (dot zero add mul (fst (net_back zero add mul (valN A mul N) X C)) (tanN A N))
          (fr A zero add mul (snd (net_back zero add mul (valN A mul N) X C)) (map (map snd) XD)).
Proof. exact concat_chain_rule. Qed.
Print Assumptions C04_concat_chain_rule_partial.

(* ---------------- Linear activations: the coded derivatives are the gradient (polynomial identity in t) -------- *)
Theorem C04_linear_net_derivative :
  forall (A : Type) (zero one : A) (add mul sub : A -> A -> A) (opp : A -> A),
    ring_theory zero one add mul sub opp eq ->
    forall (N : dnet A) (nin nout : nat) (XD : list (list (D A))) (C : list (list A)) (t : A),
      linear_dnet A one N -> wf_dnet A nin N nout -> rows nin XD -> rows nout C ->
      let X := map (map fst) XD in
      let S0 := fr A zero add mul C (net_eval_batch zero add mul (valN A mul N) X) in
      let St := fr A zero add mul C
                  (net_eval_batch zero add mul (netAt A mul (re A add mul t) N) (map (map (re A add mul t)) XD)) in
      let g := net_back zero add mul (valN A mul N) X C in
      St = add (add S0 (mul t (add (dot zero add mul (fst g) (tanN A N))
                                   (fr A zero add mul (snd g) (map (map snd) XD)))))
               (mul (mul t t) (prem A zero add mul t (sumE A zero N XD C))).
Proof. exact linear_net_taylor. Qed.
Print Assumptions C04_linear_net_derivative.

Theorem C04_taylor_of_polynomial_expressions :
  forall (A : Type) (zero one : A) (add mul sub : A -> A -> A) (opp : A -> A),
    ring_theory zero one add mul sub opp eq ->
    forall (t : A) (e : pexpr A),
      fst (pdual A add mul e) = pval0 A add mul e /\
      pvalt A add mul t e =
      add (add (pval0 A add mul e) (mul t (snd (pdual A add mul e)))) (mul (mul t t) (prem A zero add mul t e)).
Proof. exact taylor_pexpr. Qed.
Print Assumptions C04_taylor_of_polynomial_expressions.

(* ---------------- the hypotheses are satisfiable: a concrete two-layer Linear network over Z ---------------- *)
Example C04_Z_is_a_ring : ring_theory 0%Z 1%Z Z.add Z.mul Z.sub Z.opp eq.
Proof. exact InitialRing.Zth. Qed.

(* layer 1: 2 -> 2 with offset, layer 2: 2 -> 1 without; every weight (w, dw) carries its direction *)
Example C04_example_net_wf :
  let q1 := {| dW := [[(1, 1); (2, 0)]; (0, 1) :: [(3, -1)]]%Z; db := [(1, 0); (-1, 2)]%Z;
               dphi_v := fun x : Z => x; dphi_d := fun _ : Z => 1%Z |} in
  let q2 := {| dW := [[(2, 1); (-1, 0)]]%Z; db := []; dphi_v := fun x : Z => x; dphi_d := fun _ : Z => 1%Z |} in
  let N := [(2, 2, q1); (2, 1, q2)] in
  linear_dnet Z 1%Z N /\ wf_dnet Z 2 N 1 /\
  rows 2 [[(1, 1); (2, -1)]; [(0, 0); (1, 3)]]%Z /\ rows 1 [[3]; [-2]]%Z.
Proof.
  repeat split; simpl; auto; repeat constructor; auto.
Qed.

(* and on it the derivative theorem gives concrete numbers: value 13 at t = 0, first-order coefficient
   <gradient, direction> = 14, and at t = 5 the perturbed value 13 + 5*14 + 25*remainder *)
Example C04_example_net_numbers :
  let q1 := {| dW := [[(1, 1); (2, 0)]; (0, 1) :: [(3, -1)]]%Z; db := [(1, 0); (-1, 2)]%Z;
               dphi_v := fun x : Z => x; dphi_d := fun _ : Z => 1%Z |} in
  let q2 := {| dW := [[(2, 1); (-1, 0)]]%Z; db := []; dphi_v := fun x : Z => x; dphi_d := fun _ : Z => 1%Z |} in
  let N := [(2, 2, q1); (2, 1, q2)] in
  let XD := [[(1, 1); (2, -1)]; [(0, 0); (1, 3)]]%Z in
  let C := [[3]; [-2]]%Z in
  let X := map (map fst) XD in
  let g := net_back 0%Z Z.add Z.mul (valN Z Z.mul N) X C in
  fr Z 0%Z Z.add Z.mul C (net_eval_batch 0%Z Z.add Z.mul (valN Z Z.mul N) X) = 13%Z /\
  (dot 0%Z Z.add Z.mul (fst g) (tanN Z N) + fr Z 0%Z Z.add Z.mul (snd g) (map (map snd) XD) = 14)%Z /\
  fr Z 0%Z Z.add Z.mul C
     (net_eval_batch 0%Z Z.add Z.mul (netAt Z Z.mul (re Z Z.add Z.mul 5%Z) N) (map (map (re Z Z.add Z.mul 5%Z)) XD))
    = (13 + 5 * 14 + 25 * prem Z 0%Z Z.add Z.mul 5%Z (sumE Z 0%Z N XD C))%Z.
Proof. vm_compute. repeat split; reflexivity. Qed.

(* a non-linear element-wise activation pair satisfies the hypotheses of the layer theorem as well
   (phi x = x*x with "derivative in the output" 2*sqrt(y) is not expressible; the pair below is phi x = 2x, dphi y = 2) *)
Example C04_example_layer_wf :
  wf_dlayer Z 2 1 {| dW := [[(1, 0); (2, 1)]]%Z; db := [(5, 1)]%Z; dphi_v := fun x => (2 * x)%Z; dphi_d := fun _ => 2%Z |}.
Proof. split; [reflexivity|split; [repeat constructor|right; reflexivity]]. Qed.

(* ======================= Conv2DModel (C04Conv.v: index-level model of ConvolutionalModel.h, conv2d.hpp, Reorder.h) ======================= *)
(* batch = single: row r of the batch result (one gemm over the patch matrix of ALL images, offset added on the
   (pixels x filters) view of the raw storage) is the single evaluation of image r, for both padding modes, any filter size *)
Theorem C04_conv_batch_eq_single :
  forall (A : Type) (zero : A) (add mul : A -> A -> A) (m : conv A) (X X' : list (list A)) (r r' : nat),
      geo_ok (cg m) -> r < length X -> r' < length X' -> nth r X [] = nth r' X' [] ->
      nth r (conv_eval_batch zero add mul m X) [] = conv_eval zero add mul m (nth r X []) /\
      nth r (conv_eval_batch zero add mul m X) [] = nth r' (conv_eval_batch zero add mul m X') [].
Proof. exact conv_batch_eq_single. Qed.
Print Assumptions C04_conv_batch_eq_single.

Theorem C04_conv_param_roundtrip :
  forall (A : Type) (zero : A) (g : cgeo) (a : act A) (theta : list A),
    length theta = conv_nparams g ->
    conv_params (conv_set zero g a theta) = theta /\ length (conv_params (conv_set zero g a theta)) = conv_nparams g /\
    length (cflt (conv_set zero g a theta)) = gfh g * gfw g * gF g * gC g /\ length (coff (conv_set zero g a theta)) = gF g.
Proof. exact conv_param_roundtrip. Qed.
Print Assumptions C04_conv_param_roundtrip.

(* the geometry hypothesis is satisfiable: 3x4 image, 2 channels, 3 filters of 2x3, both paddings *)
Example C04_conv_geo_ok_example :
  geo_ok {| gC := 2; gF := 3; gH := 3; gW := 4; gfh := 2; gfw := 3; gpad := true |} /\
  geo_ok {| gC := 2; gF := 3; gH := 3; gW := 4; gfh := 2; gfw := 3; gpad := false |}.
Proof. split; unfold geo_ok; simpl; repeat split; try lia; intros; try discriminate; lia. Qed.

(* the coded derivatives, for ANY delta (= coefficients times activation derivative): the delta-weighted sum of the first-order
   change of the convolution + offset in direction (dw ++ db, dX) is <coded parameter derivative, dw ++ db> + <coded input
   derivative, dX>.  conv2d_kernel .. X dw is the convolution of the images X with the filters dw as coded (im2mat / im2mat_pad +
   gemm); the right-hand side runs reorder NHWC->CHWN, a convolution with roles of batch and channels swapped, reorder back
   (parameters) and the convolution with the flipped, for even sizes enlarged, backprop filters (inputs). *)
Theorem C04_conv_derivative_core :
  forall (A : Type) (zero one : A) (add mul sub : A -> A -> A) (opp : A -> A),
    ring_theory zero one add mul sub opp eq ->
    forall (g : cgeo) (X dX Ds : list (list A)) (w dw db : list A),
      geo_ok g -> rows (conv_nin g) X -> rows (conv_nout g) Ds -> length Ds = length X -> length dX = length X ->
      length dw = conv_nflt g ->
      let lin := fun (Y : list (list A)) (v : list A) =>
                   conv2d_kernel zero add mul (gC g) (gF g) (gH g) (gW g) (gfh g) (gfw g) (pad_h g) (pad_w g) Y v in
      bsum zero add (length X) (fun r => bsum zero add (conv_nout g) (fun o =>
        mul (get zero (nth r Ds []) o)
            (add (add (get zero (nth r (lin X dw) []) o) (get zero (nth r (lin dX w) []) o)) (get zero db (o mod gF g))))) =
      add (dot zero add mul (conv_wpd_d zero add mul g X Ds) (dw ++ db))
          (fr A zero add mul (conv_wid_d zero add mul g (bp_filters zero g w) Ds) dX).
Proof. exact conv_core. Qed.
Print Assumptions C04_conv_derivative_core.

(* Linear activation, FULL strength: the coefficient-weighted output sum at (theta + t dtheta, X + t dX) is a polynomial in t
   whose first-order coefficient is <coded weightedParameterDerivative, dtheta> + <coded weightedInputDerivative, dX>;
   both padding modes, any filter size (even sizes included), any number of channels / filters, any batch *)
Theorem C04_conv_linear_derivative :
  forall (A : Type) (zero one : A) (add mul sub : A -> A -> A) (opp : A -> A),
    ring_theory zero one add mul sub opp eq ->
    forall (g : cgeo) (theta dtheta : list A) (X dX Cf : list (list A)) (t : A),
      geo_ok g -> length theta = conv_nparams g -> length dtheta = conv_nparams g ->
      rows (conv_nin g) X -> rows (conv_nin g) dX -> length dX = length X -> rows (conv_nout g) Cf -> length Cf = length X ->
      let m := conv_set zero g (id_act A) theta in
      let mt := conv_set zero g (id_act A) (vadd add theta (vscale mul t dtheta)) in
      let Xt := madd add X (map (vscale mul t) dX) in
      fr A zero add mul Cf (conv_eval_batch zero add mul mt Xt) =
      add (add (fr A zero add mul Cf (conv_eval_batch zero add mul m X))
               (mul t (add (dot zero add mul (conv_wpd zero add mul m X Cf) dtheta)
                           (fr A zero add mul (conv_wid zero add mul m X Cf) dX))))
          (mul (mul t t)
               (fr A zero add mul Cf
                   (conv2d_kernel zero add mul (gC g) (gF g) (gH g) (gW g) (gfh g) (gfw g) (pad_h g) (pad_w g) dX
                                  (firstn (conv_nflt g) dtheta)))).
Proof. exact conv_linear_derivative. Qed.
Print Assumptions C04_conv_linear_derivative.

(* concrete numbers over Z: 2x3 image, 2 channels, 2 filters of 2x2 (even: enlarged backprop filters), ZeroPad, batch of 2:
   value 22 at t = 0, first-order coefficient <gradient, direction> = 39, second-order coefficient 19, value 692 at t = 5 *)
Example C04_conv_example_numbers :
  let g := {| gC := 2; gF := 2; gH := 2; gW := 3; gfh := 2; gfw := 2; gpad := true |} in
  let theta := [1;-2;0;3;2;1;-1;0; 0;1;1;-1;2;0;-2;1; 1;-1]%Z in
  let dtheta := [0;1;1;0;-1;2;0;1; 1;0;-1;1;0;2;1;-1; 2;1]%Z in
  let X := [[1;2;0;-1;3;1;2;0;-2;1;1;1]; [0;1;-1;2;1;0;3;-1;2;2;0;1]]%Z in
  let dX := [[1;0;-1;1;0;2;1;-1;0;1;2;0]; [2;-1;0;1;1;0;-1;2;0;0;1;1]]%Z in
  let Cf := [[1;-1;2;0;1;1;-2;1;0;3;-1;1]; [0;2;-1;1;1;0;2;-1;1;0;1;-2]]%Z in
  let m := conv_set 0%Z g (id_act Z) theta in
  geo_ok g /\ length theta = conv_nparams g /\ rows (conv_nin g) X /\ rows (conv_nout g) Cf /\
  fr Z 0%Z Z.add Z.mul Cf (conv_eval_batch 0%Z Z.add Z.mul m X) = 22%Z /\
  (dot 0%Z Z.add Z.mul (conv_wpd 0%Z Z.add Z.mul m X Cf) dtheta + fr Z 0%Z Z.add Z.mul (conv_wid 0%Z Z.add Z.mul m X Cf) dX = 39)%Z /\
  fr Z 0%Z Z.add Z.mul Cf (conv_eval_batch 0%Z Z.add Z.mul (conv_set 0%Z g (id_act Z) (vadd Z.add theta (vscale Z.mul 5%Z dtheta)))
                                            (madd Z.add X (map (vscale Z.mul 5%Z) dX))) = (22 + 5 * 39 + 25 * 19)%Z.
Proof.
  cbv zeta. split; [unfold geo_ok; simpl; repeat split; try lia; intros; discriminate|].
  split; [reflexivity|]. split; [repeat constructor|]. split; [repeat constructor|].
  vm_compute. repeat split; reflexivity.
Qed.

(* element-wise activation pair (phi, dphi) with the derivative written in the OUTPUT (NeuronLayers.h): the coded derivatives
   are the tangent (the SAME model code run over dual numbers) of the weighted output sum, in every direction.
   `_partial` for the same reason as C04_layer_derivative_partial: that dphi o phi is the analytic derivative of tanh / logistic /
   fast sigmoid / rectifier away from 0 is monitored by finite differences, not proved.
   full-strength statement: d/dt sum_r <C_r, f(theta + t dtheta, X_r + t dX_r)> at t = 0 over the reals equals the right-hand side. *)
Theorem C04_conv_derivative_partial :
  forall (A : Type) (zero one : A) (add mul sub : A -> A -> A) (opp : A -> A),
    ring_theory zero one add mul sub opp eq ->
    forall (g : cgeo) (phi dphi : A -> A) (thetaD : list (D A)) (XD : list (list (D A))) (Cf : list (list A)),
      geo_ok g -> length thetaD = conv_nparams g -> rows (conv_nin g) XD -> rows (conv_nout g) Cf -> length Cf = length XD ->
      let m := conv_set zero g (ew_act mul phi dphi) (map fst thetaD) in
      let mD := conv_set (dzero A zero) g (ew_act (dmul A add mul) (phiD A mul phi dphi) (fun p => p)) thetaD in
      let X := map (map fst) XD in
      fr A zero add mul Cf (map (map snd) (conv_eval_batch (dzero A zero) (dadd A add) (dmul A add mul) mD XD)) =
      add (dot zero add mul (conv_wpd zero add mul m X Cf) (map snd thetaD))
          (fr A zero add mul (conv_wid zero add mul m X Cf) (map (map snd) XD)).
Proof. exact conv_derivative_partial. Qed.
Print Assumptions C04_conv_derivative_partial.

(* ======================= PoolingLayer (C04Pool.v: maxPooling / maxPoolingDerivative as coded) ======================= *)
Theorem C04_pool_batch_eq_single :
  forall (A : Type) (zero : A) (ltb : A -> A -> bool) (g : pgeo) (X X' : list (list A)) (r r' : nat),
    r < length X -> r' < length X' -> nth r X [] = nth r' X' [] ->
    nth r (pool_eval_batch zero ltb g X) [] = pool_eval zero ltb g (nth r X []) /\
    nth r (pool_eval_batch zero ltb g X) [] = nth r' (pool_eval_batch zero ltb g X') [].
Proof. exact pool_batch_eq_single. Qed.
Print Assumptions C04_pool_batch_eq_single.

(* the value loop (vector max over the channels) and the arg-max loop of the derivative agree: the pooled value is the input at
   the coded arg max - for ANY comparison `ltb`, any image size (also not divisible by the patch), any patch *)
Theorem C04_pool_value_at_argmax :
  forall (A : Type) (zero : A) (ltb : A -> A -> bool) (g : pgeo) (x : list A) (p c : nat),
    p < pool_oh g * pool_ow g -> c < pC g ->
    get zero (pool_eval_img zero ltb g x) (p * pC g + c) = get zero x (pool_amax zero ltb g x p c * pC g + c).
Proof. exact pool_value. Qed.
Print Assumptions C04_pool_value_at_argmax.

(* tie rule: the scan goes row by row through the patch (the start pixel first); the coded arg max is the FIRST maximum:
   everything scanned before it is strictly smaller, nothing scanned after it is larger *)
Theorem C04_pool_tie_rule :
  forall (A : Type) (zero : A) (ltb : A -> A -> bool) (g : pgeo) (x : list A) (p c : nat),
    strict_weak A ltb ->
    let a := pool_amax zero ltb g x p c in
    let val := fun idx => get zero x (idx * pC g + c) in
    exists L1 L2, patch_start g p :: patch g p = L1 ++ a :: L2 /\
      (forall j, In j L1 -> ltb (val j) (val a) = true) /\ (forall j, In j L2 -> ltb (val a) (val j) = false).
Proof. exact pool_tie_rule. Qed.
Print Assumptions C04_pool_tie_rule.

(* the derivative buffer is cleared (repair 41a616ff) and every coefficient is routed to the arg max of its patch and channel:
   <coded input derivative, dx> = sum_{p,c} coef(p,c) * dx(argmax(p,c), c); pixels outside all patches get 0 *)
Theorem C04_pool_derivative_routes_to_argmax :
  forall (A : Type) (zero one : A) (add mul sub : A -> A -> A) (opp : A -> A),
    ring_theory zero one add mul sub opp eq ->
    forall (ltb : A -> A -> bool) (g : pgeo) (x coef dx : list A),
      length dx = pool_nin g ->
      length (pool_wid_img zero add ltb g x coef) = pool_nin g /\
      dot zero add mul (pool_wid_img zero add ltb g x coef) dx =
      bsum zero add (pool_oh g * pool_ow g) (fun p => bsum zero add (pC g) (fun c =>
        mul (get zero coef (p * pC g + c)) (get zero dx (pool_amax zero ltb g x p c * pC g + c)))).
Proof. exact pool_wid_adjoint. Qed.
Print Assumptions C04_pool_derivative_routes_to_argmax.

(* wherever the step t dX does not move any arg max (max pooling is differentiable exactly there), the weighted output sum is
   affine in t with slope <coded input derivative, dX>: exact identity.  (At ties the function has a kink; the code then follows
   the tie rule above, the finite-difference monitor skips those points.) *)
Theorem C04_pool_derivative :
  forall (A : Type) (zero one : A) (add mul sub : A -> A -> A) (opp : A -> A),
    ring_theory zero one add mul sub opp eq ->
    forall (ltb : A -> A -> bool) (g : pgeo) (X dX Cf : list (list A)) (t : A),
      rows (pool_nin g) X -> rows (pool_nin g) dX -> length dX = length X -> rows (pool_nout g) Cf -> length Cf = length X ->
      (forall r p c, r < length X -> p < pool_oh g * pool_ow g -> c < pC g ->
          pool_amax zero ltb g (vadd add (nth r X []) (vscale mul t (nth r dX []))) p c = pool_amax zero ltb g (nth r X []) p c) ->
      fr A zero add mul Cf (pool_eval_batch zero ltb g (madd add X (map (vscale mul t) dX))) =
      add (fr A zero add mul Cf (pool_eval_batch zero ltb g X)) (mul t (fr A zero add mul (pool_wid zero add ltb g X Cf) dX)).
Proof. exact pool_batch_derivative. Qed.
Print Assumptions C04_pool_derivative.

(* Z with < is a strict weak order; a 3x3 one-channel image with 2x2 patch (size not divisible) and a tie: the first maximum wins *)
Example C04_pool_example :
  strict_weak Z Z.ltb /\
  let g := {| pH := 3; pW := 3; pC := 1; pph := 2; ppw := 2 |} in
  pool_eval_img 0%Z Z.ltb g [1; 5; 9; 5; 2; 9; 7; 7; 7]%Z = [5%Z] /\
  pool_amax 0%Z Z.ltb g [1; 5; 9; 5; 2; 9; 7; 7; 7]%Z 0 0 = 1 /\
  pool_wid_img 0%Z Z.add Z.ltb g [1; 5; 9; 5; 2; 9; 7; 7; 7]%Z [4%Z] = [0; 4; 0; 0; 0; 0; 0; 0; 0]%Z.
Proof.
  split; [split; intros a b c; rewrite !Z.ltb_lt; lia|]. vm_compute. repeat split; reflexivity.
Qed.

(* ======================= ResizeLayer (C04Pool.v: splineInterpolation2D / ...Derivative as coded) ======================= *)
Theorem C04_resize_batch_eq_single :
  forall (A : Type) (zero : A) (add mul rsub rdiv : A -> A -> A) (ropp : A -> A) (ofnat : nat -> A) (floorn : A -> nat)
         (g : rgeo) (X X' : list (list A)) (r r' : nat),
    r < length X -> r' < length X' -> nth r X [] = nth r' X' [] ->
    nth r (resize_eval_batch zero add mul rsub rdiv ropp ofnat floorn g X) [] = resize_eval zero add mul rsub rdiv ropp ofnat floorn g (nth r X []) /\
    nth r (resize_eval_batch zero add mul rsub rdiv ropp ofnat floorn g X) [] = nth r' (resize_eval_batch zero add mul rsub rdiv ropp ofnat floorn g X') [].
Proof. exact resize_batch_eq_single. Qed.
Print Assumptions C04_resize_batch_eq_single.

(* the interpolation (16 taps per output pixel with clamped indices, whatever the weights are) is a linear map of the image and the
   coded input derivative (scatter into a cleared buffer) is its adjoint: the weighted output sum at X + t dX is EXACTLY its value at
   X plus t * <coded input derivative, dX>, no remainder; `rsub rdiv ropp ofnat floorn` (the arithmetic that produces sample
   points, B-spline weights and tap positions) are arbitrary *)
Theorem C04_resize_derivative :
  forall (A : Type) (zero one : A) (add mul sub : A -> A -> A) (opp : A -> A),
    ring_theory zero one add mul sub opp eq ->
    forall (rsub rdiv : A -> A -> A) (ropp : A -> A) (ofnat : nat -> A) (floorn : A -> nat) (g : rgeo)
           (X dX Cf : list (list A)) (t : A),
      rows (resize_nin g) X -> rows (resize_nin g) dX -> length dX = length X -> rows (resize_nout g) Cf -> length Cf = length X ->
      fr A zero add mul Cf (resize_eval_batch zero add mul rsub rdiv ropp ofnat floorn g (madd add X (map (vscale mul t) dX))) =
      add (fr A zero add mul Cf (resize_eval_batch zero add mul rsub rdiv ropp ofnat floorn g X))
          (mul t (fr A zero add mul (resize_wid zero add mul rsub rdiv ropp ofnat floorn g Cf) dX)).
Proof. exact resize_batch_derivative. Qed.
Print Assumptions C04_resize_derivative.

(* ======================= ConcatenatedModel over arbitrary layers with optimisation flags (C04Het.v) ======================= *)
(* setParameterVector / parameterVector skip frozen layers (k_faithful: the optimised layers return the parameters they were given;
   by definition for every modelled kind except RBFLayer, see C04_rbf_param_roundtrip): the round trip is the identity, the length is numberOfParameters
   (= the sum over the OPTIMISED layers), flags and layer kinds are untouched and every frozen layer keeps its parameters *)
Theorem C04_het_param_roundtrip :
  forall (A : Type) (N : hnet A) (t : list A),
    Forall (fun l => h_opt l = true -> k_faithful A (h_kind l)) N ->
    length t = hnet_np N ->
    hnet_params (hnet_set N t) = t /\
    length (hnet_params (hnet_set N t)) = hnet_np N /\
    hnet_np (hnet_set N t) = hnet_np N /\
    map (@h_opt A) (hnet_set N t) = map (@h_opt A) N /\
    map (@h_kind A) (hnet_set N t) = map (@h_kind A) N /\
    (forall i l, nth_error N i = Some l -> h_opt l = false -> nth_error (hnet_set N t) i = Some l).
Proof. exact hnet_roundtrip. Qed.
Print Assumptions C04_het_param_roundtrip.

Theorem C04_het_batch_eq_single :
  forall (A : Type) (N : hnet A) (X X' : list (list A)) (r r' : nat),
    Forall (fun l => k_rowwise A (h_kind l)) N ->
    r < length X -> r' < length X' -> nth r X [] = nth r' X' [] ->
    nth r (hnet_eval N X) [] = hnet_eval1 N (nth r X []) /\
    nth r (hnet_eval N X) [] = nth r' (hnet_eval N X') [].
Proof. exact hnet_batch_eq_single. Qed.
Print Assumptions C04_het_batch_eq_single.

(* chain rule with frozen layers: if for every layer the coded derivatives are the adjoint of a tangent map of that layer (kind_ok),
   then for the concatenation, with direction blocks only for the optimised layers (frozen layers do not move):
   <C, composed tangent> = <gradient of weightedDerivatives, direction> + <input derivative, dX>; the gradient has exactly
   numberOfParameters entries (blocks in layer order, none for frozen or parameter-free layers); weightedInputDerivative and
   weightedParameterDerivative (which skips the input derivative of the first layer) return the same two results *)
Theorem C04_het_chain_rule :
  forall (A : Type) (zero one : A) (add mul sub : A -> A -> A) (opp : A -> A),
    ring_theory zero one add mul sub opp eq ->
    forall (N : tnet A) (dps : list (list A)) (nin nout : nat) (X dX C : list (list A)),
      chain_ok A zero add mul nin N dps nout ->
      rows nin X -> rows nin dX -> length dX = length X -> rows nout C -> length C = length X ->
      fr A zero add mul C (tnet_tan A N dps X dX) =
        add (dot zero add mul (fst (hnet_wd (map fst N) X C)) (hdir A N dps)) (fr A zero add mul (snd (hnet_wd (map fst N) X C)) dX) /\
      length (fst (hnet_wd (map fst N) X C)) = length (hdir A N dps) /\
      length (hdir A N dps) = hnet_np (map fst N) /\
      rows nin (snd (hnet_wd (map fst N) X C)) /\ length (snd (hnet_wd (map fst N) X C)) = length X /\
      hnet_wid (map fst N) X C = snd (hnet_wd (map fst N) X C) /\
      (N <> [] -> hnet_wpd (map fst N) X C = fst (hnet_wd (map fst N) X C)).
Proof. exact het_chain_rule. Qed.
Print Assumptions C04_het_chain_rule.

(* the hypotheses of C04_het_chain_rule / C04_het_batch_eq_single hold for the modelled layer kinds: Conv2DModel, LinearModel and
   NeuronLayer with an element-wise activation pair (phi, dphi) (tangent = the same code over dual numbers, resp. dphi(phi x) dx),
   PoolingLayer (tangent = selection at the coded arg max), ResizeLayer (tangent = the linear map itself).
   `_partial`: softmax / normaliser activations and Normalizer, RBFLayer, CMACMap, KernelExpansion layers are not covered. *)
Theorem C04_het_layer_kinds_ok_partial :
  forall (A : Type) (zero one : A) (add mul sub : A -> A -> A) (opp : A -> A),
    ring_theory zero one add mul sub opp eq ->
    (forall (g : cgeo) (phi dphi : A -> A), geo_ok g ->
        kind_ok A zero add mul (conv_kind zero add mul g (ew_act mul phi dphi)) (conv_tan A zero add mul g phi dphi)) /\
    (forall (nin nout : nat) (off : bool) (phi dphi : A -> A),
        kind_ok A zero add mul (lin_kind zero add mul nin nout off (ew_act mul phi dphi)) (lin_tan A zero add mul nin nout off phi dphi)) /\
    (forall (n : nat) (phi dphi : A -> A),
        kind_ok A zero add mul (neu_kind n (ew_act mul phi dphi)) (neu_tan A mul phi dphi)) /\
    (forall (ltb : A -> A -> bool) (g : pgeo), kind_ok A zero add mul (pool_kind zero add ltb g) (pool_tan A zero ltb g)) /\
    (forall (rsub rdiv : A -> A -> A) (ropp : A -> A) (ofnat : nat -> A) (floorn : A -> nat) (g : rgeo),
        kind_ok A zero add mul (resize_kind zero add mul rsub rdiv ropp ofnat floorn g)
                (resize_tan A zero add mul rsub rdiv ropp ofnat floorn g)).
Proof.
  intros A zero one add mul sub opp Rth. split; [|split; [|split; [|split]]].
  - intros; apply (conv_kind_ok A zero one add mul sub opp Rth); auto.
  - intros; apply (lin_kind_ok A zero one add mul sub opp Rth).
  - intros; apply (neu_kind_ok A zero one add mul sub opp Rth).
  - intros; apply (pool_kind_ok A zero one add mul sub opp Rth).
  - intros; apply (resize_kind_ok A zero one add mul sub opp Rth).
Qed.
Print Assumptions C04_het_layer_kinds_ok_partial.

Theorem C04_het_layer_kinds_rowwise :
  forall (A : Type) (zero one : A) (add mul sub : A -> A -> A) (opp : A -> A),
    ring_theory zero one add mul sub opp eq ->
    (forall (g : cgeo) (a : act A), geo_ok g -> k_rowwise A (conv_kind zero add mul g a)) /\
    (forall (nin nout : nat) (off : bool) (a : act A), k_rowwise A (lin_kind zero add mul nin nout off a)) /\
    (forall (n : nat) (a : act A), k_rowwise A (neu_kind n a)) /\
    (forall (ltb : A -> A -> bool) (g : pgeo), k_rowwise A (pool_kind zero add ltb g)) /\
    (forall (rsub rdiv : A -> A -> A) (ropp : A -> A) (ofnat : nat -> A) (floorn : A -> nat) (g : rgeo),
        k_rowwise A (resize_kind zero add mul rsub rdiv ropp ofnat floorn g)).
Proof.
  intros A zero one add mul sub opp Rth. split; [|split; [|split; [|split]]]; intros.
  - apply conv_rowwise; auto.
  - apply (lin_rowwise A zero one add mul sub opp Rth).
  - apply neu_rowwise.
  - apply pool_rowwise.
  - apply resize_rowwise.
Qed.
Print Assumptions C04_het_layer_kinds_rowwise.

(* chain_ok is satisfiable: Conv2DModel (2x2 image, 1 channel, 1 filter 1x1, ZeroPad; FROZEN) -> PoolingLayer 2x2 -> LinearModel 1 -> 2
   (optimised) over Z; the direction has a zero block for the frozen layer and the parameter vector of the concatenation has only the
   3 entries of the LinearModel *)
Example C04_het_chain_ok_example :
  let g := {| gC := 1; gF := 1; gH := 2; gW := 2; gfh := 1; gfw := 1; gpad := true |} in
  let pg := {| pH := 2; pW := 2; pC := 1; pph := 2; ppw := 2 |} in
  let idf := fun x : Z => x in let onef := fun _ : Z => 1%Z in
  let N : tnet Z :=
    [({| h_opt := false; h_kind := conv_kind 0%Z Z.add Z.mul g (ew_act Z.mul idf onef); h_par := [2; 1]%Z |}, conv_tan Z 0%Z Z.add Z.mul g idf onef);
     ({| h_opt := true; h_kind := pool_kind 0%Z Z.add Z.ltb pg; h_par := [] |}, pool_tan Z 0%Z Z.ltb pg);
     ({| h_opt := true; h_kind := lin_kind 0%Z Z.add Z.mul 1 2 false (ew_act Z.mul idf onef); h_par := [3; -1]%Z |},
      lin_tan Z 0%Z Z.add Z.mul 1 2 false idf onef)] in
  chain_ok Z 0%Z Z.add Z.mul 4 N [[0; 0]; []; [1; 2]]%Z 2 /\ hnet_np (map fst N) = 2 /\
  hnet_eval (map fst N) [[1; 4; -2; 3]]%Z = [[27; -9]]%Z.
Proof.
  cbv zeta. split; [|split; [reflexivity|vm_compute; reflexivity]].
  cbn [chain_ok]. split; [reflexivity|]. split; [reflexivity|]. split; [reflexivity|]. split; [reflexivity|]. split; [|split; [reflexivity|]].
  2: split; [reflexivity|]. 2: split; [reflexivity|]. 2: split; [discriminate|]. 2: split; [|split; [reflexivity|]].
  3: split; [reflexivity|]. 3: split; [reflexivity|]. 3: split; [discriminate|]. 3: split; [|reflexivity].
  - apply (conv_kind_ok Z 0%Z 1%Z Z.add Z.mul Z.sub Z.opp C04_Z_is_a_ring). unfold geo_ok; simpl; repeat split; try lia; intros; discriminate.
  - apply (pool_kind_ok Z 0%Z 1%Z Z.add Z.mul Z.sub Z.opp C04_Z_is_a_ring).
  - apply (lin_kind_ok Z 0%Z 1%Z Z.add Z.mul Z.sub Z.opp C04_Z_is_a_ring).
Qed.

(* ======================= RBFLayer, CMACMap, Ensemble (C04Misc.v) ======================= *)
Theorem C04_rbf_batch_eq_single :
  forall (A : Type) (zero : A) (add mul sub : A -> A -> A) (opp : A -> A) (expA : A -> A) (m : rbf A) (X X' : list (list A)) (r r' : nat),
    r < length X -> r' < length X' -> nth r X [] = nth r' X' [] ->
    nth r (rbf_eval_batch zero add mul sub opp expA m X) [] = rbf_eval zero add mul sub opp expA m (nth r X []) /\
    nth r (rbf_eval_batch zero add mul sub opp expA m X) [] = nth r' (rbf_eval_batch zero add mul sub opp expA m X') [].
Proof. exact rbf_batch_eq_single. Qed.
Print Assumptions C04_rbf_batch_eq_single.

(* parameterVector = centers | log(gamma), setParameterVector stores exp of the second part: given log (exp x) = x (true over the
   reals; in floating point only up to rounding, which is why the check compares RBF round trips at 1e-12) the round trip is the identity
   for all four settings of setTrainingParameters, has numberOfParameters entries and leaves the untrained part alone *)
Theorem C04_rbf_param_roundtrip :
  forall (A : Type) (mul sub : A -> A -> A) (expA logA : A -> A) (ofnat : nat -> A) (half logPi : A) (m : rbf A) (theta : list A),
    (forall x, logA (expA x) = x) -> length theta = rbf_nparams m ->
    let m' := rbf_set mul sub expA logA ofnat half logPi m theta in
    rbf_params logA m' = theta /\ length (rbf_params logA m') = rbf_nparams m /\ rbf_nparams m' = rbf_nparams m /\
    (r_tc m = false -> r_centers m' = r_centers m) /\ (r_tw m = false -> r_gamma m' = r_gamma m /\ r_logn m' = r_logn m).
Proof. exact rbf_param_roundtrip. Qed.
Print Assumptions C04_rbf_param_roundtrip.

Theorem C04_cmac_batch_eq_single :
  forall (A : Type) (zero : A) (add mul csub cdiv : A -> A -> A) (ofnat : nat -> A) (half : A) (trunc : A -> nat) (oneA : A)
         (g : cmac A) (theta : list A) (X X' : list (list A)) (r r' : nat),
    r < length X -> r' < length X' -> nth r X [] = nth r' X' [] ->
    nth r (cmac_eval_batch zero add mul csub cdiv ofnat half trunc oneA g theta X) [] = cmac_eval zero add mul csub cdiv ofnat half trunc oneA g theta (nth r X []) /\
    nth r (cmac_eval_batch zero add mul csub cdiv ofnat half trunc oneA g theta X) [] =
    nth r' (cmac_eval_batch zero add mul csub cdiv ofnat half trunc oneA g theta X') [].
Proof. exact cmac_batch_eq_single. Qed.
Print Assumptions C04_cmac_batch_eq_single.

(* CMACMap is linear in its parameter vector (= the parameter vector itself: the round trip is trivial): the weighted output sum at
   theta + t dtheta is EXACTLY its value at theta plus t * <coded weightedParameterDerivative, dtheta>, for whatever tile indices the
   float arithmetic of getArrayIndexForTiling produces (csub, cdiv, trunc, ... are arbitrary) *)
Theorem C04_cmac_derivative :
  forall (A : Type) (zero one : A) (add mul sub : A -> A -> A) (opp : A -> A),
    ring_theory zero one add mul sub opp eq ->
    forall (csub cdiv : A -> A -> A) (ofnat : nat -> A) (half : A) (trunc : A -> nat) (oneA : A)
           (g : cmac A) (theta dtheta : list A) (X C : list (list A)) (t : A),
      length theta = cmac_nparams g -> length dtheta = cmac_nparams g -> rows (c_nout g) C -> length C = length X ->
      fr A zero add mul C (cmac_eval_batch zero add mul csub cdiv ofnat half trunc oneA g (vadd add theta (vscale mul t dtheta)) X) =
      add (fr A zero add mul C (cmac_eval_batch zero add mul csub cdiv ofnat half trunc oneA g theta X))
          (mul t (dot zero add mul (cmac_wpd zero add mul csub cdiv ofnat half trunc oneA g X C) dtheta)).
Proof. exact cmac_derivative. Qed.
Print Assumptions C04_cmac_derivative.

(* Ensemble with vector outputs (weighted mean of the members): batch = single whenever every member evaluates row by row *)
Theorem C04_ensemble_batch_eq_single :
  forall (A : Type) (zero : A) (add mul div : A -> A -> A) (nout : nat)
         (members : list (A * (list (list A) -> list (list A)))) (X X' : list (list A)) (r r' : nat),
    Forall (member_rowwise A) members ->
    r < length X -> r' < length X' -> nth r X [] = nth r' X' [] ->
    nth r (ens_eval_batch zero add mul div nout members X) [] = ens_eval zero add mul div nout members (nth r X []) /\
    nth r (ens_eval_batch zero add mul div nout members X) [] = nth r' (ens_eval_batch zero add mul div nout members X') [].
Proof. exact ens_batch_eq_single. Qed.
Print Assumptions C04_ensemble_batch_eq_single.

(* LinearModel members are row-wise, so the hypothesis is satisfiable *)
Example C04_ensemble_member_example :
  forall (l : layer Z), member_rowwise Z (2%Z, fun X => lin_eval_batch 0%Z Z.add Z.mul l X).
Proof. intros l. exists (lin_eval 0%Z Z.add Z.mul l). intros X. apply (lin_batch_is_map Z 0%Z 1%Z Z.add Z.mul Z.sub Z.opp C04_Z_is_a_ring). Qed.

(* ======================= KernelExpansion (C04Kexp.v), for ANY kernel function k : X -> X -> A ======================= *)
Theorem C04_kexp_batch_eq_single :
  forall (A : Type) (zero : A) (add mul : A -> A -> A) (X : Type) (k : X -> X -> A) (m : kexp A X) (P P' : list X) (r r' : nat) (d : X),
    r < length P -> r' < length P' -> nth r P d = nth r' P' d ->
    nth r (ke_eval_batch zero add mul k m P) [] = ke_eval zero add mul k m (nth r P d) /\
    nth r (ke_eval_batch zero add mul k m P) [] = nth r' (ke_eval_batch zero add mul k m P') [].
Proof. exact ke_batch_eq_single. Qed.
Print Assumptions C04_kexp_batch_eq_single.

(* parameter vector = alpha row-major (one row per basis element, one column per output), then the offset if there is one *)
Theorem C04_kexp_param_roundtrip :
  forall (A X : Type) (m : kexp A X) (theta : list A),
    length theta = ke_nparams m ->
    ke_params (ke_set m theta) = theta /\ length (ke_params (ke_set m theta)) = ke_nparams m /\
    ke_nparams (ke_set m theta) = ke_nparams m /\ ke_basis (ke_set m theta) = ke_basis m /\
    length (ke_alpha (ke_set m theta)) = ke_nb m.
Proof. exact ke_param_roundtrip. Qed.
Print Assumptions C04_kexp_param_roundtrip.

(* the loop over the batches of the basis with its running batchStart: the result does not depend on how the basis is cut into
   batches (equal, unequal, one batch) *)
Theorem C04_kexp_blocks :
  forall (A : Type) (zero one : A) (add mul sub : A -> A -> A) (opp : A -> A),
    ring_theory zero one add mul sub opp eq ->
    forall (X : Type) (k : X -> X -> A) (m m' : kexp A X) (P : list X),
      ke_wf A X m -> rows (ke_nout m) (ke_alpha m) -> length (ke_alpha m) = ke_nb m ->
      concat (ke_basis m') = concat (ke_basis m) -> ke_nout m' = ke_nout m -> ke_alpha m' = ke_alpha m -> ke_b m' = ke_b m ->
      ke_eval_batch zero add mul k m' P = ke_eval_batch zero add mul k m P.
Proof. exact ke_blocks_batch. Qed.
Print Assumptions C04_kexp_blocks.

(* entry o of the output for input x is  b_o + sum_j k(basis_j, x) * alpha(j, o) *)
Theorem C04_kexp_value :
  forall (A : Type) (zero one : A) (add mul sub : A -> A -> A) (opp : A -> A),
    ring_theory zero one add mul sub opp eq ->
    forall (X : Type) (k : X -> X -> A) (m : kexp A X) (x : X) (o : nat),
      ke_wf A X m -> rows (ke_nout m) (ke_alpha m) -> length (ke_alpha m) = ke_nb m -> o < ke_nout m ->
      length (ke_row A zero add mul X k m x) = ke_nout m /\
      get zero (ke_row A zero add mul X k m x) o =
      add (get zero (ke_b0 A zero X m) o)
          (dot zero add mul (map (fun bx => k bx x) (concat (ke_basis m))) (map (fun w => get zero w o) (ke_alpha m))).
Proof. exact ke_row_get. Qed.
Print Assumptions C04_kexp_value.

(* KernelExpansion advertises no derivative; its output is linear in the parameter vector: exact identity for every kernel *)
Theorem C04_kexp_linear_in_parameters :
  forall (A : Type) (zero one : A) (add mul sub : A -> A -> A) (opp : A -> A),
    ring_theory zero one add mul sub opp eq ->
    forall (X : Type) (k : X -> X -> A) (m : kexp A X) (theta dtheta : list A) (P : list X) (C : list (list A)) (t : A),
      ke_wf A X m -> length theta = ke_nparams m -> length dtheta = ke_nparams m -> rows (ke_nout m) C -> length C = length P ->
      fr A zero add mul C (ke_eval_batch zero add mul k (ke_set m (vadd add theta (vscale mul t dtheta))) P) =
      add (fr A zero add mul C (ke_eval_batch zero add mul k (ke_set m theta) P))
          (mul t (fr A zero add mul C (ke_eval_batch zero add mul k (ke_set m dtheta) P))).
Proof. exact ke_linear. Qed.
Print Assumptions C04_kexp_linear_in_parameters.

(* the kernels of the exact runs are those of the C05 model *)
Theorem C04_kexp_kernels_are_C05 :
  forall (A : Type) (zero one : A) (add mul : A -> A -> A) (d : nat) (c : A) (x z : list A),
    kx_lin zero add mul x z = C05Model.k_lin A zero add mul x z /\
    kx_poly zero one add mul d c x z = C05Model.k_poly A zero one add mul d c x z.
Proof. intros. split; [apply kx_lin_is_C05|apply kx_poly_is_C05]. Qed.
Print Assumptions C04_kexp_kernels_are_C05.

(* ke_row is the row of the batch evaluation (so C04_kexp_value speaks about eval) and the hypotheses are satisfiable *)
Example C04_kexp_example :
  let m := {| ke_basis := [[[1; 2]]; [[0; 1]; [3; -1]]]%Z; ke_nout := 2; ke_alpha := [[1; 0]; [0; 0]; [2; -1]]%Z; ke_b := [5; 7]%Z |} in
  ke_wf Z (list Z) m /\ rows (ke_nout m) (ke_alpha m) /\ length (ke_alpha m) = ke_nb m /\
  ke_eval_batch 0%Z Z.add Z.mul (kx_poly 0%Z 1%Z Z.add Z.mul 2 1%Z) m [[1; 1]; [2; 0]]%Z = [[39; -2]; [112; -42]]%Z /\
  (forall P, ke_eval_batch 0%Z Z.add Z.mul (kx_lin 0%Z Z.add Z.mul) m P = map (ke_row Z 0%Z Z.add Z.mul (list Z) (kx_lin 0%Z Z.add Z.mul) m) P).
Proof.
  cbv zeta. split; [right; reflexivity|]. split; [repeat constructor|]. split; [reflexivity|]. split; [vm_compute; reflexivity|].
  intros P. apply ke_batch_is_map.
Qed.

(* ======================= the row-wise activations: SoftmaxNeuron and NormalizerNeuron (C04RowActProofs.v) ======================= *)
(* dual division: ddivF p q is THE dual number r with r * q = p (quotient rule), for fst q <> 0 *)
Theorem C04_dual_div_sound :
  forall (A : Type) (zero one : A) (add mul sub : A -> A -> A) (opp : A -> A) (div : A -> A -> A) (inv : A -> A),
    field_theory zero one add mul sub opp div inv eq ->
    forall p q r : D A, fst q <> zero ->
      dmul A add mul (ddivF A mul sub div p q) q = p /\ (dmul A add mul r q = p -> r = ddivF A mul sub div p q).
Proof. intros A zero one add mul sub opp div inv F p q r H. split; [apply (ddivF_sound A zero one add mul sub opp div inv F); auto|apply (ddivF_unique A zero one add mul sub opp div inv F); auto]. Qed.
Print Assumptions C04_dual_div_sound.

(* row_ok aA aD dom: on every row of the domain, the evalInPlace code over dual numbers has the value of the code over A, and the
   coded multiplyDerivative is the adjoint of its tangent:  <c, tangent of the row map> = <multiplyDerivative(c), tangent of the input row>.
   NormalizerNeuron a / sum a (coded: (c - <c, y>) / sum a with the stored sum), over every field, wherever sum a <> 0: *)
Theorem C04_normalizer_row_derivative :
  forall (A : Type) (zero one : A) (add mul sub : A -> A -> A) (opp : A -> A) (div : A -> A -> A) (inv : A -> A),
    field_theory zero one add mul sub opp div inv eq ->
    row_ok A zero add mul (normalizer_act zero add mul sub div)
           (normalizer_act (dzero A zero) (dadd A add) (dmul A add mul) (dsubF A sub) (ddivF A mul sub div))
           (fun z => vsum zero add z <> zero).
Proof. exact normalizer_row_ok. Qed.
Print Assumptions C04_normalizer_row_derivative.

(* SoftmaxNeuron exp a / sum exp a (coded: delta_j = (c_j - sum_k c_k y_k) * y_j), over every field with a function exp whose dual
   lift is dexpF (u, u') = (exp u, exp u * u'), wherever sum exp a <> 0.   `_partial` in the same sense as for tanh etc.: that
   exp' = exp is the definition of dexpF, not derived from a power series *)
Theorem C04_softmax_row_derivative_partial :
  forall (A : Type) (zero one : A) (add mul sub : A -> A -> A) (opp : A -> A) (div : A -> A -> A) (inv : A -> A),
    field_theory zero one add mul sub opp div inv eq ->
    forall expA : A -> A,
      row_ok A zero add mul (softmax_act zero add mul sub div expA)
             (softmax_act (dzero A zero) (dadd A add) (dmul A add mul) (dsubF A sub) (ddivF A mul sub div) (dexpF A mul expA))
             (fun z => vsum zero add (map expA z) <> zero).
Proof. exact softmax_row_ok. Qed.
Print Assumptions C04_softmax_row_derivative_partial.

(* C04_layer_derivative_partial lifted to the two row activations: LinearModel<.., NormalizerNeuron> / <.., SoftmaxNeuron>
   (weights dW and offset db with their directions, inputs XD with their directions) *)
Theorem C04_layer_derivative_normalizer :
  forall (A : Type) (zero one : A) (add mul sub : A -> A -> A) (opp : A -> A) (div : A -> A -> A) (inv : A -> A),
    field_theory zero one add mul sub opp div inv eq ->
    forall (nin nout : nat) (dW : list (list (D A))) (db : list (D A)) (XD : list (list (D A))) (C : list (list A)),
      gwf A nin nout dW db -> rows nin XD -> rows nout C ->
      (forall x, In x XD -> vsum zero add (lin_pre zero add mul (glA A dW db (normalizer_act zero add mul sub div)) (map fst x)) <> zero) ->
      let lA := glA A dW db (normalizer_act zero add mul sub div) in
      let X := map (map fst) XD in
      fr A zero add mul C
         (map (map snd) (map (lin_eval (dzero A zero) (dadd A add) (dmul A add mul)
            (glD A dW db (normalizer_act (dzero A zero) (dadd A add) (dmul A add mul) (dsubF A sub) (ddivF A mul sub div)))) XD)) =
      add (dot zero add mul (lin_wpd zero add mul nin nout lA X C) (concat (map (map snd) dW) ++ map snd db))
          (fr A zero add mul (lin_wid zero add mul nin lA X C) (map (map snd) XD)).
Proof. exact layer_normalizer_tangent. Qed.
Print Assumptions C04_layer_derivative_normalizer.

Theorem C04_layer_derivative_softmax_partial :
  forall (A : Type) (zero one : A) (add mul sub : A -> A -> A) (opp : A -> A) (div : A -> A -> A) (inv : A -> A),
    field_theory zero one add mul sub opp div inv eq ->
    forall (expA : A -> A) (nin nout : nat) (dW : list (list (D A))) (db : list (D A)) (XD : list (list (D A))) (C : list (list A)),
      gwf A nin nout dW db -> rows nin XD -> rows nout C ->
      (forall x, In x XD ->
         vsum zero add (map expA (lin_pre zero add mul (glA A dW db (softmax_act zero add mul sub div expA)) (map fst x))) <> zero) ->
      let lA := glA A dW db (softmax_act zero add mul sub div expA) in
      let X := map (map fst) XD in
      fr A zero add mul C
         (map (map snd) (map (lin_eval (dzero A zero) (dadd A add) (dmul A add mul)
            (glD A dW db (softmax_act (dzero A zero) (dadd A add) (dmul A add mul) (dsubF A sub) (ddivF A mul sub div) (dexpF A mul expA)))) XD)) =
      add (dot zero add mul (lin_wpd zero add mul nin nout lA X C) (concat (map (map snd) dW) ++ map snd db))
          (fr A zero add mul (lin_wid zero add mul nin lA X C) (map (map snd) XD)).
Proof. exact layer_softmax_tangent. Qed.
Print Assumptions C04_layer_derivative_softmax_partial.

(* C04_concat_chain_rule_partial lifted: with a positive exponential (pos closed under +, positives non-zero, exp positive: every
   ordered field with exp > 0) a LinearModel<.., SoftmaxNeuron> layer with at least one output satisfies kind_ok, i.e. it can stand
   at any position of a concatenation in C04_het_chain_rule, optimised or frozen.  (NormalizerNeuron layers need the side condition
   sum <> 0 on every row and are covered at layer level only.) *)
Theorem C04_softmax_layer_kind_ok_partial :
  forall (A : Type) (zero one : A) (add mul sub : A -> A -> A) (opp : A -> A) (div : A -> A -> A) (inv : A -> A),
    field_theory zero one add mul sub opp div inv eq ->
    forall (expA : A -> A) (pos : A -> Prop),
      (forall a b, pos a -> pos b -> pos (add a b)) -> (forall a, pos a -> a <> zero) -> (forall x, pos (expA x)) ->
      forall (nin nout : nat) (off : bool), 1 <= nout ->
        kind_ok A zero add mul (lin_kind zero add mul nin nout off (softmax_act zero add mul sub div expA))
                (lin_tan_row A zero add mul nin nout off
                   (softmax_act (dzero A zero) (dadd A add) (dmul A add mul) (dsubF A sub) (ddivF A mul sub div) (dexpF A mul expA))).
Proof. exact lin_softmax_kind_ok. Qed.
Print Assumptions C04_softmax_layer_kind_ok_partial.

(* the hypotheses are satisfiable with Leibniz equality: the canonical rationals Qc are a field, the positive ones are closed
   under + and non-zero (any positive function can stand for exp as far as these theorems are concerned) *)
Example C04_Qc_is_a_field : field_theory (Q2Qc 0) (Q2Qc 1) Qcplus Qcmult Qcminus Qcopp Qcdiv Qcinv eq.
Proof. exact Qcft. Qed.
Example C04_Qc_positive :
  let pos := fun a : Qc => (0 < this a)%Q in
  (forall a b, pos a -> pos b -> pos (Qcplus a b)) /\ (forall a, pos a -> a <> Q2Qc 0) /\ (forall x : Qc, pos ((fun _ => Q2Qc 1) x)).
Proof.
  cbv zeta. split; [|split].
  - intros a b Ha Hb. simpl.
    assert (E : (Qred (this a + this b) == this a + this b)%Q) by apply Qred_correct.
    rewrite E. apply (Qlt_le_trans _ (this a + 0)%Q); [rewrite Qplus_0_r; exact Ha|].
    apply Qplus_le_compat; [apply Qle_refl|apply Qlt_le_weak; exact Hb].
  - intros a H E. subst. simpl in H. apply (Qlt_irrefl 0). exact H.
  - intros x. reflexivity.
Qed.
