(* C18 — proofs about the vector stream of text and binary archives (C18Text.v). *)
From Coq Require Import List Arith Bool String Ascii DecimalString DecimalNat Decimal Lia.
From SharkV Require Import C18Text.
Import ListNotations.
Open Scope list_scope.

Section Generic.
  Variable item : Type.
  Variable enc_count : nat -> list item.
  Variable dec_count : list item -> option (nat * list item).
  Variable A : Type.
  Variable enc : A -> list item.
  Variable dec : list item -> option (A * list item).
  Variable dflt : A.
  Hypothesis He : forall a r, dec (enc a ++ r) = Some (a, r).

  Notation resize := (resize A dflt).
  Notation save_vec := (save_vec item enc_count A enc).
  Notation load_vec := (load_vec item dec_count A dec dflt).
  Notation load_vec_early_return := (load_vec_early_return item dec_count A dec dflt).
  Notation save_vecs := (save_vecs item enc_count A enc).
  Notation load_vecs := (load_vecs item dec_count A dec dflt).
  Notation load_array := (load_array item A dec).
  Notation save_array := (save_array item A enc).

  (* the size item of this particular vector round-trips (for binary archives: the size fits into 8 bytes) *)
  Definition count_ok (n : nat) : Prop := forall r, dec_count (enc_count n ++ r) = Some (n, r).

  Lemma resize_length : forall n t, List.length (resize n t) = n.
  Proof. induction n; intros t; cbn [C18Text.resize List.length]; [reflexivity|]. destruct t; cbn [List.length]; rewrite IHn; reflexivity. Qed.

  Lemma resize_zero t : resize 0 t = [].
  Proof. reflexivity. Qed.

  Lemma load_array_save : forall v r, load_array (List.length v) (save_array v ++ r) = Some (v, r).
  Proof.
    induction v as [|a v IH]; intros r; cbn [List.length C18Text.load_array C18Text.save_array flat_map List.app].
    - reflexivity.
    - rewrite <- app_assoc. rewrite He. fold (save_array v). rewrite IH. reflexivity.
  Qed.

  (* ALIGNMENT: whatever the vector (empty, one element, many), whatever the old content of the target and whatever
     follows in the archive, loading consumes exactly what saving produced and yields the saved vector *)
  Theorem vec_roundtrip_aligned : forall v target rest,
    count_ok (List.length v) ->
    load_vec target (save_vec v ++ rest) = Some (v, rest).
  Proof.
    intros v target rest Hc. unfold C18Text.load_vec, C18Text.save_vec. rewrite <- app_assoc. rewrite Hc.
    destruct v as [|a v].
    - cbn [List.length C18Text.resize is_empty List.app]. reflexivity.
    - cbn [is_empty]. assert (E : is_empty A (resize (List.length (a :: v)) target) = false).
      { cbn [List.length C18Text.resize]. destruct target; reflexivity. }
      cbv zeta. rewrite E. rewrite resize_length. apply load_array_save.
  Qed.

  (* the empty vector: the size item and nothing else; the loader consumes exactly that and EMPTIES the target *)
  Corollary empty_vec_stream : save_vec [] = enc_count 0.
  Proof. unfold C18Text.save_vec. cbn [List.length is_empty]. apply app_nil_r. Qed.

  Corollary empty_vec_aligned : forall target rest,
    count_ok 0 -> load_vec target (enc_count 0 ++ rest) = Some ([], rest).
  Proof. intros target rest Hc. rewrite <- empty_vec_stream. apply (vec_roundtrip_aligned [] target rest Hc). Qed.

  (* consecutive vectors (fields of a class, elements of a vector of vectors), empty ones anywhere among them *)
  Theorem vecs_roundtrip_aligned : forall vs targets rest,
    List.length targets = List.length vs ->
    Forall (fun v => count_ok (List.length v)) vs ->
    load_vecs targets (save_vecs vs ++ rest) = Some (vs, rest).
  Proof.
    induction vs as [|v vs IH]; intros targets rest L F; destruct targets as [|t targets]; try discriminate L.
    - reflexivity.
    - cbn [C18Text.save_vecs C18Text.load_vecs]. rewrite <- app_assoc. inversion F; subst.
      rewrite vec_roundtrip_aligned by assumption. rewrite IH; [reflexivity| |assumption].
      cbn [List.length] in L. lia.
  Qed.

  (* seeded change C18-3 ("an empty vector has no elements in the archive": return before the resize when the count is
     0): the stream stays ALIGNED -- nothing is left over, nothing is misread, no exception -- and non-empty vectors are
     loaded correctly, but an empty vector leaves the target as it was *)
  Theorem early_return_nonempty_same : forall v target rest,
    v <> [] -> count_ok (List.length v) ->
    load_vec_early_return target (save_vec v ++ rest) = Some (v, rest).
  Proof.
    intros v target rest Hv Hc. unfold C18Text.load_vec_early_return, C18Text.save_vec. rewrite <- app_assoc. rewrite Hc.
    destruct v as [|a v]; [congruence|]. cbn [is_empty].
    replace (Nat.eqb (List.length (a :: v)) 0) with false by reflexivity. cbv zeta.
    rewrite resize_length. apply load_array_save.
  Qed.

  Theorem early_return_empty_keeps_stale_target : forall target rest,
    count_ok 0 ->
    load_vec_early_return target (save_vec [] ++ rest) = Some (target, rest).
  Proof.
    intros target rest Hc. rewrite empty_vec_stream. unfold C18Text.load_vec_early_return. rewrite Hc. reflexivity.
  Qed.

  Corollary early_return_differs : forall target rest,
    count_ok 0 -> target <> [] ->
    exists t', load_vec_early_return target (save_vec [] ++ rest) = Some (t', rest) /\ t' <> [] /\
               load_vec target (save_vec [] ++ rest) = Some ([], rest).
  Proof.
    intros target rest Hc Ht. exists target. split; [apply early_return_empty_keeps_stale_target; exact Hc|].
    split; [exact Ht|]. apply vec_roundtrip_aligned. exact Hc.
  Qed.
End Generic.

(* ------------------------------------------------------------------------------------------ *)
(* text archive *)

Lemma parse_print_count n : parse_count (print_count n) = Some n.
Proof. unfold parse_count, print_count. rewrite NilEmpty.usu. rewrite Unsigned.of_to. reflexivity. Qed.

Lemma text_count_ok n : count_ok string text_enc_count text_dec_count n.
Proof. intros r. unfold text_enc_count, text_dec_count. cbn [List.app]. rewrite parse_print_count. reflexivity. Qed.

Lemma text_elem_ok {A} (pr : A -> string) (pa : string -> option A) :
  (forall a, pa (pr a) = Some a) -> forall a r, text_dec pa (text_enc pr a ++ r) = Some (a, r).
Proof. intros H a r. unfold text_enc, text_dec. cbn [List.app]. rewrite H. reflexivity. Qed.

(* the text archive's word stream of a vector: size word, then one word per element; loading it back -- into any old
   vector, with anything following -- gives the vector and leaves the following words untouched *)
Theorem text_vec_roundtrip_aligned : forall A (pr : A -> string) (pa : string -> option A) (dflt : A),
  (forall a, pa (pr a) = Some a) ->
  forall v target rest, text_load_vec pa dflt target (text_save_vec pr v ++ rest) = Some (v, rest).
Proof.
  intros A pr pa dflt H v target rest. unfold text_load_vec, text_save_vec.
  apply vec_roundtrip_aligned; [apply text_elem_ok; exact H|apply text_count_ok].
Qed.

Theorem text_vec_stream : forall A (pr : A -> string) (v : list A),
  text_save_vec pr v = print_count (List.length v) :: map pr v.
Proof.
  intros A pr v. unfold text_save_vec, save_vec, text_enc_count. cbn [List.app]. f_equal.
  destruct v as [|a v]; [reflexivity|]. cbn [is_empty]. unfold save_array, text_enc.
  generalize (a :: v). intros l. induction l; cbn [flat_map map List.app]; [reflexivity|]. rewrite IHl. reflexivity.
Qed.

(* the empty vector is the single word "0" *)
Theorem text_empty_vec_is_one_word : forall A (pr : A -> string), text_save_vec pr [] = ["0"%string].
Proof. intros. reflexivity. Qed.

Theorem text_empty_vec_aligned : forall A (pa : string -> option A) (dflt : A) target rest,
  text_load_vec pa dflt target ("0"%string :: rest) = Some ([], rest).
Proof. intros. reflexivity. Qed.

Theorem text_vecs_roundtrip_aligned : forall A (pr : A -> string) (pa : string -> option A) (dflt : A),
  (forall a, pa (pr a) = Some a) ->
  forall vs targets rest, List.length targets = List.length vs ->
    load_vecs string text_dec_count A (text_dec pa) dflt targets (text_save_vecs pr vs ++ rest) = Some (vs, rest).
Proof.
  intros A pr pa dflt H vs targets rest L. unfold text_save_vecs.
  apply vecs_roundtrip_aligned; [apply text_elem_ok; exact H|exact L|].
  apply Forall_forall. intros v _. apply text_count_ok.
Qed.

(* the size word is what keeps the stream aligned: a writer that emitted nothing at all for an empty vector would make
   the reader take the NEXT vector's size word for this one's *)
Example text_no_size_word_misaligns :
  let pr := print_count in let pa := parse_count in
  let stream := save_vec_no_size_when_empty string text_enc_count nat (text_enc pr) [] ++ text_save_vec pr [7; 8] in
  load_vecs string text_dec_count nat (text_dec pa) 0 [[1]; [2]] stream = None /\
  load_vecs string text_dec_count nat (text_dec pa) 0 [[1]; [2]] (text_save_vecs pr [[]; [7; 8]]) = Some ([[]; [7; 8]], []).
Proof. split; vm_compute; reflexivity. Qed.

(* --- characters: words are printed with one leading space each and recovered by splitting at spaces --- *)

Lemma rev_string_rev : forall w a b, rev_string a (rev_string b w) = rev_string (append w a) b.
Proof.
  induction w as [|c w IH]; intros a b; cbn [rev_string append]; [reflexivity|].
  rewrite IH. reflexivity.
Qed.

Lemma rev_string_nonempty : forall w acc, w <> EmptyString -> rev_string acc w <> EmptyString.
Proof.
  intros w. destruct w as [|c w]; [congruence|]. intros acc _. cbn [rev_string].
  revert c acc. induction w as [|d w IH]; intros c acc; cbn [rev_string]; [discriminate|]. apply IH.
Qed.

Lemma append_empty_r : forall s, append s EmptyString = s.
Proof. induction s; cbn [append]; congruence. Qed.

Lemma lex_aux_word : forall w cur s, space_free w = true -> lex_aux cur (append w s) = lex_aux (rev_string cur w) s.
Proof.
  induction w as [|c w IH]; intros cur s H; cbn [append rev_string]; [reflexivity|].
  cbn [space_free] in H. apply andb_prop in H. destruct H as [Hc Hw]. apply negb_true_iff in Hc.
  cbn [lex_aux]. rewrite Hc. apply IH. exact Hw.
Qed.

Lemma word_inv w : word w = true -> w <> EmptyString /\ space_free w = true.
Proof. destruct w; cbn [word]; [discriminate|]. intros H. split; [discriminate|exact H]. Qed.

Lemma lex_render_aux : forall ws, Forall (fun w => word w = true) ws ->
  forall cur, cur <> EmptyString -> lex_aux cur (render ws) = rev_string EmptyString cur :: ws.
Proof.
  induction ws as [|w ws IH]; intros F cur Hc.
  - cbn [render lex_aux]. destruct cur; [congruence|reflexivity].
  - inversion F; subst. destruct (word_inv w H1) as [Hn Hs].
    cbn [render lex_aux]. cbn [Ascii.eqb Bool.eqb]. destruct cur as [|c cur]; [congruence|].
    rewrite lex_aux_word by exact Hs.
    rewrite IH; [|assumption|apply rev_string_nonempty; exact Hn].
    rewrite rev_string_rev. rewrite append_empty_r. reflexivity.
Qed.

(* tokenising the printed character stream gives back the words *)
Theorem lex_render : forall ws, Forall (fun w => word w = true) ws -> lex (render ws) = ws.
Proof.
  intros ws F. destruct ws as [|w ws]; [reflexivity|]. inversion F; subst.
  destruct (word_inv w H1) as [Hn Hs].
  unfold lex. cbn [render lex_aux]. cbn [Ascii.eqb Bool.eqb].
  rewrite lex_aux_word by exact Hs.
  rewrite lex_render_aux; [|assumption|apply rev_string_nonempty; exact Hn].
  rewrite rev_string_rev. rewrite append_empty_r. reflexivity.
Qed.

(* size words are words: decimal digits only, at least one *)
Lemma space_free_append a b : space_free a = true -> space_free b = true -> space_free (append a b) = true.
Proof. induction a; cbn [append space_free]; intros Ha Hb; [exact Hb|]. apply andb_prop in Ha. destruct Ha as [H1 H2]. rewrite H1. cbn [andb]. auto. Qed.

Lemma space_free_uint : forall d, space_free (NilEmpty.string_of_uint d) = true.
Proof. induction d; cbn [NilEmpty.string_of_uint space_free]; try reflexivity; cbn [Ascii.eqb Bool.eqb negb andb]; exact IHd. Qed.

Lemma to_little_uint_nonnil : forall n acc, acc <> Nil -> Nat.to_little_uint n acc <> Nil.
Proof.
  induction n; intros acc H; cbn [Nat.to_little_uint]; [exact H|]. apply IHn.
  destruct acc; cbn [Little.succ]; discriminate.
Qed.

Lemma rev_nonnil : forall d, d <> Nil -> rev d <> Nil.
Proof.
  assert (R : forall d acc, acc <> Nil -> revapp d acc <> Nil).
  { induction d; intros acc H; cbn [revapp]; try exact H; apply IHd; discriminate. }
  intros d H. unfold rev. destruct d; try congruence; cbn [revapp]; apply R; discriminate.
Qed.

Lemma print_count_word n : word (print_count n) = true.
Proof.
  unfold print_count. pose proof (space_free_uint (Nat.to_uint n)) as S.
  assert (N : Nat.to_uint n <> Nil).
  { unfold Nat.to_uint. apply rev_nonnil. apply to_little_uint_nonnil. discriminate. }
  destruct (Nat.to_uint n) eqn:E; try congruence; cbn [NilEmpty.string_of_uint word] in *; exact S.
Qed.

(* the character stream of a vector of words re-tokenises to size word + element words; in particular the empty
   vector is the two characters " 0" and re-tokenises to the single word "0" *)
Theorem text_vec_chars_roundtrip : forall A (pr : A -> string) (v : list A),
  (forall a, word (pr a) = true) ->
  lex (render (text_save_vec pr v)) = print_count (List.length v) :: map pr v.
Proof.
  intros A pr v H. rewrite text_vec_stream. apply lex_render. constructor; [apply print_count_word|].
  apply Forall_forall. intros w Hw. apply in_map_iff in Hw. destruct Hw as [a [<- _]]. apply H.
Qed.

Example text_empty_vec_chars : render (text_save_vec print_count (@nil nat)) = " 0"%string.
Proof. reflexivity. Qed.

(* ------------------------------------------------------------------------------------------ *)
(* binary archive *)

Lemma bytes_of_nat_length : forall k n, List.length (bytes_of_nat k n) = k.
Proof. induction k; intros n; cbn [bytes_of_nat List.length]; [reflexivity|]. rewrite IHk. reflexivity. Qed.

Lemma nat_of_bytes_of_nat : forall k n, nat_of_bytes (bytes_of_nat k n) = n mod (256 ^ k).
Proof.
  induction k; intros n.
  - cbn [bytes_of_nat nat_of_bytes]. rewrite Nat.pow_0_r. rewrite Nat.mod_1_r. reflexivity.
  - cbn [bytes_of_nat nat_of_bytes]. rewrite IHk. rewrite Nat.pow_succ_r'.
    rewrite Nat.mod_mul_r; [reflexivity|discriminate|]. apply Nat.pow_nonzero. discriminate.
Qed.

Lemma bin_count_ok n : n < 256 ^ 8 -> count_ok nat bin_enc_count bin_dec_count n.
Proof.
  intros H r. unfold bin_enc_count, bin_dec_count.
  assert (L : List.length (bytes_of_nat 8 n) = 8) by apply bytes_of_nat_length.
  rewrite app_length, L.
  replace (Nat.leb 8 (8 + List.length r)) with true by (symmetry; apply Nat.leb_le; lia).
  rewrite <- L at 1. rewrite firstn_app, firstn_all, L. rewrite Nat.sub_diag. cbn [firstn]. rewrite app_nil_r.
  replace (skipn 8 (bytes_of_nat 8 n ++ r)) with r.
  2:{ rewrite <- L at 1. rewrite skipn_app, skipn_all, Nat.sub_diag. reflexivity. }
  rewrite nat_of_bytes_of_nat. rewrite Nat.mod_small by exact H. reflexivity.
Qed.

(* binary archive: 8 size bytes, then size() elements of whatever fixed width the element codec has; an empty vector is
   exactly the 8 size bytes.  Aligned for every vector whose size fits the 8-byte size item. *)
Theorem bin_vec_roundtrip_aligned : forall A (enc : A -> list nat) (dec : list nat -> option (A * list nat)) (dflt : A),
  (forall a r, dec (enc a ++ r) = Some (a, r)) ->
  forall v target rest, List.length v < 256 ^ 8 ->
    load_vec nat bin_dec_count A dec dflt target (save_vec nat bin_enc_count A enc v ++ rest) = Some (v, rest).
Proof.
  intros A enc dec dflt He v target rest H. apply vec_roundtrip_aligned; [exact He|apply bin_count_ok; exact H].
Qed.

Theorem bin_empty_vec_is_eight_bytes : forall A (enc : A -> list nat),
  save_vec nat bin_enc_count A enc [] = [0; 0; 0; 0; 0; 0; 0; 0].
Proof. intros. reflexivity. Qed.
