(* C20 — shared_copy_safe: reference-count model of concurrently copied datasets.  Definitions only.

   shark::Data keeps its batches in a std::vector<boost::shared_ptr<Batch>> (Data/Impl/Dataset.inl,
   SharedContainer).  Copying a dataset, `indexedSubset`, `splice`, `append` copy shared_ptr INSTANCES;
   destroying a dataset destroys them.  The only memory written by these operations that is shared
   between threads is the reference counter of each batch, and it is only written by atomic
   read-modify-write operations:
       copy of a live instance   : atomic { count := count + 1 }
       destruction of an instance: atomic { old := count; count := count - 1 }   and afterwards, by the
                                   same thread, not atomically with the decrement:  if old = 1 then free the batch
   The machine below interleaves these micro-steps of any number of threads in ANY order (a trace is
   a list of actions, each naming the thread that moves); a step is enabled iff
       ACopy t p : p is a live instance                     (C++: nobody destroys an instance while
       ADec  t p : p is a live instance                      another thread still reads it - the instance
       AFin  t   : thread t has a decrement whose             itself is not shared for writing, only the
                   free-check is still pending                counter is)
   Blocks (batches) are numbered 0..B-1; initially block b is referenced by exactly one instance
   (number b): the dataset that was constructed first. *)
From Coq Require Import List Arith Bool PeanoNat.
Import ListNotations.

Record rcptr := RcPtr { p_id : nat; p_blk : nat }.                 (* a shared_ptr instance *)
Record rcpend := RcPend { pd_thr : nat; pd_blk : nat; pd_old : nat }. (* decrement done, free-check pending *)

Record rcstate := RC {
  rc_count : nat -> nat;      (* the atomic counters *)
  rc_freed : nat -> nat;      (* how many times block b was freed *)
  rc_live : list rcptr;       (* instances that exist *)
  rc_pend : list rcpend;
  rc_next : nat               (* id of the next instance *)
}.

Inductive rcact :=
| ACopy (t p : nat)    (* thread t copy-constructs a new instance from instance p *)
| ADec (t p : nat)     (* thread t starts destroying instance p: atomic decrement *)
| AFin (t : nat).      (* thread t finishes its oldest pending destruction: frees the block iff it saw 1 *)

Definition upd (f : nat -> nat) (b v : nat) : nat -> nat := fun x => if x =? b then v else f x.

Fixpoint find_ptr (p : nat) (l : list rcptr) : option rcptr :=
  match l with
  | [] => None
  | q :: r => if p_id q =? p then Some q else find_ptr p r
  end.

Fixpoint remove_ptr (p : nat) (l : list rcptr) : list rcptr :=
  match l with
  | [] => []
  | q :: r => if p_id q =? p then r else q :: remove_ptr p r
  end.

(* oldest pending entry of thread t, and the list without it *)
Fixpoint take_pend (t : nat) (l : list rcpend) : option (rcpend * list rcpend) :=
  match l with
  | [] => None
  | q :: r => if pd_thr q =? t then Some (q, r)
              else match take_pend t r with Some (x, r') => Some (x, q :: r') | None => None end
  end.

Definition rc_step (s : rcstate) (a : rcact) : option rcstate :=
  match a with
  | ACopy t p =>
      match find_ptr p (rc_live s) with
      | Some q => let b := p_blk q in
                  Some (RC (upd (rc_count s) b (rc_count s b + 1)) (rc_freed s)
                           (rc_live s ++ [RcPtr (rc_next s) b]) (rc_pend s) (S (rc_next s)))
      | None => None
      end
  | ADec t p =>
      match find_ptr p (rc_live s) with
      | Some q => let b := p_blk q in
                  Some (RC (upd (rc_count s) b (rc_count s b - 1)) (rc_freed s)
                           (remove_ptr p (rc_live s)) (rc_pend s ++ [RcPend t b (rc_count s b)]) (rc_next s))
      | None => None
      end
  | AFin t =>
      match take_pend t (rc_pend s) with
      | Some (q, rest) =>
          Some (RC (rc_count s)
                   (if pd_old q =? 1 then upd (rc_freed s) (pd_blk q) (rc_freed s (pd_blk q) + 1) else rc_freed s)
                   (rc_live s) rest (rc_next s))
      | None => None
      end
  end.

Fixpoint rc_run (s : rcstate) (acts : list rcact) : option rcstate :=
  match acts with
  | [] => Some s
  | a :: r => match rc_step s a with Some s' => rc_run s' r | None => None end
  end.

Definition rc_init (B : nat) : rcstate :=
  RC (fun b => if b <? B then 1 else 0) (fun _ => 0) (map (fun b => RcPtr b b) (seq 0 B)) [] B.

(* what the theorems talk about *)
Definition live_to (b : nat) (l : list rcptr) : nat := length (filter (fun q => p_blk q =? b) l).
Definition about_to_free (b : nat) (l : list rcpend) : nat :=
  length (filter (fun q => (pd_blk q =? b) && (pd_old q =? 1)) l).
Definition pending_on (b : nat) (l : list rcpend) : nat := length (filter (fun q => pd_blk q =? b) l).

(* ---------------------------------------------------------------- dataset level (executed by the driver)

   A dataset handle = the list of its shared_ptr instances (one per batch it holds).  The operations of
   Data expand to the micro-steps above in program order; other threads may interleave anywhere
   between them (the theorems quantify over all traces, so in particular over these). *)

Definition dhandle := list nat.   (* instance ids, position i = i-th batch of that dataset *)

Record dstate := DS { ds_rc : rcstate; ds_handles : list (option dhandle) }.

Inductive dop :=
| DCopy (t h : nat)                     (* Data copy = dataset h            (all batches shared) *)
| DSubset (t h : nat) (idx : list nat)  (* Data s = dataset h .indexedSubset(idx)                *)
| DRelease (t h : nat).                 (* dataset h goes out of scope                           *)

Definition d_init (B : nat) : dstate := DS (rc_init B) [Some (seq 0 B)].

(* copy the given instances one after the other; the new instances get consecutive ids *)
Definition copy_acts (t : nat) (ps : list nat) : list rcact := map (ACopy t) ps.
Definition release_acts (t : nat) (ps : list nat) : list rcact := flat_map (fun p => [ADec t p; AFin t]) ps.

Definition select (h : dhandle) (idx : list nat) : option (list nat) :=
  fold_right (fun i acc => match acc, nth_error h i with
                           | Some l, Some p => Some (p :: l)
                           | _, _ => None
                           end) (Some []) idx.

Fixpoint set_handle (k : nat) (v : option dhandle) (l : list (option dhandle)) : list (option dhandle) :=
  match l, k with
  | [], _ => []
  | _ :: r, 0 => v :: r
  | x :: r, S k' => x :: set_handle k' v r
  end.

Definition dop_acts (s : dstate) (o : dop) : option (list rcact * list (option dhandle)) :=
  match o with
  | DCopy t h =>
      match nth h (ds_handles s) None with
      | Some ps => Some (copy_acts t ps, ds_handles s ++ [Some (seq (rc_next (ds_rc s)) (length ps))])
      | None => None
      end
  | DSubset t h idx =>
      match nth h (ds_handles s) None with
      | Some ps => match select ps idx with
                   | Some qs => Some (copy_acts t qs, ds_handles s ++ [Some (seq (rc_next (ds_rc s)) (length qs))])
                   | None => None
                   end
      | None => None
      end
  | DRelease t h =>
      match nth h (ds_handles s) None with
      | Some ps => Some (release_acts t ps, set_handle h None (ds_handles s))
      | None => None
      end
  end.

Definition d_step (s : dstate) (o : dop) : option dstate :=
  match dop_acts s o with
  | Some (acts, hs) => match rc_run (ds_rc s) acts with
                       | Some r => Some (DS r hs)
                       | None => None
                       end
  | None => None
  end.

(* observation compared with the real library: use_count and "freed" of every block *)
Definition d_observe (B : nat) (s : dstate) : list (nat * nat) :=
  map (fun b => (rc_count (ds_rc s) b, rc_freed (ds_rc s) b)) (seq 0 B).

(* run a script, observing after every operation; None = an operation was not enabled *)
Fixpoint d_trace (B : nat) (s : dstate) (ops : list dop) : option (list (list (nat * nat))) :=
  match ops with
  | [] => Some []
  | o :: r => match d_step s o with
              | Some s' => match d_trace B s' r with
                           | Some l => Some (d_observe B s' :: l)
                           | None => None
                           end
              | None => None
              end
  end.

Fixpoint d_run (s : dstate) (ops : list dop) : option dstate :=
  match ops with
  | [] => Some s
  | o :: r => match d_step s o with Some s' => d_run s' r | None => None end
  end.
