(* C06 — Losses and error functions report the true mean loss and its true gradient.
   Only statements + `exact`; proofs live in C06Proofs.v / C06Aux.v, the executable model in C06Model.v.

   PROVED here (axiom-free, over Q, for all sizes / inputs / thread counts / batchings / arrival orders):
     * the work split of ErrorFunctionImpl tiles [0, batches) for every thread count >= 1; merging the
       thread results in any arrival order gives the same total (C06_thread_ranges_tile,
       C06_merge_order_irrelevant);
     * ErrorFunction (value path and derivative path) = mean over the elements of the single-element
       contribution, for ANY per-batch contribution that is additive over its elements
       (C06_error_is_mean_loss_generic), and concretely for the 7 differentiable table losses (squared,
       squared/one-hot, hinge, squared hinge, eps-hinge, squared eps-hinge, Huber) with the linear model
       (C06_error_is_mean_loss); both paths return the same value; invariance under re-batching and
       thread count (C06_batching_invariant); mini-batch path = mean of the chosen batch;
       AbstractLoss::eval(Data,Data) = mean loss;
     * equal weights (any common non-zero weight) give the unweighted error function, value and gradient
       (C06_equal_weights_eq_unweighted);
     * chain rule: if the loss's returned row is the derivative of the loss w.r.t. the prediction along
       the induced prediction change (explicit remainder), then the vector returned by
       ErrorFunction::evalDerivative is the derivative of ErrorFunction::eval w.r.t. the model
       parameters (C06_error_grad_is_param_grad); unconditional instance for the squared loss
       (C06_sq_error_gradient);
     * regularizers: setRegularizer adds exactly factor*value / factor*gradient; two-norm (masked or not):
       exact expansion; one-norm: exact on steps that do not cross 0, sign(0) = 0 convention, mask >= 0;
     * loss table: evalDerivative value = eval value; batch = sum of elements; gradient = derivative of the
       value (exact algebraic expansion, kinks excluded by explicit side conditions) for squared (both
       label kinds), hinge and squared hinge (one output and multi-class), eps-hinge, squared
       eps-hinge, Huber inside the quadratic region.
   PARTIAL (named *_partial): the gradient of Huber outside the ball (square root) is not proved; the generic chain rule is instantiated only for the linear model.
   ONLY COMPARED / MONITORED by tools/c06.py (not proved): cross-entropy (log-sum-exp, float model at
     1e-12), absolute loss off perfect squares, Huber outer region, NegativeAUC (brute force pairs),
     ZeroOneLoss weighted eval, finite-difference gradient monitor on every loss and on a non-linear model,
     the OpenMP runtime actually delivering one of the modelled schedules. *)
From Coq Require Import List Arith ZArith QArith Qabs Permutation.
From SharkV Require Import ListAux C03Model C06Model C06Proofs C06Aux.
Import ListNotations.
Open Scope Q_scope.

(* ---- schedules ---- *)
Theorem C06_thread_ranges_tile : forall threads batches, (1 <= threads)%nat ->
  chain 0 (thread_ranges threads batches) batches /\
  flat_ranges (thread_ranges threads batches) = seq 0 batches /\
  length (thread_ranges threads batches) = Nat.min threads batches.
Proof. exact thread_ranges_tile. Qed.
Print Assumptions C06_thread_ranges_tile.

Theorem C06_merge_order_irrelevant : forall l l', Permutation l l' -> veq (vsum l) (vsum l').
Proof. exact merge_order_irrelevant. Qed.
Print Assumptions C06_merge_order_irrelevant.

(* ---- error = mean per-element loss (value :: gradient), any schedule ---- *)
Theorem C06_error_is_mean_loss_generic :
  forall (E : Type) (bq : list E -> vec), (forall b, veq (bq b) (vsum (map (fun e => bq [e]) b))) ->
  forall threads (d : @data E) arrived, (1 <= threads)%nat ->
    Permutation arrived (partials bq (thread_ranges threads (length d)) d) ->
    veq (finish arrived (nelems d)) (mean_loss bq (elems d)).
Proof. exact (@error_any_schedule). Qed.
Print Assumptions C06_error_is_mean_loss_generic.

Theorem C06_error_is_mean_loss :
  forall k m threads (d : @data elem) arrived arrived_eval, (1 <= threads)%nat ->
    Permutation arrived (partials (lin_bq k m) (thread_ranges threads (length d)) d) ->
    Permutation arrived_eval (partials (lin_bq_eval k m) (thread_ranges threads (length d)) d) ->
    veq (finish arrived (nelems d)) (mean_loss (lin_bq k m) (elems d)) /\
    veq (finish arrived_eval (nelems d)) (mean_loss (lin_bq_eval k m) (elems d)).
Proof. exact ef_any_schedule. Qed.
Print Assumptions C06_error_is_mean_loss.

Theorem C06_eval_and_derivative_values_agree :
  forall k m threads (d : @data elem), (1 <= threads)%nat ->
    nth 0 (ef_evald k m threads d) 0 == nth 0 (ef_eval k m threads d) 0.
Proof. exact ef_paths_agree. Qed.
Print Assumptions C06_eval_and_derivative_values_agree.

Theorem C06_batching_invariant :
  forall k m t1 t2 (l : list elem) s1 s2,
    (1 <= t1)%nat -> (1 <= t2)%nat -> C03Model.sum s1 = length l -> C03Model.sum s2 = length l ->
    veq (ef_evald k m t1 (chunk s1 l)) (ef_evald k m t2 (chunk s2 l)) /\
    veq (ef_eval k m t1 (chunk s1 l)) (ef_eval k m t2 (chunk s2 l)).
Proof. exact ef_batching_invariant. Qed.
Print Assumptions C06_batching_invariant.

Theorem C06_minibatch_is_batch_mean :
  forall (E : Type) (bq : list E -> vec), (forall b, veq (bq b) (vsum (map (fun e => bq [e]) b))) ->
  forall i (d : @data E), (i < length d)%nat -> veq (minibatch bq i d) (mean_loss bq (nth i d [])).
Proof. exact (@minibatch_is_batch_mean). Qed.
Print Assumptions C06_minibatch_is_batch_mean.

Theorem C06_loss_on_dataset_is_mean :
  forall k dim (d : @data (lab * vec)) arrived,
    Permutation arrived (map (fun b => [loss_eval k dim b]) d) ->
    veq (finish arrived (nelems d)) (mean_loss (fun b => [loss_eval k dim b]) (elems d)).
Proof. exact loss_data_mean. Qed.
Print Assumptions C06_loss_on_dataset_is_mean.

(* ---- weights ---- *)
Theorem C06_equal_weights_eq_unweighted :
  forall k m c, ~ c == 0 -> forall threads (d : @data welem) arrived,
    (forall e, In e (elems d) -> snd e == c) -> (1 <= threads)%nat -> (0 < nelems d)%nat ->
    Permutation arrived (map (wbatch (lin_eloss k m) lin_wwpd snd) d) ->
    veq (werrfn snd arrived d) (ef_evald k m threads (map (map fst) d)).
Proof. exact lin_equal_weights. Qed.
Print Assumptions C06_equal_weights_eq_unweighted.

Theorem C06_weighted_paths_agree :
  forall k m (d : @data welem), nth 0 (wef_evald k m d) 0 == nth 0 (wef_eval k m d) 0.
Proof. exact wef_paths_agree. Qed.
Print Assumptions C06_weighted_paths_agree.

(* ---- gradient w.r.t. the model parameters ---- *)
(* full statement of the property: for every model and loss the returned vector is the parameter
   gradient.  Proved: for the linear model and every table loss, GIVEN the loss-level expansion on
   every element (which is exactly "the loss gradient is the derivative w.r.t. the prediction"). *)
Theorem C06_error_grad_is_param_grad_partial :
  forall k nin nout m dm t (r : elem -> Q), lin_wf nin nout m -> lin_wf nin nout dm ->
  forall threads (d : @data elem), (1 <= threads)%nat ->
    (forall e, In e (elems d) -> elem_expansion k nin nout m dm t r e) ->
    nth 0 (ef_eval k (madd t dm m) threads d) 0 - nth 0 (ef_eval k m threads d) 0
    == t * (pdot (tl (ef_evald k m threads d)) (lin_params dm) + t * (qsum (map r (elems d)) / Qn (nelems d))).
Proof. exact error_grad_is_param_grad. Qed.
Print Assumptions C06_error_grad_is_param_grad_partial.

Theorem C06_sq_error_gradient :
  forall nin nout m dm t threads (d : @data elem),
    lin_wf nin nout m -> lin_wf nin nout dm -> sq_shapes nin nout d -> (1 <= threads)%nat ->
    nth 0 (ef_eval LSq (madd t dm m) threads d) 0 - nth 0 (ef_eval LSq m threads d) 0
    == t * (pdot (tl (ef_evald LSq m threads d)) (lin_params dm)
            + t * (qsum (map (fun e => (1#2) * normsq (lin_eval dm (fst e))) (elems d)) / Qn (nelems d))).
Proof. exact sq_error_gradient. Qed.
Print Assumptions C06_sq_error_gradient.

Theorem C06_chain_rule_adjoint :
  forall nin nout dm x g, lin_wf nin nout dm -> length x = nin -> length g = nout ->
    dot (lin_wpd1 x g) (lin_params dm) == dot g (lin_eval dm x) /\ length (lin_wpd1 x g) = length (lin_params dm).
Proof. exact lin_adjoint. Qed.
Print Assumptions C06_chain_rule_adjoint.

(* ---- regularizers ---- *)
Theorem C06_regularizer_added_exactly :
  forall lam rv rg r,
    nth 0 (add_reg lam rv rg r) 0 == nth 0 r 0 + lam * rv /\
    forall j, nth (S j) (add_reg lam rv rg r) 0 == nth (S j) r 0 + lam * nth j rg 0.
Proof. exact add_reg_terms. Qed.
Print Assumptions C06_regularizer_added_exactly.

Theorem C06_two_norm_regularizer :
  forall mask x v t, length v = length x -> (mask = [] \/ length mask = length x) ->
    two_eval mask (vaxpy t v x) - two_eval mask x
    == t * (dot (two_grad mask x) v + t * (match mask with [] => (1#2) * normsq v | _ => (1#2) * msq v mask end)).
Proof. exact two_norm_gradient. Qed.
Print Assumptions C06_two_norm_regularizer.

Theorem C06_one_norm_regularizer :
  forall t x v, length v = length x -> same_side t x v ->
    one_eval [] (vaxpy t v x) - one_eval [] x == t * dot (one_grad [] x) v.
Proof. exact one_norm_gradient_nomask. Qed.
Print Assumptions C06_one_norm_regularizer.

Theorem C06_one_norm_regularizer_masked :
  forall t mask x v, mask <> [] -> length v = length x -> length mask = length x -> nonneg mask -> same_side t x v ->
    one_eval mask (vaxpy t v x) - one_eval mask x == t * dot (one_grad mask x) v.
Proof. exact one_norm_gradient_mask. Qed.
Print Assumptions C06_one_norm_regularizer_masked.

(* ---- loss table ---- *)
Theorem C06_loss_derivative_call_returns_eval_value :
  forall k dim b, fst (loss_evald k dim b) == loss_eval k dim b.
Proof. exact loss_paths. Qed.
Print Assumptions C06_loss_derivative_call_returns_eval_value.

Theorem C06_loss_batch_is_sum_of_elements :
  forall k dim b,
    loss_eval k dim b == qsum (map (fun e => loss_eval k dim [e]) b) /\
    fst (loss_evald k dim b) == qsum (map (fun e => fst (loss_evald k dim [e])) b) /\
    snd (loss_evald k dim b) = map (fun e => nth 0 (snd (loss_evald k dim [e])) []) b.
Proof. exact loss_batch_is_sum. Qed.
Print Assumptions C06_loss_batch_is_sum_of_elements.

Theorem C06_nondifferentiable_losses_batch_is_sum :
  (forall b, abs_eval b == qsum (map (fun e => abs_eval [e]) b)) /\
  (forall b, zo_eval b == qsum (map (fun e => zo_eval [e]) b)) /\
  (forall thr b, zov_eval thr b == qsum (map (fun e => zov_eval thr [e]) b)) /\
  (forall cost b, disc_eval cost b == qsum (map (fun e => disc_eval cost [e]) b)) /\
  (forall b, zo_eval b == Qn (length (filter (fun e => negb (snd e =? fst e)%nat) b))).
Proof. exact discrete_losses_batch_is_sum. Qed.
Print Assumptions C06_nondifferentiable_losses_batch_is_sum.

Theorem C06_squared_loss_gradient :
  forall l p v t, length p = length l -> length v = length l ->
    sq_eval [(l, vaxpy t v p)] - sq_eval [(l, p)]
    == t * (dot (nth 0 (snd (sq_evald [(l, p)])) []) v + t * ((1#2) * normsq v)).
Proof. exact sq_gradient. Qed.
Print Assumptions C06_squared_loss_gradient.

Theorem C06_squared_loss_class_label_gradient :
  forall c p v t, (c < length p)%nat -> length v = length p ->
    sqc_eval [(c, vaxpy t v p)] - sqc_eval [(c, p)]
    == t * (dot (nth 0 (snd (sqc_evald [(c, p)])) []) v + t * ((1#2) * normsq v)).
Proof. exact sqc_gradient. Qed.
Print Assumptions C06_squared_loss_class_label_gradient.

(* HingeLoss: one output (binary labels) and several outputs (multi-class); kinks excluded: every margin term
   keeps its strict sign along the step *)
Theorem C06_hinge_binary_gradient :
  forall c x h,
    (0 < 1 - ylab c * x /\ 0 < 1 - ylab c * (x + h)) \/ (1 - ylab c * x < 0 /\ 1 - ylab c * (x + h) < 0) ->
    hinge_eval 1 [(c, [x + h])] - hinge_eval 1 [(c, [x])]
    == h * nth 0 (nth 0 (snd (hinge_evald 1 [(c, [x])])) []) 0.
Proof. exact hinge_bin_gradient. Qed.
Print Assumptions C06_hinge_binary_gradient.

Theorem C06_hinge_multiclass_gradient :
  forall c p v t dim, (dim =? 1)%nat = false -> (c < dim)%nat -> length p = dim -> length v = dim ->
    (forall o, In o (others c dim) -> hinge_mc_same_side c p v t o) ->
    hinge_eval dim [(c, vaxpy t v p)] - hinge_eval dim [(c, p)]
    == t * dot (nth 0 (snd (hinge_evald dim [(c, p)])) []) v.
Proof. exact hinge_mc_gradient. Qed.
Print Assumptions C06_hinge_multiclass_gradient.

(* SquaredHingeLoss: one output and several outputs *)
Theorem C06_squared_hinge_binary_gradient :
  forall c x h,
    (0 < 1 - ylab c * x /\ 0 < 1 - ylab c * (x + h)) \/ (1 - ylab c * x < 0 /\ 1 - ylab c * (x + h) < 0) ->
    sqhinge_eval 1 [(c, [x + h])] - sqhinge_eval 1 [(c, [x])]
    == h * (nth 0 (nth 0 (snd (sqhinge_evald 1 [(c, [x])])) []) 0
            + h * (if Qlt_le_dec 0 (1 - ylab c * x) then (1#2) * (ylab c * ylab c) else 0)).
Proof. exact sqhinge_bin_gradient. Qed.
Print Assumptions C06_squared_hinge_binary_gradient.

Theorem C06_squared_hinge_multiclass_gradient :
  forall c p v t dim, (dim =? 1)%nat = false -> (c < dim)%nat -> length p = dim -> length v = dim ->
    (forall o, In o (others c dim) -> hinge_mc_same_side c p v t o) ->
    sqhinge_eval dim [(c, vaxpy t v p)] - sqhinge_eval dim [(c, p)]
    == t * (dot (nth 0 (snd (sqhinge_evald dim [(c, p)])) []) v + t * qsum (map (sqhinge_mc_rem c p v) (others c dim))).
Proof. exact sqhinge_mc_gradient. Qed.
Print Assumptions C06_squared_hinge_multiclass_gradient.

Theorem C06_epsilon_hinge_gradient :
  forall eps l x h, 0 <= eps ->
    (Qabs (x - l) < eps /\ Qabs (x + h - l) < eps) \/ (eps < x - l /\ eps < x + h - l) \/ (x - l < - eps /\ x + h - l < - eps) ->
    eps_s eps l (x + h) - eps_s eps l x == h * eps_g eps l x.
Proof. exact eps_gradient. Qed.
Print Assumptions C06_epsilon_hinge_gradient.

Theorem C06_squared_epsilon_hinge_gradient :
  forall eps l p v t, length p = length l -> length v = length l ->
    let g := nth 0 (snd (sqeps_evald eps [(l, p)])) [] in
    (0 < normsq (vsub p l) - eps * eps /\ 0 < normsq (vsub (vaxpy t v p) l) - eps * eps ->
       sqeps_s eps l (vaxpy t v p) - sqeps_s eps l p == t * (dot g v + t * ((1#2) * normsq v))) /\
    (normsq (vsub p l) - eps * eps < 0 /\ normsq (vsub (vaxpy t v p) l) - eps * eps < 0 ->
       sqeps_s eps l (vaxpy t v p) - sqeps_s eps l p == t * (dot g v + t * 0)).
Proof. exact sqeps_gradient. Qed.
Print Assumptions C06_squared_epsilon_hinge_gradient.

(* full statement: everywhere except |p-l| = delta; proved inside the ball (the outer branch needs sqrt) *)
Theorem C06_huber_gradient_partial :
  forall delta l p v t, length p = length l -> length v = length l ->
    normsq (vsub p l) <= delta * delta -> normsq (vsub (vaxpy t v p) l) <= delta * delta ->
    huber_s delta l (vaxpy t v p) - huber_s delta l p == t * (dot (huber_g delta l p) v + t * ((1#2) * normsq v)).
Proof. exact huber_inner_gradient. Qed.
Print Assumptions C06_huber_gradient_partial.

(* ---- the hypotheses are satisfiable ---- *)
Example ex_ranges : thread_ranges 3 7 = [(0, 3); (3, 5); (5, 7)]%nat.
Proof. reflexivity. Qed.
Example ex_ranges_more_threads_than_batches : thread_ranges 16 2 = [(0, 1); (1, 2)]%nat.
Proof. reflexivity. Qed.

Definition ex_m : linmodel := {| lW := [[1; 2]; [0; -(1)]]; lb := [1#2; 0] |}.
Definition ex_dm : linmodel := {| lW := [[1; 0]; [3; 1]]; lb := [0; 1] |}.
Definition ex_e : elem := ([1; 1], (0%nat, [2; 2])).
Example ex_wf : lin_wf 2 2 ex_m /\ lin_wf 2 2 ex_dm.
Proof.
  split; (split; [reflexivity|]; split; [reflexivity|]);
  intros row [<-|[<-|[]]]; reflexivity.
Qed.
Example ex_expansion : elem_expansion LSq 2 2 ex_m ex_dm (1#4) (fun e => (1#2) * normsq (lin_eval ex_dm (fst e))) ex_e.
Proof. apply sq_elem_expansion; try reflexivity; apply ex_wf. Qed.
Example ex_same_side : same_side (1#2) [1; -(3); 0] [-(1); 2; 0] /\ nonneg [1; 0; 2].
Proof. cbn. repeat split; try (left; split; reflexivity); try (right; left; split; reflexivity);
       try (right; right; split; reflexivity); discriminate. Qed.
Example ex_hinge_side : 0 < 1 - ylab 1 * (1#2) /\ 0 < 1 - ylab 1 * ((1#2) + (1#4)).
Proof. split; reflexivity. Qed.
Example ex_hinge_mc_side : forall o, In o (others 0 3) -> hinge_mc_same_side 0 [1; 0; 4] [1; 1; -(1)] (1#2) o.
Proof.
  intros o [<-|[<-|[]]]; unfold hinge_mc_same_side; cbn; [left | left]; split; reflexivity.
Qed.
Example ex_eval : map Qred (ef_evald LSq ex_m 2 [[ex_e]; [ex_e]]) = map Qred (ef_evald LSq ex_m 1 [[ex_e; ex_e]]).
Proof. vm_compute. reflexivity. Qed.
