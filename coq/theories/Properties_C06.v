(* C06 — Losses and error functions report the true mean loss and its true gradient.
   Only statements + `exact`; proofs live in C06Proofs.v / C06Aux.v / C06*Proofs.v, the executable model in C06Model.v and C06ExtModel.v.

   PROVED here (axiom-free, over Q, for all sizes / inputs / thread counts / batchings / arrival orders):
     * the work split of ErrorFunctionImpl tiles [0, batches) for every thread count >= 1; merging the
       thread results in any arrival order gives the same total (C06_thread_ranges_tile,
       C06_merge_order_irrelevant);
     * ErrorFunction (value path and derivative path) = mean over the elements of the single-element
       contribution, for ANY per-batch contribution that is additive over its elements
       (C06_error_is_mean_loss_generic), and concretely for the 7 differentiable table losses (squared,
       squared/one-hot, hinge, squared hinge, eps-hinge, squared eps-hinge, Huber) with the linear model
       (C06_error_is_mean_loss); both paths return the same value; invariance under re-batching and
       thread count (C06_batching_invariant); mini-batch path = mean of the chosen batch;
       AbstractLoss::eval(Data,Data) = mean loss;
     * equal weights (any common non-zero weight) give the unweighted error function, value and gradient
       (C06_equal_weights_eq_unweighted);
     * chain rule: if the loss's returned row is the derivative of the loss w.r.t. the prediction along
       the induced prediction change (explicit remainder), then the vector returned by
       ErrorFunction::evalDerivative is the derivative of ErrorFunction::eval w.r.t. the model
       parameters (C06_error_grad_is_param_grad); unconditional instance for the squared loss
       (C06_sq_error_gradient);
     * regularizers: setRegularizer adds exactly factor*value / factor*gradient; two-norm (masked or not):
       exact expansion; one-norm: exact on steps that do not cross 0, sign(0) = 0 convention, mask >= 0;
     * loss table: evalDerivative value = eval value; batch = sum of elements; gradient = derivative of the
       value (exact algebraic expansion, kinks excluded by explicit side conditions) for squared (both
       label kinds), hinge and squared hinge (one output and multi-class), eps-hinge, squared
       eps-hinge, Huber inside the quadratic region.
     * SECOND ROUND.  (a) HuberLoss: linear region outside the ball with an explicit remainder -- over Q at all points
       where the model's square root is exact (C06_huber_outer_gradient), and for the same code read over EVERY
       ordered field with a square root at every point strictly outside the ball at both ends of the step
       (C06_huber_outer_gradient_any_field; inner region C06_huber_inner_gradient_any_field): together with the
       inner theorem the gradient is the derivative at every differentiable point, the only excluded set is the
       sphere |p-l| = delta.  The Q table entries are the Q instance of the polymorphic functions
       (C06_huber_abs_table_entries_are_instances).  (b) AbsoluteLoss = THE Euclidean distance (non-negative, squares
       to |p-l|^2), batch = sum; weighted ZeroOneLoss::eval(Data,Data,weights) = weighted mean of the single-element
       losses, independent of the batching, equal weights = the unweighted AbstractLoss::eval(Data,Data) for every
       arrival order (the C06_weighted_zero_one theorems).  (c) cross-entropy, both label encodings, for the code read over
       EVERY ordered field with exp/log satisfying exp(a+b) = exp a * exp b, 0 < exp a, log(exp a) = a,
       0 < y -> exp(log y) = y:  log-sum-exp with the maximum (in fact ANY shift) subtracted = unshifted definition
       (C06_log_sum_exp_shift), value = log sum exp - p_c = -log softmax_c, evalDerivative value = eval value,
       gradient = softmax - one_hot, one output: value = ln(1+exp(-y x)) above the coded cut-off (-y x below it),
       gradient = sigmoid(x) - c, = the two-class form on logits (0,x); batch = sum of the single-element calls;
       probability-vector labels: the three batch-wide sums of the code = sum over rows of
       (log sum exp - <t,p>) = -sum_j t_j log softmax_j when sum t = 1, gradient rows = softmax - t.
       (d) chain rule for ANY model: ErrorFunction uses the model only through eval and
       weightedParameterDerivative (C06Model.gen_bq); if the latter is additive over the batch and satisfies the
       adjoint identity <wpd(x,g), dtheta> = <g, d prediction[dtheta]> (the C04 contract), the returned vector is
       the derivative of the returned value w.r.t. the parameters (C06_error_grad_is_param_grad_generic,
       C06_error_grad_is_param_grad_contract); unconditional for the squared loss and every contract model
       (C06_sq_error_gradient_any_model); the linear model is an instance (C06_linear_model_is_instance) and so is
       LinearModel >> LinearModel, which is bilinear in its parameters (C06_two_layer_contract,
       C06_sq_error_gradient_two_layer).
       The laws of (a)-(c) are satisfiable: the reals of the standard library with exp/ln/sqrt (Examples at the
       end; these, and only these, depend on the standard-library axioms of the reals).
     * THIRD ROUND.  (e) NegativeAUC<unsigned int, RealVector>::eval as coded (C06ExtModel.nauc_eval: the (score,label) list with the
       `invert` flag, the counts P/N, std::sort in decreasing score order, the sweep with its six local variables, trapArea, the
       closing trapezoid, the sign), axiom-free over Q: the sweep over ANY non-increasing permutation of the list -- i.e. whatever
       order std::sort leaves equal scores in -- equals pair counting (C06_auc_sweep_any_sorted_permutation); the returned value is
       -(#{(p,n): s_p > s_n} + 1/2 #{(p,n): s_p = s_n}) / (#pos * #neg) (C06_negative_auc_is_pair_counting, C06_negative_auc_value,
       C06_auc_pair_count_cardinalities): the code's tie convention is "one half", and it does not depend on the order inside a group
       of equal scores; the result depends only on the multiset of elements (any batch partition, any element order:
       C06_negative_auc_batching_invariant); invert = true gives -(1 - AUC) (C06_negative_auc_invert).  Outcomes as coded: the empty
       data set throws; if one class is absent the code divides 0.0/0.0 and returns NaN (no test, no exception); vector-valued
       predictions: more than two columns throw, otherwise the last column is used (C06_negative_auc_vector_predictions, C06_negative_auc_vector_predictions_batching_invariant).
       (f) SquaredLoss<Sequence,Sequence>(ignore) as coded (C06ExtModel.seq_eval / seq_evald), axiom-free over Q: both entry points
       throw on the same inputs (some sequence not longer than `ignore`) and otherwise return the same value; the content of the
       gradient object handed in is irrelevant (C06_sequence_loss_derivative_call_returns_eval_value, C06_sequence_loss_exception);
       batch = sum of the sequences (C06_sequence_loss_batch_is_sum); gradient = derivative of the value along every direction, exact
       quadratic expansion (C06_sequence_loss_gradient); the value ignores the prefix, the gradient is zero there and has the shape of
       the predictions (C06_sequence_loss_ignored_prefix).
       (g) cross-entropy over the REAL numbers (the polymorphic code instantiated at R with exp/ln, C06CeRealProofs.v; Coquelicot's
       is_derive, equivalent to derivable_pt_lim; depends on the standard-library real-number axioms, classic and functional
       extensionality, printed below): the gradient returned by the derivative call IS the derivative of the returned value --
       along every direction and for every partial derivative softmax_j(p) - [j = c] of p |-> ln(sum_k exp p_k) - p_c
       (C06_cross_entropy_gradient_is_directional_derivative, C06_cross_entropy_gradient_is_partial_derivative), one output:
       sigmoid(x) - c strictly above the coded cut-off -200 < y x (C06_cross_entropy_one_output_gradient_is_derivative),
       probability-vector labels: softmax(p) - t (C06_cross_entropy_vector_labels_gradient_is_derivative).  Likewise HuberLoss over
       R with sqrt: the coded gradient is the directional derivative of the coded value at every prediction with |p - l| <> delta
       (C06_huber_gradient_is_directional_derivative; same axioms).
       (h) NegativeLogLikelihood as coded (C06ExtModel.nll_eval / nll_evald: per-batch sum(log(max(p, 1e-100))), critical-region
       merge, the thread split of evalDerivative, coefficients 1/p or 0, /n, sign), axiom-free over Q and for EVERY function in the
       role of the logarithm: value = -(mean of log max(p(x), minProb)) from both entry points, derivative = -(mean of
       weightedParameterDerivative(x, 1/p(x))), for every batching, thread count and arrival order
       (C06_negative_log_likelihood_is_mean, C06_negative_log_likelihood_batching_invariant).  Not proved: that this vector is the
       derivative of the value w.r.t. the parameters in the analytic sense (needs log over R and the model contract).
     * FOURTH ROUND.  (i) calling context (C06Ctx.v: the full-batch loop of ErrorFunctionImpl::eval / evalDerivative runs over batch RANGES,
       which thread executes which range is an explicit assignment a : range index -> thread id, the merge events (thread id, partial
       result) arrive in any order), axiom-free over Q: as coded -- every event added to the shared sum inside the critical region --
       value and derivative are the mean per-element loss for EVERY assignment and arrival order (C06_calling_context_is_mean_loss),
       hence independent of the assignment (C06_calling_context_assignment_irrelevant); the call from INSIDE an active parallel region
       of k threads (SHARK_NUM_THREADS = k, inner team of one thread: the constant assignment, ranges in order) is literally the
       computation of the call from serial code with k threads (C06_nested_call_is_toplevel_computation) and agrees with every thread
       count and batching of the same elements (C06_nested_call_invariant).  The per-thread-slot variant (slot[thread] := partial,
       slots summed afterwards -- the seeded change C06-8, not the code) is right when every range runs on its own thread
       (C06_per_thread_slots_right_from_serial_code: why no test called from serial code can see it) and is REFUTED as soon as one
       thread executes two ranges: concrete witness, the nested call (C06_per_thread_slots_refuted).
   PARTIAL (named *_partial): kept from round 1 for reference; superseded by the theorems of the second round
     (C06_huber_gradient_partial by C06_huber_outer_gradient*, C06_error_grad_is_param_grad_partial by *_generic).
   NOT PROVED: the one-output cross-entropy below the cut-off y x < -200 returns the asymptote -y x whose slope is -y, while the
     gradient code returns sigmoid(x) - c; the two differ by less than exp(-200) (invisible in double), so the derivative theorem is
     stated above the cut-off only.  Derivatives of the hinge-type, epsilon-insensitive and squared losses are stated as exact
     algebraic expansions with explicit remainders (first and second round), not with is_derive; AbsoluteLoss has no derivative call.
   ONLY COMPARED / MONITORED by tools/c06.py (not proved): the calling-context stage (every ErrorFunction / AbstractLoss::eval(Data,Data) /
     NegativeLogLikelihood / NegativeAUC / weighted ZeroOneLoss line evaluated by one thread of a parallel region of 2 / 3 threads and by
     every thread at once on its own copy must equal the serial reference; the extracted errfn_ctx with the nested assignment is run
     next to the C++ on the E, R, N lines) -- that the OpenMP runtime realises one of the modelled assignments, and thread safety of
     concurrent evaluations on separate copies, are observed, not proved; nested parallelism switched ON is not exercised;
     extreme arguments: the cross-entropy family (class labels and probability-vector labels, one and several outputs, double and
     single precision outputs) on logits of magnitude 1e3, 1e5 and next to the exp overflow / underflow thresholds on both sides of the
     label is compared with the exact loss and its exact derivative evaluated with 60 digits (everything finite, value = eval =
     evalDerivative value, gradient = derivative, batch = sum), the float model is not a model of IEEE overflow; the other table losses
     on the same magnitudes exactly against the Q model; NegativeLogLikelihood on probabilities around its clamp 1e-100;
     finite-difference gradient monitor on every loss and on models with
     non-linear activations, floating-point rounding (the float instantiations are compared at 1e-12; NegativeAUC exactly when both
     class sizes are powers of two, else at 4e-14), NegativeAUC on scores equal to -DBL_MAX (the model represents the initial
     predictionPrev = -DBL_MAX by `None`) and the three-argument eval with an explicit column,
     KernelTargetAlignment, CrossValidationError / LooError (C20's monitors), the OpenMP runtime actually delivering one of the
     modelled schedules. *)
From Coq Require Import List Arith ZArith QArith Qabs Permutation Reals Sorted Lia.
From Coquelicot Require Coquelicot.
From SharkV Require Import C06LossProofs C06GenProofs C06FieldProofs C06RealProofs C06ExtModel C06AucProofs C06SeqProofs C06CeRealProofs C06NllProofs C06HuberRealProofs.

From SharkV Require Import ListAux C03Model C06Model C06Proofs C06Aux.
Import ListNotations.
Open Scope Q_scope.

(* ---- schedules ---- *)
Theorem C06_thread_ranges_tile : forall threads batches, (1 <= threads)%nat ->
  chain 0 (thread_ranges threads batches) batches /\
  flat_ranges (thread_ranges threads batches) = seq 0 batches /\
  length (thread_ranges threads batches) = Nat.min threads batches.
Proof. exact thread_ranges_tile. Qed.
Print Assumptions C06_thread_ranges_tile.

Theorem C06_merge_order_irrelevant : forall l l', Permutation l l' -> veq (vsum l) (vsum l').
Proof. exact merge_order_irrelevant. Qed.
Print Assumptions C06_merge_order_irrelevant.

(* ---- error = mean per-element loss (value :: gradient), any schedule ---- *)
Theorem C06_error_is_mean_loss_generic :
  forall (E : Type) (bq : list E -> vec), (forall b, veq (bq b) (vsum (map (fun e => bq [e]) b))) ->
  forall threads (d : @data E) arrived, (1 <= threads)%nat ->
    Permutation arrived (partials bq (thread_ranges threads (length d)) d) ->
    veq (finish arrived (nelems d)) (mean_loss bq (elems d)).
Proof. exact (@error_any_schedule). Qed.
Print Assumptions C06_error_is_mean_loss_generic.

Theorem C06_error_is_mean_loss :
  forall k m threads (d : @data elem) arrived arrived_eval, (1 <= threads)%nat ->
    Permutation arrived (partials (lin_bq k m) (thread_ranges threads (length d)) d) ->
    Permutation arrived_eval (partials (lin_bq_eval k m) (thread_ranges threads (length d)) d) ->
    veq (finish arrived (nelems d)) (mean_loss (lin_bq k m) (elems d)) /\
    veq (finish arrived_eval (nelems d)) (mean_loss (lin_bq_eval k m) (elems d)).
Proof. exact ef_any_schedule. Qed.
Print Assumptions C06_error_is_mean_loss.

Theorem C06_eval_and_derivative_values_agree :
  forall k m threads (d : @data elem), (1 <= threads)%nat ->
    nth 0 (ef_evald k m threads d) 0 == nth 0 (ef_eval k m threads d) 0.
Proof. exact ef_paths_agree. Qed.
Print Assumptions C06_eval_and_derivative_values_agree.

Theorem C06_batching_invariant :
  forall k m t1 t2 (l : list elem) s1 s2,
    (1 <= t1)%nat -> (1 <= t2)%nat -> C03Model.sum s1 = length l -> C03Model.sum s2 = length l ->
    veq (ef_evald k m t1 (chunk s1 l)) (ef_evald k m t2 (chunk s2 l)) /\
    veq (ef_eval k m t1 (chunk s1 l)) (ef_eval k m t2 (chunk s2 l)).
Proof. exact ef_batching_invariant. Qed.
Print Assumptions C06_batching_invariant.

Theorem C06_minibatch_is_batch_mean :
  forall (E : Type) (bq : list E -> vec), (forall b, veq (bq b) (vsum (map (fun e => bq [e]) b))) ->
  forall i (d : @data E), (i < length d)%nat -> veq (minibatch bq i d) (mean_loss bq (nth i d [])).
Proof. exact (@minibatch_is_batch_mean). Qed.
Print Assumptions C06_minibatch_is_batch_mean.

Theorem C06_loss_on_dataset_is_mean :
  forall k dim (d : @data (lab * vec)) arrived,
    Permutation arrived (map (fun b => [loss_eval k dim b]) d) ->
    veq (finish arrived (nelems d)) (mean_loss (fun b => [loss_eval k dim b]) (elems d)).
Proof. exact loss_data_mean. Qed.
Print Assumptions C06_loss_on_dataset_is_mean.

(* ---- weights ---- *)
Theorem C06_equal_weights_eq_unweighted :
  forall k m c, ~ c == 0 -> forall threads (d : @data welem) arrived,
    (forall e, In e (elems d) -> snd e == c) -> (1 <= threads)%nat -> (0 < nelems d)%nat ->
    Permutation arrived (map (wbatch (lin_eloss k m) lin_wwpd snd) d) ->
    veq (werrfn snd arrived d) (ef_evald k m threads (map (map fst) d)).
Proof. exact lin_equal_weights. Qed.
Print Assumptions C06_equal_weights_eq_unweighted.

Theorem C06_weighted_paths_agree :
  forall k m (d : @data welem), nth 0 (wef_evald k m d) 0 == nth 0 (wef_eval k m d) 0.
Proof. exact wef_paths_agree. Qed.
Print Assumptions C06_weighted_paths_agree.

(* ---- gradient w.r.t. the model parameters ---- *)
(* full statement of the property: for every model and loss the returned vector is the parameter
   gradient.  Proved: for the linear model and every table loss, GIVEN the loss-level expansion on
   every element (which is exactly "the loss gradient is the derivative w.r.t. the prediction"). *)
Theorem C06_error_grad_is_param_grad_partial :
  forall k nin nout m dm t (r : elem -> Q), lin_wf nin nout m -> lin_wf nin nout dm ->
  forall threads (d : @data elem), (1 <= threads)%nat ->
    (forall e, In e (elems d) -> elem_expansion k nin nout m dm t r e) ->
    nth 0 (ef_eval k (madd t dm m) threads d) 0 - nth 0 (ef_eval k m threads d) 0
    == t * (pdot (tl (ef_evald k m threads d)) (lin_params dm) + t * (qsum (map r (elems d)) / Qn (nelems d))).
Proof. exact error_grad_is_param_grad. Qed.
Print Assumptions C06_error_grad_is_param_grad_partial.

Theorem C06_sq_error_gradient :
  forall nin nout m dm t threads (d : @data elem),
    lin_wf nin nout m -> lin_wf nin nout dm -> sq_shapes nin nout d -> (1 <= threads)%nat ->
    nth 0 (ef_eval LSq (madd t dm m) threads d) 0 - nth 0 (ef_eval LSq m threads d) 0
    == t * (pdot (tl (ef_evald LSq m threads d)) (lin_params dm)
            + t * (qsum (map (fun e => (1#2) * normsq (lin_eval dm (fst e))) (elems d)) / Qn (nelems d))).
Proof. exact sq_error_gradient. Qed.
Print Assumptions C06_sq_error_gradient.

Theorem C06_chain_rule_adjoint :
  forall nin nout dm x g, lin_wf nin nout dm -> length x = nin -> length g = nout ->
    dot (lin_wpd1 x g) (lin_params dm) == dot g (lin_eval dm x) /\ length (lin_wpd1 x g) = length (lin_params dm).
Proof. exact lin_adjoint. Qed.
Print Assumptions C06_chain_rule_adjoint.

(* ---- regularizers ---- *)
Theorem C06_regularizer_added_exactly :
  forall lam rv rg r,
    nth 0 (add_reg lam rv rg r) 0 == nth 0 r 0 + lam * rv /\
    forall j, nth (S j) (add_reg lam rv rg r) 0 == nth (S j) r 0 + lam * nth j rg 0.
Proof. exact add_reg_terms. Qed.
Print Assumptions C06_regularizer_added_exactly.

Theorem C06_two_norm_regularizer :
  forall mask x v t, length v = length x -> (mask = [] \/ length mask = length x) ->
    two_eval mask (vaxpy t v x) - two_eval mask x
    == t * (dot (two_grad mask x) v + t * (match mask with [] => (1#2) * normsq v | _ => (1#2) * msq v mask end)).
Proof. exact two_norm_gradient. Qed.
Print Assumptions C06_two_norm_regularizer.

Theorem C06_one_norm_regularizer :
  forall t x v, length v = length x -> same_side t x v ->
    one_eval [] (vaxpy t v x) - one_eval [] x == t * dot (one_grad [] x) v.
Proof. exact one_norm_gradient_nomask. Qed.
Print Assumptions C06_one_norm_regularizer.

Theorem C06_one_norm_regularizer_masked :
  forall t mask x v, mask <> [] -> length v = length x -> length mask = length x -> nonneg mask -> same_side t x v ->
    one_eval mask (vaxpy t v x) - one_eval mask x == t * dot (one_grad mask x) v.
Proof. exact one_norm_gradient_mask. Qed.
Print Assumptions C06_one_norm_regularizer_masked.

(* ---- loss table ---- *)
Theorem C06_loss_derivative_call_returns_eval_value :
  forall k dim b, fst (loss_evald k dim b) == loss_eval k dim b.
Proof. exact loss_paths. Qed.
Print Assumptions C06_loss_derivative_call_returns_eval_value.

Theorem C06_loss_batch_is_sum_of_elements :
  forall k dim b,
    loss_eval k dim b == qsum (map (fun e => loss_eval k dim [e]) b) /\
    fst (loss_evald k dim b) == qsum (map (fun e => fst (loss_evald k dim [e])) b) /\
    snd (loss_evald k dim b) = map (fun e => nth 0 (snd (loss_evald k dim [e])) []) b.
Proof. exact loss_batch_is_sum. Qed.
Print Assumptions C06_loss_batch_is_sum_of_elements.

Theorem C06_nondifferentiable_losses_batch_is_sum :
  (forall b, abs_eval b == qsum (map (fun e => abs_eval [e]) b)) /\
  (forall b, zo_eval b == qsum (map (fun e => zo_eval [e]) b)) /\
  (forall thr b, zov_eval thr b == qsum (map (fun e => zov_eval thr [e]) b)) /\
  (forall cost b, disc_eval cost b == qsum (map (fun e => disc_eval cost [e]) b)) /\
  (forall b, zo_eval b == Qn (length (filter (fun e => negb (snd e =? fst e)%nat) b))).
Proof. exact discrete_losses_batch_is_sum. Qed.
Print Assumptions C06_nondifferentiable_losses_batch_is_sum.

Theorem C06_squared_loss_gradient :
  forall l p v t, length p = length l -> length v = length l ->
    sq_eval [(l, vaxpy t v p)] - sq_eval [(l, p)]
    == t * (dot (nth 0 (snd (sq_evald [(l, p)])) []) v + t * ((1#2) * normsq v)).
Proof. exact sq_gradient. Qed.
Print Assumptions C06_squared_loss_gradient.

Theorem C06_squared_loss_class_label_gradient :
  forall c p v t, (c < length p)%nat -> length v = length p ->
    sqc_eval [(c, vaxpy t v p)] - sqc_eval [(c, p)]
    == t * (dot (nth 0 (snd (sqc_evald [(c, p)])) []) v + t * ((1#2) * normsq v)).
Proof. exact sqc_gradient. Qed.
Print Assumptions C06_squared_loss_class_label_gradient.

(* HingeLoss: one output (binary labels) and several outputs (multi-class); kinks excluded: every margin term
   keeps its strict sign along the step *)
Theorem C06_hinge_binary_gradient :
  forall c x h,
    (0 < 1 - ylab c * x /\ 0 < 1 - ylab c * (x + h)) \/ (1 - ylab c * x < 0 /\ 1 - ylab c * (x + h) < 0) ->
    hinge_eval 1 [(c, [x + h])] - hinge_eval 1 [(c, [x])]
    == h * nth 0 (nth 0 (snd (hinge_evald 1 [(c, [x])])) []) 0.
Proof. exact hinge_bin_gradient. Qed.
Print Assumptions C06_hinge_binary_gradient.

Theorem C06_hinge_multiclass_gradient :
  forall c p v t dim, (dim =? 1)%nat = false -> (c < dim)%nat -> length p = dim -> length v = dim ->
    (forall o, In o (others c dim) -> hinge_mc_same_side c p v t o) ->
    hinge_eval dim [(c, vaxpy t v p)] - hinge_eval dim [(c, p)]
    == t * dot (nth 0 (snd (hinge_evald dim [(c, p)])) []) v.
Proof. exact hinge_mc_gradient. Qed.
Print Assumptions C06_hinge_multiclass_gradient.

(* SquaredHingeLoss: one output and several outputs *)
Theorem C06_squared_hinge_binary_gradient :
  forall c x h,
    (0 < 1 - ylab c * x /\ 0 < 1 - ylab c * (x + h)) \/ (1 - ylab c * x < 0 /\ 1 - ylab c * (x + h) < 0) ->
    sqhinge_eval 1 [(c, [x + h])] - sqhinge_eval 1 [(c, [x])]
    == h * (nth 0 (nth 0 (snd (sqhinge_evald 1 [(c, [x])])) []) 0
            + h * (if Qlt_le_dec 0 (1 - ylab c * x) then (1#2) * (ylab c * ylab c) else 0)).
Proof. exact sqhinge_bin_gradient. Qed.
Print Assumptions C06_squared_hinge_binary_gradient.

Theorem C06_squared_hinge_multiclass_gradient :
  forall c p v t dim, (dim =? 1)%nat = false -> (c < dim)%nat -> length p = dim -> length v = dim ->
    (forall o, In o (others c dim) -> hinge_mc_same_side c p v t o) ->
    sqhinge_eval dim [(c, vaxpy t v p)] - sqhinge_eval dim [(c, p)]
    == t * (dot (nth 0 (snd (sqhinge_evald dim [(c, p)])) []) v + t * qsum (map (sqhinge_mc_rem c p v) (others c dim))).
Proof. exact sqhinge_mc_gradient. Qed.
Print Assumptions C06_squared_hinge_multiclass_gradient.

Theorem C06_epsilon_hinge_gradient :
  forall eps l x h, 0 <= eps ->
    (Qabs (x - l) < eps /\ Qabs (x + h - l) < eps) \/ (eps < x - l /\ eps < x + h - l) \/ (x - l < - eps /\ x + h - l < - eps) ->
    eps_s eps l (x + h) - eps_s eps l x == h * eps_g eps l x.
Proof. exact eps_gradient. Qed.
Print Assumptions C06_epsilon_hinge_gradient.

Theorem C06_squared_epsilon_hinge_gradient :
  forall eps l p v t, length p = length l -> length v = length l ->
    let g := nth 0 (snd (sqeps_evald eps [(l, p)])) [] in
    (0 < normsq (vsub p l) - eps * eps /\ 0 < normsq (vsub (vaxpy t v p) l) - eps * eps ->
       sqeps_s eps l (vaxpy t v p) - sqeps_s eps l p == t * (dot g v + t * ((1#2) * normsq v))) /\
    (normsq (vsub p l) - eps * eps < 0 /\ normsq (vsub (vaxpy t v p) l) - eps * eps < 0 ->
       sqeps_s eps l (vaxpy t v p) - sqeps_s eps l p == t * (dot g v + t * 0)).
Proof. exact sqeps_gradient. Qed.
Print Assumptions C06_squared_epsilon_hinge_gradient.

(* full statement: everywhere except |p-l| = delta; proved inside the ball (the outer branch needs sqrt) *)
Theorem C06_huber_gradient_partial :
  forall delta l p v t, length p = length l -> length v = length l ->
    normsq (vsub p l) <= delta * delta -> normsq (vsub (vaxpy t v p) l) <= delta * delta ->
    huber_s delta l (vaxpy t v p) - huber_s delta l p == t * (dot (huber_g delta l p) v + t * ((1#2) * normsq v)).
Proof. exact huber_inner_gradient. Qed.
Print Assumptions C06_huber_gradient_partial.

(* ================================ second round ================================ *)
(* ---- (a) HuberLoss outside the ball, (b) weighted zero-one loss: exact model over Q ---- *)
Theorem C06_huber_outer_gradient :
  forall delta l p v t, length p = length l -> length v = length l ->
    let n := normsq (vsub p l) in let n' := normsq (vsub (vaxpy t v p) l) in
    delta * delta < n -> delta * delta < n' ->
    qsqrt n * qsqrt n == n -> qsqrt n' * qsqrt n' == n' ->
    huber_s delta l (vaxpy t v p) - huber_s delta l p
    == t * (dot (huber_g delta l p) v
            + t * huber_outer_rem delta (qsqrt n) (qsqrt n') (dot (vsub p l) v) (normsq v) t).
Proof. exact huber_outer_gradient. Qed.
Print Assumptions C06_huber_outer_gradient.

Theorem C06_huber_abs_table_entries_are_instances :
  (forall delta l p, huber_s delta l p == huberA_s Q 0 1 Qplus Qminus Qmult Qdiv Qltb qsqrt delta l p) /\
  (forall delta l p, huber_g delta l p = huberA_g Q 0 Qplus Qminus Qmult Qdiv Qltb qsqrt delta l p) /\
  (forall b, abs_eval b == absA_eval Q 0 Qplus Qminus Qmult qsqrt b).
Proof. exact (conj huber_s_instance (conj huber_g_instance abs_eval_instance)). Qed.
Print Assumptions C06_huber_abs_table_entries_are_instances.

Theorem C06_weighted_zero_one_is_weighted_mean :
  forall thr (d : @data (nat * vec)) w,
    zow_eval thr d w == qsum (map (fun ew => snd ew * zov_eval thr [fst ew]) (combine (elems d) w)) / qsum w.
Proof. exact zow_weighted_mean. Qed.
Print Assumptions C06_weighted_zero_one_is_weighted_mean.

Theorem C06_weighted_zero_one_batching_invariant :
  forall thr (d1 d2 : @data (nat * vec)) w, elems d1 = elems d2 -> zow_eval thr d1 w = zow_eval thr d2 w.
Proof. exact zow_batching_invariant. Qed.
Print Assumptions C06_weighted_zero_one_batching_invariant.

Theorem C06_weighted_zero_one_equal_weights :
  forall thr c (d : @data (nat * vec)) w arrived,
    ~ c == 0 -> length w = nelems d -> (forall x, In x w -> x == c) ->
    Permutation arrived (map (fun b => [zov_eval thr b]) d) ->
    zow_eval thr d w == zov_eval thr (elems d) / Qn (nelems d) /\
    zow_eval thr d w == nth 0 (finish arrived (nelems d)) 0.
Proof. exact zow_equal_weights. Qed.
Print Assumptions C06_weighted_zero_one_equal_weights.

(* ---- (d) the chain rule for any model ---- *)
Theorem C06_error_grad_is_param_grad_generic :
  forall (eval0 eval1 : vec -> vec) (wpd0 : list (vec * vec) -> vec) (dim : nat) (k : lossk) (dtheta : vec) (t : Q) (r : elem -> Q),
    (forall xg, veq (wpd0 xg) (vsum (map (fun p => wpd0 [p]) xg))) ->
    forall threads (d : @data elem), (1 <= threads)%nat ->
      (forall e, In e (elems d) -> gen_elem_expansion eval0 eval1 wpd0 dim k dtheta t r e) ->
      nth 0 (errfn (gen_bq_eval eval1 dim k) threads d) 0 - nth 0 (errfn (gen_bq_eval eval0 dim k) threads d) 0
      == t * (pdot (tl (errfn (gen_bq eval0 wpd0 dim k) threads d)) dtheta + t * (qsum (map r (elems d)) / Qn (nelems d))).
Proof. exact gen_error_grad_is_param_grad. Qed.
Print Assumptions C06_error_grad_is_param_grad_generic.

Theorem C06_error_grad_is_param_grad_contract :
  forall meval mwpd mdp mrp np nin nout, model_contract meval mwpd mdp mrp np nin nout ->
  forall k theta dtheta t rl, length theta = np -> length dtheta = np ->
  forall threads (d : @data elem), (1 <= threads)%nat ->
    (forall e, In e (elems d) -> loss_expansion meval mdp mrp nin nout k theta dtheta t rl e) ->
    nth 0 (errfn (gen_bq_eval (meval (vaxpy t dtheta theta)) nout k) threads d) 0
    - nth 0 (errfn (gen_bq_eval (meval theta) nout k) threads d) 0
    == t * (pdot (tl (errfn (gen_bq (meval theta) (mwpd theta) nout k) threads d)) dtheta
            + t * (qsum (map (contract_rem meval mrp nout k theta dtheta t rl) (elems d)) / Qn (nelems d))).
Proof. exact contract_error_grad_is_param_grad. Qed.
Print Assumptions C06_error_grad_is_param_grad_contract.

Theorem C06_sq_error_gradient_any_model :
  forall meval mwpd mdp mrp np nin nout, model_contract meval mwpd mdp mrp np nin nout ->
  forall theta dtheta t, length theta = np -> length dtheta = np ->
  forall threads (d : @data elem), (1 <= threads)%nat -> sq_shapes nin nout d ->
    nth 0 (errfn (gen_bq_eval (meval (vaxpy t dtheta theta)) nout LSq) threads d) 0
    - nth 0 (errfn (gen_bq_eval (meval theta) nout LSq) threads d) 0
    == t * (pdot (tl (errfn (gen_bq (meval theta) (mwpd theta) nout LSq) threads d)) dtheta
            + t * (qsum (map (contract_rem meval mrp nout LSq theta dtheta t (sq_rl mdp mrp theta dtheta t)) (elems d)) / Qn (nelems d))).
Proof. exact sq_gen_error_gradient. Qed.
Print Assumptions C06_sq_error_gradient_any_model.

Theorem C06_linear_model_is_instance :
  (forall k m, lin_bq k m = gen_bq (lin_eval m) lin_wpd (length (lb m)) k) /\
  (forall k m, lin_bq_eval k m = gen_bq_eval (lin_eval m) (length (lb m)) k) /\
  forall k nin nout m dm t r, lin_wf nin nout m -> lin_wf nin nout dm ->
    forall e, elem_expansion k nin nout m dm t r e ->
      gen_elem_expansion (lin_eval m) (lin_eval (madd t dm m)) lin_wpd nout k (lin_params dm) t r e.
Proof. exact (conj lin_bq_is_gen (conj lin_bq_eval_is_gen lin_instance_of_generic)). Qed.
Print Assumptions C06_linear_model_is_instance.

Theorem C06_two_layer_contract :
  forall nin nh nout m dm, net2_wf nin nh nout m -> net2_wf nin nh nout dm ->
    (forall xg, veq (net2_wpd m xg) (vsum (map (fun p => net2_wpd m [p]) xg))) /\
    (forall t x, veql (net2_eval (net2_madd t dm m) x)
                      (vaxpy t (vaxpy t (net2_rp dm x) (net2_dp m dm x)) (net2_eval m x))) /\
    (forall x g, length x = nin -> length g = nout ->
       pdot (net2_wpd1 m x g) (net2_params dm) == dot g (net2_dp m dm x)).
Proof.
  exact (fun nin nh nout m dm Hm Hdm =>
           conj (net2_wpd_sum m)
                (conj (fun t x => proj1 (net2_eval_expansion nin nh nout t m dm x Hm Hdm))
                      (fun x g Hx Hg => net2_adjoint nin nh nout m dm x g Hm Hdm Hx Hg))).
Qed.
Print Assumptions C06_two_layer_contract.

Theorem C06_sq_error_gradient_two_layer :
  forall nin nh nout m dm t threads (d : @data elem),
    net2_wf nin nh nout m -> net2_wf nin nh nout dm -> sq_shapes nin nout d -> (1 <= threads)%nat ->
    nth 0 (net2_ef_eval LSq (net2_madd t dm m) threads d) 0 - nth 0 (net2_ef_eval LSq m threads d) 0
    == t * (pdot (tl (net2_ef_evald LSq m threads d)) (net2_params dm)
            + t * (qsum (map (net2_sq_rem m dm t) (elems d)) / Qn (nelems d))).
Proof. exact net2_sq_error_gradient. Qed.
Print Assumptions C06_sq_error_gradient_two_layer.

(* ---- (a)-(c) the Section-polymorphic loss code over every ordered field with sqrt / exp / log ---- *)
Declare Scope AF_scope.
Section AnyOrderedField.
Variable A : Type.
Variables (zero one : A) (add sub mul div : A -> A -> A) (opp inv : A -> A) (ltb : A -> A -> bool).
Variables (expA logA sqrtA : A -> A) (ofnat : nat -> A).
Hypothesis OF : OrdFieldLaws zero one add sub mul div opp inv ltb.
Hypothesis NA : OfnatLaws zero one add ofnat.
Hypothesis SQ : SqrtLaws zero mul ltb sqrtA.
Hypothesis EL : ExpLogLaws zero add mul ltb expA logA.

Local Notation "0" := zero : AF_scope.
Local Notation "1" := one : AF_scope.
Local Infix "+" := add : AF_scope.
Local Infix "*" := mul : AF_scope.
Local Infix "-" := sub : AF_scope.
Local Infix "/" := div : AF_scope.
Local Notation "- x" := (opp x) : AF_scope.
Local Notation "a < b" := (lt ltb a b) : AF_scope.
Local Open Scope AF_scope.
Local Notation asum := (asum A zero add).
Local Notation adot := (adot A zero add mul).
Local Notation asub := (asub A sub).
Local Notation anormsq := (anormsq A zero add mul).
Local Notation avaxpy := (avaxpy A add mul).
Local Notation huberA_s := (huberA_s A zero one add sub mul div ltb sqrtA).
Local Notation huberA_g := (huberA_g A zero add sub mul div ltb sqrtA).
Local Notation huberA_eval := (huberA_eval A zero one add sub mul div ltb sqrtA).
Local Notation huberA_evald := (huberA_evald A zero one add sub mul div ltb sqrtA).
Local Notation absA_single := (absA_single A zero add sub mul sqrtA).
Local Notation absA_eval := (absA_eval A zero add sub mul sqrtA).
Local Notation ce_eval := (ce_eval A zero one add sub mul opp expA logA ltb ofnat).
Local Notation ce_evald := (ce_evald A zero one add sub mul div opp expA logA ltb ofnat).
Local Notation ce_batch_eval := (ce_batch_eval A zero one add sub mul opp expA logA ltb ofnat).
Local Notation ce_batch_evald := (ce_batch_evald A zero one add sub mul div opp expA logA ltb ofnat).
Local Notation cev_eval := (cev_eval A zero add sub mul expA logA ltb).
Local Notation cev_evald := (cev_evald A zero add sub mul div expA logA ltb).
Local Notation expsum := (expsum A zero add expA).
Local Notation softmax := (softmax A zero add div expA).
Local Notation sigmoid := (sigmoid A one add div opp expA).
Local Notation ylabel := (ylabel A one sub mul ofnat).
Local Notation cev_def := (cev_def A zero add sub mul expA logA).
Local Notation ahalf := (ahalf A one add div).

Theorem C06_huber_outer_gradient_any_field :
  forall delta l p v t, length p = length l -> length v = length l ->
    let n := anormsq (asub p l) in let n' := anormsq (asub (avaxpy t v p) l) in
    delta * delta < n -> delta * delta < n' ->
    huberA_s delta l (avaxpy t v p) - huberA_s delta l p
    = t * (adot (huberA_g delta l p) v
           + t * huberA_outer_rem A one add sub mul div delta (sqrtA n) (sqrtA n') (adot (asub p l) v) (anormsq v) t).
Proof. exact (huberA_outer_gradient A zero one add sub mul div opp inv ltb sqrtA OF SQ). Qed.

Theorem C06_huber_inner_gradient_any_field :
  forall delta l p v t, length p = length l -> length v = length l ->
    ltb (delta * delta) (anormsq (asub p l)) = false ->
    ltb (delta * delta) (anormsq (asub (avaxpy t v p) l)) = false ->
    huberA_s delta l (avaxpy t v p) - huberA_s delta l p
    = t * (adot (huberA_g delta l p) v + t * (ahalf * anormsq v)).
Proof. exact (huberA_inner_gradient A zero one add sub mul div opp inv ltb sqrtA OF). Qed.

Theorem C06_huber_generic_paths_and_batch :
  forall delta b,
    fst (huberA_evald delta b) = huberA_eval delta b /\
    huberA_eval delta b = asum (map (fun e => huberA_eval delta [e]) b) /\
    snd (huberA_evald delta b) = map (fun e => nth 0 (snd (huberA_evald delta [e])) []) b.
Proof.
  exact (fun delta b => conj (huberA_paths A zero one add sub mul div ltb sqrtA delta b)
                             (huberA_batch_is_sum A zero one add sub mul div opp inv ltb sqrtA OF delta b)).
Qed.

Theorem C06_absolute_loss_is_distance :
  forall l p, absA_single l p * absA_single l p = anormsq (asub p l) /\ ~ absA_single l p < 0.
Proof. exact (absA_is_distance A zero one add sub mul div opp inv ltb sqrtA OF SQ). Qed.

Theorem C06_absolute_loss_batch_is_sum :
  forall b, absA_eval b = asum (map (fun e => absA_eval [e]) b).
Proof. exact (absA_batch_is_sum A zero one add sub mul div opp inv ltb sqrtA OF). Qed.

Theorem C06_log_sum_exp_shift :
  forall p m, p <> [] -> logA (asum (map (fun x => expA (x - m)) p)) + m = logA (expsum p).
Proof. exact (lse_shift A zero one add sub mul div opp inv ltb expA logA OF EL). Qed.

Theorem C06_cross_entropy_multiclass_value :
  forall c p, (length p =? 1)%nat = false -> p <> [] ->
    ce_eval c p = logA (expsum p) - nth c p 0 /\
    ce_eval c p = - logA (expA (nth c p 0) / expsum p).
Proof.
  exact (fun c p Hd Hne => conj (ce_eval_multiclass A zero one add sub mul div opp inv ltb expA logA ofnat OF EL c p Hd Hne)
                                (ce_eval_is_neg_log_softmax A zero one add sub mul div opp inv ltb expA logA ofnat OF EL c p Hd Hne)).
Qed.

Theorem C06_cross_entropy_derivative_call_returns_eval_value :
  forall c p, fst (ce_evald c p) = ce_eval c p.
Proof. exact (ce_paths A zero one add sub mul div opp inv ltb expA logA ofnat OF). Qed.

Theorem C06_cross_entropy_gradient_is_softmax_minus_one_hot :
  forall c p j, (length p =? 1)%nat = false -> (j < length p)%nat ->
    nth j (snd (ce_evald c p)) 0 = expA (nth j p 0) / expsum p - (if (j =? c)%nat then 1 else 0).
Proof. exact (ce_grad_multiclass_coord A zero one add sub mul div opp inv ltb expA logA ofnat OF EL). Qed.

Theorem C06_cross_entropy_one_output_value :
  forall c x,
    (ltb (x * ylabel c) (- ofnat 200) = false -> ce_eval c [x] = logA (1 + expA (- ylabel c * x))) /\
    (ltb (x * ylabel c) (- ofnat 200) = true -> ce_eval c [x] = - (x * ylabel c)).
Proof.
  exact (fun c x => conj (ce_eval_binary A zero one add sub mul opp ltb expA logA ofnat c x)
                         (ce_eval_binary_cutoff A zero one add sub mul opp ltb expA logA ofnat c x)).
Qed.

Theorem C06_cross_entropy_one_output_gradient :
  forall c x, (c < 2)%nat -> snd (ce_evald c [x]) = [sigmoid x - ofnat c].
Proof. exact (ce_grad_binary A zero one add sub mul div opp inv ltb expA logA ofnat OF NA EL). Qed.

Theorem C06_cross_entropy_one_output_is_two_class :
  forall c x, (c < 2)%nat -> ltb (x * ylabel c) (- ofnat 200) = false -> ce_eval c [x] = ce_eval c [0; x].
Proof. exact (ce_binary_is_two_class A zero one add sub mul div opp inv ltb expA logA ofnat OF NA EL). Qed.

Theorem C06_cross_entropy_batch_is_sum :
  forall b,
    ce_batch_eval b = asum (map (fun e => ce_batch_eval [e]) b) /\
    fst (ce_batch_evald b) = asum (map (fun e => fst (ce_batch_evald [e])) b) /\
    snd (ce_batch_evald b) = map (fun e => nth 0 (snd (ce_batch_evald [e])) []) b /\
    fst (ce_batch_evald b) = ce_batch_eval b /\
    (forall e, ce_batch_eval [e] = ce_eval (fst e) (snd e)).
Proof. exact (ce_batch_is_sum A zero one add sub mul div opp inv ltb expA logA ofnat OF). Qed.

Theorem C06_cross_entropy_vector_labels_batch_is_sum :
  forall b,
    cev_eval b = asum (map (fun e => cev_eval [e]) b) /\
    fst (cev_evald b) = cev_eval b /\
    snd (cev_evald b) = map (fun e => nth 0 (snd (cev_evald [e])) []) b.
Proof. exact (cev_batch_is_sum A zero one add sub mul div opp inv ltb expA logA OF). Qed.

Theorem C06_cross_entropy_vector_labels_value :
  forall b, (forall e, In e b -> snd e <> []) ->
    cev_eval b = asum (map (fun e => cev_def (fst e) (snd e)) b).
Proof. exact (cev_eval_is_definition A zero one add sub mul div opp inv ltb expA logA OF EL). Qed.

Theorem C06_cross_entropy_vector_labels_is_cross_entropy :
  forall t p, p <> [] -> length t = length p -> asum t = 1 ->
    cev_def t p = - asum (amap2 A (fun tj pj => tj * logA (expA pj / expsum p)) t p).
Proof. exact (cev_def_is_cross_entropy A zero one add sub mul div opp inv ltb expA logA OF EL). Qed.

Theorem C06_cross_entropy_vector_labels_gradient :
  forall b i, (i < length b)%nat -> snd (nth i b ([], [])) <> [] ->
    nth i (snd (cev_evald b)) [] = amap2 A sub (softmax (snd (nth i b ([], [])))) (fst (nth i b ([], []))).
Proof. exact (cev_grad A zero one add sub mul div opp inv ltb expA logA OF EL). Qed.
End AnyOrderedField.
Print Assumptions C06_huber_outer_gradient_any_field.
Print Assumptions C06_huber_inner_gradient_any_field.
Print Assumptions C06_huber_generic_paths_and_batch.
Print Assumptions C06_absolute_loss_is_distance.
Print Assumptions C06_absolute_loss_batch_is_sum.
Print Assumptions C06_log_sum_exp_shift.
Print Assumptions C06_cross_entropy_multiclass_value.
Print Assumptions C06_cross_entropy_derivative_call_returns_eval_value.
Print Assumptions C06_cross_entropy_gradient_is_softmax_minus_one_hot.
Print Assumptions C06_cross_entropy_one_output_value.
Print Assumptions C06_cross_entropy_one_output_gradient.
Print Assumptions C06_cross_entropy_one_output_is_two_class.
Print Assumptions C06_cross_entropy_batch_is_sum.
Print Assumptions C06_cross_entropy_vector_labels_batch_is_sum.
Print Assumptions C06_cross_entropy_vector_labels_value.
Print Assumptions C06_cross_entropy_vector_labels_is_cross_entropy.
Print Assumptions C06_cross_entropy_vector_labels_gradient.

(* ================================ third round ================================ *)
(* ---- NegativeAUC (NegativeAUC.h as coded: sort, sweep, closing trapezoid, invert flag, normalisation) ---- *)
(* the sweep over ANY arrangement std::sort may leave (a permutation of the list that is non-increasing in the score; the order
   among equal scores is free) = pair counting with ties counted one half, divided by P N *)
Theorem C06_auc_sweep_any_sorted_permutation :
  forall P N L L', (0 < P)%nat -> (0 < N)%nat -> Permutation L L' -> StronglySorted key_ge L' ->
    auc_sweep P N L' == pair_count L / (Qn P * Qn N).
Proof. exact auc_sweep_any_sorted_permutation. Qed.
Print Assumptions C06_auc_sweep_any_sorted_permutation.

Theorem C06_auc_pair_count_cardinalities :
  forall L, pair_count L == Qn (n_wins L) + (1 # 2) * Qn (n_ties L) /\
            (n_wins L + n_ties L + n_losses L = length (pos_scores L) * length (neg_scores L))%nat.
Proof. exact (fun L => conj (pair_count_cardinalities L) (pair_trichotomy L)). Qed.
Print Assumptions C06_auc_pair_count_cardinalities.

(* NegativeAUC::eval, every outcome: exception on the empty data set, NaN when a class is absent (0.0/0.0 in the code), otherwise
   -(#{(p,n): s_p > s_n} + 1/2 #{(p,n): s_p = s_n}) / (#pos * #neg) on the (possibly negated) scores *)
Theorem C06_negative_auc_is_pair_counting :
  forall inv (d : @data (nat * Q)),
    let es := elems d in
    (es = [] -> nauc_eval inv d = AucExc) /\
    (es <> [] -> (auc_P es = 0 \/ auc_N es = 0)%nat -> nauc_eval inv d = AucNaN) /\
    (es <> [] -> (0 < auc_P es)%nat -> (0 < auc_N es)%nat ->
       exists a, nauc_eval inv d = AucVal a /\
                 a == - (pair_count (auc_list inv es) / (Qn (auc_P es) * Qn (auc_N es)))).
Proof. exact nauc_eval_spec. Qed.
Print Assumptions C06_negative_auc_is_pair_counting.

Theorem C06_negative_auc_value :
  forall inv (d : @data (nat * Q)) a, nauc_eval inv d = AucVal a ->
    let L := auc_list inv (elems d) in
    (0 < auc_P (elems d))%nat /\ (0 < auc_N (elems d))%nat /\
    a == - ((Qn (n_wins L) + (1 # 2) * Qn (n_ties L)) / (Qn (auc_P (elems d)) * Qn (auc_N (elems d)))).
Proof. exact nauc_eval_pair_counting. Qed.
Print Assumptions C06_negative_auc_value.

(* independent of the batch partition, and of the order of the elements altogether *)
Theorem C06_negative_auc_batching_invariant :
  forall inv (d1 d2 : @data (nat * Q)),
    (elems d1 = elems d2 -> nauc_eval inv d1 = nauc_eval inv d2) /\
    (Permutation (elems d1) (elems d2) -> aucres_eq (nauc_eval inv d1) (nauc_eval inv d2)).
Proof. exact (fun inv d1 d2 => conj (nauc_eval_batching_invariant inv d1 d2) (nauc_eval_order_invariant inv d1 d2)). Qed.
Print Assumptions C06_negative_auc_batching_invariant.

(* the entry point on vector-valued predictions: exceptions for the empty set and for more than two columns, otherwise the
   one-column function on the last column; independent of the batch partition *)
Theorem C06_negative_auc_vector_predictions :
  forall inv (d : @data (nat * vec)),
    match elems d with
    | [] => nauc_eval_vec inv d = AucExc
    | e0 :: _ =>
      let dim := length (snd e0) in
      ((3 <= dim)%nat -> nauc_eval_vec inv d = AucExc) /\
      ((dim < 3)%nat -> nauc_eval_vec inv d = nauc_eval inv [map (fun e => (fst e, nth (dim - 1) (snd e) 0)) (elems d)])
    end.
Proof. exact nauc_eval_vec_spec. Qed.
Print Assumptions C06_negative_auc_vector_predictions.

Theorem C06_negative_auc_vector_predictions_batching_invariant :
  forall inv (d1 d2 : @data (nat * vec)), elems d1 = elems d2 -> nauc_eval_vec inv d1 = nauc_eval_vec inv d2.
Proof. exact nauc_eval_vec_batching_invariant. Qed.
Print Assumptions C06_negative_auc_vector_predictions_batching_invariant.

(* invert = true (scores negated) is the AUC with the roles of the classes exchanged: AUC_inverted = 1 - AUC *)
Theorem C06_negative_auc_invert :
  forall (d : @data (nat * Q)) a b, nauc_eval false d = AucVal a -> nauc_eval true d = AucVal b -> b == - (1) - a.
Proof. exact nauc_eval_invert. Qed.
Print Assumptions C06_negative_auc_invert.

(* ---- SquaredLoss<Sequence,Sequence>(ignore) as coded ---- *)
(* eval and evalDerivative: the same outcome (both throw, or both return), the same value; the content of the caller's gradient
   object is irrelevant (every sequence is cleared before it is filled) *)
Theorem C06_sequence_loss_derivative_call_returns_eval_value :
  forall ignore old b,
    match seq_eval ignore b, seq_evald ignore old b with
    | Some v, Some (dv, g) => dv == v /\ seq_evald ignore [] b = Some (dv, g) /\ g = seq_grads ignore b
    | None, None => True
    | _, _ => False
    end.
Proof. exact seq_paths. Qed.
Print Assumptions C06_sequence_loss_derivative_call_returns_eval_value.

Theorem C06_sequence_loss_exception :
  forall ignore old b,
    (seq_ok ignore b = false <-> exists e, In e b /\ (length (fst e) <= ignore)%nat) /\
    (seq_ok ignore b = false -> seq_eval ignore b = None /\ seq_evald ignore old b = None) /\
    (seq_ok ignore b = true -> seq_eval ignore b = Some (seq_val ignore b)).
Proof. exact (fun ignore old b => conj (proj1 (seq_exception ignore old b)) (conj (proj2 (seq_exception ignore old b)) (seq_eval_ok ignore b))). Qed.
Print Assumptions C06_sequence_loss_exception.

Theorem C06_sequence_loss_batch_is_sum :
  forall ignore b,
    seq_val ignore b == qsum (map (fun e => seq_val ignore [e]) b) /\
    seq_grads ignore b = map (fun e => nth 0 (seq_grads ignore [e]) []) b /\
    seq_ok ignore b = forallb (fun e => seq_ok ignore [e]) b.
Proof. exact seq_batch_is_sum. Qed.
Print Assumptions C06_sequence_loss_batch_is_sum.

(* gradient = derivative of the value w.r.t. the predictions: exact expansion along any direction V of the shape of the
   predictions; the remainder only sees the counted part of V *)
Theorem C06_sequence_loss_gradient :
  forall ignore old t V b v0 dv G v1, batch_shape V b ->
    seq_eval ignore b = Some v0 -> seq_evald ignore old b = Some (dv, G) -> seq_eval ignore (batch_axpy t V b) = Some v1 ->
    dv == v0 /\ v1 - v0 == t * (batch_dot G V + t * ((1 # 2) * batch_cnorm ignore V)).
Proof. exact seq_gradient_calls. Qed.
Print Assumptions C06_sequence_loss_gradient.

(* the ignored prefix: the value does not look at it, the gradient is zero there and has the shape of the predictions *)
Theorem C06_sequence_loss_ignored_prefix :
  forall ignore l p,
    (forall p', skipn ignore p = skipn ignore p' -> seq1_sum ignore l p = seq1_sum ignore l p') /\
    (forall j, (j < ignore)%nat -> (j < length p)%nat -> nth j (seq1_grad ignore [] l p) [] = map (fun _ => 0) (nth j p [])) /\
    (length p = length l -> length (seq1_grad ignore [] l p) = length l).
Proof.
  exact (fun ignore l p => conj (seq_ignored_prefix ignore l p)
                                (conj (fun j => seq_grad_ignored_zero ignore l p j) (seq_grad_shape ignore l p))).
Qed.
Print Assumptions C06_sequence_loss_ignored_prefix.

(* ---- NegativeLogLikelihood as coded, for every function lg in the role of the logarithm ---- *)
(* eval: minus the mean of lg(max(p(x), minProb)) over the elements, for every batching and arrival order of the per-batch sums;
   evalDerivative: the same value and minus the mean of weightedParameterDerivative(x, 1/p(x)) (coefficient 0 below minProb), for
   every thread count >= 1, batching and arrival order of the thread results; hypothesis: weightedParameterDerivative is a sum over
   the batch (C04 contract; holds for the linear model of the tie, C06_nll_linear_model_instance) *)
Theorem C06_negative_log_likelihood_is_mean :
  forall (lg : Q -> Q) (minProb : Q) (peval : vec -> Q) (pwpd : list (vec * vec) -> vec),
    (forall xg, veq (pwpd xg) (vsum (map (fun p => pwpd [p]) xg))) ->
    forall threads (d : @data vec) arrived_eval arrived, (1 <= threads)%nat ->
      Permutation arrived_eval (map (nll_bq_eval lg minProb peval) d) ->
      Permutation arrived (partials (nll_bq lg minProb peval pwpd) (thread_ranges threads (length d)) d) ->
      nll_eval_arrived arrived_eval d == - (qsum (map (nll_ll lg minProb peval) (elems d)) / Qn (nelems d)) /\
      nth 0 (nll_evald_arrived arrived d) 0 == - (qsum (map (nll_ll lg minProb peval) (elems d)) / Qn (nelems d)) /\
      forall j, nth (S j) (nll_evald_arrived arrived d) 0
                == - (qsum (map (fun x => nth j (pwpd [(x, [nll_coeff minProb peval x])]) 0) (elems d)) / Qn (nelems d)).
Proof.
  exact (fun lg minProb peval pwpd Hs threads d ae a HT He Ha =>
           conj (nll_value lg minProb peval d ae He) (nll_evald_mean lg minProb peval pwpd Hs threads d a HT Ha)).
Qed.
Print Assumptions C06_negative_log_likelihood_is_mean.

Theorem C06_negative_log_likelihood_batching_invariant :
  forall (lg : Q -> Q) (minProb : Q) (peval : vec -> Q) (pwpd : list (vec * vec) -> vec),
    (forall xg, veq (pwpd xg) (vsum (map (fun p => pwpd [p]) xg))) ->
    forall t1 t2 (d1 d2 : @data vec), (1 <= t1)%nat -> (1 <= t2)%nat -> elems d1 = elems d2 ->
      nth 0 (nll_evald lg minProb peval pwpd t1 d1) 0 == nll_eval lg minProb peval d1 /\
      nll_eval lg minProb peval d1 == nll_eval lg minProb peval d2 /\
      veq (nll_evald lg minProb peval pwpd t1 d1) (nll_evald lg minProb peval pwpd t2 d2).
Proof.
  exact (fun lg minProb peval pwpd Hs t1 t2 d1 d2 H1 H2 He =>
           conj (nll_paths lg minProb peval pwpd Hs t1 d1 H1) (nll_batching_invariant lg minProb peval pwpd Hs t1 t2 d1 d2 H1 H2 He)).
Qed.
Print Assumptions C06_negative_log_likelihood_batching_invariant.

Theorem C06_nll_linear_model_instance : forall xg, veq (lin_wpd xg) (vsum (map (fun p => lin_wpd [p]) xg)).
Proof. exact nll_linear_model_instance. Qed.
Print Assumptions C06_nll_linear_model_instance.

(* ---- cross-entropy: the coded gradient is the derivative of the coded value in the analytic sense (over R, exp / ln) ---- *)
(* The polymorphic cross-entropy code of C06Model.v read over the reals (Rce_eval := ce_eval R 0 1 Rplus ... exp ln ...).
   is_derive is Coquelicot's derivative predicate, equivalent to derivable_pt_lim of the standard library. *)
Section RealDerivatives.
Import Coquelicot.Coquelicot.
(* inside this section Coquelicot's tuple notation hides the list notation [x]: lists are written with :: and nil *)
Local Open Scope R_scope.

(* multi-class, unsigned-int labels, along EVERY direction v and at every point of the line:
   d/dt ce_eval c (p + t v) = < gradient returned by the derivative call at p + t v , v > *)
Theorem C06_cross_entropy_gradient_is_directional_derivative :
  forall c p v t0, (length p =? 1)%nat = false -> p <> nil -> length v = length p ->
    is_derive (fun t => Rce_eval c (Raxpy t v p)) t0 (Rdot (snd (Rce_evald c (Raxpy t0 v p))) v).
Proof. exact Rce_directional_derivative. Qed.

(* every partial derivative: the coded component softmax_j(p) - [j = c] is the derivative of  p |-> ln(sum_k exp p_k) - p_c
   with respect to p_j (stated for the coded functions, for the written-out value, and with derivable_pt_lim) *)
Theorem C06_cross_entropy_gradient_is_partial_derivative :
  forall c p j, (length p =? 1)%nat = false -> (j < length p)%nat ->
    is_derive (fun x => Rce_eval c (upd j x p)) (nth j p 0) (nth j (snd (Rce_evald c p)) 0) /\
    is_derive (fun x => ln (Rexpsum (upd j x p)) - nth c (upd j x p) 0) (nth j p 0)
              (exp (nth j p 0) / Rexpsum p - (if (j =? c)%nat then 1 else 0)) /\
    derivable_pt_lim (fun x => Rce_eval c (upd j x p)) (nth j p 0) (nth j (snd (Rce_evald c p)) 0).
Proof.
  exact (fun c p j Hd Hj => conj (Rce_partial_derivative c p j Hd Hj)
                                 (conj (Rce_partial_derivative_explicit c p j Hd Hj) (Rce_partial_derivative_Reals c p j Hd Hj))).
Qed.

(* one output: sigmoid(x) - c is the derivative of the coded value at every x strictly above the coded cut-off (below it the
   code returns the asymptote -y x, whose slope -y differs from sigmoid(x) - c by less than exp(-200)) *)
Theorem C06_cross_entropy_one_output_gradient_is_derivative :
  forall c x0, (c < 2)%nat -> -200 < x0 * Rylabel c ->
    is_derive (fun x => Rce_eval c (x :: nil)) x0 (nth 0 (snd (Rce_evald c (x0 :: nil))) 0) /\
    nth 0 (snd (Rce_evald c (x0 :: nil))) 0 = Rsigmoid x0 - INR c.
Proof. exact Rce_one_output_derivative. Qed.

(* probability-vector labels (one row; a batch is the sum of its rows): directional and partial derivatives *)
Theorem C06_cross_entropy_vector_labels_gradient_is_derivative :
  forall tl p, length tl = length p ->
    (forall v s0, p <> nil -> length v = length p ->
       is_derive (fun s => Rcev_eval ((tl, Raxpy s v p) :: nil)) s0 (Rdot (nth 0 (snd (Rcev_evald ((tl, Raxpy s0 v p) :: nil))) nil) v)) /\
    (forall j, (j < length p)%nat ->
       is_derive (fun x => Rcev_eval ((tl, upd j x p) :: nil)) (nth j p 0) (nth j (nth 0 (snd (Rcev_evald ((tl, p) :: nil))) nil) 0) /\
       nth j (nth 0 (snd (Rcev_evald ((tl, p) :: nil))) nil) 0 = exp (nth j p 0) / Rexpsum p - nth j tl 0).
Proof.
  exact (fun tl p Ht => conj (fun v s0 Hne Hv => Rcev_directional_derivative tl p v s0 Hne Hv Ht)
                             (fun j Hj => Rcev_partial_derivative tl p j Ht Hj)).
Qed.

(* HuberLoss over R with sqrt: along every direction, at every prediction whose distance from the label is not exactly delta, the
   coded gradient is the derivative of the coded value (inside the ball: p - l; outside: delta/|p - l| (p - l)) *)
Theorem C06_huber_gradient_is_directional_derivative :
  forall delta l p v, length p = length l -> length v = length l ->
    Rnormsq (Rsub p l) <> delta * delta ->
    is_derive (fun t => Rhuber_s delta l (Raxpy t v p)) 0 (Rdot (Rhuber_g delta l p) v).
Proof. exact Rhuber_directional_derivative. Qed.
End RealDerivatives.
Print Assumptions C06_cross_entropy_gradient_is_directional_derivative.
Print Assumptions C06_cross_entropy_gradient_is_partial_derivative.
Print Assumptions C06_cross_entropy_one_output_gradient_is_derivative.
Print Assumptions C06_cross_entropy_vector_labels_gradient_is_derivative.
Print Assumptions C06_huber_gradient_is_directional_derivative.

(* ---- the hypotheses are satisfiable ---- *)
Example ex_ranges : thread_ranges 3 7 = [(0, 3); (3, 5); (5, 7)]%nat.
Proof. reflexivity. Qed.
Example ex_ranges_more_threads_than_batches : thread_ranges 16 2 = [(0, 1); (1, 2)]%nat.
Proof. reflexivity. Qed.

Definition ex_m : linmodel := {| lW := [[1; 2]; [0; -(1)]]; lb := [1#2; 0] |}.
Definition ex_dm : linmodel := {| lW := [[1; 0]; [3; 1]]; lb := [0; 1] |}.
Definition ex_e : elem := ([1; 1], (0%nat, [2; 2])).
Example ex_wf : lin_wf 2 2 ex_m /\ lin_wf 2 2 ex_dm.
Proof.
  split; (split; [reflexivity|]; split; [reflexivity|]);
  intros row [<-|[<-|[]]]; reflexivity.
Qed.
Example ex_expansion : elem_expansion LSq 2 2 ex_m ex_dm (1#4) (fun e => (1#2) * normsq (lin_eval ex_dm (fst e))) ex_e.
Proof. apply sq_elem_expansion; try reflexivity; apply ex_wf. Qed.
Example ex_same_side : same_side (1#2) [1; -(3); 0] [-(1); 2; 0] /\ nonneg [1; 0; 2].
Proof. cbn. repeat split; try (left; split; reflexivity); try (right; left; split; reflexivity);
       try (right; right; split; reflexivity); discriminate. Qed.
Example ex_hinge_side : 0 < 1 - ylab 1 * (1#2) /\ 0 < 1 - ylab 1 * ((1#2) + (1#4)).
Proof. split; reflexivity. Qed.
Example ex_hinge_mc_side : forall o, In o (others 0 3) -> hinge_mc_same_side 0 [1; 0; 4] [1; 1; -(1)] (1#2) o.
Proof.
  intros o [<-|[<-|[]]]; unfold hinge_mc_same_side; cbn; [left | left]; split; reflexivity.
Qed.
Example ex_eval : map Qred (ef_evald LSq ex_m 2 [[ex_e]; [ex_e]]) = map Qred (ef_evald LSq ex_m 1 [[ex_e; ex_e]]).
Proof. vm_compute. reflexivity. Qed.

(* ---- second round: the hypotheses are satisfiable ---- *)
Example ex_huber_outer :
  let n := normsq (vsub [3; 4] [0; 0]) in let n' := normsq (vsub (vaxpy 1 [3; 4] [3; 4]) [0; 0]) in
  1 * 1 < n /\ 1 * 1 < n' /\ qsqrt n * qsqrt n == n /\ qsqrt n' * qsqrt n' == n'.
Proof. vm_compute. repeat split. Qed.

Definition ex_zd : @data (nat * vec) := [[(1%nat, [1]); (0%nat, [2])]; [(1%nat, [-(1)])]].
Example ex_zow_value : zow_eval 0 ex_zd [2; 2; 2] == 2 # 3.
Proof. vm_compute. reflexivity. Qed.
Example ex_zow_equal_weights_hyps : ~ 2 == 0 /\ length [2; 2; 2] = nelems ex_zd /\ forall x, In x [2; 2; 2] -> x == 2.
Proof.
  split; [discriminate|]. split; [reflexivity|]. intros x [<-|[<-|[<-|[]]]]; reflexivity.
Qed.

Example ex_gen_expansion :
  gen_elem_expansion (lin_eval ex_m) (lin_eval (madd (1#4) ex_dm ex_m)) lin_wpd 2 LSq (lin_params ex_dm) (1#4)
                     (fun e => (1#2) * normsq (lin_eval ex_dm (fst e))) ex_e.
Proof. apply (lin_instance_of_generic LSq 2 2 ex_m ex_dm); [apply ex_wf | apply ex_wf | apply ex_expansion]. Qed.

Definition ex_net : net2 := {| n1 := {| lW := [[1; 2]]; lb := [1#2] |}; n2 := {| lW := [[1]; [-(2)]]; lb := [0; 1] |} |}.
Definition ex_dnet : net2 := {| n1 := {| lW := [[0; 1]]; lb := [1] |}; n2 := {| lW := [[3]; [1#2]]; lb := [1; 0] |} |}.
Example ex_net_wf : net2_wf 2 1 2 ex_net /\ net2_wf 2 1 2 ex_dnet /\ sq_shapes 2 2 [[ex_e]; [ex_e]].
Proof.
  split; [|split].
  - split; (split; [reflexivity|]; split; [reflexivity|]); intros row H; simpl in H; intuition (subst; reflexivity).
  - split; (split; [reflexivity|]; split; [reflexivity|]); intros row H; simpl in H; intuition (subst; reflexivity).
  - intros e H. simpl in H. intuition (subst; split; reflexivity).
Qed.
(* the two-layer gradient theorem on these data, evaluated: both sides are the same rational number *)
Example ex_net_gradient_check :
  Qred (nth 0 (net2_ef_eval LSq (net2_madd (1#2) ex_dnet ex_net) 2 [[ex_e]; [ex_e]]) 0 - nth 0 (net2_ef_eval LSq ex_net 2 [[ex_e]; [ex_e]]) 0)
  = Qred ((1#2) * (pdot (tl (net2_ef_evald LSq ex_net 2 [[ex_e]; [ex_e]])) (net2_params ex_dnet)
                   + (1#2) * (qsum (map (net2_sq_rem ex_net ex_dnet (1#2)) (elems [[ex_e]; [ex_e]])) / Qn (nelems [[ex_e]; [ex_e]])))).
Proof. vm_compute. reflexivity. Qed.

(* the laws of an ordered field with sqrt / exp / log are satisfiable: the reals (standard-library axioms) *)
Example ex_laws_satisfiable :
  OrdFieldLaws 0%R 1%R Rplus Rminus Rmult Rdiv Ropp Rinv Rltb /\ OfnatLaws 0%R 1%R Rplus INR /\
  SqrtLaws 0%R Rmult Rltb sqrt /\ ExpLogLaws 0%R Rplus Rmult Rltb exp ln.
Proof. exact (conj R_ordered_field (conj R_ofnat (conj R_sqrt R_explog))). Qed.
Print Assumptions ex_laws_satisfiable.
Example ex_side_conditions_satisfiable :
  (lt Rltb (1 * 1)%R (anormsq R 0%R Rplus Rmult (asub R Rminus [3; 4] [0; 0])%R) /\
   lt Rltb (1 * 1)%R (anormsq R 0%R Rplus Rmult (asub R Rminus (avaxpy R Rplus Rmult 1 [1; 0] [3; 4]) [0; 0])%R)) /\
  Rltb (1 * ylabel R 1%R Rminus Rmult INR 1) (- INR 200)%R = false.
Proof. exact (conj R_huber_outer_side_conditions R_ce_no_cutoff). Qed.

(* ---- third round: the hypotheses are satisfiable ---- *)
(* two positives (scores 1, 1/2), two negatives (1, 0), one tie: -(2 + 1/2)/4 = -5/8; the two batches and the two arrangements
   of the tied pair give the same value; inverted: -1 + 5/8 *)
Definition ex_auc_d : @data (nat * Q) := [[(1%nat, 1); (0%nat, 1)]; [(2%nat, 1 # 2); (0%nat, 0)]].
Example ex_auc_eval : match nauc_eval false ex_auc_d, nauc_eval true ex_auc_d with
                      | AucVal a, AucVal b => Qred a = (-5 # 8) /\ Qred b = (-3 # 8) | _, _ => False end.
Proof. vm_compute. split; reflexivity. Qed.
Example ex_auc_sorted_hyps :
  let L := auc_list false (elems ex_auc_d) in
  let L' := [(1, 1%nat); (1, 0%nat); (1 # 2, 2%nat); (0, 0%nat)] in
  let L'' := [(1, 0%nat); (1, 1%nat); (1 # 2, 2%nat); (0, 0%nat)] in
  Permutation L L' /\ StronglySorted key_ge L' /\ Permutation L L'' /\ StronglySorted key_ge L'' /\ (0 < 2)%nat.
Proof.
  cbv zeta. split; [apply Permutation_refl|]. split.
  - repeat constructor; unfold key_ge; simpl; discriminate.
  - split; [apply perm_swap|]. split; [|lia]. repeat constructor; unfold key_ge; simpl; discriminate.
Qed.
Example ex_auc_outcomes : nauc_eval false [[]; []] = AucExc /\ nauc_eval true [[(1%nat, 3)]; [(1%nat, 0)]] = AucNaN /\ nauc_eval false [[(0%nat, 3)]] = AucNaN.
Proof. repeat split. Qed.

(* two sequences of lengths 2 and 3 of 1-d elements, ignore = 1, a direction of the same shape, a reused gradient object *)
Definition ex_seq_b : list (sequence * sequence) := [([[1]; [2]], [[0]; [1 # 2]]); ([[0]; [0]; [1]], [[5]; [1]; [3]])].
Definition ex_seq_V : list sequence := [[[1]; [1]]; [[2]; [0]; [-(1)]]].
Example ex_seq_shape : batch_shape ex_seq_V ex_seq_b /\ seq_ok 1 ex_seq_b = true /\ seq_ok 2 ex_seq_b = false.
Proof. simpl. repeat split. Qed.
Example ex_seq_calls :
  match seq_eval 1 ex_seq_b, seq_evald 1 [[[7]]; [[7]; [7]; [7]; [7]]; [[7]]] ex_seq_b, seq_eval 1 (batch_axpy (1 # 2) ex_seq_V ex_seq_b) with
  | Some v0, Some (dv, G), Some v1 =>
    Qred v0 = 29 # 8 /\ Qred dv = 29 # 8 /\ G = [[[0]; [-3 # 2]]; [[0]; [1]; [2]]] /\
    Qred (v1 - v0) = Qred ((1 # 2) * (batch_dot G ex_seq_V + (1 # 2) * ((1 # 2) * batch_cnorm 1 ex_seq_V)))
  | _, _, _ => False
  end.
Proof. vm_compute. repeat split. Qed.

(* the side conditions of the real-number theorems are satisfiable: three logits, a direction, label 1 above the cut-off *)
Example ex_real_side_conditions :
  ((length [1; 0; -(2)]%R =? 1)%nat = false /\ [1; 0; -(2)]%R <> [] /\ length [1; 1; 0]%R = length [1; 0; -(2)]%R) /\
  ((1 < 2)%nat /\ (-200 < 3 * Rylabel 1)%R).
Proof.
  split; [repeat split; discriminate|]. split; [lia|]. unfold Rylabel, C06FieldProofs.ylabel. simpl. Lra.lra.
Qed.

(* ---- FOURTH ROUND: calling context -- which thread executes which batch range (C06Ctx.v / C06CtxProofs.v) ---- *)
From SharkV Require Import C06Ctx C06CtxProofs.

(* as coded (shared sum inside the critical region): for every assignment a of ranges to threads -- the identity (call from serial
   code), the constant function (call from inside a parallel region: the inner team is one thread), anything else -- and every
   arrival order, value and derivative are the mean per-element loss *)
Theorem C06_calling_context_is_mean_loss :
  forall (E : Type) (bq : list E -> vec), (forall b, veq (bq b) (vsum (map (fun e => bq [e]) b))) ->
  forall threads (d : @data E) (a : nat -> nat) order, (1 <= threads)%nat ->
    Permutation order (seq 0 (length (thread_ranges threads (length d)))) ->
    veq (errfn_ctx bq a order threads d) (mean_loss bq (elems d)).
Proof. exact (@ctx_is_mean_loss). Qed.
Print Assumptions C06_calling_context_is_mean_loss.

Theorem C06_calling_context_assignment_irrelevant :
  forall (E : Type) (bq : list E -> vec), (forall b, veq (bq b) (vsum (map (fun e => bq [e]) b))) ->
  forall threads (d : @data E) (a a' : nat -> nat) order order', (1 <= threads)%nat ->
    Permutation order (seq 0 (length (thread_ranges threads (length d)))) ->
    Permutation order' (seq 0 (length (thread_ranges threads (length d)))) ->
    veq (errfn_ctx bq a order threads d) (errfn_ctx bq a' order' threads d).
Proof. exact (@ctx_assignment_irrelevant). Qed.
Print Assumptions C06_calling_context_assignment_irrelevant.

(* the call from inside a parallel region of k threads computes literally what the call from serial code with k threads computes,
   and agrees with every other thread count and batching of the same elements *)
Theorem C06_nested_call_is_toplevel_computation :
  forall (E : Type) (bq : list E -> vec) threads (d : @data E), errfn_nested bq threads d = errfn bq threads d.
Proof. exact (@errfn_nested_eq). Qed.
Print Assumptions C06_nested_call_is_toplevel_computation.

Theorem C06_nested_call_invariant :
  forall (E : Type) (bq : list E -> vec), (forall b, veq (bq b) (vsum (map (fun e => bq [e]) b))) ->
  forall k t (d1 d2 : @data E), (1 <= k)%nat -> (1 <= t)%nat -> elems d1 = elems d2 ->
    veq (errfn_nested bq k d1) (errfn bq t d2).
Proof. exact (@nested_call_invariant). Qed.
Print Assumptions C06_nested_call_invariant.

(* per-thread slots (slot[thread] := partial, summed afterwards; the seeded change C06-8) are NOT independent of the assignment:
   right with every range on its own thread, wrong for the nested call, while the coded shared sum agrees on the same events *)
Theorem C06_per_thread_slots_refuted :
  exists (bq : list Q -> vec) (d : @data Q) (threads : nat) (a a' : nat -> nat) (order : list nat),
    (forall b, veq (bq b) (vsum (map (fun e => bq [e]) b))) /\ (1 <= threads)%nat /\
    Permutation order (seq 0 (length (thread_ranges threads (length d)))) /\
    veq (errfn_slots bq a order threads d) (mean_loss bq (elems d)) /\
    ~ veq (errfn_slots bq a' order threads d) (mean_loss bq (elems d)) /\
    ~ veq (errfn_slots bq a order threads d) (errfn_slots bq a' order threads d) /\
    veq (errfn_ctx bq a order threads d) (errfn_ctx bq a' order threads d).
Proof. exact slot_variant_refuted. Qed.
Print Assumptions C06_per_thread_slots_refuted.

(* ... and they are right in the one situation the repository's tests exercise: the call from serial code, range i on thread i *)
Theorem C06_per_thread_slots_right_from_serial_code :
  forall (E : Type) (bq : list E -> vec) threads (d : @data E),
    veq (errfn_slots bq (fun i => i) (nested_order threads d) threads d) (errfn bq threads d).
Proof. exact (@slots_toplevel_ok). Qed.
Print Assumptions C06_per_thread_slots_right_from_serial_code.
