(* C13 — 3-D contributions, part 5: the loop of allContributions, the final closing of the boxes, and the theorem
   contribs3d = contrib_spec on mutually non-dominated sets below the reference point. *)
From Coq Require Import List ZArith Lia Bool Arith Permutation Sorted.
From SharkV Require Import ListAux C13Model C13Proofs C13ProofsContrib C13HsspFrontProofs C13WfgProofs.
From SharkV Require Import C13ContribMd C13ContribMdProofs C13Contrib3d C13Contrib3dBoxProofs C13Contrib3dSpecProofs
  C13Contrib3dStepProofs C13Contrib3dInvProofs.
Import ListNotations.
Local Open Scope Z_scope.

Lemma nth_repeat_any {A} (x d : A) m : forall i, nth i (repeat x m) d = x \/ nth i (repeat x m) d = d.
Proof. induction m as [|m IH]; intros [|i]; cbn; auto. Qed.

Lemma nth_repeat_in {A} (x d : A) m : forall i, (i < m)%nat -> nth i (repeat x m) d = x.
Proof. induction m as [|m IH]; intros [|i] H; cbn; auto; try lia. apply IH. lia. Qed.

Lemma zsum_nil lo f : zsum lo lo f = 0.
Proof. apply zsum_empty. lia. Qed.

Lemma nth_skipn3 {A} (l : list A) d : forall j k, nth k (skipn j l) d = nth (j + k) l d.
Proof. induction l as [|x l IH]; intros [|j] k; cbn [skipn nth Nat.add]; auto; destruct k; auto. Qed.

Section Loop.
Variable pts : list P3.
Variables c0 b0 a0 ninf : Z.
Local Notation n := (length pts).
Hypothesis Hsorted : forall i j, (i <= j < n)%nat -> f3 (nth i pts d0) <= f3 (nth j pts d0).
Hypothesis Hbox : forall a, In a pts -> (c0 <= f1 a <= 0) /\ (b0 <= f2 a <= 0) /\ (a0 <= f3 a <= 0).
Hypothesis Hninf : forall a, In a pts -> ninf < f1 a /\ ninf < f2 a.
Hypothesis Ha0 : a0 <= 0.
Hypothesis HND : forall i j, (i < n)%nat -> (j < n)%nat ->
  f1 (nth i pts d0) <= f1 (nth j pts d0) -> f2 (nth i pts d0) <= f2 (nth j pts d0) ->
  f3 (nth i pts d0) <= f3 (nth j pts d0) ->
  f1 (nth i pts d0) = f1 (nth j pts d0) /\ f2 (nth i pts d0) = f2 (nth j pts d0).

Local Notation GInv := (GInv pts c0 b0 ninf).
Local Notation EV := (EV c0 b0 a0 pts).
Local Notation area2 := (area2 c0 b0).

(* the height reached after j points *)
Definition zlev (j : nat) : Z := match j with O => a0 | S j' => f3 (nth j' pts d0) end.

Definition VInv (st : st3) (F Z0 : list P3) (z : Z) : Prop :=
  forall k, (k < n)%nat ->
    nth k (contr st) 0 + (if inF (F ++ Z0) k then val (nth k (boxes st) []) z else 0) = EV k z.

Lemma zlev_bounds j : (j <= n)%nat -> a0 <= zlev j <= 0.
Proof.
  intros Hj. destruct j as [|j]; cbn [zlev]; [lia|].
  destruct (Hbox _ (nth_In pts d0 (ltac:(lia) : (j < n)%nat))) as (_ & _ & H). lia.
Qed.

Lemma zlev_mono j : (j < n)%nat -> zlev j <= zlev (S j).
Proof.
  intros Hj. destruct j as [|j]; cbn [zlev].
  - destruct (Hbox _ (nth_In pts d0 Hj)) as (_ & _ & H). lia.
  - apply Hsorted. lia.
Qed.

Lemma firstn_below j a : (j <= n)%nat -> In a (firstn j pts) -> f3 a <= zlev j.
Proof.
  intros Hj Ha. destruct (In_nth _ _ d0 Ha) as [k [Hk Ek]]. rewrite firstn_length in Hk.
  rewrite nth_firstn_lt3 in Ek by lia. subst a. destruct j as [|j]; [lia|]. cbn [zlev]. apply Hsorted. lia.
Qed.

Lemma skipn_above j a : (j <= n)%nat -> In a (skipn j pts) -> (j < n)%nat /\ f3 (nth j pts d0) <= f3 a.
Proof.
  intros Hj Ha. destruct (In_nth _ _ d0 Ha) as [k [Hk Ek]]. rewrite skipn_length in Hk.
  rewrite nth_skipn3 in Ek. subst a. split; [lia|]. apply Hsorted. lia.
Qed.

(* advancing the height without adding points *)
Lemma EV_advance j k z' : (j <= n)%nat -> (k < n)%nat -> zlev j <= z' ->
  (forall a, In a (skipn j pts) -> z' <= f3 a) ->
  EV k z' = EV k (zlev j) + (z' - zlev j) * (if (k <? j)%nat then area2 (firstn j pts) k else 0).
Proof.
  intros Hj Hk Hz Hab. unfold C13Contrib3dSpecProofs.EV.
  destruct (zlev_bounds j Hj) as [Hlo _].
  rewrite (zsum_split a0 (zlev j) z') by lia. f_equal.
  rewrite (zsum_ext (zlev j) z' _ (fun _ => if (k <? j)%nat then area2 (firstn j pts) k else 0)).
  - rewrite zsum_const by lia. lia.
  - intros c Hc.
    assert (HA : forall a, In a (firstn j pts) -> f3 a <= c) by (intros a Ha; pose proof (firstn_below j a Hj Ha); lia).
    assert (HR : forall a, In a (skipn j pts) -> c < f3 a) by (intros a Ha; specialize (Hab a Ha); lia).
    destruct (Nat.ltb_spec k j).
    + unfold C13Contrib3dSpecProofs.area2. apply sum2_ext. intros v w _ _. f_equal.
      replace (exclP3 pts k v w c) with (exclP3 (firstn j pts ++ skipn j pts) k v w c) by (now rewrite firstn_skipn).
      apply exclP3_level; auto. rewrite firstn_length. lia.
    + rewrite <- (sum2_zero c0 b0). apply sum2_ext. intros v w _ _.
      replace (exclP3 pts k v w c) with (exclP3 (firstn j pts ++ skipn j pts) k v w c) by (now rewrite firstn_skipn).
      rewrite exclP3_later; auto. rewrite firstn_length, skipn_length. lia.
Qed.

(* a processed point that is no longer in the front has no exclusive cell *)
Lemma not_in_front_area j st F Z0 k : GInv j st F Z0 -> (j <= n)%nat -> (k < j)%nat -> inF (F ++ Z0) k = false ->
  area2 (firstn j pts) k = 0.
Proof.
  intros HG Hj Hk Hin. pose proof HG as (_ & G1 & _ & _ & _ & _ & G5 & _).
  unfold C13Contrib3dSpecProofs.area2. rewrite <- (sum2_zero c0 b0). apply sum2_ext. intros v w Hv Hw.
  destruct (G5 k Hk) as [Hf|[e [He [Hne [H1 H2]]]]].
  - exfalso. assert (inF (F ++ Z0) k = true) by (apply inF_true; exists (ip pts k); split; auto). congruence.
  - destruct (front_elem pts c0 b0 a0 ninf Hbox j st F Z0 e HG Hj (in_or_app _ _ _ (or_introl He))) as (Xi & X1 & X2 & _).
    destruct (exclP2 (firstn j pts) k v w) eqn:Ex; auto. exfalso.
    pose proof Ex as Ex'. unfold exclP2 in Ex'. apply andb_true_iff in Ex'. destruct Ex' as [Ck _].
    rewrite nth_firstn_lt3 in Ck by lia. apply cov2b_true in Ck. cbn [C13Contrib3dStepProofs.ip f1 f2] in H1, H2.
    rewrite (exclP2_other_covers (firstn j pts) k (idx e) v w) in Ex; [discriminate|rewrite firstn_length; lia|auto|].
    rewrite nth_firstn_lt3 by lia. apply cov2b_true. lia.
Qed.

Lemma advance j st F Z0 z' : GInv j st F Z0 -> VInv st F Z0 (zlev j) -> (j <= n)%nat -> zlev j <= z' ->
  (forall a, In a (skipn j pts) -> z' <= f3 a) -> VInv st F Z0 z'.
Proof.
  intros HG HV Hj Hz Hab k Hk. rewrite (EV_advance j k z' Hj Hk Hz Hab). rewrite <- (HV k Hk).
  pose proof HG as (_ & G1 & _ & _ & _ & _ & _ & _ & _ & _ & _ & B1 & B2).
  destruct (inF (F ++ Z0) k) eqn:Hin.
  - apply inF_true in Hin. destruct Hin as [e [He Ee]]. destruct (G1 e He) as [Hi _].
    destruct (B1 e He) as [_ Hok]. unfold Lb in *. rewrite Ee in *.
    rewrite (val_advance _ (zlev j) z'). rewrite <- (sum2_cnt c0 b0 _ Hok).
    destruct (Nat.ltb_spec k j); [|lia].
    replace (sum2 c0 b0 (cnt (nth k (boxes st) []))) with (area2 (firstn j pts) k); [lia|].
    unfold C13Contrib3dSpecProofs.area2. apply sum2_ext. intros v w Hv Hw. symmetry.
    specialize (B2 e He v w Hv Hw). rewrite Ee in B2. exact B2.
  - destruct (Nat.ltb_spec k j); [|lia]. rewrite (not_in_front_area j st F Z0 k HG Hj H Hin). lia.
Qed.

(* ---------------------------------------------------------------------------------------- *)
Definition Inv (j : nat) (st : st3) : Prop := exists F Z0, GInv j st F Z0 /\ VInv st F Z0 (zlev j).

Lemma Inv_step j st : Inv j st -> (j < n)%nat -> Inv (S j) (step3 pts st (j, nth j pts d0)).
Proof.
  intros (F & Z0 & HG & HV) Hj.
  assert (HV' : VInv st F Z0 (zlev (S j))).
  { apply (advance j st F Z0); auto; [lia|apply zlev_mono; auto|].
    intros a Ha. cbn [zlev]. apply (skipn_above j a ltac:(lia) Ha). }
  destruct (pt_box pts c0 b0 a0 Hbox j Hj) as ((_ & P1) & _).
  destruct (Z.eq_dec (f1 (nth j pts d0)) 0) as [Hz|Hnz].
  - destruct (step_zero pts c0 b0 a0 ninf Hsorted Hbox Hninf HND j st F Z0 HG Hj Hz) as [HG' HC].
    exists F, (Z0 ++ [ip pts j]). split; auto. intros k Hk. cbn [zlev]. rewrite (HC k Hk). apply HV'. auto.
  - destruct (step_neg pts c0 b0 a0 ninf Hsorted Hbox Hninf HND j st F Z0 HG Hj ltac:(lia)) as [F' [HG' HC]].
    exists F', Z0. split; auto. intros k Hk. cbn [zlev]. rewrite (HC k Hk). apply HV'. auto.
Qed.

Lemma Inv_init : Inv 0 (mkSt [sentL pts ninf; sentR pts ninf] (repeat [] (S n)) (repeat 0 (S n))).
Proof.
  exists [], []. split.
  - unfold C13Contrib3dInvProofs.GInv, Lb. cbn [front boxes contr app map].
    split; [reflexivity|]. split; [intros e []|]. split; [constructor|]. split; [intros e []|]. split; [intros e []|].
    split; [constructor|]. split; [intros k Hk; lia|]. split; [apply repeat_length|]. split; [apply repeat_length|].
    split; [apply nth_repeat_in; lia|]. split; [intros k Hk; apply nth_repeat_in; lia|]. split; intros e [].
  - intros k Hk. cbn [contr boxes app inF existsb zlev]. unfold C13Contrib3dInvProofs.inF. cbn [existsb].
    rewrite nth_repeat_in by lia. unfold C13Contrib3dSpecProofs.EV. rewrite zsum_nil. lia.
Qed.

Lemma Inv_loop : forall m j st, (m = n - j)%nat -> (j <= n)%nat -> Inv j st ->
  Inv n (fold_left (step3 pts) (combine (seq j m) (skipn j pts)) st).
Proof.
  induction m as [|m IH]; intros j st Hm Hj HI.
  - cbn. assert (j = n) by lia. subst j. exact HI.
  - assert (Hjn : (j < n)%nat) by lia.
    assert (Es : skipn j pts = nth j pts d0 :: skipn (S j) pts).
    { clear -Hjn. revert j Hjn. induction pts as [|x l IHl]; intros [|j] H; cbn in *; try lia; auto. apply IHl. lia. }
    rewrite Es. cbn [seq combine fold_left]. apply IH; try lia. apply Inv_step; auto.
Qed.

(* the final loop over the front *)
Lemma final_fold (g : nat -> Z) : forall ds c k,
  (forall d, In d ds -> (d < length c)%nat) ->
  nth k (fold_left (fun c d => add_at d (g d) c) ds c) 0 =
    nth k c 0 + fold_right (fun d s => (if (d =? k)%nat then g d else 0) + s) 0 ds /\
  length (fold_left (fun c d => add_at d (g d) c) ds c) = length c.
Proof.
  induction ds as [|d ds IH]; intros c k Hd; cbn [fold_left fold_right]; [split; [lia|auto]|].
  destruct (IH (add_at d (g d) c) k) as [E1 E2].
  { intros e He. rewrite add_at_length. apply Hd. now right. }
  rewrite E1, E2, add_at_length, nth_add_at by (apply Hd; now left). split; auto. lia.
Qed.

Lemma sum_nodup (g : nat -> Z) k : forall l, NoDup l ->
  fold_right (fun d s => (if (d =? k)%nat then g d else 0) + s) 0 l = if in_dec Nat.eq_dec k l then g k else 0.
Proof.
  induction l as [|d l IH]; intros HN; cbn [fold_right]; [destruct (in_dec Nat.eq_dec k []) as [[]|]; auto|].
  inversion HN; subst. rewrite (IH H2). destruct (Nat.eqb_spec d k) as [->|Hne].
  - destruct (in_dec Nat.eq_dec k l); [contradiction|]. destruct (in_dec Nat.eq_dec k (k :: l)) as [|Hn]; [lia|].
    exfalso. apply Hn. now left.
  - destruct (in_dec Nat.eq_dec k l) as [Hi|Hn], (in_dec Nat.eq_dec k (d :: l)) as [Hi2|Hn2]; try lia.
    + exfalso. apply Hn2. now right.
    + destruct Hi2; [contradiction|tauto].
Qed.

Lemma final_close_nth st F Z0 k : GInv n st F Z0 -> (k < n)%nat ->
  nth k (final_close st) 0 = nth k (contr st) 0 + (if inF (F ++ Z0) k then val (nth k (boxes st) []) 0 else 0).
Proof.
  intros HG Hk. pose proof HG as (G0 & G1 & G2 & _ & _ & _ & _ & BL & CL & Bn & _).
  unfold final_close. rewrite G0.
  assert (E : fold_left (fun c e => add_at (idx e) (close_all (nth (idx e) (boxes st) []) 0) c)
                (sentL pts ninf :: F ++ sentR pts ninf :: Z0) (contr st) =
              fold_left (fun c d => add_at d (close_all (nth d (boxes st) []) 0) c)
                (map idx (sentL pts ninf :: F ++ sentR pts ninf :: Z0)) (contr st)).
  { generalize (contr st). generalize (sentL pts ninf :: F ++ sentR pts ninf :: Z0).
    induction l as [|e l IHl]; intros c; cbn [map fold_left]; auto. }
  rewrite E. destruct (final_fold (fun d => close_all (nth d (boxes st) []) 0) (map idx (sentL pts ninf :: F ++ sentR pts ninf :: Z0)) (contr st) k) as [E1 _].
  { intros d Hd. apply in_map_iff in Hd. destruct Hd as [e [<- He]]. rewrite CL. destruct He as [<-|He]; [cbn; lia|].
    apply in_app_or in He. destruct He as [He|[<-|He]]; [|cbn; lia|];
      destruct (G1 e ltac:(apply in_or_app; auto)); lia. }
  rewrite E1. f_equal. cbn [map fold_right sentL idx]. destruct (Nat.eqb_spec n k) as [?Heq|?Hneq]; [lia|].
  rewrite map_app. cbn [map sentR idx].
  assert (Esum : forall a b, fold_right (fun d s => (if (d =? k)%nat then close_all (nth d (boxes st) []) 0 else 0) + s) 0 (a ++ n :: b) =
                 fold_right (fun d s => (if (d =? k)%nat then close_all (nth d (boxes st) []) 0 else 0) + s) 0 (a ++ b)).
  { induction a as [|x a IHa]; intros b; cbn [app fold_right].
    - destruct (Nat.eqb_spec n k) as [?Heq|?Hneq]; [lia|]. lia.
    - now rewrite IHa. }
  rewrite Esum, <- map_app. rewrite (sum_nodup _ k _ G2). rewrite close_all_val.
  destruct (in_dec Nat.eq_dec k (map idx (F ++ Z0))) as [Hi|Hn'].
  - apply in_map_iff in Hi. rewrite (proj2 (inF_true (F ++ Z0) k)); [lia|]. destruct Hi as [e [H1 H2]]. exists e. auto.
  - destruct (inF (F ++ Z0) k) eqn:X; [|lia]. exfalso. apply inF_true in X. destruct X as [e [H1 H2]].
    apply Hn'. apply in_map_iff. exists e. auto.
Qed.

Theorem all_contributions3d_values :
  (forall k, (k < n)%nat -> nth k (map fst (all_contributions3d ninf pts)) 0 = EV k 0) /\
  length (all_contributions3d ninf pts) = n /\ map snd (all_contributions3d ninf pts) = map idx pts.
Proof.
  unfold all_contributions3d. cbv zeta.
  set (s0 := mkSt _ _ _). set (s := fold_left (step3 pts) (combine (seq 0 n) pts) s0).
  assert (HI : Inv n s).
  { unfold s. rewrite <- (skipn_O pts) at 2. apply (Inv_loop n 0%nat s0); try lia. apply Inv_init. }
  destruct HI as (F & Z0 & HG & HV).
  assert (HLf : length (final_close s) = S n).
  { pose proof HG as (G0 & G1 & _ & _ & _ & _ & _ & BL & CL & _). unfold final_close.
    assert (G : forall l c, (forall e, In e l -> (idx e < length c)%nat) ->
              length (fold_left (fun c e => add_at (idx e) (close_all (nth (idx e) (boxes s) []) 0) c) l c) = length c).
    { induction l as [|e l IHl]; intros c Hc; cbn [fold_left]; auto. rewrite IHl; [apply add_at_length|].
      intros e' He'. rewrite add_at_length. apply Hc. now right. }
    rewrite G; auto. intros e He. rewrite CL, G0 in *. destruct He as [<-|He]; [cbn; lia|].
    apply in_app_or in He. destruct He as [He|[<-|He]]; [|cbn; lia|];
      destruct (G1 e ltac:(apply in_or_app; auto)); lia. }
  assert (HL1 : length (firstn n (final_close s)) = n) by (rewrite firstn_length; lia).
  split; [|split].
  - intros k Hk. rewrite map_fst_combine by (rewrite HL1, map_length; auto). rewrite nth_firstn_lt3 by auto.
    rewrite (final_close_nth s F Z0 k HG Hk).
    pose proof (advance n s F Z0 0 HG HV ltac:(lia) (proj2 (zlev_bounds n ltac:(lia)))) as HV0.
    apply HV0; auto. intros a Ha. rewrite skipn_all in Ha. destruct Ha.
  - etransitivity; [apply combine_length|]. rewrite HL1, map_length. lia.
  - rewrite map_snd_combine; auto. now rewrite HL1, map_length.
Qed.

End Loop.

(* ---------------------------------------------------------------------------------------- *)
(* the entry points *)
Lemma insert_f3_perm p l : Permutation (insert_f3 p l) (p :: l).
Proof.
  induction l as [|q t IH]; cbn [insert_f3]; auto.
  destruct (f3 p <? f3 q); auto. rewrite IH. apply perm_swap.
Qed.

Lemma sort_f3_perm l : Permutation (sort_f3 l) l.
Proof.
  induction l as [|p l IH]; cbn [sort_f3 fold_right]; auto.
  fold (sort_f3 l). rewrite insert_f3_perm. now constructor.
Qed.

Definition f3le (a b : P3) : Prop := f3 a <= f3 b.

Lemma insert_f3_sorted p l : StronglySorted f3le l -> StronglySorted f3le (insert_f3 p l).
Proof.
  induction 1 as [|q t HS IH HF]; cbn [insert_f3]; [repeat constructor|].
  rewrite Forall_forall in HF. destruct (Z.ltb_spec (f3 p) (f3 q)).
  - constructor; [constructor; auto; now apply Forall_forall|].
    apply Forall_forall. intros x [<-|Hx]; unfold f3le in *; [lia|]. specialize (HF x Hx). lia.
  - constructor; auto. apply Forall_forall. intros x Hx.
    eapply Permutation_in in Hx; [|apply insert_f3_perm]. destruct Hx as [<-|Hx]; [unfold f3le; lia|auto].
Qed.

Lemma sort_f3_sorted l : StronglySorted f3le (sort_f3 l).
Proof.
  induction l as [|p l IH]; cbn [sort_f3 fold_right]; [constructor|].
  fold (sort_f3 l). now apply insert_f3_sorted.
Qed.

Lemma ninf_of_below pts a : In a pts -> ninf_of pts < f1 a /\ ninf_of pts < f2 a.
Proof.
  unfold ninf_of. induction pts as [|p t IH]; intros Hin; [destruct Hin|]. cbn [fold_right].
  destruct Hin as [<-|Hin]; [lia|]. specialize (IH Hin). lia.
Qed.

Lemma translate3_elem ref S a : In a (translate3 ref S) ->
  exists q, In q S /\ crd3 a = trc ref q /\ (idx a < length S)%nat /\ a = nth (idx a) (translate3 ref S) d0.
Proof.
  intros Ha. destruct (In_nth _ _ d0 Ha) as [m [Hm Em]]. rewrite translate3_length in Hm.
  assert (Ei : idx a = m).
  { rewrite <- Em. rewrite <- (nth_map_d idx (translate3 ref S) d0 0%nat) by (rewrite translate3_length; auto).
    rewrite translate3_idx. now rewrite seq_nth. }
  exists (nth m S []). split; [apply nth_In; auto|]. split.
  - rewrite <- Em. rewrite <- (nth_map_d crd3 (translate3 ref S) d0 (0, 0, 0)) by (rewrite translate3_length; auto).
    rewrite translate3_crd. apply nth_map_d. auto.
  - rewrite Ei. split; auto.
Qed.

Theorem contribs3d_entries r0 r1 r2 S :
  below_ref [r0; r1; r2] S -> mutually_nondominated S ->
  contribs3d [r0; r1; r2] S =
  map (fun a => (contrib_spec [r0; r1; r2] S (idx a), idx a)) (sort_f3 (translate3 [r0; r1; r2] S)).
Proof.
  intros HB HN. unfold contribs3d. cbv zeta.
  set (X := translate3 [r0; r1; r2] S). set (pts := sort_f3 X).
  pose proof (sort_f3_perm X) as HP. fold pts in HP.
  set (lo := Z.min (min_coord [r0; r1; r2] S) (Z.min r0 (Z.min r1 r2))).
  assert (LB : lower_bound lo S).
  { apply (lower_bound_weaken (min_coord [r0; r1; r2] S)); [apply min_coord_lower_bound|unfold lo; lia]. }
  set (c0 := lo - r0). set (b0 := lo - r1). set (a0 := lo - r2).
  assert (Hlen3 : forall q, In q S -> length q = 3%nat) by (intros q Hq; apply (leq_all_length q [r0; r1; r2]); auto).
  assert (Elem : forall a, In a pts -> exists q, In q S /\ crd3 a = trc [r0; r1; r2] q /\ (idx a < length S)%nat /\ a = nth (idx a) X d0).
  { intros a Ha. apply (translate3_elem [r0; r1; r2] S a). eapply Permutation_in; [exact HP|exact Ha]. }
  assert (Coord : forall q, In q S -> exists x y z, q = [x; y; z] /\ lo <= x <= r0 /\ lo <= y <= r1 /\ lo <= z <= r2).
  { intros q Hq. pose proof (Hlen3 q Hq). destruct q as [|x [|y [|z [|? ?]]]]; try discriminate.
    exists x, y, z. split; auto. pose proof (HB _ Hq) as Hle. unfold leq_all in Hle.
    inversion Hle as [|? ? ? ? L1 Hle1]; subst. inversion Hle1 as [|? ? ? ? L2 Hle2]; subst. inversion Hle2 as [|? ? ? ? L3 _]; subst.
    pose proof (LB _ Hq x ltac:(cbn; auto)). pose proof (LB _ Hq y ltac:(cbn; auto)). pose proof (LB _ Hq z ltac:(cbn; auto)). lia. }
  assert (Hbox : forall a, In a pts -> (c0 <= f1 a <= 0) /\ (b0 <= f2 a <= 0) /\ (a0 <= f3 a <= 0)).
  { intros a Ha. destruct (Elem a Ha) as [q [Hq [Ec _]]]. destruct (Coord q Hq) as (x & y & z & -> & C1 & C2 & C3).
    unfold crd3, trc in Ec. cbn [nth] in Ec. inversion Ec. unfold c0, b0, a0. lia. }
  assert (Hsorted : forall i j, (i <= j < length pts)%nat -> f3 (nth i pts d0) <= f3 (nth j pts d0)).
  { intros i j Hij. destruct (Nat.eq_dec i j) as [->|Hne]; [lia|].
    apply (SS_nth f3le pts d0 (sort_f3_sorted X) i j). lia. }
  assert (HND : forall i j, (i < length pts)%nat -> (j < length pts)%nat ->
    f1 (nth i pts d0) <= f1 (nth j pts d0) -> f2 (nth i pts d0) <= f2 (nth j pts d0) ->
    f3 (nth i pts d0) <= f3 (nth j pts d0) ->
    f1 (nth i pts d0) = f1 (nth j pts d0) /\ f2 (nth i pts d0) = f2 (nth j pts d0)).
  { intros i j Hi Hj H1 H2 H3.
    destruct (Elem _ (nth_In pts d0 Hi)) as [q [Hq [Ec _]]]. destruct (Elem _ (nth_In pts d0 Hj)) as [q' [Hq' [Ec' _]]].
    destruct (Coord q Hq) as (x & y & z & -> & _). destruct (Coord q' Hq') as (x' & y' & z' & -> & _).
    unfold crd3, trc in Ec, Ec'. cbn [nth] in Ec, Ec'. inversion Ec. inversion Ec'.
    destruct (Z.eq_dec x x') as [Ex|Nx]; [destruct (Z.eq_dec y y') as [Ey|Ny]; [lia|]|]; exfalso;
      apply (HN _ _ Hq Hq'); apply dominates_componentwise; (split; [reflexivity|]); split.
    - intros [|[|[|m]]] Hm; cbn [nth length] in *; lia.
    - exists 1%nat. cbn [nth length]. split; [lia|]. lia.
    - intros [|[|[|m]]] Hm; cbn [nth length] in *; lia.
    - exists 0%nat. cbn [nth length]. split; [lia|]. lia. }
  assert (Hninf : forall a, In a pts -> ninf_of pts < f1 a /\ ninf_of pts < f2 a) by (intros a Ha; apply ninf_of_below; auto).
  assert (Ha0 : a0 <= 0) by (unfold a0, lo; lia).
  assert (HlenP : length pts = length S).
  { rewrite (Permutation_length HP). unfold X. apply translate3_length. }
  destruct (all_contributions3d_values pts c0 b0 a0 (ninf_of pts) Hsorted Hbox Hninf Ha0 HND) as (HV & V2 & V3).
  set (L := all_contributions3d (ninf_of pts) pts) in *.
  apply (nth_ext _ _ (0, 0%nat) (0, 0%nat)).
  { rewrite map_length. exact V2. }
  intros k Hk.
  assert (Hkn : (k < length pts)%nat) by (rewrite <- V2; exact Hk).
  pose proof (HV k Hkn) as V1.
  rewrite (nth_map_d _ pts d0 (0, 0%nat)) by auto.
  assert (Epair : nth k L (0, 0%nat) = (nth k (map fst L) 0, nth k (map snd L) 0%nat)).
  { rewrite (nth_map_d fst L (0, 0%nat) 0) by lia. rewrite (nth_map_d snd L (0, 0%nat) 0%nat) by lia.
    apply surjective_pairing. }
  etransitivity; [exact Epair|]. rewrite V1, V3. rewrite (nth_map_d idx pts d0 0%nat) by auto. f_equal.
  destruct (Elem _ (nth_In pts d0 Hkn)) as [q [Hq [Ec [Hi Ea]]]].
  rewrite (contrib_spec_cells r0 r1 r2 S _ lo HB LB Hi). fold X c0 b0 a0.
  symmetry. apply EV_perm; auto.
  - symmetry. exact HP.
  - unfold X. rewrite translate3_length. exact Hi.
Qed.

Theorem contribs3d_correct ref S : length ref = 3%nat -> below_ref ref S -> mutually_nondominated S ->
  Permutation (contribs3d ref S) (combine (contribs_spec ref S) (seq 0 (length S))).
Proof.
  intros Hl HB HN. destruct ref as [|r0 [|r1 [|r2 [|? ?]]]]; try discriminate.
  rewrite (contribs3d_entries r0 r1 r2 S HB HN).
  unfold contribs_spec. rewrite combine_map_self.
  rewrite <- (translate3_idx [r0; r1; r2] S), map_map.
  apply Permutation_map. apply sort_f3_perm.
Qed.

Lemma contribs3d_value ref S v i : length ref = 3%nat -> below_ref ref S -> mutually_nondominated S ->
  In (v, i) (contribs3d ref S) -> (i < length S)%nat /\ v = contrib_spec ref S i.
Proof.
  intros Hl HB HN Hin. apply (Permutation_in _ (contribs3d_correct ref S Hl HB HN)) in Hin.
  unfold contribs_spec in Hin. rewrite combine_map_self in Hin. apply in_map_iff in Hin.
  destruct Hin as [k [E Hk]]. inversion E; subst. apply in_seq in Hk. split; [lia|reflexivity].
Qed.

Theorem contrib3d_smallest_correct ref S k :
  length ref = 3%nat -> below_ref ref S -> mutually_nondominated S -> (k <= length S)%nat ->
  let res := contrib3d_smallest ref S k in
  map fst res = smallest_k k (contribs_spec ref S) /\ length res = k /\ NoDup (map snd res) /\
  forall v i, In (v, i) res -> (i < length S)%nat /\ v = contrib_spec ref S i.
Proof.
  intros Hl HB HN Hk res. unfold res, contrib3d_smallest.
  destruct (smallest_kv_spec (contribs_spec ref S) (contribs3d ref S) k) as [A [B [C Dd]]].
  - rewrite contribs_spec_length. apply contribs3d_correct; auto.
  - now rewrite contribs_spec_length.
  - split; auto. split; auto. split; auto. intros v i Hin. destruct (Dd v i Hin) as [H1 H2].
    rewrite contribs_spec_length in H1. split; auto. rewrite H2. unfold contribs_spec.
    rewrite (nth_indep _ 0 (contrib_spec ref S 0)) by (rewrite map_length, seq_length; auto).
    rewrite map_nth, seq_nth; auto.
Qed.

Theorem contrib3d_largest_correct ref S k :
  length ref = 3%nat -> below_ref ref S -> mutually_nondominated S -> (k <= length S)%nat ->
  let res := contrib3d_largest ref S k in
  map fst res = largest_k k (contribs_spec ref S) /\ length res = k /\ NoDup (map snd res) /\
  forall v i, In (v, i) res -> (i < length S)%nat /\ v = contrib_spec ref S i.
Proof.
  intros Hl HB HN Hk res. unfold res, contrib3d_largest.
  destruct (largest_kv_spec (contribs_spec ref S) (contribs3d ref S) k) as [A [B [C Dd]]].
  - rewrite contribs_spec_length. apply contribs3d_correct; auto.
  - now rewrite contribs_spec_length.
  - split; auto. split; auto. split; auto. intros v i Hin. destruct (Dd v i Hin) as [H1 H2].
    rewrite contribs_spec_length in H1. split; auto. rewrite H2. unfold contribs_spec.
    rewrite (nth_indep _ 0 (contrib_spec ref S 0)) by (rewrite map_length, seq_length; auto).
    rewrite map_nth, seq_nth; auto.
Qed.

Example contrib3d_example :
  let S := [[1; 5; 2]; [2; 3; 3]; [2; 3; 3]; [3; 1; 5]; [1; 4; 5]; [2; 2; 4]; [6; 0; 6]; [0; 6; 6]] in
  let ref := [6; 6; 6] in
  below_ref ref S /\ mutually_nondominated S /\
  contribs3d ref S = [(7, 0%nat); (0, 2%nat); (0, 1%nat); (5, 5%nat); (1, 4%nat); (3, 3%nat); (0, 7%nat); (0, 6%nat)] /\
  contribs_spec ref S = [7; 0; 0; 3; 1; 5; 0; 0] /\
  contrib3d_smallest ref S 3 = [(0, 6%nat); (0, 7%nat); (0, 1%nat)] /\
  contrib3d_largest ref S 2 = [(7, 0%nat); (5, 5%nat)].
Proof.
  cbv zeta. split.
  { intros p Hp. cbn [In] in Hp. repeat (destruct Hp as [<-|Hp]; [repeat constructor; lia|]). destruct Hp. }
  split.
  { apply mutually_nondominated_dec_check; [|reflexivity].
    intros p q Hp Hq. cbn [In] in Hp, Hq.
    repeat (destruct Hp as [<-|Hp]; [repeat (destruct Hq as [<-|Hq]; [reflexivity|]); destruct Hq|]).
    destruct Hp. }
  repeat split; vm_compute; reflexivity.
Qed.
