(* C03 — proofs about weighted containers (C03Weighted.v). *)
From Coq Require Import List Arith Bool Lia Permutation.
From SharkV Require Import ListAux C03Model C03Proofs C12Model C12Proofs C03Weighted.
Import ListNotations.

Lemma sum_repeat w n : sum (repeat w n) = n * w.
Proof. induction n; simpl; [reflexivity|]. rewrite IHn. reflexivity. Qed.

Lemma sum_perm l l' : Permutation l l' -> sum l = sum l'.
Proof. induction 1; simpl; lia. Qed.

Lemma sum_concat (d : list (list nat)) : sum (concat d) = sum (map sum d).
Proof. induction d as [|b r IH]; simpl; auto. rewrite sum_app, IH. reflexivity. Qed.

Section W.
Context {D : Type}.

(* one weight for all: the weight container has the batch structure of the data, every weight is w *)
Theorem uniform_weights_spec {W} (d : @data D) (w : W) :
  sizes (uniform_weights d w) = sizes d /\ elems (uniform_weights d w) = repeat w (nelems d).
Proof.
  unfold uniform_weights, sizes, elems, nelems. split.
  - rewrite map_map. apply map_ext. intros b. apply repeat_length.
  - induction d as [|b r IH]; simpl; auto. rewrite IH, app_length. symmetry. apply repeat_app.
Qed.

Lemma fold_sum_batches (l : list (list nat)) acc : fold_left (fun a b => a + sum b) l acc = acc + sum (concat l).
Proof. revert acc; induction l as [|b r IH]; intros acc; simpl; [lia|]. rewrite IH, sum_app. lia. Qed.

(* sumOfWeights (batch by batch) is the sum over the element sequence of the weight container *)
Theorem sum_of_weights_spec (x : labeled D nat) : sum_of_weights x = sum (elems (labels x)).
Proof. unfold sum_of_weights. rewrite fold_sum_batches. reflexivity. Qed.

(* hence every structural operation keeps / splits / adds the sum as the element sequence says *)
Theorem sum_of_weights_structural (x : labeled D nat) :
  (forall szs w', repartition szs (labels x) = Some w' -> sum_of_weights (mkL (inputs x) w') = sum_of_weights x) /\
  (forall b k w', split_batch b k (labels x) = Some w' -> sum_of_weights (mkL (inputs x) w') = sum_of_weights x) /\
  (forall b l r, splice b (labels x) = Some (l, r) ->
     sum_of_weights (mkL (inputs x) l) + sum_of_weights (mkL (inputs x) r) = sum_of_weights x) /\
  (forall y : labeled D nat, sum_of_weights (mkL (append (inputs x) (inputs y)) (append (labels x) (labels y)))
                             = sum_of_weights x + sum_of_weights y) /\
  (forall idx w', reorder 0 idx (labels x) = Some w' -> Permutation idx (seq 0 (nelems (labels x))) ->
     sum_of_weights (mkL (inputs x) w') = sum_of_weights x) /\
  (forall idx w', indexed_subset idx (labels x) = Some w' ->
     sum_of_weights (mkL (inputs x) w') = sum (map (fun i => sum (nth i (labels x) [])) idx)).
Proof.
  rewrite !sum_of_weights_spec. cbn [labels]. repeat split.
  - intros szs w' E. rewrite sum_of_weights_spec. cbn [labels]. destruct (repartition_spec _ _ _ E) as [-> _]. reflexivity.
  - intros b k w' E. rewrite sum_of_weights_spec. cbn [labels]. destruct (split_batch_spec _ _ _ _ E) as [-> _]. reflexivity.
  - intros b l r E. rewrite !sum_of_weights_spec. cbn [labels]. destruct (splice_spec _ _ _ _ E) as [_ [<- _]]. rewrite sum_app. reflexivity.
  - intros y. rewrite !sum_of_weights_spec. cbn [labels]. unfold append. rewrite elems_app, sum_app. reflexivity.
  - intros idx w' E P. rewrite sum_of_weights_spec. cbn [labels]. apply sum_perm. eapply reorder_permutation; eauto.
  - intros idx w' E. rewrite sum_of_weights_spec. cbn [labels]. destruct (indexed_subset_spec _ _ _ E) as [-> _].
    unfold elems. rewrite sum_concat, map_map. reflexivity.
Qed.

End W.

(* ---- bootstrap ---- *)
Lemma add_at_spec k (ws : @data nat) : k < nelems ws ->
  sizes (add_at k ws) = sizes ws /\ elems (add_at k ws) = upd k (S (nth k (elems ws) 0)) (elems ws).
Proof.
  revert k; induction ws as [|b r IH]; intros k L; unfold nelems, elems in *; simpl in *; [lia|].
  rewrite app_length in L. destruct (Nat.ltb_spec k (length b)).
  - simpl. rewrite upd_length. split; auto. rewrite app_nth1 by auto.
    clear IH L. revert k H; induction b as [|x t IHb]; intros [|k] H; simpl in *; try lia; auto.
    f_equal. apply IHb. lia.
  - destruct (IH (k - length b)) as [S1 E1]; [lia|]. simpl. split; [f_equal; exact S1|].
    rewrite E1. rewrite app_nth2 by lia.
    clear - H. revert k H; induction b as [|x t IHb]; intros k H; simpl in *; [rewrite Nat.sub_0_r; reflexivity|].
    destruct k as [|k]; simpl; [lia|]. f_equal. apply IHb. lia.
Qed.

Lemma nelems_sizes {X Y} (a : @data X) (b : @data Y) : sizes a = sizes b -> nelems a = nelems b.
Proof. intros H. rewrite <- !sum_sizes. rewrite H. reflexivity. Qed.

(* the loop `element(index).weight += 1` over the draws: batch structure kept, weight i grows by the number of draws of i *)
Theorem bootstrap_loop_spec draws : forall (ws : @data nat),
  (forall i, In i draws -> i < nelems ws) ->
  sizes (bootstrap_loop draws ws) = sizes ws /\
  elems (bootstrap_loop draws ws) = map (fun i => nth i (elems ws) 0 + count_eq draws i) (seq 0 (nelems ws)).
Proof.
  unfold bootstrap_loop. induction draws as [|a r IH]; intros ws H; simpl.
  - split; auto. transitivity (map (fun i => nth i (elems ws) 0) (seq 0 (length (elems ws)))).
    + symmetry. apply map_nth_seq.
    + unfold nelems. apply map_ext. intros i. unfold count_eq. simpl. lia.
  - destruct (add_at_spec a ws (H a (or_introl eq_refl))) as [S1 E1].
    destruct (IH (add_at a ws)) as [S2 E2].
    { intros i Hi. rewrite (nelems_sizes _ _ S1). apply H. right. exact Hi. }
    split; [congruence|]. rewrite E2, (nelems_sizes _ _ S1). apply map_ext_in. intros i Hi. apply in_seq in Hi.
    rewrite E1, nth_upd, count_eq_cons. unfold nelems in *.
    destruct (Nat.eqb_spec a i) as [->|N]; simpl.
    + assert (i <? length (elems ws) = true) as -> by (apply Nat.ltb_lt; apply (H i); left; reflexivity).
      rewrite Nat.eqb_refl. lia.
    + destruct (Nat.eqb_spec i a); [congruence|]. lia.
Qed.

(* bootstrap: the data container is the argument itself, the weights have its batch structure, weight i = number of draws
   of i (whatever the order of the draws), the weights sum to the number of draws *)
Theorem w_bootstrap_spec {D} (d : @data D) draws :
  (forall i, In i draws -> i < nelems d) ->
  inputs (w_bootstrap d draws) = d /\
  sizes (labels (w_bootstrap d draws)) = sizes d /\
  elems (labels (w_bootstrap d draws)) = map (count_eq draws) (seq 0 (nelems d)) /\
  sum_of_weights (w_bootstrap d draws) = length draws.
Proof.
  intros H. unfold w_bootstrap. cbn [inputs labels].
  destruct (uniform_weights_spec d 0) as [S0 E0].
  assert (N0 : nelems (uniform_weights d 0) = nelems d) by (apply nelems_sizes; exact S0).
  destruct (bootstrap_loop_spec draws (uniform_weights d 0)) as [S1 E1]; [intros i Hi; rewrite N0; auto|].
  assert (E : elems (bootstrap_loop draws (uniform_weights d 0)) = map (count_eq draws) (seq 0 (nelems d))).
  { rewrite E1, N0. apply map_ext_in. intros i Hi. apply in_seq in Hi. rewrite E0, nth_repeat. reflexivity. }
  split; [reflexivity|]. split; [congruence|]. split; [exact E|].
  rewrite sum_of_weights_spec. cbn [labels]. rewrite E. apply count_partition. exact H.
Qed.

Corollary bootstrap_order_irrelevant {D} (d : @data D) draws draws' :
  (forall i, In i draws -> i < nelems d) -> Permutation draws draws' ->
  labels (w_bootstrap d draws) = labels (w_bootstrap d draws').
Proof.
  intros H P.
  assert (H' : forall i, In i draws' -> i < nelems d) by (intros i Hi; apply H; eapply Permutation_in; [symmetry; exact P|exact Hi]).
  destruct (w_bootstrap_spec d draws H) as [_ [S1 [E1 _]]]. destruct (w_bootstrap_spec d draws' H') as [_ [S2 [E2 _]]].
  assert (EE : elems (labels (w_bootstrap d draws)) = elems (labels (w_bootstrap d draws'))).
  { rewrite E1, E2. apply map_ext. intros i. unfold count_eq. apply Permutation_length.
    clear - P. induction P; simpl; auto.
    - destruct (i =? x); simpl; auto.
    - destruct (i =? y), (i =? x); simpl; auto. constructor.
    - etransitivity; eauto. }
  (* same sizes and same elements: same batches *)
  assert (G : forall (a b : @data nat), sizes a = sizes b -> elems a = elems b -> a = b).
  { clear. induction a as [|x t IH]; intros [|y u] S E; simpl in *; try discriminate; auto.
    inversion S as [[L T]]. unfold elems in E. simpl in E. destruct (app_inv_length _ _ _ _ E L) as [-> E'].
    f_equal. apply IH; auto. }
  apply G; congruence.
Qed.

(* ---- classWeight ---- *)
Lemma sum_indicator_w l s k w : s <= l < s + k ->
  sum (map (fun c => if l =? c then w else 0) (seq s k)) = w.
Proof.
  revert s; induction k as [|k IH]; intros s H; simpl; [lia|].
  destruct (Nat.eqb_spec l s) as [->|N].
  - assert (Z : sum (map (fun c => if s =? c then w else 0) (seq (S s) k)) = 0).
    { clear. assert (G : forall t, s < t -> sum (map (fun c => if s =? c then w else 0) (seq t k)) = 0).
      { induction k as [|k IH]; intros t Ht; simpl; auto. destruct (Nat.eqb_spec s t); [lia|]. apply IH. lia. }
      apply G. lia. }
    rewrite Z. lia.
  - rewrite IH by lia. reflexivity.
Qed.

Lemma class_weight_fold (lws : list (nat * nat)) : forall acc,
  (forall lw, In lw lws -> fst lw < length acc) ->
  let res := fold_left (fun a lw => upd (fst lw) (nth (fst lw) a 0 + snd lw) a) lws acc in
  length res = length acc /\
  forall c, nth c res 0 = nth c acc 0 + sum (map snd (filter (fun lw => fst lw =? c) lws)).
Proof.
  induction lws as [|[l w] r IH]; intros acc H; simpl.
  - split; [reflexivity|]. intros c. lia.
  - destruct (IH (upd l (nth l acc 0 + w) acc)) as [L1 N1].
    { intros lw Hl. rewrite upd_length. apply H. right. exact Hl. }
    rewrite upd_length in L1. split; [exact L1|]. intros c. rewrite N1, nth_upd.
    assert (l < length acc) as Hl by (apply (H (l, w)); left; reflexivity).
    destruct (Nat.eqb_spec l c) as [->|N]; simpl.
    + apply Nat.ltb_lt in Hl. rewrite Hl. simpl. lia.
    + lia.
Qed.

Lemma max_bound (ls : list nat) x : In x ls -> x <= fold_right Nat.max 0 ls.
Proof. induction ls as [|y t IH]; simpl; [tauto|]. intros [->|H]; [lia|]. specialize (IH H). lia. Qed.

(* classWeight(c) = sum of the weights of the elements with label c; one entry per class 0..max label *)
Theorem class_weight_spec ls ws : length ls = length ws -> ls <> [] ->
  length (class_weight ls ws) = S (fold_right Nat.max 0 ls) /\
  (forall c, nth c (class_weight ls ws) 0 = sum (map snd (filter (fun lw => fst lw =? c) (combine ls ws)))) /\
  sum (class_weight ls ws) = sum ws.
Proof.
  intros L NE. unfold class_weight. destruct ls as [|l0 lt] eqn:Els; [congruence|]. rewrite <- Els in *.
  set (n := S (fold_right Nat.max 0 ls)).
  destruct (class_weight_fold (combine ls ws) (repeat 0 n)) as [L1 N1].
  { intros [l w] Hl. rewrite repeat_length. apply in_combine_l in Hl. simpl. pose proof (max_bound ls l Hl). unfold n. lia. }
  rewrite repeat_length in L1. split; [exact L1|]. split.
  - intros c. rewrite N1. rewrite nth_repeat. reflexivity.
  - (* total: every (label, weight) pair is counted in exactly one class below n *)
    set (res := fold_left _ _ _) in *.
    assert (res = map (fun c => sum (map snd (filter (fun lw => fst lw =? c) (combine ls ws)))) (seq 0 n)) as ->.
    { apply nth_ext with (d := 0) (d' := 0); [rewrite map_length, seq_length; exact L1|].
      intros c Hc. rewrite L1 in Hc. rewrite N1, nth_repeat.
      rewrite (nth_indep _ 0 ((fun c => sum (map snd (filter (fun lw => fst lw =? c) (combine ls ws)))) 0)) by (rewrite map_length, seq_length; auto).
      rewrite (map_nth (fun c0 => sum (map snd (filter (fun lw => fst lw =? c0) (combine ls ws))))), seq_nth by auto. reflexivity. }
    assert (B : forall lw, In lw (combine ls ws) -> fst lw < n).
    { intros [l w] Hl. apply in_combine_l in Hl. simpl. pose proof (max_bound ls l Hl). unfold n. lia. }
    assert (Sw : sum ws = sum (map snd (combine ls ws))).
    { clear - L. revert ws L; induction ls as [|l t IH]; intros [|w u] L; simpl in *; try discriminate; auto. }
    rewrite Sw. clear - B. remember (seq 0 n) as sq eqn:Esq. induction (combine ls ws) as [|[l w] r IH]; simpl.
    + clear. induction sq; simpl; auto.
    + assert (Hl : l < n) by (apply (B (l, w)); left; reflexivity).
      rewrite <- IH by (intros lw Hlw; apply B; right; exact Hlw).
      rewrite <- (sum_indicator_w l 0 n w) at 1 by (simpl; lia). rewrite <- Esq. rewrite <- sum_map_add. f_equal. apply map_ext. intros c.
      destruct (l =? c); simpl; reflexivity.
Qed.
