(* C12 — the fold constructors of CVDatasetTools.h as ONE function of a request, createCVIID, and the
   element shape carried by the containers (Data::m_shape): constructors, CVFolds::validation and
   CVFolds::training on shaped containers.  Everything here is executed by the extracted driver
   (ocaml/c03_driver.ml) next to the C++ on every case.
   Definitions only; proofs in C12FoldsProofs.v. *)
From Coq Require Import List Arith Bool.
From SharkV Require Import ListAux C03Model C12Model.
Import ListNotations.

(* what a caller of CVDatasetTools.h can ask for.  Random choices of the library are explicit:
   sigma = permutation drawn by set.shuffle(), members = per-class shuffled positions,
   draws = the fold drawn for every element by random::discrete(0,k-1), bperm = shuffled batch indices *)
Inductive cv_request : Type :=
| ReqSameSize (sigma : list nat) (k m : nat)                (* createCVSameSize *)
| ReqIndexed (idx : list nat) (k m : nat)                   (* createCVIndexed *)
| ReqFullyIndexed (first second : list nat) (k m : nat)     (* createCVFullyIndexed *)
| ReqBalanced (members : list (list nat)) (k m : nat)       (* createCVSameSizeBalanced *)
| ReqIID (draws : list nat) (k m : nat)                     (* createCVIID *)
| ReqBatch (bperm : list nat) (k : nat).                    (* createCVBatch *)

Definition req_k (r : cv_request) : nat :=
  match r with
  | ReqSameSize _ k _ | ReqIndexed _ k _ | ReqFullyIndexed _ _ k _ | ReqBalanced _ k _ | ReqIID _ k _ | ReqBatch _ k => k
  end.

(* maximum batch size (createCVBatch keeps the batches: no such argument) *)
Definition req_m (r : cv_request) : nat :=
  match r with
  | ReqSameSize _ _ m | ReqIndexed _ _ m | ReqFullyIndexed _ _ _ m | ReqBalanced _ _ m | ReqIID _ _ m => m
  | ReqBatch _ _ => 0
  end.

(* the constructors that lay the folds out contiguously in a reorganised set (all but createCVBatch) *)
Definition req_contiguous (r : cv_request) : bool :=
  match r with ReqBatch _ _ => false | _ => true end.

Section Poly.
Context {A : Type}.
Variable dflt : A.

(* createCVIID: draw a fold for every element, then createCVIndexed (a fold may stay empty) *)
Definition cv_iid (draws : list nat) (k m : nat) (d : @data A) : option (@cv A) :=
  cv_indexed dflt draws k m d.

Definition cv_create (r : cv_request) (d : @data A) : option (@cv A) :=
  match r with
  | ReqSameSize sigma k m => cv_same_size dflt sigma k m d
  | ReqIndexed idx k m => cv_indexed dflt idx k m d
  | ReqFullyIndexed first second k m => cv_fully_indexed dflt first second k m d
  | ReqBalanced members k m => cv_balanced dflt members k m d
  | ReqIID draws k m => cv_iid draws k m d
  | ReqBatch bperm k => cv_batch bperm k d
  end.

(* the choices are of the kind the library can draw / the documentation asks for: permutations *)
Definition req_valid (r : cv_request) (d : @data A) : bool :=
  match r with
  | ReqSameSize sigma _ _ => valid_perm (nelems d) sigma
  | ReqIndexed _ _ _ => true
  | ReqFullyIndexed first _ _ _ => valid_perm (nelems d) first
  | ReqBalanced members _ _ => valid_perm (nelems d) (concat members)
  | ReqIID _ _ _ => true
  | ReqBatch bperm _ => valid_perm (length d) bperm
  end.

(* number of elements of every validation part (contiguous constructors) *)
Definition req_psizes (r : cv_request) (d : @data A) : list nat :=
  match r with
  | ReqSameSize _ k _ | ReqBalanced _ k _ => val_sizes (nelems d) k
  | ReqIndexed idx k _ | ReqIID idx k _ => map (count_eq idx) (seq 0 k)
  | ReqFullyIndexed _ second k _ => map (count_eq second) (seq 0 k)
  | ReqBatch _ _ => []
  end.

(* source position of the element that ends up at position 0, 1, 2, ... of the reorganised set *)
Definition req_order (r : cv_request) (d : @data A) : list nat :=
  match r with
  | ReqSameSize sigma _ _ => sigma
  | ReqIndexed idx k _ | ReqIID idx k _ => indexed_order idx k
  | ReqFullyIndexed first second k _ => map (fun t => nth t first 0) (indexed_order second k)
  | ReqBalanced members k _ => dealt_order (concat members) k
  | ReqBatch _ _ => seq 0 (nelems d)
  end.

(* ---- containers with their element shape (Data::m_shape; S = any type of shapes) ---- *)
Context {S : Type}.

Record sdata := mkSD { sd_shape : S; sd_data : @data A }.
Record scv := mkSCV { scv_set : sdata; scv_folds : list (list nat) }.

Definition scv_cv (c : scv) : @cv A := mkCV (sd_data (scv_set c)) (scv_folds c).

(* every constructor hands the shape of the argument to the set stored in the CVFolds object
   (in-place repartition + shuffle, `newSet.shape() = set.shape()`, or a plain copy) *)
Definition scv_create (r : cv_request) (x : sdata) : option scv :=
  match cv_create r (sd_data x) with
  | Some c => Some (mkSCV (mkSD (sd_shape x) (cv_set c)) (cv_folds c))
  | None => None
  end.

(* Data::indexedSubset(indices): subset.m_shape = m_shape *)
Definition s_indexed_subset (idx : list nat) (x : sdata) : option sdata :=
  match indexed_subset idx (sd_data x) with
  | Some d => Some (mkSD (sd_shape x) d)
  | None => None
  end.

(* CVFolds::validation(i) / CVFolds::training(i) *)
Definition s_validation (c : scv) (p : nat) : option sdata :=
  s_indexed_subset (nth p (scv_folds c) []) (scv_set c).
Definition s_training (c : scv) (p : nat) : option sdata :=
  s_indexed_subset (complement (nth p (scv_folds c) []) (length (sd_data (scv_set c)))) (scv_set c).

End Poly.

Arguments sdata : clear implicits.
Arguments scv : clear implicits.
